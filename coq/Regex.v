(* Regex.v — regular expressions over bytes with Brzozowski derivatives (the semantics of the
   patterns in Compiler/src/lexer.l).  Definitions only; Proofs_Lexer.v relates matches_b to the
   declarative relation Matches of SpecLex.v. *)
From Theo Require Import Base.
Local Open Scope N_scope.

Inductive regex :=
| Empty                                   (* no string *)
| Eps                                     (* the empty string *)
| Chr (c : N)
| Rng (neg : bool) (rs : list (N * N))    (* [a-bc-d] / [^...] ; one byte *)
| Cat (a b : regex)
| Alt (a b : regex)
| Star (a : regex).

Definition in_rng (c : N) (rs : list (N * N)) : bool :=
  existsb (fun r => (fst r <=? c) && (c <=? snd r)) rs.
Definition cmatch (neg : bool) (rs : list (N * N)) (c : N) : bool := xorb neg (in_rng c rs).

(* flex: '.' is any byte except newline;  r+ = r r*;  r? = r | eps *)
Definition Any : regex := Rng true [(10, 10)].
Definition Plus (r : regex) : regex := Cat r (Star r).
Definition Opt (r : regex) : regex := Alt r Eps.
Fixpoint Lit (s : list N) : regex :=
  match s with [] => Eps | [c] => Chr c | c :: t => Cat (Chr c) (Lit t) end.

Fixpoint nullable (r : regex) : bool :=
  match r with
  | Empty => false | Eps => true | Chr _ => false | Rng _ _ => false
  | Cat a b => nullable a && nullable b
  | Alt a b => nullable a || nullable b
  | Star _ => true
  end.

(* smart constructors: keep derivatives small, and make a dead regex literally Empty *)
Definition cat (a b : regex) : regex :=
  match a, b with
  | Empty, _ => Empty
  | _, Empty => Empty
  | Eps, _ => b
  | _, Eps => a
  | _, _ => Cat a b
  end.
Definition alt (a b : regex) : regex :=
  match a, b with
  | Empty, _ => b
  | _, Empty => a
  | _, _ => Alt a b
  end.

Fixpoint deriv (c : N) (r : regex) : regex :=
  match r with
  | Empty => Empty
  | Eps => Empty
  | Chr d => if c =? d then Eps else Empty
  | Rng neg rs => if cmatch neg rs c then Eps else Empty
  | Cat a b => if nullable a then alt (cat (deriv c a) b) (deriv c b) else cat (deriv c a) b
  | Alt a b => alt (deriv c a) (deriv c b)
  | Star a => cat (deriv c a) (Star a)
  end.

Fixpoint derivs (s : list N) (r : regex) : regex :=
  match s with [] => r | c :: t => derivs t (deriv c r) end.

Definition matches_b (r : regex) (s : list N) : bool := nullable (derivs s r).

Definition is_empty (r : regex) : bool := match r with Empty => true | _ => false end.
