(* Proofs_C07s5a.v — C07 with calls (stage 5), part 1: the STATIC part, the joint invariant with line_info.
   J4x = J4 (Proofs_C01s4h.v) together with JLI4: for every RSite l of the reference code of the routine under
   construction, line_info at the VM position of its block (the POTENTIAL_BREAK) is the break point (file, line) = l.
   Every primitive step of the two traversals preserves J4x (as Proofs_C07b.v does for stage 3); the statements are
   those of Proofs_C01s4h.v with J4x for J4, so that the walk of stage 4 can be repeated word for word. *)
From Coq Require Import List ZArith NArith Lia Bool.
From Theo Require Import Base Tokens Errors MacroExtract Parser VMModel VMSpec GenModel Compile RefSem RefSemChk C01Statements C01Stages C01Stages3 C01Stages4 Gen_Consts Proofs_VM_mem Proofs_VM_dbg Proofs_Gen0 Proofs_Gen Proofs_Sem Proofs_C01a Proofs_C01b Proofs_C01 Proofs_C01s2a Proofs_C01s2b Proofs_C01s2c Proofs_C01s2d Proofs_C01s2 Proofs_C01s3a Proofs_C01s3b Proofs_C01s3c Proofs_C01s3d Proofs_C01s4a Proofs_C01s4b Proofs_C01s4g Proofs_C01s4h Proofs_C07b.
Import ListNotations.
Local Open Scope Z_scope.

Lemma boff4_mono rc : forall n m, (n <= m)%nat -> boff4 rc n <= boff4 rc m.
Proof.
  induction rc as [|i t IH]; intros [|n] [|m] H; cbn [boff4]; try lia.
  - pose proof (blen4_nonneg i). pose proof (boff4_nonneg t m). lia.
  - specialize (IH n m ltac:(lia)). lia.
Qed.

(* the block length of an instruction that is not a site *)
Definition bl4x (i : rinstr) : option Z := if is_site i then None else Some (blen4 i).

Section Joint4x.
  Variable P0 : Z.
  Variable FT : ftab.
  Variable LS : list Z.

  Definition JLI4 (li : list (Z * bp)) (rcode : list rinstr) : Prop :=
    forall pc l, znth rcode pc = Some (RSite l) -> alookup z_ltb li (pm_of4 P0 rcode pc) = Some (bp_of l).

  Lemma JLI4_bemit li rc i : JLI4 li rc -> is_site i = false -> JLI4 li (rc ++ [i]).
  Proof.
    intros H Hi pc l Hz. apply znth_snoc_inv in Hz. destruct Hz as [[Hlt Hz]|[_ E]].
    - rewrite pm_of4_app by lia. apply H; exact Hz.
    - subst i. discriminate Hi.
  Qed.

  Definition J4x (g : gstate) (s : fstate) (lmap : list Z) (p : Z) : Prop :=
    J4 P0 FT LS g s lmap p /\ JLI4 (g_li g) (b_code (f_cur s)).

  Lemma J4x_J4 g s lmap p : J4x g s lmap p -> J4 P0 FT LS g s lmap p.
  Proof. intros [H _]. exact H. Qed.

  Lemma Jx_pos g s lmap p : J4x g s lmap p -> f_pos s = gpos g.
  Proof. intros ((_ & _ & H & _) & _). exact H. Qed.

  Lemma Lx_var g s lmap p x : lexable x = true -> J4x g s lmap p ->
    exists g1, fetch_variable g x = Ok (g1, ks_ix (gks g) x) /\
      J4x g1 (with_cur s (mention (f_cur s) x)) lmap p /\ Ext g g1 /\ Same g g1 /\
      FExt s (with_cur s (mention (f_cur s) x)) /\ RV g1 x (ks_ix (gks g) x) /\
      (forall t r, znth (gregs g) t = Some r -> znth (gregs g1) t = Some r).
  Proof.
    intros Hx [HJ HL]. destruct (L4_var P0 FT LS g s lmap p x Hx HJ) as (g1 & E1 & J1 & R).
    exists g1. split; [exact E1|]. split; [|exact R]. split; [exact J1|].
    rewrite (fetch_variable_li _ _ _ _ E1). cbn [with_cur f_cur]. rewrite b_code_mention. exact HL.
  Qed.

  Lemma Lx_cnt g s lmap p : J4x g s lmap p ->
    exists g1 c, fetch_variable (loops_incr g) (loop_counter_name (loops_incr g)) = Ok (g1, c) /\
      J4x g1 (mkF (f_done s) (f_names s) (f_cur s) (f_pos s) (f_loops s + 1)) lmap p /\ Ext g g1 /\
      RC g1 (g_loops g + 1) c /\
      g_code g1 = g_code g /\ gpos g1 = gpos g /\ g_loops g1 = g_loops g + 1.
  Proof.
    intros [HJ HL]. destruct (L4_cnt P0 FT LS g s lmap p HJ) as (g1 & c & E1 & J1 & R).
    exists g1, c. split; [exact E1|]. split; [|exact R]. split; [exact J1|].
    rewrite (fetch_variable_li _ _ _ _ E1). exact HL.
  Qed.

  Lemma Lx_tmp g s lmap p : J4x g s lmap p ->
    exists g1 t, fetch_temporary g = Ok (g1, t) /\ J4x g1 s lmap p /\ Ext g g1 /\ Same g g1 /\ RT g1 t /\
      (exists r, znth (gregs g1) t = Some r /\ in_use r = true) /\
      (forall t' r', znth (gregs g) t' = Some r' -> in_use r' = true ->
                     t' <> t /\ exists r'', znth (gregs g1) t' = Some r'' /\ in_use r'' = true).
  Proof.
    intros [HJ HL]. destruct (L4_tmp P0 FT LS g s lmap p HJ) as (g1 & t & E1 & J1 & R).
    exists g1, t. split; [exact E1|]. split; [|exact R]. split; [exact J1|].
    rewrite (fetch_temporary_li _ _ _ E1). exact HL.
  Qed.

  Lemma Lx_rel g s lmap p t : J4x g s lmap p -> RT g t ->
    exists g1, release_temporary g t = Ok g1 /\ J4x g1 s lmap p /\ Ext g g1 /\ Same g g1.
  Proof.
    intros [HJ HL] Ht. destruct (L4_rel P0 FT LS g s lmap p t HJ Ht) as (g1 & E1 & J1 & R).
    exists g1. split; [exact E1|]. split; [|exact R]. split; [exact J1|].
    rewrite (release_temporary_li _ _ _ E1). exact HL.
  Qed.

  Lemma Lx_emit g s lmap p ins : J4x g s lmap p -> J4x (emit g ins) s lmap (p + 1) /\ Ext g (emit g ins).
  Proof.
    intros [HJ HL]. destruct (L4_emit P0 FT LS g s lmap p ins HJ) as [J1 X1].
    split; [|exact X1]. split; [exact J1 | exact HL].
  Qed.

  Lemma Lx_emit_bp g s lmap p ins : J4x g s lmap p ->
    J4x (emit_backpatched g ins) s lmap (p + 1) /\ Ext g (emit_backpatched g ins) /\
    In (zlen (g_code g)) (g_todo (emit_backpatched g ins)).
  Proof.
    intros [HJ HL]. destruct (L4_emit_bp P0 FT LS g s lmap p ins HJ) as (J1 & R).
    split; [|exact R]. split; [exact J1 | exact HL].
  Qed.

  Lemma Lx_bemit g s lmap p i : J4x g s lmap p -> bl4x i = Some p ->
    imatch4 (RMof (gks g)) (g_code g) FT (jpre3 lmap (gmarks g) (g_todo g)) (zlen (g_code g) - p) i ->
    J4x g (with_cur s (bemit (f_cur s) i)) lmap 0 /\ FExt s (with_cur s (bemit (f_cur s) i)).
  Proof.
    intros [HJ HL] Hb Hi. unfold bl4x in Hb. destruct (is_site i) eqn:Hs; [discriminate|]. inversion Hb as [Hb'].
    destruct (L4_bemit P0 FT LS g s lmap p i HJ Hb' Hi) as [J1 F1].
    split; [|exact F1]. split; [exact J1|]. cbn [with_cur f_cur bemit b_code]. apply JLI4_bemit; assumption.
  Qed.

  Lemma Lx_site g s lmap line file : J4x g s lmap 0 ->
    J4x (advance_line g line file) (move_to s file line) lmap 0 /\ Ext g (advance_line g line file) /\
    FExt s (move_to s file line) /\ at_loc (gpos (advance_line g line file)) file line.
  Proof.
    intros [HJ HL]. destruct (L4_site P0 FT LS g s lmap line file HJ) as (J1 & R).
    split; [|exact R]. split; [exact J1|].
    pose proof HJ as (H0 & HB & Hp & Hl).
    assert (Hmoved : forall F, F = file ->
      JLI4 (g_li (breakpoint (upd_fs g F line)))
           (b_code (f_cur (mkF (f_done s) (f_names s) (bemit (f_cur s) (RSite (file, line))) (file, line) (f_loops s))))).
    { intros F ->. cbn [f_cur bemit b_code].
      change (g_li (breakpoint (upd_fs g file line))) with (ainsert z_ltb (g_li g) (zlen (g_code g)) (mkBP file line)).
      destruct HB as ((HClen & _ & _) & _).
      intros pc l Hz. rewrite z_lookup_insert. apply znth_snoc_inv in Hz. destruct Hz as [[Hlt Hz]|[-> E]].
      - rewrite pm_of4_app by lia.
        destruct (keqb_z_dec (zlen (g_code g)) (pm_of4 P0 (b_code (f_cur s)) pc)) as [[_ E]|[-> _]]; [|apply HL; exact Hz].
        exfalso. pose proof (znth_some_range _ _ _ Hz) as Rg.
        pose proof (boff4_S _ _ _ (znth_nth_error _ _ _ Hz)) as HS. cbn [blen4 blen3 blen] in HS.
        pose proof (boff4_mono (b_code (f_cur s)) (S (Z.to_nat pc)) (length (b_code (f_cur s)))) as Hm.
        unfold zlen in Rg. specialize (Hm ltac:(lia)). unfold pm_of4 in E. lia.
      - inversion E; subst l.
        rewrite pm_of4_app by lia. unfold pm_of4, zlen at 1. rewrite Nat2Z.id.
        replace (P0 + boff4 (b_code (f_cur s)) (length (b_code (f_cur s)))) with (zlen (g_code g)) by lia.
        rewrite (proj2 (z_keqb_eq _ _) eq_refl). reflexivity. }
    unfold advance_line, move_to. rewrite Hp. unfold gpos. cbn [fst snd].
    destruct (str_eqb file hidden_file); [exact HL|].
    destruct (str_eqb (g_fsname g) file) eqn:E2.
    - apply str_eqb_eq in E2. rewrite (Z.eqb_sym line). destruct (g_fsline g =? line); cbn [andb]; [exact HL|].
      apply Hmoved. exact E2.
    - cbn [andb]. apply Hmoved. reflexivity.
  Qed.

  Lemma Lx_newlab g s lmap p : J4x g s lmap p ->
    J4x (fst (create_label g)) (with_cur s (fst (new_target (f_cur s)))) (lmap ++ [zlen (g_labels g)]) p /\
    Ext g (fst (create_label g)) /\ FExt s (with_cur s (fst (new_target (f_cur s)))) /\
    znth (lmap ++ [zlen (g_labels g)]) (zlen (b_targets (f_cur s))) = Some (zlen (g_labels g)).
  Proof.
    intros [HJ HL]. destruct (L4_newlab P0 FT LS g s lmap p HJ) as (J1 & R).
    split; [|exact R]. split; [exact J1 | exact HL].
  Qed.

  Lemma Lx_setlab g s lmap e lab : J4x g s lmap 0 -> znth lmap e = Some lab ->
    exists ls, GenModel.set_label g lab (next_pos g) = Ok (upd_labels g ls) /\
      J4x (upd_labels g ls) (with_cur s (set_target (f_cur s) e (bnext (f_cur s)))) lmap 0 /\
      Ext g (upd_labels g ls) /\ FExt s (with_cur s (set_target (f_cur s) e (bnext (f_cur s)))).
  Proof.
    intros [HJ HL] He. destruct (L4_setlab P0 FT LS g s lmap e lab HJ He) as (ls & E1 & J1 & R).
    exists ls. split; [exact E1|]. split; [|exact R]. split; [exact J1|].
    cbn [with_cur f_cur]. rewrite b_code_set_target. exact HL.
  Qed.

  Lemma Lx_ensure g s lmap p nm : J4x g s lmap p ->
    exists g1 lab, ensure_mark g nm = Ok (g1, lab) /\
      J4x g1 (with_cur s (touch_label (f_cur s) nm)) lmap p /\ Ext g g1 /\
      FExt s (with_cur s (touch_label (f_cur s) nm)) /\
      alookup str_ltb (gmarks g1) nm = Some lab /\
      g_code g1 = g_code g /\ g_todo g1 = g_todo g /\ gpos g1 = gpos g /\ gks g1 = gks g.
  Proof.
    intros [HJ HL]. destruct (L4_ensure P0 FT LS g s lmap p nm HJ) as (g1 & lab & E1 & J1 & R).
    exists g1, lab. split; [exact E1|]. split; [|exact R]. split; [exact J1|].
    rewrite (ensure_mark_li _ _ _ _ E1). cbn [with_cur f_cur]. rewrite b_code_touch_label. exact HL.
  Qed.

  Lemma Lx_mark g s lmap nm g' : J4x g s lmap 0 ->
    (do rm <- ensure_mark g nm; let '(g1, lab) := rm in
     do pos <- get_mark_pos g1; GenModel.set_label g1 lab pos) = Ok g' ->
    J4x g' (with_cur s (RefSem.set_label (f_cur s) nm (mark_pos (f_cur s)))) lmap 0 /\ Ext g g' /\
    FExt s (with_cur s (RefSem.set_label (f_cur s) nm (mark_pos (f_cur s)))) /\ gpos g' = gpos g.
  Proof.
    intros [HJ HL] H. destruct (L4_mark P0 FT LS g s lmap nm g' HJ H) as (J1 & R).
    split; [|exact R]. split; [exact J1|].
    rewrite (mark_li _ _ _ H). exact HL.
  Qed.
End Joint4x.
