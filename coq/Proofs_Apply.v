(* Proofs_Apply.v — macro extraction delivers well-formed macros (C02), a detection is a match in the
   declarative sense (C09), macro application is total on end-of-file terminated streams (C02). *)
From Coq Require Import List ZArith NArith Lia Bool Sorting.Sorted.
From Theo Require Import Base Tokens Errors MacroExtract Grammar LR Gen_MacroGrammar Gen_Consts MacroApply SpecMacro SpecLR LRStatements CompileStatements ApplyStatements Proofs_First Proofs_LRSound0 Proofs_LRSound Proofs_Macro Proofs_Front.
From Theo Require Import Proofs_Apply0.
Import ListNotations.
Local Open Scope Z_scope.

(* ================================================================================================ *)
(* 1. C02_extract_macros_ok                                                                          *)
(* ================================================================================================ *)
Definition rpost {A} (r : result A) (P : A -> Prop) : Prop := forall a, r = Ok a -> P a.

Lemma rpost_ok {A} (a : A) (P : A -> Prop) : P a -> rpost (Ok a) P.
Proof. intros H b E. inversion E; subst; exact H. Qed.

Lemma rpost_bind {A B} (r : result A) (f : A -> result B) (P : A -> Prop) (Q : B -> Prop) :
  rpost r P -> (forall a, P a -> rpost (f a) Q) -> rpost (bind r f) Q.
Proof.
  intros HP HQ b E. destruct r as [a| |]; cbn [bind] in E; try discriminate.
  eapply HQ; [apply HP; reflexivity|exact E].
Qed.

Lemma rpost_bind_any {A B} (r : result A) (f : A -> result B) (Q : B -> Prop) :
  (forall a, rpost (f a) Q) -> rpost (bind r f) Q.
Proof. intros H. apply rpost_bind with (P := fun _ => True); [intros a _; exact I|auto]. Qed.

Lemma rpost_self {A} (r : result A) : rpost r (fun a => r = Ok a).
Proof. intros a E; exact E. Qed.

(* the part of macro_ok that holds while a definition is being read *)
Definition mok0 (m : macrodef) : Prop :=
  noeof (m_rule m) /\ noeof (m_repl m) /\
  Forall (fun i => 0 <= i < zlen (m_rule m)) (m_cc m) /\
  Forall (fun i => 0 <= i < zlen (m_rule m)) (m_tt m).
Definition sinv (x : xstate) : Prop := Forall mok0 (x_macros x).

Lemma Forall_rev_iff {A} (P : A -> Prop) l : Forall P (rev l) <-> Forall P l.
Proof. rewrite !Forall_forall. split; intros H x Hx; apply H; [apply -> in_rev|apply <- in_rev]; exact Hx. Qed.

Section XOk.
  Variable tokens : list token.

  Lemma lookahead_tok x la : lookahead tokens (x_pos x) = Ok la -> la <> T_EOF ->
    forall l, znth tokens (x_pos x) = Some l -> tk l = la.
  Proof.
    unfold lookahead. intros H NE l Hl. destruct (MacroExtract.size tokens <=? x_pos x).
    - inversion H; congruence.
    - rewrite Hl in H. cbn [of_opt bind] in H. inversion H; reflexivity.
  Qed.

  Lemma err_here_sinv x k : sinv x -> rpost (err_here tokens x k) (fun x' => sinv x' /\ x_pos x' = x_pos x).
  Proof.
    intros H. unfold err_here. apply rpost_bind_any. intros t. apply rpost_ok. split; [exact H|reflexivity].
  Qed.

  Lemma xmatch_sinv x k : sinv x -> rpost (xmatch tokens x k) (fun r => sinv (fst r)).
  Proof.
    intros H. unfold xmatch. apply rpost_bind_any. intros la. destruct (tk_eqb la k).
    - apply rpost_ok. exact H.
    - eapply rpost_bind; [apply err_here_sinv; exact H|]. intros x1 [H1 _]. apply rpost_ok. exact H1.
  Qed.

  Lemma advance_sinv x : sinv x -> rpost (advance tokens x) sinv.
  Proof.
    intros H. unfold advance. apply rpost_bind_any. intros la.
    eapply rpost_bind; [apply xmatch_sinv; exact H|]. intros r Hr. apply rpost_ok. exact Hr.
  Qed.

  Lemma copy_sinv x : sinv x -> rpost (copy tokens x) sinv.
  Proof. intros H. unfold copy. apply rpost_bind_any. intros t. apply rpost_ok. exact H. Qed.

  Lemma strToInt_sinv x s : sinv x ->
    rpost (strToInt tokens x s) (fun r => sinv (fst r) /\ snd r = strToIntSilent s).
  Proof.
    intros H. unfold strToInt. apply rpost_bind_any. intros t. apply rpost_ok. cbn [fst snd].
    split; [|reflexivity]. destruct (INT_MAX <=? strtol s); exact H.
  Qed.

  Lemma push_macro_sinv x : sinv x -> sinv (push_macro x).
  Proof.
    intros H. unfold sinv, push_macro. cbn [x_macros]. apply Forall_app. split; [exact H|].
    constructor; [|constructor]. repeat split; constructor.
  Qed.

  Lemma pop_macro_sinv x : sinv x -> rpost (pop_macro x) sinv.
  Proof.
    intros H. unfold pop_macro. unfold sinv in H. rewrite <- Forall_rev_iff in H.
    destruct (rev (x_macros x)) as [|m r]; [intros a E; discriminate|].
    apply rpost_ok. unfold sinv. cbn [x_macros]. apply Forall_rev_iff. inversion H; assumption.
  Qed.

  Lemma upd_back_sinv x f : sinv x -> (forall m, mok0 m -> mok0 (f m)) -> rpost (upd_back x f) sinv.
  Proof.
    intros H Hf. unfold upd_back. unfold sinv in H. rewrite <- Forall_rev_iff in H.
    destruct (rev (x_macros x)) as [|m r]; [intros a E; discriminate|].
    apply rpost_ok. unfold sinv. cbn [x_macros]. apply Forall_rev_iff. inversion H; subst.
    constructor; auto.
  Qed.

  Lemma Forall_range_snoc (l : list Z) (n : Z) (rule : list token) (t : token) :
    Forall (fun i => 0 <= i < zlen rule) l -> Forall (fun i => 0 <= i < zlen (rule ++ [t])) l.
  Proof.
    intros H. eapply Forall_impl; [|exact H]. intros i Hi. cbv beta in *. rewrite zlen_app.
    pose proof (zlen_nonneg [t]). lia.
  Qed.

  Lemma push_rule_sinv x la : sinv x -> lookahead tokens (x_pos x) = Ok la -> la <> T_EOF ->
    rpost (push_rule tokens x) sinv.
  Proof.
    intros H HL NE. unfold push_rule. eapply rpost_bind; [apply rpost_self|]. intros l Hl.
    apply of_opt_Ok in Hl. pose proof (lookahead_tok x la HL NE l Hl) as K.
    assert (KL : tk l <> T_EOF) by congruence.
    apply upd_back_sinv; [exact H|]. intros m (M1 & M2 & M3 & M4).
    assert (R' : noeof (m_rule m ++ [l])) by (apply Forall_app; split; [exact M1|constructor; [exact KL|constructor]]).
    assert (C3 : Forall (fun i => 0 <= i < zlen (m_rule m ++ [l])) (m_cc m)) by (apply (Forall_range_snoc _ 0); exact M3).
    assert (C4 : Forall (fun i => 0 <= i < zlen (m_rule m ++ [l])) (m_tt m)) by (apply (Forall_range_snoc _ 0); exact M4).
    assert (IX : Forall (fun i => 0 <= i < zlen (m_rule m ++ [l])) [zlen (m_rule m ++ [l]) - 1]).
    { constructor; [|constructor]. rewrite zlen_app. pose proof (zlen_nonneg (m_rule m)).
      change (zlen [l]) with 1. lia. }
    destruct (tk l); unfold mok0; cbn [m_rule m_repl m_cc m_tt];
      (split; [exact R'|]); (split; [exact M2|]);
      first [ split; [exact C3|exact C4]
            | split; [apply Forall_app; split; [exact C3|exact IX]|exact C4]
            | split; [exact C3|apply Forall_app; split; [exact C4|exact IX]] ].
  Qed.

  Lemma push_replacement_sinv x la : sinv x -> lookahead tokens (x_pos x) = Ok la -> la <> T_EOF ->
    rpost (push_replacement tokens x) sinv.
  Proof.
    intros H HL NE. unfold push_replacement. eapply rpost_bind; [apply rpost_self|]. intros l Hl.
    apply of_opt_Ok in Hl. pose proof (lookahead_tok x la HL NE l Hl) as K.
    assert (KL : tk l <> T_EOF) by congruence.
    apply upd_back_sinv; [exact H|]. intros m (M1 & M2 & M3 & M4).
    unfold mok0; cbn [m_rule m_repl m_cc m_tt]. split; [exact M1|]. split; [|split; assumption].
    apply Forall_app; split; [exact M2|constructor; [exact KL|constructor]].
  Qed.

  Ltac rp_side := cbn [fst snd] in *; first [assumption | discriminate].

  Ltac rp1 HLA :=
    match goal with
    | |- rpost (Ok _) _ => apply rpost_ok; cbn [fst snd]; try assumption
    | |- rpost (bind (advance _ _) _) _ => eapply rpost_bind; [apply advance_sinv; rp_side|intros ? ?]
    | |- rpost (bind (err_here _ _ _) _) _ => eapply rpost_bind; [apply err_here_sinv; rp_side|intros ? [? ?]]
    | |- rpost (bind (copy _ _) _) _ => eapply rpost_bind; [apply copy_sinv; rp_side|intros ? ?]
    | |- rpost (bind (xmatch _ _ _) _) _ => eapply rpost_bind; [apply xmatch_sinv; rp_side|intros [? ?] ?]
    | |- rpost (bind (pop_macro _) _) _ => eapply rpost_bind; [apply pop_macro_sinv; rp_side|intros ? ?]
    | |- rpost (bind (push_rule _ _) _) _ =>
        eapply rpost_bind; [eapply push_rule_sinv; [rp_side|exact HLA|discriminate]|intros ? ?]
    | |- rpost (bind (push_replacement _ _) _) _ =>
        eapply rpost_bind; [eapply push_replacement_sinv; [rp_side|exact HLA|discriminate]|intros ? ?]
    | |- rpost (bind (if ?p then _ else _) _) _ => destruct p
    | |- rpost (bind (Ok _) _) _ => cbn [bind]
    end.

  Lemma xstep_sinv mode x : sinv x -> rpost (xstep tokens mode x) (fun r => sinv (snd r)).
  Proof.
    intros H. unfold xstep. eapply rpost_bind; [apply rpost_self|]. intros la HLA.
    destruct mode as [| | |pop|].
    - (* S *)
      destruct la; cbv beta iota; try solve [repeat rp1 HLA].
      (* DEFINE *)
      eapply rpost_bind; [apply advance_sinv; exact H|]. intros x1 H1.
      pose proof (push_macro_sinv x1 H1) as H2. cbv zeta.
      apply rpost_bind_any. intros la2.
      destruct la2; cbv beta iota; try (apply rpost_ok; exact H2).
      eapply rpost_bind; [apply advance_sinv; exact H2|]. intros x3 H3.
      eapply rpost_bind; [apply xmatch_sinv; exact H3|]. intros [x4 ok] H4. cbn [fst] in H4.
      destruct ok; [|apply rpost_ok; exact H4].
      apply rpost_bind_any. intros t.
      eapply rpost_bind; [apply strToInt_sinv; exact H4|]. intros [x5 v] [H5 _]. cbn [fst] in H5.
      eapply rpost_bind; [apply upd_back_sinv; [exact H5|]|].
      { intros m M. exact M. }
      intros x6 H6. apply rpost_ok. exact H6.
    - destruct la; cbv beta iota; repeat rp1 HLA.
    - destruct la; cbv beta iota; repeat rp1 HLA.
    - destruct la; cbv beta iota; repeat rp1 HLA.
    - apply rpost_ok. exact H.
  Qed.

  Lemma xrun_sinv : forall fuel mode x, sinv x -> rpost (xrun tokens fuel mode x) sinv.
  Proof.
    induction fuel as [|f IH]; intros mode x H.
    - destruct mode; cbn [xrun]; try (intros a E; discriminate). apply rpost_ok; exact H.
    - destruct mode; cbn [xrun]; try (apply rpost_ok; exact H);
        (eapply rpost_bind; [apply xstep_sinv; exact H|]; intros r Hr; apply IH; exact Hr).
  Qed.

  Definition ins_ok (ntt : Z) (t : token) : Prop :=
    tk t = INSERTION -> 0 <= strToIntSilent (tl (ttext t)) < ntt.

  Lemma validate_repl_spec ntt : forall repl x, noeof repl ->
    rpost (validate_repl tokens x ntt repl) (fun r => noeof (snd r) /\ Forall (ins_ok ntt) (snd r)).
  Proof.
    induction repl as [|t rest IH]; intros x N.
    - cbn [validate_repl]. apply rpost_ok. split; constructor.
    - inversion N as [|t' r' Nt Nr]; subst. cbn [validate_repl].
      assert (DEF : tk t <> INSERTION ->
                rpost (do r2 <- validate_repl tokens x ntt rest; Ok (fst r2, t :: snd r2))
                      (fun r => noeof (snd r) /\ Forall (ins_ok ntt) (snd r))).
      { intros K. eapply rpost_bind; [apply IH; exact Nr|]. intros r2 [A B]. apply rpost_ok. cbn [snd].
        split; constructor; auto. intros C; contradiction. }
      destruct (tk t) eqn:K; try (apply DEF; discriminate).
      eapply rpost_bind; [apply rpost_self|]. intros [x1 ind] HS.
      assert (EI : ind = strToIntSilent (tl (ttext t))).
      { unfold strToInt in HS. bind_inv HS t0 Ht0. inversion HS. reflexivity. }
      cbv beta iota. destruct ((ind <? 0) || (ntt <=? ind)) eqn:C.
      + eapply rpost_bind; [apply IH; exact Nr|]. intros r2 [A B]. apply rpost_ok. cbn [snd].
        split; [constructor; [cbn [tk]; discriminate|exact A]|]. constructor; [|exact B].
        intros D; discriminate D.
      + eapply rpost_bind; [apply IH; exact Nr|]. intros r2 [A B]. apply rpost_ok. cbn [snd].
        split; [constructor; [rewrite K; discriminate|exact A]|]. constructor; [|exact B].
        intros _. apply orb_false_iff in C. destruct C as [C1 C2].
        apply Z.ltb_ge in C1. apply Z.leb_gt in C2. rewrite <- EI. lia.
  Qed.

  Lemma validate_macros_spec : forall ms x, Forall mok0 ms ->
    rpost (validate_macros tokens x ms) (fun r => Forall macro_ok (snd r)).
  Proof.
    induction ms as [|m rest IH]; intros x F.
    - cbn [validate_macros]. apply rpost_ok. constructor.
    - inversion F as [|m' r' (M1 & M2 & M3 & M4) Fr]; subst. cbn [validate_macros].
      eapply rpost_bind; [apply validate_repl_spec; exact M2|]. intros [x1 repl'] [A B]. cbn [snd] in A, B.
      eapply rpost_bind; [apply IH; exact Fr|]. intros r2 Hr2. apply rpost_ok. cbn [snd].
      constructor; [|exact Hr2]. unfold macro_ok. cbn [m_rule m_repl m_cc m_tt].
      split; [exact M1|]. split; [exact A|]. split; [exact M3|]. split; [exact M4|exact B].
  Qed.
End XOk.

Lemma C02_extract_macros_ok_proof : C02_extract_macros_ok_stmt.
Proof.
  intros toks errs out macros H. unfold extract_macros in H.
  bind_inv H x Hx. bind_inv H r Hr. inversion H; subst.
  apply (validate_macros_spec toks (x_macros x) x); [|exact Hr].
  apply (xrun_sinv toks (4 + length toks)%nat mS (mkX [] [] 0 [])); [apply Forall_nil|exact Hx].
Qed.

(* ================================================================================================ *)
(* 2. C09_detect_sound                                                                               *)
(* ================================================================================================ *)
Lemma C09_detect_sound_proof : C09_detect_sound_stmt.
Proof.
  intros m d input r MO HM HD. pose proof (macro_ok_rule m MO) as R. unfold detect in HD.
  destruct (detect_facts m d input 0 r R HM HD) as (pre & rest & ch & E & L & NE & LN & MT & RT & Q & CC).
  rewrite L, LN, MT. replace (0 + zlen pre) with (zlen pre) by lia.
  split; [apply zlen_nonneg|]. split; [apply zlen_nonneg|]. split.
  { rewrite E, !zlen_app. pose proof (zlen_nonneg rest). lia. }
  split.
  { rewrite !to_nat_zlen. rewrite E. rewrite skipn_app_len, firstn_app_len. reflexivity. }
  split; [apply matched_length; exact RT|]. split.
  - intros i p range Hp Hr. eapply macro_children; eauto.
  - intros c p Hc Hp. eapply check_constraint_true; eauto.
Qed.

(* ================================================================================================ *)
(* 3. C02_apply_total                                                                                *)
(* ================================================================================================ *)
Definition gdet (d : detector) : Prop := exists m, macro_ok m /\ make_detector m = Ok d.

Lemma gdet_macro d m : make_detector m = Ok d -> d_macro d = m.
Proof. intros H. destruct (make_detector_inv _ _ H) as (g' & tab & confs & states & _ & ->). reflexivity. Qed.

Lemma detect_all_total ds input : Forall gdet ds -> eof_terminated input ->
  detect_all ds input = Fuel \/ exists found, detect_all ds input = Ok found.
Proof.
  intros GD ET. induction GD as [|d ds (m & MO & HM) GD IH].
  - right. eexists. reflexivity.
  - rewrite detect_all_cons. unfold detect.
    destruct (detect_from_total m d MO HM input 0 (eofterm_ends _ ET)) as [E|(r & E)]; rewrite E; cbn [bind].
    + left; reflexivity.
    + destruct IH as [E2|(more & E2)]; rewrite E2; cbn [bind]; [left; reflexivity|].
      right. destruct r; eexists; reflexivity.
Qed.

Lemma instantiate_ok m fl (matched : list (list token)) pass :
  Forall (fun i => 0 <= i < zlen matched) (m_tt m) -> Forall noeof matched ->
  forall body, noeof body -> Forall (ins_ok (zlen (m_tt m))) body ->
  exists repl, instantiate m fl matched pass body = Ok repl /\ noeof repl.
Proof.
  intros TT NM. induction body as [|cand rest IH]; intros NB NI.
  - exists []. split; [reflexivity|constructor].
  - inversion NB as [|c' r' Nc Nr]; subst. inversion NI as [|c'' r'' Ic Ir]; subst.
    destruct (IH Nr Ir) as (more & E & N).
    rewrite instantiate_cons, E. cbn [bind].
    assert (DEF : exists repl, Ok (cand :: more) = Ok repl /\ noeof repl).
    { eexists. split; [reflexivity|]. constructor; assumption. }
    destruct (tk cand) eqn:K; try exact DEF.
    + destruct (xe_znth_some (m_tt m) _ (Ic K)) as (slot & E1 & I1). rewrite E1. cbn [of_opt bind].
      rewrite Forall_forall in TT. destruct (xe_znth_some matched slot (TT _ I1)) as (ins & E2 & I2).
      rewrite E2. cbn [of_opt bind]. eexists. split; [reflexivity|].
      apply Forall_app. split; [|exact N]. rewrite Forall_forall in NM. apply NM. exact I2.
    + eexists. split; [reflexivity|]. constructor; [cbn [tk]; discriminate|exact N].
Qed.

Lemma get_replacement_ok m r pass : macro_ok m -> length (r_matched r) = length (m_rule m) ->
  Forall noeof (r_matched r) -> exists repl, get_replacement m r pass = Ok repl /\ noeof repl.
Proof.
  intros (M1 & M2 & M3 & M4 & M5) L NM. unfold get_replacement.
  destruct (m_repl m) as [|t0 body] eqn:EB.
  - exists []. split; [reflexivity|constructor].
  - apply instantiate_ok; [|exact NM|exact M2|exact M5].
    unfold zlen in *. rewrite L. exact M4.
Qed.

Lemma eof_split (body : list token) e pre yld rest :
  body ++ [e] = pre ++ yld ++ rest -> yld ++ rest <> [] -> tk e = T_EOF -> noeof yld ->
  exists rest', rest = rest' ++ [e] /\ body = pre ++ yld ++ rest'.
Proof.
  intros E NE K NY. destruct rest as [|r0 rs] using rev_ind.
  - exfalso. rewrite app_nil_r in E, NE. destruct yld as [|y0 ys] using rev_ind; [congruence|].
    rewrite app_assoc in E. apply app_inj_tail in E. destruct E as [_ <-].
    apply Forall_app in NY. destruct NY as [_ NY]. inversion NY; contradiction.
  - clear IHrs. rewrite !app_assoc in E. apply app_inj_tail in E. destruct E as [E <-].
    exists rs. split; [reflexivity|]. rewrite E, app_assoc. reflexivity.
Qed.

Lemma skipn_app_len2 {A} (a b c : list A) : skipn (length a + length b) (a ++ b ++ c) = c.
Proof. induction a; cbn [length app Nat.add skipn]; [apply skipn_app_len|exact IHa]. Qed.

Lemma try_bin_total ds input pass : Forall gdet ds -> eof_terminated input ->
  try_bin false ds input pass = Fuel \/ try_bin false ds input pass = Ok None \/
  exists out, try_bin false ds input pass = Ok (Some out) /\ eof_terminated out.
Proof.
  intros GD ET. unfold try_bin.
  destruct (detect_all_total ds input GD ET) as [E|(found & E)]; rewrite E; cbn [bind]; [left; reflexivity|].
  right. destruct found as [|x rest]; [left; reflexivity|]. right.
  destruct (min_element_spec x rest) as [HI _].
  destruct (min_element false x rest) as [d r] eqn:EM.
  destruct (detect_all_sound _ _ _ E d r HI) as [Hd HD].
  rewrite Forall_forall in GD. destruct (GD d Hd) as (m & MO & HM).
  pose proof (macro_ok_rule m MO) as R. rewrite (gdet_macro d m HM). unfold detect in HD.
  destruct (detect_facts m d input 0 r R HM HD) as (pre & rest' & ch & EI & L & NE & LN & MT & RT & Q & CC).
  destruct (matched_noeof ch m Q) as [NM NY].
  destruct (get_replacement_ok m r pass MO) as (repl & ER & NR).
  { rewrite MT. apply matched_length. exact RT. }
  { rewrite MT. exact NM. }
  rewrite ER. cbn [bind]. rewrite L, LN. replace (0 + zlen pre) with (zlen pre) by lia.
  destruct (zlen input <? zlen pre + zlen (concat (map yield ch))) eqn:LT.
  { exfalso. apply Z.ltb_lt in LT. rewrite EI, !zlen_app in LT. pose proof (zlen_nonneg rest'). lia. }
  eexists. split; [reflexivity|].
  destruct ET as (body & e & EB & K & NB).
  rewrite EB in EI. destruct (eof_split body e pre _ rest' EI NE K NY) as (rs & -> & EB2).
  rewrite !to_nat_zlen. rewrite EB, EI. rewrite firstn_app_len, skipn_app_len2.
  exists (pre ++ repl ++ rs), e. split; [rewrite <- !app_assoc; reflexivity|]. split; [exact K|].
  rewrite EB2 in NB. apply Forall_app in NB. destruct NB as [N1 N2]. apply Forall_app in N2. destruct N2 as [_ N3].
  apply Forall_app. split; [exact N1|]. apply Forall_app. split; [exact NR|exact N3].
Qed.

Definition bins_gd (bins : list (Z * list detector)) : Prop := forall p l, In (p, l) bins -> Forall gdet l.

Lemma try_bins_total bins input pass : bins_gd bins -> eof_terminated input ->
  try_bins false bins input pass = Fuel \/ try_bins false bins input pass = Ok None \/
  exists out, try_bins false bins input pass = Ok (Some out) /\ eof_terminated out.
Proof.
  intros GB ET. induction bins as [|[k ds] bins IH].
  - right; left; reflexivity.
  - rewrite try_bins_cons.
    destruct (try_bin_total ds input pass (GB k ds (or_introl eq_refl)) ET) as [E|[E|(out & E & ET')]];
      rewrite E; cbn [bind].
    + left; reflexivity.
    + apply IH. intros p l Hp. apply (GB p l). right; exact Hp.
    + right; right. eauto.
Qed.

Lemma pass_loop_total bins : bins_gd bins -> forall n input pass, eof_terminated input ->
  pass_loop false n bins input pass = Fuel \/
  exists out ch, pass_loop false n bins input pass = Ok (out, ch) /\ eof_terminated out.
Proof.
  intros GB. induction n as [|k IH]; intros input pass ET.
  - right. exists input, false. split; [reflexivity|exact ET].
  - rewrite pass_loop_S.
    destruct (try_bins_total bins input pass GB ET) as [E|[E|(out & E & ET')]]; rewrite E; cbn [bind].
    + left; reflexivity.
    + right. exists input, false. split; [reflexivity|exact ET].
    + destruct k as [|k'].
      * right. exists out, true. split; [reflexivity|exact ET'].
      * apply IH. exact ET'.
Qed.

Lemma make_detectors_total defs : Forall macro_ok defs ->
  make_detectors defs = Fuel \/ exists ds, make_detectors defs = Ok ds /\ Forall gdet ds.
Proof.
  induction 1 as [|m defs MO F IH].
  - right. exists []. split; [reflexivity|constructor].
  - rewrite make_detectors_cons.
    destruct (make_detector_total m (macro_ok_rule m MO)) as [E|(d & E)]; rewrite E; cbn [bind]; [left; reflexivity|].
    destruct IH as [E2|(ds & E2 & GD)]; rewrite E2; cbn [bind]; [left; reflexivity|].
    right. exists (d :: ds). split; [reflexivity|]. constructor; [|exact GD]. exists m. split; assumption.
Qed.

Lemma split_usable_total ds : Forall gdet ds ->
  exists errs us, split_usable ds = Ok (errs, us) /\ Forall gdet us.
Proof.
  induction 1 as [|d ds (m & MO & HM) GD IH].
  - exists [], []. split; [reflexivity|constructor].
  - rewrite split_usable_cons. destruct (detector_errors_total m d HM) as (e & E). rewrite E. cbn [bind].
    destruct IH as (errs & us & E2 & GU). rewrite E2. cbn [bind fst snd].
    destruct e; do 2 eexists; (split; [reflexivity|]); [constructor; [exists m; split; assumption|exact GU]|exact GU].
Qed.

Lemma add_bin_gd bins d : bins_gd bins -> gdet d -> bins_gd (add_bin bins d).
Proof.
  intros GB GD. unfold add_bin.
  destruct (alookup Z.ltb bins (m_priority (d_macro d))) as [l|] eqn:EL; intros p l' HI;
    apply ainsert_in in HI; destruct HI as [HI|HI]; try (eapply GB; exact HI); inversion HI; subst.
  - apply alookup_in in EL. apply Forall_app. split; [eapply GB; exact EL|constructor; [exact GD|constructor]].
  - constructor; [exact GD|constructor].
Qed.

Lemma fold_add_bin_gd us : Forall gdet us -> forall bins, bins_gd bins -> bins_gd (fold_left add_bin us bins).
Proof.
  induction 1 as [|u us GU F IH]; intros bins GB; cbn [fold_left]; [exact GB|].
  apply IH. apply add_bin_gd; assumption.
Qed.

Lemma C02_apply_total_proof : C02_apply_total_stmt.
Proof.
  intros input defs passes ET FD. unfold apply_macros, apply_macros_gen.
  destruct (make_detectors_total defs FD) as [E|(ds & E & GD)]; rewrite E; cbn [bind]; [left; reflexivity|].
  destruct (split_usable_total ds GD) as (errs & us & E2 & GU). rewrite E2. cbn [bind]. cbv beta iota.
  assert (GB : bins_gd (rev (fold_left add_bin us []))).
  { intros p l HI. apply in_rev in HI. revert p l HI. apply fold_add_bin_gd; [exact GU|]. intros p l []. }
  destruct (pass_loop_total _ GB passes input 0 ET) as [E3|(out & ch & E3 & ET')]; rewrite E3; cbn [bind].
  - left; reflexivity.
  - right. do 2 eexists. split; [reflexivity|exact ET'].
Qed.

Print Assumptions C02_extract_macros_ok_proof.
Print Assumptions C09_detect_sound_proof.
Print Assumptions C02_apply_total_proof.
