(* Proofs_VM_dbg.v — proofs of the debugger-level VM theorems: the invariant [rel], C17 (reset),
   C05 (debugging is transparent) and C06 (the debugger stops exactly where asked).
   Statements are in VMStatements.v; nothing is assumed. *)
From Coq Require Import List ZArith Lia Bool Sorting.Sorted.
From Theo Require Import Base VMModel VMSpec VMStatements.
Import ListNotations.
Local Open Scope Z_scope.

(* ================================================================================================ *)
(* 1. the orders                                                                                    *)
(* ================================================================================================ *)
Lemma str_ltb_irrefl a : str_ltb a a = false.
Proof. induction a as [|x a IH]; cbn; auto. rewrite N.ltb_irrefl. exact IH. Qed.

Lemma str_ltb_tri a : forall b, str_ltb a b = false -> str_ltb b a = false -> a = b.
Proof.
  induction a as [|x a IH]; intros [|y b]; cbn; try congruence.
  destruct (N.ltb_spec x y), (N.ltb_spec y x); intros; try discriminate; try lia.
  f_equal; [lia | auto].
Qed.

Lemma str_ltb_trans a : forall b c, str_ltb a b = true -> str_ltb b c = true -> str_ltb a c = true.
Proof.
  induction a as [|x a IH]; intros [|y b] [|z c]; cbn; try congruence.
  destruct (N.ltb_spec x y), (N.ltb_spec y x), (N.ltb_spec y z), (N.ltb_spec z y),
           (N.ltb_spec x z), (N.ltb_spec z x); intros; try congruence; try lia; eauto.
Qed.

Lemma str_eqb_eq a : forall b, str_eqb a b = true <-> a = b.
Proof.
  induction a as [|x a IH]; intros [|y b]; cbn; split; try congruence; auto.
  - rewrite andb_true_iff, N.eqb_eq, IH. intros [-> ->]; reflexivity.
  - intros E; inversion E; subst. rewrite N.eqb_refl. cbn. apply IH; reflexivity.
Qed.

Lemma bp_ltb_spec x y :
  bp_ltb x y = true <->
  (str_ltb (bfile x) (bfile y) = true \/ (bfile x = bfile y /\ bline x < bline y)).
Proof.
  unfold bp_ltb. destruct (str_ltb (bfile x) (bfile y)) eqn:E1.
  { split; auto. }
  destruct (str_ltb (bfile y) (bfile x)) eqn:E2.
  { split; [discriminate|]. intros [H|[H _]]; [discriminate|].
    rewrite H in E2. rewrite str_ltb_irrefl in E2. discriminate. }
  rewrite Z.ltb_lt. split.
  - intros; right; split; auto. apply str_ltb_tri; auto.
  - intros [H|[_ H]]; [discriminate|auto].
Qed.

Lemma bp_ltb_trans x y z : bp_ltb x y = true -> bp_ltb y z = true -> bp_ltb x z = true.
Proof.
  rewrite !bp_ltb_spec. intros [H1|[H1 L1]] [H2|[H2 L2]].
  - left; eapply str_ltb_trans; eauto.
  - left; rewrite <- H2; auto.
  - left; rewrite H1; auto.
  - right; split; [congruence | lia].
Qed.

Lemma bp_keqb_eq x y : keqb bp_ltb x y = true <-> x = y.
Proof.
  unfold keqb. split.
  - destruct x as [fx lx], y as [fy ly]. unfold bp_ltb; cbn [bfile bline].
    destruct (str_ltb fx fy) eqn:E1; [discriminate|].
    destruct (str_ltb fy fx) eqn:E2; [discriminate|].
    rewrite andb_true_iff, !negb_true_iff, !Z.ltb_ge. intros [H1 H2].
    f_equal; [apply str_ltb_tri; auto | lia].
  - intros ->. unfold bp_ltb. rewrite str_ltb_irrefl, Z.ltb_irrefl. reflexivity.
Qed.

Lemma bp_eqb_eq x y : bp_eqb x y = true <-> x = y.
Proof.
  unfold bp_eqb. rewrite andb_true_iff, str_eqb_eq, Z.eqb_eq.
  destruct x, y; cbn. split; [intros [-> ->]; reflexivity | intros E; inversion E; auto].
Qed.

Lemma bp_eqb_refl x : bp_eqb x x = true.
Proof. apply bp_eqb_eq; reflexivity. Qed.

Lemma z_keqb_eq i j : keqb z_ltb i j = true <-> i = j.
Proof.
  unfold keqb, z_ltb. rewrite andb_true_iff, !negb_true_iff, !Z.ltb_ge. lia.
Qed.

(* ================================================================================================ *)
(* 2. ordered association lists and sets, for an order whose equivalence is equality              *)
(* ================================================================================================ *)
Section Ord.
  Context {K : Type} (ltb : K -> K -> bool).
  Hypothesis keqb_eq : forall a b, keqb ltb a b = true <-> a = b.
  Hypothesis ltb_trans : forall a b c, ltb a b = true -> ltb b c = true -> ltb a c = true.

  Let lt := fun x y => ltb x y = true.

  Lemma ltb_irrefl a : ltb a a = false.
  Proof.
    assert (H : keqb ltb a a = true) by (apply keqb_eq; reflexivity).
    unfold keqb in H. destruct (ltb a a); [discriminate | reflexivity].
  Qed.

  Lemma keqb_neq a b : keqb ltb a b = false <-> a <> b.
  Proof. rewrite <- not_true_iff_false, keqb_eq. tauto. Qed.

  Lemma alookup_in {V} (m : list (K * V)) k v : alookup ltb m k = Some v -> In (k, v) m.
  Proof.
    induction m as [|[k' v'] t IH]; cbn [alookup]; [discriminate|].
    destruct (keqb ltb k k') eqn:E.
    - apply keqb_eq in E. intros H; inversion H; subst. left; reflexivity.
    - intros H; right; auto.
  Qed.

  Lemma smem_in s k : smem ltb s k = true <-> In k s.
  Proof.
    induction s as [|k' t IH]; cbn [smem In]; [split; [discriminate | tauto]|].
    rewrite orb_true_iff, IH, keqb_eq. split; intros [H|H]; auto.
  Qed.

  Lemma in_sinsert s k x : In x (sinsert ltb s k) <-> x = k \/ In x s.
  Proof.
    induction s as [|k' t IH]; cbn [sinsert In].
    - split; intros [H|H]; auto.
    - destruct (ltb k k') eqn:E1; cbn [In].
      + split; intros [H|H]; auto.
      + destruct (ltb k' k) eqn:E2; cbn [In].
        * rewrite IH. tauto.
        * assert (k = k') by (apply keqb_eq; unfold keqb; rewrite E1, E2; reflexivity).
          subst. split; [tauto|]. intros [H|H]; auto.
  Qed.

  Lemma sorted_sinsert s k : StronglySorted lt s -> StronglySorted lt (sinsert ltb s k).
  Proof.
    induction 1 as [|k' t HS IH HF]; cbn [sinsert].
    - constructor; constructor.
    - destruct (ltb k k') eqn:E1.
      + constructor; [constructor; auto|]. constructor; [exact E1|].
        rewrite Forall_forall in *. intros y Hy. unfold lt. eapply ltb_trans; [exact E1|]. apply HF; auto.
      + destruct (ltb k' k) eqn:E2.
        * constructor; auto. rewrite Forall_forall in *. intros y Hy.
          apply in_sinsert in Hy. destruct Hy as [->|Hy]; [exact E2 | apply HF; auto].
        * constructor; auto.
  Qed.

  Lemma in_sremove s k x : StronglySorted lt s -> (In x (sremove ltb s k) <-> x <> k /\ In x s).
  Proof.
    induction 1 as [|k' t HS IH HF]; cbn [sremove In]; [tauto|].
    rewrite Forall_forall in HF.
    destruct (keqb ltb k k') eqn:E.
    - apply keqb_eq in E; subst k'. split.
      + intros Hx; split; auto. intros ->. apply HF in Hx. unfold lt in Hx.
        rewrite ltb_irrefl in Hx; discriminate.
      + intros [Hn [H|H]]; [congruence | auto].
    - apply keqb_neq in E. cbn [In]. rewrite IH. split.
      + intros [H|[H1 H2]]; [subst; split; auto | auto].
      + intros [Hn [H|H]]; auto.
  Qed.

  Lemma sorted_sremove s k : StronglySorted lt s -> StronglySorted lt (sremove ltb s k).
  Proof.
    induction 1 as [|k' t HS IH HF]; cbn [sremove]; [constructor|].
    destruct (keqb ltb k k') eqn:E; auto.
    constructor; auto. rewrite Forall_forall in *. intros y Hy.
    apply in_sremove in Hy; auto. apply HF; tauto.
  Qed.
End Ord.

Definition bp_lt := fun x y : bp => bp_ltb x y = true.

Lemma bp_smem_in s k : smem bp_ltb s k = true <-> In k s.
Proof. apply smem_in. apply bp_keqb_eq. Qed.
Lemma bp_in_sinsert s k x : In x (sinsert bp_ltb s k) <-> x = k \/ In x s.
Proof. apply in_sinsert. apply bp_keqb_eq. Qed.
Lemma bp_sorted_sinsert s k : StronglySorted bp_lt s -> StronglySorted bp_lt (sinsert bp_ltb s k).
Proof. apply sorted_sinsert; [apply bp_keqb_eq | apply bp_ltb_trans]. Qed.
Lemma bp_in_sremove s k x : StronglySorted bp_lt s -> (In x (sremove bp_ltb s k) <-> x <> k /\ In x s).
Proof. apply in_sremove. apply bp_keqb_eq. Qed.
Lemma bp_sorted_sremove s k : StronglySorted bp_lt s -> StronglySorted bp_lt (sremove bp_ltb s k).
Proof. apply sorted_sremove; [apply bp_keqb_eq]. Qed.
Lemma bp_alookup_in {V} (m : list (bp * V)) k v : alookup bp_ltb m k = Some v -> In (k, v) m.
Proof. apply alookup_in. apply bp_keqb_eq. Qed.
Lemma z_alookup_in {V} (m : list (Z * V)) k v : alookup z_ltb m k = Some v -> In (k, v) m.
Proof. apply alookup_in. apply z_keqb_eq. Qed.

(* ================================================================================================ *)
(* 3. the result monad, vectors, set_ops and clear_sites                                            *)
(* ================================================================================================ *)
Lemma bind_inv {A B} (r : result A) (f : A -> result B) x :
  bind r f = Ok x -> exists a, r = Ok a /\ f a = Ok x.
Proof. destruct r; cbn; try discriminate. eauto. Qed.

Lemma of_opt_inv {A} k (o : option A) a : of_opt k o = Ok a -> o = Some a.
Proof. destruct o; cbn; congruence. Qed.

Lemma znth_map {A B} (f : A -> B) l i : znth (map f l) i = option_map f (znth l i).
Proof. unfold znth. destruct (i <? 0); auto. apply nth_error_map. Qed.

Lemma znth_of_nat {A} (l : list A) n : znth l (Z.of_nat n) = nth_error l n.
Proof.
  unfold znth. destruct (Z.ltb_spec (Z.of_nat n) 0); [lia|]. rewrite Nat2Z.id. reflexivity.
Qed.

Lemma nth_error_ext {A} (l1 : list A) : forall l2, (forall n, nth_error l1 n = nth_error l2 n) -> l1 = l2.
Proof.
  induction l1 as [|x l1 IH]; intros [|y l2] H; auto.
  - specialize (H O); discriminate.
  - specialize (H O); discriminate.
  - f_equal.
    + specialize (H O). cbn in H. congruence.
    + apply IH. intros n. exact (H (S n)).
Qed.

Lemma znth_ext {A} (l1 l2 : list A) : (forall i, znth l1 i = znth l2 i) -> l1 = l2.
Proof. intros H. apply nth_error_ext. intros n. rewrite <- !znth_of_nat. apply H. Qed.

Lemma znth_neg {A} (l : list A) i : i < 0 -> znth l i = None.
Proof. intros H. unfold znth. destruct (Z.ltb_spec i 0); [reflexivity | lia]. Qed.

Lemma nth_error_upd_nat {A} (l : list A) : forall n x m, (n < length l)%nat ->
  nth_error (upd_nat l n x) m = if Nat.eqb m n then Some x else nth_error l m.
Proof.
  induction l as [|h t IH]; intros n x m Hn; cbn [length] in Hn; [lia|].
  destruct n as [|n], m as [|m]; cbn [upd_nat nth_error Nat.eqb]; auto.
  apply IH. lia.
Qed.

Lemma znth_zupd {A} (l l' : list A) i x : zupd l i x = Some l' ->
  forall j, znth l' j = if j =? i then Some x else znth l j.
Proof.
  unfold zupd. destruct ((0 <=? i) && (i <? Z.of_nat (length l))) eqn:E; [|discriminate].
  apply andb_true_iff in E. destruct E as [E1 E2]. apply Z.leb_le in E1. apply Z.ltb_lt in E2.
  intros H j. inversion H; subst l'; clear H. unfold znth.
  destruct (Z.ltb_spec j 0).
  - destruct (Z.eqb_spec j i); [lia | reflexivity].
  - rewrite nth_error_upd_nat by lia.
    destruct (Z.eqb_spec j i).
    + subst. rewrite Nat.eqb_refl. reflexivity.
    + destruct (Nat.eqb_spec (Z.to_nat j) (Z.to_nat i)); [lia | reflexivity].
Qed.

Lemma zupd_ok {A} (l : list A) i x : znth l i <> None -> exists l', zupd l i x = Some l'.
Proof.
  unfold znth, zupd. destruct (Z.ltb_spec i 0); [congruence|].
  intros Hn. apply nth_error_Some in Hn.
  destruct (Z.leb_spec 0 i); [|lia]. destruct (Z.ltb_spec i (Z.of_nat (length l))); [|lia].
  cbn. eauto.
Qed.

Lemma zmem_in i l : zmem i l = true <-> In i l.
Proof.
  unfold zmem. rewrite existsb_exists. split.
  - intros [x [Hx E]]. apply Z.eqb_eq in E. subst; auto.
  - intros H. exists i. split; auto. apply Z.eqb_refl.
Qed.

Lemma set_op_idem ins o : set_op (set_op ins o) o = set_op ins o.
Proof. reflexivity. Qed.

Definition setop (o : opcode) (ins : instr) : instr := set_op ins o.

Lemma set_ops_spec sites o : forall c c', set_ops c sites o = Ok c' ->
  forall i, znth c' i = if zmem i sites then option_map (setop o) (znth c i) else znth c i.
Proof.
  induction sites as [|i0 rest IH]; intros c c' H i; cbn [set_ops] in H.
  - inversion H; subst. reflexivity.
  - apply bind_inv in H. destruct H as [ins [H1 H]]. apply of_opt_inv in H1.
    apply bind_inv in H. destruct H as [c1 [H2 H]]. apply of_opt_inv in H2.
    pose proof (znth_zupd _ _ _ _ H2 i) as Hu.
    rewrite (IH _ _ H i), Hu. unfold zmem; cbn [existsb]. fold (zmem i rest).
    destruct (Z.eqb_spec i i0) as [Heq|Hne]; cbn [orb].
    + subst i. rewrite H1. cbn [option_map]. destruct (zmem i0 rest); reflexivity.
    + reflexivity.
Qed.

Lemma set_ops_ok sites o : forall c, (forall i, In i sites -> znth c i <> None) ->
  exists c', set_ops c sites o = Ok c'.
Proof.
  induction sites as [|i0 rest IH]; intros c H; cbn [set_ops]; [eauto|].
  destruct (znth c i0) as [ins|] eqn:E; [|exfalso; apply (H i0); cbn; auto].
  cbn [of_opt bind].
  destruct (zupd_ok c i0 (set_op ins o)) as [c1 H1]; [congruence|].
  rewrite H1. cbn [of_opt bind]. apply IH. intros i Hi.
  rewrite (znth_zupd _ _ _ _ H1 i). destruct (i =? i0); [discriminate|]. apply H; cbn; auto.
Qed.

Lemma clear_sites_unfold p c b rest :
  clear_sites p c (b :: rest) = bind (set_ops c (sites p b) POTENTIAL_BREAK) (fun c' => clear_sites p c' rest).
Proof. reflexivity. Qed.

Lemma clear_sites_spec p en : forall c c', clear_sites p c en = Ok c' ->
  forall i, znth c' i = if existsb (fun b => zmem i (sites p b)) en
                        then option_map (setop POTENTIAL_BREAK) (znth c i) else znth c i.
Proof.
  induction en as [|b rest IH]; intros c c' H i.
  - cbn in H. inversion H; subst. reflexivity.
  - rewrite clear_sites_unfold in H. apply bind_inv in H. destruct H as [c1 [H1 H]].
    rewrite (IH _ _ H i), (set_ops_spec _ _ _ _ H1 i). cbn [existsb].
    destruct (zmem i (sites p b)); cbn [orb]; [|reflexivity].
    destruct (existsb (fun b0 => zmem i (sites p b0)) rest); [|reflexivity].
    destruct (znth c i); reflexivity.
Qed.

Lemma clear_sites_ok p en : forall c,
  (forall b i, In b en -> In i (sites p b) -> znth c i <> None) ->
  exists c', clear_sites p c en = Ok c'.
Proof.
  induction en as [|b rest IH]; intros c H; [cbn; eauto|].
  rewrite clear_sites_unfold.
  destruct (set_ops_ok (sites p b) POTENTIAL_BREAK c) as [c1 H1].
  { intros i Hi. apply (H b); cbn; auto. }
  rewrite H1. cbn [bind]. apply IH. intros b' i Hb Hi.
  rewrite (set_ops_spec _ _ _ _ H1 i).
  assert (Hc : znth c i <> None) by (apply (H b'); cbn; auto).
  destruct (zmem i (sites p b)); [|exact Hc].
  destruct (znth c i); [discriminate | congruence].
Qed.

(* ================================================================================================ *)
(* 4. tables_ok, unpacked                                                                           *)
(* ================================================================================================ *)
Record tables (p : program) : Prop := mkTables {
  (* every site of a location is listed under that location and holds a break opcode *)
  TA : forall b i, In i (sites p b) ->
         alookup z_ltb (line_info p) i = Some b /\
         exists ins, znth (code p) i = Some ins /\ is_break_op (iop ins) = true;
  (* every listed index is a site of its location *)
  TB : forall i b, alookup z_ltb (line_info p) i = Some b -> In i (sites p b);
  (* every break opcode is listed *)
  TC : forall i ins, znth (code p) i = Some ins -> is_break_op (iop ins) = true ->
         exists b, alookup z_ltb (line_info p) i = Some b
}.

Lemma sites_some p b l : alookup bp_ltb (potential_breaks p) b = Some l -> sites p b = l.
Proof. intros H. unfold sites. rewrite H. reflexivity. Qed.

Lemma sites_pb p q b : potential_breaks p = potential_breaks q -> sites p b = sites q b.
Proof. intros H. unfold sites. rewrite H. reflexivity. Qed.

Lemma code_listed_spec p c : forall k, code_listed p c k = true ->
  forall j ins, nth_error c j = Some ins -> is_break_op (iop ins) = true ->
  exists b, alookup z_ltb (line_info p) (k + Z.of_nat j) = Some b.
Proof.
  induction c as [|h t IH]; intros k H j ins Hj Hb.
  - destruct j; discriminate.
  - cbn [code_listed] in H. apply andb_true_iff in H. destruct H as [H1 H2].
    destruct j as [|j]; cbn [nth_error] in Hj.
    + inversion Hj; subst h. rewrite Hb in H1. replace (k + Z.of_nat 0) with k by lia.
      destruct (alookup z_ltb (line_info p) k); [eauto | discriminate].
    + replace (k + Z.of_nat (S j)) with ((k + 1) + Z.of_nat j) by lia. eapply IH; eauto.
Qed.

Lemma tables_ok_unpack p : tables_ok p = true -> tables p.
Proof.
  unfold tables_ok. rewrite !andb_true_iff. intros [[H1 H2] H3].
  rewrite forallb_forall in H1, H2. constructor.
  - intros b i Hi. unfold sites in Hi.
    destruct (alookup bp_ltb (potential_breaks p) b) as [l|] eqn:Hl; [|contradiction].
    pose proof (bp_alookup_in _ _ _ Hl) as Hin. specialize (H1 _ Hin). cbn [fst] in H1.
    unfold pb_entry_ok in H1. rewrite (sites_some _ _ _ Hl) in H1.
    rewrite forallb_forall in H1. specialize (H1 i Hi).
    apply andb_true_iff in H1. destruct H1 as [Ha Hb].
    destruct (alookup z_ltb (line_info p) i) as [b'|]; [|discriminate].
    apply bp_eqb_eq in Ha. subst b'. split; auto.
    destruct (znth (code p) i) as [ins|]; [eauto | discriminate].
  - intros i b H. apply z_alookup_in in H. specialize (H2 _ H).
    unfold li_entry_ok in H2. cbn [fst snd] in H2. apply zmem_in; exact H2.
  - intros i ins Hi Hb. unfold znth in Hi. destruct (Z.ltb_spec i 0); [discriminate|].
    destruct (code_listed_spec p (code p) 0 H3 (Z.to_nat i) ins Hi Hb) as [b E].
    exists b. rewrite <- E. f_equal. lia.
Qed.

(* ---- passive ------------------------------------------------------------------------------------ *)
Lemma passive_break_op ins : is_break_op (iop (passive ins)) = is_break_op (iop ins).
Proof. destruct ins as [o a b c]; destruct o; reflexivity. Qed.

Lemma passive_not_break ins : iop (passive ins) <> BREAK.
Proof. destruct ins as [o a b c]; destruct o; cbn; discriminate. Qed.

Lemma passive_setop ins o : is_break_op (iop ins) = true -> is_break_op o = true ->
  passive (setop o ins) = passive ins.
Proof.
  destruct ins as [o' a b c]; destruct o'; cbn; try discriminate; intros _;
    destruct o; cbn; try discriminate; reflexivity.
Qed.

Lemma passive_id ins : iop ins <> BREAK -> passive ins = ins.
Proof. destruct ins as [o a b c]; destruct o; cbn; congruence. Qed.

Lemma passive_op ins : iop (passive ins) = if opcode_eqb (iop ins) BREAK then POTENTIAL_BREAK else iop ins.
Proof. destruct ins as [o a b c]; destruct o; reflexivity. Qed.

Lemma map_passive_id c : (forall i ins, znth c i = Some ins -> iop ins <> BREAK) -> map passive c = c.
Proof.
  intros H. apply znth_ext. intros i. rewrite znth_map.
  destruct (znth c i) as [ins|] eqn:E; cbn; [|reflexivity].
  f_equal. apply passive_id. eapply H; eauto.
Qed.

(* ================================================================================================ *)
(* 5. the invariant                                                                                 *)
(* ================================================================================================ *)
Lemma enabled_site_in s i :
  enabled_site s i <-> exists b, alookup z_ltb (line_info (prog s)) i = Some b /\ In b (enabled s).
Proof.
  unfold enabled_site. split; intros [b [H1 H2]]; exists b; split; auto; apply bp_smem_in; auto.
Qed.

Lemma rel_ext p s1 s2 : prog s1 = prog s2 -> enabled s1 = enabled s2 -> rel p s1 -> rel p s2.
Proof.
  intros Hp He R. destruct R as [Rm Rp Rl Rc Rb Rs Ra].
  constructor; try (rewrite <- Hp; assumption); try (rewrite <- He; assumption).
  intros i. specialize (Rb i). unfold op_at, enabled_site in *. rewrite <- Hp, <- He. exact Rb.
Qed.

Section Rel.
  Variable p : program.
  Hypothesis T : tables p.

  Lemma site_in_code s b i : rel p s -> In i (sites p b) ->
    exists ins, znth (code (prog s)) i = Some ins /\ is_break_op (iop ins) = true.
  Proof.
    intros R Hi. destruct (TA p T b i Hi) as [_ [ins' [E Hb]]].
    rewrite <- (rel_code _ _ R), znth_map in E.
    destruct (znth (code (prog s)) i) as [ins|]; cbn in E; [|discriminate].
    exists ins. split; auto. inversion E; subst ins'. rewrite passive_break_op in Hb. exact Hb.
  Qed.

  Lemma break_op_listed s i ins : rel p s -> znth (code (prog s)) i = Some ins ->
    is_break_op (iop ins) = true -> exists b, alookup z_ltb (line_info p) i = Some b.
  Proof.
    intros R E Hb. apply (TC p T i (passive ins)).
    - rewrite <- (rel_code _ _ R), znth_map, E. reflexivity.
    - rewrite passive_break_op. exact Hb.
  Qed.

  Lemma listed_break_op s i b : rel p s -> alookup z_ltb (line_info p) i = Some b ->
    exists ins, znth (code (prog s)) i = Some ins /\ is_break_op (iop ins) = true.
  Proof. intros R H. apply (site_in_code s b i R). apply (TB p T); exact H. Qed.

  Lemma rel_fresh st i0 d sk :
    (forall i ins, znth (code p) i = Some ins -> iop ins <> BREAK) -> rel p (mkVM st i0 p d sk []).
  Proof.
    intros Hnb. constructor; cbn [prog enabled].
    - reflexivity.
    - reflexivity.
    - reflexivity.
    - apply map_passive_id. exact Hnb.
    - intros i. unfold op_at, enabled_site. cbn [prog enabled smem]. split.
      + destruct (znth (code p) i) as [ins|] eqn:E; cbn; [|discriminate].
        intros H. exfalso. apply (Hnb i ins E). congruence.
      + intros [b [_ H]]. discriminate.
    - constructor.
    - intros b [].
  Qed.

  Lemma rel_nobreak s : rel p s -> forall i ins, znth (code p) i = Some ins -> iop ins <> BREAK.
  Proof.
    intros R i ins E. rewrite <- (rel_code _ _ R), znth_map in E.
    destruct (znth (code (prog s)) i) as [ins0|]; cbn in E; [|discriminate].
    inversion E. apply passive_not_break.
  Qed.

  Lemma rel_init : no_break p = true -> rel p (init p).
  Proof.
    intros NB. unfold no_break in NB. rewrite forallb_forall in NB.
    apply rel_fresh. intros i ins E. unfold znth in E. destruct (i <? 0); [discriminate|].
    apply nth_error_In in E. specialize (NB _ E). destruct (iop ins); cbn in NB; congruence.
  Qed.

  Lemma rel_enable s b l c' st i0 d sk :
    rel p s -> alookup bp_ltb (potential_breaks p) b = Some l ->
    set_ops (code (prog s)) l BREAK = Ok c' ->
    rel p (mkVM st i0 (set_code (prog s) c') d sk (sinsert bp_ltb (enabled s) b)).
  Proof.
    intros R Hl Hs. pose proof (sites_some _ _ _ Hl) as Hsites.
    pose proof (set_ops_spec _ _ _ _ Hs) as Hc.
    constructor; cbn [prog enabled set_code code stack_maps potential_breaks line_info].
    - apply (rel_maps _ _ R).
    - apply (rel_pb _ _ R).
    - apply (rel_li _ _ R).
    - rewrite <- (rel_code _ _ R). apply znth_ext. intros i. rewrite !znth_map, Hc.
      destruct (zmem i l) eqn:Hz; [|reflexivity].
      apply zmem_in in Hz. rewrite <- Hsites in Hz.
      destruct (site_in_code s b i R Hz) as [ins [E Hb]]. rewrite E. cbn [option_map].
      f_equal. apply passive_setop; auto.
    - intros i. rewrite enabled_site_in. unfold op_at.
      cbn [prog enabled set_code code line_info]. rewrite Hc. split.
      + intros H. destruct (zmem i l) eqn:Hz.
        * apply zmem_in in Hz. rewrite <- Hsites in Hz. destruct (TA p T b i Hz) as [Hli _].
          exists b. split; [rewrite (rel_li _ _ R); exact Hli | apply bp_in_sinsert; auto].
        * apply (rel_brk _ _ R i) in H. apply enabled_site_in in H. destruct H as [b' [H1 H2]].
          exists b'. split; auto. apply bp_in_sinsert; auto.
      + intros [b' [H1 H2]]. apply bp_in_sinsert in H2. destruct H2 as [H2|H2].
        * subst b'. rewrite (rel_li _ _ R) in H1. apply (TB p T) in H1.
          destruct (site_in_code s b i R H1) as [ins [E Hb]].
          rewrite Hsites in H1. apply zmem_in in H1. rewrite H1, E. reflexivity.
        * assert (H : op_at s i = Some BREAK).
          { apply (rel_brk _ _ R i). apply enabled_site_in. exists b'; auto. }
          unfold op_at in H. destruct (zmem i l); auto.
          destruct (znth (code (prog s)) i) as [ins|]; [reflexivity | discriminate].
    - apply bp_sorted_sinsert. apply (rel_sorted _ _ R).
    - intros b' H. apply bp_in_sinsert in H. destruct H as [H|H].
      + subst b'. rewrite Hl. discriminate.
      + apply (rel_avail _ _ R); auto.
  Qed.

  Lemma rel_disable s b l c' st i0 d sk :
    rel p s -> alookup bp_ltb (potential_breaks p) b = Some l ->
    set_ops (code (prog s)) l POTENTIAL_BREAK = Ok c' ->
    rel p (mkVM st i0 (set_code (prog s) c') d sk (sremove bp_ltb (enabled s) b)).
  Proof.
    intros R Hl Hs. pose proof (sites_some _ _ _ Hl) as Hsites.
    pose proof (set_ops_spec _ _ _ _ Hs) as Hc.
    pose proof (rel_sorted _ _ R) as Hsorted.
    constructor; cbn [prog enabled set_code code stack_maps potential_breaks line_info].
    - apply (rel_maps _ _ R).
    - apply (rel_pb _ _ R).
    - apply (rel_li _ _ R).
    - rewrite <- (rel_code _ _ R). apply znth_ext. intros i. rewrite !znth_map, Hc.
      destruct (zmem i l) eqn:Hz; [|reflexivity].
      apply zmem_in in Hz. rewrite <- Hsites in Hz.
      destruct (site_in_code s b i R Hz) as [ins [E Hb]]. rewrite E. cbn [option_map].
      f_equal. apply passive_setop; auto.
    - intros i. rewrite enabled_site_in. unfold op_at.
      cbn [prog enabled set_code code line_info]. rewrite Hc. split.
      + intros H. destruct (zmem i l) eqn:Hz.
        * exfalso. destruct (znth (code (prog s)) i); cbn in H; discriminate.
        * apply (rel_brk _ _ R i) in H. apply enabled_site_in in H. destruct H as [b' [H1 H2]].
          exists b'. split; auto. apply bp_in_sremove; auto. split; auto.
          intros ->. rewrite (rel_li _ _ R) in H1. apply (TB p T) in H1.
          rewrite Hsites in H1. apply zmem_in in H1. congruence.
      + intros [b' [H1 H2]]. apply bp_in_sremove in H2; auto. destruct H2 as [Hne H2].
        assert (H : op_at s i = Some BREAK).
        { apply (rel_brk _ _ R i). apply enabled_site_in. exists b'; auto. }
        destruct (zmem i l) eqn:Hz; auto.
        exfalso. apply zmem_in in Hz. rewrite <- Hsites in Hz.
        destruct (TA p T b i Hz) as [Hli _]. rewrite (rel_li _ _ R) in H1. congruence.
    - apply bp_sorted_sremove. exact Hsorted.
    - intros b' H. apply bp_in_sremove in H; auto. apply (rel_avail _ _ R); tauto.
  Qed.
End Rel.

(* ---- exec1 : what one instruction can change ---------------------------------------------------- *)
Ltac break_match_hyp H :=
  repeat match type of H with
  | context [match ?x with _ => _ end] => destruct x eqn:?; try discriminate H
  end.

Lemma exec1_inv s s' b : exec1 s = Ok (s', b) ->
  exists ins, znth (code (prog s)) (ip s) = Some ins /\
    prog s' = prog s /\ enabled s' = enabled s /\ stepping s' = stepping s /\
    match iop ins with
    | POTENTIAL_BREAK => b = stepping s /\ ip s' = ip s + 1
    | BREAK => b = true /\ ip s' = ip s + 1
    | HALT => b = true /\ s' = s
    | _ => b = false
    end.
Proof.
  unfold exec1, exec1_gen. intros H.
  destruct (znth (code (prog s)) (ip s)) as [ins|] eqn:E; cbn [of_opt bind] in H; [|discriminate].
  exists ins. split; [reflexivity|].
  destruct (iop ins) eqn:Eop;
    unfold top, second, rd, wr, add_const, resize, bind, of_opt in H; cbn [legacy_ret legacy_add cfg_now] in H;
    break_match_hyp H; inversion H; subst; cbn; auto.
Qed.

Lemma set_code_eq q p : stack_maps q = stack_maps p -> potential_breaks q = potential_breaks p ->
  line_info q = line_info p -> set_code q (code p) = p.
Proof. destruct q, p; unfold set_code; cbn. intros; subst; reflexivity. Qed.

Lemma clear_sites_pb p q en : potential_breaks p = potential_breaks q ->
  forall c, clear_sites p c en = clear_sites q c en.
Proof.
  intros H. induction en as [|b rest IH]; intros c; [reflexivity|].
  rewrite !clear_sites_unfold, (sites_pb p q b H).
  destruct (set_ops c (sites q b) POTENTIAL_BREAK); cbn [bind]; auto.
Qed.

Lemma setop_pb_passive ins : is_break_op (iop ins) = true -> setop POTENTIAL_BREAK ins = passive ins.
Proof. destruct ins as [o a b c]; destruct o; cbn; try discriminate; reflexivity. Qed.

Lemma execute_S f s :
  execute (S f) s = bind (exec1 s) (fun r => let '(s', b) := r in if b then Ok s' else execute f s').
Proof. reflexivity. Qed.

Lemma vm_run_S n s : vm_run (S n) s = bind (exec1 s) (fun r => vm_run n (fst r)).
Proof. reflexivity. Qed.

Lemma execute_vm_run fuel : forall s s', execute fuel s = Ok s' -> exists n, vm_run n s = Ok s'.
Proof.
  induction fuel as [|f IH]; intros s s' H; [discriminate|].
  rewrite execute_S in H. apply bind_inv in H. destruct H as [[s1 b] [H1 H]].
  destruct b.
  - inversion H; subst. exists 1%nat. rewrite vm_run_S, H1. reflexivity.
  - destruct (IH _ _ H) as [n Hn]. exists (S n). rewrite vm_run_S, H1. exact Hn.
Qed.

Lemma vm_run_prog_en n : forall s s', vm_run n s = Ok s' -> prog s' = prog s /\ enabled s' = enabled s.
Proof.
  induction n as [|n IH]; intros s s' H.
  - inversion H; auto.
  - rewrite vm_run_S in H. apply bind_inv in H. destruct H as [[s1 b] [H1 H]]. cbn [fst] in H.
    apply exec1_inv in H1. destruct H1 as [ins [_ [Hp [He _]]]].
    destruct (IH _ _ H) as [Hp' He']. split; congruence.
Qed.

Section Rel2.
  Variable p : program.
  Hypothesis T : tables p.

  Lemma clear_result s c' : rel p s ->
    clear_sites (prog s) (code (prog s)) (enabled s) = Ok c' -> c' = code p.
  Proof.
    intros R H. rewrite (clear_sites_pb _ p _ (rel_pb _ _ R)) in H.
    pose proof (clear_sites_spec _ _ _ _ H) as Hc.
    rewrite <- (rel_code _ _ R). apply znth_ext. intros i. rewrite Hc, znth_map.
    destruct (existsb (fun b => zmem i (sites p b)) (enabled s)) eqn:Hx.
    - apply existsb_exists in Hx. destruct Hx as [b [Hb Hz]]. apply zmem_in in Hz.
      destruct (site_in_code p T s b i R Hz) as [ins [E Hop]]. rewrite E. cbn [option_map].
      f_equal. apply setop_pb_passive; auto.
    - destruct (znth (code (prog s)) i) as [ins|] eqn:E; cbn [option_map]; [|reflexivity].
      f_equal. symmetry. apply passive_id. intros Hop.
      assert (Hb : op_at s i = Some BREAK) by (unfold op_at; rewrite E; cbn; congruence).
      apply (rel_brk _ _ R i) in Hb. apply enabled_site_in in Hb. destruct Hb as [b [H1 H2]].
      rewrite (rel_li _ _ R) in H1. apply (TB p T) in H1.
      assert (Hy : existsb (fun b => zmem i (sites p b)) (enabled s) = true).
      { apply existsb_exists. exists b. split; auto. apply zmem_in; auto. }
      congruence.
  Qed.

  Lemma clear_ok s : rel p s -> exists c', clear_sites (prog s) (code (prog s)) (enabled s) = Ok c'.
  Proof.
    intros R. rewrite (clear_sites_pb _ p _ (rel_pb _ _ R)).
    apply clear_sites_ok. intros b i Hb Hi.
    destruct (site_in_code p T s b i R Hi) as [ins [E _]]. congruence.
  Qed.

  Lemma clearBreakpoints_rel s : rel p s ->
    clearBreakpoints s = Ok (mkVM (stepping s) (ip s) p (data s) (stack s) []).
  Proof.
    intros R. unfold clearBreakpoints. destruct (clear_ok s R) as [c' H]. rewrite H. cbn [bind].
    rewrite (clear_result s c' R H).
    rewrite (set_code_eq _ p (rel_maps _ _ R) (rel_pb _ _ R) (rel_li _ _ R)). reflexivity.
  Qed.

  Lemma reset_rel s : rel p s -> reset s = Ok (init p).
  Proof.
    intros R. unfold reset.
    rewrite (clearBreakpoints_rel (mkVM false 0 (prog s) (data s) (stack s) (enabled s))).
    - reflexivity.
    - eapply rel_ext; [| |exact R]; reflexivity.
  Qed.

  Lemma setBreakPoint_some s f l (v : bool) sl : rel p s ->
    alookup bp_ltb (potential_breaks p) (mkBP f l) = Some sl ->
    exists c', set_ops (code (prog s)) sl (if v then BREAK else POTENTIAL_BREAK) = Ok c' /\
      setBreakPoint s f l v =
        Ok (mkVM (stepping s) (ip s) (set_code (prog s) c') (data s) (stack s)
                 (if v then sinsert bp_ltb (enabled s) (mkBP f l) else sremove bp_ltb (enabled s) (mkBP f l)),
            true).
  Proof.
    intros R Hl.
    destruct (set_ops_ok sl (if v then BREAK else POTENTIAL_BREAK) (code (prog s))) as [c' Hc].
    { intros i Hi. rewrite <- (sites_some _ _ _ Hl) in Hi.
      destruct (site_in_code p T s _ i R Hi) as [ins [E _]]. congruence. }
    exists c'. split; [exact Hc|].
    unfold setBreakPoint. rewrite (rel_pb _ _ R), Hl. destruct v; rewrite Hc; reflexivity.
  Qed.

  Lemma setBreakPoint_none s f l v : rel p s ->
    alookup bp_ltb (potential_breaks p) (mkBP f l) = None -> setBreakPoint s f l v = Ok (s, false).
  Proof. intros R Hl. unfold setBreakPoint. rewrite (rel_pb _ _ R), Hl. reflexivity. Qed.

  Lemma rel_api_step fuel s c s' r : rel p s -> api_step fuel s c = Ok (s', r) -> rel p s'.
  Proof.
    intros R H. destruct c as [f l v| |m| | |]; cbn [api_step] in H.
    - destruct (alookup bp_ltb (potential_breaks p) (mkBP f l)) as [sl|] eqn:Hl.
      + destruct (setBreakPoint_some s f l v sl R Hl) as [c' [Hc E]]. rewrite E in H.
        inversion H; subst s' r. destruct v.
        * apply (rel_enable p T s _ sl); auto.
        * apply (rel_disable p T s _ sl); auto.
      + rewrite (setBreakPoint_none s f l v R Hl) in H. inversion H; subst; auto.
    - rewrite (clearBreakpoints_rel s R) in H. inversion H; subst s' r.
      apply rel_fresh. apply (rel_nobreak p s R).
    - inversion H; subst s' r. eapply rel_ext; [| |exact R]; reflexivity.
    - rewrite (reset_rel s R) in H. inversion H; subst s' r.
      apply rel_fresh. apply (rel_nobreak p s R).
    - apply bind_inv in H. destruct H as [s1 [H1 H]]. inversion H; subst s1 r.
      apply execute_vm_run in H1. destruct H1 as [n Hn]. apply vm_run_prog_en in Hn.
      destruct Hn as [Hp He]. eapply rel_ext; [| |exact R]; auto.
    - apply exec1_inv in H. destruct H as [ins [_ [Hp [He _]]]].
      eapply rel_ext; [| |exact R]; auto.
  Qed.

  Lemma rel_run_hist fuel h : forall s s', rel p s -> run_hist fuel h s = Ok s' -> rel p s'.
  Proof.
    induction h as [|c rest IH]; intros s s' R H; cbn [run_hist] in H.
    - inversion H; subst; auto.
    - apply bind_inv in H. destruct H as [[s1 r] [H1 H]]. cbn [fst] in H.
      eapply IH; [|exact H]. eapply rel_api_step; eauto.
  Qed.
End Rel2.

Lemma rel_reachable_proof : rel_reachable_stmt.
Proof.
  intros p h fuel s HT NB H. apply tables_ok_unpack in HT.
  eapply rel_run_hist; eauto. apply rel_init; auto.
Qed.

Lemma C17_reset_proof : C17_reset_stmt.
Proof.
  intros p h fuel s HT NB H. apply reset_rel; [apply tables_ok_unpack; auto|].
  eapply rel_reachable_proof; eauto.
Qed.

Lemma C17_after_proof : C17_after_stmt.
Proof.
  intros p h h' fuel s HT NB H. cbn [run_hist api_step].
  rewrite (C17_reset_proof p h fuel s HT NB H). reflexivity.
Qed.

(* ================================================================================================ *)
(* 6. C05 : debugging is transparent                                                                *)
(* ================================================================================================ *)
Lemma C05_exec_core_proof : C05_exec_core_stmt.
Proof.
  intros s s' b H. unfold exec1, exec1_gen in *.
  cbn [strip prog ip passive_prog set_code code]. rewrite znth_map.
  destruct (znth (code (prog s)) (ip s)) as [ins|] eqn:E; cbn [of_opt bind option_map] in *; [|discriminate].
  destruct ins as [o a b0 c]. unfold passive. cbn [iop ia ib ic] in *.
  destruct o; cbn [opcode_eqb set_op iop ia ib ic] in *;
    unfold top, second, rd, wr, add_const, resize, bind, of_opt in *;
    cbn [legacy_ret legacy_add cfg_now strip stack data prog ip stepping enabled] in *;
    break_match_hyp H; inversion H; subst; eexists; reflexivity.
Qed.

Lemma vm_run_strip n : forall s s', vm_run n s = Ok s' -> vm_run n (strip s) = Ok (strip s').
Proof.
  induction n as [|n IH]; intros s s' H.
  - inversion H; reflexivity.
  - rewrite vm_run_S in *. apply bind_inv in H. destruct H as [[s1 b] [H1 H]]. cbn [fst] in H.
    destruct (C05_exec_core_proof _ _ _ H1) as [b' E]. rewrite E. cbn [bind fst]. apply IH; auto.
Qed.

Lemma vm_run_add n : forall k a, vm_run (n + k) a = bind (vm_run n a) (vm_run k).
Proof.
  induction n as [|n IH]; intros k a; [reflexivity|].
  change (S n + k)%nat with (S (n + k)). rewrite !vm_run_S.
  destruct (exec1 a) as [r| |]; cbn [bind]; auto.
Qed.

Lemma strip_eq p s s' : rel p s -> rel p s' -> ip s' = ip s -> data s' = data s -> stack s' = stack s ->
  strip s' = strip s.
Proof.
  intros R R' Hi Hd Hs. unfold strip, passive_prog, set_code.
  rewrite (rel_code _ _ R), (rel_code _ _ R'), (rel_maps _ _ R), (rel_maps _ _ R'),
    (rel_pb _ _ R), (rel_pb _ _ R'), (rel_li _ _ R), (rel_li _ _ R'), Hi, Hd, Hs. reflexivity.
Qed.

Lemma strip_fresh p s : rel p s -> strip (init p) = init p.
Proof.
  intros R. unfold strip, init, passive_prog. cbn [prog ip data stack].
  rewrite map_passive_id.
  - rewrite (set_code_eq p p); reflexivity.
  - intros i ins E H.
    rewrite <- (rel_code _ _ R), znth_map in E.
    destruct (znth (code (prog s)) i) as [ins0|]; cbn in E; [|discriminate].
    inversion E; subst ins. revert H. apply passive_not_break.
Qed.

Section C05.
  Variable p : program.
  Hypothesis T : tables p.

  Lemma ops_core s c fuel s' r : rel p s -> is_debug_op c = true ->
    api_step fuel s c = Ok (s', r) -> strip s' = strip s.
  Proof.
    intros R Hd H. pose proof (rel_api_step p T fuel s c s' r R H) as R'.
    destruct c as [f l v| |m| | |]; try discriminate Hd; cbn [api_step] in H.
    - destruct (alookup bp_ltb (potential_breaks p) (mkBP f l)) as [sl|] eqn:Hl.
      + destruct (setBreakPoint_some p T s f l v sl R Hl) as [c' [Hc E]]. rewrite E in H.
        inversion H; subst s' r. apply (strip_eq p); auto.
      + rewrite (setBreakPoint_none p s f l v R Hl) in H. inversion H; subst; auto.
    - rewrite (clearBreakpoints_rel p T s R) in H. inversion H; subst s' r.
      apply (strip_eq p); auto.
    - inversion H; subst s' r. apply (strip_eq p); auto.
  Qed.

  Lemma transparent_hist fuel h : forall s s', rel p s ->
    (exists n, vm_run n (init p) = Ok (strip s)) -> run_hist fuel h s = Ok s' ->
    exists n, vm_run n (init p) = Ok (strip s').
  Proof.
    induction h as [|c rest IH]; intros s s' R [n Hn] H; cbn [run_hist] in H.
    - inversion H; subst; eauto.
    - apply bind_inv in H. destruct H as [[s1 r] [H1 H]]. cbn [fst] in H.
      pose proof (rel_api_step p T fuel s c s1 r R H1) as R1.
      eapply IH; [exact R1| |exact H].
      destruct (is_debug_op c) eqn:Hd.
      { rewrite (ops_core s c fuel s1 r R Hd H1). eauto. }
      destruct c as [f l v| |m| | |]; try discriminate Hd; cbn [api_step] in H1.
      + rewrite (reset_rel p T s R) in H1. inversion H1; subst s1 r.
        exists 0%nat. rewrite (strip_fresh p s R). reflexivity.
      + apply bind_inv in H1. destruct H1 as [s2 [H2 H1]]. inversion H1; subst s2 r.
        apply execute_vm_run in H2. destruct H2 as [k Hk]. apply vm_run_strip in Hk.
        exists (n + k)%nat. rewrite vm_run_add, Hn. exact Hk.
      + exists (n + 1)%nat. rewrite vm_run_add, Hn. cbn [bind]. rewrite vm_run_S.
        destruct (C05_exec_core_proof _ _ _ H1) as [b' E]. rewrite E. reflexivity.
  Qed.
End C05.

Lemma C05_ops_core_proof : C05_ops_core_stmt.
Proof.
  intros p s c fuel s' r HT R Hd H. apply tables_ok_unpack in HT. eapply ops_core; eauto.
Qed.

Lemma C05_transparent_proof : C05_transparent_stmt.
Proof.
  intros p h fuel s HT NB H. apply tables_ok_unpack in HT.
  pose proof (rel_init p NB) as R0.
  eapply (transparent_hist p HT fuel h (init p) s); auto.
  exists 0%nat. rewrite (strip_fresh p _ R0). reflexivity.
Qed.

(* ---- the end is absorbing, the run is deterministic ----------------------------------------------- *)
Lemma halted_exec1 s : isDone s = Ok true -> exec1 s = Ok (s, true).
Proof.
  unfold isDone, exec1, exec1_gen. destruct (znth (code (prog s)) (ip s)) as [ins|]; cbn [of_opt bind]; [|discriminate].
  destruct (iop ins); cbn; try discriminate. reflexivity.
Qed.

Lemma halted_run n s : isDone s = Ok true -> vm_run n s = Ok s.
Proof.
  intros H. induction n as [|n IH]; [reflexivity|].
  rewrite vm_run_S, (halted_exec1 s H). exact IH.
Qed.

Lemma halted_strip s : isDone s = Ok true -> isDone (strip s) = Ok true.
Proof.
  unfold isDone. cbn [strip prog ip passive_prog set_code code]. rewrite znth_map.
  destruct (znth (code (prog s)) (ip s)) as [ins|]; cbn [of_opt bind option_map]; [|discriminate].
  rewrite passive_op. destruct (iop ins); cbn; try discriminate. reflexivity.
Qed.

Lemma halted_unique x n m a b : vm_run n x = Ok a -> vm_run m x = Ok b ->
  isDone a = Ok true -> isDone b = Ok true -> a = b.
Proof.
  intros Hn Hm Ha Hb. destruct (Nat.le_ge_cases n m) as [L|L].
  - replace m with (n + (m - n))%nat in Hm by lia. rewrite vm_run_add, Hn in Hm. cbn [bind] in Hm.
    rewrite (halted_run _ a Ha) in Hm. congruence.
  - replace n with (m + (n - m))%nat in Hn by lia. rewrite vm_run_add, Hm in Hn. cbn [bind] in Hn.
    rewrite (halted_run _ b Hb) in Hn. congruence.
Qed.

Lemma views_of_strip s l : views_of (strip s) l = views_of s l.
Proof.
  induction l as [|a rest IH]; [reflexivity|]. cbn [views_of]. rewrite IH. reflexivity.
Qed.

Lemma views_strip s : views (strip s) = views s.
Proof. unfold views. rewrite views_of_strip. reflexivity. Qed.

Lemma C05_same_result_proof : C05_same_result_stmt.
Proof.
  intros p h fuel s HT NB H Hd m s0 Hm Hd0.
  destruct (C05_transparent_proof p h fuel s HT NB H) as [n Hn].
  assert (E : s0 = strip s).
  { eapply halted_unique; eauto. apply halted_strip; auto. }
  subst s0. rewrite views_strip. auto.
Qed.

(* ================================================================================================ *)
(* 7. C06 : the debugger stops exactly where asked                                                  *)
(* ================================================================================================ *)
Section C06.
  Variable p : program.
  Hypothesis T : tables p.

  Lemma site_facts s ins : rel p s -> znth (code (prog s)) (ip s) = Some ins ->
    (enabled_site s (ip s) <-> iop ins = BREAK) /\
    (listed (prog s) (ip s) <-> is_break_op (iop ins) = true) /\
    (halt_at s (ip s) <-> iop ins = HALT).
  Proof.
    intros R E.
    assert (Hop : op_at s (ip s) = Some (iop ins)) by (unfold op_at; rewrite E; reflexivity).
    split; [|split].
    - rewrite <- (rel_brk _ _ R (ip s)), Hop. split; congruence.
    - unfold listed. rewrite (rel_li _ _ R). split.
      + intros [b Hb]. destruct (listed_break_op p T s _ b R Hb) as [ins' [E' H]]. congruence.
      + intros H. eapply break_op_listed; eauto.
    - unfold halt_at. rewrite Hop. split; congruence.
  Qed.

  Lemma stop_iff s s' b : rel p s -> exec1 s = Ok (s', b) ->
    (b = true <-> (stop_site s (ip s) \/ halt_at s (ip s))).
  Proof.
    intros R H. apply exec1_inv in H. destruct H as [ins [E [_ [_ [_ Hm]]]]].
    destruct (site_facts s ins R E) as [F1 [F2 F3]].
    unfold stop_site. rewrite F1, F2, F3.
    destruct (iop ins); cbn [is_break_op]; intuition (try congruence; try discriminate).
  Qed.

  Lemma location s s' : rel p s -> exec1 s = Ok (s', true) -> ~ halt_at s (ip s) ->
    exists b, alookup z_ltb (line_info p) (ip s) = Some b /\ getCurrentBreak s' = Some b.
  Proof.
    intros R H Hnh. pose proof (stop_iff s s' true R H) as Hs.
    apply exec1_inv in H. destruct H as [ins [E [Hp [_ [_ Hm]]]]].
    destruct (site_facts s ins R E) as [F1 [F2 F3]].
    assert (HL : listed (prog s) (ip s)).
    { destruct Hs as [Hs _]. destruct (Hs eq_refl) as [[H1|[_ H1]]|H1]; auto.
      - destruct H1 as [b [H1 _]]. exists b; auto.
      - contradiction. }
    pose proof HL as HB. apply F2 in HB. destruct HL as [b Hb].
    exists b. split; [rewrite <- (rel_li _ _ R); exact Hb|].
    unfold getCurrentBreak. rewrite Hp.
    assert (Hip : ip s' = ip s + 1).
    { destruct (iop ins); cbn in HB; try discriminate; tauto. }
    rewrite Hip. replace (ip s + 1 - 1) with (ip s) by lia. exact Hb.
  Qed.

  Lemma location_init : getCurrentBreak (init p) = None.
  Proof.
    unfold getCurrentBreak. cbn [init prog ip].
    destruct (alookup z_ltb (line_info p) (0 - 1)) as [b|] eqn:E; [|reflexivity].
    exfalso. apply (TB p T) in E. destruct (TA p T _ _ E) as [_ [ins [H _]]].
    rewrite znth_neg in H by lia. discriminate.
  Qed.

  Lemma enable s f l v : rel p s ->
    exists s' r, setBreakPoint s f l v = Ok (s', r) /\
      (r = true <-> alookup bp_ltb (potential_breaks p) (mkBP f l) <> None).
  Proof.
    intros R. destruct (alookup bp_ltb (potential_breaks p) (mkBP f l)) as [sl|] eqn:Hl.
    - destruct (setBreakPoint_some p T s f l v sl R Hl) as [c' [_ E]].
      eexists; eexists; split; [exact E|]. split; [discriminate | reflexivity].
    - eexists; eexists; split; [apply (setBreakPoint_none p s f l v R Hl)|].
      split; [discriminate | congruence].
  Qed.

  Lemma smem_sinsert en b0 x :
    smem bp_ltb (sinsert bp_ltb en b0) x = if bp_eqb x b0 then true else smem bp_ltb en x.
  Proof.
    apply eq_true_iff_eq. rewrite bp_smem_in, bp_in_sinsert. destruct (bp_eqb x b0) eqn:E.
    - apply bp_eqb_eq in E. tauto.
    - rewrite bp_smem_in.
      assert (x <> b0) by (intros ->; rewrite bp_eqb_refl in E; discriminate). tauto.
  Qed.

  Lemma smem_sremove en b0 x : StronglySorted bp_lt en ->
    smem bp_ltb (sremove bp_ltb en b0) x = if bp_eqb x b0 then false else smem bp_ltb en x.
  Proof.
    intros HS. apply eq_true_iff_eq. rewrite bp_smem_in, bp_in_sremove by exact HS.
    destruct (bp_eqb x b0) eqn:E.
    - apply bp_eqb_eq in E. split; [tauto | discriminate].
    - rewrite bp_smem_in.
      assert (x <> b0) by (intros ->; rewrite bp_eqb_refl in E; discriminate). tauto.
  Qed.

  Lemma enabled_hist fuel h : forall s s' en, rel p s ->
    (forall b, smem bp_ltb (enabled s) b = en b) -> run_hist fuel h s = Ok s' ->
    forall b, smem bp_ltb (enabled s') b = fold_left (req_step p) h en b.
  Proof.
    induction h as [|c rest IH]; intros s s' en R Hen H; cbn [run_hist fold_left] in *.
    - inversion H; subst; auto.
    - apply bind_inv in H. destruct H as [[s1 r] [H1 H]]. cbn [fst] in H.
      pose proof (rel_api_step p T fuel s c s1 r R H1) as R1.
      eapply IH; [exact R1| |exact H]. clear H IH.
      intros x. destruct c as [f l v| |m| | |]; cbn [api_step req_step] in *.
      + destruct (alookup bp_ltb (potential_breaks p) (mkBP f l)) as [sl|] eqn:Hl.
        * destruct (setBreakPoint_some p T s f l v sl R Hl) as [c' [_ E]]. rewrite E in H1.
          inversion H1; subst s1 r. cbn [enabled]. destruct v.
          -- rewrite smem_sinsert, Hen. reflexivity.
          -- rewrite smem_sremove, Hen by (apply (rel_sorted _ _ R)). reflexivity.
        * rewrite (setBreakPoint_none p s f l v R Hl) in H1. inversion H1; subst; auto.
      + rewrite (clearBreakpoints_rel p T s R) in H1. inversion H1; subst s1 r. reflexivity.
      + inversion H1; subst s1 r. apply Hen.
      + rewrite (reset_rel p T s R) in H1. inversion H1; subst s1 r. reflexivity.
      + apply bind_inv in H1. destruct H1 as [s2 [H2 H1]]. inversion H1; subst s2 r.
        apply execute_vm_run in H2. destruct H2 as [n Hn]. apply vm_run_prog_en in Hn.
        destruct Hn as [_ He]. rewrite He. apply Hen.
      + apply exec1_inv in H1. destruct H1 as [ins [_ [_ [He _]]]]. rewrite He. apply Hen.
  Qed.
End C06.

Lemma C06_stop_iff_proof : C06_stop_iff_stmt.
Proof. intros p s s' b HT R H. apply tables_ok_unpack in HT. eapply stop_iff; eauto. Qed.

Lemma C06_location_proof : C06_location_stmt.
Proof.
  split.
  - intros p s s' HT R H Hn. apply tables_ok_unpack in HT. eapply location; eauto.
  - intros p HT. apply tables_ok_unpack in HT. apply location_init; auto.
Qed.

Lemma C06_enable_proof : C06_enable_stmt.
Proof. intros p s f l v HT R. apply tables_ok_unpack in HT. apply enable; auto. Qed.

Lemma C06_enabled_proof : C06_enabled_stmt.
Proof.
  intros p h fuel s HT NB H b. apply tables_ok_unpack in HT. unfold req_fold.
  eapply (enabled_hist p HT fuel h (init p) s); eauto.
  apply rel_init; auto.
Qed.

(* ================================================================================================ *)
(* 8. the hypotheses are satisfiable: a concrete program                                            *)
(* ================================================================================================ *)
Definition ex_file : str := [97%N].                      (* "a" *)
Definition ex_b1 : bp := mkBP ex_file 1.
Definition ex_b2 : bp := mkBP ex_file 2.
Definition ex_prog : program :=
  mkProg
    [ mkI POTENTIAL_BREAK 0 0 0;      (* 0: line 1 *)
      mkI PREPARE_EXEC 1 0 0;         (* 1: frame of one word, stack map 0 *)
      mkI POTENTIAL_BREAK 0 0 0;      (* 2: line 1 again *)
      mkI CONST 0 5 0;                (* 3: x := 5 *)
      mkI POTENTIAL_BREAK 0 0 0;      (* 4: line 2 *)
      mkI ADD_CONST 0 0 3;            (* 5: x := x + 3 *)
      mkI HALT 0 0 0 ]                (* 6 *)
    [ mkSM [109%N] [(0, [120%N])] ]   (* routine "m", register 0 is "x" *)
    [ (ex_b1, [0; 2]); (ex_b2, [4]) ]
    [ (0, ex_b1); (2, ex_b1); (4, ex_b2) ].

Example rel_nonvacuous :
  exists p, tables_ok p = true /\ no_break p = true /\ potential_breaks p <> [] /\
    sites p ex_b1 = [0; 2] /\ sites p ex_b2 = [4] /\ ex_b1 <> ex_b2 /\
    counts_ok p = true /\ consts_in_range p = true.
Proof.
  exists ex_prog. repeat split; try (vm_compute; reflexivity); discriminate.
Qed.

(* enabling line 2 and resuming stops after the site of line 2 and reports that line; the two sites
   of line 1 are passed silently; resuming again reaches HALT with x = 8 *)
Example ex_history_stop :
  exists s, run_hist 100 [ASetBP ex_file 2 true; AExecute] (init ex_prog) = Ok s /\
    ip s = 5 /\ getCurrentBreak s = Some ex_b2 /\ enabled s = [ex_b2] /\
    op_at s 4 = Some BREAK /\ op_at s 0 = Some POTENTIAL_BREAK /\ data s = [5].
Proof. eexists. split; [vm_compute; reflexivity|]. repeat split. Qed.

Example ex_history_line1 :
  exists s, run_hist 100 [ASetBP ex_file 1 true; AExecute; AExecute] (init ex_prog) = Ok s /\
    ip s = 3 /\ getCurrentBreak s = Some ex_b1 /\
    op_at s 0 = Some BREAK /\ op_at s 2 = Some BREAK /\ op_at s 4 = Some POTENTIAL_BREAK.
Proof. eexists. split; [vm_compute; reflexivity|]. repeat split. Qed.

Example ex_history_end :
  exists s, run_hist 100 [ASetBP ex_file 2 true; AExecute; ASetBP ex_file 2 false; AExecute] (init ex_prog) = Ok s /\
    isDone s = Ok true /\ data s = [8] /\ prog s = ex_prog /\
    views s = Ok [([109%N], [([120%N], 8)])] /\
    reset s = Ok (init ex_prog).
Proof. eexists. split; [vm_compute; reflexivity|]. repeat split. Qed.

Example ex_unavailable :
  run_hist 100 [ASetBP ex_file 3 true] (init ex_prog) = Ok (init ex_prog) /\
  setBreakPoint (init ex_prog) ex_file 3 true = Ok (init ex_prog, false).
Proof. split; vm_compute; reflexivity. Qed.

Print Assumptions rel_reachable_proof.
Print Assumptions C17_reset_proof.
Print Assumptions C17_after_proof.
Print Assumptions C05_exec_core_proof.
Print Assumptions C05_ops_core_proof.
Print Assumptions C05_transparent_proof.
Print Assumptions C05_same_result_proof.
Print Assumptions C06_stop_iff_proof.
Print Assumptions C06_location_proof.
Print Assumptions C06_enable_proof.
Print Assumptions C06_enabled_proof.
Print Assumptions rel_nonvacuous.
