(* Proofs_C01s6q.v — C01, stage 6 (any layout), part 17: the layout condition of the step accounting.
   The budget clause of Stage6Statements.v is false when a value that CALLS a user program is spread over several
   lines (Proofs_C01s6x.v).  It holds when only the values without calls are spread: names, numbers and the +/- sugar
   (callfree).  calls_on_line: every assigned value is call-free or stands on the line of its assignment; all other
   values of the statement language (LOOP bounds, WHILE conditions, IF operands) are names and numbers. *)
From Coq Require Import List ZArith NArith Lia Bool.
From Theo Require Import Base Tokens Errors MacroExtract Parser VMModel VMSpec GenModel Compile RefSem RefSemChk C01Statements C01Stages C01Stages3 C01Stages4 NamesStatements Stage6Statements Gen_Consts Proofs_Sem Proofs_C01a Proofs_C01s4j Proofs_C01s6r.
Import ListNotations.
Local Open Scope Z_scope.

(* a value that computes without a call: NAME, NUMBER, or NAME +/- NUMBER (the parser's __INC__ / __DEC__ calls) *)
Definition callfree (v : node) : bool :=
  match v with
  | Node N_NAME _ _ _ _ _ => true
  | Node N_NUMBER _ _ _ _ _ => true
  | Node N_CALL _ _ _ (Some f)
      (Some (Node N_SPLIT _ _ _ (Some (Node N_NAME _ _ _ _ _)) (Some (Node N_SPLIT _ _ _ (Some (Node N_NUMBER _ _ _ _ _)) None)))) =>
      str_eqb (n_tok f) name_INC || str_eqb (n_tok f) name_DEC
  | _ => false
  end.

(* the layout predicate: the value is call-free, or all its nodes stand on line l of file f (or in the hidden file) *)
Definition call_on_line (f : str) (l : Z) (v : node) : bool := callfree v || on_line f l v.

(* the tree has the shape of stage 4 and every assigned value with a call stands on the line of its assignment *)
Definition calls_on_line (root : node) : bool := prog4 call_on_line root.

Lemma callfree_nocall v s s' rv : callfree v = true -> flat_value v s = Some (s', rv) -> nocall rv.
Proof.
  intros Hc HF j args E. subst rv. destruct v as [t line file tok l r]. destruct t; try discriminate Hc.
  - rewrite flat_value_name in HF. cbv zeta in HF. inversion HF.
  - rewrite flat_value_number in HF. cbv zeta in HF. destruct (INT_MAX <=? strtol tok); inversion HF.
  - cbn [callfree] in Hc. destruct l as [f|]; [|discriminate Hc].
    assert (Hb : is_b2 r = true).
    { unfold is_b2. repeat match type of Hc with
             | context [match ?x with _ => _ end] => is_var x; destruct x; try discriminate Hc
             end. reflexivity. }
    assert (Hop : str_eqb (n_tok f) name_INC || str_eqb (n_tok f) name_DEC = true).
    { repeat match type of Hc with
             | context [match ?x with _ => _ end] => is_var x; destruct x; try discriminate Hc
             end. exact Hc. }
    clear Hc.
    destruct (is_b2_inv _ Hb) as (l1 & f1 & k1 & l3 & f3 & y & c1 & c2 & l2 & f2 & k2 & l4 & f4 & ctok & c3 & c4 & ->).
    rewrite flat_value_call' in HF.
    rewrite fargs_eq in HF. cbn [fargs_opt] in HF. rewrite fargs_eq in HF. cbn [fst snd] in HF.
    rewrite flat_value_name in HF. cbv zeta in HF. cbn [app] in HF.
    rewrite fargs_eq in HF. cbn [fargs_opt] in HF. rewrite fargs_eq in HF. cbn [fst snd] in HF.
    rewrite flat_value_number in HF. cbv zeta in HF.
    destruct (INT_MAX <=? strtol ctok); [discriminate HF|]. cbn [app] in HF.
    unfold builtin_of in HF. cbn [n_type] in HF.
    destruct (str_eqb (n_tok f) name_INC); [inversion HF|].
    cbn [orb] in Hop. rewrite Hop in HF. inversion HF.
Qed.

(* the hypothesis of the static part (Proofs_C01s6k.v) for this layout predicate and the values without calls *)
Lemma call_on_line_ok f l v : call_on_line f l v = true ->
  on_line f l v = true \/ (forall s s' rv, flat_value v s = Some (s', rv) -> nocall rv).
Proof.
  unfold call_on_line. intros H. apply orb_true_iff in H. destruct H as [H|H]; [right | left; exact H].
  intros s s' rv HF. exact (callfree_nocall v s s' rv H HF).
Qed.

(* ================================================================================================ *)
(* the statements that hold instead of C01_anylayout_budget_unguarded_stmt and C01_every_source_unguarded_stmt           *)
(* ================================================================================================ *)
(* C01_anylayout_budget_unguarded_stmt with ONE more hypothesis: calls_on_line root = true *)
Definition C01_anylayout_budget_partial_stmt : Prop :=
  forall root r rs n s,
    shape4 root = true -> headers_ok root = true -> lexable_names root = true ->
    calls_on_line root = true ->
    gen true [] (Some root) = Ok r -> gr_ok r = true ->
    abstract_source (Some root) = Some rs ->
    run_ref_chk n rs = OFuel ->
    vm_run n (init (gr_prog r)) = Ok s -> isDone s = Ok false.

(* C01_every_source_unguarded_stmt: the first clause as it is; the second clause under calls_on_line root = true *)
Definition C01_every_source_partial_stmt : Prop :=
  forall files main c p root rs,
    Forall (fun kv => lexable (fst kv) = true) files ->
    compile files main = Ok c -> cr_ok c = true ->
    parse files main = Ok p -> pr_root p = Some root ->
    abstract_source (Some root) = Some rs ->
    (forall fuel rviews steps trace, run_ref_chk fuel rs = OStop rviews steps trace ->
       exists k s vmviews,
         vm_run k (init (cr_prog c)) = Ok s /\ isDone s = Ok true /\
         views s = Ok vmviews /\ Forall2 view_agrees vmviews rviews /\ (steps <= k)%nat) /\
    (calls_on_line root = true ->
     forall n s, run_ref_chk n rs = OFuel -> vm_run n (init (cr_prog c)) = Ok s -> isDone s = Ok false).
