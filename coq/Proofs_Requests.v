(* Proofs_Requests.v — C15_compiled_requests: by unfolding the pipeline and C15_missing_sound. *)
From Coq Require Import List ZArith NArith Lia Bool.
From Theo Require Import Base Regex Tokens Errors Lexer Scan SpecLex MacroExtract Grammar LR MacroApply Parser VMModel GenModel Compile
                         Gen_Lexer Gen_Consts LexStatements LocErrStatements RequestsStatements Proofs_Scan Proofs_Front.
Local Open Scope Z_scope.

Lemma C15_compiled_requests_proof : C15_compiled_requests_stmt.
Proof.
  intros files main c HC. unfold compile, compile_budget in HC.
  apply Proofs_Front.pp_bind_inv in HC. destruct HC as (p & Hp & HC).
  apply Proofs_Front.pp_bind_inv in HC. destruct HC as (g & Hg & HC). inversion HC; subst c; clear HC.
  cbn [cr_requests].
  unfold parse_budget in Hp. cbv zeta in Hp.
  apply Proofs_Front.pp_bind_inv in Hp. destruct Hp as (sr & Hs & Hp). destruct sr as [toks serrs].
  apply Proofs_Front.pp_bind_inv in Hp. destruct Hp as (xr & Hx & Hp). destruct xr as [[xerrs out] macros].
  apply Proofs_Front.pp_bind_inv in Hp. destruct Hp as (ar & Ha & Hp). destruct ar as [aerrs toks2].
  apply Proofs_Front.pp_bind_inv in Hp. destruct Hp as (pr & Hpr & Hp). destruct pr as [root perrs].
  inversion Hp; subst p; clear Hp. cbn [pr_requests].
  exists toks, serrs. split; [exact Hs|]. split; [reflexivity|].
  intros n Hn. apply in_map_iff in Hn. destruct Hn as (e & <- & He). apply filter_In in He. destruct He as [Hin Hreq].
  destruct (C15_missing_sound_proof _ _ _ _ _ Hs e Hin) as [H1 H2].
  unfold is_request in Hreq. destruct (pe_kind e) eqn:K; try discriminate Hreq.
  all: first [ exact (H1 eq_refl) | destruct (H2 eq_refl) as [-> H3]; exact H3 ].
Qed.

Print Assumptions C15_compiled_requests_proof.
