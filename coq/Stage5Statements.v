(* Stage5Statements.v — what follows once calls are covered: the stepping trace for programs with definitions and calls
   (C07_calls_stmt is in C07Statements.v), the same from source text, and halting of LOOP programs on the VM (C16). *)
From Theo Require Import Base Regex Tokens Errors Lexer Scan MacroExtract Grammar LR MacroApply Parser VMModel VMSpec GenModel Compile
                         RefSem RefSemChk C01Statements C01Stages C01Stages3 C01Stages4 C07Statements RefHaltStatements
                         Gen_Lexer Gen_Consts.
Local Open Scope Z_scope.

(* C07 from source text: a successful compilation of a canonically laid out program steps through exactly the stops of
   the reference semantics, with the same user-variable values in every live activation at every stop *)
Definition C07_pipeline_stmt : Prop :=
  forall files main c p root rs fuel rviews steps trace,
    compile files main = Ok c -> cr_ok c = true ->
    parse files main = Ok p -> pr_root p = Some root ->
    canonical4 root = true -> lexable_names root = true ->
    abstract_source (Some root) = Some rs ->
    run_ref_chk fuel rs = OStop rviews steps trace ->
    exists n tr s vmviews,
      step_trace n (setSteppingMode (init (cr_prog c)) true) = Ok (tr, s, true) /\
      Forall2 stop_agrees tr trace /\
      views s = Ok vmviews /\ Forall2 view_agrees vmviews rviews.

(* C16, last sentence, on the VM: a successfully compiled source without WHILE, GOTO and IF halts, provided no value
   reaches the word limit (the reference run is then the checked run) *)
Definition C16_vm_loop_halts_stmt : Prop :=
  forall files main c p root rs,
    compile files main = Ok c -> cr_ok c = true ->
    parse files main = Ok p -> pr_root p = Some root ->
    canonical4 root = true -> lexable_names root = true -> loop_only root = true ->
    abstract_source (Some root) = Some rs ->
    (forall fuel, run_ref_chk fuel rs <> OBad) ->
    exists k s, vm_run k (init (cr_prog c)) = Ok s /\ isDone s = Ok true.
