(* FlexSkel.v — the control flow of one yylex() call of the committed scanner (Compiler/src/lex.yy.c), transcribed for
   the way scan.cpp uses it: the text is handed over with yy_scan_bytes (a private copy followed by two NUL sentinels,
   yy_n_chars = length of the text, yy_fill_buffer = 0), no REJECT / yymore / start conditions / interactive input.
   Positions are indices into the buffer  text ++ [0; 0].

   Transcribed: the outer `while (1)` of yylex; the yy_match loop (which also runs over the sentinel: every state has
   a transition on yy_ec[0] into the end-of-buffer state); yy_find_action; the yylineno loop; the action switch with
   `case 0` (back up), the rule actions, and `case YY_END_OF_BUFFER` with its three continuations — a NUL of the text
   (yy_get_previous_state, yy_try_NUL_trans), EOB_ACT_END_OF_FILE (-> YY_STATE_EOF: yyterminate) and
   EOB_ACT_LAST_MATCH; yy_get_next_buffer for yy_fill_buffer == 0.
   Not transcribed: yy_hold_char (the byte after the match is overwritten by NUL while the action runs and restored at
   the next call: invisible, the action copies yytext with yyleng), buffer allocation, yy_buffer_status.
   An out-of-range table read, a read of yy_last_accepting_* before it was ever set, and exhaustion of the explicit
   fuel are `None`. *)
From Theo Require Import Base Regex Tokens Lexer FlexModel.
Local Open Scope Z_scope.

Section Skel.
  Variable t : ftables.
  Variable acts : list (option (option tkind)).
  Variable text : list N.

  Definition n_chars : Z := zlen text.
  (* yy_ch_buf[i] *)
  Definition buf_at (i : Z) : option N :=
    if (0 <=? i) && (i <? n_chars) then znth text i
    else if (i =? n_chars) || (i =? n_chars + 1) then Some 0%N
    else None.

  (* yy_ec[ the byte at yy_cp ] : no special case for NUL in the match loop *)
  Definition ec_of (c : N) : option Z := znth (ft_ec t) (Z.of_N c).
  (* in yy_get_previous_state a NUL byte takes the class 1 instead of yy_ec[0] *)
  Definition ec_prev (c : N) : option Z := if (c =? 0)%N then Some (ft_nul t) else ec_of c.

  Definition trans (cur c : Z) : option Z := next_state (chain_fuel t) t cur c.

  (* yy_last_accepting_state / yy_last_accepting_cpos; None = never assigned *)
  Definition last_t := option (Z * Z).
  Definition note (cur cp : Z) (last : last_t) : option last_t :=
    match accept_of t cur with
    | None => None
    | Some a => Some (if a =? 0 then last else Some (cur, cp))
    end.

  (* the do { ... } while ( yy_current_state != jam ) loop; returns the last accepting (state, cpos) *)
  Fixpoint match_loop (fuel : nat) (cur cp : Z) (last : last_t) : option last_t :=
    match fuel with
    | O => None
    | S f =>
        match buf_at cp with
        | None => None
        | Some ch =>
            match ec_of ch, note cur cp last with
            | Some c, Some last' =>
                match trans cur c with
                | None => None
                | Some q => if q =? ft_jam t then Some last' else match_loop f q (cp + 1) last'
                end
            | _, _ => None
            end
        end
    end.

  (* yy_get_previous_state: from yytext_ptr (= bp) up to c_buf_p (exclusive) *)
  Fixpoint prev_state (fuel : nat) (cur cp stop : Z) (last : last_t) : option (Z * last_t) :=
    if stop <=? cp then Some (cur, last)
    else
      match fuel with
      | O => None
      | S f =>
          match buf_at cp with
          | None => None
          | Some ch =>
              match ec_prev ch, note cur cp last with
              | Some c, Some last' =>
                  match trans cur c with
                  | None => None
                  | Some q => prev_state f q (cp + 1) stop last'
                  end
              | _, _ => None
              end
          end
      end.

  (* the text between two buffer positions: yytext with yyleng *)
  Definition slice (a b : Z) : list N := firstn (Z.to_nat (b - a)) (skipn (Z.to_nat a) text).

  Inductive lexres :=
  | LTok (k : tkind) (txt : list N) (line : Z) (c_buf_p : Z)
  | LEof
  | LFault.

  (* everything from yy_find_action on, for one candidate (cur, cp); `bp` = yytext_ptr.
     Returns either a finished call, or the position at which the outer loop continues (action {}). *)
  Inductive step_res :=
  | SDone (r : lexres)
  | SNext (c_buf_p : Z) (line : Z).

  (* fuel: the number of times control can come back to yy_find_action / yy_match within one token
     (case 0 once, a NUL of the text once per NUL) *)
  Fixpoint find_action (fuel : nat) (bp : Z) (cur cp : Z) (last : last_t) (line : Z) : step_res :=
    match fuel with
    | O => SDone LFault
    | S f =>
        match accept_of t cur with
        | None => SDone LFault
        | Some act =>
            (* YY_DO_BEFORE_ACTION: yytext = [bp, cp), c_buf_p = cp *)
            let c_buf_p := cp in
            let line' := if negb (act =? ft_eob t) && eol_flag t act then line + count_nl (slice bp cp) else line in
            if act =? 0 then
              (* case 0: must back up *)
              match last with
              | Some (ls, lc) => find_action f bp ls lc last line'
              | None => SDone LFault
              end
            else if act =? ft_eob t then
              let amount := (cp - bp) - 1 in
              if c_buf_p <=? n_chars then
                (* this was really a NUL *)
                let c_buf_p1 := bp + amount in
                match prev_state (Z.to_nat (amount + 1)) (ft_start t) bp c_buf_p1 last with
                | None => SDone LFault
                | Some (st, last1) =>
                    (* yy_try_NUL_trans *)
                    match note st c_buf_p1 last1, trans st (ft_nul t) with
                    | Some last2, Some q =>
                        if q =? ft_jam t then
                          match last2 with
                          | Some (ls, lc) => find_action f bp ls lc last2 line'
                          | None => SDone LFault
                          end
                        else
                          (* consume the NUL and go on matching *)
                          match match_loop (S (Z.to_nat (n_chars + 2 - c_buf_p1))) q (c_buf_p1 + 1) last2 with
                          | Some (Some (ls, lc)) => find_action f bp ls lc (Some (ls, lc)) line'
                          | _ => SDone LFault
                          end
                    | _, _ => SDone LFault
                    end
                end
              else
                (* yy_get_next_buffer with yy_fill_buffer == 0 *)
                if c_buf_p - bp =? 1 then SDone LEof          (* EOB_ACT_END_OF_FILE -> YY_STATE_EOF(INITIAL): yyterminate() *)
                else
                  (* EOB_ACT_LAST_MATCH *)
                  match prev_state (Z.to_nat (n_chars - bp + 1)) (ft_start t) bp n_chars last with
                  | None => SDone LFault
                  | Some (st, last1) => find_action f bp st n_chars last1 line'
                  end
            else
              match nth_error acts (Z.to_nat (act - 1)) with
              | Some (Some (Some k)) => SDone (LTok k (slice bp cp) line' c_buf_p)
              | Some (Some None) => SNext c_buf_p line'
              | _ => SDone LFault                                      (* ECHO, or no such case *)
              end
        end
    end.

  (* one token: yy_match from c_buf_p, then yy_find_action *)
  Definition one_match (c_buf_p line : Z) : step_res :=
    match match_loop (S (Z.to_nat (n_chars + 2 - c_buf_p))) (ft_start t) c_buf_p None with
    | Some (Some (ls, lc)) => find_action (S (S (Z.to_nat (n_chars + 2 - c_buf_p)))) c_buf_p ls lc (Some (ls, lc)) line
    | _ => SDone LFault
    end.

  (* the outer while (1) *)
  Fixpoint yylex (fuel : nat) (c_buf_p line : Z) : lexres :=
    match fuel with
    | O => LFault
    | S f =>
        match one_match c_buf_p line with
        | SDone r => r
        | SNext p l => yylex f p l
        end
    end.
End Skel.
