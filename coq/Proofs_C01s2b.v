(* Proofs_C01s2b.v — C01, stage 2 (LOOP / WHILE), part 2: the STATIC part, register tables.
   Names of hidden registers, the key view of a register table (names and kinds, without the in_use flags),
   the register map it induces, its well-formedness, and the agreement with the variables of the flattener. *)
From Coq Require Import List ZArith NArith Lia Bool.
From Theo Require Import Base Tokens Errors MacroExtract Parser VMModel VMSpec GenModel Compile RefSem RefSemChk C01Statements C01Stages Gen_Consts Proofs_VM_mem Proofs_VM_dbg Proofs_Gen0 Proofs_Gen Proofs_Sem Proofs_C01a Proofs_C01b Proofs_C01 Proofs_C01s2a.
Import ListNotations.
Local Open Scope Z_scope.

(* ================================================================================================ *)
(* 1. decimal rendering is injective (as in Proofs_Macro.v; repeated here to keep the imports small) *)
(* ================================================================================================ *)
Section Dec.
Local Open Scope N_scope.

Definition is_digit (c : N) : Prop := 48 <= c <= 57.
Definition valf (a : N) (s : str) : N := fold_left (fun a c => a * 10 + (c - 48)) s a.

Lemma valf_app : forall a s t, valf a (s ++ t) = valf (valf a s) t.
Proof. intros a s t. unfold valf. apply fold_left_app. Qed.

Lemma dec_pos_fuel_step : forall f n acc,
  dec_pos_fuel (S f) n acc =
  if N.eqb (n / 10) 0 then (48 + n mod 10) :: acc else dec_pos_fuel f (n / 10) ((48 + n mod 10) :: acc).
Proof. reflexivity. Qed.

Lemma dec_pos_fuel_spec : forall fuel n acc, n < 2 ^ N.of_nat fuel ->
  exists ds, dec_pos_fuel (S fuel) n acc = ds ++ acc /\ valf 0 ds = n /\ Forall is_digit ds /\ ds <> [].
Proof.
  induction fuel as [| fuel IH]; intros n acc Hn.
  - change (2 ^ N.of_nat 0) with 1 in Hn. assert (En : n = 0) by lia. subst n.
    exists [48]. split; [reflexivity |]. split; [reflexivity |]. split.
    + constructor; [unfold is_digit; lia | constructor].
    + discriminate.
  - rewrite Nat2N.inj_succ, N.pow_succ_r' in Hn.
    rewrite dec_pos_fuel_step.
    pose proof (N.div_mod' n 10) as Hdm.
    assert (Hml : n mod 10 < 10) by (apply N.mod_lt; discriminate).
    remember (n / 10) as q eqn:Eq. remember (n mod 10) as m eqn:Em.
    destruct (N.eqb_spec q 0) as [Hq | Hq].
    + exists [48 + m]. split; [reflexivity |]. split.
      * unfold valf; cbn [fold_left]. lia.
      * split; [| discriminate]. constructor; [unfold is_digit; lia | constructor].
    + assert (Hql : q < 2 ^ N.of_nat fuel) by lia.
      destruct (IH q ((48 + m) :: acc) Hql) as (ds & Hds & Hv & Hf & Hne).
      exists (ds ++ [48 + m]). split.
      * rewrite Hds. rewrite <- app_assoc. reflexivity.
      * split.
        -- rewrite valf_app, Hv. unfold valf; cbn [fold_left]. lia.
        -- split.
           ++ apply Forall_app. split; [exact Hf |]. constructor; [unfold is_digit; lia | constructor].
           ++ intro E. apply app_eq_nil in E. destruct E as [_ E]. discriminate.
Qed.

Lemma pos_size_nat_gt : forall p, N.pos p < 2 ^ N.of_nat (Pos.size_nat p).
Proof.
  induction p as [p IH | p IH |]; cbn [Pos.size_nat].
  - rewrite Nat2N.inj_succ, N.pow_succ_r'. change (N.pos p~1) with (2 * N.pos p + 1). lia.
  - rewrite Nat2N.inj_succ, N.pow_succ_r'. change (N.pos p~0) with (2 * N.pos p). lia.
  - reflexivity.
Qed.

Lemma size_nat_gt : forall n, n < 2 ^ N.of_nat (N.size_nat n).
Proof. intros [| p]; [reflexivity | apply pos_size_nat_gt]. Qed.

Lemma dec_spec : forall n, valf 0 (dec n) = n /\ Forall is_digit (dec n) /\ dec n <> [].
Proof.
  intros n. unfold dec.
  destruct (dec_pos_fuel_spec (N.size_nat n) n [] (size_nat_gt n)) as (ds & Hds & Hv & Hf & Hne).
  rewrite Hds, app_nil_r. auto.
Qed.

Lemma dec_inj : forall n m, dec n = dec m -> n = m.
Proof.
  intros n m H.
  destruct (dec_spec n) as [Hn _]. destruct (dec_spec m) as [Hm _].
  rewrite <- Hn, <- Hm, H. reflexivity.
Qed.

Lemma dec_digits : forall n, Forall is_digit (dec n).
Proof. intros n. apply dec_spec. Qed.

Lemma digits_prefix_eq : forall c, ~ is_digit c -> forall ds ds' a b,
  Forall is_digit ds -> Forall is_digit ds' -> ds ++ c :: a = ds' ++ c :: b -> ds = ds'.
Proof.
  intros c Hc. induction ds as [| d ds IH]; intros ds' a b H1 H2 E.
  - destruct ds' as [| d' ds']; [reflexivity |].
    cbn [app] in E. injection E as E1 E2. subst d'. inversion H2; subst. contradiction.
  - destruct ds' as [| d' ds'].
    + cbn [app] in E. injection E as E1 E2. subst d. inversion H1; subst. contradiction.
    + cbn [app] in E. injection E as E1 E2. subst d'.
      inversion H1; subst. inversion H2; subst. f_equal. eapply IH; eauto.
Qed.

Lemma Forall_rev' : forall {A} (P : A -> Prop) l, Forall P l -> Forall P (rev l).
Proof.
  intros A P l H. rewrite Forall_forall in *. intros x Hx. apply H. apply in_rev. exact Hx.
Qed.

Lemma digits_suffix_eq : forall c, ~ is_digit c -> forall ds ds' a b,
  Forall is_digit ds -> Forall is_digit ds' -> a ++ c :: ds = b ++ c :: ds' -> ds = ds'.
Proof.
  intros c Hc ds ds' a b H1 H2 E.
  apply (f_equal (@rev N)) in E. rewrite !rev_app_distr in E. cbn [rev] in E.
  rewrite <- !app_assoc in E. cbn [app] in E.
  apply digits_prefix_eq in E; auto using Forall_rev'.
  rewrite <- (rev_involutive ds), E, rev_involutive. reflexivity.
Qed.
End Dec.

Lemma dec_z_nonneg : forall z, 0 <= z -> dec_z z = dec (Z.to_N z).
Proof. intros z Hz. unfold dec_z. destruct (Z.ltb_spec z 0); [lia | reflexivity]. Qed.

(* ================================================================================================ *)
(* 2. the names of the hidden registers                                                             *)
(* ================================================================================================ *)
(* "Loop Variable <file>:<line>[<id>]" *)
Definition cname (f : str) (l id : Z) : str :=
  loopvar_p1 ++ f ++ loopvar_p2 ++ dec_z l ++ loopvar_p3 ++ dec_z id ++ loopvar_p4.

Lemma loop_counter_name_eq g : loop_counter_name g = cname (g_fsname g) (g_fsline g) (g_loops g).
Proof. reflexivity. Qed.

Lemma lexable_app a b : lexable (a ++ b) = lexable a && lexable b.
Proof. unfold lexable. apply forallb_app. Qed.

Lemma cname_not_lexable f l id : lexable (cname f l id) = false.
Proof. unfold cname. rewrite lexable_app. reflexivity. Qed.

Lemma temp_not_lexable : lexable temp_name_str = false.
Proof. reflexivity. Qed.

Lemma cname_not_temp f l id : cname f l id <> temp_name_str.
Proof. unfold cname, loopvar_p1, temp_name_str. cbn [app]. discriminate. Qed.

Lemma cname_inj f l id f' l' id' : 0 <= id -> 0 <= id' -> cname f l id = cname f' l' id' -> id = id'.
Proof.
  intros H1 H2 E. unfold cname, loopvar_p3, loopvar_p4 in E.
  rewrite (dec_z_nonneg id H1), (dec_z_nonneg id' H2) in E.
  rewrite !app_assoc in E. apply app_inj_tail in E. destruct E as [E _].
  rewrite <- !app_assoc in E. cbn [app] in E.
  rewrite !app_assoc in E.
  apply digits_suffix_eq in E; [| unfold is_digit; lia | apply dec_digits | apply dec_digits].
  apply dec_inj in E. lia.
Qed.

(* ================================================================================================ *)
(* 3. keys of a register table                                                                      *)
(* ================================================================================================ *)
Definition key (r : vreg) : str * bool := (vname r, is_temp r).

Fixpoint frk (ks : list (str * bool)) (x : str) (i : Z) : option Z :=
  match ks with
  | [] => None
  | (n, _) :: t => if str_eqb n x then Some i else frk t x (i + 1)
  end.

Lemma find_reg_frk regs x : forall k, find_reg regs x k = frk (map key regs) x k.
Proof.
  induction regs as [|r regs IH]; intros k; cbn [find_reg map frk key]; [reflexivity|].
  destruct (str_eqb (vname r) x); [reflexivity | apply IH].
Qed.

Lemma frk_range ks x : forall k i, frk ks x k = Some i -> k <= i < k + zlen ks.
Proof.
  induction ks as [|[n b] t IH]; intros k i; cbn [frk]; [discriminate|].
  rewrite zlen_cons. pose proof (zlen_nonneg t).
  destruct (str_eqb n x); [intros H'; inversion H'; lia|]. intros H'. apply IH in H'. lia.
Qed.

Lemma frk_app_some ks l x : forall k i, frk ks x k = Some i -> frk (ks ++ l) x k = Some i.
Proof.
  induction ks as [|[n b] t IH]; intros k i; cbn [frk app]; [discriminate|].
  destruct (str_eqb n x); auto.
Qed.

Lemma frk_app_none ks l x : forall k, frk ks x k = None -> frk (ks ++ l) x k = frk l x (k + zlen ks).
Proof.
  induction ks as [|[n b] t IH]; intros k; cbn [frk app].
  - intros _. unfold zlen; cbn. f_equal. lia.
  - destruct (str_eqb n x); [discriminate|]. intros H. rewrite IH by exact H.
    f_equal. rewrite zlen_cons. lia.
Qed.

Lemma frk_name ks x : forall k i, frk ks x k = Some i -> exists b, znth ks (i - k) = Some (x, b).
Proof.
  induction ks as [|[n b] t IH]; intros k i; cbn [frk]; [discriminate|].
  destruct (str_eqb n x) eqn:E.
  - intros H; inversion H; subst. exists b. rewrite Z.sub_diag. apply str_eqb_eq in E. subst n. reflexivity.
  - intros H. pose proof (frk_range _ _ _ _ H) as Hr.
    destruct (IH _ _ H) as (b' & Hz). exists b'.
    unfold znth in *. destruct (Z.ltb_spec (i - (k + 1)) 0); [lia|]. destruct (Z.ltb_spec (i - k) 0); [lia|].
    replace (Z.to_nat (i - k)) with (S (Z.to_nat (i - (k + 1)))) by lia. exact Hz.
Qed.

Lemma frk_name0 ks x i : frk ks x 0 = Some i -> exists b, znth ks i = Some (x, b).
Proof. intros H. apply frk_name in H. rewrite Z.sub_0_r in H. exact H. Qed.

Lemma frk_snoc ks n b x :
  frk (ks ++ [(n, b)]) x 0 =
  match frk ks x 0 with
  | Some i => Some i
  | None => if str_eqb n x then Some (zlen ks) else None
  end.
Proof.
  destruct (frk ks x 0) as [i|] eqn:E.
  - apply frk_app_some; exact E.
  - rewrite frk_app_none by exact E. cbn [frk]. rewrite Z.add_0_l. reflexivity.
Qed.

Definition kext (ks ks' : list (str * bool)) : Prop := exists l, ks' = ks ++ l.

Lemma kext_refl ks : kext ks ks.
Proof. exists []. rewrite app_nil_r. reflexivity. Qed.

Lemma kext_trans a b c : kext a b -> kext b c -> kext a c.
Proof. intros [l1 ->] [l2 ->]. exists (l1 ++ l2). rewrite app_assoc. reflexivity. Qed.

Lemma kext_app ks l : kext ks (ks ++ l).
Proof. exists l; reflexivity. Qed.

(* adding a (non-temporary) register for a name, as fetch_variable does *)
Definition ks_add (ks : list (str * bool)) (x : str) : list (str * bool) :=
  match frk ks x 0 with Some _ => ks | None => ks ++ [(x, false)] end.
Definition ks_ix (ks : list (str * bool)) (x : str) : Z :=
  match frk ks x 0 with Some i => i | None => zlen ks end.

Lemma frk_ks_add ks x : frk (ks_add ks x) x 0 = Some (ks_ix ks x).
Proof.
  unfold ks_add, ks_ix. destruct (frk ks x 0) as [i|] eqn:E; [exact E|].
  rewrite frk_snoc, E, str_eqb_refl. reflexivity.
Qed.

Lemma kext_ks_add ks x : kext ks (ks_add ks x).
Proof. unfold ks_add. destruct (frk ks x 0); [apply kext_refl | apply kext_app]. Qed.

(* ================================================================================================ *)
(* 4. the register map of a table, and its well-formedness                                          *)
(* ================================================================================================ *)
Definition RMof (ks : list (str * bool)) : regmap :=
  mkRM (fun x i => lexable x = true /\ frk ks x 0 = Some i)
       (fun id i => 0 <= id /\ exists f l, frk ks (cname f l id) 0 = Some i)
       (fun t => exists n, znth ks t = Some (n, true)).

Lemma RMof_mono ks ks' : kext ks ks' -> rm_le (RMof ks) (RMof ks').
Proof.
  intros [l ->]. split; [|split]; cbn [RMof rm_var rm_cnt rm_tmp].
  - intros x i [H1 H2]. split; [exact H1 | apply frk_app_some; exact H2].
  - intros c i (H1 & f & l' & H2). split; [exact H1|]. exists f, l'. apply frk_app_some; exact H2.
  - intros t (n & H). exists n. rewrite znth_app_l; [exact H|]. apply znth_some_range in H. lia.
Qed.

(* temporaries carry the reserved name; every other register is the first of its name and is either a user
   variable (no blank in its name) or the counter of a loop with an id in 1..L; ids determine the counter *)
Definition RW (ks : list (str * bool)) (L : Z) : Prop :=
  (forall i n b, znth ks i = Some (n, b) ->
     if b then n = temp_name_str
     else frk ks n 0 = Some i /\ (lexable n = true \/ exists f l id, n = cname f l id /\ 1 <= id <= L)) /\
  (forall f l f' l' id i j, 0 <= id -> frk ks (cname f l id) 0 = Some i -> frk ks (cname f' l' id) 0 = Some j -> i = j).

Lemma RW_nil L : RW [] L.
Proof.
  split.
  - intros i n b H. rewrite znth_nil in H. discriminate.
  - intros f l f' l' id i j _ H. discriminate.
Qed.

Lemma RW_mono ks L L' : L <= L' -> RW ks L -> RW ks L'.
Proof.
  intros HL [H1 H2]. split; [|exact H2]. intros i n b Hz. specialize (H1 i n b Hz).
  destruct b; [exact H1|]. destruct H1 as [A [B|(f & l & id & B1 & B2)]]; split; auto.
  right. exists f, l, id. split; [exact B1 | lia].
Qed.

Lemma RW_rm_ok ks L : RW ks L -> rm_ok (RMof ks) (zlen ks).
Proof.
  intros [H1 H2]. constructor; cbn [RMof rm_var rm_cnt rm_tmp].
  - intros x i [_ H]. apply frk_range in H. lia.
  - intros c i (_ & f & l & H). apply frk_range in H. lia.
  - intros t (n & H). apply znth_some_range in H. exact H.
  - intros x i j [_ A] [_ B]. congruence.
  - intros x y i [_ A] [_ B]. apply frk_name0 in A, B. destruct A as [b A], B as [b' B]. congruence.
  - intros c i j (Hc & f & l & A) (_ & f' & l' & B). eapply H2; eauto.
  - intros c c' i (Hc & f & l & A) (Hc' & f' & l' & B). apply frk_name0 in A, B.
    destruct A as [b A], B as [b' B]. rewrite A in B.
    assert (E : cname f l c = cname f' l' c') by congruence. eapply cname_inj; eauto.
  - intros x c i [Hx A] (_ & f & l & B). apply frk_name0 in A, B.
    destruct A as [b A], B as [b' B]. rewrite A in B. inversion B; subst x.
    rewrite cname_not_lexable in Hx. discriminate.
  - intros x i [Hx A] (n & B). apply frk_name0 in A. destruct A as [b A]. rewrite A in B. inversion B; subst n b.
    specialize (H1 _ _ _ A). cbn in H1. subst x. rewrite temp_not_lexable in Hx. discriminate.
  - intros c i (_ & f & l & A) (n & B). apply frk_name0 in A. destruct A as [b A]. rewrite A in B. inversion B; subst n b.
    specialize (H1 _ _ _ A). cbn in H1. exact (cname_not_temp _ _ _ H1).
Qed.

Lemma RW_snoc_gen (ks : list (str * bool)) (L : Z) (n : str) (b : bool) :
  RW ks L ->
  (if b then n = temp_name_str
   else frk ks n 0 = None /\ (lexable n = true \/ exists f l id, n = cname f l id /\ 1 <= id <= L)) ->
  (forall f l id, b = false -> 0 <= id -> n = cname f l id -> forall f' l' j, frk ks (cname f' l' id) 0 = Some j -> False) ->
  RW (ks ++ [(n, b)]) L.
Proof.
  intros [H1 H2] Hn Hfresh. split.
  - intros i n' b' Hz. apply znth_snoc_inv in Hz. destruct Hz as [[Hi Hz]|[-> E]].
    + specialize (H1 _ _ _ Hz). destruct b'; [exact H1|]. destruct H1 as [A B]. split; [|exact B].
      apply frk_app_some; exact A.
    + inversion E; subst n' b'. destruct b; [exact Hn|]. destruct Hn as [A B]. split; [|exact B].
      rewrite frk_snoc, A, str_eqb_refl. reflexivity.
  - intros f l f' l' id i j Hid A B. rewrite frk_snoc in A, B.
    destruct (frk ks (cname f l id) 0) as [i0|] eqn:EA; destruct (frk ks (cname f' l' id) 0) as [j0|] eqn:EB.
    + inversion A; inversion B; subst. eapply H2; eauto.
    + destruct (str_eqb n (cname f' l' id)) eqn:E; [|discriminate]. apply str_eqb_eq in E.
      exfalso. destruct b.
      * rewrite Hn in E. exact (cname_not_temp _ _ _ (eq_sym E)).
      * eapply (Hfresh f' l' id eq_refl Hid E); eauto.
    + destruct (str_eqb n (cname f l id)) eqn:E; [|discriminate]. apply str_eqb_eq in E.
      exfalso. destruct b.
      * rewrite Hn in E. exact (cname_not_temp _ _ _ (eq_sym E)).
      * eapply (Hfresh f l id eq_refl Hid E); eauto.
    + destruct (str_eqb n (cname f l id)); [|discriminate]. destruct (str_eqb n (cname f' l' id)); [|discriminate].
      congruence.
Qed.

Lemma RW_add_tmp ks L : RW ks L -> RW (ks ++ [(temp_name_str, true)]) L.
Proof. intros H. apply RW_snoc_gen; auto. intros; discriminate. Qed.

Lemma RW_add_user ks L x : lexable x = true -> RW ks L -> RW (ks_add ks x) L.
Proof.
  intros Hx H. unfold ks_add. destruct (frk ks x 0) eqn:E; [exact H|].
  apply RW_snoc_gen; auto.
  intros f l id _ _ ->. rewrite cname_not_lexable in Hx. discriminate.
Qed.

Lemma RW_cnt_fresh ks L f l : RW ks L -> frk ks (cname f l (L + 1)) 0 = None.
Proof.
  intros [H1 _]. destruct (frk ks (cname f l (L + 1)) 0) as [i|] eqn:E; [|reflexivity].
  exfalso. apply frk_name0 in E. destruct E as [b E]. specialize (H1 _ _ _ E). destruct b.
  - exact (cname_not_temp _ _ _ H1).
  - destruct H1 as [_ [B|(f' & l' & id & B1 & B2)]].
    + rewrite cname_not_lexable in B. discriminate.
    + apply cname_inj in B1; lia.
Qed.

Lemma RW_add_cnt ks L f l : 0 <= L -> RW ks L -> RW (ks ++ [(cname f l (L + 1), false)]) (L + 1).
Proof.
  intros HL H. pose proof (RW_cnt_fresh ks L f l H) as Hf.
  apply RW_snoc_gen.
  - apply RW_mono with L; [lia | exact H].
  - split; [exact Hf|]. right. exists f, l, (L + 1). split; [reflexivity | lia].
  - intros f0 l0 id _ Hid E f' l' j Hj. apply cname_inj in E; try lia.
    subst id. rewrite (RW_cnt_fresh ks L f' l' H) in Hj. discriminate.
Qed.

(* ================================================================================================ *)
(* 5. the variables of the flattener against the table                                              *)
(* ================================================================================================ *)
Definition JV (ks : list (str * bool)) (vars : list str) : Prop :=
  NoDup vars /\
  (forall x, In x vars -> lexable x = true /\ exists i, frk ks x 0 = Some i) /\
  (forall x i, lexable x = true -> frk ks x 0 = Some i -> In x vars).

Lemma existsb_str x vars : existsb (str_eqb x) vars = true <-> In x vars.
Proof.
  rewrite existsb_exists. split.
  - intros (y & Hy & E). apply str_eqb_eq in E. subst y. exact Hy.
  - intros H. exists x. split; [exact H | apply str_eqb_refl].
Qed.

Lemma JV_add_user ks vars x : lexable x = true -> JV ks vars -> JV (ks_add ks x) (mention_l vars x).
Proof.
  intros Hx (Hnd & H2 & H3). unfold ks_add, mention_l. destruct (frk ks x 0) as [i|] eqn:E.
  - assert (Hin : In x vars) by (eapply H3; eauto).
    rewrite (proj2 (existsb_str x vars) Hin). exact (conj Hnd (conj H2 H3)).
  - assert (Hnin : ~ In x vars).
    { intros Hin. destruct (H2 _ Hin) as [_ [i Hi]]. congruence. }
    destruct (existsb (str_eqb x) vars) eqn:Ex; [apply existsb_str in Ex; contradiction|].
    split; [apply NoDup_snoc; auto|]. split.
    + intros y Hy. apply in_app_or in Hy. destruct Hy as [Hy|[<-|[]]].
      * destruct (H2 _ Hy) as [A [i Hi]]. split; [exact A|]. exists i. apply frk_app_some; exact Hi.
      * split; [exact Hx|]. exists (zlen ks). rewrite frk_snoc, E, str_eqb_refl. reflexivity.
    + intros y i Hy Hf. rewrite frk_snoc in Hf. destruct (frk ks y 0) as [j|] eqn:Ey.
      * apply in_or_app. left. eapply H3; eauto.
      * destruct (str_eqb x y) eqn:Exy; [|discriminate]. apply str_eqb_eq in Exy. subst y.
        apply in_or_app. right. left. reflexivity.
Qed.

Lemma JV_add_nonlex ks vars n b : lexable n = false -> JV ks vars -> JV (ks ++ [(n, b)]) vars.
Proof.
  intros Hn (Hnd & H2 & H3). split; [exact Hnd|]. split.
  - intros y Hy. destruct (H2 _ Hy) as [A [i Hi]]. split; [exact A|]. exists i. apply frk_app_some; exact Hi.
  - intros y i Hy Hf. rewrite frk_snoc in Hf. destruct (frk ks y 0) as [j|] eqn:Ey.
    + eapply H3; eauto.
    + destruct (str_eqb n y) eqn:Exy; [|discriminate]. apply str_eqb_eq in Exy. subst y. congruence.
Qed.

Lemma JV_nil : JV [] [].
Proof. split; [constructor|]. split; [intros x []|]. intros x i _ H. discriminate. Qed.

(* ================================================================================================ *)
(* 6. vectors                                                                                       *)
(* ================================================================================================ *)
Lemma znth_app_some {A} (l l' : list A) i x : znth l i = Some x -> znth (l ++ l') i = Some x.
Proof. intros H. rewrite znth_app_l; [exact H|]. apply znth_some_range in H. lia. Qed.

Lemma In_znth {A} (l : list A) x : In x l -> exists i, znth l i = Some x.
Proof. intros H. apply In_nth_error in H. destruct H as [n H]. exists (Z.of_nat n). rewrite znth_of_nat. exact H. Qed.

Lemma NoDup_znth {A} (l : list A) i j x : NoDup l -> znth l i = Some x -> znth l j = Some x -> i = j.
Proof.
  intros Hnd Hi Hj. pose proof (znth_some_range _ _ _ Hi) as Ri. pose proof (znth_some_range _ _ _ Hj) as Rj.
  apply znth_nth_error in Hi, Hj. rewrite NoDup_nth_error in Hnd.
  assert (Z.to_nat i = Z.to_nat j).
  { apply Hnd; [unfold zlen in Ri; lia | congruence]. }
  lia.
Qed.

(* ================================================================================================ *)
(* 7. the joint invariant of generator and flattener, on its components                             *)
(* ================================================================================================ *)
(* before backpatching: the offset field of a jump holds the label associated with the target id, and the
   position of the jump is on the to-do list *)
Definition jpre (lmap todo : list Z) : jrel := fun q f e => In q todo /\ znth lmap e = Some f.

Section Static.
  Variable P0 : Z.

  (* code: p instructions are emitted on the VM side and not yet accounted for by a reference instruction *)
  Definition JC (code : list instr) (ks : list (str * bool)) (todo lmap : list Z) (rcode : list rinstr) (p : Z) : Prop :=
    zlen code = P0 + boff rcode (length rcode) + p /\
    forall pc i, znth rcode pc = Some i -> imatch (RMof ks) code (jpre lmap todo) (pm_of P0 rcode pc) i.

  Lemma JC_mono code ks todo lmap rcode p code' ks' todo' lmap' p' :
    JC code ks todo lmap rcode p ->
    (exists blk, code' = code ++ blk) -> kext ks ks' -> incl todo todo' -> (exists m, lmap' = lmap ++ m) ->
    zlen code' = P0 + boff rcode (length rcode) + p' ->
    JC code' ks' todo' lmap' rcode p'.
  Proof.
    intros [_ HM] [blk ->] Hk Ht [m ->] Hl. split; [exact Hl|].
    intros pc i Hi. eapply imatch_mono; [apply RMof_mono; exact Hk | | | apply HM; exact Hi].
    - intros q' ins _ Hz. apply znth_app_some; exact Hz.
    - intros q' f e _ [A B]. split; [apply Ht; exact A | apply znth_app_some; exact B].
  Qed.

  Lemma pm_of_app rcode l t : t <= zlen rcode -> pm_of P0 (rcode ++ l) t = pm_of P0 rcode t.
  Proof. intros H. unfold pm_of. rewrite boff_app; [reflexivity|]. unfold zlen in H. lia. Qed.

  Lemma JC_bemit code ks todo lmap rcode p i :
    JC code ks todo lmap rcode p -> blen i = p ->
    imatch (RMof ks) code (jpre lmap todo) (zlen code - p) i ->
    JC code ks todo lmap (rcode ++ [i]) 0.
  Proof.
    intros [HL HM] Hb Hi. split.
    - rewrite app_length. cbn [length]. rewrite Nat.add_1_r, boff_snoc. lia.
    - intros pc j Hz. apply znth_snoc_inv in Hz. destruct Hz as [[Hlt Hz]|[-> ->]].
      + rewrite pm_of_app by lia. apply HM; exact Hz.
      + rewrite pm_of_app by lia. unfold pm_of, zlen. rewrite Nat2Z.id.
        replace (P0 + boff rcode (length rcode)) with (zlen code - p) by lia. exact Hi.
  Qed.

  (* labels of the generator against targets of the flattener; lmap : target id -> label id *)
  Definition JL (labels : list Z) (marks : list (str * Z)) (targets lmap : list Z) (rcode : list rinstr) : Prop :=
    zlen lmap = zlen targets /\ NoDup lmap /\
    (forall nm l, In (nm, l) marks -> 0 <= l < zlen labels) /\
    forall e lab, znth lmap e = Some lab ->
      0 <= lab < zlen labels /\ (forall nm, ~ In (nm, lab) marks) /\
      exists lv t, znth labels lab = Some lv /\ znth targets e = Some t /\ -1 <= t <= zlen rcode /\
                   (0 <= t -> lv = pm_of P0 rcode t).

  Lemma JL_bemit labels marks targets lmap rcode i :
    JL labels marks targets lmap rcode -> JL labels marks targets lmap (rcode ++ [i]).
  Proof.
    intros (H1 & H2 & H3 & H4). split; [exact H1|]. split; [exact H2|]. split; [exact H3|].
    intros e lab He. destruct (H4 _ _ He) as (A & B & lv & t & C1 & C2 & C3 & C4).
    split; [exact A|]. split; [exact B|]. exists lv, t. split; [exact C1|]. split; [exact C2|]. split.
    - rewrite zlen_app. pose proof (@zlen_nonneg rinstr [i]). lia.
    - intros Ht. rewrite pm_of_app by lia. auto.
  Qed.

  Lemma JL_new labels marks targets lmap rcode :
    JL labels marks targets lmap rcode ->
    JL (labels ++ [-1]) marks (targets ++ [-1]) (lmap ++ [zlen labels]) rcode.
  Proof.
    intros (H1 & H2 & H3 & H4). split; [rewrite !zlen_snoc; lia|]. split; [|split].
    - apply NoDup_snoc; [exact H2|]. intros Hin. apply In_znth in Hin. destruct Hin as [e He].
      destruct (H4 _ _ He) as [A _]. lia.
    - intros nm l Hin. rewrite zlen_snoc. apply H3 in Hin. lia.
    - intros e lab He. apply znth_snoc_inv in He. destruct He as [[Hlt He]|[-> ->]].
      + destruct (H4 _ _ He) as (A & B & lv & t & C1 & C2 & C3 & C4).
        split; [rewrite zlen_snoc; lia|]. split; [exact B|]. exists lv, t.
        split; [apply znth_app_some; exact C1|]. split; [apply znth_app_some; exact C2|]. split; [lia | exact C4].
      + pose proof (zlen_nonneg labels). split; [rewrite zlen_snoc; lia|]. split.
        * intros nm Hin. apply H3 in Hin. lia.
        * exists (-1), (-1). rewrite H1. rewrite !znth_app_last. pose proof (zlen_nonneg rcode).
          split; [reflexivity|]. split; [reflexivity|]. split; [lia|]. intros; lia.
  Qed.

  Lemma JL_set labels marks targets lmap rcode e0 lab0 labels' targets' :
    JL labels marks targets lmap rcode -> znth lmap e0 = Some lab0 ->
    zupd labels lab0 (pm_of P0 rcode (zlen rcode)) = Some labels' ->
    zupd targets e0 (zlen rcode) = Some targets' ->
    JL labels' marks targets' lmap rcode.
  Proof.
    intros (H1 & H2 & H3 & H4) He0 Ul Ut.
    pose proof (zupd_length _ _ _ _ Ul) as Ll. pose proof (zupd_length _ _ _ _ Ut) as Lt.
    split; [lia|]. split; [exact H2|]. split; [intros nm l Hin; rewrite Ll; eapply H3; eauto|].
    intros e lab He. destruct (H4 _ _ He) as (A & B & lv & t & C1 & C2 & C3 & C4).
    split; [lia|]. split; [exact B|].
    rewrite (znth_zupd _ _ _ _ Ul), (znth_zupd _ _ _ _ Ut).
    destruct (Z.eqb_spec e e0) as [->|Hne].
    - assert (lab = lab0) by congruence. subst lab. rewrite Z.eqb_refl.
      exists (pm_of P0 rcode (zlen rcode)), (zlen rcode). pose proof (zlen_nonneg rcode).
      split; [reflexivity|]. split; [reflexivity|]. split; [lia|]. intros; reflexivity.
    - destruct (Z.eqb_spec lab lab0) as [->|Hne2].
      + exfalso. apply Hne. eapply NoDup_znth; eauto.
      + exists lv, t. split; [exact C1|]. split; [exact C2|]. split; [lia | exact C4].
  Qed.

  Lemma JL_mark_set labels marks targets lmap rcode nm lab v labels' :
    JL labels marks targets lmap rcode -> In (nm, lab) marks -> zupd labels lab v = Some labels' ->
    JL labels' marks targets lmap rcode.
  Proof.
    intros (H1 & H2 & H3 & H4) Hin Ul. pose proof (zupd_length _ _ _ _ Ul) as Ll.
    split; [exact H1|]. split; [exact H2|]. split; [intros nm' l Hin'; rewrite Ll; eapply H3; eauto|].
    intros e lab' He. destruct (H4 _ _ He) as (A & B & lv & t & C1 & C2 & C3 & C4).
    split; [lia|]. split; [exact B|]. exists lv, t. split; [|split; [exact C2|split; [lia | exact C4]]].
    rewrite (znth_zupd _ _ _ _ Ul). destruct (Z.eqb_spec lab' lab) as [->|]; [|exact C1].
    exfalso. exact (B _ Hin).
  Qed.

  Lemma JL_mark_new labels marks targets lmap rcode nm :
    JL labels marks targets lmap rcode ->
    JL (labels ++ [-1]) (ainsert str_ltb marks nm (zlen labels)) targets lmap rcode.
  Proof.
    intros (H1 & H2 & H3 & H4). split; [exact H1|]. split; [exact H2|]. split.
    - intros nm' l Hin. rewrite zlen_snoc. apply in_ainsert in Hin. pose proof (zlen_nonneg labels).
      destruct Hin as [E|Hin]; [inversion E; lia|]. apply H3 in Hin. lia.
    - intros e lab He. destruct (H4 _ _ He) as (A & B & lv & t & C1 & C2 & C3 & C4).
      split; [rewrite zlen_snoc; lia|]. split.
      + intros nm' Hin. apply in_ainsert in Hin. destruct Hin as [E|Hin]; [inversion E; lia|]. exact (B _ Hin).
      + exists lv, t. split; [apply znth_app_some; exact C1|]. split; [exact C2|]. split; [lia | exact C4].
  Qed.

  (* the to-do list of the backpatcher *)
  Definition JT (todo : list Z) (code : list instr) : Prop :=
    NoDup todo /\ forall q, In q todo -> 0 <= q < zlen code.

  Definition JB (code : list instr) (ks : list (str * bool)) (marks : list (str * Z)) (labels todo : list Z) (L : Z)
             (rcode : list rinstr) (targets : list Z) (vars : list str) (lmap : list Z) (p : Z) : Prop :=
    JC code ks todo lmap rcode p /\ JL labels marks targets lmap rcode /\ JT todo code /\
    RW ks L /\ JV ks vars /\ 0 <= L /\ 0 <= p.

  Lemma JB_intro code ks marks labels todo L rcode targets vars lmap p :
    JC code ks todo lmap rcode p -> JL labels marks targets lmap rcode -> JT todo code ->
    RW ks L -> JV ks vars -> 0 <= L -> 0 <= p ->
    JB code ks marks labels todo L rcode targets vars lmap p.
  Proof. unfold JB. tauto. Qed.

  Lemma nil_ex {A} (l : list A) : exists m, l = l ++ m.
  Proof. exists []. rewrite app_nil_r. reflexivity. Qed.

  Lemma JB_emit code ks marks labels todo L rcode targets vars lmap p ins :
    JB code ks marks labels todo L rcode targets vars lmap p ->
    JB (code ++ [ins]) ks marks labels todo L rcode targets vars lmap (p + 1).
  Proof.
    intros (HC & HL & (T1 & T2) & HR & HV & H0 & Hp). apply JB_intro; auto; try lia.
    - eapply JC_mono; [exact HC | eexists; reflexivity | apply kext_refl | apply incl_refl | apply nil_ex |].
      rewrite zlen_snoc. destruct HC as [E _]. lia.
    - split; [exact T1|]. intros q Hq. apply T2 in Hq. rewrite zlen_snoc. lia.
  Qed.

  Lemma JB_emit_bp code ks marks labels todo L rcode targets vars lmap p ins :
    JB code ks marks labels todo L rcode targets vars lmap p ->
    JB (code ++ [ins]) ks marks labels (todo ++ [zlen code]) L rcode targets vars lmap (p + 1).
  Proof.
    intros (HC & HL & (T1 & T2) & HR & HV & H0 & Hp). pose proof (zlen_nonneg code). apply JB_intro; auto; try lia.
    - eapply JC_mono; [exact HC | eexists; reflexivity | apply kext_refl | | apply nil_ex |].
      + intros q Hq. apply in_or_app; left; exact Hq.
      + rewrite zlen_snoc. destruct HC as [E _]. lia.
    - split.
      + apply NoDup_snoc; [exact T1|]. intros Hin. apply T2 in Hin. lia.
      + intros q Hq. rewrite zlen_snoc. apply in_app_or in Hq. destruct Hq as [Hq|[<-|[]]]; [apply T2 in Hq; lia | lia].
  Qed.

  Lemma JB_bemit code ks marks labels todo L rcode targets vars lmap p i :
    JB code ks marks labels todo L rcode targets vars lmap p -> blen i = p ->
    imatch (RMof ks) code (jpre lmap todo) (zlen code - p) i ->
    JB code ks marks labels todo L (rcode ++ [i]) targets vars lmap 0.
  Proof.
    intros (HC & HL & HT & HR & HV & H0 & Hp) Hb Hi. apply JB_intro; auto; try lia.
    - eapply JC_bemit; eauto.
    - apply JL_bemit; exact HL.
  Qed.

  Lemma JB_ks code ks marks labels todo L rcode targets vars lmap p ks' vars' L' :
    JB code ks marks labels todo L rcode targets vars lmap p ->
    kext ks ks' -> RW ks' L' -> JV ks' vars' -> 0 <= L' ->
    JB code ks' marks labels todo L' rcode targets vars' lmap p.
  Proof.
    intros (HC & HL & HT & HR & HV & H0 & Hp) Hk HR' HV' HL'. apply JB_intro; auto.
    eapply JC_mono; [exact HC | apply nil_ex | exact Hk | apply incl_refl | apply nil_ex | apply HC].
  Qed.

  Lemma JB_newlab code ks marks labels todo L rcode targets vars lmap p :
    JB code ks marks labels todo L rcode targets vars lmap p ->
    JB code ks marks (labels ++ [-1]) todo L rcode (targets ++ [-1]) vars (lmap ++ [zlen labels]) p.
  Proof.
    intros (HC & HL & HT & HR & HV & H0 & Hp). apply JB_intro; auto.
    - eapply JC_mono; [exact HC | apply nil_ex | apply kext_refl | apply incl_refl | eexists; reflexivity | apply HC].
    - apply JL_new; exact HL.
  Qed.

  Lemma JB_setlab code ks marks labels todo L rcode targets vars lmap e0 lab0 labels' targets' :
    JB code ks marks labels todo L rcode targets vars lmap 0 -> znth lmap e0 = Some lab0 ->
    zupd labels lab0 (zlen code) = Some labels' -> zupd targets e0 (zlen rcode) = Some targets' ->
    JB code ks marks labels' todo L rcode targets' vars lmap 0.
  Proof.
    intros (HC & HL & HT & HR & HV & H0 & Hp) He Ul Ut. apply JB_intro; auto.
    eapply JL_set; eauto. unfold pm_of, zlen at 1. rewrite Nat2Z.id. destruct HC as [E _].
    replace (P0 + boff rcode (length rcode)) with (zlen code) by lia. exact Ul.
  Qed.

  Lemma JB_labels code ks marks labels todo L rcode targets vars lmap p marks' labels' :
    JB code ks marks labels todo L rcode targets vars lmap p ->
    JL labels' marks' targets lmap rcode ->
    JB code ks marks' labels' todo L rcode targets vars lmap p.
  Proof. intros (HC & HL & HT & HR & HV & H0 & Hp) HL'. apply JB_intro; auto. Qed.
End Static.
