(* Errors.v — error kinds.  Message texts are not modelled; every distinct message template of the
   implementation is one constructor (the harness maps message texts to these names by
   prefix/suffix, see impl_driver.cpp msg_kind). *)
From Coq Require Import String.
From Theo Require Import Base.

Inductive ekind :=
(* scan.cpp *)
| e_main_not_found | e_expected_filename | e_file_not_found | e_recursive_include | e_unknown_token
(* macro.cpp *)
| e_macro_expect | e_macro_nested_define | e_macro_nested_as | e_macro_empty | e_macro_non_lr
| e_macro_max_passes | e_range | e_range_insertion
(* parse.cpp *)
| e_expected_token | e_missing_semi | e_prog_not_allowed | e_expected_assign | e_expected_component
| e_excess_semi | e_expected_value | e_excess_input
(* gen.cpp *)
| e_param_twice | e_unknown_name | e_argsize | e_unknown_mark | e_backpatch_failed
| e_backpatch_nonjmp | e_malformed_ast.

Definition ekind_name (k : ekind) : string :=
  match k with
  | e_main_not_found => "main_not_found" | e_expected_filename => "expected_filename"
  | e_file_not_found => "file_not_found" | e_recursive_include => "recursive_include"
  | e_unknown_token => "unknown_token" | e_macro_expect => "macro_expect"
  | e_macro_nested_define => "macro_nested_define" | e_macro_nested_as => "macro_nested_as"
  | e_macro_empty => "macro_empty" | e_macro_non_lr => "macro_non_lr"
  | e_macro_max_passes => "macro_max_passes" | e_range => "range" | e_range_insertion => "range_insertion"
  | e_expected_token => "expected_token" | e_missing_semi => "missing_semi"
  | e_prog_not_allowed => "prog_not_allowed" | e_expected_assign => "expected_assign"
  | e_expected_component => "expected_component" | e_excess_semi => "excess_semi"
  | e_expected_value => "expected_value" | e_excess_input => "excess_input"
  | e_param_twice => "param_twice" | e_unknown_name => "unknown_name" | e_argsize => "argsize"
  | e_unknown_mark => "unknown_mark" | e_backpatch_failed => "backpatch_failed"
  | e_backpatch_nonjmp => "backpatch_nonjmp" | e_malformed_ast => "malformed_ast"
  end%string.

(* ParseError::Type numbering (parse_error.hpp) of the scan/macro error kinds *)
Definition perr_type (k : ekind) : Z :=
  match k with
  | e_main_not_found => 0 | e_expected_filename => 1 | e_file_not_found => 2 | e_recursive_include => 3
  | e_macro_expect => 4 | e_macro_nested_define => 5 | e_macro_nested_as => 5 | e_macro_empty => 6
  | e_macro_non_lr => 7 | e_macro_max_passes => 8 | e_unknown_token => 9 | e_range => 10
  | e_range_insertion => 10
  | _ => (-1)
  end%Z.

(* ParseError *)
Record perr := mkPerr { pe_kind : ekind; pe_file : str; pe_line : Z; pe_request : str }.
