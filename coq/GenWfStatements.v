(* GenWfStatements.v — the generator only emits programs the bytecode verifier's soundness argument applies to
   (C03_gen_wf) whose calls go to earlier routines (C16): stated with the declarative `sound` record of
   Proofs_VMCheck.v (an annotation exists under which every instruction is locally well-typed and every EXEC of a
   routine enters a routine with a smaller entry address, or comes from the main program). *)
From Theo Require Import Base Tokens Errors MacroExtract Parser VMModel VMSpec VMStatements VMCheck VMCheckStatements GenModel CompileStatements Proofs_VM_mem Proofs_VM_dbg Proofs_VMCheck.
Local Open Scope Z_scope.

Definition C03_gen_wf_stmt : Prop :=
  forall toks root r, parse_tokens toks = Ok (Some root, []) ->
    gen true [] (Some root) = Ok r -> gr_ok r = true ->
    exists ann f, sound (gr_prog r) ann (Ecall (gr_prog r)) f.

(* consequences, for every accepted source: every run is defined; the activation stack is bounded by the number of
   routines that are ever called, plus one *)
Definition C03_gen_safe_stmt : Prop :=
  forall toks root r, parse_tokens toks = Ok (Some root, []) ->
    gen true [] (Some root) = Ok r -> gr_ok r = true ->
    forall k, exists s, vm_run k (init (gr_prog r)) = Ok s /\
                        (exists b, isDone s = Ok b) /\ (exists v, views s = Ok v) /\
                        zlen (stack s) <= zlen (exec_targets (gr_prog r)) + 1.
