(* Proofs_GenWf1.v — the invariant of Proofs_GenWf0.v through the traversal of the tree: values, statements,
   routine definitions, and the top level of parser-delivered trees.  Nothing is assumed. *)
From Coq Require Import List ZArith NArith Lia Bool.
From Theo Require Import Base Tokens Errors MacroExtract Parser VMModel VMSpec VMStatements VMCheck VMCheckStatements GenModel CompileStatements Proofs_VM_mem Proofs_VM_dbg Proofs_VMCheck Proofs_Front Proofs_Gen0 Proofs_Gen Proofs_Static0 Proofs_Static1 GenWfStatements Proofs_GenWf0.
Import ListNotations.
Local Open Scope Z_scope.

(* ---- chaining: after a step, every fact about the old state is restated for the new one ---------- *)
Ltac xfer X :=
  match type of X with
  | Ext ?g ?gh ?g' ?gh' =>
      (tryif constr_eq g g' then idtac else
       (repeat match goal with
               | R : rok g _ |- _ => apply (rok_ext _ _ _ _ _ X) in R
               | L : lok g gh _ |- _ => apply (lok_ext _ _ _ _ _ X) in L
               | A : Ext _ _ g gh |- _ => apply (fun a => Ext_trans _ _ _ _ _ _ a X) in A
               end))
  end.

Ltac fin :=
  match goal with
  | I : Inv None ?g ?gh |- exists gh', Inv None ?g gh' /\ Ext _ _ ?g gh' => exists gh; split; [exact I | assumption]
  end.

Ltac step1 Il Ir :=
  match goal with
  | I : Inv None ?g ?gh, H : context [advance_line ?g ?line ?file] |- _ =>
      let gh' := fresh "gh" in let I' := fresh "I" in let X := fresh "X" in
      destruct (p_advance g gh line file I) as (gh' & I' & X & _); clear I; xfer X; clear X
  | I : Inv None ?g ?gh, H : context [loops_incr ?g] |- _ =>
      let I' := fresh "I" in let X := fresh "X" in
      destruct (p_loops None g gh I) as (I' & X); clear I; xfer X; clear X
  | I : Inv None ?g ?gh, H : context [err ?g ?t ?k] |- _ =>
      let I' := fresh "I" in let X := fresh "X" in
      destruct (p_err None g gh t k I) as (I' & X); clear I; xfer X; clear X
  | I : Inv None ?g ?gh, H : context [gen_str_to_int ?g ?tok] |- _ =>
      let I' := fresh "I" in let X := fresh "X" in
      destruct (p_str_to_int None g gh tok I) as (I' & X); clear I; xfer X; clear X
  | I : Inv None ?g ?gh, H : fetch_variable ?g ?n = Ok (?g1, ?i) |- _ =>
      let I' := fresh "I" in let X := fresh "X" in let R := fresh "R" in
      destruct (p_fetch_variable None g gh n g1 i I H) as (I' & X & R); clear I H; xfer X; clear X
  | I : Inv None ?g ?gh, H : fetch_temporary ?g = Ok (?g1, ?i) |- _ =>
      let I' := fresh "I" in let X := fresh "X" in let R := fresh "R" in
      destruct (p_fetch_temporary None g gh g1 i I H) as (I' & X & R); clear I H; xfer X; clear X
  | I : Inv None ?g ?gh, H : release_temporary ?g ?i = Ok ?g1 |- _ =>
      let I' := fresh "I" in let X := fresh "X" in
      destruct (p_release None g gh i g1 I H) as (I' & X); clear I H; xfer X; clear X
  | I : Inv None ?g ?gh, H : create_label ?g = (?g1, ?l) |- _ =>
      let I' := fresh "I" in let X := fresh "X" in let L := fresh "L" in
      destruct (p_create None g gh g1 l I H) as (I' & X & L); clear I H; xfer X; clear X
  | I : Inv None ?g ?gh, H : ensure_mark ?g ?n = Ok (?g1, ?l) |- _ =>
      let gh' := fresh "gh" in let I' := fresh "I" in let X := fresh "X" in let L := fresh "L" in
      destruct (p_ensure None g gh n g1 l I H) as (gh' & I' & X & L); clear I H; xfer X; clear X
  | I : Inv None ?g ?gh, H : GenModel.set_label ?g ?l (next_pos ?g) = Ok ?g1, L : lok ?g ?gh ?l |- _ =>
      let I' := fresh "I" in let X := fresh "X" in
      destruct (p_set_label_np g gh l g1 I L H) as (I' & X); clear I H; xfer X; clear X
  | I : Inv None ?g ?gh, M : get_mark_pos ?g = Ok ?p, H : GenModel.set_label ?g ?l ?p = Ok ?g1, L : lok ?g ?gh ?l |- _ =>
      let I' := fresh "I" in let X := fresh "X" in
      destruct (p_mark g gh l p g1 I L M H) as (I' & X); clear I H M; xfer X; clear X
  | I : Inv None ?g ?gh, H : context [emit ?g (IAdd ?t ?t ?c)], R1 : rok ?g ?t |- _ =>
      let gh' := fresh "gh" in let I' := fresh "I" in let X := fresh "X" in
      destruct (p_emit_add g gh t t c I R1 R1) as (gh' & I' & X & _); clear I; xfer X; clear X
  | I : Inv None ?g ?gh, H : context [emit ?g (IAdd ?t ?s ?c)], R1 : rok ?g ?t, R2 : rok ?g ?s |- _ =>
      let gh' := fresh "gh" in let I' := fresh "I" in let X := fresh "X" in
      destruct (p_emit_add g gh t s c I R1 R2) as (gh' & I' & X & _); clear I; xfer X; clear X
  | I : Inv None ?g ?gh, H : context [emit ?g (IConst ?t ?c)], R1 : rok ?g ?t |- _ =>
      let gh' := fresh "gh" in let I' := fresh "I" in let X := fresh "X" in
      destruct (p_emit_const g gh t c I R1) as (gh' & I' & X & _); clear I; xfer X; clear X
  | I : Inv None ?g ?gh, H : context [emit ?g (ITest ?t ?a ?b)], R1 : rok ?g ?t, R2 : rok ?g ?a, R3 : rok ?g ?b |- _ =>
      let gh' := fresh "gh" in let I' := fresh "I" in let X := fresh "X" in
      destruct (p_emit_test g gh t a b I R1 R2 R3) as (gh' & I' & X & _); clear I; xfer X; clear X
  | I : Inv None ?g ?gh, H : context [emit ?g IHalt] |- _ =>
      let gh' := fresh "gh" in let I' := fresh "I" in let X := fresh "X" in
      destruct (p_emit_halt g gh I) as (gh' & I' & X & _); clear I; xfer X; clear X
  | I : Inv None ?g ?gh, H : context [emit_backpatched ?g (IJmp ?l)], L : lok ?g ?gh ?l |- _ =>
      let gh' := fresh "gh" in let I' := fresh "I" in let X := fresh "X" in
      destruct (p_emit_jmp g gh l I L) as (gh' & I' & X & _); clear I; xfer X; clear X
  | I : Inv None ?g ?gh, H : context [emit_backpatched ?g (IJmpC ?l ?s)], L : lok ?g ?gh ?l, R : rok ?g ?s |- _ =>
      let gh' := fresh "gh" in let I' := fresh "I" in let X := fresh "X" in
      destruct (p_emit_jmpc g gh l s I L R) as (gh' & I' & X & _); clear I; xfer X; clear X
  | I : Inv None ?g ?gh, H : dvo false false false _ ?g = Ok ?g1 |- _ =>
      let gh' := fresh "gh" in let I' := fresh "I" in let X := fresh "X" in
      first [ destruct (Il g g1 gh I H) as (gh' & I' & X) | destruct (Ir g g1 gh I H) as (gh' & I' & X) ];
      clear I H; xfer X; clear X
  end.

Ltac fin' := try (match goal with H : Ok _ = Ok _ |- _ => inversion H; subst; clear H end); fin.

(* ================================================================================================ *)
(* 1. values                                                                                        *)
(* ================================================================================================ *)
Definition Pv (n : node) : Prop :=
  forall tgt g g' gh, Inv None g gh -> rok g tgt -> dispatch_value false n tgt g = Ok g' ->
    exists gh', Inv None g' gh' /\ Ext g gh g' gh'.

Lemma p_call_args : forall a, all_sub Pv a -> forall acc res gh,
  Inv None (fst acc) gh -> (forall x, In x (snd acc) -> rok (fst acc) x) ->
  call_args (dispatch_value false) a acc = Ok res ->
  exists gh', Inv None (fst res) gh' /\ Ext (fst acc) gh (fst res) gh' /\ (forall x, In x (snd res) -> rok (fst res) x).
Proof.
  induction a as [t line file tok l r IHl IHr] using Proofs_Gen0.node_ind'. intros HS acc res gh H Ha E.
  cbn [all_sub] in HS. destruct HS as [Hh [HSl HSr]].
  destruct (ntype_eq_dec_split t) as [->|Hn].
  - rewrite call_args_split in E. binv E.
    assert (S1 : exists gh1, Inv None (fst a) gh1 /\ Ext (fst acc) gh (fst a) gh1 /\ (forall x, In x (snd a) -> rok (fst a) x)).
    { destruct l as [x|]; cbn in H0, IHl; [eapply IHl; eauto|]. inversion H0; subst.
      exists gh. split; [exact H|]. split; [apply Ext_refl | exact Ha]. }
    destruct S1 as (gh1 & I1 & X1 & A1).
    destruct r as [x|]; cbn in E, IHr.
    + destruct (IHr HSr a res gh1 I1 A1 E) as (gh2 & I2 & X2 & A2). exists gh2. split; [exact I2|].
      split; [eapply Ext_trans; eauto | exact A2].
    + inversion E; subst. exists gh1. auto.
  - rewrite call_args_leaf in E by (cbn; auto). binv E. inversion E; subst; clear E. cbn [fst snd].
    destruct acc as [g0 locs]. cbn [fst snd] in *.
    match goal with Hf : fetch_temporary g0 = Ok _ |- _ =>
      destruct (p_fetch_temporary None _ _ _ _ H Hf) as (I1 & X1 & R1) end.
    match goal with Hd : dispatch_value false _ _ _ = Ok _ |- _ =>
      destruct (Hh _ _ _ _ I1 R1 Hd) as (gh2 & I2 & X2) end.
    exists gh2. split; [exact I2|]. split; [eapply Ext_trans; eauto|].
    intros x Hx. apply in_app_or in Hx. destruct Hx as [Hx|[<-|[]]].
    + eapply rok_ext; [exact X2|]. eapply rok_ext; [exact X1|]. apply Ha. exact Hx.
    + eapply rok_ext; [exact X2|]. exact R1.
Qed.

Lemma p_call_tail l r tgt g gh arglocs g' : Inv None g gh -> rok g tgt -> (forall x, In x arglocs -> rok g x) ->
  call_tail false l r tgt (g, arglocs) = Ok g' -> exists gh', Inv None g' gh' /\ Ext g gh g' gh'.
Proof.
  intros H Ht Ha E. unfold call_tail in E. binv E.
  destruct a0 as [ctok|]; [|eapply p_call_plain; eauto].
  destruct (str_eqb (n_tok a) name_INC || str_eqb (n_tok a) name_DEC); [|eapply p_call_plain; eauto].
  binv E.
  assert (Ra : rok g a0).
  { apply Ha. match goal with Hz : znth arglocs 0 = Some a0 |- _ => eapply znth_In; exact Hz end. }
  destruct (str_eqb (n_tok a) name_INC).
  - inversion E; subst. destruct (p_emit_add g gh tgt a0 (strToIntSilent_gen ctok) H Ht Ra) as (gh' & I' & X & _). eauto.
  - cbn [andb] in E. inversion E; subst.
    destruct (p_emit_add g gh tgt a0 (wrap_int (- strToIntSilent_gen ctok)) H Ht Ra) as (gh' & I' & X & _). eauto.
Qed.

Lemma p_dv_all : forall n, all_sub Pv n.
Proof.
  apply all_sub_intro. intros t line file tok l r Hl Hr tgt g g' gh I0 R0 E.
  pose proof (Ext_refl g gh) as X0.
  destruct (value_type t) eqn:Et.
  - destruct t; try discriminate.
    + rewrite dv_name in E. binv E. repeat step1 I I. inversion E; subst. fin.
    + rewrite dv_number in E. repeat step1 I I. inversion E; subst. fin.
    + rewrite dv_call in E. binv E. destruct a as [g1 arglocs]. repeat step1 I I.
      lazymatch goal with Ic : Inv None (advance_line g line file) ?ghc |- _ =>
        assert (S1 : exists gh1, Inv None g1 gh1 /\ Ext (advance_line g line file) ghc g1 gh1 /\ (forall x, In x arglocs -> rok g1 x));
        [ destruct r as [rn0|]; cbn [call_args_o] in H;
          [ cbn in Hr; apply (p_call_args rn0 Hr (advance_line g line file, []) (g1, arglocs) ghc Ic); [intros x [] | exact H]
          | inversion H; subst; exists ghc; split; [exact Ic|]; split; [apply Ext_refl | intros x []] ]
        | clear Ic ] end.
      destruct S1 as (gh1 & I2 & X1 & A1). xfer X1.
      destruct (p_call_tail _ _ _ _ _ _ _ I2 R0 A1 E) as (gh2 & I3 & X2). xfer X2. exists gh2. split; assumption.
  - rewrite dv_other in E by auto. repeat step1 I I. inversion E; subst. fin.
Qed.

Lemma p_dvalue n tgt g g' gh : Inv None g gh -> rok g tgt -> dispatch_value false n tgt g = Ok g' ->
  exists gh', Inv None g' gh' /\ Ext g gh g' gh'.
Proof. apply (all_sub_here _ _ (p_dv_all n)). Qed.

Lemma p_dvalue_opt o tgt g g' gh : Inv None g gh -> rok g tgt -> dispatch_value_opt false o tgt g = Ok g' ->
  exists gh', Inv None g' gh' /\ Ext g gh g' gh'.
Proof.
  destruct o as [n|]; cbn; [apply p_dvalue|]. intros H _ E. inversion E; subst. exists gh. split; [exact H | apply Ext_refl].
Qed.

Ltac step2 Il Ir :=
  first
  [ step1 Il Ir
  | match goal with
    | I : Inv None ?g ?gh, H : dispatch_value_opt false ?o ?tgt ?g = Ok ?g1, R : rok ?g ?tgt |- _ =>
        let gh' := fresh "gh" in let I' := fresh "I" in let X := fresh "X" in
        destruct (p_dvalue_opt o tgt g g1 gh I R H) as (gh' & I' & X); clear I H; xfer X; clear X
    end ].

(* ================================================================================================ *)
(* 2. statements other than routine definitions                                                     *)
(* ================================================================================================ *)
Definition onoprog (f : node -> bool) (o : option node) : bool := match o with None => true | Some x => f x end.

Fixpoint noprog (n : node) : bool :=
  match n with
  | Node t _ _ _ l r =>
      (match t with N_PROGRAM => false | _ => true end) &&
      (match l with None => true | Some x => noprog x end) &&
      (match r with None => true | Some x => noprog x end)
  end.

Lemma noprog_inv t line file tok l r : noprog (Node t line file tok l r) = true ->
  t <> N_PROGRAM /\ onoprog noprog l = true /\ onoprog noprog r = true.
Proof.
  cbn [noprog]. intros H. apply andb_true_iff in H. destruct H as [H H3]. apply andb_true_iff in H. destruct H as [H1 H2].
  split; [intros ->; discriminate|]. split; assumption.
Qed.

Definition Pbody (n : node) : Prop :=
  noprog n = true -> forall g g' gh, Inv None g gh -> dispatch_void false false false n g = Ok g' ->
    exists gh', Inv None g' gh' /\ Ext g gh g' gh'.

Lemma p_body : forall n, Pbody n.
Proof.
  induction n as [t line file tok l r IHl IHr] using Proofs_Gen0.node_ind'. intros Hnp g g' gh I0 H.
  destruct (noprog_inv _ _ _ _ _ _ Hnp) as (Hnt & Hnl & Hnr).
  assert (Il : forall g g' gh, Inv None g gh -> dvo false false false l g = Ok g' ->
                 exists gh', Inv None g' gh' /\ Ext g gh g' gh').
  { intros x y z Hx Hd. destruct l as [n|]; cbn in Hd, IHl, Hnl; [apply (IHl Hnl); auto|].
    inversion Hd; subst. exists z. split; [exact Hx | apply Ext_refl]. }
  assert (Ir : forall g g' gh, Inv None g gh -> dvo false false false r g = Ok g' ->
                 exists gh', Inv None g' gh' /\ Ext g gh g' gh').
  { intros x y z Hx Hd. destruct r as [n|]; cbn in Hd, IHr, Hnr; [apply (IHr Hnr); auto|].
    inversion Hd; subst. exists z. split; [exact Hx | apply Ext_refl]. }
  clear IHl IHr.
  pose proof (Ext_refl g gh) as X0.
  destruct (void_type t) eqn:Et.
  - destruct t; try discriminate.
    + (* SPLIT *) rewrite dvoid_split in H. binv H. repeat step2 Il Ir. fin'.
    + (* ASSIGN *) rewrite dvoid_assign in H. binv H. repeat step2 Il Ir. fin'.
    + (* LOOP *) rewrite dvoid_loop in H. cbv zeta in H. binv H. repeat step2 Il Ir. fin'.
    + (* WHILE *) rewrite dvoid_while in H. cbv zeta in H. binv H. repeat step2 Il Ir. fin'.
    + (* GOTO *) rewrite dvoid_goto in H. binv H. repeat step2 Il Ir. fin'.
    + (* IF *) rewrite dvoid_if in H. cbv zeta in H. binv H. repeat step2 Il Ir. fin'.
    + (* MARK *) rewrite dvoid_mark in H. binv H. repeat step2 Il Ir. fin'.
    + (* STOP *) rewrite dvoid_stop in H. repeat step2 Il Ir. fin'.
  - rewrite dvoid_other in H by auto. repeat step2 Il Ir. fin'.
Qed.

(* ================================================================================================ *)
(* 3. routine definitions, at the top level only                                                    *)
(* ================================================================================================ *)
Lemma set_label_code g l p g' : GenModel.set_label g l p = Ok g' -> g_code g' = g_code g.
Proof. intros E. apply set_label_eq in E. destruct E as (ls & _ & ->). reflexivity. Qed.

(* a label of the main program stays one *)
Definition lab0 (g : gstate) (gh : ghost) (l : Z) : Prop := 0 <= l < zlen (g_labels g) /\ lown gh l = 0.

Lemma lab0_ext g gh g' gh' l : Ext g gh g' gh' -> lab0 g gh l -> lab0 g' gh' l.
Proof. intros [_ _ X3 X4 _] [L1 L2]. split; [lia|]. rewrite X4; auto. Qed.

Lemma p_program line file tok l r g g' gh : Inv None g gh -> ostk gh = [0] -> Clean g -> onoprog noprog r = true ->
  dispatch_void false false false (Node N_PROGRAM line file tok l r) g = Ok g' ->
  exists gh', Inv None g' gh' /\ ostk gh' = [0] /\ (exists c i, g_code g' = c ++ [i] /\ iop i <> POTENTIAL_BREAK).
Proof.
  intros I0 O0 C0 Hnr H. rewrite dvoid_program in H. cbv zeta in H. binv H.
  match goal with Hx : remove_top_pot_break _ _ = Ok ?x |- _ => rename Hx into Hrem; rename x into gr end.
  match goal with Hx : fetch_variable _ _ = Ok (?x, ?y) |- _ => rename Hx into Hfv; rename x into g6; rename y into ret_val end.
  match goal with Hx : create_label _ = (?x, ?y) |- _ => rename Hx into Ecl; rename x into g1; rename y into after end.
  match goal with Hx : dispatch_args _ _ _ = Ok ?x |- _ => rename Hx into Hargs; rename x into g4 end.
  match goal with Hx : dvo _ _ _ _ _ = Ok ?x |- _ => rename Hx into Hbody; rename x into g5 end.
  match goal with Hx : pop_symbols _ _ = Ok ?x |- _ => rename Hx into Hpop; rename x into g8 end.
  (* advance, remove *)
  destruct (p_advance g gh line file I0) as (gh1 & I1 & X1 & _).
  assert (O1 : ostk gh1 = [0]) by (rewrite (ex_ostk _ _ _ _ X1); exact O0).
  pose proof (clean_advance g gh line file I0 C0) as C1.
  destruct (p_remove _ _ _ I1 O1 C1 Hrem) as (I2 & _ & _).
  (* the label behind the definition, the jump over it *)
  destruct (p_create None _ _ _ _ I2 Ecl) as (I3 & X3 & L3).
  set (gh2 := gh_label gh1 after) in *.
  assert (O2 : ostk gh2 = [0]) by exact O1.
  assert (A3 : lab0 g1 gh2 after).
  { destruct L3 as [L3a L3b]. split; [exact L3a|]. rewrite L3b. unfold cur. rewrite O2. reflexivity. }
  destruct (p_emit_jmp g1 gh2 after I3 L3) as (gh3 & I4 & X4 & _).
  set (g2 := emit_backpatched g1 (IJmp after)) in *.
  assert (O3 : ostk gh3 = [0]) by (rewrite (ex_ostk _ _ _ _ X4); exact O2).
  pose proof (lab0_ext _ _ _ _ _ X4 A3) as A4.
  assert (Hn2 : next_pos g2 = next_pos g1 + 1).
  { unfold g2, emit_backpatched, next_pos. cbn. rewrite zlen_app. reflexivity. }
  (* entering the routine *)
  assert (I5 : Inv None (push_symbols g2 (n_tok a1)) (gh_push gh3 (next_pos g2))).
  { apply p_push; [exact I4 | exact O3 | |].
    - exists (g_code g1), (IJmp after). split; reflexivity.
    - intros l0 p0 Hz. change (g_labels g2) with (g_labels g1) in Hz.
      pose proof (labels_le _ _ _ _ _ I3 Hz). lia. }
  set (gh4 := gh_push gh3 (next_pos g2)) in *.
  assert (A5 : lab0 (push_symbols g2 (n_tok a1)) gh4 after) by exact A4.
  destruct (p_dargs _ _ _ _ _ I5 Hargs) as (I6 & X6 & C6 & L6).
  pose proof (lab0_ext _ _ _ _ _ X6 A5) as A6.
  assert (Hn4 : next_pos g4 = next_pos g2) by (unfold next_pos; rewrite C6; reflexivity).
  assert (O4 : ostk gh4 = [next_pos g4; 0]) by (rewrite Hn4; reflexivity).
  (* the body *)
  assert (S7 : exists gh5, Inv None g5 gh5 /\ Ext g4 gh4 g5 gh5).
  { destruct r as [n|]; cbn in Hbody, Hnr; [apply (p_body n Hnr); auto|].
    inversion Hbody; subst. exists gh4. split; [exact I6 | apply Ext_refl]. }
  destruct S7 as (gh5 & I7 & X7).
  pose proof (lab0_ext _ _ _ _ _ X7 A6) as A7.
  assert (O5 : ostk gh5 = [next_pos g4; 0]) by (rewrite (ex_ostk _ _ _ _ X7); exact O4).
  pose proof (ex_np _ _ _ _ X7) as N7.
  (* the result, RET *)
  destruct (p_fetch_variable None _ _ _ _ _ I7 Hfv) as (I8 & X8 & R8).
  pose proof (lab0_ext _ _ _ _ _ X8 A7) as A8. pose proof (ex_np _ _ _ _ X8) as N8.
  pose proof (next_pos_ge1 _ _ _ I6) as G4.
  destruct (p_emit_ret g6 gh5 ret_val I8 R8) as (gh7 & I9 & X9 & _).
  { unfold cur. rewrite O5. cbn. lia. }
  set (g7 := emit g6 (IRet ret_val)) in *.
  pose proof (lab0_ext _ _ _ _ _ X9 A8) as A9.
  assert (O7 : ostk gh7 = [next_pos g4; 0]) by (rewrite (ex_ostk _ _ _ _ X9); exact O5).
  assert (Hn7 : next_pos g7 = next_pos g6 + 1).
  { unfold g7, next_pos. cbn. rewrite zlen_app. reflexivity. }
  (* leaving the routine *)
  destruct (p_pop g7 gh7 (next_pos g4) g8 I9 O7) as (I10 & C10 & L10 & _); [lia | | | exact Hpop |].
  { exists (g_code g6), (IRet ret_val). split; reflexivity. }
  { intros l0 p0 Hz. change (g_labels g7) with (g_labels g6) in Hz. pose proof (labels_le _ _ _ _ _ I8 Hz). lia. }
  set (gh8 := gh_pop gh7 (next_pos g7) (next_pos g4) (topsz g7)) in *.
  assert (A10 : lok g8 gh8 after).
  { destruct A9 as [A9a A9b]. split; [rewrite L10; exact A9a|]. exact A9b. }
  destruct (p_set_label_np g8 gh8 after g' I10 A10 H) as (I11 & X11).
  exists gh8. split; [exact I11|]. split; [reflexivity|].
  exists (g_code g6), (IRet ret_val). split; [|discriminate].
  rewrite (set_label_code _ _ _ _ H), C10. reflexivity.
Qed.

(* ================================================================================================ *)
(* 4. the top level: definitions first, each with a body free of definitions                        *)
(* ================================================================================================ *)
Fixpoint topok (n : node) : bool :=
  noprog n ||
  match n with
  | Node N_SPLIT _ _ _ (Some (Node N_PROGRAM _ _ _ h b)) more =>
      onoprog noprog b && (match more with None => true | Some m => topok m end)
  | _ => false
  end.

Definition Ptop (n : node) : Prop :=
  topok n = true -> forall g g' gh, Inv None g gh -> ostk gh = [0] -> Clean g ->
    dispatch_void false false false n g = Ok g' -> exists gh', Inv None g' gh' /\ ostk gh' = [0].

Lemma p_top : forall n, Ptop n.
Proof.
  induction n as [t line file tok l r IHl IHr] using Proofs_Gen0.node_ind'. intros Ht g g' gh I0 O0 C0 H.
  destruct (noprog (Node t line file tok l r)) eqn:Enp.
  - destruct (p_body _ Enp g g' gh I0 H) as (gh' & I1 & X1). exists gh'. split; [exact I1|].
    rewrite (ex_ostk _ _ _ _ X1). exact O0.
  - cbn [topok] in Ht. fold (noprog (Node t line file tok l r)) in Ht. rewrite Enp in Ht. cbn [orb] in Ht.
    destruct t; try discriminate Ht. destruct l as [[tl ll fl tkl hl bl]|]; [|discriminate Ht].
    destruct tl; try discriminate Ht. apply andb_true_iff in Ht. destruct Ht as [Hb Hm].
    rewrite dvoid_split in H. binv H. cbn [dvo] in *.
    destruct (p_advance g gh line file I0) as (gh1 & I1 & X1 & _).
    assert (O1 : ostk gh1 = [0]) by (rewrite (ex_ostk _ _ _ _ X1); exact O0).
    pose proof (clean_advance g gh line file I0 C0) as C1.
    match goal with Hp : dispatch_void _ _ _ (Node N_PROGRAM _ _ _ _ _) _ = Ok ?x |- _ =>
      destruct (p_program _ _ _ _ _ _ _ _ I1 O1 C1 Hb Hp) as (gh2 & I2 & O2 & C2) end.
    destruct r as [m|].
    + cbn in IHr. apply (IHr Hm _ _ gh2 I2 O2); [left; exact C2 | exact H].
    + inversion H; subst. exists gh2. split; assumption.
Qed.
