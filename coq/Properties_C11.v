(* Properties_C11.v — the theorems that decide property C11 on the model, each stated in full and closed by
   `exact <lemma>`; the lemmas live in the Proofs_*.v files.  Nothing else belongs in this file. *)
From Coq Require Import Sorting.Sorted.
From Theo Require Import Base Regex Tokens Errors MacroExtract Grammar LR Gen_MacroGrammar Gen_Consts MacroApply SpecLex SpecMacro MacroStatements Proofs_Macro PipelineStatements Lexer Scan Parser VMModel GenModel Compile Gen_Lexer CompileStatements ApplyStatements ApplyCompleteStatements LocErrStatements Proofs_Pipeline.
Local Open Scope Z_scope.


Theorem C11_steps :
  forall n bins input p out ch, pass_loop false n bins input p = Ok (out, ch) ->
    exists k, (k <= n)%nat /\ Steps bins input p k out /\
              (ch = true -> k = n /\ (0 < n)%nat) /\
              (ch = false -> (0 < n)%nat -> try_bins false bins out (p + Z.of_nat k) = Ok None).
Proof. exact C11_steps_proof. Qed.
Print Assumptions C11_steps.

Theorem C11_pass_irrelevant :
  forall bins input p p', (exists o, try_bins false bins input p = Ok (Some o)) ->
                          (exists o', try_bins false bins input p' = Ok (Some o')).
Proof. exact C11_pass_irrelevant_proof. Qed.
Print Assumptions C11_pass_irrelevant.

Theorem C11_error :
  forall input defs n errs out e0 bins, (0 < n)%nat ->
    apply_macros input defs n = Ok (errs, out) -> prepare defs = Ok (e0, bins) ->
    forall p mid, try_bins false bins out p = Ok (Some mid) -> In max_passes_err errs.
Proof. exact C11_error_proof. Qed.
Print Assumptions C11_error.

Theorem C11_growth_step :
  forall input c pass out, rewrite_with input c pass out ->
    (length out <= length input + length (m_repl (d_macro (fst c))) * Nat.max 1 (list_max (map (@length token) (r_matched (snd c)))))%nat.
Proof. exact C11_growth_step_proof. Qed.
Print Assumptions C11_growth_step.

Theorem C11_compiled :
  forall files main c out macros bins,
    compile files main = Ok c -> cr_ok c = true ->
    front files main out macros bins ->
    exists k final root,
      (k <= N.to_nat macro_passes)%nat /\ Steps bins out 0 k final /\
      (forall pass, try_bins false bins final pass = Ok None) /\
      parse_tokens final = Ok (root, []).
Proof. exact C11_compiled_proof. Qed.
Print Assumptions C11_compiled.
