(* MacroStatements.v — full statements of the macro theorems (C09, C10, C11, C12). *)
From Coq Require Import Sorting.Sorted.
From Theo Require Import Base Regex Tokens Errors MacroExtract Grammar LR Gen_MacroGrammar Gen_Consts MacroApply SpecLex SpecMacro.
Local Open Scope Z_scope.

(* detectors, error list and priority bins exactly as apply_macros builds them *)
Definition prepare (defs : list macrodef) : result (list perr * list (Z * list detector)) :=
  do ds <- make_detectors defs;
  do su <- split_usable ds;
  Ok (fst su, rev (fold_left add_bin (snd su) [])).

Definition max_passes_err : perr := mkPerr e_macro_max_passes [45%N] (-1) [].

(* ===== C09 ======================================================================================== *)
(* the step taken is a reported candidate that no reported candidate beats; the rest of the stream is untouched *)
Definition C09_choice_stmt : Prop :=
  forall bins input pass out, bins_ok bins ->
    try_bins false bins input pass = Ok (Some out) ->
    exists c, reported bins input c /\ rewrite_with input c pass out /\
              forall c', reported bins input c' -> at_least_as_good c c'.

Definition C09_none_stmt : Prop :=
  forall bins input pass, try_bins false bins input pass = Ok None ->
    forall c, ~ reported bins input c.

(* the bins apply_macros builds are well formed *)
Definition C09_bins_ok_stmt : Prop :=
  forall defs errs bins, prepare defs = Ok (errs, bins) -> bins_ok bins.

(* the replacement is the body with $n -> slot n, #n -> the step's fresh name, everything else copied *)
Definition C09_body_stmt : Prop :=
  forall m r pass repl, get_replacement m r pass = Ok repl ->
    match m_repl m with
    | [] => repl = []
    | t0 :: _ => body_spec m (tline t0) (r_matched r) pass (m_repl m) = Some repl
    end.

(* detect reports the first start position at which its parser accepts and the text constraints hold *)
Definition C09_leftmost_stmt : Prop :=
  forall d input r, detect d input = Ok (Some r) ->
    0 <= r_location r < zlen input /\
    (forall i, 0 <= i < r_location r ->
       forall total split, parse translator creator semantic (d_tab d) (parse_fuel (skipn (Z.to_nat i) input)) (skipn (Z.to_nat i) input) = Ok (Some (total, split)) ->
       check_constraint (m_rule (d_macro d)) split (m_cc (d_macro d)) = Ok false).

(* the pinned comparator (defect D10) lets definition order decide between lengths *)
Definition C09_refuted_at_pinned_stmt : Prop :=
  exists (x : cand) (rest : list cand),
    let c := min_element true x rest in
    exists c', In c' (x :: rest) /\ prio c = prio c' /\ ~ at_least_as_good c c'.

(* ===== C10 ======================================================================================== *)
Definition C10_dec_inj_stmt : Prop := forall n m : N, dec n = dec m -> n = m.

Definition C10_pass_inj_stmt : Prop :=
  forall t f l p t' f' l' p', 0 <= p -> 0 <= p' -> p <> p' ->
    temp_name t f l p <> temp_name t' f' l' p'.

Definition C10_index_inj_stmt : Prop :=
  forall (n n' : N) f l p, n <> n' ->
    temp_name (35%N :: dec n) f l p <> temp_name (35%N :: dec n') f l p.

(* a renamed temporary is never an identifier a user can write, nor a loop counter, nor "error" *)
Definition C10_not_user_stmt : Prop :=
  forall rest f l p s,
    (Matches re_id s -> s <> temp_name (35%N :: rest) f l p) /\
    (forall x, temp_name (35%N :: rest) f l p <> loopvar_p1 ++ x) /\
    temp_name (35%N :: rest) f l p <> [101; 114; 114; 111; 114]%N.

(* ===== C11 ======================================================================================== *)
(* at most `passes` steps, with consecutive pass numbers (so one rewrite per pass number) *)
Definition C11_steps_stmt : Prop :=
  forall n bins input p out ch, pass_loop false n bins input p = Ok (out, ch) ->
    exists k, (k <= n)%nat /\ Steps bins input p k out /\
              (ch = true -> k = n /\ (0 < n)%nat) /\
              (ch = false -> (0 < n)%nat -> try_bins false bins out (p + Z.of_nat k) = Ok None).

(* whether a step exists does not depend on the pass number *)
Definition C11_pass_irrelevant_stmt : Prop :=
  forall bins input p p', (exists o, try_bins false bins input p = Ok (Some o)) ->
                          (exists o', try_bins false bins input p' = Ok (Some o')).

(* an unfinished expansion is never passed on silently *)
Definition C11_error_stmt : Prop :=
  forall input defs n errs out e0 bins, (0 < n)%nat ->
    apply_macros input defs n = Ok (errs, out) -> prepare defs = Ok (e0, bins) ->
    forall p mid, try_bins false bins out p = Ok (Some mid) -> In max_passes_err errs.

(* one step grows the stream by at most |body| * max(1, |stream|) *)
Definition C11_growth_step_stmt : Prop :=
  forall input c pass out, rewrite_with input c pass out ->
    (length out <= length input + length (m_repl (d_macro (fst c))) * Nat.max 1 (list_max (map (@length token) (r_matched (snd c)))))%nat.

(* ===== C12 ======================================================================================== *)
Definition is_usable (d : detector) : bool := match d_conflicts d with [] => true | _ => false end.

Definition C12_reported_stmt : Prop :=
  forall ds errs us, split_usable ds = Ok (errs, us) ->
    us = filter is_usable ds /\
    errs = flat_map (fun d => if is_usable d then [] else
                                match m_rule (d_macro d) with
                                | t :: _ => [mkPerr e_macro_non_lr (tfile t) (tline t) []]
                                | [] => [] end) ds.

(* a rejected macro is never applied and does not disturb the others *)
Definition usable_def (m : macrodef) : bool :=
  match make_detector m with Ok d => is_usable d | _ => true end.
Definition C12_others_unaffected_stmt : Prop :=
  forall input defs n errs out, apply_macros input defs n = Ok (errs, out) ->
    exists errs', apply_macros input (filter usable_def defs) n = Ok (errs', out) /\
                  (forall e, In e errs' -> pe_kind e <> e_macro_non_lr) /\
                  (forall e, In e errs -> pe_kind e <> e_macro_non_lr -> In e errs').

(* finite sweep (bound in the statement): every pattern of length <= 3 over the 12-symbol pattern
   alphabet that ends in <P> or <ARGS>, or in `<P> ;` or `<ARGS> ,`, is rejected *)
Definition tokk (k : tkind) : token := mkTok k [] [] 0.
Definition pat (l : list tkind) : macrodef := mkMacro 0 (map tokk l) [] [] [].
Definition rejected (l : list tkind) : bool :=
  match make_detector (pat l) with Ok d => negb (is_usable d) | _ => false end.
Definition accepted (l : list tkind) : bool :=
  match make_detector (pat l) with Ok d => is_usable d | _ => false end.
Definition alphabet12 : list tkind :=
  [ID_TEMP; INT_TEMP; VALUE_TEMP; ARGS_TEMP; PROG_TEMP; ID; INT; NV_ID; PROGSEP; ARGSEP; LOOP; END].
Definition prefixes2 : list (list tkind) :=
  [] :: map (fun a => [a]) alphabet12 ++ flat_map (fun a => map (fun b => [a; b]) alphabet12) alphabet12.
Definition prefixes1 : list (list tkind) := [] :: map (fun a => [a]) alphabet12.

Definition C12_open_ended_bounded_stmt : Prop :=
  forallb (fun pre => rejected (pre ++ [PROG_TEMP]) && rejected (pre ++ [ARGS_TEMP])) prefixes2 = true.
Definition C12_trailing_sep_bounded_stmt : Prop :=
  forallb (fun pre => rejected (pre ++ [PROG_TEMP; PROGSEP]) && rejected (pre ++ [ARGS_TEMP; ARGSEP])) prefixes1 = true.
(* ';' after <P> or ',' after <ARGS> is not by itself fatal: these are prefix-deterministic and accepted *)
Definition C12_accepted_examples_stmt : Prop :=
  accepted [ID_TEMP; NV_ID; INT_TEMP] = true /\
  accepted [PROG_TEMP; PROGSEP; ARGS_TEMP; NV_ID] = true /\
  accepted [IF; VALUE_TEMP; THEN; PROG_TEMP; ID; PROG_TEMP; END] = true /\
  accepted [ID_TEMP; PAREN_OPEN; ARGS_TEMP; PAREN_CLOSE] = true /\
  accepted [VALUE_TEMP; NV_ID; VALUE_TEMP] = true /\
  accepted [] = true /\
  rejected [PROG_TEMP; PROGSEP; ID] = true.
