(* Proofs_Sugar.v — C04 "after the built-in id+int / id-int sugar is applied" (statements: SugarStatements.v).
   Helpers: Proofs_Sugar0.v (no UNKNOWN token in the pipeline; list lemmas about desugar),
            Proofs_Sugar1.v (the two standard macros, their detectors, one rewriting step, the pass loop).

   Proved as stated:
     C04_std_macros_proof         : C04_std_macros_stmt
     C14_no_unknown_scan_proof    : C14_no_unknown_scan_stmt
     C09_no_unknown_extract_proof : C09_no_unknown_extract_stmt
     C09_no_unknown_apply_proof   : C09_no_unknown_apply_stmt
     C04_sugar_proof              : C04_sugar_stmt
     C04_accepts_proof            : C04_accepts_stmt *)
From Coq Require Import List ZArith NArith Lia Bool Sorting.Sorted.
From Theo Require Import Base Regex Tokens Errors Lexer Scan MacroExtract Grammar LR MacroApply Parser VMModel GenModel Compile RefSem Gen_Lexer Gen_Consts SpecMacro CompileStatements ApplyStatements MacroStatements ApplyCompleteStatements LocErrStatements AcceptStatements SugarStatements Proofs_Macro Proofs_Apply0 Proofs_Apply Proofs_ApplyComplete.
From Theo Require Import Proofs_LexRules Proofs_Front Proofs_Gen Proofs_Static.
From Theo Require Proofs_Sugar0 Proofs_Sugar1.
Import ListNotations.
Local Open Scope Z_scope.

Ltac mbi H x Hx := apply bind_ok in H; destruct H as (x & Hx & H).

(* ===== the standard macros are the two documented ones ============================================ *)
Lemma C04_std_macros_proof : C04_std_macros_stmt.
Proof.
  unfold C04_std_macros_stmt. split; [vm_compute; reflexivity|]. split.
  - exists Proofs_Sugar1.m_plus. vm_compute. repeat split; reflexivity.
  - exists Proofs_Sugar1.m_minus. vm_compute. repeat split; reflexivity.
Qed.

(* ===== no token of kind UNKNOWN anywhere in the pipeline ========================================== *)
Lemma C14_no_unknown_scan_proof : C14_no_unknown_scan_stmt.
Proof. exact Proofs_Sugar0.no_unknown_scan. Qed.

Lemma C09_no_unknown_extract_proof : C09_no_unknown_extract_stmt.
Proof. exact Proofs_Sugar0.no_unknown_extract. Qed.

Lemma C09_no_unknown_apply_proof : C09_no_unknown_apply_stmt.
Proof. exact Proofs_Sugar0.no_unknown_apply. Qed.

(* ===== macro application with only the standard macros is desugar ================================= *)
Lemma C04_sugar_proof : C04_sugar_stmt.
Proof. exact Proofs_Sugar1.sugar_apply. Qed.

(* ===== the first sentence of C04 for sources without user macros ================================== *)
Lemma gen_none_ok : match gen true [] None with Ok g => gr_ok g = true | _ => False end.
Proof. vm_compute. reflexivity. Qed.

Lemma C04_accepts_proof : C04_accepts_stmt.
Proof.
  intros files main c toks serrs xerrs out HC HS HX LT.
  remember std_macros as SM eqn:ESM.     (* keep the constant folded: inversion must not evaluate it *)
  pose proof (C02_shape_proof files main c HC) as SH.
  unfold compile, compile_budget in HC. mbi HC p Hp. mbi HC g Hg. inversion HC; subst c; clear HC.
  cbn [cr_ok cr_errors] in *.
  destruct (C02_errors_forwarded_proof _ _ _ _ Hp) as [_ FW].
  unfold parse_budget in Hp. cbv zeta in Hp.
  mbi Hp sr Hs. destruct sr as [toks' serrs'].
  assert (E1 : Ok (toks', serrs') = Ok (toks, serrs)) by (rewrite <- Hs; exact HS).
  inversion E1; subst toks' serrs'; clear E1 Hs.
  mbi Hp xr Hx. destruct xr as [[xerrs' out'] macros].
  assert (E2 : Ok (xerrs', out', macros) = Ok (xerrs, out, SM)) by (rewrite <- Hx; exact HX).
  inversion E2; subst xerrs' out' macros; clear E2 Hx. subst SM.
  mbi Hp ar Ha. destruct ar as [aerrs toks2]. mbi Hp pr Hpr. destruct pr as [root perrs].
  inversion Hp; subst p; clear Hp. cbn [pr_ok pr_root pr_errors] in *.
  (* the stream handed to macro application *)
  assert (ET : eof_terminated out).
  { destruct (C14_eof_proof _ _ _ _ HS) as (body & f & l & E & NB).
    apply (C02_extract_eof_proof toks xerrs out std_macros); [|exact HX].
    exists body, (mkTok T_EOF EOF_text f l). split; [exact E|]. split; [reflexivity|exact NB]. }
  assert (NU : no_unknown out).
  { pose proof (C14_no_unknown_scan_proof _ _ _ _ HS) as N0.
    exact (proj1 (C09_no_unknown_extract_proof _ _ _ _ N0 HX)). }
  destruct (C04_sugar_proof out _ aerrs toks2 ET NU Ha LT) as [-> ->].
  rewrite !app_nil_r in *.
  split.
  - intros OK.
    destruct (perrs ++ map to_serr (serrs ++ xerrs)) as [|e0 es] eqn:EE.
    + apply app_eq_nil in EE. destruct EE as [-> EM]. apply map_eq_nil in EM.
      apply app_eq_nil in EM. destruct EM as [-> ->].
      split; [reflexivity|]. split; [reflexivity|]. exists root. split; [exact Hpr|].
      destruct root as [n|]; [|exact I].
      apply (C04_static_proof (desugar out) n g Hpr Hg).
      destruct SH as [[_ E]|[E _]]; [exact E|congruence].
    + destruct (FW g Hg eq_refl) as [F _]. congruence.
  - intros (-> & -> & root' & HP' & ST). rewrite HP' in Hpr. inversion Hpr; subst root' perrs. clear Hpr.
    cbn [app map] in Hg.
    destruct root as [n|].
    + apply (C04_static_proof (desugar out) n g HP' Hg) in ST.
      destruct SH as [[E _]|[_ E]]; [exact E|contradiction].
    + pose proof gen_none_ok as GN. rewrite Hg in GN. exact GN.
Qed.

Print Assumptions C04_std_macros_proof.
Print Assumptions C14_no_unknown_scan_proof.
Print Assumptions C09_no_unknown_extract_proof.
Print Assumptions C09_no_unknown_apply_proof.
Print Assumptions C04_sugar_proof.
Print Assumptions C04_accepts_proof.
