(* Proofs_C01s2c.v — C01, stage 2 (LOOP / WHILE), part 3: the STATIC part, primitive steps.
   The joint invariant J of a generator state and a flattener state, and how each primitive operation of the
   two traversals (advance a line / place a site, fetch a variable / mention it, fetch a loop counter, fetch and
   release a temporary, emit, emit with a placeholder, create and set a label / a target, place a mark) preserves
   it.  The traversals themselves are in Proofs_C01s2d.v. *)
From Coq Require Import List ZArith NArith Lia Bool.
From Theo Require Import Base Tokens Errors MacroExtract Parser VMModel VMSpec GenModel Compile RefSem RefSemChk C01Statements C01Stages Gen_Consts Proofs_VM_mem Proofs_VM_dbg Proofs_Gen0 Proofs_Gen Proofs_Sem Proofs_C01a Proofs_C01b Proofs_C01 Proofs_C01s2a Proofs_C01s2b.
Import ListNotations.
Local Open Scope Z_scope.

(* ================================================================================================ *)
(* 1. views of a generator state                                                                    *)
(* ================================================================================================ *)
Definition gregs (g : gstate) : list vreg := match g_syms g with f :: _ => f_regs f | [] => [] end.
Definition gks (g : gstate) : list (str * bool) := map key (gregs g).
Definition gmarks (g : gstate) : list (str * Z) := match g_syms g with f :: _ => f_marks f | [] => [] end.

(* everything but the register table and the error list is unchanged *)
Record Same (g g1 : gstate) : Prop := mkSame {
  sm_code : g_code g1 = g_code g;
  sm_labels : g_labels g1 = g_labels g;
  sm_todo : g_todo g1 = g_todo g;
  sm_loops : g_loops g1 = g_loops g;
  sm_pos : gpos g1 = gpos g;
  sm_marks : gmarks g1 = gmarks g }.

Lemma Same_refl g : Same g g.
Proof. constructor; reflexivity. Qed.

Lemma Same_trans a b c : Same a b -> Same b c -> Same a c.
Proof. intros [A1 A2 A3 A4 A5 A6] [B1 B2 B3 B4 B5 B6]. constructor; congruence. Qed.

(* what later stages may rely on: the table only grows, the code only grows, the finished parts stay *)
Definition Ext (g g' : gstate) : Prop :=
  kext (gks g) (gks g') /\ (exists blk, g_code g' = g_code g ++ blk) /\
  g_maps g' = g_maps g /\ g_funcs g' = g_funcs g /\
  exists f f' tl, g_syms g = f :: tl /\ g_syms g' = f' :: tl /\ f_name f' = f_name f /\ f_argnum f' = f_argnum f.

Lemma Ext_refl g : g_syms g <> [] -> Ext g g.
Proof.
  intros H. split; [apply kext_refl|]. split; [apply nil_ex|]. split; [reflexivity|]. split; [reflexivity|].
  destruct (g_syms g) as [|f tl]; [contradiction|]. exists f, f, tl. auto.
Qed.

Lemma Ext_trans a b c : Ext a b -> Ext b c -> Ext a c.
Proof.
  intros (A1 & [k1 A2] & A3 & A4 & f & f' & tl & A5 & A6 & A7 & A8) (B1 & [k2 B2] & B3 & B4 & f2 & f2' & tl2 & B5 & B6 & B7 & B8).
  split; [eapply kext_trans; eauto|]. split; [exists (k1 ++ k2); rewrite B2, A2, app_assoc; reflexivity|].
  split; [congruence|]. split; [congruence|].
  rewrite A6 in B5. inversion B5; subst f2 tl2. exists f, f2', tl. repeat split; auto; congruence.
Qed.

Lemma Ext_syms g g' : Ext g g' -> g_syms g' <> [].
Proof. intros (_ & _ & _ & _ & f & f' & tl & _ & E & _). rewrite E. discriminate. Qed.

Definition FExt (s s' : fstate) : Prop :=
  f_done s' = f_done s /\ f_names s' = f_names s /\
  b_name (f_cur s') = b_name (f_cur s) /\ b_params (f_cur s') = b_params (f_cur s).

Lemma FExt_refl s : FExt s s.
Proof. repeat split. Qed.
Lemma FExt_trans a b c : FExt a b -> FExt b c -> FExt a c.
Proof. intros (A1 & A2 & A3 & A4) (B1 & B2 & B3 & B4). repeat split; congruence. Qed.

(* replacing the register table of the top symbol table *)
Lemma upd_regs_facts g f tl regs' :
  g_syms g = f :: tl ->
  let g1 := upd_syms g (mkFGS (f_name f) regs' (f_argnum f) (f_marks f) :: tl) in
  Same g g1 /\ gregs g1 = regs' /\ (kext (gks g) (map key regs') -> Ext g g1).
Proof.
  intros H g1. split; [|split].
  - constructor; try reflexivity. unfold gmarks. rewrite H. reflexivity.
  - reflexivity.
  - intros Hk. split; [exact Hk|]. split; [apply nil_ex|]. split; [reflexivity|]. split; [reflexivity|].
    exists f, (mkFGS (f_name f) regs' (f_argnum f) (f_marks f)), tl. auto.
Qed.

(* ================================================================================================ *)
(* 2. the joint invariant                                                                           *)
(* ================================================================================================ *)
Section Joint.
  Variable P0 : Z.

  Definition J (g : gstate) (s : fstate) (lmap : list Z) (p : Z) : Prop :=
    g_syms g <> [] /\
    JB P0 (g_code g) (gks g) (gmarks g) (g_labels g) (g_todo g) (g_loops g)
          (b_code (f_cur s)) (b_targets (f_cur s)) (b_vars (f_cur s)) lmap p /\
    f_pos s = gpos g /\ f_loops s = g_loops g.

  Definition RV (g : gstate) (x : str) (i : Z) : Prop := rm_var (RMof (gks g)) x i.
  Definition RC (g : gstate) (c : Z) (i : Z) : Prop := rm_cnt (RMof (gks g)) c i.
  Definition RT (g : gstate) (t : Z) : Prop := rm_tmp (RMof (gks g)) t.

  Lemma Ext_rm g g' : Ext g g' -> rm_le (RMof (gks g)) (RMof (gks g')).
  Proof. intros [H _]. apply RMof_mono; exact H. Qed.
  Lemma RV_ext g g' x i : Ext g g' -> RV g x i -> RV g' x i.
  Proof. intros H. apply (Ext_rm _ _ H). Qed.
  Lemma RC_ext g g' x i : Ext g g' -> RC g x i -> RC g' x i.
  Proof. intros H. apply (Ext_rm _ _ H). Qed.
  Lemma RT_ext g g' t : Ext g g' -> RT g t -> RT g' t.
  Proof. intros H. apply (Ext_rm _ _ H). Qed.

  Lemma vmatch_ext g g' v tgt q : Ext g g' -> vmatch (RMof (gks g)) (g_code g) v tgt q -> vmatch (RMof (gks g')) (g_code g') v tgt q.
  Proof.
    intros H. apply vmatch_mono; [apply Ext_rm; exact H|].
    destruct H as (_ & [blk ->] & _). intros q' ins _ Hz. apply znth_app_some; exact Hz.
  Qed.

  (* a change of the register table only *)
  Lemma J_regs g s lmap p g1 s1 :
    J g s lmap p -> Same g g1 -> g_syms g1 <> [] -> kext (gks g) (gks g1) ->
    RW (gks g1) (g_loops g) -> JV (gks g1) (b_vars (f_cur s1)) ->
    b_code (f_cur s1) = b_code (f_cur s) -> b_targets (f_cur s1) = b_targets (f_cur s) ->
    f_pos s1 = f_pos s -> f_loops s1 = f_loops s ->
    J g1 s1 lmap p.
  Proof.
    intros (H0 & HB & Hp & Hl) [S1 S2 S3 S4 S5 S6] Hs Hk HR HV E1 E2 E3 E4.
    split; [exact Hs|]. split; [|split; congruence].
    rewrite S1, S2, S3, S4, S6, E1, E2. eapply JB_ks; eauto. apply HB.
  Qed.

  (* ---- fetch_variable on a user variable, mention on the other side ---- *)
  Lemma b_vars_mention b x : b_vars (mention b x) = mention_l (b_vars b) x.
  Proof. unfold mention, mention_l. destruct (existsb (str_eqb x) (b_vars b)); reflexivity. Qed.
  Lemma b_targets_mention b x : b_targets (mention b x) = b_targets b.
  Proof. unfold mention. destruct (existsb _ _); reflexivity. Qed.
  Lemma b_name_mention b x : b_name (mention b x) = b_name b.
  Proof. unfold mention. destruct (existsb _ _); reflexivity. Qed.
  Lemma b_params_mention b x : b_params (mention b x) = b_params b.
  Proof. unfold mention. destruct (existsb _ _); reflexivity. Qed.

  Lemma fetch_variable_eq g f tls x : g_syms g = f :: tls ->
    fetch_variable g x =
    Ok (match frk (gks g) x 0 with
        | Some _ => g
        | None => upd_syms g (mkFGS (f_name f) (f_regs f ++ [mkVReg true false x]) (f_argnum f) (f_marks f) :: tls)
        end, ks_ix (gks g) x).
  Proof.
    intros H. unfold fetch_variable, get_symbols, ks_ix, gks, gregs. rewrite H.
    cbn [hd_error of_opt bind]. rewrite find_reg_frk.
    destruct (frk (map key (f_regs f)) x 0); [reflexivity|].
    unfold set_symbols. rewrite H. cbn [tl]. rewrite zlen_map. reflexivity.
  Qed.

  Lemma L_var g s lmap p x : lexable x = true -> J g s lmap p ->
    exists g1, fetch_variable g x = Ok (g1, ks_ix (gks g) x) /\
      J g1 (with_cur s (mention (f_cur s) x)) lmap p /\ Ext g g1 /\ Same g g1 /\
      FExt s (with_cur s (mention (f_cur s) x)) /\ RV g1 x (ks_ix (gks g) x) /\
      (forall t r, znth (gregs g) t = Some r -> znth (gregs g1) t = Some r).
  Proof.
    intros Hx HJ. pose proof HJ as (H0 & HB & Hp & Hl).
    destruct (g_syms g) as [|f tl] eqn:Es; [contradiction|].
    rewrite (fetch_variable_eq g f tl x Es). eexists; split; [reflexivity|].
    assert (HF : FExt s (with_cur s (mention (f_cur s) x))).
    { split; [reflexivity|]. split; [reflexivity|]. cbn [with_cur f_cur]. rewrite b_name_mention, b_params_mention. auto. }
    destruct HB as (HC & HL & HT & HR & HV & HL0 & Hp0).
    pose proof (JV_add_user _ _ x Hx HV) as HV'. pose proof (RW_add_user _ _ x Hx HR) as HR'.
    pose proof (frk_ks_add (gks g) x) as Hfx.
    unfold ks_add in HV', HR', Hfx. destruct (frk (gks g) x 0) as [i|] eqn:E.
    - split; [|split; [apply Ext_refl; rewrite Es; discriminate|split; [apply Same_refl|split; [exact HF|split; [split; auto|auto]]]]].
      eapply J_regs; [exact HJ | apply Same_refl | rewrite Es; discriminate | apply kext_refl | exact HR' | | | | |];
        cbn [with_cur f_cur f_pos f_loops]; try reflexivity.
      + rewrite b_vars_mention. exact HV'.
      + apply b_code_mention.
      + apply b_targets_mention.
    - destruct (upd_regs_facts g f tl (f_regs f ++ [mkVReg true false x]) Es) as (HS & HG & HE).
      set (g1 := upd_syms g _) in *.
      assert (Hk0 : map key (f_regs f ++ [mkVReg true false x]) = gks g ++ [(x, false)]).
      { rewrite map_app. unfold gks, gregs. rewrite Es. reflexivity. }
      assert (Hks : gks g1 = gks g ++ [(x, false)]).
      { unfold gks at 1. rewrite HG. exact Hk0. }
      split; [|split; [apply HE; rewrite Hk0; apply kext_app
                      |split; [exact HS|split; [exact HF|split]]]].
      + eapply J_regs; [exact HJ | exact HS | discriminate | rewrite Hks; apply kext_app | rewrite Hks; exact HR' | | | | |];
          cbn [with_cur f_cur f_pos f_loops]; try reflexivity.
        * rewrite Hks, b_vars_mention. exact HV'.
        * apply b_code_mention.
        * apply b_targets_mention.
      + unfold RV. rewrite Hks. split; [exact Hx | exact Hfx].
      + intros t r Hz. rewrite HG. unfold gregs in Hz. rewrite Es in Hz. apply znth_app_some; exact Hz.
  Qed.

  (* ---- the hidden counter of a LOOP ---- *)
  Lemma L_cnt g s lmap p : J g s lmap p ->
    exists g1 c, fetch_variable (loops_incr g) (loop_counter_name (loops_incr g)) = Ok (g1, c) /\
      J g1 (mkF (f_done s) (f_names s) (f_cur s) (f_pos s) (f_loops s + 1)) lmap p /\ Ext g g1 /\
      RC g1 (g_loops g + 1) c /\
      g_code g1 = g_code g /\ gpos g1 = gpos g /\ g_loops g1 = g_loops g + 1.
  Proof.
    intros HJ. pose proof HJ as (H0 & HB & Hp & Hl).
    destruct (g_syms g) as [|f tls] eqn:Es; [contradiction|].
    assert (Es0 : g_syms (loops_incr g) = f :: tls) by exact Es.
    rewrite (fetch_variable_eq _ f tls _ Es0). rewrite loop_counter_name_eq.
    change (g_fsname (loops_incr g)) with (g_fsname g). change (g_fsline (loops_incr g)) with (g_fsline g).
    change (g_loops (loops_incr g)) with (g_loops g + 1). change (gks (loops_incr g)) with (gks g).
    destruct HB as (HC & HL & HT & HR & HV & HL0 & Hp0).
    set (nm := cname (g_fsname g) (g_fsline g) (g_loops g + 1)).
    pose proof (RW_cnt_fresh _ _ (g_fsname g) (g_fsline g) HR) as Hfr. fold nm in Hfr.
    unfold ks_ix. rewrite Hfr.
    set (g1 := upd_syms (loops_incr g) _).
    assert (Hks : gks g1 = gks g ++ [(nm, false)]).
    { unfold gks, gregs, g1. cbn [g_syms upd_syms f_regs]. rewrite map_app. rewrite Es. reflexivity. }
    exists g1, (zlen (gks g)). split; [reflexivity|].
    assert (HR' : RW (gks g1) (g_loops g + 1)) by (rewrite Hks; apply RW_add_cnt; assumption).
    assert (HV' : JV (gks g1) (b_vars (f_cur s))) by (rewrite Hks; apply JV_add_nonlex; [apply cname_not_lexable | assumption]).
    split; [|split; [|split]].
    - split; [discriminate|]. split; [|split; [exact Hp | cbn [f_loops g1 upd_syms loops_incr g_loops]; lia]].
      assert (Em : gmarks g1 = gmarks g) by (unfold gmarks, g1; cbn [g_syms upd_syms f_marks]; rewrite Es; reflexivity).
      rewrite Em. cbn [f_cur].
      change (g_code g1) with (g_code g). change (g_labels g1) with (g_labels g). change (g_todo g1) with (g_todo g).
      change (g_loops g1) with (g_loops g + 1).
      eapply JB_ks; [apply JB_intro; eassumption | rewrite Hks; apply kext_app | exact HR' | exact HV' | lia].
    - split; [rewrite Hks; apply kext_app|]. split; [apply nil_ex|]. split; [reflexivity|]. split; [reflexivity|].
      exists f, (mkFGS (f_name f) (f_regs f ++ [mkVReg true false nm]) (f_argnum f) (f_marks f)), tls. auto.
    - unfold RC. rewrite Hks. cbn [RMof rm_cnt]. split; [lia|]. exists (g_fsname g), (g_fsline g).
      fold nm. rewrite frk_snoc, Hfr, str_eqb_refl. reflexivity.
    - auto.
  Qed.

  (* ---- temporaries ---- *)
  Lemma fft_spec regs : forall k i, find_free_temp regs k = Some i ->
    exists r, znth regs (i - k) = Some r /\ is_temp r = true /\ in_use r = false.
  Proof.
    induction regs as [|r regs IH]; intros k i; cbn [find_free_temp]; [discriminate|].
    destruct (is_temp r && negb (in_use r)) eqn:E.
    - intros H; inversion H; subst. exists r. rewrite Z.sub_diag. apply andb_true_iff in E. destruct E as [E1 E2].
      apply negb_true_iff in E2. auto.
    - intros H. pose proof (find_free_temp_range _ _ _ H) as Hr.
      destruct (IH _ _ H) as (r' & Hz & A). exists r'. split; [|exact A].
      unfold znth in *. destruct (Z.ltb_spec (i - (k + 1)) 0); [lia|]. destruct (Z.ltb_spec (i - k) 0); [lia|].
      replace (Z.to_nat (i - k)) with (S (Z.to_nat (i - (k + 1)))) by lia. exact Hz.
  Qed.

  Lemma map_key_upd regs i r r' regs' : znth regs i = Some r -> key r' = key r -> zupd regs i r' = Some regs' ->
    map key regs' = map key regs.
  Proof.
    intros Hz Hk Hu. apply Proofs_Gen0.zupd_inv in Hu. destruct Hu as [_ ->]. rewrite map_upd_nat, Hk.
    apply upd_nat_same. apply znth_nth_error. rewrite znth_map, Hz. reflexivity.
  Qed.

  Lemma L_tmp g s lmap p : J g s lmap p ->
    exists g1 t, fetch_temporary g = Ok (g1, t) /\ J g1 s lmap p /\ Ext g g1 /\ Same g g1 /\ RT g1 t /\
      (exists r, znth (gregs g1) t = Some r /\ in_use r = true) /\
      (forall t' r', znth (gregs g) t' = Some r' -> in_use r' = true ->
                     t' <> t /\ exists r'', znth (gregs g1) t' = Some r'' /\ in_use r'' = true).
  Proof.
    intros HJ. pose proof HJ as (H0 & HB & Hp & Hl).
    destruct (g_syms g) as [|f tls] eqn:Es; [contradiction|].
    destruct HB as (HC & HL & HT & HR & HV & HL0 & Hp0).
    unfold fetch_temporary, get_symbols. rewrite Es. cbn [hd_error of_opt bind].
    assert (Eg : gregs g = f_regs f) by (unfold gregs; rewrite Es; reflexivity).
    destruct (find_free_temp (f_regs f) 0) as [i|] eqn:Ef.
    - destruct (fft_spec _ _ _ Ef) as (r & Hz & Ht & Hu). rewrite Z.sub_0_r in Hz.
      rewrite Hz. cbn [of_opt bind].
      destruct (zupd_ex (f_regs f) i (mkVReg true (is_temp r) (vname r)) (znth_some_range _ _ _ Hz)) as [regs' Hup].
      rewrite Hup. cbn [of_opt bind]. unfold set_symbols. rewrite Es. cbn [tl].
      destruct (upd_regs_facts g f tls regs' Es) as (HS & HG & HE).
      set (g1 := upd_syms g _) in *.
      assert (Hks : gks g1 = gks g).
      { unfold gks. rewrite HG, Eg. exact (map_key_upd _ _ r (mkVReg true (is_temp r) (vname r)) _ Hz eq_refl Hup). }
      exists g1, i. split; [reflexivity|].
      split; [eapply J_regs; [exact HJ | exact HS | discriminate | rewrite Hks; apply kext_refl | rewrite Hks; exact HR
                             | rewrite Hks; exact HV | | | |]; reflexivity|].
      split; [apply HE; fold (gks g); rewrite <- Hks; unfold gks; rewrite HG; apply kext_refl|].
      split; [exact HS|]. split; [|split].
      + unfold RT. rewrite Hks. cbn [RMof rm_tmp]. exists (vname r). unfold gks. rewrite Eg, znth_map, Hz. cbn.
        unfold key. rewrite Ht. reflexivity.
      + rewrite HG. eexists. rewrite (znth_zupd _ _ _ _ Hup), Z.eqb_refl. split; reflexivity.
      + intros t' r' Hz' Hu'. rewrite Eg in Hz'. assert (t' <> i) by (intros ->; congruence). split; [assumption|].
        exists r'. rewrite HG, (znth_zupd _ _ _ _ Hup). destruct (Z.eqb_spec t' i); [contradiction|]. auto.
    - unfold set_symbols. rewrite Es. cbn [tl].
      destruct (upd_regs_facts g f tls (f_regs f ++ [mkVReg true true temp_name_str]) Es) as (HS & HG & HE).
      set (g1 := upd_syms g _) in *.
      assert (Hk0 : map key (f_regs f ++ [mkVReg true true temp_name_str]) = gks g ++ [(temp_name_str, true)]).
      { rewrite map_app. unfold gks. rewrite Eg. reflexivity. }
      assert (Hks : gks g1 = gks g ++ [(temp_name_str, true)]) by (unfold gks at 1; rewrite HG; exact Hk0).
      exists g1, (zlen (f_regs f)). split; [reflexivity|].
      split; [eapply J_regs; [exact HJ | exact HS | discriminate | rewrite Hks; apply kext_app
                             | rewrite Hks; apply RW_add_tmp; exact HR
                             | rewrite Hks; apply JV_add_nonlex; [apply temp_not_lexable | exact HV] | | | |]; reflexivity|].
      split; [apply HE; rewrite Hk0; apply kext_app|].
      split; [exact HS|]. split; [|split].
      + unfold RT. rewrite Hks. cbn [RMof rm_tmp]. exists temp_name_str.
        replace (zlen (f_regs f)) with (zlen (gks g)) by (unfold gks; rewrite Eg; apply zlen_map).
        apply znth_app_last.
      + rewrite HG. eexists. rewrite znth_app_last. split; reflexivity.
      + intros t' r' Hz' Hu'. rewrite Eg in Hz'. pose proof (znth_some_range _ _ _ Hz'). split; [lia|].
        exists r'. rewrite HG. split; [apply znth_app_some; exact Hz' | exact Hu'].
  Qed.

  Lemma L_rel g s lmap p t : J g s lmap p -> RT g t ->
    exists g1, release_temporary g t = Ok g1 /\ J g1 s lmap p /\ Ext g g1 /\ Same g g1.
  Proof.
    intros HJ (n & Hn). pose proof HJ as (H0 & HB & Hp & Hl).
    destruct (g_syms g) as [|f tls] eqn:Es; [contradiction|].
    destruct HB as (HC & HL & HT & HR & HV & HL0 & Hp0).
    assert (Eg : gregs g = f_regs f) by (unfold gregs; rewrite Es; reflexivity).
    unfold gks in Hn. rewrite Eg, znth_map in Hn.
    destruct (znth (f_regs f) t) as [r|] eqn:Hz; [|discriminate]. cbn in Hn. inversion Hn as [[E1 E2]].
    unfold release_temporary, get_symbols. rewrite Es. cbn [hd_error of_opt bind]. rewrite Hz. cbn [of_opt bind].
    rewrite E2.
    destruct (zupd_ex (f_regs f) t (mkVReg false true (vname r)) (znth_some_range _ _ _ Hz)) as [regs' Hup].
    rewrite Hup. cbn [of_opt bind]. unfold set_symbols. rewrite Es. cbn [tl].
    destruct (upd_regs_facts g f tls regs' Es) as (HS & HG & HE).
    set (g1 := upd_syms g _) in *.
    assert (Hks : gks g1 = gks g).
    { unfold gks. rewrite HG, Eg. refine (map_key_upd _ _ r _ _ Hz _ Hup). unfold key; cbn; rewrite E2; reflexivity. }
    exists g1. split; [reflexivity|].
    split; [eapply J_regs; [exact HJ | exact HS | discriminate | rewrite Hks; apply kext_refl | rewrite Hks; exact HR
                           | rewrite Hks; exact HV | | | |]; reflexivity|].
    split; [apply HE; fold (gks g); rewrite <- Hks; unfold gks; rewrite HG; apply kext_refl | exact HS].
  Qed.

  (* ---- emitting ---- *)
  Lemma Ext_emit g ins : g_syms g <> [] -> Ext g (emit g ins).
  Proof.
    intros H. split; [apply kext_refl|]. split; [eexists; reflexivity|]. split; [reflexivity|]. split; [reflexivity|].
    cbn [emit upd_code g_syms]. destruct (g_syms g) as [|f tls]; [contradiction|]. exists f, f, tls. auto.
  Qed.

  Lemma L_emit g s lmap p ins : J g s lmap p -> J (emit g ins) s lmap (p + 1) /\ Ext g (emit g ins).
  Proof.
    intros (H0 & HB & Hp & Hl). split; [|apply Ext_emit; exact H0].
    split; [exact H0|]. split; [|split; assumption]. apply JB_emit. exact HB.
  Qed.

  Lemma L_emit_bp g s lmap p ins : J g s lmap p ->
    J (emit_backpatched g ins) s lmap (p + 1) /\ Ext g (emit_backpatched g ins) /\
    In (zlen (g_code g)) (g_todo (emit_backpatched g ins)).
  Proof.
    intros (H0 & HB & Hp & Hl).
    assert (Et : g_todo (emit_backpatched g ins) = g_todo g ++ [zlen (g_code g)]).
    { unfold emit_backpatched, next_pos. cbn [upd_todo g_todo emit upd_code g_code]. rewrite zlen_snoc. f_equal. f_equal. lia. }
    split; [|split].
    - split; [exact H0|]. split; [|split; assumption]. rewrite Et.
      change (g_code (emit_backpatched g ins)) with (g_code g ++ [ins]). apply JB_emit_bp. exact HB.
    - split; [apply kext_refl|]. split; [eexists; reflexivity|]. split; [reflexivity|]. split; [reflexivity|].
      change (g_syms (emit_backpatched g ins)) with (g_syms g).
      destruct (g_syms g) as [|f tls]; [contradiction|]. exists f, f, tls. auto.
    - rewrite Et. apply in_or_app. right. left. reflexivity.
  Qed.

  Lemma L_bemit g s lmap p i : J g s lmap p -> blen i = p ->
    imatch (RMof (gks g)) (g_code g) (jpre lmap (g_todo g)) (zlen (g_code g) - p) i ->
    J g (with_cur s (bemit (f_cur s) i)) lmap 0 /\ FExt s (with_cur s (bemit (f_cur s) i)).
  Proof.
    intros (H0 & HB & Hp & Hl) Hb Hi. split; [|repeat split].
    split; [exact H0|]. split; [|split; assumption]. cbn [with_cur f_cur bemit b_code b_targets b_vars].
    eapply JB_bemit; eauto.
  Qed.

  (* ---- sites ---- *)
  Definition at_loc (pos : loc) (f : str) (l : Z) : Prop := str_eqb f hidden_file = true \/ pos = (f, l).
  Definition node_on (f : str) (l : Z) (file : str) (line : Z) : bool :=
    str_eqb file hidden_file || (str_eqb file f && (line =? l)).

  Lemma adv_noop g f l file line : at_loc (gpos g) f l -> node_on f l file line = true -> advance_line g line file = g.
  Proof.
    unfold at_loc, node_on, advance_line, gpos. intros Ha Hn.
    destruct (str_eqb file hidden_file) eqn:E1; [reflexivity|]. cbn [orb] in Hn.
    apply andb_true_iff in Hn. destruct Hn as [E2 E3]. apply str_eqb_eq in E2. apply Z.eqb_eq in E3. subst file line.
    destruct Ha as [Ha|Ha]; [congruence|]. inversion Ha; subst. rewrite str_eqb_refl, Z.eqb_refl. reflexivity.
  Qed.

  Lemma mv_noop s f l file line : at_loc (f_pos s) f l -> node_on f l file line = true -> move_to s file line = s.
  Proof.
    unfold at_loc, node_on, move_to. intros Ha Hn.
    destruct (str_eqb file hidden_file) eqn:E1; [reflexivity|]. cbn [orb] in Hn.
    apply andb_true_iff in Hn. destruct Hn as [E2 E3]. apply str_eqb_eq in E2. apply Z.eqb_eq in E3. subst file line.
    destruct Ha as [Ha|Ha]; [congruence|]. rewrite Ha. cbn [fst snd]. rewrite str_eqb_refl, Z.eqb_refl. reflexivity.
  Qed.

  Lemma L_site g s lmap line file : J g s lmap 0 ->
    J (advance_line g line file) (move_to s file line) lmap 0 /\ Ext g (advance_line g line file) /\
    FExt s (move_to s file line) /\ at_loc (gpos (advance_line g line file)) file line.
  Proof.
    intros HJ. pose proof HJ as (H0 & HB & Hp & Hl).
    assert (Hmoved : forall F, F = file ->
      J (breakpoint (upd_fs g F line))
        (mkF (f_done s) (f_names s) (bemit (f_cur s) (RSite (file, line))) (file, line) (f_loops s)) lmap 0 /\
      Ext g (breakpoint (upd_fs g F line)) /\
      FExt s (mkF (f_done s) (f_names s) (bemit (f_cur s) (RSite (file, line))) (file, line) (f_loops s)) /\
      at_loc (gpos (breakpoint (upd_fs g F line))) file line).
    { intros F ->. split; [|split; [|split; [repeat split | right; reflexivity]]].
      - split; [exact H0|]. split; [|split; [reflexivity | exact Hl]].
        cbn [f_cur bemit b_code b_targets b_vars].
        change (g_code (breakpoint (upd_fs g file line))) with (g_code g ++ [IPotentialBreak]).
        eapply JB_bemit with (p := 0 + 1); [apply JB_emit; exact HB | reflexivity |].
        cbn [imatch]. rewrite zlen_snoc. replace (zlen (g_code g) + 1 - (0 + 1)) with (zlen (g_code g)) by lia.
        apply znth_app_last.
      - split; [apply kext_refl|]. split; [eexists; reflexivity|]. split; [reflexivity|]. split; [reflexivity|].
        change (g_syms (breakpoint (upd_fs g file line))) with (g_syms g).
        destruct (g_syms g) as [|f tls]; [contradiction|]. exists f, f, tls. auto. }
    assert (Hsame : J g s lmap 0 /\ Ext g g /\ FExt s s) by (split; [exact HJ|split; [apply Ext_refl; exact H0 | apply FExt_refl]]).
    unfold advance_line, move_to. rewrite Hp. unfold gpos at 1 2 3 4. cbn [fst snd].
    destruct (str_eqb file hidden_file) eqn:E1.
    { destruct Hsame as (A & B & Cc). split; [exact A|]. split; [exact B|]. split; [exact Cc|]. left. exact E1. }
    destruct (str_eqb (g_fsname g) file) eqn:E2.
    - apply str_eqb_eq in E2. rewrite (Z.eqb_sym line). destruct (g_fsline g =? line) eqn:E3; cbn [andb].
      + apply Z.eqb_eq in E3. destruct Hsame as (A & B & Cc). split; [exact A|]. split; [exact B|]. split; [exact Cc|].
        right. unfold gpos. congruence.
      + apply Hmoved. exact E2.
    - cbn [andb]. apply Hmoved. reflexivity.
  Qed.

  (* ---- labels and targets ---- *)
  Lemma L_newlab g s lmap p : J g s lmap p ->
    J (fst (create_label g)) (with_cur s (fst (new_target (f_cur s)))) (lmap ++ [zlen (g_labels g)]) p /\
    Ext g (fst (create_label g)) /\ FExt s (with_cur s (fst (new_target (f_cur s)))) /\
    znth (lmap ++ [zlen (g_labels g)]) (zlen (b_targets (f_cur s))) = Some (zlen (g_labels g)).
  Proof.
    intros (H0 & HB & Hp & Hl). split; [|split; [|split; [repeat split|]]].
    - split; [exact H0|]. split; [|split; assumption].
      cbn [create_label fst with_cur f_cur new_target b_code b_targets b_vars].
      apply JB_newlab. exact HB.
    - split; [apply kext_refl|]. split; [apply nil_ex|]. split; [reflexivity|]. split; [reflexivity|].
      cbn [create_label fst upd_labels g_syms]. destruct (g_syms g) as [|f tls]; [contradiction|]. exists f, f, tls. auto.
    - destruct HB as (_ & (E & _) & _). rewrite <- E. apply znth_app_last.
  Qed.

  Lemma L_setlab g s lmap e lab : J g s lmap 0 -> znth lmap e = Some lab ->
    exists ls, GenModel.set_label g lab (next_pos g) = Ok (upd_labels g ls) /\
      J (upd_labels g ls) (with_cur s (set_target (f_cur s) e (bnext (f_cur s)))) lmap 0 /\
      Ext g (upd_labels g ls) /\ FExt s (with_cur s (set_target (f_cur s) e (bnext (f_cur s)))).
  Proof.
    intros (H0 & HB & Hp & Hl) He. pose proof HB as (HC & HL & _). destruct HL as (L1 & L2 & L3 & L4).
    destruct (L4 _ _ He) as (A & _). pose proof (znth_some_range _ _ _ He) as Re.
    destruct (zupd_ex (g_labels g) lab (next_pos g) A) as [ls Hls].
    destruct (zupd_ex (b_targets (f_cur s)) e (bnext (f_cur s)) ltac:(lia)) as [ts Hts].
    exists ls. unfold GenModel.set_label. rewrite Hls. cbn [of_opt bind]. split; [reflexivity|].
    assert (Est : set_target (f_cur s) e (bnext (f_cur s)) =
                  mkB (b_name (f_cur s)) (b_params (f_cur s)) (b_code (f_cur s)) (b_labels (f_cur s)) ts (b_vars (f_cur s))).
    { unfold set_target. rewrite Hts. reflexivity. }
    split; [|split; [|rewrite Est; repeat split]].
    - split; [exact H0|]. split; [|split; assumption]. rewrite Est.
      cbn [with_cur f_cur b_code b_targets b_vars upd_labels g_code g_labels g_todo g_loops].
      change (gks (upd_labels g ls)) with (gks g). change (gmarks (upd_labels g ls)) with (gmarks g).
      eapply JB_setlab; eauto.
    - split; [apply kext_refl|]. split; [apply nil_ex|]. split; [reflexivity|]. split; [reflexivity|].
      cbn [upd_labels g_syms]. destruct (g_syms g) as [|f tls]; [contradiction|]. exists f, f, tls. auto.
  Qed.
End Joint.
