(* Proofs_C01s4w.v — the stage-4 theorems under the names and with the statements of C01Stages4.v
   (headers_ok of the statement file is, definition for definition, headers4 of Proofs_C01s4n.v). *)
From Coq Require Import List ZArith NArith Lia Bool.
From Theo Require Import Base Tokens Errors MacroExtract Parser VMModel VMSpec GenModel Compile RefSem RefSemChk
                         C01Statements C01Stages C01Stages3 C01Stages4 Gen_Consts
                         Proofs_C01s2c Proofs_C01s4n Proofs_C01s4q Proofs_C01s4 Proofs_C01s4x.
Local Open Scope Z_scope.

Lemma headers_ok_is_headers4 : forall n, headers_ok n = headers4 n.
Proof. intros n. reflexivity. Qed.

Lemma C01_calls_proof : C01_calls_stmt.
Proof.
  intros root r rs fuel rviews steps trace Hc Hh Hl Hg Hok Ha Hr.
  rewrite headers_ok_is_headers4 in Hh.
  exact (C01_calls_partial root r rs fuel rviews steps trace Hc Hh Hl Hg Hok Ha Hr).
Qed.

Lemma C01_calls_budget_proof : C01_calls_budget_stmt.
Proof.
  intros root r rs n s Hc Hh Hl Hg Hok Ha Hr Hv.
  rewrite headers_ok_is_headers4 in Hh.
  exact (C01_calls_budget_partial root r rs n s Hc Hh Hl Hg Hok Ha Hr Hv).
Qed.

Lemma C01_calls_budget_needs_headers_proof : C01_calls_budget_needs_headers_stmt.
Proof. exact C01_calls_budget_counterexample. Qed.

Lemma C01_parser_headers_proof : C01_parser_headers_stmt.
Proof.
  intros toks root errs H. rewrite headers_ok_is_headers4. exact (parser_headers4 toks root errs H).
Qed.

Print Assumptions C01_calls_proof.
Print Assumptions C01_calls_budget_proof.
Print Assumptions C01_calls_budget_needs_headers_proof.
Print Assumptions C01_parser_headers_proof.
