(* FlexStatements.v — what is to be proved about the committed scanner tables (C14, last sentence):
   the DFA of lex.yy.c, run by the skeleton's match loop, returns for EVERY byte string the same longest match
   and the same rule as the rule list of lexer.l interpreted by Lexer.munch; rules that flex does not scan for
   newlines cannot contain one; the action switch agrees with lexer.l. *)
From Theo Require Import Base Regex Tokens Lexer FlexModel Gen_Lexer Gen_Flex.
Local Open Scope Z_scope.

Definition as_act (p : nat * nat) : nat * Z := (fst p, Z.of_nat (snd p) + 1).

(* the text is a string of bytes (the model's strings are lists of N; the scanner indexes yy_ec with an unsigned char) *)
Definition bytes_ok (s : list N) : Prop := Forall (fun c => (c < 256)%N) s.

(* generic: whatever tables and rule list pass the reflective check *)
Definition C14_dfa_generic_stmt : Prop :=
  forall t rs m, check_dfa t rs m = true ->
  forall s, bytes_ok s -> flex_match t s = Some (option_map as_act (munch rs s 0 None)).

(* the instance: the tables copied from lex.yy.c now, the rules copied from lexer.l now *)
Definition C14_dfa_equiv_stmt : Prop :=
  forall s, bytes_ok s -> flex_match flex_tables s = Some (option_map as_act (max_munch rules s)).

(* without bytes_ok the statement is false: a model "byte" of 256 or more is outside yy_ec (refuted in Proofs_Flex.v) *)
Definition C14_dfa_equiv_unguarded_stmt : Prop :=
  forall s, flex_match flex_tables s = Some (option_map as_act (max_munch rules s)).
Definition C14_dfa_equiv_needs_bytes_stmt : Prop := ~ C14_dfa_equiv_unguarded_stmt.

Definition C14_eol_generic_stmt : Prop :=
  forall r s, no_newline r = true -> matches_b r s = true -> count_nl s = 0.

Definition C14_eol_stmt : Prop :=
  forall i r k s, nth_error rules i = Some (r, k) -> eol_flag flex_tables (Z.of_nat i + 1) = false ->
    matches_b r s = true -> count_nl s = 0.

Definition C14_actions_stmt : Prop :=
  forall i r k, nth_error rules i = Some (r, k) -> nth_error flex_actions i = Some (Some k).

(* a whole yylex() call on the tables is the model's next_token on the rule list *)
Definition C14_flex_next_token_stmt : Prop :=
  forall fuel s line, bytes_ok s -> flex_next_token fuel flex_tables flex_actions s line = Some (next_token fuel rules s line).
