(* Proofs_Static2.v — helper lemmas for Proofs_Static.v (C04_static), part 3: what the flattener of the reference
   semantics does to the part of its state that decides success (names, finished routines, labels and parameters
   of the routine under construction).  Flattener only. *)
From Coq Require Import List ZArith NArith Lia Bool.
From Theo Require Import Base Tokens Errors MacroExtract Parser VMModel GenModel RefSem SpecGrammar CompileStatements AcceptStatements Proofs_VM_dbg Proofs_Front Proofs_Gen0 Proofs_Gen Proofs_Sem Proofs_Static0.
Import ListNotations.
Local Open Scope Z_scope.

Record ssame (s s' : fstate) : Prop := mkSsame {
  ss_names : f_names s' = f_names s;
  ss_done : f_done s' = f_done s;
  ss_labels : b_labels (f_cur s') = b_labels (f_cur s);
  ss_params : b_params (f_cur s') = b_params (f_cur s)
}.

Lemma ssame_refl s : ssame s s.
Proof. constructor; reflexivity. Qed.
Lemma ssame_trans a b c : ssame a b -> ssame b c -> ssame a c.
Proof. intros [A1 A2 A3 A4] [B1 B2 B3 B4]. constructor; congruence. Qed.

Lemma b_labels_mention b x : b_labels (mention b x) = b_labels b.
Proof. unfold mention. destruct (existsb _ _); reflexivity. Qed.
Lemma b_params_mention b x : b_params (mention b x) = b_params b.
Proof. unfold mention. destruct (existsb _ _); reflexivity. Qed.
Lemma b_labels_set_target b id pos : b_labels (set_target b id pos) = b_labels b.
Proof. unfold set_target. destruct (zupd _ _ _); reflexivity. Qed.
Lemma b_params_set_target b id pos : b_params (set_target b id pos) = b_params b.
Proof. unfold set_target. destruct (zupd _ _ _); reflexivity. Qed.
Lemma b_params_touch_label b l : b_params (touch_label b l) = b_params b.
Proof. unfold touch_label. destruct (existsb _ _); reflexivity. Qed.
Lemma b_labels_fold_mention l : forall b, b_labels (fold_left mention l b) = b_labels b.
Proof. induction l as [|x t IH]; intros b; cbn [fold_left]; [reflexivity|]. rewrite IH. apply b_labels_mention. Qed.
Lemma b_params_fold_mention l : forall b, b_params (fold_left mention l b) = b_params b.
Proof. induction l as [|x t IH]; intros b; cbn [fold_left]; [reflexivity|]. rewrite IH. apply b_params_mention. Qed.

Ltac bsimp1 :=
  cbn [b_labels b_params bemit new_target fst snd f_cur f_done f_names with_cur RefSem.set_label];
  rewrite ?b_labels_set_target, ?b_params_set_target, ?b_labels_mention, ?b_params_mention,
          ?b_params_touch_label, ?b_labels_fold_mention, ?b_params_fold_mention.
Ltac bsimp := bsimp1; bsimp1; bsimp1;
  cbn [b_labels b_params bemit new_target fst snd f_cur f_done f_names with_cur RefSem.set_label].

Lemma ss_move_to s f l : ssame s (move_to s f l).
Proof.
  unfold move_to. destruct (str_eqb f _); [apply ssame_refl|]. destruct (_ && _); [apply ssame_refl|].
  constructor; reflexivity.
Qed.

Lemma ss_with_cur s b : b_labels b = b_labels (f_cur s) -> b_params b = b_params (f_cur s) -> ssame s (with_cur s b).
Proof. intros H1 H2. constructor; cbn; auto. Qed.

Lemma resolve_call_same s f vs s' v : resolve_call s f vs = Some (s', v) -> s' = s.
Proof. intros H. apply resolve_call_inv in H. tauto. Qed.

Definition FVS (n : node) : Prop := forall s s' v, flat_value n s = Some (s', v) -> ssame s s'.
Definition FAS (a : node) : Prop := forall acc acc', fargs a acc = Some acc' -> ssame (fst acc) (fst acc').

Lemma fargs_same m : (forall n, (nsize n < m)%nat -> FVS n) -> forall a, (nsize a < m)%nat -> FAS a.
Proof.
  intros IHm. induction a as [t line file tok al ar IHl IHr] using Proofs_Sem.node_ind'.
  intros Hsz acc acc' H. rewrite fargs_eq in H.
  assert (Hleaf : match flat_value (Node t line file tok al ar) (fst acc) with
                  | Some (s', v) => Some (s', snd acc ++ [v])
                  | None => None
                  end = Some acc' -> ssame (fst acc) (fst acc')).
  { clear H. intros H.
    destruct (flat_value (Node t line file tok al ar) (fst acc)) as [[s' v]|] eqn:E; [|discriminate].
    inversion H; subst acc'. cbn [fst snd]. exact (IHm _ Hsz _ _ _ E). }
  destruct t; try (apply Hleaf; exact H).
  clear Hleaf. cbn [nsize] in Hsz.
  destruct (fargs_opt al acc) as [acc1|] eqn:E1; [|discriminate].
  assert (S1 : ssame (fst acc) (fst acc1)).
  { destruct al as [x|]; cbn [fargs_opt] in E1.
    - apply IHl; auto. lia.
    - inversion E1; subst; apply ssame_refl. }
  eapply ssame_trans; [exact S1|].
  destruct ar as [x|]; cbn [fargs_opt] in H.
  - apply IHr; auto. lia.
  - inversion H; subst; apply ssame_refl.
Qed.

Lemma fv_same : forall n, FVS n.
Proof.
  assert (HH : forall m n, (nsize n < m)%nat -> FVS n).
  { induction m as [|m IHm]; [intros n Hn; lia|].
    intros [t line file tok l r] Hsz s s' v H.
    pose proof (ss_move_to s file line) as S0.
    destruct t;
      try (rewrite flat_value_other in H by (congruence || discriminate); discriminate H).
    - rewrite flat_value_name in H. cbv zeta in H. inversion H; subst.
      eapply ssame_trans; [exact S0|]. apply ss_with_cur; bsimp; reflexivity.
    - rewrite flat_value_number in H. cbv zeta in H.
      destruct (INT_MAX <=? strtol tok); [discriminate|]. inversion H; subst. exact S0.
    - destruct l as [ln|]; [|rewrite flat_value_other in H by (congruence || discriminate); discriminate H].
      rewrite flat_value_call in H. cbv zeta in H.
      set (s0 := move_to s file line) in *.
      destruct (match r with None => Some (s0, []) | Some rn0 => fargs rn0 (s0, []) end)
        as [[s1 vs]|] eqn:E; [|discriminate].
      assert (S1 : ssame s0 s1).
      { destruct r as [rn0|].
        - assert (Hr' : (nsize rn0 < m)%nat) by (cbn [nsize] in Hsz; lia).
          exact (fargs_same m IHm rn0 Hr' (s0, []) (s1, vs) E).
        - inversion E; subst. apply ssame_refl. }
      assert (HR : forall s' v, resolve_call s1 (n_tok ln) vs = Some (s', v) -> ssame s s').
      { intros s2 v2 HRc. apply resolve_call_same in HRc. subst s2. eapply ssame_trans; eauto. }
      destruct (builtin_of r vs) as [[v1 c]|]; [|apply HR in H; exact H].
      destruct (str_eqb (n_tok ln) _).
      { inversion H; subst. eapply ssame_trans; eauto. }
      destruct (str_eqb (n_tok ln) _).
      { inversion H; subst. eapply ssame_trans; eauto. }
      apply HR in H; exact H. }
  intros n. apply (HH (S (nsize n))). lia.
Qed.

Lemma ov_same o s s' v : opt_value o s = Some (s', v) -> ssame s s'.
Proof. destruct o as [n|]; cbn [opt_value]; [apply fv_same | discriminate]. Qed.

(* ---- statements: finished routines only grow; the parameters of the current routine stay ------------- *)
Record sframe (s s' : fstate) : Prop := mkSframe {
  sf_done : exists l, f_done s' = f_done s ++ l;
  sf_params : b_params (f_cur s') = b_params (f_cur s)
}.

Lemma sframe_refl s : sframe s s.
Proof. constructor; auto. exists []. rewrite app_nil_r. reflexivity. Qed.
Lemma sframe_trans a b c : sframe a b -> sframe b c -> sframe a c.
Proof.
  intros [[l1 A1] A2] [[l2 B1] B2]. constructor; [|congruence]. exists (l1 ++ l2). rewrite B1, A1, app_assoc. reflexivity.
Qed.
Lemma ssame_sframe s s' : ssame s s' -> sframe s s'.
Proof. intros [A1 A2 A3 A4]. constructor; auto. exists []. rewrite app_nil_r. auto. Qed.

Lemma sf_with_cur s b : b_params b = b_params (f_cur s) -> sframe s (with_cur s b).
Proof. intros H. constructor; cbn; auto. exists []. rewrite app_nil_r. reflexivity. Qed.

Definition SFP (n : node) : Prop := forall s s', flat_stmt n s = Some s' -> sframe s s'.

Lemma fsub_sframe o s s' : opt_all SFP o -> fsub o s = Some s' -> sframe s s'.
Proof.
  destruct o as [x|]; cbn [opt_all fsub]; intros IH H; [apply IH; auto | inversion H; subst; apply sframe_refl].
Qed.

Lemma flat_stmt_sframe : forall n, SFP n.
Proof.
  induction n as [t line file tok l r IHl IHr] using Proofs_Sem.node_ind'.
  intros s s' H. rewrite flat_stmt_eq in H.
  eapply sframe_trans; [apply ssame_sframe, (ss_move_to s file line)|].
  set (s0 := move_to s file line) in *. clearbody s0.
  destruct t; cbn [fs_body] in H; try discriminate H.
  - (* SPLIT *) unfold fs_split in H. destruct (fsub l s0) as [s1|] eqn:E1; [|discriminate].
    eapply sframe_trans; [exact (fsub_sframe _ _ _ IHl E1) | exact (fsub_sframe _ _ _ IHr H)].
  - (* ASSIGN *) destruct l as [ln|]; [|discriminate]. unfold fs_assign in H. cbv zeta in H.
    destruct (opt_value r _) as [[s1 v]|] eqn:E; [|discriminate]. apply ov_same in E.
    inversion H; subst s'.
    eapply sframe_trans; [|eapply sframe_trans; [apply ssame_sframe; exact E|]].
    + apply sf_with_cur; bsimp; reflexivity.
    + apply sf_with_cur; bsimp; reflexivity.
  - (* LOOP *) unfold fs_loop in H. cbv zeta in H.
    destruct (opt_value l _) as [[s1 v]|] eqn:E; [|discriminate]. apply ov_same in E.
    unfold new_target in H. cbv beta iota in H.
    match type of H with match fsub r ?x with _ => _ end = _ => set (s1' := x) in H end.
    destruct (fsub r s1') as [s2|] eqn:E2; [|discriminate].
    apply (fsub_sframe _ _ _ IHr) in E2. inversion H; subst s'.
    assert (S0 : sframe s0 s1).
    { destruct E as [A1 A2 A3 A4]. cbn in A1, A2, A3, A4. constructor; auto. exists []. rewrite app_nil_r. auto. }
    eapply sframe_trans; [exact S0|].
    eapply sframe_trans; [|eapply sframe_trans; [exact E2|]].
    + subst s1'. apply sf_with_cur; bsimp; reflexivity.
    + apply sf_with_cur; bsimp; reflexivity.
  - (* WHILE *) unfold fs_while in H. unfold new_target in H. cbv beta iota zeta in H.
    destruct (opt_value l _) as [[s1 v]|] eqn:E; [|discriminate]. apply ov_same in E.
    match type of H with match fsub r ?x with _ => _ end = _ => set (s1' := x) in H end.
    destruct (fsub r s1') as [s2|] eqn:E2; [|discriminate].
    apply (fsub_sframe _ _ _ IHr) in E2. inversion H; subst s'.
    eapply sframe_trans; [|eapply sframe_trans; [apply ssame_sframe; exact E|]].
    + apply sf_with_cur; bsimp; reflexivity.
    + eapply sframe_trans; [|eapply sframe_trans; [exact E2|]].
      * subst s1'. apply sf_with_cur; bsimp; reflexivity.
      * apply sf_with_cur; bsimp; reflexivity.
  - (* MARK *) destruct l as [ln|]; [|discriminate]. inversion H; subst s'. apply sf_with_cur; bsimp; reflexivity.
  - (* IF *) destruct l as [[t1 l1 f1 k1 a b]|]; [|discriminate].
    destruct r as [[t2 l2 f2 k2 [target|] b2]|]; try discriminate.
    unfold fs_if in H.
    destruct (opt_value a s0) as [[s1 va]|] eqn:E1; [|discriminate]. apply ov_same in E1.
    destruct (opt_value b s1) as [[s2 vb]|] eqn:E2; [|discriminate]. apply ov_same in E2.
    inversion H; subst s'.
    eapply sframe_trans; [apply ssame_sframe; exact E1|].
    eapply sframe_trans; [apply ssame_sframe; exact E2|]. apply sf_with_cur; bsimp; reflexivity.
  - (* PROGRAM *) destruct l as [[t1 l1 f1 k1 [name|] ports]|]; try discriminate.
    unfold fs_program in H. cbv zeta in H.
    destruct (negb (no_dup _)); [discriminate|].
    match type of H with match fsub r ?x with _ => _ end = _ => set (s1 := x) in H end.
    destruct (fsub r s1) as [s2|] eqn:E; [|discriminate].
    apply (fsub_sframe _ _ _ IHr) in E. destruct E as [[l2 D2] _]. subst s1. cbn [f_done] in D2.
    inversion H; subst s'. constructor; cbn [f_done f_cur].
    + exists (l2 ++ [finish_routine
           (bemit (mention (f_cur s2) match ports with Some (Node _ _ _ _ _ (Some o)) => n_tok o | _ => [120%N; 48%N] end)
              (RReturn match ports with Some (Node _ _ _ _ _ (Some o)) => n_tok o | _ => [120%N; 48%N] end))]).
      rewrite D2, app_assoc. reflexivity.
    + destruct (last_is_site (f_cur s0)); reflexivity.
  - (* GOTO *) destruct l as [ln|]; [|discriminate]. inversion H; subst s'. apply sf_with_cur; bsimp; reflexivity.
  - (* STOP *) inversion H; subst s'. apply sf_with_cur; bsimp; reflexivity.
Qed.
