(* Proofs_C01s3a.v — C01, stage 3 (labels, GOTO, IF, STOP), part 1: the DYNAMIC part.
   The stage-2 simulation (Proofs_C01s2a.v) with three more reference instructions: RGoto, RIfGoto, RStop.
   Register maps, the store relation SR, chg, vmatch and run_val are those of stage 2; block lengths, the position
   map, imatch and the step / run lemmas are restated with the new cases.  Jumps now have two kinds of targets: a
   structural target id (loops) or a source label.  Besides the finished run (sim_run3) there is the prefix version
   for runs that are out of fuel (sim_prefix3): the VM has executed at least as many instructions and is not done.
   Everything is generic in the routine, its index, the frame base and the register map. *)
From Coq Require Import List ZArith NArith Lia Bool.
From Theo Require Import Base Tokens Errors MacroExtract Parser VMModel VMSpec GenModel Compile RefSem RefSemChk C01Statements C01Stages Gen_Consts Proofs_VM_mem Proofs_VM_dbg Proofs_Gen0 Proofs_Gen Proofs_Sem Proofs_C01a Proofs_C01b Proofs_C01 Proofs_C01s2a.
Import ListNotations.
Local Open Scope Z_scope.

(* ================================================================================================ *)
(* 1. TEST on the VM                                                                                *)
(* ================================================================================================ *)
Lemma exec1_test s act rest t a b x y d' :
  znth (code (prog s)) (ip s) = Some (ITest t a b) -> stack s = act :: rest ->
  znth (data s) (data_start act + a) = Some x -> znth (data s) (data_start act + b) = Some y ->
  zupd (data s) (data_start act + t) (if x =? y then 0 else 1) = Some d' ->
  exec1 s = Ok (vm_at s (ip s + 1) d', false).
Proof.
  intros Hz Hs Hx Hy Hu. unfold exec1, exec1_gen. rewrite Hz. cbn [of_opt bind ITest iop ia ib ic].
  unfold top. rewrite Hs. cbn [hd_error of_opt bind]. unfold rd. rewrite Hx. cbn [of_opt bind]. rewrite Hy. cbn [of_opt bind].
  unfold wr. rewrite Hu. reflexivity.
Qed.

Lemma at_test s act rest q d t a b x y d' :
  znth (code (prog s)) q = Some (ITest t a b) -> stack s = act :: rest ->
  znth d (data_start act + a) = Some x -> znth d (data_start act + b) = Some y ->
  zupd d (data_start act + t) (if x =? y then 0 else 1) = Some d' ->
  vm_run 1 (vm_at s q d) = Ok (vm_at s (q + 1) d').
Proof.
  intros H1 H2 H3 H4 H5. apply vm_run_1 with (b := false).
  exact (exec1_test (vm_at s q d) act rest t a b x y d' H1 H2 H3 H4 H5).
Qed.

(* ================================================================================================ *)
(* 2. block lengths and the position map, with the new instructions                                 *)
(* ================================================================================================ *)
Definition blen3 (i : rinstr) : Z :=
  match i with
  | RGoto _ => 1
  | RIfGoto a b _ => vlen a + vlen b + 2
  | RStop => 1
  | _ => blen i
  end.

Lemma blen3_nonneg i : 0 <= blen3 i.
Proof.
  destruct i; cbn [blen3]; try apply blen_nonneg; try lia.
  pose proof (vlen_nonneg a). pose proof (vlen_nonneg b). lia.
Qed.

Fixpoint boff3 (rc : list rinstr) (n : nat) {struct n} : Z :=
  match n, rc with
  | S n', i :: t => blen3 i + boff3 t n'
  | _, _ => 0
  end.

Lemma boff3_nonneg rc : forall n, 0 <= boff3 rc n.
Proof.
  induction rc as [|i t IH]; intros [|n]; cbn [boff3]; try lia.
  pose proof (blen3_nonneg i). specialize (IH n). lia.
Qed.

Lemma boff3_S rc : forall n i, nth_error rc n = Some i -> boff3 rc (S n) = boff3 rc n + blen3 i.
Proof.
  induction rc as [|j t IH]; intros [|n] i H; cbn [nth_error] in H; try discriminate.
  - inversion H; subst. cbn [boff3]. lia.
  - change (boff3 (j :: t) (S (S n))) with (blen3 j + boff3 t (S n)). rewrite (IH _ _ H). cbn [boff3]. lia.
Qed.

Lemma boff3_app rc l : forall n, (n <= length rc)%nat -> boff3 (rc ++ l) n = boff3 rc n.
Proof.
  induction rc as [|j t IH]; intros [|n] H; cbn [length] in H; cbn [app boff3]; try reflexivity; try lia.
  rewrite IH by lia. reflexivity.
Qed.

Lemma boff3_snoc rc i : boff3 (rc ++ [i]) (S (length rc)) = boff3 rc (length rc) + blen3 i.
Proof.
  rewrite (boff3_S (rc ++ [i]) (length rc) i).
  - rewrite boff3_app by lia. reflexivity.
  - rewrite nth_error_app2 by lia. rewrite Nat.sub_diag. reflexivity.
Qed.

Definition pm_of3 (P0 : Z) (rc : list rinstr) (pc : Z) : Z := P0 + boff3 rc (Z.to_nat pc).

Lemma pm_of3_next P0 rc pc i : znth rc pc = Some i -> pm_of3 P0 rc (pc + 1) = pm_of3 P0 rc pc + blen3 i.
Proof.
  intros H. pose proof (znth_some_range _ _ _ H) as R. unfold pm_of3.
  replace (Z.to_nat (pc + 1)) with (S (Z.to_nat pc)) by lia.
  rewrite (boff3_S rc (Z.to_nat pc) i); [lia|]. apply znth_nth_error. exact H.
Qed.

Lemma pm_of3_app P0 rcode l t : t <= zlen rcode -> pm_of3 P0 (rcode ++ l) t = pm_of3 P0 rcode t.
Proof. intros H. unfold pm_of3. rewrite boff3_app; [reflexivity|]. unfold zlen in H. lia. Qed.

(* ================================================================================================ *)
(* 3. the shape of compiled code                                                                    *)
(* ================================================================================================ *)
(* what a jump aims at: the structural target of a loop, or a source label *)
Inductive jtarget := JId (e : Z) | JLab (l : str).
Definition jrel3 := Z -> Z -> jtarget -> Prop.
Definition jid (J : jrel3) : jrel := fun q f e => J q f (JId e).

Definition imatch3 (rm : regmap) (C : list instr) (J : jrel3) (q : Z) (i : rinstr) : Prop :=
  match i with
  | RGoto l => exists f, znth C q = Some (IJmp f) /\ J q f (JLab l)
  | RIfGoto (RVar y) (RNum c) l =>
      exists ry t1 t2 tc f, rm_var rm y ry /\ rm_tmp rm t1 /\ rm_tmp rm t2 /\ rm_tmp rm tc /\ t1 <> t2 /\
        0 <= c < INT_MAX /\
        znth C q = Some (IAdd t1 ry 0) /\ znth C (q + 1) = Some (IConst t2 c) /\
        znth C (q + 2) = Some (ITest tc t1 t2) /\ znth C (q + 3) = Some (IJmpC f tc) /\ J (q + 3) f (JLab l)
  | RIfGoto _ _ _ => False
  | RStop => znth C q = Some IHalt
  | _ => imatch rm C (jid J) q i
  end.

Lemma imatch3_mono rm rm' C C' (J J' : jrel3) q i : rm_le rm rm' ->
  (forall q' ins, q <= q' -> znth C q' = Some ins -> znth C' q' = Some ins) ->
  (forall q' f e, q <= q' -> J q' f e -> J' q' f e) ->
  imatch3 rm C J q i -> imatch3 rm' C' J' q i.
Proof.
  intros Hrm HC HJ. pose proof Hrm as (Hv & Hc & Ht).
  assert (Hold : imatch rm C (jid J) q i -> imatch rm' C' (jid J') q i).
  { apply imatch_mono; auto. intros q' f e Hq. unfold jid. apply HJ; exact Hq. }
  destruct i as [l|x v|id v|id ex|id back|v ex|target|l|x y l| |out|]; cbn [imatch3]; auto.
  - intros (f & H1 & H2). exists f. split; [apply HC; auto; lia | apply HJ; auto; lia].
  - destruct x; auto. destruct y; auto.
    intros (ry & t1 & t2 & tc & f & A1 & A2 & A3 & A4 & A5 & A6 & A7 & A8 & A9 & A10 & A11).
    exists ry, t1, t2, tc, f. repeat split; auto; try lia; try (apply HC; auto; lia). apply HJ; auto; lia.
  - intros H. apply HC; [lia | exact H].
Qed.

(* the last VM instruction of a block is a potential break exactly for a site *)
Definition is_site (i : rinstr) : bool := match i with RSite _ => true | _ => false end.

Lemma vmatch_last rm C v tgt q : vmatch rm C v tgt q ->
  exists ins, znth C (q + vlen v - 1) = Some ins /\ opcode_eqb (iop ins) POTENTIAL_BREAK = false.
Proof.
  destruct v as [y|c|y c|y c|j args]; cbn [vmatch vlen]; try contradiction.
  - intros (ry & _ & H). eexists. replace (q + 1 - 1) with q by lia. split; [exact H | reflexivity].
  - intros (_ & H). eexists. replace (q + 1 - 1) with q by lia. split; [exact H | reflexivity].
  - destruct y; try contradiction. intros (ry & t1 & t2 & _ & _ & _ & _ & _ & _ & _ & H).
    eexists. replace (q + 3 - 1) with (q + 2) by lia. split; [exact H | reflexivity].
  - destruct y; try contradiction. intros (ry & t1 & t2 & _ & _ & _ & _ & _ & _ & _ & H).
    eexists. replace (q + 3 - 1) with (q + 2) by lia. split; [exact H | reflexivity].
Qed.

Lemma imatch3_last rm C J q i : imatch3 rm C J q i ->
  exists ins, znth C (q + blen3 i - 1) = Some ins /\ opcode_eqb (iop ins) POTENTIAL_BREAK = is_site i.
Proof.
  destruct i as [l|x v|id v|id ex|id back|v ex|target|l|x y l| |out|]; cbn [imatch3 imatch blen3 blen is_site]; try contradiction.
  - intros H. eexists. replace (q + 1 - 1) with q by lia. split; [exact H | reflexivity].
  - intros (rx & _ & H). apply vmatch_last in H. exact H.
  - intros (rx & _ & H). apply vmatch_last in H. exact H.
  - intros (rc & f & _ & H & _). eexists. replace (q + 1 - 1) with q by lia. split; [exact H | reflexivity].
  - intros (rc & f & _ & _ & H & _). eexists. replace (q + 2 - 1) with (q + 1) by lia. split; [exact H | reflexivity].
  - intros (t & f & _ & _ & H & _). eexists. replace (q + (vlen v + 1) - 1) with (q + vlen v) by lia. split; [exact H | reflexivity].
  - intros (f & H & _). eexists. replace (q + 1 - 1) with q by lia. split; [exact H | reflexivity].
  - intros (f & H & _). eexists. replace (q + 1 - 1) with q by lia. split; [exact H | reflexivity].
  - destruct x; try contradiction. destruct y; try contradiction.
    intros (ry & t1 & t2 & tc & f & _ & _ & _ & _ & _ & _ & _ & _ & _ & H & _). cbn [vlen].
    eexists. replace (q + (1 + 1 + 2) - 1) with (q + 3) by lia. split; [exact H | reflexivity].
  - intros H. eexists. replace (q + 1 - 1) with q by lia. split; [exact H | reflexivity].
  - intros H. eexists. replace (q + 1 - 1) with q by lia. split; [exact H | reflexivity].
Qed.

Lemma imatch3_blen_pos rm C J q i : imatch3 rm C J q i -> 1 <= blen3 i.
Proof.
  destruct i as [l|x v|id v|id ex|id back|v ex|target|l|x y l| |out|]; cbn [imatch3 imatch blen3 blen]; try contradiction; try lia.
  - intros (rx & _ & H). apply vmatch_shape in H. destruct v as [| |[]|[]|]; cbn in *; try discriminate; lia.
  - intros (rx & _ & H). apply vmatch_shape in H. destruct v as [| |[]|[]|]; cbn in *; try discriminate; lia.
  - intros _. pose proof (vlen_nonneg v). lia.
  - intros _. pose proof (vlen_nonneg x). pose proof (vlen_nonneg y). lia.
Qed.

(* the first VM instruction of the block of an instruction that does not end the run is not HALT *)
Definition not_halt (C : list instr) (q : Z) : Prop :=
  exists ins, znth C q = Some ins /\ opcode_eqb (iop ins) HALT = false.

Lemma vmatch_first rm C v tgt q : vmatch rm C v tgt q -> not_halt C q.
Proof.
  unfold not_halt. destruct v as [y|c|y c|y c|j args]; cbn [vmatch]; try contradiction.
  - intros (ry & _ & H). eexists; split; [exact H | reflexivity].
  - intros (_ & H). eexists; split; [exact H | reflexivity].
  - destruct y; try contradiction. intros (ry & t1 & t2 & _ & _ & _ & _ & _ & H & _). eexists; split; [exact H | reflexivity].
  - destruct y; try contradiction. intros (ry & t1 & t2 & _ & _ & _ & _ & _ & H & _). eexists; split; [exact H | reflexivity].
Qed.

(* ================================================================================================ *)
(* 4. one reference instruction against its block of VM code                                        *)
(* ================================================================================================ *)
Section Sim3.
  Variables (rs : list routine) (k : nat) (r : routine).
  Hypothesis Hk : nth_error rs k = Some r.
  Variables (rm : regmap) (base N : Z) (C : list instr) (P0 : Z).
  Hypothesis OK : rm_ok rm N.

  Definition pm3 (pc : Z) : Z := pm_of3 P0 (r_code r) pc.
  (* after backpatching: the jump lands on the block of its target *)
  Definition jpost3 : jrel3 := fun q f tg =>
    match tg with
    | JId e => exists t, znth (r_targets r) e = Some t /\ (0 <= t -> q + f = pm3 t)
    | JLab l => 0 <= label_pos (r_labels r) l -> q + f = pm3 (label_pos (r_labels r) l)
    end.
  Hypothesis CM : forall pc i, znth (r_code r) pc = Some i -> imatch3 rm C jpost3 (pm3 pc) i.

  Lemma not_halt_done s q d : code (prog s) = C -> not_halt C q -> isDone (vm_at s q d) = Ok false.
  Proof.
    intros HC (ins & Hz & Hh). unfold isDone, vm_at. cbn [prog ip]. rewrite HC, Hz. cbn [of_opt bind]. rewrite Hh. reflexivity.
  Qed.

  Lemma sim_step3 rec ctx a pc steps trace i s d o :
    znth (r_code r) pc = Some i -> frame_of base C s -> SR rm base N a d ->
    exec_instr_c rs rec r ctx k a pc steps trace i = o -> o <> OBad ->
    ((i = RHalt \/ i = RStop) /\ o = OStop (ctx ++ [view_of r a]) (S steps) trace) \/
    (not_halt C (pm3 pc) /\
     exists a' pc' tr1 n d',
        (1 <= n)%nat /\ vm_run n (vm_at s (pm3 pc) d) = Ok (vm_at s (pm3 pc') d') /\
        SR rm base N a' d' /\ chg rm base d d' (in_frame base N) /\
        rec ctx k a' pc' (S steps) tr1 = o).
  Proof.
    intros Hi (HC & act & rest & Hst & Hb) HS HX Hne.
    pose proof (CM _ _ Hi) as HM. pose proof (pm_of3_next P0 _ _ _ Hi) as Hnext. fold (pm3 (pc + 1)) in Hnext. fold (pm3 pc) in Hnext.
    pose proof HS as [Hf Hvar Hcnt Hvb Hcb].
    unfold exec_instr_c in HX. cbv zeta in HX.
    destruct i as [l|x v|id v|id ex|id back|v ex|target|l|x y l| |out|]; cbn [imatch3 imatch blen3 blen] in HM, Hnext; try contradiction.
    - (* RSite *)
      right. split; [eexists; split; [exact HM | reflexivity]|].
      exists a, (pc + 1), (trace ++ [(l, ctx ++ [view_of r a])]), 1%nat, d.
      split; [lia|]. split; [|split; [exact HS|split; [apply chg_refl | exact HX]]].
      rewrite Hnext. apply at_pb. rewrite HC. exact HM.
    - (* RAssign *)
      destruct HM as (rx & Hx & HV).
      rewrite (eval_c_simple _ _ _ _ _ _ _ (vmatch_shape _ _ _ _ _ HV)) in HX.
      destruct (sval (ra_vars a) v) as [z|] eqn:Ev; [|congruence].
      pose proof (rmo_var_rng _ _ OK _ _ Hx) as Rx.
      destruct (run_val rm base N C OK v rx (pm3 pc) s d act rest a z HS HC Hst Hb HV Rx Ev) as (d' & Hrun & Hch & Hz & Hzb).
      right. split; [exact (vmatch_first _ _ _ _ _ HV)|].
      exists (mkRAct (put (ra_vars a) x z) (ra_cnt a)), (pc + 1), trace, (Z.to_nat (vlen v)), d'.
      split; [pose proof (vmatch_shape _ _ _ _ _ HV); destruct v as [| |[]|[]|]; cbn in *; try discriminate; lia|].
      split; [rewrite Hnext; exact Hrun|].
      split; [eapply SR_var; eauto|]. split; [eapply chg_in_frame; eauto | exact HX].
    - (* RLoopInit *)
      destruct HM as (rc & Hx & HV).
      rewrite (eval_c_simple _ _ _ _ _ _ _ (vmatch_shape _ _ _ _ _ HV)) in HX.
      destruct (sval (ra_vars a) v) as [z|] eqn:Ev; [|congruence].
      pose proof (rmo_cnt_rng _ _ OK _ _ Hx) as Rx.
      destruct (run_val rm base N C OK v rc (pm3 pc) s d act rest a z HS HC Hst Hb HV Rx Ev) as (d' & Hrun & Hch & Hz & Hzb).
      right. split; [exact (vmatch_first _ _ _ _ _ HV)|].
      exists (mkRAct (ra_vars a) (putc (ra_cnt a) id z)), (pc + 1), trace, (Z.to_nat (vlen v)), d'.
      split; [pose proof (vmatch_shape _ _ _ _ _ HV); destruct v as [| |[]|[]|]; cbn in *; try discriminate; lia|].
      split; [rewrite Hnext; exact Hrun|].
      split; [eapply SR_cnt; eauto|]. split; [eapply chg_in_frame; eauto | exact HX].
    - (* RLoopTest *)
      destruct HM as (rc & f & Hx & Hz & (t & Ht & Hj)).
      pose proof (Hcnt _ _ Hx) as Hrd. rewrite <- Hb in Hrd.
      pose proof (at_jmpc s act rest (pm3 pc) d f rc _ ltac:(rewrite HC; exact Hz) Hst Hrd) as Hrun.
      right. split; [eexists; split; [exact Hz | reflexivity]|]. destruct (getc (ra_cnt a) id =? 0).
      + rewrite Ht in HX. unfold goto_of in HX. destruct (Z.ltb_spec t 0) as [|Hge]; [congruence|].
        exists a, t, trace, 1%nat, d. split; [lia|]. rewrite <- (Hj Hge).
        split; [exact Hrun|]. split; [exact HS|]. split; [apply chg_refl | exact HX].
      + exists a, (pc + 1), trace, 1%nat, d. split; [lia|]. rewrite Hnext.
        split; [exact Hrun|]. split; [exact HS|]. split; [apply chg_refl | exact HX].
    - (* RLoopDec *)
      destruct HM as (rc & f & Hx & Hz & Hz1 & (t & Ht & Hj)).
      rewrite Ht in HX. unfold goto_of in HX. destruct (Z.ltb_spec t 0) as [|Hge]; [congruence|].
      pose proof (Hcnt _ _ Hx) as Hrd. rewrite <- Hb in Hrd.
      pose proof (rmo_cnt_rng _ _ OK _ _ Hx) as Rx. pose proof (Hcb id) as Bc.
      set (x := getc (ra_cnt a) id) in *.
      destruct (zupd_ex d (data_start act + rc) (clampz (x + -1)) ltac:(lia)) as [d' Hu].
      assert (Ec : clampz (x + -1) = Z.max (x - 1) 0) by (unfold clampz; lia).
      right. split; [eexists; split; [exact Hz | reflexivity]|].
      exists (mkRAct (ra_vars a) (putc (ra_cnt a) id (Z.max (x - 1) 0))), t, trace, (1 + 1)%nat, d'.
      split; [lia|]. split.
      + rewrite <- (Hj Hge).
        eapply vm_run_trans; [eapply at_add; [rewrite HC; exact Hz | exact Hst | exact Hrd | exact Hu]|].
        apply at_jmp. rewrite HC. exact Hz1.
      + rewrite Hb in Hu. split.
        * eapply SR_cnt; eauto; [eapply chg_zupd; exact Hu | | lia].
          rewrite (znth_zupd _ _ _ _ Hu), Z.eqb_refl, Ec. reflexivity.
        * split; [|exact HX]. eapply chg_in_frame; [exact Rx|]. eapply chg_zupd; exact Hu.
    - (* RWhileTest *)
      destruct HM as (tt & f & Htt & HV & Hz & (t & Ht & Hj)).
      rewrite (eval_c_simple _ _ _ _ _ _ _ (vmatch_shape _ _ _ _ _ HV)) in HX.
      destruct (sval (ra_vars a) v) as [z|] eqn:Ev; [|congruence].
      pose proof (rmo_tmp_rng _ _ OK _ Htt) as Rt.
      destruct (run_val rm base N C OK v tt (pm3 pc) s d act rest a z HS HC Hst Hb HV Rt Ev) as (d' & Hrun & Hch & Hzz & Hzb).
      assert (HS' : SR rm base N a d').
      { eapply SR_tmp; eauto. destruct Hch as [Hl Hc']. split; [exact Hl|]. intros j _ Hj'. apply Hc'; [|exact Hj'].
        intros ->. apply (Hj' tt Htt). reflexivity. }
      assert (Hch' : chg rm base d d' (in_frame base N)) by (eapply chg_in_frame; eauto).
      rewrite <- Hb in Hzz.
      pose proof (at_jmpc s act rest (pm3 pc + vlen v) d' f tt z ltac:(rewrite HC; exact Hz) Hst Hzz) as Hrun2.
      right. split; [exact (vmatch_first _ _ _ _ _ HV)|]. destruct (z =? 0).
      + rewrite Ht in HX. unfold goto_of in HX. destruct (Z.ltb_spec t 0) as [|Hge]; [congruence|].
        exists a, t, trace, (Z.to_nat (vlen v) + 1)%nat, d'. split; [lia|]. rewrite <- (Hj Hge).
        split; [eapply vm_run_trans; [exact Hrun | exact Hrun2]|]. split; [exact HS'|]. split; [exact Hch' | exact HX].
      + exists a, (pc + 1), trace, (Z.to_nat (vlen v) + 1)%nat, d'. split; [lia|]. rewrite Hnext.
        replace (pm3 pc + (vlen v + 1)) with (pm3 pc + vlen v + 1) by lia.
        split; [eapply vm_run_trans; [exact Hrun | exact Hrun2]|]. split; [exact HS'|]. split; [exact Hch' | exact HX].
    - (* RJump *)
      destruct HM as (f & Hz & (t & Ht & Hj)).
      rewrite Ht in HX. unfold goto_of in HX. destruct (Z.ltb_spec t 0) as [|Hge]; [congruence|].
      right. split; [eexists; split; [exact Hz | reflexivity]|].
      exists a, t, trace, 1%nat, d. split; [lia|]. rewrite <- (Hj Hge).
      split; [apply at_jmp; rewrite HC; exact Hz|]. split; [exact HS|]. split; [apply chg_refl | exact HX].
    - (* RGoto *)
      destruct HM as (f & Hz & Hj). cbn [jpost3] in Hj.
      unfold goto_of in HX. destruct (Z.ltb_spec (label_pos (r_labels r) l) 0) as [|Hge]; [congruence|].
      right. split; [eexists; split; [exact Hz | reflexivity]|].
      exists a, (label_pos (r_labels r) l), trace, 1%nat, d. split; [lia|]. rewrite <- (Hj Hge).
      split; [apply at_jmp; rewrite HC; exact Hz|]. split; [exact HS|]. split; [apply chg_refl | exact HX].
    - (* RIfGoto *)
      destruct x as [y0| | | |]; try contradiction. destruct y as [|c| | |]; try contradiction.
      destruct HM as (ry & t1 & t2 & tc & f & Hy & T1 & T2 & Tc & Hne12 & Hc & Z0 & Z1 & Z2 & Z3 & Hj). cbn [jpost3] in Hj.
      cbn [eval_c] in HX. cbn [vlen] in Hnext.
      pose proof (rmo_tmp_rng _ _ OK _ T1) as R1. pose proof (rmo_tmp_rng _ _ OK _ T2) as R2. pose proof (rmo_tmp_rng _ _ OK _ Tc) as Rc.
      pose proof (Hvb y0) as By. set (x := get (ra_vars a) y0) in *.
      destruct (zupd_ex d (data_start act + t1) (clampz (x + 0)) ltac:(lia)) as [d1 U1].
      assert (E1 : clampz (x + 0) = x) by (unfold clampz; lia).
      pose proof (zupd_length _ _ _ _ U1) as L1.
      destruct (zupd_ex d1 (data_start act + t2) c ltac:(lia)) as [d2 U2].
      pose proof (zupd_length _ _ _ _ U2) as L2.
      destruct (zupd_ex d2 (data_start act + tc) (if x =? c then 0 else 1) ltac:(lia)) as [d3 U3].
      assert (Rd1 : znth d2 (data_start act + t1) = Some x).
      { rewrite (znth_zupd _ _ _ _ U2). destruct (Z.eqb_spec (data_start act + t1) (data_start act + t2)); [lia|].
        rewrite (znth_zupd _ _ _ _ U1), Z.eqb_refl, E1. reflexivity. }
      assert (Rd2 : znth d2 (data_start act + t2) = Some c) by (rewrite (znth_zupd _ _ _ _ U2), Z.eqb_refl; reflexivity).
      assert (Rd3 : znth d3 (data_start act + tc) = Some (if x =? c then 0 else 1)) by (rewrite (znth_zupd _ _ _ _ U3), Z.eqb_refl; reflexivity).
      assert (Hch : chg rm base d d3 (fun _ => False)).
      { rewrite <- Hb.
        eapply chg_trans with (W1 := fun _ => False) (W2 := fun _ => False); [tauto | tauto | | exact (chg_zupd_tmp _ _ _ _ _ _ Tc U3)].
        eapply chg_trans with (W1 := fun _ => False) (W2 := fun _ => False);
          [tauto | tauto | exact (chg_zupd_tmp _ _ _ _ _ _ T1 U1) | exact (chg_zupd_tmp _ _ _ _ _ _ T2 U2)]. }
      assert (HS' : SR rm base N a d3) by (eapply SR_tmp; eauto).
      assert (Hch' : chg rm base d d3 (in_frame base N)) by (eapply chg_weaken; [|exact Hch]; tauto).
      assert (Hrun : vm_run (1 + (1 + (1 + 1))) (vm_at s (pm3 pc) d) =
                     Ok (vm_at s (if (if x =? c then 0 else 1) =? 0 then pm3 pc + 1 + 1 + 1 + f else pm3 pc + 1 + 1 + 1 + 1) d3)).
      { eapply vm_run_trans; [eapply at_add; [rewrite HC; exact Z0 | exact Hst | rewrite Hb; apply Hvar; exact Hy | exact U1]|].
        eapply vm_run_trans; [eapply at_const; [rewrite HC; exact Z1 | exact Hst | exact U2]|].
        eapply vm_run_trans; [eapply at_test; [rewrite HC; replace (pm3 pc + 1 + 1) with (pm3 pc + 2) by lia; exact Z2
                                               | exact Hst | exact Rd1 | exact Rd2 | exact U3]|].
        eapply at_jmpc; [rewrite HC; replace (pm3 pc + 1 + 1 + 1) with (pm3 pc + 3) by lia; exact Z3 | exact Hst | exact Rd3]. }
      right. split; [eexists; split; [exact Z0 | reflexivity]|].
      destruct (x =? c).
      + unfold goto_of in HX. destruct (Z.ltb_spec (label_pos (r_labels r) l) 0) as [|Hge]; [congruence|].
        exists a, (label_pos (r_labels r) l), trace, (1 + (1 + (1 + 1)))%nat, d3. split; [lia|].
        rewrite <- (Hj Hge). cbn [Z.eqb] in Hrun. replace (pm3 pc + 3 + f) with (pm3 pc + 1 + 1 + 1 + f) by lia.
        split; [exact Hrun|]. split; [exact HS'|]. split; [exact Hch' | exact HX].
      + exists a, (pc + 1), trace, (1 + (1 + (1 + 1)))%nat, d3. split; [lia|]. rewrite Hnext.
        cbn [Z.eqb] in Hrun. replace (pm3 pc + (1 + 1 + 2)) with (pm3 pc + 1 + 1 + 1 + 1) by lia.
        split; [exact Hrun|]. split; [exact HS'|]. split; [exact Hch' | exact HX].
    - (* RStop *)
      left. split; [right; reflexivity | congruence].
    - (* RHalt *)
      left. split; [left; reflexivity | congruence].
  Qed.

  (* a finished run *)
  Theorem sim_run3 : forall fuel ctx a pc steps trace s d views steps' trace',
    frame_of base C s -> SR rm base N a d ->
    run_chk rs fuel ctx k a pc steps trace = OStop views steps' trace' ->
    exists n pcf a' d',
      vm_run n (vm_at s (pm3 pc) d) = Ok (vm_at s (pm3 pcf) d') /\
      znth C (pm3 pcf) = Some IHalt /\
      SR rm base N a' d' /\ chg rm base d d' (in_frame base N) /\
      views = ctx ++ [view_of r a'] /\ (steps' <= steps + n + 1)%nat.
  Proof.
    induction fuel as [|f IH]; intros ctx a pc steps trace s d views steps' trace' HF HS Hrun; [discriminate|].
    rewrite run_chk_S in Hrun. unfold body_c in Hrun. rewrite Hk in Hrun.
    destruct (znth (r_code r) pc) as [i|] eqn:Hi; [|discriminate].
    destruct (sim_step3 _ _ _ _ _ _ _ s d _ Hi HF HS Hrun ltac:(discriminate))
      as [(Hi' & Ho)|(_ & a' & pc' & tr1 & n & d' & Hn & Hvm & HS' & Hch & Hrec)].
    - inversion Ho; subst.
      exists 0%nat, pc, a, d. split; [reflexivity|]. split.
      + pose proof (CM _ _ Hi) as HM. destruct Hi' as [->| ->]; exact HM.
      + split; [exact HS|]. split; [apply chg_refl|]. split; [reflexivity | lia].
    - destruct (IH _ _ _ _ _ s d' _ _ _ HF HS' Hrec) as (n2 & pcf & a2 & d2 & Hvm2 & Hh & HS2 & Hch2 & Hv & Hs).
      exists (n + n2)%nat, pcf, a2, d2. split; [eapply vm_run_trans; eauto|]. split; [exact Hh|]. split; [exact HS2|].
      split; [eapply chg_trans; [| |exact Hch|exact Hch2]; auto|]. split; [exact Hv | lia].
  Qed.

  (* a run that is out of fuel: the VM has executed at least as many instructions and is not done *)
  Theorem sim_prefix3 : forall fuel ctx a pc steps trace s d,
    frame_of base C s -> SR rm base N a d ->
    run_chk rs (S fuel) ctx k a pc steps trace = OFuel ->
    exists m s', (fuel <= m)%nat /\ vm_run m (vm_at s (pm3 pc) d) = Ok s' /\ isDone s' = Ok false.
  Proof.
    induction fuel as [|f IH]; intros ctx a pc steps trace s d HF HS Hrun.
    - rewrite run_chk_S in Hrun. unfold body_c in Hrun. rewrite Hk in Hrun.
      destruct (znth (r_code r) pc) as [i|] eqn:Hi; [|discriminate].
      destruct (sim_step3 _ _ _ _ _ _ _ s d _ Hi HF HS Hrun ltac:(discriminate)) as [(_ & Ho)|(NH & _)]; [discriminate|].
      exists 0%nat, (vm_at s (pm3 pc) d). split; [lia|]. split; [reflexivity|]. apply not_halt_done; [apply HF | exact NH].
    - rewrite run_chk_S in Hrun. unfold body_c in Hrun. rewrite Hk in Hrun.
      destruct (znth (r_code r) pc) as [i|] eqn:Hi; [|discriminate].
      destruct (sim_step3 _ _ _ _ _ _ _ s d _ Hi HF HS Hrun ltac:(discriminate))
        as [(_ & Ho)|(_ & a' & pc' & tr1 & n & d' & Hn & Hvm & HS' & Hch & Hrec)]; [discriminate|].
      destruct (IH _ _ _ _ _ s d' HF HS' Hrec) as (m & s' & Hm & Hvm2 & Hd).
      exists (n + m)%nat, s'. split; [lia|]. split; [eapply vm_run_trans; eauto | exact Hd].
  Qed.
End Sim3.

(* if the VM is not done after m >= n instructions, it is not done after n *)
Lemma not_done_earlier n m x s s' : (n <= m)%nat ->
  vm_run n x = Ok s -> vm_run m x = Ok s' -> isDone s' = Ok false -> isDone s = Ok false.
Proof.
  intros Hle Hn Hm Hd. replace m with (n + (m - n))%nat in Hm by lia.
  rewrite Proofs_VM_dbg.vm_run_add, Hn in Hm. cbn [bind] in Hm.
  destruct (m - n)%nat as [|j] eqn:Ej.
  - inversion Hm; subst. exact Hd.
  - rewrite vm_run_S in Hm. unfold isDone.
    destruct (znth (code (prog s)) (ip s)) as [ins|] eqn:Hz.
    + cbn [of_opt bind]. destruct (opcode_eqb (iop ins) HALT) eqn:Eh; [|reflexivity]. exfalso.
      assert (Hdone : isDone s = Ok true) by (unfold isDone; rewrite Hz; cbn [of_opt bind]; rewrite Eh; reflexivity).
      rewrite <- vm_run_S in Hm. rewrite (Proofs_VM_dbg.halted_run _ _ Hdone) in Hm. inversion Hm; subst. congruence.
    + exfalso. unfold exec1, exec1_gen in Hm. rewrite Hz in Hm. discriminate.
Qed.
