(* Properties_C12.v — the theorems that decide property C12 on the model, each stated in full and closed by
   `exact <lemma>`; the lemmas live in the Proofs_*.v files.  Nothing else belongs in this file. *)
From Coq Require Import Sorting.Sorted.
From Theo Require Import Base Regex Tokens Errors MacroExtract Grammar LR Gen_MacroGrammar Gen_Consts MacroApply SpecLex SpecMacro MacroStatements Proofs_Macro ApplyCompleteStatements CompileStatements ApplyStatements Proofs_ApplyComplete PipelineStatements Lexer Scan Parser VMModel GenModel Compile Gen_Lexer LocErrStatements Proofs_Pipeline.
Local Open Scope Z_scope.


Theorem C12_reported :
  forall ds errs us, split_usable ds = Ok (errs, us) ->
    us = filter is_usable ds /\
    errs = flat_map (fun d => if is_usable d then [] else
                                match m_rule (d_macro d) with
                                | t :: _ => [mkPerr e_macro_non_lr (tfile t) (tline t) []]
                                | [] => [] end) ds.
Proof. exact C12_reported_proof. Qed.
Print Assumptions C12_reported.

Theorem C12_others_unaffected :
  forall input defs n errs out, apply_macros input defs n = Ok (errs, out) ->
    exists errs', apply_macros input (filter usable_def defs) n = Ok (errs', out) /\
                  (forall e, In e errs' -> pe_kind e <> e_macro_non_lr) /\
                  (forall e, In e errs -> pe_kind e <> e_macro_non_lr -> In e errs').
Proof. exact C12_others_unaffected_proof. Qed.
Print Assumptions C12_others_unaffected.

Theorem C12_open_ended_bounded :
  forallb (fun pre => rejected (pre ++ [PROG_TEMP]) && rejected (pre ++ [ARGS_TEMP])) prefixes2 = true.
Proof. exact C12_open_ended_bounded_proof. Qed.
Print Assumptions C12_open_ended_bounded.

Theorem C12_trailing_sep_bounded :
  forallb (fun pre => rejected (pre ++ [PROG_TEMP; PROGSEP]) && rejected (pre ++ [ARGS_TEMP; ARGSEP])) prefixes1 = true.
Proof. exact C12_trailing_sep_bounded_proof. Qed.
Print Assumptions C12_trailing_sep_bounded.

Theorem C12_accepted_examples :
  accepted [ID_TEMP; NV_ID; INT_TEMP] = true /\
  accepted [PROG_TEMP; PROGSEP; ARGS_TEMP; NV_ID] = true /\
  accepted [IF; VALUE_TEMP; THEN; PROG_TEMP; ID; PROG_TEMP; END] = true /\
  accepted [ID_TEMP; PAREN_OPEN; ARGS_TEMP; PAREN_CLOSE] = true /\
  accepted [VALUE_TEMP; NV_ID; VALUE_TEMP] = true /\
  accepted [] = true /\
  rejected [PROG_TEMP; PROGSEP; ID] = true.
Proof. exact C12_accepted_examples_proof. Qed.
Print Assumptions C12_accepted_examples.

Theorem C12_not_prefix_free_rejected :
  forall m d parts1 parts2 extra,
    macro_ok m -> make_detector m = Ok d ->
    matches_parts m parts1 -> matches_parts m parts2 ->
    concat parts2 = concat parts1 ++ extra -> extra <> [] ->
    is_usable d = false.
Proof. exact C12_not_prefix_free_rejected_proof. Qed.
Print Assumptions C12_not_prefix_free_rejected.

Theorem C12_open_ended :
  forall m d pre p,
    macro_ok m -> make_detector m = Ok d -> m_rule m = pre ++ [p] ->
    (tk p = PROG_TEMP \/ tk p = ARGS_TEMP) ->
    is_usable d = false.
Proof. exact C12_open_ended_proof. Qed.
Print Assumptions C12_open_ended.

Theorem C12_trailing_sep :
  forall m d pre p q,
    macro_ok m -> make_detector m = Ok d -> m_rule m = pre ++ [p; q] ->
    ((tk p = PROG_TEMP /\ tk q = PROGSEP) \/ (tk p = ARGS_TEMP /\ tk q = ARGSEP)) ->
    is_usable d = false.
Proof. exact C12_trailing_sep_proof. Qed.
Print Assumptions C12_trailing_sep.

Theorem C12_compiled :
  forall files main c out macros bins m d t0 rest,
    compile files main = Ok c -> front files main out macros bins ->
    In m macros -> make_detector m = Ok d -> d_conflicts d <> [] -> m_rule m = t0 :: rest ->
    cr_ok c = false /\
    exists e, In e (cr_errors c) /\ ge_kind e = e_macro_non_lr /\ ge_file e = tfile t0 /\ ge_line e = tline t0.
Proof. exact C12_compiled_proof. Qed.
Print Assumptions C12_compiled.
