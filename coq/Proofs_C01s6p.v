(* Proofs_C01s6p.v — C01, stage 6 (any layout), part 14: from gen and abstract_source to the hypotheses of the
   dynamic part (Proofs_C01s4p.v over J6, for trees of any layout).  For a layout predicate ol and a predicate W on
   reference values such that an assigned value with ol stands on its line or is flattened to a value of W: every
   assignment whose block contains sites assigns a value of W. *)
From Coq Require Import List ZArith NArith Lia Bool.
From Theo Require Import Base Tokens Errors MacroExtract Parser VMModel VMSpec GenModel Compile RefSem RefSemChk C01Statements C01Stages C01Stages3 C01Stages4 Gen_Consts Proofs_VM_mem Proofs_VM_dbg Proofs_Gen0 Proofs_Gen Proofs_Sem Proofs_C01a Proofs_C01b Proofs_C01 Proofs_C01s2a Proofs_C01s2b Proofs_C01s2c Proofs_C01s2d Proofs_C01s2 Proofs_C01s3a Proofs_C01s3b Proofs_C01s3c Proofs_C01s3d Proofs_C01s3 Proofs_C01s4a Proofs_C01s4b Proofs_C01s4c Proofs_C01s4g Proofs_C01s4h Proofs_C01s4i Proofs_C01s4j Proofs_C01s4k Proofs_C01s4l Proofs_C01s4m Proofs_C01s4n Proofs_C01s4o Proofs_C01s4r Proofs_C01s4p Proofs_C01s6a Proofs_C01s6c Proofs_C01s6g Proofs_C01s6h Proofs_C01s6i Proofs_C01s6j Proofs_C01s6k Proofs_C01s6l Proofs_C01s6m Proofs_C01s6n Proofs_C01s6o.
Import ListNotations.
Local Open Scope Z_scope.

Lemma calls_setup6 (W : rvalue -> Prop) ol root r rs :
  (forall f l v, ol f l v = true -> on_line f l v = true \/ (forall s s' rv, flat_value v s = Some (s', rv) -> W rv)) ->
  prog4 ol root = true -> headers4 root = true -> lexable_names root = true ->
  gen true [] (Some root) = Ok r -> abstract_source (Some root) = Some rs ->
  exists RI GB FT kroot rt (pre : list (Z * Z)),
    (forall j e sz mi, FT j = Some (e, sz, mi) -> e = ri_P0 (RI j) /\ sz = ri_N (RI j) /\ mi = ri_mi (RI j)) /\
    (forall k r', nth_error rs k = Some r' -> routine_ok6 RI GB (code (gr_prog r)) FT k r') /\
    (forall k r' pc x v, nth_error rs k = Some r' -> znth (r_code r') pc = Some (RAssign x v) -> 0 < GB k pc -> W v) /\
    MapsOK rs RI (stack_maps (gr_prog r)) /\
    length rs = S kroot /\ nth_error rs kroot = Some rt /\
    znth (code (gr_prog r)) 0 = Some (IPrepare (ri_N (RI kroot)) (ri_mi (RI kroot)) 0) /\
    (forall s d, code (prog s) = code (gr_prog r) ->
       vm_run (length pre) (vm_at s 1 d) = Ok (vm_at s (ri_P0 (RI kroot)) d)).
Proof.
  intros Hol Hst Hh Hlex Hgen Habs.
  unfold gen in Hgen. apply gen_gen_inv in Hgen.
  destruct Hgen as (g3 & g4 & p & i0 & c0 & g6 & Hbody & Hpop & Hp & Hi0 & Hc0 & Hbp & Hr).
  unfold gen_body in Hbody. cbn [negb cg_neg cg_pb cg_args cfgen_now] in Hbody.
  unfold abstract_source in Habs. cbv zeta in Habs.
  match type of Habs with context [flat_stmt root ?s] => set (s0 := s) in * end.
  destruct (flat_stmt root s0) as [sF|] eqn:EF; [|discriminate].
  destruct (forallb labels_set (f_done sF ++ [finish_routine (bemit (f_cur sF) RHalt)])) eqn:Els; [|discriminate].
  inversion Habs; subst rs; clear Habs Els.
  pose proof (all_jumps_todo4 ol root g3 Hst Hbody) as AllJ.
  destruct (spine6 W ol Hol root Hst Hh Hlex _ [] [] ginit s0 g3 sF (PI6_init W s0 eq_refl eq_refl eq_refl eq_refl eq_refl) Hbody EF)
    as (FT & infos & pre & gm & sm & lmapF & HPI & HJ & HX & HFx).
  destruct HPI as [Psyms Pcur Ppos [Ploops PL0] Pjt Plast [Plen Pmaps] Pfr Pftn Pgf [Ppre Pprel] Pc1 Pc0].
  destruct HFx as (Fd & Fn & Fnm & Fpar). rewrite Pcur in Fnm, Fpar. cbn [b_name b_params] in Fnm, Fpar.
  pose proof HX as (_ & [blk Hblk] & Hmaps & Hfuncs & f & f3 & tls & Es0 & Es3 & Hfn & Hfa).
  rewrite Psyms in Es0. inversion Es0; subst f tls; clear Es0. cbn [f_name f_argnum] in Hfn, Hfa.
  set (P0r := zlen (g_code gm)) in *. set (LSr := g_labels gm) in *.
  set (regs3 := f_regs f3).
  assert (Eregs : gregs g3 = regs3) by (unfold gregs; rewrite Es3; reflexivity).
  set (kroot := length (f_done sm)).
  set (rt := finish_routine (bemit (f_cur sF) RHalt)) in *.
  (* ---- HALT / RHalt as one more block ---- *)
  destruct (L6_emit P0r FT LSr W g3 sF lmapF 0 IHalt HJ) as [J1 X1].
  set (gX := emit g3 IHalt) in *.
  assert (ECx : g_code gX = g_code g3 ++ [IHalt]) by reflexivity.
  destruct (L6_bemit P0r FT LSr W gX sF lmapF (0 + 1) RHalt J1 eq_refl I) as [J2 F2].
  { cbn [imatch6 imatch4 imatch3 imatch]. split; [reflexivity|]. rewrite ECx, zlen_snoc. replace (zlen (g_code g3) + 1 - (0 + 1) - 0) with (zlen (g_code g3)) by lia.
    apply znth_app_last. }
  set (sX := with_cur sF (bemit (f_cur sF) RHalt)) in *.
  assert (FRroot : FRok6 W (g_code gX) (g_labels gX) FT rt P0r regs3 (zlen LSr) (zlen (g_labels gX))).
  { replace regs3 with (gregs gX) by exact Eregs.
    apply (FRok6_of_J6 P0r FT LSr W gX sX lmapF rt J2 Pc1); try reflexivity.
    - intros i q Hi. change (r_params rt) with (b_params (f_cur sF)) in Hi. rewrite Fpar in Hi. destruct i; discriminate Hi.
    - change (r_params rt) with (b_params (f_cur sF)). rewrite Fpar. constructor. }
  (* ---- the end of gen ---- *)
  unfold pop_symbols, get_symbols in Hpop. rewrite Es3 in Hpop. cbn [hd_error of_opt bind] in Hpop.
  destruct (check_marks g3 (f_marks f3)) as [g1| |] eqn:Ecm; cbn [bind] in Hpop; try discriminate.
  destruct (check_marks_errs _ _ _ Ecm) as [e Eg1]. subst g1. inversion Hpop; subst g4; clear Hpop Ecm.
  cbn [upd_errs g_code g_maps g_pb g_li g_errs g_syms g_funcs g_labels g_todo g_loops g_fsname g_fsline] in *.
  rewrite Hfn in Hp. rewrite str_lookup_insert in Hp. rewrite (proj2 (str_keqb_eq name_root name_root) eq_refl) in Hp.
  inversion Hp; subst p; clear Hp. cbn [p_stack_size p_mi] in Hc0. fold regs3 in Hc0.
  set (N := zlen regs3) in *.
  assert (Emi : zlen (g_maps g3 ++ [mkSM name_root (stack_map_of regs3 0)]) - 1 = Z.of_nat kroot).
  { rewrite zlen_snoc, Hmaps, Pmaps. unfold kroot, zlen. rewrite Plen. lia. }
  rewrite ?Hfn in Hc0. fold regs3 in Hc0. rewrite Emi in Hc0.
  assert (Hz0 : znth (g_code g3) 0 = Some (IPrepare (-1) (-1) 0)) by (rewrite Hblk; apply znth_app_some; exact Pc0).
  rewrite Hz0 in Hi0. inversion Hi0; subst i0; clear Hi0. cbn [iop ic IPrepare] in Hc0.
  pose proof (znth_zupd _ _ _ _ Hc0) as Zc0. pose proof (zupd_length _ _ _ _ Hc0) as Lc0.
  unfold backpatch in Hbp. binv Hbp. rename a into g6'. rename H into Hbpl. inversion Hbp; subst g6; clear Hbp.
  cbn [emit upd_code g_code g_todo g_labels] in Hbpl.
  match type of Hbpl with backpatch_list ?g _ = _ => set (g5 := g) in * end.
  set (C5 := c0 ++ [IHalt]).
  assert (EC5 : g_code g5 = C5) by reflexivity.
  assert (EL5 : g_labels g5 = g_labels g3) by reflexivity.
  pose proof J2 as (_ & HB2 & _ & _). destruct HB2 as (_ & _ & HT2 & _).
  change (g_todo gX) with (g_todo g3) in HT2.
  destruct (backpatch_list_patch _ _ _ Hbpl (proj1 HT2)) as (BL & BM & _ & _ & BA & BB).
  rewrite EC5 in BA, BB. rewrite EL5 in BB.
  set (C6 := g_code g6') in *.
  set (prg := gr_prog r).
  assert (Ecode : code prg = C6) by (unfold prg; rewrite Hr; reflexivity).
  assert (Emaps : stack_maps prg = g_maps g3 ++ [mkSM name_root (stack_map_of regs3 0)]).
  { unfold prg. rewrite Hr. cbn [gen_result gr_prog stack_maps upd_todo g_maps]. rewrite BM.
    change (g_maps g5) with (g_maps g3 ++ [mkSM (f_name f3) (stack_map_of regs3 0)]). rewrite Hfn. reflexivity. }
  assert (Hcopy : forall q ins, 1 <= q -> znth (g_code gX) q = Some ins -> znth C5 q = Some ins).
  { intros q ins Hq Hz. rewrite ECx in Hz. unfold C5. apply znth_snoc_inv in Hz. destruct Hz as [[Hlt Hz]|[-> ->]].
    - apply znth_app_some. rewrite Zc0. destruct (Z.eqb_spec q 0); [lia | exact Hz].
    - rewrite <- Lc0. apply znth_app_last. }
  assert (BAx : forall q ins, 1 <= q -> znth (g_code gX) q = Some ins -> ~ is_jmp (iop ins) -> znth C6 q = Some ins).
  { intros q ins Hq Hz Hnj. apply BA; [apply Hcopy; assumption | right; exact Hnj]. }
  assert (BBx : forall q ins, 1 <= q -> znth (g_code gX) q = Some ins -> is_jmp (iop ins) ->
            exists tgt, znth (g_labels gX) (ia ins) = Some tgt /\ znth C6 q = Some (mkI (iop ins) (tgt - q) (ib ins) (ic ins))).
  { intros q ins Hq Hz Hj. change (g_labels gX) with (g_labels g3). apply BB; [apply Hcopy; assumption | | exact Hj].
    rewrite ECx in Hz. apply znth_snoc_inv in Hz. destruct Hz as [[Hlt Hz]|[_ ->]].
    - exact (AllJ q ins Hq Hz Hj).
    - destruct Hj as [E|E]; discriminate E. }
  assert (Z0 : znth C6 0 = Some (IPrepare N (Z.of_nat kroot) 0)).
  { apply BA; [|right; intros [E|E]; discriminate E]. unfold C5. apply znth_app_some. rewrite Zc0. reflexivity. }
  (* ---- routine information ---- *)
  set (infosAll := infos ++ [(P0r, regs3, 0, 0)]).
  set (RI := RIof infosAll).
  assert (Hkr : kroot = length infos) by (unfold kroot; symmetry; exact Plen).
  assert (RIroot : RI kroot = mkRI (RMof (map key regs3)) N P0r (Z.of_nat kroot)).
  { unfold RI. apply (RIof_nth _ _ _ _ 0 0). unfold infosAll. rewrite nth_error_app2 by lia.
    replace (kroot - length infos)%nat with 0%nat by lia. reflexivity. }
  assert (RIold : forall j P0 regs lo hi, nth_error infos j = Some (P0, regs, lo, hi) ->
            RI j = mkRI (RMof (map key regs)) (zlen regs) P0 (Z.of_nat j)).
  { intros j P0 regs lo hi Hj. unfold RI. apply (RIof_nth _ _ _ _ lo hi). unfold infosAll.
    rewrite nth_error_app1; [exact Hj|]. apply nth_error_Some. rewrite Hj. discriminate. }
  (* the finished routines, on the final tables *)
  assert (Hsnap : forall lab, lab < zlen LSr -> znth (g_labels gX) lab = znth LSr lab).
  { pose proof J2 as (_ & HB2 & _ & _). destruct HB2 as (_ & HL2 & _). exact (proj2 (jl4_snap _ _ _ _ _ _ _ _ HL2)). }
  assert (Hold : forall j r' P0 regs lo hi, nth_error (f_done sm) j = Some r' -> nth_error infos j = Some (P0, regs, lo, hi) ->
            FRok6 W (g_code gX) (g_labels gX) FT r' P0 regs lo hi /\ FT j = Some (P0, zlen regs, Z.of_nat j) /\
            znth (g_maps g3) (Z.of_nat j) = Some (mkSM (r_name r') (stack_map_of regs 0))).
  { intros j r' P0 regs lo hi Hr' Hi. destruct (Pfr _ _ _ _ _ _ Hr' Hi) as (A & B & Cc & D).
    split; [|split; [exact Cc | rewrite Hmaps; exact D]].
    eapply FRok6_stable; [exact A | | | intros jj x H; exact H].
    - exists (blk ++ [IHalt]). rewrite ECx, Hblk, app_assoc. reflexivity.
    - intros lab Hl. apply Hsnap. fold LSr in B. lia. }
  assert (Hlen : length (f_done sF ++ [rt]) = S kroot) by (rewrite app_length, Fd; cbn [length]; unfold kroot; lia).
  assert (Hnroot : nth_error (f_done sF ++ [rt]) kroot = Some rt).
  { rewrite nth_error_app2 by (rewrite Fd; unfold kroot; lia). rewrite Fd. unfold kroot. rewrite Nat.sub_diag. reflexivity. }
  assert (Hcases : forall k r', nth_error (f_done sF ++ [rt]) k = Some r' ->
            (exists P0 regs lo hi, nth_error (f_done sm) k = Some r' /\ nth_error infos k = Some (P0, regs, lo, hi)) \/
            (k = kroot /\ r' = rt)).
  { intros k r' Hk. destruct (Nat.lt_ge_cases k kroot) as [Hlt|Hge].
    - left. rewrite nth_error_app1 in Hk by (rewrite Fd; exact Hlt). rewrite Fd in Hk.
      destruct (nth_error infos k) as [[[[P0 regs] lo] hi]|] eqn:Ei; [eauto 8|].
      apply nth_error_None in Ei. lia.
    - right. assert (k = kroot).
      { assert (k < length (f_done sF ++ [rt]))%nat by (apply nth_error_Some; rewrite Hk; discriminate). lia. }
      subst k. rewrite Hnroot in Hk. inversion Hk. auto. }
  (* the ghost counts of all routines *)
  destruct (list_choice (@nil Z) (f_done sF ++ [rt])
              (fun k r' gbl => exists lmap marks L P0 regs lo hi,
                 FRfacts6 W (g_code gX) (g_labels gX) FT r' P0 regs lo hi lmap marks L gbl /\
                 RI k = mkRI (RMof (map key regs)) (zlen regs) P0 (Z.of_nat k))) as [GBL HGBL].
  { intros k r' Hk. destruct (Hcases _ _ Hk) as [(P0 & regs & lo & hi & Er & Ei)|[-> ->]].
    - destruct (Hold _ _ _ _ _ _ Er Ei) as ((lm & mk & L & gbl & FRf) & _ & _).
      exists gbl, lm, mk, L, P0, regs, lo, hi. split; [exact FRf | exact (RIold _ _ _ _ _ Ei)].
    - destruct FRroot as (lm & mk & L & gbl & FRf). exists gbl, lm, mk, L, P0r, regs3, (zlen LSr), (zlen (g_labels gX)).
      split; [exact FRf | exact RIroot]. }
  set (GB := fun k => gbf (GBL k)).
  exists RI, GB, FT, kroot, rt, pre.
  split; [|split; [|split; [|split; [|split; [exact Hlen | split; [exact Hnroot | split]]]]]].
  - (* the table of callable programs *)
    intros j e0 sz mi Hj.
    destruct (Nat.lt_ge_cases j (length infos)) as [Hlt|Hge]; [|rewrite (Pftn j Hge) in Hj; discriminate].
    destruct (nth_error infos j) as [[[[P0 regs] lo] hi]|] eqn:Ei; [|apply nth_error_None in Ei; lia].
    destruct (nth_error (f_done sm) j) as [r'|] eqn:Er; [|apply nth_error_None in Er; lia].
    destruct (Hold _ _ _ _ _ _ Er Ei) as (_ & A & _). rewrite A in Hj. inversion Hj; subst e0 sz mi.
    rewrite (RIold _ _ _ _ _ Ei). cbn [ri_P0 ri_N ri_mi]. auto.
  - (* all routines *)
    fold prg. rewrite Ecode. intros k r' Hk.
    destruct (HGBL _ _ Hk) as (lm & mk & L & P0 & regs & lo & hi & FRf & ERI).
    apply (FRok_ROK6 W (g_code gX) (g_labels gX) FT r' P0 regs lo hi lm mk L (GBL k) C6 RI GB k FRf);
      try (rewrite ERI; reflexivity); [reflexivity | exact BAx | exact BBx].
  - (* the groups with sites inside *)
    intros k r' pc x v Hk Hz Hg. destruct (HGBL _ _ Hk) as (lm & mk & L & P0 & regs & lo & hi & FRf & ERI).
    exact (FRfacts6_side W _ _ _ _ _ _ _ _ _ _ _ _ FRf pc x v Hz Hg).
  - (* stack maps *)
    fold prg. rewrite Emaps. intros k r' Hk. destruct (Hcases _ _ Hk) as [(P0 & regs & lo & hi & Er & Ei)|[-> ->]].
    + destruct (Hold _ _ _ _ _ _ Er Ei) as ((lm & mk & L & gb0 & FRf) & _ & D).
      exists regs, L. rewrite (RIold _ _ _ _ _ Ei). cbn [ri_rm ri_N ri_mi].
      split; [reflexivity|]. split; [reflexivity|]. split; [exact (frf6_rw _ _ _ _ _ _ _ _ _ _ _ _ _ FRf)|].
      split; [exact (frf6_jv _ _ _ _ _ _ _ _ _ _ _ _ _ FRf)|]. apply znth_app_some. exact D.
    + destruct FRroot as (lm & mk & L & gb0 & FRf). exists regs3, L. rewrite RIroot. cbn [ri_rm ri_N ri_mi].
      split; [reflexivity|]. split; [reflexivity|]. split; [exact (frf6_rw _ _ _ _ _ _ _ _ _ _ _ _ _ FRf)|].
      split; [exact (frf6_jv _ _ _ _ _ _ _ _ _ _ _ _ _ FRf)|].
      replace (Z.of_nat kroot) with (zlen (g_maps g3)) by (rewrite zlen_snoc in Emi; lia).
      assert (En : r_name rt = name_root) by (change (r_name rt) with (b_name (f_cur sF)); rewrite Fnm; reflexivity).
      rewrite En. apply znth_app_last.
  - fold prg. rewrite Ecode, RIroot. cbn [ri_N ri_mi]. exact Z0.
  - (* the jumps over the definitions *)
    fold prg. rewrite Ecode, RIroot. cbn [ri_P0]. intros s d HC.
    assert (PX : PreOK (g_code gX) (g_labels gX) 1 pre P0r).
    { eapply PreOK_stable; [exact Ppre | | ].
      - exists (blk ++ [IHalt]). rewrite ECx, Hblk, app_assoc. reflexivity.
      - intros lab Hin. apply Hsnap. apply Pprel in Hin. fold LSr in Hin. lia. }
    apply (prelude_run (g_code gX) (g_labels gX) C6 s d HC BBx) with (i0 := IPrepare (-1) (-1) 0); [|intros [E|E]; discriminate E|exact PX].
    rewrite ECx. apply znth_app_some. exact Hz0.
Qed.
