(* Proofs_RefHalt0.v — semantic half of C16 (second sentence) on the reference semantics:
   a routine table whose routines are "closed" structured code (sites, assignments, STOP, counted loops with
   private counters; calls only to earlier routines with the right number of arguments) halts from pc 0. *)
From Coq Require Import List ZArith NArith Lia Bool.
From Theo Require Import Base Tokens Errors MacroExtract Parser RefSem SemStatements RefHaltStatements Proofs_Sem.
Import ListNotations.
Local Open Scope Z_scope.

(* ---- small list facts ---------------------------------------------------------------------------- *)
Lemma rh_zlen_app {A} (l l' : list A) : zlen (l ++ l') = zlen l + zlen l'.
Proof. unfold zlen. rewrite app_length. lia. Qed.
Lemma rh_zlen_nonneg {A} (l : list A) : 0 <= zlen l.
Proof. unfold zlen. lia. Qed.
Lemma rh_zlen_snoc {A} (l : list A) x : zlen (l ++ [x]) = zlen l + 1.
Proof. rewrite rh_zlen_app. reflexivity. Qed.

Lemma rh_znth_range {A} (l : list A) i x : znth l i = Some x -> 0 <= i < zlen l.
Proof.
  unfold znth, zlen. destruct (i <? 0) eqn:E; [discriminate|]. intros H.
  apply Z.ltb_ge in E. assert (Hn : (Z.to_nat i < length l)%nat) by (apply nth_error_Some; congruence). lia.
Qed.

Lemma rh_znth_app_l {A} (l l' : list A) i : i < zlen l -> znth (l ++ l') i = znth l i.
Proof.
  unfold znth, zlen. intros H. destruct (i <? 0) eqn:E; [reflexivity|]. apply Z.ltb_ge in E.
  apply nth_error_app1. lia.
Qed.

Lemma rh_znth_app_last {A} (l l' : list A) x : znth (l ++ x :: l') (zlen l) = Some x.
Proof.
  unfold znth, zlen. destruct (Z.of_nat (length l) <? 0) eqn:E; [apply Z.ltb_lt in E; lia|].
  rewrite Nat2Z.id. rewrite nth_error_app2 by lia. rewrite Nat.sub_diag. reflexivity.
Qed.

Lemma rh_znth_app_some {A} (l l' : list A) i x : znth l i = Some x -> znth (l ++ l') i = Some x.
Proof. intros H. rewrite rh_znth_app_l; [exact H|]. apply rh_znth_range in H. lia. Qed.

Lemma rh_znth_neg {A} (l : list A) i : i < 0 -> znth l i = None.
Proof. unfold znth. intros H. apply Z.ltb_lt in H. rewrite H. reflexivity. Qed.

Lemma rh_getc_putc_same s i v : getc (putc s i v) i = v.
Proof.
  induction s as [|[k w] t IH]; cbn [putc getc].
  - rewrite Z.eqb_refl. reflexivity.
  - destruct (k =? i) eqn:E; cbn [getc]; rewrite E; auto.
Qed.

Lemma rh_getc_putc_other s i v j : j <> i -> getc (putc s i v) j = getc s j.
Proof.
  intros Hne. induction s as [|[k w] t IH]; cbn [putc getc].
  - destruct (i =? j) eqn:E; [apply Z.eqb_eq in E; congruence | reflexivity].
  - destruct (k =? i) eqn:E; cbn [getc].
    + apply Z.eqb_eq in E. subst k. destruct (i =? j) eqn:E2; [apply Z.eqb_eq in E2; congruence | reflexivity].
    + destruct (k =? j); auto.
Qed.

(* ---- outcomes ------------------------------------------------------------------------------------ *)
Definition fin (o : outcome) : Prop := match o with ODone _ _ _ | OStop _ _ _ => True | _ => False end.
Definition is_stop (o : outcome) : Prop := match o with OStop _ _ _ => True | _ => False end.

Lemma fin_finished o : fin o -> finished o.
Proof. destruct o; cbn; auto. Qed.
Lemma is_stop_finished o : is_stop o -> finished o.
Proof. destruct o; cbn; auto. Qed.

(* ---- values that only call routines of a table D with the right arity ----------------------------- *)
Fixpoint vokb (D : list routine) (v : rvalue) : bool :=
  match v with
  | RVar _ | RNum _ => true
  | RInc y _ | RDec y _ => vokb D y
  | RCall j args =>
      match nth_error D j with
      | Some callee => Nat.eqb (length args) (length (r_params callee))
      | None => false
      end && forallb (vokb D) args
  end.

Lemma vokb_mono D ext : forall v, vokb D v = true -> vokb (D ++ ext) v = true.
Proof.
  induction v as [y|c|y c IH|y c IH|j args IH] using rvalue_ind'; cbn [vokb]; auto.
  intros H. apply andb_true_iff in H. destruct H as [Hj Ha]. apply andb_true_iff. split.
  - destruct (nth_error D j) as [callee|] eqn:E; [|discriminate].
    rewrite nth_error_app1 by (apply nth_error_Some; congruence). rewrite E. exact Hj.
  - rewrite forallb_forall in *. rewrite Forall_forall in IH. intros x Hx. apply IH; auto.
Qed.

(* ---- closed code segments ------------------------------------------------------------------------- *)
(* closed D C T lo p q: the instructions [p, q) of code C (targets T) are a sequence of sites, assignments, STOPs
   and complete counted loops; every loop counter in it is > lo; values call only into D. *)
Inductive closed (D : list routine) (C : list rinstr) (T : list Z) : Z -> Z -> Z -> Prop :=
| cl_nil lo p : 0 <= p -> closed D C T lo p p
| cl_site lo p q l : closed D C T lo p q -> znth C q = Some (RSite l) -> closed D C T lo p (q + 1)
| cl_assign lo p q x v : closed D C T lo p q -> znth C q = Some (RAssign x v) -> vokb D v = true ->
    closed D C T lo p (q + 1)
| cl_stop lo p q : closed D C T lo p q -> znth C q = Some RStop -> closed D C T lo p (q + 1)
| cl_loop lo p q q' id v ts te :
    closed D C T lo p q -> znth C q = Some (RLoopInit id v) -> vokb D v = true -> lo < id ->
    znth C (q + 1) = Some (RLoopTest id te) -> znth T ts = Some (q + 1) ->
    closed D C T id (q + 2) q' -> znth C q' = Some (RLoopDec id ts) -> znth T te = Some (q' + 1) ->
    closed D C T lo p (q' + 1).

Lemma closed_le D C T lo p q : closed D C T lo p q -> 0 <= p <= q.
Proof. induction 1; lia. Qed.

Lemma closed_mono D C T lo p q : closed D C T lo p q ->
  forall D' C' T',
    (forall v, vokb D v = true -> vokb D' v = true) ->
    (forall i, i < q -> znth C' i = znth C i) ->
    (forall i x, 0 <= x -> znth T i = Some x -> znth T' i = Some x) ->
    closed D' C' T' lo p q.
Proof.
  induction 1 as [lo p Hp|lo p q l H IH Hq|lo p q x v H IH Hq Hv|lo p q H IH Hq
                  |lo p q q' id v ts te H IH Hq Hv Hlo Hq1 Hts Hb IHb Hq' Hte];
    intros D' C' T' HD HC HT.
  - apply cl_nil; exact Hp.
  - eapply cl_site.
    + apply IH; auto. intros i Hi. apply HC. lia.
    + rewrite HC by lia. exact Hq.
  - eapply cl_assign.
    + apply IH; auto. intros i Hi. apply HC. lia.
    + rewrite HC by lia. exact Hq.
    + auto.
  - eapply cl_stop.
    + apply IH; auto. intros i Hi. apply HC. lia.
    + rewrite HC by lia. exact Hq.
  - pose proof (closed_le _ _ _ _ _ _ Hb) as Lb. pose proof (closed_le _ _ _ _ _ _ H) as La.
    eapply cl_loop.
    + apply IH; auto. intros i Hi. apply HC. lia.
    + rewrite HC by lia. exact Hq.
    + auto.
    + exact Hlo.
    + rewrite HC by lia. exact Hq1.
    + apply HT; [lia | exact Hts].
    + apply IHb; auto. intros i Hi. apply HC. lia.
    + rewrite HC by lia. exact Hq'.
    + apply HT; [lia | exact Hte].
Qed.

(* a trailing site can be dropped from a closed segment *)
Lemma closed_drop_site D C T lo p q : closed D C T lo p q ->
  forall l, znth C (q - 1) = Some (RSite l) -> p < q -> closed D C T lo p (q - 1).
Proof.
  intros H. destruct H as [lo p Hp|lo p q l0 H Hq|lo p q x v H Hq Hv|lo p q H Hq
                           |lo p q q' id v ts te H Hq Hv Hlo Hq1 Hts Hb Hq' Hte]; intros l Hl Hlt.
  - lia.
  - replace (q + 1 - 1) with q by lia. exact H.
  - replace (q + 1 - 1) with q in Hl by lia. congruence.
  - replace (q + 1 - 1) with q in Hl by lia. congruence.
  - replace (q' + 1 - 1) with q' in Hl by lia. congruence.
Qed.

(* ================================================================================================ *)
(* Termination of closed segments                                                                     *)
(* ================================================================================================ *)
Definition keeps (lo : Z) (a a' : ract) : Prop := forall i, i <= lo -> getc (ra_cnt a') i = getc (ra_cnt a) i.

Lemma keeps_refl lo a : keeps lo a a.
Proof. intros i _. reflexivity. Qed.
Lemma keeps_trans lo a b c : keeps lo a b -> keeps lo b c -> keeps lo a c.
Proof. intros H1 H2 i Hi. rewrite H2, H1; auto. Qed.
Lemma keeps_weaken lo lo' a b : lo' <= lo -> keeps lo a b -> keeps lo' a b.
Proof. intros Hle H i Hi. apply H. lia. Qed.

Definition ev_good (res : evres) : Prop := match res with EVal _ _ _ | EStop _ _ _ => True | _ => False end.

Section Seg.
  Variable rs : list routine.
  Variable D : list routine.
  Hypothesis HD : forall j callee, nth_error D j = Some callee ->
    nth_error rs j = Some callee /\ forall ctx a st tr, exists n, fin (run rs n ctx j a 0 st tr).

  Definition ev_term (a : ract) (here : rviews) (v : rvalue) : Prop :=
    forall st tr, exists n0 res, ev_good res /\
      forall f, (n0 <= f)%nat -> eval rs (run rs f) a here v st tr = res.

  Definition args_good (base : nat) (x : option (list Z * nat * rtrace) + evres) : Prop :=
    match x with
    | inl (Some (vals, _, _)) => length vals = base
    | inr (EStop _ _ _) => True
    | _ => False
    end.

  Lemma evargs_term a here args :
    Forall (fun v => vokb D v = true -> ev_term a here v) args -> forallb (vokb D) args = true ->
    forall acc st tr, exists n0 x, args_good (length acc + length args)%nat x /\
      forall f, (n0 <= f)%nat -> evargs_of (eval rs (run rs f) a here) args acc st tr = x.
  Proof.
    induction 1 as [|v rest Hv Hrest IH]; intros Hall acc st tr.
    - exists O, (inl (Some (acc, st, tr))). split; [cbn; lia|]. intros f _. reflexivity.
    - cbn [forallb] in Hall. apply andb_true_iff in Hall. destruct Hall as [Hv1 Hall].
      destruct (Hv Hv1 st tr) as (n0 & res & Hg & Hres).
      destruct res as [z st1 tr1|vs st1 tr1| |]; try contradiction.
      + destruct (IH Hall (acc ++ [z]) st1 tr1) as (n1 & x & Hx & Hxf).
        exists (Nat.max n0 n1), x. split.
        * rewrite app_length in Hx. cbn [length] in *.
          replace (length acc + S (length rest))%nat with (length acc + 1 + length rest)%nat by lia. exact Hx.
        * intros f Hf. rewrite evargs_cons. rewrite Hres by lia. apply Hxf. lia.
      + exists n0, (inr (EStop vs st1 tr1)). split; [exact I|].
        intros f Hf. rewrite evargs_cons. rewrite Hres by lia. reflexivity.
  Qed.

  Lemma eval_term a here : forall v, vokb D v = true -> ev_term a here v.
  Proof.
    induction v as [y|c|y c IH|y c IH|j args IH] using rvalue_ind'; intros Hv st tr.
    - exists O, (EVal (get (ra_vars a) y) st tr). split; [exact I|]. intros; reflexivity.
    - exists O, (EVal c st tr). split; [exact I|]. intros; reflexivity.
    - cbn [vokb] in Hv. destruct (IH Hv st tr) as (n0 & res & Hg & Hres).
      exists n0, (match res with EVal x st1 tr1 => EVal (x + c) st1 tr1 | other => other end).
      split; [destruct res; auto|]. intros f Hf. cbn [eval]. rewrite Hres by exact Hf. destruct res; reflexivity.
    - cbn [vokb] in Hv. destruct (IH Hv st tr) as (n0 & res & Hg & Hres).
      exists n0, (match res with EVal x st1 tr1 => EVal (Z.max (x - c) 0) st1 tr1 | other => other end).
      split; [destruct res; auto|]. intros f Hf. cbn [eval]. rewrite Hres by exact Hf. destruct res; reflexivity.
    - cbn [vokb] in Hv. apply andb_true_iff in Hv. destruct Hv as [Hj Hargs].
      destruct (nth_error D j) as [callee|] eqn:Ej; [|discriminate].
      apply Nat.eqb_eq in Hj.
      destruct (HD _ _ Ej) as [Ers Hcallee].
      destruct (evargs_term a here args IH Hargs [] st tr) as (n0 & x & Hx & Hxf).
      destruct x as [[[[vals st1] tr1]|]|other]; cbn [args_good] in Hx; try contradiction.
      + cbn [length] in Hx. rewrite Nat.add_0_l in Hx.
        set (a' := mkRAct (fold_left (fun s pv => put s (fst pv) (snd pv))
                                     (combine (r_params callee) vals) []) []).
        destruct (Hcallee here a' st1 tr1) as [n1 Hn1].
        exists (Nat.max n0 n1),
          (match run rs n1 here j a' 0 st1 tr1 with
           | ODone ret st' tr' => EVal ret st' tr'
           | OStop vs st' tr' => EStop vs st' tr'
           | OFuel => EFuel
           | OBad => EBad
           end).
        split; [destruct (run rs n1 here j a' 0 st1 tr1); cbn in *; auto|].
        intros f Hf. rewrite eval_call. rewrite Hxf by lia.
        unfold call_of. rewrite Ers.
        replace (Nat.eqb (length vals) (length (r_params callee))) with true
          by (symmetry; apply Nat.eqb_eq; congruence).
        cbn [negb]. cbv zeta. fold a'.
        rewrite (run_mono rs n1 f ltac:(lia) here j a' 0 st1 tr1 (fin_finished _ Hn1)). reflexivity.
      + destruct other as [z st1 tr1|vs st1 tr1| |]; try contradiction.
        exists n0, (EStop vs st1 tr1). split; [exact I|].
        intros f Hf. rewrite eval_call. rewrite Hxf by lia. reflexivity.
  Qed.

  (* ---- one routine ------------------------------------------------------------------------------ *)
  Variable k : nat.
  Variable r : routine.
  Hypothesis Hr : nth_error rs k = Some r.
  Variable P : outcome -> Prop.
  Hypothesis P_stop : forall vs st tr, P (OStop vs st tr).
  Hypothesis P_fin : forall o, P o -> finished o.

  Definition hp (ctx : rviews) (a : ract) (pc : Z) (st : nat) (tr : rtrace) : Prop :=
    exists n, P (run rs n ctx k a pc st tr).

  Lemma run_at f ctx a pc st tr i : znth (r_code r) pc = Some i ->
    run rs (S f) ctx k a pc st tr = exec_instr rs (run rs f) r ctx k a pc st tr i.
  Proof. intros H. rewrite run_S. unfold body. rewrite Hr, H. reflexivity. Qed.

  Lemma goto_nonneg (rec : rec_t) ctx t a st tr : 0 <= t -> goto_of rec ctx k t a st tr = rec ctx k a t st tr.
  Proof. intros H. unfold goto_of. destruct (t <? 0) eqn:E; [apply Z.ltb_lt in E; lia | reflexivity]. Qed.

  Lemma hp_site ctx a pc st tr l : znth (r_code r) pc = Some (RSite l) ->
    hp ctx a (pc + 1) (S st) (tr ++ [(l, ctx ++ [view_of r a])]) -> hp ctx a pc st tr.
  Proof.
    intros Hi [n Hn]. exists (S n). rewrite (run_at _ _ _ _ _ _ _ Hi).
    cbv beta iota zeta delta [exec_instr]. exact Hn.
  Qed.

  Lemma hp_stop ctx a pc st tr : znth (r_code r) pc = Some RStop -> hp ctx a pc st tr.
  Proof.
    intros Hi. exists 1%nat. rewrite (run_at _ _ _ _ _ _ _ Hi).
    cbv beta iota zeta delta [exec_instr]. apply P_stop.
  Qed.

  Lemma hp_halt ctx a pc st tr : znth (r_code r) pc = Some RHalt -> hp ctx a pc st tr.
  Proof.
    intros Hi. exists 1%nat. rewrite (run_at _ _ _ _ _ _ _ Hi).
    cbv beta iota zeta delta [exec_instr]. apply P_stop.
  Qed.

  Lemma hp_assign ctx a pc st tr x v : znth (r_code r) pc = Some (RAssign x v) -> vokb D v = true ->
    (forall z st' tr', hp ctx (mkRAct (put (ra_vars a) x z) (ra_cnt a)) (pc + 1) st' tr') ->
    hp ctx a pc st tr.
  Proof.
    intros Hi Hv K.
    destruct (eval_term a (ctx ++ [view_of r a]) v Hv (S st) tr) as (n0 & res & Hg & Hres).
    destruct res as [z st1 tr1|vs st1 tr1| |]; try contradiction.
    - destruct (K z st1 tr1) as [n1 Hn1]. exists (S (Nat.max n0 n1)).
      rewrite (run_at _ _ _ _ _ _ _ Hi). cbv beta iota zeta delta [exec_instr].
      rewrite Hres by lia.
      rewrite (run_mono rs n1 (Nat.max n0 n1) ltac:(lia) _ _ _ _ _ _ (P_fin _ Hn1)). exact Hn1.
    - exists (S n0). rewrite (run_at _ _ _ _ _ _ _ Hi). cbv beta iota zeta delta [exec_instr].
      rewrite Hres by lia. apply P_stop.
  Qed.

  Lemma hp_init ctx a pc st tr id v : znth (r_code r) pc = Some (RLoopInit id v) -> vokb D v = true ->
    (forall z st' tr', hp ctx (mkRAct (ra_vars a) (putc (ra_cnt a) id z)) (pc + 1) st' tr') ->
    hp ctx a pc st tr.
  Proof.
    intros Hi Hv K.
    destruct (eval_term a (ctx ++ [view_of r a]) v Hv (S st) tr) as (n0 & res & Hg & Hres).
    destruct res as [z st1 tr1|vs st1 tr1| |]; try contradiction.
    - destruct (K z st1 tr1) as [n1 Hn1]. exists (S (Nat.max n0 n1)).
      rewrite (run_at _ _ _ _ _ _ _ Hi). cbv beta iota zeta delta [exec_instr].
      rewrite Hres by lia.
      rewrite (run_mono rs n1 (Nat.max n0 n1) ltac:(lia) _ _ _ _ _ _ (P_fin _ Hn1)). exact Hn1.
    - exists (S n0). rewrite (run_at _ _ _ _ _ _ _ Hi). cbv beta iota zeta delta [exec_instr].
      rewrite Hres by lia. apply P_stop.
  Qed.

  Lemma hp_test_exit ctx a pc st tr id te t : znth (r_code r) pc = Some (RLoopTest id te) ->
    getc (ra_cnt a) id = 0 -> znth (r_targets r) te = Some t -> 0 <= t ->
    hp ctx a t (S st) tr -> hp ctx a pc st tr.
  Proof.
    intros Hi Hc Ht Ht0 [n Hn]. exists (S n). rewrite (run_at _ _ _ _ _ _ _ Hi).
    cbv beta iota zeta delta [exec_instr]. rewrite Hc. cbn [Z.eqb]. rewrite Ht.
    rewrite goto_nonneg by exact Ht0. exact Hn.
  Qed.

  Lemma hp_test_enter ctx a pc st tr id te : znth (r_code r) pc = Some (RLoopTest id te) ->
    getc (ra_cnt a) id <> 0 -> hp ctx a (pc + 1) (S st) tr -> hp ctx a pc st tr.
  Proof.
    intros Hi Hc [n Hn]. exists (S n). rewrite (run_at _ _ _ _ _ _ _ Hi).
    cbv beta iota zeta delta [exec_instr].
    destruct (getc (ra_cnt a) id =? 0) eqn:E; [apply Z.eqb_eq in E; congruence|]. exact Hn.
  Qed.

  Lemma hp_dec ctx a pc st tr id ts t : znth (r_code r) pc = Some (RLoopDec id ts) ->
    znth (r_targets r) ts = Some t -> 0 <= t ->
    hp ctx (mkRAct (ra_vars a) (putc (ra_cnt a) id (Z.max (getc (ra_cnt a) id - 1) 0))) t (S st) tr ->
    hp ctx a pc st tr.
  Proof.
    intros Hi Ht Ht0 [n Hn]. exists (S n). rewrite (run_at _ _ _ _ _ _ _ Hi).
    cbv beta iota zeta delta [exec_instr]. rewrite Ht.
    rewrite goto_nonneg by exact Ht0. exact Hn.
  Qed.

  (* segment [p, q) always either ends the machine or reaches q with the counters <= lo unchanged *)
  Definition seg (lo p q : Z) : Prop :=
    forall ctx a st tr,
      (forall a' st' tr', keeps lo a a' -> hp ctx a' q st' tr') -> hp ctx a p st tr.

  Lemma loop_seg lo q q' id te ts :
    lo < id -> 0 <= q ->
    znth (r_code r) (q + 1) = Some (RLoopTest id te) -> znth (r_targets r) ts = Some (q + 1) ->
    seg id (q + 2) q' -> znth (r_code r) q' = Some (RLoopDec id ts) -> znth (r_targets r) te = Some (q' + 1) ->
    q + 2 <= q' ->
    forall ctx a0,
      (forall a' st' tr', keeps lo a0 a' -> hp ctx a' (q' + 1) st' tr') ->
      forall a st tr, keeps lo a0 a -> hp ctx a (q + 1) st tr.
  Proof.
    intros Hlo Hq0 Htest Hts Hbody Hdec Hte Hle ctx a0 K.
    (* one round from a non-zero counter c leads to counter max (c-1) 0 *)
    assert (Round : forall a st tr, keeps lo a0 a -> getc (ra_cnt a) id <> 0 ->
              (forall a1 st1 tr1, keeps lo a0 a1 ->
                 getc (ra_cnt a1) id = Z.max (getc (ra_cnt a) id - 1) 0 -> hp ctx a1 (q + 1) st1 tr1) ->
              hp ctx a (q + 1) st tr).
    { intros a st tr Ka Hc Next.
      apply (hp_test_enter _ _ _ _ _ _ _ Htest Hc).
      replace (q + 1 + 1) with (q + 2) by lia.
      apply Hbody. intros a' st' tr' Ka'.
      apply (hp_dec _ _ _ _ _ _ _ _ Hdec Hts ltac:(lia)).
      apply Next.
      - intros i Hi. cbn [ra_cnt]. rewrite rh_getc_putc_other by lia.
        rewrite (Ka' i ltac:(lia)). apply Ka. exact Hi.
      - cbn [ra_cnt]. rewrite rh_getc_putc_same. rewrite (Ka' id ltac:(lia)). reflexivity. }
    assert (Pos : forall c, 0 <= c -> forall a st tr, keeps lo a0 a -> getc (ra_cnt a) id = c ->
                    hp ctx a (q + 1) st tr).
    { intros c Hc. pattern c. apply natlike_ind; [| |exact Hc]; clear c Hc.
      - intros a st tr Ka Hc.
        apply (hp_test_exit _ _ _ _ _ _ _ _ Htest Hc Hte ltac:(lia)).
        apply K. exact Ka.
      - intros c Hc IH a st tr Ka Hca.
        apply Round; [exact Ka | lia|].
        intros a1 st1 tr1 Ka1 Hc1. apply IH; [exact Ka1|]. lia. }
    intros a st tr Ka.
    destruct (Z_lt_le_dec (getc (ra_cnt a) id) 0) as [Hneg|Hnn].
    - apply Round; [exact Ka | lia|].
      intros a1 st1 tr1 Ka1 Hc1. apply (Pos 0 ltac:(lia)); [exact Ka1|]. lia.
    - apply (Pos _ Hnn); [exact Ka | reflexivity].
  Qed.

  Lemma closed_seg lo p q : closed D (r_code r) (r_targets r) lo p q -> seg lo p q.
  Proof.
    induction 1 as [lo p Hp|lo p q l H IH Hq|lo p q x v H IH Hq Hv|lo p q H IH Hq
                    |lo p q q' id v ts te H IH Hq Hv Hlo Hq1 Hts Hb IHb Hq' Hte];
      intros ctx a st tr K.
    - apply K. apply keeps_refl.
    - apply IH. intros a' st' tr' Ka'. apply (hp_site _ _ _ _ _ _ Hq). apply K. exact Ka'.
    - apply IH. intros a' st' tr' Ka'. apply (hp_assign _ _ _ _ _ _ _ Hq Hv).
      intros z st1 tr1. apply K. intros i Hi. cbn [ra_cnt]. apply Ka'. exact Hi.
    - apply IH. intros a' st' tr' Ka'. apply (hp_stop _ _ _ _ _ Hq).
    - pose proof (closed_le _ _ _ _ _ _ H) as L1. pose proof (closed_le _ _ _ _ _ _ Hb) as L2.
      apply IH. intros a' st' tr' Ka'. apply (hp_init _ _ _ _ _ _ _ Hq Hv).
      intros z st1 tr1.
      apply (loop_seg lo q q' id te ts Hlo ltac:(lia) Hq1 Hts IHb Hq' Hte ltac:(lia) ctx a K).
      intros i Hi. cbn [ra_cnt]. rewrite rh_getc_putc_other by lia. apply Ka'. exact Hi.
  Qed.

  Lemma closed_halts lo n : closed D (r_code r) (r_targets r) lo 0 n ->
    (forall ctx a st tr, hp ctx a n st tr) -> forall ctx a st tr, hp ctx a 0 st tr.
  Proof. intros Hc Hn ctx a st tr. apply (closed_seg _ _ _ Hc). intros a' st' tr' _. apply Hn. Qed.
End Seg.

(* ---- whole tables ---------------------------------------------------------------------------------- *)
(* a good routine: closed code followed by its RReturn (definitions) or RHalt (main program) *)
Definition good_routine (D : list routine) (r : routine) : Prop :=
  exists lo n, closed D (r_code r) (r_targets r) lo 0 n /\
    (znth (r_code r) n = Some RHalt \/ exists out, znth (r_code r) n = Some (RReturn out)).

Definition table_ok (rs : list routine) : Prop :=
  forall j r, nth_error rs j = Some r -> good_routine (firstn j rs) r.

Lemma nth_error_firstn_lt {A} (l : list A) j i x : nth_error (firstn j l) i = Some x ->
  (i < j)%nat /\ nth_error l i = Some x.
Proof.
  revert j i. induction l as [|y t IH]; intros j i H.
  - rewrite firstn_nil in H. destruct i; discriminate.
  - destruct j as [|j]; [destruct i; discriminate|]. cbn [firstn] in H.
    destruct i as [|i]; cbn [nth_error] in *.
    + split; [lia | exact H].
    + apply IH in H. destruct H. split; [lia | assumption].
Qed.

Lemma table_halts rs : table_ok rs ->
  forall j r, nth_error rs j = Some r -> forall ctx a st tr, exists n, fin (run rs n ctx j a 0 st tr).
Proof.
  intros Hok j. induction j as [j IHj] using (well_founded_induction lt_wf).
  intros r Hr.
  destruct (Hok j r Hr) as (lo & n & Hc & Hend).
  assert (HD : forall i callee, nth_error (firstn j rs) i = Some callee ->
                 nth_error rs i = Some callee /\ forall ctx a st tr, exists n, fin (run rs n ctx i a 0 st tr)).
  { intros i callee Hi. apply nth_error_firstn_lt in Hi. destruct Hi as [Hlt Hi].
    split; [exact Hi|]. apply (IHj i Hlt callee Hi). }
  apply (closed_halts rs (firstn j rs) HD j r Hr fin (fun _ _ _ => I) fin_finished lo n Hc).
  intros ctx a st tr. destruct Hend as [Hh|[out Ho]].
  - apply (hp_halt rs j r Hr fin (fun _ _ _ => I)). exact Hh.
  - exists 1%nat. rewrite (run_at rs j r Hr _ _ _ _ _ _ _ Ho). exact I.
Qed.

Lemma table_main_stops rs k r : table_ok rs -> nth_error rs k = Some r ->
  (exists lo n, closed (firstn k rs) (r_code r) (r_targets r) lo 0 n /\ znth (r_code r) n = Some RHalt) ->
  forall ctx a st tr, exists n, is_stop (run rs n ctx k a 0 st tr).
Proof.
  intros Hok Hr (lo & n & Hc & Hh).
  assert (HD : forall i callee, nth_error (firstn k rs) i = Some callee ->
                 nth_error rs i = Some callee /\ forall ctx a st tr, exists n, fin (run rs n ctx i a 0 st tr)).
  { intros i callee Hi. apply nth_error_firstn_lt in Hi. destruct Hi as [Hlt Hi].
    split; [exact Hi|]. apply (table_halts rs Hok i callee Hi). }
  apply (closed_halts rs (firstn k rs) HD k r Hr is_stop (fun _ _ _ => I) is_stop_finished lo n Hc).
  intros ctx a st tr. apply (hp_halt rs k r Hr is_stop (fun _ _ _ => I)). exact Hh.
Qed.
