(* Proofs_VMCheck.v — soundness of the bytecode verifier (C03) and the call-depth bound (C16). *)
From Coq Require Import List ZArith Lia Bool.
From Theo Require Import Base VMModel VMSpec VMStatements VMCheck VMCheckStatements Proofs_VM_mem Proofs_VM_dbg.
Import ListNotations.
Local Open Scope Z_scope.

(* ================================================================================================ *)
(* 1. vectors, frames                                                                               *)
(* ================================================================================================ *)
Lemma znth_in_range {A} (l : list A) i : 0 <= i < zlen l -> exists x, znth l i = Some x.
Proof.
  unfold znth, zlen. intro H. destruct (Z.ltb_spec i 0); [lia|].
  destruct (nth_error l (Z.to_nat i)) eqn:E; [eauto|]. apply nth_error_None in E. lia.
Qed.

Lemma znth_some_range {A} (l : list A) i x : znth l i = Some x -> 0 <= i < zlen l.
Proof.
  unfold znth, zlen. destruct (Z.ltb_spec i 0) as [Hlt|Hge]; [discriminate|]. intro Hx.
  assert (Hn : nth_error l (Z.to_nat i) <> None) by congruence.
  apply nth_error_Some in Hn. lia.
Qed.

Lemma znth_nth {A} (l : list A) i x : znth l i = Some x -> 0 <= i /\ nth_error l (Z.to_nat i) = Some x.
Proof.
  unfold znth. destruct (Z.ltb_spec i 0) as [Hlt|Hge]; [discriminate|]. intro Hx. split; [lia | exact Hx].
Qed.

Lemma rd_ok d j : 0 <= j < zlen d -> exists x, rd d j = Ok x.
Proof.
  intro H. destruct (znth_in_range d j H) as [x Hx]. exists x. unfold rd. rewrite Hx. reflexivity.
Qed.

Lemma wr_ok d j v : 0 <= j < zlen d -> exists d', wr d j v = Ok d' /\ zlen d' = zlen d.
Proof.
  intro H. unfold wr, zupd. unfold zlen in H.
  destruct (Z.leb_spec 0 j); [|lia]. destruct (Z.ltb_spec j (Z.of_nat (length d))); [|lia].
  cbn [andb of_opt]. eexists. split; [reflexivity|]. unfold zlen. rewrite upd_nat_length. reflexivity.
Qed.

Lemma resize_ok d n : 0 <= n <= zlen d -> exists d', resize d n = Ok d' /\ zlen d' = n.
Proof.
  intro H. unfold resize. destruct (Z.ltb_spec n 0); [lia|]. destruct (Z.leb_spec n (zlen d)); [|lia].
  eexists. split; [reflexivity|]. unfold zlen in *. rewrite firstn_length. lia.
Qed.

Lemma zlen_app {A} (l1 l2 : list A) : zlen (l1 ++ l2) = zlen l1 + zlen l2.
Proof. unfold zlen. rewrite app_length. lia. Qed.

Lemma zlen_zrepeat {A} (x : A) n : 0 <= n -> zlen (zrepeat x (Z.to_nat n)) = n.
Proof. intro H. unfold zlen. rewrite zrepeat_length. lia. Qed.

Lemma frame_range st : forall n, tiled st n -> forall f r, In f st -> 0 <= r < seg_size f ->
  0 <= data_start f + r < n.
Proof.
  induction st as [|a rest IH]; intros n Ht f r Hin Hr; [destruct Hin|].
  apply tiled_inv in Ht. destruct Ht as (Ht & Hs & Hn).
  pose proof (tiled_nonneg _ _ Ht) as Hnn.
  destruct Hin as [Heq | Hin].
  - subst f. lia.
  - specialize (IH _ Ht f r Hin Hr). lia.
Qed.

(* ================================================================================================ *)
(* 2. what the checker establishes                                                                  *)
(* ================================================================================================ *)
Lemma annot_eqb_eq a b : annot_eqb a b = true -> a = b.
Proof.
  destruct a as [r1 f1 p1], b as [r2 f2 p2]. unfold annot_eqb. cbn [a_rid a_frame a_pending].
  intro H. apply andb_true_iff in H. destruct H as [H H3]. apply andb_true_iff in H. destruct H as [H1 H2].
  apply Z.eqb_eq in H1. apply Z.eqb_eq in H2. subst.
  destruct p1 as [x|], p2 as [y|]; cbn [opt_z_eqb] in H3; try discriminate.
  - apply Z.eqb_eq in H3. subst. reflexivity.
  - reflexivity.
Qed.

Lemma in_frame_spec r f : in_frame r f = true -> 0 <= r < f.
Proof.
  unfold in_frame. intro H. apply andb_true_iff in H. destruct H as [H1 H2].
  apply Z.leb_le in H1. apply Z.ltb_lt in H2. lia.
Qed.

Lemma ann_at_znth ann pc a : ann_at ann pc = Some a -> znth ann pc = Some (Some a).
Proof. unfold ann_at. destruct (znth ann pc) as [[a'|]|]; intro H; try discriminate. congruence. Qed.

Lemma check_from_spec p ann : forall c l pc, check_from p ann pc c l = true ->
  length c = length l /\
  forall j a i, nth_error l j = Some (Some a) -> nth_error c j = Some i ->
    instr_ok p a i = true /\
    forall pc' a', In (pc', a') (successors (pc + Z.of_nat j) a i) -> ann_at ann pc' = Some a'.
Proof.
  induction c as [|i0 c IH]; intros [|[a0|] l] pc H; cbn [check_from] in H; try discriminate.
  - split; [reflexivity|]. intros j a i Hl. destruct j; discriminate Hl.
  - apply andb_true_iff in H. destruct H as [H H3]. apply andb_true_iff in H. destruct H as [H1 H2].
    destruct (IH _ _ H3) as [Hlen Hrest]. split; [cbn [length]; congruence|].
    intros [|j] a i Hl Hc; cbn [nth_error] in Hl, Hc.
    + inversion Hl; inversion Hc; subst. replace (pc + Z.of_nat 0) with pc by lia. split; [exact H1|].
      intros pc' a' Hin. rewrite forallb_forall in H2. specialize (H2 _ Hin). cbn [fst snd] in H2.
      apply andb_true_iff in H2. destruct H2 as [_ H2].
      destruct (ann_at ann pc') as [a''|]; [|discriminate].
      apply annot_eqb_eq in H2. congruence.
    + replace (pc + Z.of_nat (S j)) with (pc + 1 + Z.of_nat j) by lia. eapply Hrest; eassumption.
  - destruct (IH _ _ H) as [Hlen Hrest]. split; [cbn [length]; congruence|].
    intros [|j] a i Hl Hc; cbn [nth_error] in Hl, Hc; [discriminate|].
    replace (pc + Z.of_nat (S j)) with (pc + 1 + Z.of_nat j) by lia. eapply Hrest; eassumption.
Qed.

Lemma check_local_meaning p ann : check_local p ann = true ->
  exists f, root_ok p = Some f /\ ann_at ann 1 = Some (mkAnn 0 f None) /\ ann_at ann 0 = None /\
    length (code p) = length ann /\
    (forall pc a i, ann_at ann pc = Some a -> znth (code p) pc = Some i ->
        instr_ok p a i = true /\
        forall pc' a', In (pc', a') (successors pc a i) -> ann_at ann pc' = Some a').
Proof.
  unfold check_local. intro H. destruct (root_ok p) as [f|]; [|discriminate]. exists f.
  destruct (ann_at ann 1) as [a1|] eqn:E1; [|discriminate].
  destruct (znth ann 0) as [[x|]|] eqn:E0; try discriminate.
  apply andb_true_iff in H. destruct H as [Ha Hc]. apply annot_eqb_eq in Ha. subst a1.
  destruct (check_from_spec _ _ _ _ _ Hc) as [Hlen Hpt].
  split; [reflexivity|]. split; [reflexivity|].
  split; [unfold ann_at; rewrite E0; reflexivity|]. split; [exact Hlen|].
  intros pc a i Ha Hi. apply ann_at_znth in Ha. apply znth_nth in Ha. destruct Ha as [Hpc Ha].
  apply znth_nth in Hi. destruct Hi as [_ Hi].
  destruct (Hpt _ _ _ Ha Hi) as [H1 H2]. split; [exact H1|]. intros pc' a' Hin. apply H2.
  replace (0 + Z.of_nat (Z.to_nat pc)) with pc by lia. exact Hin.
Qed.

Lemma C03_wf_meaning_proof : C03_wf_meaning_stmt.
Proof.
  unfold C03_wf_meaning_stmt, wf_program. intros p H.
  destruct (infer p) as [ann|] eqn:Hinf; [|discriminate].
  destruct (check_local_meaning _ _ H) as (f & Hr & H1 & _ & _ & Hpt).
  exists f, ann. repeat (split; [assumption || reflexivity|]). exact Hpt.
Qed.

(* ================================================================================================ *)
(* 3. the typing invariant                                                                          *)
(* ================================================================================================ *)
(* E caller callee : a property of every annotated EXEC (True for C03, the call order for C16) *)
Record sound (p : program) (ann : anns) (E : Z -> Z -> Prop) (f : Z) : Prop := mkSound {
  sd_root : root_ok p = Some f;
  sd_one : ann_at ann 1 = Some (mkAnn 0 f None);
  sd_zero : ann_at ann 0 = None;
  sd_code : forall pc a, ann_at ann pc = Some a -> exists i, znth (code p) pc = Some i;
  sd_ok : forall pc a i, ann_at ann pc = Some a -> znth (code p) pc = Some i ->
      instr_ok p a i = true /\
      forall pc' a', In (pc', a') (successors pc a i) -> ann_at ann pc' = Some a';
  sd_E : forall pc a i, ann_at ann pc = Some a -> znth (code p) pc = Some i -> iop i = EXEC ->
      E (a_rid a) (ia i)
}.

Lemma check_local_sound p ann (E : Z -> Z -> Prop) : check_local p ann = true ->
  (forall pc a i, ann_at ann pc = Some a -> znth (code p) pc = Some i -> iop i = EXEC -> E (a_rid a) (ia i)) ->
  exists f, sound p ann E f.
Proof.
  intros H HE. destruct (check_local_meaning _ _ H) as (f & Hr & H1 & H0 & Hlen & Hpt).
  exists f. constructor; try assumption.
  intros pc a Ha. apply ann_at_znth in Ha. apply znth_some_range in Ha.
  apply znth_in_range. unfold zlen in *. rewrite Hlen. exact Ha.
Qed.

Section Typing.
  Variable p : program.
  Variable ann : anns.
  Variable E : Z -> Z -> Prop.
  Variable f0 : Z.
  Hypothesis SD : sound p ann E f0.

  (* [callers t rest rid]: frame t runs routine rid; rest are the frames below it *)
  Inductive callers : act -> list act -> Z -> Prop :=
  | callers_root : forall t, callers t [] 0
  | callers_cons : forall t u rest rid au,
      rid <> 0 -> ann_at ann (ret_addr t) = Some au -> a_pending au = None ->
      seg_size u = a_frame au -> 0 <= ret_target t < a_frame au -> E (a_rid au) rid ->
      callers u rest (a_rid au) -> callers t (u :: rest) rid.

  Lemma callers_inv t rest rid : callers t rest rid ->
    (rest = [] /\ rid = 0) \/
    (rid <> 0 /\ exists u rest' au, rest = u :: rest' /\ ann_at ann (ret_addr t) = Some au /\
        a_pending au = None /\ seg_size u = a_frame au /\ 0 <= ret_target t < a_frame au /\
        E (a_rid au) rid /\ callers u rest' (a_rid au)).
  Proof.
    intro H. destruct H as [t | t u rest rid au H1 H2 H3 H4 H5 H6 H7].
    - left. split; reflexivity.
    - right. split; [exact H1|]. exists u, rest, au. split; [reflexivity|]. repeat (split; [assumption|]). assumption.
  Qed.

  Definition frames_typed (st : list act) (a : annot) : Prop :=
    match a_pending a with
    | None => exists t rest, st = t :: rest /\ seg_size t = a_frame a /\ callers t rest (a_rid a)
    | Some c => exists t u rest, st = t :: u :: rest /\ seg_size t = c /\ seg_size u = a_frame a /\
                  0 <= ret_target t < a_frame a /\ callers u rest (a_rid a)
    end.

  Definition maps_ok (st : list act) : Prop :=
    Forall (fun fr => map_ok p (debug_info fr) (seg_size fr) = true) st.

  Definition running (s : vm) : Prop :=
    exists a, ann_at ann (ip s) = Some a /\ frames_typed (stack s) a /\
      tiled (stack s) (zlen (data s)) /\ maps_ok (stack s).

  Definition fresh (s : vm) : Prop := ip s = 0 /\ stack s = [] /\ data s = [].

  Definition typed (s : vm) : Prop := fresh s \/ running s.

  Lemma typed_keep s s' a : ann_at ann (ip s') = Some a -> frames_typed (stack s) a ->
    tiled (stack s) (zlen (data s)) -> maps_ok (stack s) ->
    stack s' = stack s -> zlen (data s') = zlen (data s) -> typed s'.
  Proof.
    intros H1 H2 H3 H4 H5 H6. right. exists a. rewrite H5, H6. auto.
  Qed.

  Lemma step_fresh s : prog s = p -> fresh s ->
    exists s' b, exec1 s = Ok (s', b) /\ prog s' = p /\ typed s'.
  Proof.
    intros Hp (Hip & Hst & Hd).
    pose proof (sd_root _ _ _ _ SD) as Hr. unfold root_ok in Hr.
    destruct (code p) as [|i c] eqn:Hc; [discriminate|].
    destruct (iop i) eqn:Hop; try discriminate.
    destruct ((0 <=? ia i) && map_ok p (ib i) (ia i)) eqn:Hb; [|discriminate].
    inversion Hr; subst f0. apply andb_true_iff in Hb. destruct Hb as [Hge Hmap]. apply Z.leb_le in Hge.
    assert (Hi : znth (code (prog s)) (ip s) = Some i) by (rewrite Hp, Hip, Hc; reflexivity).
    unfold exec1, exec1_gen. rewrite Hi. cbn [of_opt bind]. rewrite Hop. cbv beta iota zeta.
    eexists _, _. split; [reflexivity|]. split; [exact Hp|]. right.
    exists (mkAnn 0 (ia i) None). cbn [ip stack data].
    split. { rewrite Hip. exact (sd_one _ _ _ _ SD). }
    split. { unfold frames_typed. cbn [a_pending a_frame a_rid]. eexists _, _. split; [rewrite Hst; reflexivity|].
             split; [reflexivity | apply callers_root]. }
    rewrite Hst, Hd. split.
    - cbn [app]. rewrite zlen_zrepeat by exact Hge.
      apply tiled_intro; cbn [data_start seg_size]; [exact tiled_nil | exact Hge | reflexivity].
    - constructor; [|constructor]. cbn [debug_info seg_size]. exact Hmap.
  Qed.

  Lemma tiled_retop t t' rest n : tiled (t :: rest) n -> data_start t' = data_start t ->
    seg_size t' = seg_size t -> tiled (t' :: rest) n.
  Proof.
    intros Ht H1 H2. apply tiled_inv in Ht. destruct Ht as (Ht & Hs & Hn).
    apply tiled_intro; [rewrite H1; exact Ht | rewrite H2; exact Hs | rewrite H1, H2; exact Hn].
  Qed.

  Ltac start_exec Hi Hop :=
    unfold exec1, exec1_gen; rewrite Hi; cbn [of_opt bind]; rewrite Hop; cbv beta iota zeta.

  Lemma step_running s : prog s = p -> running s ->
    exists s' b, exec1 s = Ok (s', b) /\ prog s' = p /\ typed s'.
  Proof.
    intros Hp (a & Ha & Hfr & Htl & Hmp).
    destruct (sd_code _ _ _ _ SD _ _ Ha) as [i Hi].
    destruct (sd_ok _ _ _ _ SD _ _ _ Ha Hi) as [Hok Hsucc].
    pose proof (sd_E _ _ _ _ SD _ _ _ Ha Hi) as HE.
    rewrite <- Hp in Hi.
    unfold instr_ok in Hok. unfold successors in Hsucc. unfold frames_typed in Hfr.
    destruct a as [rid F pend]. cbn [a_pending a_frame a_rid] in Hok, Hsucc, Hfr, HE.
    destruct pend as [c|].
    - (* between PREPARE_EXEC and EXEC *)
      destruct Hfr as (t & u & rest & Hst & Hsz & Hszu & Hrt & Hcl).
      assert (Hint : In t (stack s)) by (rewrite Hst; left; reflexivity).
      assert (Hinu : In u (stack s)) by (rewrite Hst; right; left; reflexivity).
      destruct (iop i) eqn:Hop; try discriminate Hok; cbv iota in Hsucc.
      + (* ARG *)
        apply andb_true_iff in Hok. destruct Hok as [H1 H2]. apply in_frame_spec in H1. apply in_frame_spec in H2.
        assert (Hr1 : 0 <= data_start u + ib i < zlen (data s)) by (apply (frame_range _ _ Htl u (ib i) Hinu); lia).
        assert (Hr2 : 0 <= data_start t + ia i < zlen (data s)) by (apply (frame_range _ _ Htl t (ia i) Hint); lia).
        destruct (rd_ok _ _ Hr1) as [x Hx]. destruct (wr_ok (data s) _ x Hr2) as (d' & Hw & Hlen).
        start_exec Hi Hop. unfold second, top. rewrite Hst. cbn [hd_error of_opt bind].
        rewrite Hx. cbn [bind]. rewrite Hw. cbn [bind].
        eexists _, _. split; [reflexivity|]. split; [exact Hp|].
        apply (typed_keep s _ (mkAnn rid F (Some c))); try assumption; try reflexivity.
        * cbn [set_data_ip ip]. apply Hsucc. left. reflexivity.
        * unfold frames_typed. cbn [a_pending a_frame a_rid]. exists t, u, rest. auto.
      + (* EXEC *)
        start_exec Hi Hop. rewrite Hst.
        eexists _, _. split; [reflexivity|]. split; [exact Hp|]. right.
        assert (Hent : ann_at ann (ia i) = Some (mkAnn (ia i) c None)) by (apply Hsucc; left; reflexivity).
        exists (mkAnn (ia i) c None). cbn [ip stack data]. split; [exact Hent|].
        split.
        { unfold frames_typed. cbn [a_pending a_frame a_rid]. eexists _, _. split; [reflexivity|].
          split; [cbn [seg_size]; exact Hsz|].
          apply (callers_cons _ u rest (ia i) (mkAnn rid F None)); cbn [ret_addr ret_target a_pending a_frame a_rid].
          - intro H0. rewrite H0 in Hent. rewrite (sd_zero _ _ _ _ SD) in Hent. discriminate.
          - apply Hsucc. right. left. reflexivity.
          - reflexivity.
          - exact Hszu.
          - exact Hrt.
          - apply HE. reflexivity.
          - exact Hcl. }
        split.
        { rewrite Hst in Htl. eapply tiled_retop; [exact Htl | reflexivity | reflexivity]. }
        { unfold maps_ok in *. rewrite Hst in Hmp. inversion Hmp as [|x l Hx Hl]; subst.
          constructor; [cbn [debug_info seg_size]; exact Hx | exact Hl]. }
    - (* ordinary code *)
      destruct Hfr as (t & rest & Hst & Hsz & Hcl).
      assert (Hint : In t (stack s)) by (rewrite Hst; left; reflexivity).
      assert (Hkeep : forall s', ann_at ann (ip s') = Some (mkAnn rid F None) -> stack s' = stack s ->
                 zlen (data s') = zlen (data s) -> typed s').
      { intros s' K1 K2 K3. apply (typed_keep s s' (mkAnn rid F None)); try assumption.
        unfold frames_typed. cbn [a_pending a_frame a_rid]. exists t, rest. auto. }
      destruct (iop i) eqn:Hop; try discriminate Hok; cbv iota in Hsucc.
      + (* POTENTIAL_BREAK *)
        start_exec Hi Hop. eexists _, _. split; [reflexivity|]. split; [exact Hp|].
        apply Hkeep; try reflexivity. cbn [set_ip ip]. apply Hsucc. left. reflexivity.
      + (* BREAK *)
        start_exec Hi Hop. eexists _, _. split; [reflexivity|]. split; [exact Hp|].
        apply Hkeep; try reflexivity. cbn [set_ip ip]. apply Hsucc. left. reflexivity.
      + (* HALT *)
        start_exec Hi Hop. eexists _, _. split; [reflexivity|]. split; [exact Hp|].
        apply Hkeep; try reflexivity. exact Ha.
      + (* ADD_CONST *)
        apply andb_true_iff in Hok. destruct Hok as [H1 H2]. apply in_frame_spec in H1. apply in_frame_spec in H2.
        assert (Hr1 : 0 <= data_start t + ib i < zlen (data s)) by (apply (frame_range _ _ Htl t (ib i) Hint); lia).
        assert (Hr2 : 0 <= data_start t + ia i < zlen (data s)) by (apply (frame_range _ _ Htl t (ia i) Hint); lia).
        destruct (rd_ok _ _ Hr1) as [x Hx].
        destruct (wr_ok (data s) _ (Z.max 0 (Z.min (x + ic i) INT_MAX)) Hr2) as (d' & Hw & Hlen).
        start_exec Hi Hop. unfold top. rewrite Hst. cbn [hd_error of_opt bind].
        rewrite Hx. cbn [bind]. rewrite add_const_now. cbn [bind]. rewrite Hw. cbn [bind].
        eexists _, _. split; [reflexivity|]. split; [exact Hp|].
        apply Hkeep; try reflexivity; try assumption. cbn [set_data_ip ip]. apply Hsucc. left. reflexivity.
      + (* JMP *)
        start_exec Hi Hop. eexists _, _. split; [reflexivity|]. split; [exact Hp|].
        apply Hkeep; try reflexivity. cbn [set_ip ip]. apply Hsucc. left. reflexivity.
      + (* JMPC *)
        apply in_frame_spec in Hok.
        assert (Hr1 : 0 <= data_start t + ib i < zlen (data s)) by (apply (frame_range _ _ Htl t (ib i) Hint); lia).
        destruct (rd_ok _ _ Hr1) as [x Hx].
        start_exec Hi Hop. unfold top. rewrite Hst. cbn [hd_error of_opt bind].
        rewrite Hx. cbn [bind].
        eexists _, _. split; [reflexivity|]. split; [exact Hp|].
        apply Hkeep; try reflexivity. cbn [set_ip ip].
        destruct (x =? 0); apply Hsucc; [left | right; left]; reflexivity.
      + (* PREPARE_EXEC *)
        apply andb_true_iff in Hok. destruct Hok as [Hok H3]. apply andb_true_iff in Hok. destruct Hok as [H1 H2].
        apply Z.leb_le in H1. apply in_frame_spec in H3.
        start_exec Hi Hop. eexists _, _. split; [reflexivity|]. split; [exact Hp|]. right.
        exists (mkAnn rid F (Some (ia i))). cbn [ip stack data].
        split; [apply Hsucc; left; reflexivity|].
        split.
        { unfold frames_typed. cbn [a_pending a_frame a_rid]. eexists _, t, rest.
          split; [rewrite Hst; reflexivity|]. cbn [seg_size ret_target]. auto. }
        split.
        { rewrite zlen_app, zlen_zrepeat by exact H1.
          apply tiled_intro; cbn [data_start seg_size]; [exact Htl | exact H1 | reflexivity]. }
        { constructor; [cbn [debug_info seg_size]; exact H2 | exact Hmp]. }
      + (* RET *)
        apply andb_true_iff in Hok. destruct Hok as [H1 H2]. apply in_frame_spec in H1.
        apply negb_true_iff in H2. apply Z.eqb_neq in H2.
        destruct (callers_inv _ _ _ Hcl) as [[_ H0] | (_ & u & rest' & au & Hrest & Hau & Hpn & Hszu & Hrt & _ & Hcl')];
          [contradiction|].
        subst rest.
        assert (Hinu : In u (stack s)) by (rewrite Hst; right; left; reflexivity).
        assert (Hr1 : 0 <= data_start t + ia i < zlen (data s)) by (apply (frame_range _ _ Htl t (ia i) Hint); lia).
        assert (Hr2 : 0 <= data_start u + ret_target t < zlen (data s)) by (apply (frame_range _ _ Htl u (ret_target t) Hinu); lia).
        destruct (rd_ok _ _ Hr1) as [x Hx]. destruct (wr_ok (data s) _ x Hr2) as (d' & Hw & Hlen).
        pose proof Htl as Htl'. rewrite Hst in Htl'. apply tiled_inv in Htl'. destruct Htl' as (Htu & Hs0 & Hn).
        pose proof (tiled_nonneg _ _ Htu) as Hnn.
        assert (Hrs : 0 <= data_start t <= zlen d') by lia.
        destruct (resize_ok d' _ Hrs) as (d'' & Hre & Hlen'').
        start_exec Hi Hop. rewrite Hst. cbv beta iota zeta.
        rewrite Hx. cbn [bind]. rewrite Hw. cbn [bind legacy_ret cfg_now]. rewrite Hre. cbn [bind].
        eexists _, _. split; [reflexivity|]. split; [exact Hp|]. right.
        exists au. cbn [ip stack data]. split; [exact Hau|].
        split.
        { unfold frames_typed. rewrite Hpn. exists u, rest'. auto. }
        split.
        { rewrite Hlen''. exact Htu. }
        { unfold maps_ok in *. rewrite Hst in Hmp. inversion Hmp; subst. assumption. }
      + (* CONST *)
        apply in_frame_spec in Hok.
        assert (Hr2 : 0 <= data_start t + ia i < zlen (data s)) by (apply (frame_range _ _ Htl t (ia i) Hint); lia).
        destruct (wr_ok (data s) _ (ib i) Hr2) as (d' & Hw & Hlen).
        start_exec Hi Hop. unfold top. rewrite Hst. cbn [hd_error of_opt bind]. rewrite Hw. cbn [bind].
        eexists _, _. split; [reflexivity|]. split; [exact Hp|].
        apply Hkeep; try reflexivity; try assumption. cbn [set_data_ip ip]. apply Hsucc. left. reflexivity.
      + (* TEST *)
        apply andb_true_iff in Hok. destruct Hok as [Hok H3]. apply andb_true_iff in Hok. destruct Hok as [H1 H2].
        apply in_frame_spec in H1. apply in_frame_spec in H2. apply in_frame_spec in H3.
        assert (Hr1 : 0 <= data_start t + ib i < zlen (data s)) by (apply (frame_range _ _ Htl t (ib i) Hint); lia).
        assert (Hr3 : 0 <= data_start t + ic i < zlen (data s)) by (apply (frame_range _ _ Htl t (ic i) Hint); lia).
        assert (Hr2 : 0 <= data_start t + ia i < zlen (data s)) by (apply (frame_range _ _ Htl t (ia i) Hint); lia).
        destruct (rd_ok _ _ Hr1) as [x Hx]. destruct (rd_ok _ _ Hr3) as [y Hy].
        destruct (wr_ok (data s) _ (if x =? y then 0 else 1) Hr2) as (d' & Hw & Hlen).
        start_exec Hi Hop. unfold top. rewrite Hst. cbn [hd_error of_opt bind].
        rewrite Hx. cbn [bind]. rewrite Hy. cbn [bind]. rewrite Hw. cbn [bind].
        eexists _, _. split; [reflexivity|]. split; [exact Hp|].
        apply Hkeep; try reflexivity; try assumption. cbn [set_data_ip ip]. apply Hsucc. left. reflexivity.
  Qed.
End Typing.

Lemma step_typed p ann E f0 (SD : sound p ann E f0) s : prog s = p -> typed p ann E s ->
  exists s' b, exec1 s = Ok (s', b) /\ prog s' = p /\ typed p ann E s'.
Proof. intros Hp [H|H]; [eapply step_fresh | eapply step_running]; eassumption. Qed.

Lemma vm_run_typed p ann E f0 (SD : sound p ann E f0) : forall k s, prog s = p -> typed p ann E s ->
  exists s', vm_run k s = Ok s' /\ prog s' = p /\ typed p ann E s'.
Proof.
  induction k as [|k IH]; intros s Hp Ht.
  - exists s. split; [reflexivity|]. split; assumption.
  - destruct (step_typed _ _ _ _ SD s Hp Ht) as (s1 & b & He & Hp1 & Ht1).
    destruct (IH s1 Hp1 Ht1) as (s' & Hr & Hp' & Ht').
    exists s'. split; [|split; assumption]. rewrite vm_run_S, He. cbn [bind fst]. exact Hr.
Qed.

Lemma typed_init p ann E : typed p ann E (init p).
Proof. left. repeat split. Qed.

Lemma vm_run_init_typed p ann E f0 (SD : sound p ann E f0) k s :
  vm_run k (init p) = Ok s -> prog s = p /\ typed p ann E s.
Proof.
  intro H. destruct (vm_run_typed _ _ _ _ SD k (init p) eq_refl (typed_init p ann E)) as (s' & Hr & Hp & Ht).
  rewrite H in Hr. inversion Hr; subst s'. split; assumption.
Qed.

Lemma wf_sound p : wf_program p = true -> exists ann f, sound p ann (fun _ _ => True) f.
Proof.
  unfold wf_program. intro H. destruct (infer p) as [ann|]; [|discriminate].
  exists ann. apply check_local_sound; [exact H|]. intros; exact I.
Qed.

Lemma C03_wf_safe_proof : C03_wf_safe_stmt.
Proof.
  unfold C03_wf_safe_stmt. intros p Hw k. destruct (wf_sound p Hw) as (ann & f & SD).
  destruct (vm_run_typed _ _ _ _ SD k (init p) eq_refl (typed_init _ _ _)) as (s & Hr & _).
  exists s. exact Hr.
Qed.

(* ---- observations ------------------------------------------------------------------------------ *)
Lemma read_vars_ok d base : forall m acc, (forall e, In e m -> 0 <= base + fst e < zlen d) ->
  exists v, read_vars d base m acc = Ok v.
Proof.
  induction m as [|[r name] m IH]; intros acc H; cbn [read_vars]; [eauto|].
  destruct (rd_ok d (base + r)) as [x Hx]; [apply (H (r, name)); left; reflexivity|].
  rewrite Hx. cbn [bind]. apply IH. intros e He. apply H. right. exact He.
Qed.

Lemma views_of_ok p s : prog s = p -> tiled (stack s) (zlen (data s)) ->
  forall l, (forall fr, In fr l -> In fr (stack s) /\ map_ok p (debug_info fr) (seg_size fr) = true) ->
  exists v, views_of s l = Ok v.
Proof.
  intros Hp Htl. induction l as [|a rest IH]; intros H; cbn [views_of]; [eauto|].
  destruct (H a (or_introl eq_refl)) as [Hin Hmap]. unfold map_ok in Hmap.
  destruct (znth (stack_maps p) (debug_info a)) as [sm|] eqn:Hsm; [|discriminate].
  unfold getActivationVariables. rewrite Hp, Hsm. cbn [of_opt bind].
  destruct IH as [more Hmore]. { intros fr Hfr. apply H. right. exact Hfr. }
  assert (Hv : exists vars, (if seg_size a <=? 0 then Ok [] else read_vars (data s) (data_start a) (smap sm) []) = Ok vars).
  { destruct (seg_size a <=? 0); [eauto|]. apply read_vars_ok. intros e He.
    rewrite forallb_forall in Hmap. specialize (Hmap e He). apply in_frame_spec in Hmap.
    apply (frame_range _ _ Htl a (fst e) Hin). exact Hmap. }
  destruct Hv as [vars Hv]. rewrite Hv. cbn [bind]. rewrite Hmore. cbn [bind]. eauto.
Qed.

Lemma typed_code p ann E f0 (SD : sound p ann E f0) s : typed p ann E s -> exists i, znth (code p) (ip s) = Some i.
Proof.
  intros [(Hip & _ & _) | (a & Ha & _)].
  - pose proof (sd_root _ _ _ _ SD) as Hr. unfold root_ok in Hr. rewrite Hip.
    destruct (code p) as [|i c]; [discriminate|]. exists i. reflexivity.
  - eapply sd_code; eassumption.
Qed.

Lemma typed_observe p ann E f0 (SD : sound p ann E f0) s : prog s = p -> typed p ann E s ->
  (exists b, isDone s = Ok b) /\ (exists v, views s = Ok v).
Proof.
  intros Hp Ht. split.
  - destruct (typed_code _ _ _ _ SD s Ht) as [i Hi]. unfold isDone. rewrite Hp, Hi. cbn [of_opt bind]. eauto.
  - unfold views. destruct Ht as [(_ & Hst & _) | (a & _ & _ & Htl & Hmp)].
    + rewrite Hst. cbn [rev views_of]. eauto.
    + apply (views_of_ok p s Hp Htl). intros fr Hfr. apply in_rev in Hfr. split; [exact Hfr|].
      unfold maps_ok in Hmp. rewrite Forall_forall in Hmp. apply Hmp. exact Hfr.
Qed.

Lemma C03_wf_observe_proof : C03_wf_observe_stmt.
Proof.
  unfold C03_wf_observe_stmt. intros p k s Hw Hr. destruct (wf_sound p Hw) as (ann & f & SD).
  destruct (vm_run_init_typed _ _ _ _ SD k s Hr) as [Hp Ht].
  eapply typed_observe; eassumption.
Qed.

(* ================================================================================================ *)
(* 4. C16 : the depth of the activation stack                                                       *)
(* ================================================================================================ *)
Definition Ecall (p : program) (r e : Z) : Prop := In e (exec_targets p) /\ (r = 0 \/ e < r).

Lemma acyclic_from_spec ann0 : forall c l, acyclic_from ann0 c l = true ->
  forall j a i, nth_error l j = Some (Some a) -> nth_error c j = Some i -> iop i = EXEC ->
    a_rid a = 0 \/ ia i < a_rid a.
Proof.
  induction c as [|i0 c IH]; intros [|[a0|] l] H j a i Hl Hc Hop;
    try (destruct j; discriminate Hc); try (destruct j; discriminate Hl).
  - cbn [acyclic_from] in H. apply andb_true_iff in H. destruct H as [H1 H2].
    destruct j as [|j]; cbn [nth_error] in Hl, Hc.
    + inversion Hl; inversion Hc; subst. rewrite Hop in H1. apply orb_true_iff in H1.
      destruct H1 as [H1|H1]; [left; apply Z.eqb_eq | right; apply Z.ltb_lt]; exact H1.
    + eapply IH; eassumption.
  - cbn [acyclic_from] in H. destruct j as [|j]; cbn [nth_error] in Hl, Hc; [discriminate|].
    eapply IH; eassumption.
Qed.

Lemma exec_targets_in p i : In i (code p) -> iop i = EXEC -> In (ia i) (exec_targets p).
Proof.
  unfold exec_targets. induction (code p) as [|h c IH]; intros Hin Hop; [destruct Hin|]. cbn [fold_right].
  destruct Hin as [Heq|Hin].
  - subst h. rewrite Hop. destruct (zmem (ia i) _) eqn:Hz; [apply zmem_in; exact Hz | left; reflexivity].
  - specialize (IH Hin Hop). destruct (iop h); try exact IH.
    destruct (zmem (ia h) _); [exact IH | right; exact IH].
Qed.

Lemma wf_acyclic_sound p : wf_program p = true -> acyclic_calls p = true ->
  exists ann f, sound p ann (Ecall p) f.
Proof.
  unfold wf_program, acyclic_calls. intros Hw Hac. destruct (infer p) as [ann|]; [|discriminate].
  exists ann. apply check_local_sound; [exact Hw|].
  intros pc a i Ha Hi Hop. split.
  - apply exec_targets_in; [eapply znth_In; exact Hi | exact Hop].
  - apply ann_at_znth in Ha. apply znth_nth in Ha. destruct Ha as [_ Ha].
    apply znth_nth in Hi. destruct Hi as [_ Hi].
    eapply acyclic_from_spec; eassumption.
Qed.

Lemma callers_chain p ann t rest rid : callers ann (Ecall p) t rest rid ->
  exists l, length l = length rest /\ NoDup l /\
    (forall x, In x l -> In x (exec_targets p) /\ rid <> 0 /\ rid <= x).
Proof.
  induction 1 as [t | t u rest rid au Hne Hau Hpn Hsz Hrt [Hin Hlt] Hcl IH].
  - exists []. split; [reflexivity|]. split; [constructor|]. intros x [].
  - destruct IH as (l & Hlen & Hnd & Hall). exists (rid :: l).
    split; [cbn [length]; congruence|].
    assert (Hlow : forall x, In x l -> rid < x).
    { intros x Hx. destruct (Hall x Hx) as (_ & Hn0 & Hle). destruct Hlt as [H0|Hlt]; [contradiction | lia]. }
    split.
    + constructor; [|exact Hnd]. intro Hx. apply Hlow in Hx. lia.
    + intros x [Hx|Hx].
      * subst x. split; [exact Hin|]. split; [exact Hne | lia].
      * destruct (Hall x Hx) as (Hx1 & _ & _). specialize (Hlow x Hx).
        split; [exact Hx1|]. split; [exact Hne | lia].
Qed.

(* a pending point is followed, through ARG instructions, by an annotated EXEC of the same routine *)
Lemma pending_exec p ann E f0 (SD : sound p ann E f0) : forall n pc a c,
  ann_at ann pc = Some a -> a_pending a = Some c -> (Z.to_nat (zlen (code p) - pc) <= n)%nat ->
  exists pc' i, ann_at ann pc' = Some a /\ znth (code p) pc' = Some i /\ iop i = EXEC.
Proof.
  induction n as [|n IH]; intros pc a c Ha Hpn Hn;
    destruct (sd_code _ _ _ _ SD _ _ Ha) as [i Hi]; pose proof (znth_some_range _ _ _ Hi) as Hrg.
  - lia.
  - destruct (sd_ok _ _ _ _ SD _ _ _ Ha Hi) as [Hok Hsucc].
    unfold instr_ok in Hok. rewrite Hpn in Hok. destruct (iop i) eqn:Hop; try discriminate Hok.
    + apply (IH (pc + 1) a c); [|exact Hpn | lia].
      apply Hsucc. unfold successors. rewrite Hop. left. reflexivity.
    + exists pc, i. auto.
Qed.

Lemma typed_depth p ann f0 (SD : sound p ann (Ecall p) f0) s : typed p ann (Ecall p) s ->
  zlen (stack s) <= zlen (exec_targets p) + 1.
Proof.
  intros [(_ & Hst & _) | (a & Ha & Hfr & _ & _)].
  - rewrite Hst. unfold zlen. cbn [length]. lia.
  - unfold frames_typed in Hfr. destruct (a_pending a) as [c|] eqn:Hpn.
    + destruct Hfr as (t & u & rest & Hst & _ & _ & _ & Hcl).
      destruct (pending_exec _ _ _ _ SD _ _ _ _ Ha Hpn (le_n _)) as (pc' & i & Ha' & Hi & Hop).
      destruct (sd_E _ _ _ _ SD _ _ _ Ha' Hi Hop) as [Hin Hlt].
      destruct (callers_chain _ _ _ _ _ Hcl) as (l & Hlen & Hnd & Hall).
      assert (Hnd' : NoDup (ia i :: l)).
      { constructor; [|exact Hnd]. intro Hx. destruct (Hall _ Hx) as (_ & Hn0 & Hle).
        destruct Hlt as [H0|Hlt]; [contradiction | lia]. }
      assert (Hincl : incl (ia i :: l) (exec_targets p)).
      { intros x [Hx|Hx]; [subst; exact Hin | apply Hall; exact Hx]. }
      pose proof (NoDup_incl_length Hnd' Hincl) as Hle. cbn [length] in Hle.
      rewrite Hst. unfold zlen. cbn [length]. lia.
    + destruct Hfr as (t & rest & Hst & _ & Hcl).
      destruct (callers_chain _ _ _ _ _ Hcl) as (l & Hlen & Hnd & Hall).
      assert (Hincl : incl l (exec_targets p)) by (intros x Hx; apply Hall; exact Hx).
      pose proof (NoDup_incl_length Hnd Hincl) as Hle.
      rewrite Hst. unfold zlen. cbn [length]. lia.
Qed.

Lemma C16_depth_proof : C16_depth_stmt.
Proof.
  unfold C16_depth_stmt. intros p k s Hw Hac Hr.
  destruct (wf_acyclic_sound p Hw Hac) as (ann & f & SD).
  destruct (vm_run_init_typed _ _ _ _ SD k s Hr) as [Hp Ht].
  eapply typed_depth; eassumption.
Qed.

(* ================================================================================================ *)
(* 5. C03 under debugger histories                                                                  *)
(* ================================================================================================ *)
(* the converse of C05_exec_core: a step of the stripped machine is a step of the debugged one *)
Lemma exec1_unstrip s x b' : exec1 (strip s) = Ok (x, b') ->
  exists s' b, exec1 s = Ok (s', b) /\ strip s' = x.
Proof.
  unfold exec1, exec1_gen. cbn [strip prog ip passive_prog set_code code]. rewrite znth_map.
  destruct (znth (code (prog s)) (ip s)) as [ins|] eqn:E; cbn [of_opt bind option_map]; [|discriminate].
  destruct ins as [o a b0 c]. unfold passive. cbn [iop ia ib ic].
  destruct o; cbn [opcode_eqb set_op iop ia ib ic];
    unfold top, second, rd, wr, add_const, resize, bind, of_opt;
    cbn [legacy_ret legacy_add cfg_now strip stack data prog ip stepping enabled];
    intro H; break_match_hyp H; inversion H; subst; eexists _, _; (split; reflexivity).
Qed.

Lemma strip_prog p s : rel p s -> prog (strip s) = p.
Proof.
  intro R. cbn [strip prog]. unfold passive_prog. rewrite (rel_code _ _ R).
  apply set_code_eq; [apply (rel_maps _ _ R) | apply (rel_pb _ _ R) | apply (rel_li _ _ R)].
Qed.

Lemma isDone_unstrip s : (exists b, isDone (strip s) = Ok b) -> exists b, isDone s = Ok b.
Proof.
  unfold isDone. cbn [strip prog ip passive_prog set_code code]. rewrite znth_map.
  destruct (znth (code (prog s)) (ip s)) as [ins|]; cbn [option_map of_opt bind]; intros [b H]; [eauto | discriminate].
Qed.

Section Hist.
  Variable p : program.
  Variable ann : anns.
  Variable f0 : Z.
  Hypothesis HT : tables_ok p = true.
  Hypothesis SD : sound p ann (fun _ _ => True) f0.

  Let T : tables p := tables_ok_unpack p HT.
  Let ty := typed p ann (fun _ _ => True).

  Definition hinv (s : vm) : Prop := rel p s /\ ty (strip s).

  Lemma exec1_hist s : hinv s -> exists s' b, exec1 s = Ok (s', b) /\ hinv s'.
  Proof.
    intros [R Ht].
    destruct (step_typed _ _ _ _ SD (strip s) (strip_prog p s R) Ht) as (x & b' & He & _ & Hx).
    destruct (exec1_unstrip _ _ _ He) as (s' & b & He' & Hs). exists s', b. split; [exact He'|].
    split.
    - exact (rel_api_step p T 0%nat s ASingle s' b R He').
    - unfold ty. rewrite Hs. exact Hx.
  Qed.

  Lemma execute_hist : forall fuel s, hinv s ->
    execute fuel s = Fuel \/ exists s', execute fuel s = Ok s' /\ hinv s'.
  Proof.
    induction fuel as [|fuel IH]; intros s Hs; [left; reflexivity|].
    destruct (exec1_hist s Hs) as (s1 & b & He & Hs1). rewrite execute_S, He. cbn [bind].
    destruct b; [right; exists s1; split; [reflexivity | exact Hs1] | apply IH; exact Hs1].
  Qed.

  Lemma debug_op_hist fuel s c s' r : hinv s -> is_debug_op c = true ->
    api_step fuel s c = Ok (s', r) -> hinv s'.
  Proof.
    intros [R Ht] Hd H. split.
    - exact (rel_api_step p T fuel s c s' r R H).
    - unfold ty. rewrite (C05_ops_core_proof p s c fuel s' r HT R Hd H). exact Ht.
  Qed.

  Lemma api_step_hist fuel s c : hinv s ->
    api_step fuel s c = Fuel \/ exists s' r, api_step fuel s c = Ok (s', r) /\ hinv s'.
  Proof.
    intros Hs. pose proof Hs as [R Ht]. destruct c as [f l v| |m| | |].
    - right. destruct (C06_enable_proof p s f l v HT R) as (s' & r & H & _).
      exists s', r. split; [exact H|]. eapply (debug_op_hist fuel s (ASetBP f l v)); [exact Hs | reflexivity | exact H].
    - right. assert (H : api_step fuel s AClear = Ok (mkVM (stepping s) (ip s) p (data s) (stack s) [], true)).
      { cbn [api_step]. rewrite (clearBreakpoints_rel p T s R). reflexivity. }
      eexists _, _. split; [exact H|]. eapply (debug_op_hist fuel s AClear); [exact Hs | reflexivity | exact H].
    - right. eexists _, _. split; [reflexivity|].
      eapply (debug_op_hist fuel s (AStepping m)); [exact Hs | reflexivity | reflexivity].
    - right. assert (H : api_step fuel s AReset = Ok (init p, true)).
      { cbn [api_step]. rewrite (reset_rel p T s R). reflexivity. }
      eexists _, _. split; [exact H|]. split.
      + exact (rel_api_step p T fuel s AReset _ _ R H).
      + left. repeat split.
    - cbn [api_step]. destruct (execute_hist fuel s Hs) as [H | (s' & H & Hs')]; rewrite H; cbn [bind].
      + left. reflexivity.
      + right. eexists _, _. split; [reflexivity | exact Hs'].
    - right. cbn [api_step]. apply exec1_hist. exact Hs.
  Qed.

  Lemma run_hist_hist fuel : forall h s, hinv s ->
    run_hist fuel h s = Fuel \/ exists s', run_hist fuel h s = Ok s' /\ hinv s'.
  Proof.
    induction h as [|c rest IH]; intros s Hs; cbn [run_hist].
    - right. exists s. split; [reflexivity | exact Hs].
    - destruct (api_step_hist fuel s c Hs) as [H | (s1 & r & H & Hs1)]; rewrite H; cbn [bind fst].
      + left. reflexivity.
      + apply IH. exact Hs1.
  Qed.

  Lemma hinv_observe s : hinv s -> (exists b, isDone s = Ok b) /\ (exists v, views s = Ok v).
  Proof.
    intros [R Ht]. destruct (typed_observe _ _ _ _ SD (strip s) (strip_prog p s R) Ht) as [Hd Hv].
    split; [apply isDone_unstrip; exact Hd | rewrite <- views_strip; exact Hv].
  Qed.
End Hist.

Lemma C03_wf_safe_hist_proof : C03_wf_safe_hist_stmt.
Proof.
  unfold C03_wf_safe_hist_stmt. intros p h fuel Hw HT NB.
  destruct (wf_sound p Hw) as (ann & f & SD).
  assert (H0 : hinv p ann (init p)).
  { split; [apply rel_init; exact NB|]. left. repeat split. }
  destruct (run_hist_hist p ann f HT SD fuel h (init p) H0) as [H | (s & H & Hs)]; [left; exact H|].
  right. exists s. split; [exact H|]. eapply hinv_observe; eassumption.
Qed.

Example wf_nonvacuous : exists p, wf_program p = true /\ acyclic_calls p = true /\ exec_targets p <> [].
Proof.
  exists demo_prog. split; [vm_compute; reflexivity|]. split; [vm_compute; reflexivity|].
  vm_compute. discriminate.
Qed.

Print Assumptions C03_wf_meaning_proof.
Print Assumptions C03_wf_safe_proof.
Print Assumptions C03_wf_observe_proof.
Print Assumptions C03_wf_safe_hist_proof.
Print Assumptions C16_depth_proof.
Print Assumptions wf_nonvacuous.
