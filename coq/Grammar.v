(* Grammar.v — model of Compiler/src/ParserGenerator/grammar.cpp (+ SemanticGrammar::add of grammar.hpp):
   symbols with the C++ order, the grammar record, FIRST sets by the fixpoint loop of
   calculateFirstSets (including the entries std::map::operator[] creates on the way), first(). *)
From Theo Require Import Base.
Local Open Scope N_scope.

Inductive sym := Eps | Tm (i : N) | Nt (i : N).
Definition sym_type (s : sym) : N := match s with Eps => 0 | Tm _ => 1 | Nt _ => 2 end.
Definition sym_index (s : sym) : N := match s with Eps => 0 | Tm i => i | Nt i => i end.
(* grammar.cpp operator< *)
Definition sym_ltb (a b : sym) : bool :=
  if sym_type a <? sym_type b then true
  else if sym_type b <? sym_type a then false
  else sym_index a <? sym_index b.
Definition sym_eqb (a b : sym) : bool := (sym_type a =? sym_type b) && (sym_index a =? sym_index b).

Definition alternative := list sym.
Definition fsets := list (sym * list sym).      (* std::map<Symbol, std::set<Symbol>> *)

Record grammar := mkG {
  total_nt : N;
  right_sides : list (sym * list alternative);  (* std::map<Symbol, vector<Alternative>> *)
  first_sets : fsets;
  max_term : N
}.
Definition empty_grammar : grammar := mkG 0 [] [] 0.

Definition create_nt (g : grammar) : grammar * sym :=
  (mkG (total_nt g + 1) (right_sides g) (first_sets g) (max_term g), Nt (total_nt g)).

Definition rs_get (g : grammar) (s : sym) : list alternative :=
  match alookup sym_ltb (right_sides g) s with Some l => l | None => [] end.

(* SemanticGrammar::add (the action is kept beside the grammar, keyed by (lhs, alternative index)) *)
Definition add_rule (g : grammar) (lhs : sym) (rhs : alternative) : grammar :=
  match lhs with
  | Nt _ =>
      let rhs' := filter (fun s => negb (sym_eqb s Eps)) rhs in
      mkG (total_nt g) (ainsert sym_ltb (right_sides g) lhs (rs_get g lhs ++ [rhs'])) (first_sets g) (max_term g)
  | _ => g
  end.

(* raw push_back used by elements(): no epsilon erasure *)
Definition push_alt (g : grammar) (lhs : sym) (rhs : alternative) : grammar :=
  mkG (total_nt g) (ainsert sym_ltb (right_sides g) lhs (rs_get g lhs ++ [rhs])) (first_sets g) (max_term g).

(* ---- FIRST -------------------------------------------------------------------------------------- *)
Definition fs_contains (f : fsets) (s : sym) : bool :=
  match alookup sym_ltb f s with Some _ => true | None => false end.
Definition fs_get (f : fsets) (s : sym) : list sym :=
  match alookup sym_ltb f s with Some l => l | None => [] end.
(* first_sets[s] : creates an empty entry when absent *)
Definition fs_touch (f : fsets) (s : sym) : fsets :=
  if fs_contains f s then f else ainsert sym_ltb f s [].
Definition fs_add (f : fsets) (s x : sym) : fsets :=
  ainsert sym_ltb f s (sinsert sym_ltb (fs_get f s) x).
Definition is_tm (s : sym) : bool := match s with Tm _ => true | _ => false end.
(* add_terminals(to = first_sets[left], from) *)
Definition add_terminals (f : fsets) (left : sym) (from : list sym) : fsets :=
  fold_left (fun f x => if is_tm x then fs_add f left x else f) from f.

Record fstate := mkFS { fs_sets : fsets; fs_max : N; fs_changed : bool }.

(* first half of the loop body, for one alternative of `left` *)
Definition phase1_alt (left : sym) (st : fstate) (alt : alternative) : fstate :=
  let st1 :=
    match alt with
    | [] =>
        if negb (fs_contains (fs_sets st) left) then
          mkFS (ainsert sym_ltb (fs_sets st) left [Eps]) (fs_max st) true
        else if negb (smem sym_ltb (fs_get (fs_sets st) left) Eps) then
          mkFS (fs_add (fs_sets st) left Eps) (fs_max st) true
        else st
    | _ => st
    end in
  fold_left (fun st s =>
               match s with
               | Tm i =>
                   let mx := N.max i (fs_max st) in
                   if fs_contains (fs_sets st) s then mkFS (fs_sets st) mx (fs_changed st)
                   else mkFS (ainsert sym_ltb (fs_sets st) s [s]) mx true
               | Nt _ => mkFS (fs_touch (fs_sets st) s) (fs_max st) (fs_changed st)
               | Eps => st
               end) alt st1.

(* second half, for one alternative: walk the symbols until one cannot derive epsilon *)
Fixpoint phase2_syms (left : sym) (f : fsets) (ch : bool) (alt : alternative) : fsets * bool * bool :=
  match alt with
  | [] => (f, ch, true)       (* all_contain_epsilons *)
  | s :: rest =>
      let before := length (fs_get f left) in
      let f1 := fs_touch f s in
      let sset := fs_get f1 s in
      let f2 := add_terminals f1 left sset in
      let ch' := if Nat.ltb before (length (fs_get f2 left)) then true else ch in
      if smem sym_ltb (fs_get f2 s) Eps then phase2_syms left f2 ch' rest
      else (f2, ch', false)
  end.

Definition phase2_alt (left : sym) (st : fstate) (alt : alternative) : fstate :=
  let '(f, ch, all_eps) := phase2_syms left (fs_sets st) (fs_changed st) alt in
  if all_eps && negb (smem sym_ltb (fs_get f left) Eps)
  then mkFS (fs_add f left Eps) (fs_max st) true
  else mkFS f (fs_max st) ch.

Definition first_round (rs : list (sym * list alternative)) (st : fstate) : fstate :=
  let st1 := fold_left (fun st rule => fold_left (phase1_alt (fst rule)) (snd rule) st) rs st in
  fold_left (fun st rule =>
               let st' := mkFS (fs_touch (fs_sets st) (fst rule)) (fs_max st) (fs_changed st) in
               fold_left (phase2_alt (fst rule)) (snd rule) st') rs st1.

Fixpoint first_loop (fuel : nat) (rs : list (sym * list alternative)) (st : fstate) : result fstate :=
  match fuel with
  | O => Fuel
  | S f =>
      let st' := first_round rs (mkFS (fs_sets st) (fs_max st) false) in
      if fs_changed st' then first_loop f rs st' else Ok st'
  end.

Definition count_syms (rs : list (sym * list alternative)) : nat :=
  fold_left (fun n rule => fold_left (fun n alt => n + length alt + 1)%nat (snd rule) (n + 1)%nat) rs 2%nat.

(* Grammar::calculateFirstSets; the fuel (symbols+1)^2 + 2 bounds the number of productive rounds *)
Definition calculate_first_sets (g : grammar) : result grammar :=
  let n := count_syms (right_sides g) in
  let f0 := if fs_contains (first_sets g) Eps then first_sets g else ainsert sym_ltb (first_sets g) Eps [] in
  do st <- first_loop (n * n + 2) (right_sides g) (mkFS f0 0 true);
  Ok (mkG (total_nt g) (right_sides g) (fs_sets st) (fs_max st)).

(* Grammar::first(string) *)
Fixpoint first_of (f : fsets) (str : list sym) (acc : list sym) : list sym :=
  match str with
  | [] => sinsert sym_ltb acc Eps
  | s :: rest =>
      let acc' := fold_left (fun a x => if is_tm x then sinsert sym_ltb a x else a) (fs_get f s) acc in
      if smem sym_ltb (fs_get f s) Eps then first_of f rest acc' else acc'
  end.
Definition first (g : grammar) (str : list sym) : list sym := first_of (first_sets g) str [].
