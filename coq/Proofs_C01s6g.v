(* Proofs_C01s6g.v — C01, stage 6 (any layout), part 2: the STATIC part, components of the joint invariant.
   As Proofs_C01s4g.v, with sites inside the code of values.  The reference code gets an RSite the moment the value
   node is visited (in front of the statement's instruction), the VM code gets its POTENTIAL_BREAK in the middle of
   the statement's block.  gbl records, for every position pc of the reference code (and for the next free one), how
   many such "ghost" sites immediately precede pc; the instruction that closes the group is matched (imatch6)
   against the whole block, which starts where the first ghost has its position.  Jump targets and labels are never
   inside a group (JG).  The label invariant JL4 of stage 4 is used as it is.
   The whole static part is parametric in a predicate W on reference values: an assignment whose block contains
   sites assigns a value of W (side6).  W = everything for the finished runs (no condition), W = the values without
   calls for the step accounting (Proofs_C01s6r.v, Proofs_C01s6q.v). *)
From Coq Require Import List ZArith NArith Lia Bool.
From Theo Require Import Base Tokens Errors MacroExtract Parser VMModel VMSpec GenModel Compile RefSem RefSemChk C01Statements C01Stages Gen_Consts Proofs_VM_mem Proofs_VM_dbg Proofs_Gen0 Proofs_Gen Proofs_Sem Proofs_C01a Proofs_C01b Proofs_C01 Proofs_C01s2a Proofs_C01s2b Proofs_C01s2 Proofs_C01s3a Proofs_C01s3b Proofs_C01s3c Proofs_C01s4a Proofs_C01s4b Proofs_C01s4g Proofs_C01s6a.
Import ListNotations.
Local Open Scope Z_scope.

(* the ghost counts of a reference code: what is recorded about position pc *)
Definition gb_ok (P : Z -> Z -> rinstr -> Prop) (rcode : list rinstr) (gbl : list Z) : Prop :=
  zlen gbl = zlen rcode + 1 /\ znth gbl 0 = Some 0 /\
  forall pc i g g', znth rcode pc = Some i -> znth gbl pc = Some g -> znth gbl (pc + 1) = Some g' ->
    0 <= g /\ ((g' = g + 1 /\ exists l, i = RSite l) \/ (g' = 0 /\ P (pc - g) g i)).

(* the g positions in front of pc hold sites: the group starts g block positions earlier *)
Lemma gb_back P rcode gbl : gb_ok P rcode gbl ->
  forall n g, znth gbl (Z.of_nat n) = Some g ->
    0 <= g <= Z.of_nat n /\ boff4 rcode (Z.to_nat (Z.of_nat n - g)) + g = boff4 rcode n.
Proof.
  intros (HL & H0 & HC). induction n as [|n IH]; intros g Hg.
  - change (Z.of_nat 0) with 0 in *. rewrite H0 in Hg. inversion Hg; subst g. cbn. lia.
  - rewrite Nat2Z.inj_succ in Hg. unfold Z.succ in Hg.
    pose proof (znth_some_range _ _ _ Hg) as Rg.
    destruct (znth_in_range gbl (Z.of_nat n)) as [g0 Hg0]; [lia|].
    destruct (znth_in_range rcode (Z.of_nat n)) as [i Hi]; [lia|].
    destruct (IH _ Hg0) as [R0 B0].
    destruct (HC _ _ _ _ Hi Hg0 Hg) as (_ & [(-> & l & ->)|(-> & _)]).
    + rewrite Nat2Z.inj_succ. unfold Z.succ. split; [lia|].
      replace (Z.of_nat n + 1 - (g0 + 1)) with (Z.of_nat n - g0) by lia.
      rewrite (boff4_S rcode n (RSite l)); [cbn [blen4 blen3 blen]; lia|].
      apply znth_nth_error in Hi. rewrite Nat2Z.id in Hi. exact Hi.
    + rewrite Nat2Z.inj_succ. unfold Z.succ. split; [lia|]. replace (Z.to_nat (Z.of_nat n + 1 - 0)) with (S n) by lia. lia.
Qed.

Lemma gb_pm P0 P rcode gbl pc g : gb_ok P rcode gbl -> znth gbl pc = Some g ->
  0 <= g <= pc /\ pm_of4 P0 rcode (pc - g) + g = pm_of4 P0 rcode pc.
Proof.
  intros H Hg. pose proof (znth_some_range _ _ _ Hg) as R.
  destruct (gb_back P rcode gbl H (Z.to_nat pc) g) as [A B]; [rewrite Z2Nat.id by lia; exact Hg|].
  rewrite Z2Nat.id in A, B by lia. split; [exact A|]. unfold pm_of4. lia.
Qed.

Lemma gb_ok_weaken (P Q : Z -> Z -> rinstr -> Prop) rcode gbl :
  (forall pc g i, znth rcode (pc + g) = Some i -> P pc g i -> Q pc g i) -> gb_ok P rcode gbl -> gb_ok Q rcode gbl.
Proof.
  intros HPQ (HL & H0 & HC). split; [exact HL|]. split; [exact H0|].
  intros pc i g g' Hi Hg Hg'. destruct (HC _ _ _ _ Hi Hg Hg') as (A & [B|(B1 & B2)]); split; auto.
  right. split; [exact B1|]. apply HPQ; [replace (pc - g + g) with pc by lia; exact Hi | exact B2].
Qed.

(* the side condition of a group with sites inside: the value of an assignment whose code contains sites is one of
   the values W (all values, for the finished runs; the values without calls, for the step accounting) *)
Definition side6 (W : rvalue -> Prop) (g : Z) (i : rinstr) : Prop :=
  match i with RAssign _ v => 0 < g -> W v | _ => True end.

Lemma side6_0 W i : side6 W 0 i.
Proof. destruct i; cbn [side6]; auto. intros H; lia. Qed.

Section Static6.
  Variable P0 : Z.
  Variable FT : ftab.
  Variable LS : list Z.
  Variable W : rvalue -> Prop.

  Definition JC6 (code : list instr) (ks : list (str * bool)) (marks : list (str * Z)) (todo lmap : list Z)
             (rcode : list rinstr) (gbl : list Z) (p gh : Z) : Prop :=
    gb_ok (fun pc g i => imatch6 (RMof ks) code FT (jpre3 lmap marks todo) (pm_of4 P0 rcode pc) g i /\ side6 W g i) rcode gbl /\
    znth gbl (zlen rcode) = Some gh /\
    zlen code = P0 + boff4 rcode (length rcode) + p /\
    (p = 0 -> code_last_pb code = rlast_site rcode).

  (* targets and labels point to positions that are not inside a group *)
  Definition JG (gbl : list Z) (targets : list Z) (blabels : list (str * Z)) : Prop :=
    (forall e t, znth targets e = Some t -> 0 <= t -> znth gbl t = Some 0) /\
    (forall nm, 0 <= label_pos blabels nm -> znth gbl (label_pos blabels nm) = Some 0).

  Lemma JC6_mono code ks marks todo lmap rcode gbl p gh code' ks' marks' todo' lmap' p' :
    JC6 code ks marks todo lmap rcode gbl p gh -> 0 <= p ->
    (exists blk, code' = code ++ blk) -> kext ks ks' -> mle marks marks' -> incl todo todo' -> (exists m, lmap' = lmap ++ m) ->
    zlen code' = P0 + boff4 rcode (length rcode) + p' ->
    JC6 code' ks' marks' todo' lmap' rcode gbl p' gh.
  Proof.
    intros (HG & Hgh & HL0 & HS) Hp [blk ->] Hk Hmk Ht [m ->] Hl. split; [|split; [exact Hgh|split; [exact Hl|]]].
    - eapply gb_ok_weaken; [|exact HG]. intros pc g i _ [Hi Hsd]. cbv beta in *. split; [|exact Hsd].
      eapply imatch6_mono; [apply RMof_mono; exact Hk | intros j x Hx; exact Hx | | exact Hi].
      intros q' f e _ [A B]. split; [apply Ht; exact A|]. destruct e; [apply znth_app_some; exact B | apply Hmk; exact B].
    - intros ->. rewrite zlen_app in Hl. pose proof (zlen_nonneg blk).
      assert (p = 0) by lia. assert (zlen blk = 0) by lia.
      destruct blk; [|rewrite zlen_cons in *; pose proof (zlen_nonneg blk); lia]. rewrite app_nil_r. auto.
  Qed.

  (* the positions of a longer reference code *)
  Lemma gb_ok_snoc (P Q : Z -> Z -> rinstr -> Prop) rcode gbl i gh g' :
    gb_ok P rcode gbl -> znth gbl (zlen rcode) = Some gh ->
    (forall pc g j, pc + g < zlen rcode -> P pc g j -> Q pc g j) ->
    ((g' = gh + 1 /\ exists l, i = RSite l) \/ (g' = 0 /\ Q (zlen rcode - gh) gh i)) ->
    gb_ok Q (rcode ++ [i]) (gbl ++ [g']).
  Proof.
    intros HG Hgh HPQ Hnew. pose proof HG as (HL & H0 & HC). pose proof (zlen_nonneg rcode) as Hr.
    split; [rewrite !zlen_snoc; lia|]. split; [apply znth_app_some; exact H0|].
    intros pc j g g2 Hj Hg Hg2. apply znth_snoc_inv in Hj. destruct Hj as [[Hlt Hj]|[-> ->]].
    - rewrite znth_app_l in Hg by lia. rewrite znth_app_l in Hg2 by lia.
      destruct (HC _ _ _ _ Hj Hg Hg2) as (A & [B|(B1 & B2)]); split; auto. right. split; [exact B1|].
      apply HPQ; [lia | exact B2].
    - rewrite znth_app_l in Hg by lia. rewrite Hgh in Hg. inversion Hg; subst g.
      replace (zlen rcode + 1) with (zlen gbl) in Hg2 by lia. rewrite znth_app_last in Hg2. inversion Hg2; subst g2.
      destruct (gb_pm P0 P rcode gbl (zlen rcode) gh HG Hgh) as [R _]. split; [lia | exact Hnew].
  Qed.

  Lemma JC6_bemit code ks marks todo lmap rcode gbl p gh i :
    JC6 code ks marks todo lmap rcode gbl p gh -> blen4 i = p ->
    imatch6 (RMof ks) code FT (jpre3 lmap marks todo) (zlen code - p - gh) gh i -> side6 W gh i ->
    JC6 code ks marks todo lmap (rcode ++ [i]) (gbl ++ [0]) 0 0.
  Proof.
    intros (HG & Hgh & HL & HS) Hb Hi Hside. pose proof HG as (HGl & _).
    destruct (gb_pm P0 _ rcode gbl (zlen rcode) gh HG Hgh) as [Rg Epm].
    assert (Estart : pm_of4 P0 rcode (zlen rcode - gh) = zlen code - p - gh).
    { assert (Eend : pm_of4 P0 rcode (zlen rcode) = P0 + boff4 rcode (length rcode)) by (unfold pm_of4, zlen; rewrite Nat2Z.id; reflexivity). lia. }
    split; [|split; [|split]].
    - eapply gb_ok_snoc; [exact HG | exact Hgh | | right; split; [reflexivity|]].
      + intros pc g j Hlt [Hm Hsd]. cbv beta in *. rewrite pm_of4_app by (pose proof (imatch6_k_nonneg _ _ _ _ _ _ _ Hm); lia). exact (conj Hm Hsd).
      + cbv beta. rewrite pm_of4_app by lia. rewrite Estart. exact (conj Hi Hside).
    - rewrite zlen_snoc. replace (zlen rcode + 1) with (zlen gbl) by lia. apply znth_app_last.
    - rewrite app_length. cbn [length]. rewrite Nat.add_1_r, boff4_snoc. lia.
    - intros _. rewrite rlast_site_snoc. destruct (imatch6_last _ _ _ _ _ _ _ Hi) as (ins & Hz & Hop).
      rewrite <- Hop. apply code_last_pb_znth. replace (zlen code - 1) with (zlen code - p - gh + blen4 i + gh - 1) by lia. exact Hz.
  Qed.

  (* a site inside the code of a value *)
  Lemma JC6_ghost code ks marks todo lmap rcode gbl p gh l :
    JC6 code ks marks todo lmap rcode gbl p gh -> 0 <= p ->
    JC6 (code ++ [IPotentialBreak]) ks marks todo lmap (rcode ++ [RSite l]) (gbl ++ [gh + 1]) p (gh + 1).
  Proof.
    intros (HG & Hgh & HL & HS) Hp. pose proof HG as (HGl & _).
    split; [|split; [|split]].
    - eapply gb_ok_snoc; [exact HG | exact Hgh | | left; split; [reflexivity | eauto]].
      intros pc g j Hlt [Hm Hsd]. cbv beta in *. rewrite pm_of4_app by (pose proof (imatch6_k_nonneg _ _ _ _ _ _ _ Hm); lia).
      split; [|exact Hsd]. eapply imatch6_mono; [apply rm_le_refl | intros j0 x Hx; exact Hx | | exact Hm]. auto.
    - rewrite zlen_snoc. replace (zlen rcode + 1) with (zlen gbl) by lia. apply znth_app_last.
    - rewrite zlen_snoc, app_length. cbn [length]. rewrite Nat.add_1_r, boff4_snoc. cbn [blen4 blen3 blen]. lia.
    - intros _. rewrite rlast_site_snoc, code_last_pb_snoc. reflexivity.
  Qed.

  Definition JB6 (code : list instr) (ks : list (str * bool)) (marks : list (str * Z)) (labels todo : list Z) (L : Z)
             (rcode : list rinstr) (blabels : list (str * Z)) (targets : list Z) (vars : list str) (lmap : list Z) (p gh : Z) : Prop :=
    (exists gbl, JC6 code ks marks todo lmap rcode gbl p gh /\ JG gbl targets blabels) /\
    JL4 P0 LS labels marks blabels targets lmap rcode /\ JT todo code /\
    RW ks L /\ JV ks vars /\ 0 <= L /\ 0 <= p.

  Lemma JG_snoc gbl targets blabels g : JG gbl targets blabels -> JG (gbl ++ [g]) targets blabels.
  Proof.
    intros [A B]. split.
    - intros e t He Ht. apply znth_app_some. eapply A; eauto.
    - intros nm Hn. apply znth_app_some. apply B; exact Hn.
  Qed.

  Lemma JB6_emit code ks marks labels todo L rcode blabels targets vars lmap p gh ins :
    JB6 code ks marks labels todo L rcode blabels targets vars lmap p gh ->
    JB6 (code ++ [ins]) ks marks labels todo L rcode blabels targets vars lmap (p + 1) gh.
  Proof.
    intros ((gbl & HC & HG) & HL & (T1 & T2) & HR & HV & H0 & Hp). split; [|split; [exact HL|split; [|split; [exact HR|split; [exact HV|split; [exact H0|lia]]]]]].
    - exists gbl. split; [|exact HG].
      eapply JC6_mono; [exact HC | exact Hp | eexists; reflexivity | apply kext_refl | apply mle_refl | apply incl_refl | apply nil_ex |].
      rewrite zlen_snoc. destruct HC as (_ & _ & E & _). lia.
    - split; [exact T1|]. intros q Hq. apply T2 in Hq. rewrite zlen_snoc. lia.
  Qed.

  Lemma JB6_emit_bp code ks marks labels todo L rcode blabels targets vars lmap p gh ins :
    JB6 code ks marks labels todo L rcode blabels targets vars lmap p gh ->
    JB6 (code ++ [ins]) ks marks labels (todo ++ [zlen code]) L rcode blabels targets vars lmap (p + 1) gh.
  Proof.
    intros ((gbl & HC & HG) & HL & (T1 & T2) & HR & HV & H0 & Hp). pose proof (zlen_nonneg code).
    split; [|split; [exact HL|split; [|split; [exact HR|split; [exact HV|split; [exact H0|lia]]]]]].
    - exists gbl. split; [|exact HG].
      eapply JC6_mono; [exact HC | exact Hp | eexists; reflexivity | apply kext_refl | apply mle_refl | | apply nil_ex |].
      + intros q Hq. apply in_or_app; left; exact Hq.
      + rewrite zlen_snoc. destruct HC as (_ & _ & E & _). lia.
    - split.
      + apply NoDup_snoc; [exact T1|]. intros Hin. apply T2 in Hin. lia.
      + intros q Hq. rewrite zlen_snoc. apply in_app_or in Hq. destruct Hq as [Hq|[<-|[]]]; [apply T2 in Hq; lia | lia].
  Qed.

  Lemma JB6_bemit code ks marks labels todo L rcode blabels targets vars lmap p gh i :
    JB6 code ks marks labels todo L rcode blabels targets vars lmap p gh -> blen4 i = p ->
    imatch6 (RMof ks) code FT (jpre3 lmap marks todo) (zlen code - p - gh) gh i -> side6 W gh i ->
    JB6 code ks marks labels todo L (rcode ++ [i]) blabels targets vars lmap 0 0.
  Proof.
    intros ((gbl & HC & HG) & HL & HT & HR & HV & H0 & Hp) Hb Hi Hside.
    split; [|split; [apply JL4_bemit; exact HL|split; [exact HT|split; [exact HR|split; [exact HV|split; [exact H0|lia]]]]]].
    exists (gbl ++ [0]). split; [eapply JC6_bemit; eauto | apply JG_snoc; exact HG].
  Qed.

  Lemma JB6_ghost code ks marks labels todo L rcode blabels targets vars lmap p gh l :
    JB6 code ks marks labels todo L rcode blabels targets vars lmap p gh ->
    JB6 (code ++ [IPotentialBreak]) ks marks labels todo L (rcode ++ [RSite l]) blabels targets vars lmap p (gh + 1).
  Proof.
    intros ((gbl & HC & HG) & HL & (T1 & T2) & HR & HV & H0 & Hp).
    split; [|split; [apply JL4_bemit; exact HL|split; [|split; [exact HR|split; [exact HV|split; [exact H0|lia]]]]]].
    - exists (gbl ++ [gh + 1]). split; [apply JC6_ghost; assumption | apply JG_snoc; exact HG].
    - split; [exact T1|]. intros q Hq. apply T2 in Hq. rewrite zlen_snoc. lia.
  Qed.

  Lemma JB6_ks code ks marks labels todo L rcode blabels targets vars lmap p gh ks' vars' L' :
    JB6 code ks marks labels todo L rcode blabels targets vars lmap p gh ->
    kext ks ks' -> RW ks' L' -> JV ks' vars' -> 0 <= L' ->
    JB6 code ks' marks labels todo L' rcode blabels targets vars' lmap p gh.
  Proof.
    intros ((gbl & HC & HG) & HL & HT & HR & HV & H0 & Hp) Hk HR' HV' HL'.
    split; [|split; [exact HL|split; [exact HT|split; [exact HR'|split; [exact HV'|split; [exact HL'|exact Hp]]]]]]. exists gbl. split; [|exact HG].
    eapply JC6_mono; [exact HC | exact Hp | apply nil_ex | exact Hk | apply mle_refl | apply incl_refl | apply nil_ex | apply HC].
  Qed.

  Lemma JB6_newlab code ks marks labels todo L rcode blabels targets vars lmap p gh :
    JB6 code ks marks labels todo L rcode blabels targets vars lmap p gh ->
    JB6 code ks marks (labels ++ [-1]) todo L rcode blabels (targets ++ [-1]) vars (lmap ++ [zlen labels]) p gh.
  Proof.
    intros ((gbl & HC & HG) & HL & HT & HR & HV & H0 & Hp).
    split; [|split; [apply JL4_new; exact HL|split; [exact HT|split; [exact HR|split; [exact HV|split; [exact H0|lia]]]]]].
    exists gbl. split.
    - eapply JC6_mono; [exact HC | exact Hp | apply nil_ex | apply kext_refl | apply mle_refl | apply incl_refl | eexists; reflexivity | apply HC].
    - destruct HG as [A B]. split; [|exact B]. intros e t He Ht. apply znth_snoc_inv in He.
      destruct He as [[_ He]|[_ ->]]; [eapply A; eauto | lia].
  Qed.

  Lemma JB6_setlab code ks marks labels todo L rcode blabels targets vars lmap e0 lab0 labels' targets' :
    JB6 code ks marks labels todo L rcode blabels targets vars lmap 0 0 -> znth lmap e0 = Some lab0 ->
    zupd labels lab0 (zlen code) = Some labels' -> zupd targets e0 (zlen rcode) = Some targets' ->
    JB6 code ks marks labels' todo L rcode blabels targets' vars lmap 0 0.
  Proof.
    intros ((gbl & HC & HG) & HL & HT & HR & HV & H0 & Hp) He Ul Ut.
    split; [|split; [|split; [exact HT|split; [exact HR|split; [exact HV|split; [exact H0|lia]]]]]].
    - exists gbl. split; [exact HC|]. destruct HG as [A B]. split; [|exact B].
      intros e t Hz Ht. rewrite (znth_zupd _ _ _ _ Ut) in Hz. destruct (e =? e0).
      + inversion Hz; subst t. apply HC.
      + eapply A; eauto.
    - eapply JL4_set; eauto. unfold pm_of4, zlen at 1. rewrite Nat2Z.id. destruct HC as (_ & _ & E & _).
      replace (P0 + boff4 rcode (length rcode)) with (zlen code) by lia. exact Ul.
  Qed.

  (* a change of the label tables that leaves the positions of the source labels alone *)
  Lemma JB6_labels code ks marks labels todo L rcode blabels targets vars lmap p gh marks' labels' blabels' :
    JB6 code ks marks labels todo L rcode blabels targets vars lmap p gh ->
    JL4 P0 LS labels' marks' blabels' targets lmap rcode -> mle marks marks' ->
    (forall nm, label_pos blabels' nm = label_pos blabels nm) ->
    JB6 code ks marks' labels' todo L rcode blabels' targets vars lmap p gh.
  Proof.
    intros ((gbl & HC & HG) & HL & HT & HR & HV & H0 & Hp) HL' Hm Hsame.
    split; [|split; [exact HL'|split; [exact HT|split; [exact HR|split; [exact HV|split; [exact H0|lia]]]]]]. exists gbl. split.
    - eapply JC6_mono; [exact HC | exact Hp | apply nil_ex | apply kext_refl | exact Hm | apply incl_refl | apply nil_ex | apply HC].
    - destruct HG as [A B]. split; [exact A|]. intros nm Hn. rewrite Hsame in *. apply B; exact Hn.
  Qed.

  (* where a mark points: the site that starts its line when that site was just placed, else the next instruction;
     never into a group *)
  Lemma mark_sync6 code ks marks labels todo L rcode blabels targets vars lmap i :
    JB6 code ks marks labels todo L rcode blabels targets vars lmap 0 0 -> hd_error (rev code) = Some i ->
    0 <= mark_t rcode <= zlen rcode /\
    (if opcode_eqb (iop i) POTENTIAL_BREAK then zlen code - 1 else zlen code) = pm_of4 P0 rcode (mark_t rcode).
  Proof.
    intros ((gbl & (_ & _ & HL & HS) & _) & _) Hi. specialize (HS eq_refl).
    assert (Ec : code_last_pb code = opcode_eqb (iop i) POTENTIAL_BREAK).
    { unfold code_last_pb. destruct (rev code); inversion Hi; reflexivity. }
    rewrite <- Ec, HS. unfold mark_t. pose proof (zlen_nonneg rcode). destruct (rlast_site rcode) eqn:E.
    - unfold rlast_site in E. destruct (rev rcode) as [|x r] eqn:Er; [discriminate|]. destruct x; try discriminate.
      apply rev_cons_inv in Er. subst rcode. rewrite zlen_snoc. pose proof (zlen_nonneg (rev r)). split; [lia|].
      rewrite app_length in HL. cbn [length] in HL. rewrite Nat.add_1_r, boff4_snoc in HL. cbn [blen4 blen3 blen] in HL.
      unfold pm_of4. replace (zlen (rev r) + 1 - 1) with (zlen (rev r)) by lia. unfold zlen at 2. rewrite Nat2Z.id.
      rewrite boff4_app by lia. lia.
    - split; [lia|]. unfold pm_of4, zlen at 2. rewrite Nat2Z.id. lia.
  Qed.

  (* a source label is set to the mark position *)
  Lemma JB6_mark code ks marks labels todo L rcode blabels targets vars lmap labels' blabels' nm :
    JB6 code ks marks labels todo L rcode blabels targets vars lmap 0 0 ->
    JL4 P0 LS labels' marks blabels' targets lmap rcode ->
    label_pos blabels' nm = mark_t rcode -> (forall nm', nm' <> nm -> label_pos blabels' nm' = label_pos blabels nm') ->
    JB6 code ks marks labels' todo L rcode blabels' targets vars lmap 0 0.
  Proof.
    intros ((gbl & HC & HG) & HL & HT & HR & HV & H0 & Hp) HL' Hs Ho.
    split; [|split; [exact HL'|split; [exact HT|split; [exact HR|split; [exact HV|split; [exact H0|lia]]]]]]. exists gbl. split; [exact HC|].
    destruct HG as [A B]. split; [exact A|]. intros nm' Hn.
    destruct (list_eq_dec N.eq_dec nm' nm) as [->|Hne]; [|rewrite (Ho _ Hne) in *; apply B; exact Hn].
    rewrite Hs. destruct HC as (HGB & Hgh & _ & _). unfold mark_t. destruct (rlast_site rcode) eqn:E; [|exact Hgh].
    unfold rlast_site in E. destruct (rev rcode) as [|x r] eqn:Er; [discriminate|]. destruct x as [l| | | | | | | | | | |]; try discriminate.
    apply rev_cons_inv in Er. pose proof HGB as (HGl & _ & HGC).
    assert (Hz : znth rcode (zlen rcode - 1) = Some (RSite l)).
    { rewrite Er, zlen_snoc. replace (zlen (rev r) + 1 - 1) with (zlen (rev r)) by lia. apply znth_app_last. }
    pose proof (znth_some_range _ _ _ Hz) as Rz.
    destruct (znth_in_range gbl (zlen rcode - 1)) as [g Hg]; [lia|].
    replace (zlen rcode) with (zlen rcode - 1 + 1) in Hgh at 1 by lia.
    destruct (HGC _ _ _ _ Hz Hg Hgh) as (Hg0 & [(Hbad & _)|(_ & Hm & _)]); [lia|].
    apply imatch6_site in Hm. destruct Hm as [-> _]. exact Hg.
  Qed.
End Static6.
