(* Proofs_C01s2d.v — C01, stage 2 (LOOP / WHILE), part 4: the STATIC part, the two traversals side by side.
   Marks, values, assignments, LOOP, WHILE, and the induction over structured trees: after dispatch_void and
   flat_stmt have walked the same tree from related states, the states are related again (J), every reference
   instruction has its block of VM code (with label placeholders in the jumps), and the labels of the generator
   point to the blocks of the targets of the flattener. *)
From Coq Require Import List ZArith NArith Lia Bool.
From Theo Require Import Base Tokens Errors MacroExtract Parser VMModel VMSpec GenModel Compile RefSem RefSemChk C01Statements C01Stages Gen_Consts Proofs_VM_mem Proofs_VM_dbg Proofs_Gen0 Proofs_Gen Proofs_Sem Proofs_C01a Proofs_C01b Proofs_C01 Proofs_C01s2a Proofs_C01s2b Proofs_C01s2c.
Import ListNotations.
Local Open Scope Z_scope.

Section Walk.
  Variable P0 : Z.
  Notation J := (J P0).

  (* ================================================================================================ *)
  (* 1. marks (the END of a loop): a user-visible label on both sides, never a jump target here        *)
  (* ================================================================================================ *)
  Lemma in_ainsert_self {V} (m : list (str * V)) k v : In (k, v) (ainsert str_ltb m k v).
  Proof.
    apply str_alookup_in. rewrite str_lookup_insert. rewrite (proj2 (str_keqb_eq k k) eq_refl). reflexivity.
  Qed.

  Lemma L_mark g s lmap nm v g' : J g s lmap 0 ->
    (do rm <- ensure_mark g nm; let '(g1, lab) := rm in
     do pos <- get_mark_pos g1; GenModel.set_label g1 lab pos) = Ok g' ->
    J g' (with_cur s (RefSem.set_label (f_cur s) nm v)) lmap 0 /\ Ext g g' /\
    FExt s (with_cur s (RefSem.set_label (f_cur s) nm v)) /\ gpos g' = gpos g.
  Proof.
    intros (H0 & HB & Hp & Hl) H.
    destruct (g_syms g) as [|f tls] eqn:Es; [contradiction|].
    assert (Egm : gmarks g = f_marks f) by (unfold gmarks; rewrite Es; reflexivity).
    assert (HF : FExt s (with_cur s (RefSem.set_label (f_cur s) nm v))) by (repeat split).
    unfold ensure_mark, get_symbols in H. rewrite Es in H. cbn [hd_error of_opt bind] in H.
    destruct (alookup str_ltb (f_marks f) nm) as [l|] eqn:El.
    - cbn [bind] in H. cbv beta iota in H. binv H. unfold GenModel.set_label in H. binv H.
      inversion H; subst g'; clear H.
      split; [|split; [|split; [exact HF | reflexivity]]].
      + split; [cbn [upd_labels g_syms]; rewrite Es; discriminate|]. split; [|split; assumption].
        cbn [with_cur f_cur RefSem.set_label b_code b_targets b_vars upd_labels g_code g_labels g_todo g_loops].
        change (gks (upd_labels g a0)) with (gks g). change (gmarks (upd_labels g a0)) with (gmarks g).
        eapply JB_labels; [exact HB|]. eapply JL_mark_set; [apply HB | | exact H2].
        rewrite Egm. apply str_alookup_in. exact El.
      + split; [apply kext_refl|]. split; [apply nil_ex|]. split; [reflexivity|]. split; [reflexivity|].
        cbn [upd_labels g_syms]. rewrite Es. exists f, f, tls. auto.
    - cbn [create_label] in H. cbn [upd_labels g_syms hd_error of_opt bind] in H. rewrite Es in H.
      cbn [hd_error of_opt bind f_name f_regs f_argnum f_marks] in H. cbv beta iota in H.
      unfold set_symbols in H. cbn [upd_labels g_syms] in H. rewrite Es in H. cbn [tl] in H.
      binv H. unfold GenModel.set_label in H. binv H. inversion H; subst g'; clear H.
      cbn [upd_syms upd_labels g_labels] in H2.
      split; [|split; [|split; [exact HF | reflexivity]]].
      + split; [discriminate|]. split; [|split; assumption].
        cbn [with_cur f_cur RefSem.set_label b_code b_targets b_vars upd_labels upd_syms g_code g_labels g_todo g_loops].
        assert (Ek : gks (upd_labels (upd_syms (upd_labels g (g_labels g ++ [-1]))
                     ({| f_name := f_name f; f_regs := f_regs f; f_argnum := f_argnum f;
                         f_marks := ainsert str_ltb (f_marks f) nm (zlen (g_labels g)) |} :: tls)) a0) = gks g).
        { unfold gks, gregs. cbn [upd_labels upd_syms g_syms f_regs]. rewrite Es. reflexivity. }
        assert (Em : gmarks (upd_labels (upd_syms (upd_labels g (g_labels g ++ [-1]))
                     ({| f_name := f_name f; f_regs := f_regs f; f_argnum := f_argnum f;
                         f_marks := ainsert str_ltb (f_marks f) nm (zlen (g_labels g)) |} :: tls)) a0) =
                     ainsert str_ltb (gmarks g) nm (zlen (g_labels g))).
        { unfold gmarks at 1. cbn [upd_labels upd_syms g_syms f_marks]. rewrite Egm. reflexivity. }
        rewrite Ek, Em.
        eapply JB_labels; [exact HB|]. eapply JL_mark_set; [apply JL_mark_new; apply HB | apply in_ainsert_self | exact H2].
      + split; [|split; [apply nil_ex|split; [reflexivity|split; [reflexivity|]]]].
        * unfold gks, gregs. cbn [upd_labels upd_syms g_syms f_regs]. rewrite Es. apply kext_refl.
        * cbn [upd_labels upd_syms g_syms]. rewrite Es. eexists f, _, tls. repeat split; reflexivity.
  Qed.

  (* ================================================================================================ *)
  (* 2. values                                                                                        *)
  (* ================================================================================================ *)
  Lemma flat_name_eq s f0 l0 line file tok l r :
    at_loc (f_pos s) f0 l0 -> node_on f0 l0 file line = true ->
    flat_value (Node N_NAME line file tok l r) s = Some (with_cur s (mention (f_cur s) tok), RVar tok).
  Proof. intros Ha Hn. rewrite flat_value_name. cbv zeta. rewrite (mv_noop _ _ _ _ _ Ha Hn). reflexivity. Qed.

  Lemma flat_number_eq s f0 l0 line file tok l r :
    at_loc (f_pos s) f0 l0 -> node_on f0 l0 file line = true ->
    flat_value (Node N_NUMBER line file tok l r) s =
    if INT_MAX <=? strtol tok then None else Some (s, RNum (strtol tok)).
  Proof. intros Ha Hn. rewrite flat_value_number. cbv zeta. rewrite (mv_noop _ _ _ _ _ Ha Hn). reflexivity. Qed.

  Lemma J_pos g s lmap p : J g s lmap p -> f_pos s = gpos g.
  Proof. intros (_ & _ & H & _). exact H. Qed.

  Lemma N_name g s lmap p f0 l0 line file tok l r tgt :
    lexable tok = true -> node_on f0 l0 file line = true -> J g s lmap p -> at_loc (gpos g) f0 l0 ->
    exists g', dispatch_value false (Node N_NAME line file tok l r) tgt g = Ok g' /\
      J g' (with_cur s (mention (f_cur s) tok)) lmap (p + 1) /\ Ext g g' /\
      FExt s (with_cur s (mention (f_cur s) tok)) /\ gpos g' = gpos g /\
      g_code g' = g_code g ++ [IAdd tgt (ks_ix (gks g) tok) 0] /\ RV g' tok (ks_ix (gks g) tok) /\
      (forall t r0, znth (gregs g) t = Some r0 -> znth (gregs g') t = Some r0).
  Proof.
    intros Hx Hn HJ Ha. rewrite dv_name. rewrite (adv_noop _ _ _ _ _ Ha Hn).
    destruct (L_var P0 g s lmap p tok Hx HJ) as (g1 & E1 & J1 & X1 & S1 & F1 & V1 & U1).
    rewrite E1. cbn [bind]. cbv beta iota. eexists; split; [reflexivity|].
    destruct (L_emit P0 g1 _ lmap p (IAdd tgt (ks_ix (gks g) tok) 0) J1) as [J2 X2].
    split; [exact J2|]. split; [eapply Ext_trans; eauto|]. split; [exact F1|].
    split; [exact (sm_pos _ _ S1)|]. split; [cbn [emit upd_code g_code]; rewrite (sm_code _ _ S1); reflexivity|].
    split; [exact V1 | exact U1].
  Qed.

  Lemma N_number g f0 l0 line file tok l r tgt :
    strtol tok < INT_MAX -> node_on f0 l0 file line = true -> at_loc (gpos g) f0 l0 ->
    dispatch_value false (Node N_NUMBER line file tok l r) tgt g = Ok (emit g (IConst tgt (strtol tok))).
  Proof.
    intros Hlt Hn Ha. rewrite dv_number. rewrite (adv_noop _ _ _ _ _ Ha Hn).
    unfold gen_str_to_int. destruct (Z.leb_spec INT_MAX (strtol tok)); [lia|]. cbn [fst snd].
    rewrite wrap_int_small; [reflexivity|]. pose proof (strtol_nonneg tok). lia.
  Qed.

  (* the result of compiling a value into register tgt *)
  Record VRes (g g' : gstate) (s s' : fstate) (lmap : list Z) (rv : rvalue) (tgt : Z) : Prop := mkVRes {
    vr_J : J g' s' lmap (vlen rv);
    vr_ext : Ext g g';
    vr_fext : FExt s s';
    vr_pos : gpos g' = gpos g;
    vr_len : zlen (g_code g') = zlen (g_code g) + vlen rv;
    vr_match : vmatch (RMof (gks g')) (g_code g') rv tgt (zlen (g_code g)) }.

  Lemma on_line_node f0 l0 t line file tok a b :
    on_line f0 l0 (Node t line file tok a b) = true -> node_on f0 l0 file line = true.
  Proof. cbn [on_line]. rewrite !andb_true_iff. intros [[H _] _]. exact H. Qed.

  Lemma simple_value_cases v : simple_value v = true ->
    (exists line file tok l r, v = Node N_NAME line file tok l r) \/
    (exists line file tok l r, v = Node N_NUMBER line file tok l r) \/
    (exists line file tok f l1 f1 t1 l3 f3 y c1 c2 l2 f2 t2 l4 f4 ctok c3 c4,
       v = Node N_CALL line file tok (Some f)
             (Some (Node N_SPLIT l1 f1 t1 (Some (Node N_NAME l3 f3 y c1 c2))
                      (Some (Node N_SPLIT l2 f2 t2 (Some (Node N_NUMBER l4 f4 ctok c3 c4)) None)))) /\
       str_eqb (n_tok f) name_INC || str_eqb (n_tok f) name_DEC = true).
  Proof.
    destruct v as [t line file tok l r]. destruct t; try (cbn [simple_value]; discriminate).
    - intros _. left. eauto 10.
    - intros _. right. left. eauto 10.
    - cbn [simple_value].
      destruct l as [f|]; [|discriminate].
      destruct r as [[t1 l1 f1 k1 [a1|] [[t2 l2 f2 k2 [a2|] [z|]]|]]|]; try (destruct t1; discriminate);
        try (destruct t1; try discriminate; destruct t2; discriminate); try discriminate.
      destruct t1; try discriminate. destruct t2; try discriminate.
      intros Hs. rewrite !andb_true_iff in Hs. destruct Hs as [[Hf H1] H2].
      destruct a1 as [ta1 l3 f3 y c1 c2]. destruct a2 as [ta2 l4 f4 ctok c3 c4].
      unfold is_name, is_number in H1, H2. cbn [n_type] in H1, H2.
      destruct ta1; try discriminate. destruct ta2; try discriminate.
      right. right. do 20 eexists. split; [reflexivity | exact Hf].
  Qed.

  Lemma N_value v f0 l0 : simple_value v = true -> lexable_names v = true -> on_line f0 l0 v = true ->
    forall g s lmap tgt g' s' rv, J g s lmap 0 -> at_loc (gpos g) f0 l0 ->
      dispatch_value false v tgt g = Ok g' -> flat_value v s = Some (s', rv) ->
      VRes g g' s s' lmap rv tgt.
  Proof.
    intros Hsv Hlex Hon g s lmap tgt g' s' rv HJ Ha HD HF.
    pose proof (J_pos _ _ _ _ HJ) as Hpos.
    assert (Has : at_loc (f_pos s) f0 l0) by (rewrite Hpos; exact Ha).
    destruct (simple_value_cases v Hsv) as [(line & file & tok & l & r & ->)|[(line & file & tok & l & r & ->)|
      (line & file & tok & f & l1 & f1 & t1 & l3 & f3 & y & c1 & c2 & l2 & f2 & t2 & l4 & f4 & ctok & c3 & c4 & -> & Hop)]].
    - (* a variable *)
      pose proof (on_line_node _ _ _ _ _ _ _ _ Hon) as Hn.
      assert (Hx : lexable tok = true).
      { cbn [lexable_names] in Hlex. rewrite !andb_true_iff in Hlex. apply Hlex. }
      rewrite (flat_name_eq _ _ _ _ _ _ _ _ Has Hn) in HF. inversion HF; subst s' rv; clear HF.
      destruct (N_name g s lmap 0 f0 l0 line file tok l r tgt Hx Hn HJ Ha) as (g1 & E1 & J1 & X1 & F1 & P1 & C1 & V1 & _).
      rewrite E1 in HD. inversion HD; subst g1; clear HD.
      constructor; auto.
      + rewrite C1, zlen_snoc. reflexivity.
      + cbn [vmatch]. exists (ks_ix (gks g) tok). split; [exact V1|]. rewrite C1. apply znth_app_last.
    - (* a literal *)
      pose proof (on_line_node _ _ _ _ _ _ _ _ Hon) as Hn.
      rewrite (flat_number_eq _ _ _ _ _ _ _ _ Has Hn) in HF.
      destruct (Z.leb_spec INT_MAX (strtol tok)) as [|Hlt]; [discriminate|]. inversion HF; subst s' rv; clear HF.
      rewrite (N_number g f0 l0 line file tok l r tgt Hlt Hn Ha) in HD. inversion HD; subst g'; clear HD.
      destruct (L_emit P0 g s lmap 0 (IConst tgt (strtol tok)) HJ) as [J2 X2].
      constructor; auto.
      + apply FExt_refl.
      + cbn [emit upd_code g_code]. rewrite zlen_snoc. reflexivity.
      + cbn [vmatch emit upd_code g_code]. pose proof (strtol_nonneg tok). split; [lia | apply znth_app_last].
    - (* y + c, y - c *)
      pose proof (on_line_node _ _ _ _ _ _ _ _ Hon) as Hn.
      assert (Hn1 : node_on f0 l0 f3 l3 = true /\ node_on f0 l0 f4 l4 = true).
      { cbn [on_line] in Hon. rewrite !andb_true_iff in Hon. tauto. }
      destruct Hn1 as [Hn1 Hn2].
      assert (Hy : lexable y = true).
      { cbn [lexable_names] in Hlex. rewrite !andb_true_iff in Hlex. tauto. }
      (* the flattener *)
      rewrite flat_value_call' in HF. rewrite (mv_noop _ _ _ _ _ Has Hn) in HF.
      rewrite fargs_eq in HF. cbn [fargs_opt] in HF. rewrite fargs_eq in HF. cbn [fst snd] in HF.
      rewrite (flat_name_eq _ _ _ _ _ _ _ _ Has Hn1) in HF. cbn [app] in HF.
      rewrite fargs_eq in HF. cbn [fargs_opt] in HF. rewrite fargs_eq in HF. cbn [fst snd] in HF.
      set (s1 := with_cur s (mention (f_cur s) y)) in *.
      assert (Has1 : at_loc (f_pos s1) f0 l0) by exact Has.
      rewrite (flat_number_eq _ _ _ _ _ _ _ _ Has1 Hn2) in HF.
      destruct (Z.leb_spec INT_MAX (strtol ctok)) as [|Hlt]; [discriminate|]. cbn [app] in HF.
      unfold builtin_of in HF. cbn [n_type] in HF. unfold lit in HF. cbn [n_tok] in HF. fold (lit_of ctok) in HF.
      pose proof (strtol_nonneg ctok) as Hc0.
      assert (Hlit : lit_of ctok = strtol ctok) by (apply lit_of_small; exact Hlt).
      rewrite Hlit in HF.
      (* the generator *)
      rewrite dv_call in HD. cbn [call_args_o] in HD.
      rewrite call_args_split in HD. cbn [call_args_o] in HD.
      rewrite call_args_leaf in HD by (cbn; discriminate). cbn [fst snd] in HD.
      rewrite (adv_noop _ _ _ _ _ Ha Hn) in HD.
      destruct (L_tmp P0 g s lmap 0 HJ) as (g1 & tt1 & E1 & J1 & X1 & S1 & T1 & (r1 & Z1 & U1) & _).
      rewrite E1 in HD. cbn [bind] in HD. cbv beta iota in HD.
      assert (Ha1 : at_loc (gpos g1) f0 l0) by (rewrite (sm_pos _ _ S1); exact Ha).
      destruct (N_name g1 s lmap 0 f0 l0 l3 f3 y c1 c2 tt1 Hy Hn1 J1 Ha1) as (g2 & E2 & J2 & X2 & F2 & P2 & C2 & V2 & K2).
      rewrite E2 in HD. cbn [bind app] in HD.
      rewrite call_args_split in HD. cbn [call_args_o] in HD.
      rewrite call_args_leaf in HD by (cbn; discriminate). cbn [fst snd] in HD.
      fold s1 in J2, F2.
      destruct (L_tmp P0 g2 s1 lmap (0 + 1) J2) as (g3 & tt2 & E3 & J3 & X3 & S3 & T3 & _ & K3).
      rewrite E3 in HD. cbn [bind] in HD. cbv beta iota in HD.
      assert (Ha3 : at_loc (gpos g3) f0 l0) by (rewrite (sm_pos _ _ S3), P2; exact Ha1).
      rewrite (N_number g3 f0 l0 l4 f4 ctok c3 c4 tt2 Hlt Hn2 Ha3) in HD. cbn [bind app] in HD.
      rewrite call_tail_op in HD by exact Hop. rewrite Hlit in HD.
      inversion HD; subst g'; clear HD.
      set (cc := if str_eqb (n_tok f) name_INC then strtol ctok else wrap_int (- strtol ctok)) in *.
      destruct (L_emit P0 g3 s1 lmap _ (IConst tt2 (strtol ctok)) J3) as [J4 X4].
      destruct (L_emit P0 _ s1 lmap _ (IAdd tgt tt1 cc) J4) as [J5 X5].
      assert (Hne : tt1 <> tt2).
      { destruct (K3 tt1 r1 (K2 _ _ Z1) U1) as [A _]. exact A. }
      assert (X13 : Ext g1 g3) by (eapply Ext_trans; eauto).
      assert (X35 : Ext g3 (emit (emit g3 (IConst tt2 (strtol ctok))) (IAdd tgt tt1 cc))) by (eapply Ext_trans; eauto).
      assert (XX : Ext g (emit (emit g3 (IConst tt2 (strtol ctok))) (IAdd tgt tt1 cc))).
      { eapply Ext_trans; [exact X1|]. eapply Ext_trans; [exact X13 | exact X35]. }
      assert (Ec : g_code (emit (emit g3 (IConst tt2 (strtol ctok))) (IAdd tgt tt1 cc)) =
                   ((g_code g ++ [IAdd tt1 (ks_ix (gks g1) y) 0]) ++ [IConst tt2 (strtol ctok)]) ++ [IAdd tgt tt1 cc]).
      { cbn [emit upd_code g_code]. rewrite (sm_code _ _ S3), C2, (sm_code _ _ S1). reflexivity. }
      assert (Hres : exists rv0 cc0, rv = rv0 /\ s' = s1 /\ vlen rv0 = 3 /\ cc = cc0 /\
                (rv0 = RInc (RVar y) (strtol ctok) /\ cc0 = strtol ctok \/ rv0 = RDec (RVar y) (strtol ctok) /\ cc0 = - strtol ctok)).
      { unfold cc. unfold name_INC, name_DEC in *. destruct (str_eqb (n_tok f) _) eqn:Ei.
        - inversion HF; subst. eexists _, _. split; [reflexivity|]. split; [reflexivity|]. split; [reflexivity|].
          split; [reflexivity|]. left. split; reflexivity.
        - cbn [orb] in Hop. rewrite Hop in HF. inversion HF; subst.
          eexists _, _. split; [reflexivity|]. split; [reflexivity|]. split; [reflexivity|].
          split; [apply wrap_int_neg; lia|]. right. split; reflexivity. }
      destruct Hres as (rv0 & cc0 & -> & -> & Hvl & Ecc & Hcase).
      constructor.
      + rewrite Hvl. exact J5.
      + exact XX.
      + exact F2.
      + transitivity (gpos g3); [reflexivity|]. rewrite (sm_pos _ _ S3), P2. exact (sm_pos _ _ S1).
      + rewrite Ec, !zlen_snoc, Hvl. lia.
      + assert (RVy : rm_var (RMof (gks (emit (emit g3 (IConst tt2 (strtol ctok))) (IAdd tgt tt1 cc)))) y (ks_ix (gks g1) y)).
        { apply (RV_ext _ _ _ _ (Ext_trans _ _ _ X3 X35)). exact V2. }
        assert (RT1 : rm_tmp (RMof (gks (emit (emit g3 (IConst tt2 (strtol ctok))) (IAdd tgt tt1 cc)))) tt1).
        { apply (RT_ext _ _ _ (Ext_trans _ _ _ X13 X35)). exact T1. }
        assert (RT2 : rm_tmp (RMof (gks (emit (emit g3 (IConst tt2 (strtol ctok))) (IAdd tgt tt1 cc)))) tt2).
        { apply (RT_ext _ _ _ X35). exact T3. }
        assert (Z0 : znth (g_code (emit (emit g3 (IConst tt2 (strtol ctok))) (IAdd tgt tt1 cc))) (zlen (g_code g)) =
                     Some (IAdd tt1 (ks_ix (gks g1) y) 0)).
        { rewrite Ec. apply znth_app_some. apply znth_app_some. apply znth_app_last. }
        assert (Z1' : znth (g_code (emit (emit g3 (IConst tt2 (strtol ctok))) (IAdd tgt tt1 cc))) (zlen (g_code g) + 1) =
                     Some (IConst tt2 (strtol ctok))).
        { rewrite Ec. apply znth_app_some. rewrite <- (zlen_snoc (g_code g) (IAdd tt1 (ks_ix (gks g1) y) 0)). apply znth_app_last. }
        assert (Z2 : znth (g_code (emit (emit g3 (IConst tt2 (strtol ctok))) (IAdd tgt tt1 cc))) (zlen (g_code g) + 2) =
                     Some (IAdd tgt tt1 cc)).
        { rewrite Ec. replace (zlen (g_code g) + 2) with (zlen ((g_code g ++ [IAdd tt1 (ks_ix (gks g1) y) 0]) ++ [IConst tt2 (strtol ctok)]))
            by (rewrite !zlen_snoc; lia). apply znth_app_last. }
        set (gF := emit (emit g3 (IConst tt2 (strtol ctok))) (IAdd tgt tt1 cc)) in *. rewrite Ecc in Z2.
        destruct Hcase as [[-> ->]|[-> ->]]; cbn [vmatch]; exists (ks_ix (gks g1) y), tt1, tt2;
          exact (conj RVy (conj RT1 (conj RT2 (conj Hne (conj (conj Hc0 Hlt) (conj Z0 (conj Z1' Z2))))))).
  Qed.

  (* ================================================================================================ *)
  (* 3. statements                                                                                    *)
  (* ================================================================================================ *)
  Definition SRes (g g' : gstate) (s s' : fstate) (lmap lmap' : list Z) : Prop :=
    J g' s' lmap' 0 /\ Ext g g' /\ FExt s s' /\ exists m, lmap' = lmap ++ m.

  Lemma SRes_trans g g1 g2 s s1 s2 l l1 l2 : SRes g g1 s s1 l l1 -> SRes g1 g2 s1 s2 l1 l2 -> SRes g g2 s s2 l l2.
  Proof.
    intros (_ & A2 & A3 & [m1 ->]) (B1 & B2 & B3 & [m2 ->]).
    split; [exact B1|]. split; [eapply Ext_trans; eauto|]. split; [eapply FExt_trans; eauto|].
    exists (m1 ++ m2). rewrite app_assoc. reflexivity.
  Qed.

  Definition Pjoint (n : node) : Prop :=
    structured n = true -> lexable_names n = true ->
    forall g s lmap g' s', J g s lmap 0 ->
      dispatch_void false false false n g = Ok g' -> flat_stmt n s = Some s' ->
      exists lmap', SRes g g' s s' lmap lmap'.

  (* x := value *)
  Lemma N_assign al af atok tt lt ft x ct1 ct2 v g s lmap g' s' :
    tt = N_NAME -> lexable x = true -> simple_value v = true -> lexable_names v = true -> on_line af al v = true ->
    J g s lmap 0 ->
    dispatch_void false false false (Node N_ASSIGN al af atok (Some (Node tt lt ft x ct1 ct2)) (Some v)) g = Ok g' ->
    flat_stmt (Node N_ASSIGN al af atok (Some (Node tt lt ft x ct1 ct2)) (Some v)) s = Some s' ->
    SRes g g' s s' lmap lmap.
  Proof.
    intros -> Hx Hsv Hlex Hon HJ HD HF.
    rewrite dvoid_assign in HD. cbn [child of_opt bind n_tok] in HD.
    rewrite flat_stmt_eq in HF. cbn [fs_body] in HF. unfold fs_assign in HF. cbn [n_tok opt_value] in HF.
    destruct (L_site P0 g s lmap al af HJ) as (J0 & X0 & F0 & A0).
    set (g0 := advance_line g al af) in *. set (s0 := move_to s af al) in *.
    destruct (L_var P0 g0 s0 lmap 0 x Hx J0) as (g1 & E1 & J1 & X1 & S1 & F1 & V1 & _).
    rewrite E1 in HD. cbn [bind] in HD. cbv beta iota in HD. cbn [dispatch_value_opt] in HD.
    set (s1 := with_cur s0 (mention (f_cur s0) x)) in *.
    destruct (flat_value v s1) as [[s2 rv]|] eqn:EF; [|discriminate]. inversion HF; subst s'; clear HF.
    assert (A1 : at_loc (gpos g1) af al) by (rewrite (sm_pos _ _ S1); exact A0).
    pose proof (N_value v af al Hsv Hlex Hon g1 s1 lmap (ks_ix (gks g0) x) g' s2 rv J1 A1 HD EF) as [RJ RX RF RP RL RM].
    destruct (L_bemit P0 g' s2 lmap (vlen rv) (RAssign x rv) RJ eq_refl) as [J2 F2].
    { cbn [imatch]. exists (ks_ix (gks g0) x). split; [apply (RV_ext _ _ _ _ RX); exact V1|].
      replace (zlen (g_code g') - vlen rv) with (zlen (g_code g1)) by lia. exact RM. }
    split; [exact J2|]. split; [eapply Ext_trans; [exact X0|]; eapply Ext_trans; eauto|].
    split; [|apply nil_ex]. eapply FExt_trans; [exact F0|]. eapply FExt_trans; [exact F1|]. eapply FExt_trans; eauto.
  Qed.

  (* ---- the two traversals of a LOOP and of a WHILE, as lists of primitive steps ---- *)
  Definition s_emit (s : fstate) (i : rinstr) : fstate := with_cur s (bemit (f_cur s) i).
  Definition s_newt (s : fstate) : fstate := with_cur s (fst (new_target (f_cur s))).
  Definition s_sett (s : fstate) (e : Z) : fstate := with_cur s (set_target (f_cur s) e (bnext (f_cur s))).
  Definition g_newl (g : gstate) : gstate := fst (create_label g).

  Lemma dvoid_loop_inv ll lf ltok bound body g g' :
    dispatch_void false false false (Node N_LOOP ll lf ltok (Some bound) (Some body)) g = Ok g' ->
    let ga := advance_line g ll lf in
    exists g1 c g2 g5 g7,
      fetch_variable (loops_incr ga) (loop_counter_name (loops_incr ga)) = Ok (g1, c) /\
      dispatch_value false bound c g1 = Ok g2 /\
      GenModel.set_label (g_newl (g_newl g2)) (zlen (g_labels g2)) (next_pos (g_newl (g_newl g2))) = Ok g5 /\
      dispatch_void false false false body (emit_backpatched g5 (IJmpC (zlen (g_labels (g_newl g2))) c)) = Ok g7 /\
      GenModel.set_label (emit_backpatched (emit g7 (IAdd c c (-1))) (IJmp (zlen (g_labels g2))))
                         (zlen (g_labels (g_newl g2)))
                         (next_pos (emit_backpatched (emit g7 (IAdd c c (-1))) (IJmp (zlen (g_labels g2))))) = Ok g'.
  Proof.
    intros H ga. rewrite dvoid_loop in H. cbv zeta in H. fold ga in H.
    destruct (fetch_variable (loops_incr ga) (loop_counter_name (loops_incr ga))) as [[g1 c]| |] eqn:E1; cbn [bind] in H; try discriminate.
    cbv beta iota in H. cbn [dispatch_value_opt] in H.
    destruct (dispatch_value false bound c g1) as [g2| |] eqn:E2; cbn [bind] in H; try discriminate.
    cbn [create_label] in H.
    match type of H with bind ?x _ = _ => destruct x as [g5| |] eqn:E5; cbn [bind] in H; try discriminate end.
    cbn [dvo] in H.
    match type of H with bind ?x _ = _ => destruct x as [g7| |] eqn:E7; cbn [bind] in H; try discriminate end.
    exists g1, c, g2, g5, g7. split; [reflexivity|]. split; [exact E2|]. split; [exact E5|]. split; [exact E7 | exact H].
  Qed.

  Lemma fs_loop_inv bound body sa s' :
    fs_loop (Some bound) (Some body) sa = Some s' ->
    let id := f_loops sa + 1 in
    let sb := mkF (f_done sa) (f_names sa) (f_cur sa) (f_pos sa) id in
    exists s1 v s2,
      flat_value bound sb = Some (s1, v) /\
      let sc := s_emit s1 (RLoopInit id v) in
      let t_start := zlen (b_targets (f_cur sc)) in
      let t_end := zlen (b_targets (f_cur (s_newt sc))) in
      flat_stmt body (s_emit (s_sett (s_newt (s_newt sc)) t_start) (RLoopTest id t_end)) = Some s2 /\
      s' = s_sett (s_emit s2 (RLoopDec id t_start)) t_end.
  Proof.
    intros H id sb. unfold fs_loop in H. cbv zeta in H. cbn [opt_value fsub] in H. fold id in H. fold sb in H.
    destruct (flat_value bound sb) as [[s1 v]|] eqn:E1; [|discriminate].
    cbn [new_target] in H.
    match type of H with match ?x with _ => _ end = _ => destruct x as [s2|] eqn:E2; [|discriminate] end.
    exists s1, v, s2. split; [reflexivity|]. cbv zeta. split; [exact E2|]. inversion H. reflexivity.
  Qed.

  Lemma dvoid_while_inv wl wf wtok condn body g g' :
    dispatch_void false false false (Node N_WHILE wl wf wtok (Some condn) (Some body)) g = Ok g' ->
    let ga := advance_line g wl wf in
    exists g3 t g4 g5 g7 g9,
      fetch_temporary (g_newl (g_newl ga)) = Ok (g3, t) /\
      GenModel.set_label g3 (zlen (g_labels ga)) (next_pos g3) = Ok g4 /\
      dispatch_value false condn t g4 = Ok g5 /\
      dispatch_void false false false body (emit_backpatched g5 (IJmpC (zlen (g_labels (g_newl ga))) t)) = Ok g7 /\
      GenModel.set_label (emit_backpatched g7 (IJmp (zlen (g_labels ga)))) (zlen (g_labels (g_newl ga)))
                         (next_pos (emit_backpatched g7 (IJmp (zlen (g_labels ga))))) = Ok g9 /\
      release_temporary g9 t = Ok g'.
  Proof.
    intros H ga. rewrite dvoid_while in H. fold ga in H. cbn [create_label] in H.
    match type of H with bind ?x _ = _ => destruct x as [[g3 t]| |] eqn:E3; cbn [bind] in H; try discriminate end.
    cbv beta iota in H.
    match type of H with bind ?x _ = _ => destruct x as [g4| |] eqn:E4; cbn [bind] in H; try discriminate end.
    cbn [dispatch_value_opt] in H.
    match type of H with bind ?x _ = _ => destruct x as [g5| |] eqn:E5; cbn [bind] in H; try discriminate end.
    cbv zeta in H. cbn [dvo] in H.
    match type of H with bind ?x _ = _ => destruct x as [g7| |] eqn:E7; cbn [bind] in H; try discriminate end.
    match type of H with bind ?x _ = _ => destruct x as [g9| |] eqn:E9; cbn [bind] in H; try discriminate end.
    exists g3, t, g4, g5, g7, g9. split; [exact E3|]. split; [exact E4|]. split; [exact E5|]. split; [exact E7|].
    split; [exact E9 | exact H].
  Qed.

  Lemma fs_while_inv condn body sa s' :
    fs_while (Some condn) (Some body) sa = Some s' ->
    let t_start := zlen (b_targets (f_cur sa)) in
    let t_end := zlen (b_targets (f_cur (s_newt sa))) in
    exists s1 v s2,
      flat_value condn (s_sett (s_newt (s_newt sa)) t_start) = Some (s1, v) /\
      flat_stmt body (s_emit s1 (RWhileTest v t_end)) = Some s2 /\
      s' = s_sett (s_emit s2 (RJump t_start)) t_end.
  Proof.
    intros H t_start t_end. unfold fs_while in H. cbn [new_target] in H. cbn [opt_value fsub] in H.
    match type of H with match ?x with _ => _ end = _ => destruct x as [[s1 v]|] eqn:E1; [|discriminate] end.
    match type of H with match ?x with _ => _ end = _ => destruct x as [s2|] eqn:E2; [|discriminate] end.
    exists s1, v, s2. split; [exact E1|]. split; [exact E2|]. inversion H. reflexivity.
  Qed.

  Lemma is_name_simple b : is_name b = true -> simple_value b = true.
  Proof. destruct b as [t ? ? ? ? ?]. unfold is_name. cbn [n_type]. destruct t; try discriminate. reflexivity. Qed.

  Definition IHbody (body : node) : Prop :=
    forall g s lmap g' s', J g s lmap 0 ->
      dispatch_void false false false body g = Ok g' -> flat_stmt body s = Some s' ->
      exists lmap', SRes g g' s s' lmap lmap'.

  Ltac fext := repeat first [ eassumption | eapply FExt_trans; [eassumption|] ].
  Ltac gext := repeat first [ eassumption | eapply Ext_trans; [eassumption|] ].

  (* LOOP bound DO body *)
  Lemma N_loop ll lf ltok bound body g s lmap g' s' :
    is_name bound = true -> lexable_names bound = true -> on_line lf ll bound = true -> IHbody body ->
    J g s lmap 0 ->
    dispatch_void false false false (Node N_LOOP ll lf ltok (Some bound) (Some body)) g = Ok g' ->
    flat_stmt (Node N_LOOP ll lf ltok (Some bound) (Some body)) s = Some s' ->
    exists lmap', SRes g g' s s' lmap lmap'.
  Proof.
    intros Hnm Hlex Hon IHb HJ HD HF.
    pose proof (is_name_simple _ Hnm) as Hsv.
    apply dvoid_loop_inv in HD. cbv zeta in HD. destruct HD as (g1 & c & g2 & g5 & g7 & D1 & D2 & D5 & D7 & D9).
    rewrite flat_stmt_eq in HF. cbn [fs_body] in HF. apply fs_loop_inv in HF. cbv zeta in HF.
    destruct HF as (s1 & v & s2 & F1 & F2 & ->).
    destruct (L_site P0 g s lmap ll lf HJ) as (J0 & X0 & F0 & A0).
    set (ga := advance_line g ll lf) in *. set (sa := move_to s lf ll) in *.
    destruct (L_cnt P0 ga sa lmap 0 J0) as (g1' & c' & E1 & J1 & X1 & C1 & K1 & P1 & Lp1).
    rewrite D1 in E1. inversion E1; subst g1' c'; clear E1.
    assert (Hid : f_loops sa = g_loops ga) by (destruct J0 as (_ & _ & _ & H); exact H).
    set (id := f_loops sa + 1) in *.
    set (sb := mkF (f_done sa) (f_names sa) (f_cur sa) (f_pos sa) id) in *.
    assert (Fab : FExt sa sb) by (repeat split).
    assert (A1 : at_loc (gpos g1) lf ll) by (rewrite P1; exact A0).
    pose proof (N_value bound lf ll Hsv Hlex Hon g1 sb lmap c g2 s1 v J1 A1 D2 F1) as [RJ RX RF RP RL RM].
    assert (C2 : RC g2 id c). { apply (RC_ext _ _ _ _ RX). unfold id. rewrite Hid. exact C1. }
    (* RLoopInit *)
    destruct (L_bemit P0 g2 s1 lmap (vlen v) (RLoopInit id v) RJ eq_refl) as [J2 F2'].
    { cbn [imatch]. exists c. split; [exact C2|]. replace (zlen (g_code g2) - vlen v) with (zlen (g_code g1)) by lia. exact RM. }
    fold (s_emit s1 (RLoopInit id v)) in J2, F2'. set (sc := s_emit s1 (RLoopInit id v)) in *.
    (* two labels, two targets *)
    destruct (L_newlab P0 g2 sc lmap 0 J2) as (J3 & X3 & F3 & M3).
    fold (g_newl g2) in J3, X3. fold (s_newt sc) in J3, F3.
    set (start := zlen (g_labels g2)) in *. set (t_start := zlen (b_targets (f_cur sc))) in *.
    destruct (L_newlab P0 (g_newl g2) (s_newt sc) _ 0 J3) as (J4 & X4 & F4 & M4).
    fold (g_newl (g_newl g2)) in J4, X4. fold (s_newt (s_newt sc)) in J4, F4.
    set (en := zlen (g_labels (g_newl g2))) in *. set (t_end := zlen (b_targets (f_cur (s_newt sc)))) in *.
    set (lmap2 := (lmap ++ [start]) ++ [en]) in *.
    assert (M3' : znth lmap2 t_start = Some start) by (apply znth_app_some; exact M3).
    (* start := here *)
    destruct (L_setlab P0 (g_newl (g_newl g2)) (s_newt (s_newt sc)) lmap2 t_start start J4 M3') as (ls & E5 & J5 & X5 & F5).
    rewrite D5 in E5. inversion E5; subst g5; clear E5.
    fold (s_sett (s_newt (s_newt sc)) t_start) in J5, F5.
    (* JMPC end / RLoopTest *)
    set (g5 := upd_labels (g_newl (g_newl g2)) ls) in *.
    destruct (L_emit_bp P0 g5 _ lmap2 0 (IJmpC en c) J5) as (J6 & X6 & T6).
    set (g6 := emit_backpatched g5 (IJmpC en c)) in *.
    assert (X26 : Ext g2 g6) by gext.
    assert (Ec6 : g_code g6 = g_code g5 ++ [IJmpC en c]) by reflexivity.
    destruct (L_bemit P0 g6 _ lmap2 (0 + 1) (RLoopTest id t_end) J6 eq_refl) as [J6' F6'].
    { cbn [imatch]. exists c, en. split; [apply (RC_ext _ _ _ _ X26); exact C2|].
      rewrite Ec6, zlen_snoc. replace (zlen (g_code g5) + 1 - (0 + 1)) with (zlen (g_code g5)) by lia.
      split; [apply znth_app_last|]. split; [exact T6 | exact M4]. }
    fold (s_emit (s_sett (s_newt (s_newt sc)) t_start) (RLoopTest id t_end)) in J6', F6'.
    (* the body *)
    destruct (IHb g6 _ lmap2 g7 s2 J6' D7 F2) as (lmap3 & J7 & X7 & F7 & [m3 Em3]).
    (* decrement and jump back *)
    destruct (L_emit P0 g7 s2 lmap3 0 (IAdd c c (-1)) J7) as [J8 X8].
    set (g8 := emit g7 (IAdd c c (-1))) in *.
    destruct (L_emit_bp P0 g8 s2 lmap3 (0 + 1) (IJmp start) J8) as (J9 & X9 & T9).
    set (g9 := emit_backpatched g8 (IJmp start)) in *.
    assert (X29 : Ext g2 g9) by gext.
    assert (Ec8 : g_code g8 = g_code g7 ++ [IAdd c c (-1)]) by reflexivity.
    assert (Ec9 : g_code g9 = (g_code g7 ++ [IAdd c c (-1)]) ++ [IJmp start]) by reflexivity.
    destruct (L_bemit P0 g9 s2 lmap3 (0 + 1 + 1) (RLoopDec id t_start) J9 eq_refl) as [J9' F9'].
    { cbn [imatch]. exists c, start. split; [apply (RC_ext _ _ _ _ X29); exact C2|].
      rewrite Ec8, zlen_snoc in T9.
      rewrite Ec9, !zlen_snoc. replace (zlen (g_code g7) + 1 + 1 - (0 + 1 + 1)) with (zlen (g_code g7)) by lia.
      split; [apply znth_app_some; apply znth_app_last|].
      split; [rewrite <- (zlen_snoc (g_code g7) (IAdd c c (-1))); apply znth_app_last|].
      split; [exact T9 | rewrite Em3; apply znth_app_some; exact M3']. }
    fold (s_emit s2 (RLoopDec id t_start)) in J9', F9'.
    (* end := here *)
    assert (M4' : znth lmap3 t_end = Some en) by (rewrite Em3; apply znth_app_some; exact M4).
    destruct (L_setlab P0 g9 _ lmap3 t_end en J9' M4') as (ls9 & E9 & J10 & X10 & F10).
    rewrite D9 in E9. inversion E9; subst g'; clear E9.
    fold (s_sett (s_emit s2 (RLoopDec id t_start)) t_end) in J10, F10.
    exists lmap3. split; [exact J10|]. split; [gext|]. split; [fext|].
    exists ([start] ++ [en] ++ m3). rewrite Em3. unfold lmap2. rewrite <- !app_assoc. reflexivity.
  Qed.

  (* WHILE cond != 0 DO body *)
  Lemma N_while wl wf wtok condn body g s lmap g' s' :
    is_name condn = true -> lexable_names condn = true -> on_line wf wl condn = true -> IHbody body ->
    J g s lmap 0 ->
    dispatch_void false false false (Node N_WHILE wl wf wtok (Some condn) (Some body)) g = Ok g' ->
    flat_stmt (Node N_WHILE wl wf wtok (Some condn) (Some body)) s = Some s' ->
    exists lmap', SRes g g' s s' lmap lmap'.
  Proof.
    intros Hnm Hlex Hon IHb HJ HD HF.
    pose proof (is_name_simple _ Hnm) as Hsv.
    apply dvoid_while_inv in HD. cbv zeta in HD. destruct HD as (g3 & t & g4 & g5 & g7 & g9 & D3 & D4 & D5 & D7 & D9 & D10).
    rewrite flat_stmt_eq in HF. cbn [fs_body] in HF. apply fs_while_inv in HF. cbv zeta in HF.
    destruct HF as (s1 & v & s2 & F1 & F2 & ->).
    destruct (L_site P0 g s lmap wl wf HJ) as (J0 & X0 & F0 & A0).
    set (ga := advance_line g wl wf) in *. set (sa := move_to s wf wl) in *.
    (* labels *)
    destruct (L_newlab P0 ga sa lmap 0 J0) as (J1 & X1 & F1' & M1).
    fold (g_newl ga) in J1, X1. fold (s_newt sa) in J1, F1'.
    set (start := zlen (g_labels ga)) in *. set (t_start := zlen (b_targets (f_cur sa))) in *.
    destruct (L_newlab P0 (g_newl ga) (s_newt sa) _ 0 J1) as (J2 & X2 & F2' & M2).
    fold (g_newl (g_newl ga)) in J2, X2. fold (s_newt (s_newt sa)) in J2, F2'.
    set (en := zlen (g_labels (g_newl ga))) in *. set (t_end := zlen (b_targets (f_cur (s_newt sa)))) in *.
    set (lmap2 := (lmap ++ [start]) ++ [en]) in *.
    assert (M1' : znth lmap2 t_start = Some start) by (apply znth_app_some; exact M1).
    (* the temporary of the condition *)
    destruct (L_tmp P0 (g_newl (g_newl ga)) (s_newt (s_newt sa)) lmap2 0 J2) as (g3' & t' & E3 & J3 & X3 & S3 & T3 & _ & _).
    rewrite D3 in E3. inversion E3; subst g3' t'; clear E3.
    (* start := here *)
    destruct (L_setlab P0 g3 (s_newt (s_newt sa)) lmap2 t_start start J3 M1') as (ls & E4 & J4 & X4 & F4).
    rewrite D4 in E4. inversion E4; subst g4; clear E4.
    fold (s_sett (s_newt (s_newt sa)) t_start) in J4, F4.
    set (g4 := upd_labels g3 ls) in *.
    (* the condition *)
    assert (A4 : at_loc (gpos g4) wf wl).
    { change (gpos g4) with (gpos g3). rewrite (sm_pos _ _ S3). exact A0. }
    pose proof (N_value condn wf wl Hsv Hlex Hon g4 _ lmap2 t g5 s1 v J4 A4 D5 F1) as [RJ RX RF RP RL RM].
    (* JMPC end / RWhileTest *)
    destruct (L_emit_bp P0 g5 s1 lmap2 (vlen v) (IJmpC en t) RJ) as (J6 & X6 & T6).
    set (g6 := emit_backpatched g5 (IJmpC en t)) in *.
    assert (T4 : RT g4 t) by (apply (RT_ext _ _ _ X4); exact T3).
    assert (X46 : Ext g4 g6) by gext.
    assert (Ec6 : g_code g6 = g_code g5 ++ [IJmpC en t]) by reflexivity.
    destruct (L_bemit P0 g6 s1 lmap2 (vlen v + 1) (RWhileTest v t_end) J6 eq_refl) as [J6' F6'].
    { cbn [imatch]. exists t, en. split; [apply (RT_ext _ _ _ X46); exact T4|].
      rewrite Ec6, zlen_snoc. replace (zlen (g_code g5) + 1 - (vlen v + 1)) with (zlen (g_code g4)) by lia.
      split; [apply (vmatch_ext _ _ _ _ _ X6); exact RM|].
      replace (zlen (g_code g4) + vlen v) with (zlen (g_code g5)) by lia.
      split; [apply znth_app_last|]. split; [exact T6 | exact M2]. }
    fold (s_emit s1 (RWhileTest v t_end)) in J6', F6'.
    (* the body *)
    destruct (IHb g6 _ lmap2 g7 s2 J6' D7 F2) as (lmap3 & J7 & X7 & F7 & [m3 Em3]).
    (* jump back *)
    destruct (L_emit_bp P0 g7 s2 lmap3 0 (IJmp start) J7) as (J8 & X8 & T8).
    set (g8 := emit_backpatched g7 (IJmp start)) in *.
    assert (Ec8 : g_code g8 = g_code g7 ++ [IJmp start]) by reflexivity.
    destruct (L_bemit P0 g8 s2 lmap3 (0 + 1) (RJump t_start) J8 eq_refl) as [J8' F8'].
    { cbn [imatch]. exists start. rewrite Ec8, zlen_snoc.
      replace (zlen (g_code g7) + 1 - (0 + 1)) with (zlen (g_code g7)) by lia.
      split; [apply znth_app_last|]. split; [exact T8 | rewrite Em3; apply znth_app_some; exact M1']. }
    fold (s_emit s2 (RJump t_start)) in J8', F8'.
    (* end := here *)
    assert (M2' : znth lmap3 t_end = Some en) by (rewrite Em3; apply znth_app_some; exact M2).
    destruct (L_setlab P0 g8 _ lmap3 t_end en J8' M2') as (ls9 & E9 & J9 & X9 & F9).
    rewrite D9 in E9. inversion E9; subst g9; clear E9.
    fold (s_sett (s_emit s2 (RJump t_start)) t_end) in J9, F9.
    (* release the temporary *)
    assert (X49 : Ext g4 (upd_labels g8 ls9)) by gext.
    assert (T9 : RT (upd_labels g8 ls9) t) by (apply (RT_ext _ _ _ X49); exact T4).
    destruct (L_rel P0 _ _ lmap3 0 t J9 T9) as (g10 & E10 & J10 & X10 & S10).
    rewrite D10 in E10. inversion E10; subst g10; clear E10.
    exists lmap3. split; [exact J10|]. split; [gext|]. split; [fext|].
    exists ([start] ++ [en] ++ m3). rewrite Em3. unfold lmap2. rewrite <- !app_assoc. reflexivity.
  Qed.

  (* ================================================================================================ *)
  (* 4. sequencing, marks, and the induction over structured trees                                    *)
  (* ================================================================================================ *)
  Lemma N_mark ml mf mtok el ef etok ec1 ec2 mr :
    IHbody (Node N_MARK ml mf mtok (Some (Node N_NAME el ef etok ec1 ec2)) mr).
  Proof.
    intros g s lmap g' s' HJ HD HF.
    rewrite dvoid_mark in HD. cbn [child of_opt bind n_tok] in HD.
    rewrite flat_stmt_eq in HF. cbn [fs_body n_tok] in HF. inversion HF; subst s'; clear HF.
    destruct (L_site P0 g s lmap ml mf HJ) as (J0 & X0 & F0 & A0).
    destruct (L_mark _ _ lmap etok (mark_pos (f_cur (move_to s mf ml))) g' J0 HD) as (J1 & X1 & F1 & _).
    exists lmap. split; [exact J1|]. split; [eapply Ext_trans; eauto|]. split; [eapply FExt_trans; eauto | apply nil_ex].
  Qed.

  Lemma N_split line file tok a r :
    IHbody a -> (match r with Some x => IHbody x | None => True end) ->
    IHbody (Node N_SPLIT line file tok (Some a) r).
  Proof.
    intros IHa IHr g s lmap g' s' HJ HD HF.
    rewrite dvoid_split in HD. cbn [dvo] in HD.
    rewrite flat_stmt_eq in HF. cbn [fs_body] in HF. unfold fs_split in HF. cbn [fsub] in HF.
    destruct (L_site P0 g s lmap line file HJ) as (J0 & X0 & F0 & A0).
    destruct (dispatch_void false false false a (advance_line g line file)) as [g1| |] eqn:E1; cbn [bind] in HD; try discriminate.
    destruct (flat_stmt a (move_to s file line)) as [s1|] eqn:EF1; [|discriminate].
    destruct (IHa _ _ lmap g1 s1 J0 E1 EF1) as (lmap1 & J1 & X1 & F1 & [m1 Em1]).
    destruct r as [rest|].
    - cbn [dvo] in HD. cbn [fsub] in HF.
      destruct (IHr _ _ lmap1 g' s' J1 HD HF) as (lmap2 & J2 & X2 & F2 & [m2 Em2]).
      exists lmap2. split; [exact J2|]. split; [eapply Ext_trans; [exact X0|]; eapply Ext_trans; eauto|].
      split; [eapply FExt_trans; [exact F0|]; eapply FExt_trans; eauto|].
      exists (m1 ++ m2). rewrite Em2, Em1, app_assoc. reflexivity.
    - cbn [dvo] in HD. cbn [fsub] in HF. inversion HD; subst g'. inversion HF; subst s'.
      exists lmap1. split; [exact J1|]. split; [eapply Ext_trans; eauto|]. split; [eapply FExt_trans; eauto|].
      exists m1. exact Em1.
  Qed.

  (* the trees of stage 2, as an inductive shape *)
  Definition ropt (r : option node) : Prop := match r with None => True | Some x => structured x = true end.

  Inductive SShape : node -> Prop :=
  | SS_assign line file tok al af atok tgt v r :
      is_name tgt = true -> simple_value v = true -> on_line af al v = true -> ropt r ->
      SShape (Node N_SPLIT line file tok (Some (Node N_ASSIGN al af atok (Some tgt) (Some v))) r)
  | SS_loop line file tok l2 f2 t2 ll lf ltok bound body ml mf mtok el ef etok r :
      is_name bound = true -> on_line lf ll bound = true -> structured body = true -> ropt r ->
      SShape (Node N_SPLIT line file tok
                (Some (Node N_SPLIT l2 f2 t2 (Some (Node N_LOOP ll lf ltok (Some bound) (Some body)))
                         (Some (Node N_MARK ml mf mtok (Some (Node N_NAME el ef etok None None)) None)))) r)
  | SS_while line file tok l2 f2 t2 ll lf ltok bound body ml mf mtok el ef etok r :
      is_name bound = true -> on_line lf ll bound = true -> structured body = true -> ropt r ->
      SShape (Node N_SPLIT line file tok
                (Some (Node N_SPLIT l2 f2 t2 (Some (Node N_WHILE ll lf ltok (Some bound) (Some body)))
                         (Some (Node N_MARK ml mf mtok (Some (Node N_NAME el ef etok None None)) None)))) r).

  Lemma structured_inv n : structured n = true -> SShape n.
  Proof.
    intros H. destruct n as [t line file tok l r]. cbn [structured] in H.
    repeat match type of H with
           | context [match ?x with _ => _ end] => is_var x; destruct x; try discriminate H
           end;
      rewrite ?andb_true_iff in H; decompose [and] H;
      first [ eapply SS_assign | eapply SS_loop | eapply SS_while ]; cbn [ropt]; auto.
  Qed.

  Lemma joint : forall n, all_sub Pjoint n.
  Proof.
    apply all_sub_intro. intros t line file tok l r Hl Hr Hs Hlex.
    pose proof (structured_inv _ Hs) as Sh.
    assert (IHr : match r with Some x => IHbody x | None => True end).
    { destruct r as [rest|]; [|exact I]. cbn [optP] in Hr. apply all_sub_here in Hr.
      assert (Hsr : structured rest = true) by (inversion Sh; subst; assumption).
      assert (Hlr : lexable_names rest = true).
      { cbn [lexable_names] in Hlex. rewrite !andb_true_iff in Hlex. apply Hlex. }
      exact (Hr Hsr Hlr). }
    inversion Sh as [line0 file0 tok0 al af atok tgt v r0 Hn Hsv Hon Hr0 E0
                    |line0 file0 tok0 l2 f2 t2 ll lf ltok bound body ml mf mtok el ef etok r0 Hn Hon Hsb Hr0 E0
                    |line0 file0 tok0 l2 f2 t2 ll lf ltok bound body ml mf mtok el ef etok r0 Hn Hon Hsb Hr0 E0];
      subst; clear Sh.
    - (* assignment *)
      apply N_split; [|exact IHr].
      intros g s lmap g' s' HJ HD HF. exists lmap.
      destruct tgt as [tt lt ft x ct1 ct2].
      assert (Ett : tt = N_NAME) by (unfold is_name in Hn; cbn [n_type] in Hn; destruct tt; try discriminate; reflexivity).
      cbn [lexable_names] in Hlex. rewrite !andb_true_iff in Hlex.
      destruct Hlex as [[_ [[_ [[Hx _] _]] Hlv]] _]. subst tt.
      eapply N_assign; eauto.
    - (* LOOP *)
      apply N_split; [|exact IHr].
      cbn [lexable_names] in Hlex. rewrite !andb_true_iff in Hlex.
      destruct Hlex as [[_ [[_ [[_ Hlb] Hlbody]] _]] _].
      apply N_split; [|apply N_mark].
      intros g s lmap g' s' HJ HD HF. eapply N_loop; eauto.
      cbn [optP all_sub] in Hl. destruct Hl as (_ & (_ & _ & Hb) & _). apply all_sub_here in Hb.
      exact (Hb Hsb Hlbody).
    - (* WHILE *)
      apply N_split; [|exact IHr].
      cbn [lexable_names] in Hlex. rewrite !andb_true_iff in Hlex.
      destruct Hlex as [[_ [[_ [[_ Hlb] Hlbody]] _]] _].
      apply N_split; [|apply N_mark].
      intros g s lmap g' s' HJ HD HF. eapply N_while; eauto.
      cbn [optP all_sub] in Hl. destruct Hl as (_ & (_ & _ & Hb) & _). apply all_sub_here in Hb.
      exact (Hb Hsb Hlbody).
  Qed.

  Theorem joint_walk n : structured n = true -> lexable_names n = true -> IHbody n.
  Proof. intros Hs Hl. exact (all_sub_here _ _ (joint n) Hs Hl). Qed.
End Walk.
