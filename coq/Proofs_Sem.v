(* Proofs_Sem.v — proofs of the statements of SemStatements.v (C01 reference semantics, C07, C16). *)
From Coq Require Import List ZArith NArith Lia Bool.
From Theo Require Import Base Tokens MacroExtract Parser VMModel VMSpec VMStatements RefSem SemStatements Proofs_VM_dbg.
Local Open Scope Z_scope.

(* ================================================================================================ *)
(* C07                                                                                              *)
(* ================================================================================================ *)
Lemma C07_stops_are_sites_proof : C07_stops_are_sites_stmt.
Proof.
  intros p s s' b Ht R Hstep Hex.
  destruct (exec1_inv _ _ _ Hex) as (ins & Hins & Hprog & Hen & Hst & Hcase).
  assert (Hop : op_at s (ip s) = Some (iop ins)) by (unfold op_at; rewrite Hins; reflexivity).
  split.
  - unfold halt_at. rewrite Hop.
    destruct (iop ins) eqn:E;
      try (assert (Hb : b = false) by exact Hcase; subst b; split;
           [ discriminate
           | intros [(o & Ho & Hbo) | Hh];
             [ inversion Ho; subst o; discriminate Hbo | discriminate Hh ] ]).
    + destruct Hcase as [Hb _]. rewrite Hb, Hstep. split; [|reflexivity].
      intros _. left. exists POTENTIAL_BREAK. split; reflexivity.
    + destruct Hcase as [Hb _]. rewrite Hb. split; [|reflexivity].
      intros _. left. exists BREAK. split; reflexivity.
    + destruct Hcase as [Hb _]. rewrite Hb. split; [|reflexivity].
      intros _. right. reflexivity.
  - intros Hb Hnh. subst b.
    destruct (proj1 C06_location_proof p s s' Ht R Hex Hnh) as (l & Hl & Hg).
    exists l. split; [exact Hl|]. split; [exact Hg|].
    pose proof (tables_ok_unpack _ Ht) as T.
    pose proof (TB _ T _ _ Hl) as Hin.
    unfold sites in Hin.
    destruct (alookup bp_ltb (potential_breaks p) l) as [l0|] eqn:El; [|contradiction].
    apply bp_alookup_in in El. unfold available.
    change l with (fst (l, l0)). apply in_map. exact El.
Qed.

(* ================================================================================================ *)
(* C16 : flattening only produces calls to earlier routines                                         *)
(* ================================================================================================ *)

(* ---- induction principles -------------------------------------------------------------------- *)
Lemma rvalue_ind' (P : rvalue -> Prop) :
  (forall y, P (RVar y)) -> (forall c, P (RNum c)) ->
  (forall y c, P y -> P (RInc y c)) -> (forall y c, P y -> P (RDec y c)) ->
  (forall j args, Forall P args -> P (RCall j args)) ->
  forall v, P v.
Proof.
  intros H1 H2 H3 H4 H5. fix IH 1. intros [y|c|y c|y c|j args].
  - apply H1.
  - apply H2.
  - apply H3. apply IH.
  - apply H4. apply IH.
  - apply H5.
    exact ((fix go (l : list rvalue) : Forall P l :=
              match l with
              | [] => Forall_nil P
              | x :: t => Forall_cons x (IH x) (go t)
              end) args).
Qed.

Definition opt_all (P : node -> Prop) (o : option node) : Prop :=
  match o with Some x => P x | None => True end.

Lemma node_ind' (P : node -> Prop) :
  (forall t line file tok l r, opt_all P l -> opt_all P r -> P (Node t line file tok l r)) ->
  forall n, P n.
Proof.
  intros H. fix IH 1. intros [t line file tok l r]. apply H.
  - destruct l as [x|]; [apply IH | exact I].
  - destruct r as [x|]; [apply IH | exact I].
Qed.

Fixpoint nsize (n : node) : nat :=
  match n with
  | Node _ _ _ _ l r =>
      S ((match l with Some x => nsize x | None => 0 end) + (match r with Some x => nsize x | None => 0 end))
  end.

(* ---- calls_below is monotone ---------------------------------------------------------------- *)
Lemma calls_below_mono k k' : (k <= k')%nat -> forall v, calls_below k v = true -> calls_below k' v = true.
Proof.
  intros Hk. induction v as [y|c|y c IH|y c IH|j args IH] using rvalue_ind'; cbn [calls_below]; auto.
  intros H. apply andb_true_iff in H. destruct H as [Hj Ha]. apply andb_true_iff. split.
  - apply Nat.ltb_lt in Hj. apply Nat.ltb_lt. lia.
  - rewrite forallb_forall in *. rewrite Forall_forall in IH. intros x Hx. apply IH; auto.
Qed.

Lemma instr_calls_below_mono k k' i : (k <= k')%nat -> instr_calls_below k i = true -> instr_calls_below k' i = true.
Proof.
  intros Hk. destruct i; cbn [instr_calls_below]; auto; try apply calls_below_mono; auto.
  intros H. apply andb_true_iff in H. destruct H as [Ha Hb].
  apply andb_true_iff; split; eapply calls_below_mono; eauto.
Qed.

Definition goodc (K : nat) (c : list rinstr) : Prop := forallb (instr_calls_below K) c = true.

Lemma goodc_mono k k' c : (k <= k')%nat -> goodc k c -> goodc k' c.
Proof.
  unfold goodc. intros Hk H. rewrite forallb_forall in *. intros x Hx.
  eapply instr_calls_below_mono; eauto.
Qed.

Lemma goodc_app K a b : goodc K (a ++ b) <-> goodc K a /\ goodc K b.
Proof. unfold goodc. rewrite forallb_app. apply andb_true_iff. Qed.

Lemma goodc_emit K c i : goodc K c -> instr_calls_below K i = true -> goodc K (c ++ [i]).
Proof. intros H Hi. apply goodc_app. split; auto. unfold goodc. cbn. rewrite Hi. reflexivity. Qed.

Lemma goodc_removelast K c : goodc K c -> goodc K (removelast c).
Proof.
  unfold goodc. induction c as [|x t IH]; [auto|]. intros H.
  cbn [forallb] in H. apply andb_true_iff in H. destruct H as [Hx Ht].
  destruct t as [|y t']; [reflexivity|].
  change (removelast (x :: y :: t')) with (x :: removelast (y :: t')).
  cbn [forallb]. rewrite Hx. cbn [andb]. apply IH. exact Ht.
Qed.

Definition good (s : fstate) : Prop :=
  (forall k r, nth_error (f_done s) k = Some r -> goodc k (r_code r)) /\
  goodc (length (f_done s)) (b_code (f_cur s)).

Lemma good_cur s b : good s -> goodc (length (f_done s)) (b_code b) -> good (with_cur s b).
Proof. intros [Ha Hb] H. split; cbn; auto. Qed.

(* code of the builder operations *)
Lemma b_code_mention b x : b_code (mention b x) = b_code b.
Proof. unfold mention. destruct (existsb _ _); reflexivity. Qed.
Lemma b_code_bemit b i : b_code (bemit b i) = b_code b ++ [i].
Proof. reflexivity. Qed.
Lemma b_code_set_target b id pos : b_code (set_target b id pos) = b_code b.
Proof. unfold set_target. destruct (zupd _ _ _); reflexivity. Qed.
Lemma b_code_set_label b l pos : b_code (set_label b l pos) = b_code b.
Proof. reflexivity. Qed.
Lemma b_code_touch_label b l : b_code (touch_label b l) = b_code b.
Proof. unfold touch_label. destruct (existsb _ _); reflexivity. Qed.
Lemma b_code_new_target b : b_code (fst (new_target b)) = b_code b.
Proof. reflexivity. Qed.
Lemma b_code_fold_mention l : forall b, b_code (fold_left mention l b) = b_code b.
Proof. induction l as [|x t IH]; intros b; cbn [fold_left]; [reflexivity|]. rewrite IH. apply b_code_mention. Qed.

Lemma f_done_with_cur s b : f_done (with_cur s b) = f_done s.
Proof. reflexivity. Qed.
Lemma f_cur_with_cur s b : f_cur (with_cur s b) = b.
Proof. reflexivity. Qed.

Lemma f_done_move_to s f l : f_done (move_to s f l) = f_done s.
Proof. unfold move_to. destruct (str_eqb f _); [reflexivity|]. destruct (_ && _); reflexivity. Qed.

Lemma good_move_to s f l : good s -> good (move_to s f l).
Proof.
  intros G. unfold move_to. destruct (str_eqb f _); [exact G|]. destruct (_ && _); [exact G|].
  destruct G as [Ha Hb]. split; cbn; auto. apply goodc_emit; auto.
Qed.

(* ---- flat_value ------------------------------------------------------------------------------- *)
Definition fargs : node -> fstate * list rvalue -> option (fstate * list rvalue) :=
  fix args (a : node) (acc : fstate * list rvalue) {struct a} : option (fstate * list rvalue) :=
    match a with
    | Node N_SPLIT _ _ _ al ar =>
        match (match al with None => Some acc | Some x => args x acc end) with
        | None => None
        | Some acc1 => match ar with None => Some acc1 | Some x => args x acc1 end
        end
    | leaf =>
        match flat_value leaf (fst acc) with
        | Some (s', v) => Some (s', snd acc ++ [v])
        | None => None
        end
    end.

Definition fargs_opt (o : option node) (acc : fstate * list rvalue) : option (fstate * list rvalue) :=
  match o with None => Some acc | Some x => fargs x acc end.

Lemma fargs_eq t line file tok al ar acc :
  fargs (Node t line file tok al ar) acc =
  match t with
  | N_SPLIT => match fargs_opt al acc with None => None | Some acc1 => fargs_opt ar acc1 end
  | _ => match flat_value (Node t line file tok al ar) (fst acc) with
         | Some (s', v) => Some (s', snd acc ++ [v])
         | None => None
         end
  end.
Proof. destruct t; reflexivity. Qed.

Definition builtin_of (r : option node) (vs : list rvalue) : option (rvalue * Z) :=
  match r, vs with
  | Some (Node _ _ _ _ (Some a1) (Some (Node _ _ _ _ (Some a2) _))), [v1; v2] =>
      match n_type a1, n_type a2 with
      | N_NAME, N_NUMBER => Some (v1, lit a2)
      | _, _ => None
      end
  | _, _ => None
  end.

Lemma builtin_of_in r vs v1 c : builtin_of r vs = Some (v1, c) -> In v1 vs.
Proof.
  unfold builtin_of. intros H.
  repeat match type of H with
         | context [match ?x with _ => _ end] => destruct x; try discriminate H
         end.
  inversion H; subst. left; reflexivity.
Qed.

Lemma flat_value_call line file tok ln r s :
  flat_value (Node N_CALL line file tok (Some ln) r) s =
  let s := move_to s file line in
  match (match r with None => Some (s, []) | Some rn0 => fargs rn0 (s, []) end) with
  | None => None
  | Some (s1, vs) =>
      match builtin_of r vs with
      | Some (v1, c) =>
          if str_eqb (n_tok ln) [95; 95; 73; 78; 67; 95; 95]%N then Some (s1, RInc v1 c)
          else if str_eqb (n_tok ln) [95; 95; 68; 69; 67; 95; 95]%N then Some (s1, RDec v1 c)
          else resolve_call s1 (n_tok ln) vs
      | None => resolve_call s1 (n_tok ln) vs
      end
  end.
Proof. reflexivity. Qed.

Lemma flat_value_name line file tok l r s :
  flat_value (Node N_NAME line file tok l r) s =
  let s := move_to s file line in Some (with_cur s (mention (f_cur s) tok), RVar tok).
Proof. reflexivity. Qed.

Lemma flat_value_number line file tok l r s :
  flat_value (Node N_NUMBER line file tok l r) s =
  let s := move_to s file line in
  if INT_MAX <=? strtol tok then None else Some (s, RNum (strtol tok)).
Proof. reflexivity. Qed.

Lemma flat_value_other t line file tok l r s :
  t <> N_NAME -> t <> N_NUMBER -> (t = N_CALL -> l = None) ->
  flat_value (Node t line file tok l r) s = None.
Proof.
  intros H1 H2 H3. destruct t; try congruence; try reflexivity.
  rewrite H3 by reflexivity. reflexivity.
Qed.

Lemma resolve_call_inv s f vs s' v :
  resolve_call s f vs = Some (s', v) -> s' = s /\ exists j, v = RCall j vs /\ (j < length (f_done s))%nat.
Proof.
  unfold resolve_call. intros H.
  destruct (lookup_name (f_names s) f) as [j|]; [|discriminate].
  destruct (nth_error (f_done s) j) as [callee|] eqn:E; [|discriminate].
  destruct (Nat.eqb _ _); [|discriminate]. inversion H; subst.
  split; [reflexivity|]. exists j. split; [reflexivity|].
  apply nth_error_Some. congruence.
Qed.

Definition FVP (n : node) : Prop :=
  forall s s' v, good s -> flat_value n s = Some (s', v) ->
    good s' /\ calls_below (length (f_done s')) v = true /\ f_done s' = f_done s.

Definition FAP (a : node) : Prop :=
  forall acc acc', good (fst acc) -> forallb (calls_below (length (f_done (fst acc)))) (snd acc) = true ->
    fargs a acc = Some acc' ->
    good (fst acc') /\ forallb (calls_below (length (f_done (fst acc')))) (snd acc') = true /\
    f_done (fst acc') = f_done (fst acc).

Lemma fargs_ok m : (forall n, (nsize n < m)%nat -> FVP n) -> forall a, (nsize a < m)%nat -> FAP a.
Proof.
  intros IHm. induction a as [t line file tok al ar IHl IHr] using node_ind'.
  intros Hsz acc acc' G Hacc H. rewrite fargs_eq in H.
  assert (Hleaf : match flat_value (Node t line file tok al ar) (fst acc) with
                  | Some (s', v) => Some (s', snd acc ++ [v])
                  | None => None
                  end = Some acc' ->
                  good (fst acc') /\ forallb (calls_below (length (f_done (fst acc')))) (snd acc') = true /\
                  f_done (fst acc') = f_done (fst acc)).
  { clear H. intros H.
    destruct (flat_value (Node t line file tok al ar) (fst acc)) as [[s' v]|] eqn:E; [|discriminate].
    inversion H; subst acc'. cbn [fst snd].
    destruct (IHm _ Hsz _ _ _ G E) as (G' & Hv & Hd).
    split; [exact G'|]. split; [|exact Hd].
    rewrite forallb_app. rewrite Hd. rewrite Hacc. cbn. rewrite <- Hd. rewrite Hv. reflexivity. }
  destruct t; try (apply Hleaf; exact H).
  clear Hleaf. cbn [nsize] in Hsz.
  destruct (fargs_opt al acc) as [acc1|] eqn:E1; [|discriminate].
  assert (S1 : good (fst acc1) /\ forallb (calls_below (length (f_done (fst acc1)))) (snd acc1) = true /\
               f_done (fst acc1) = f_done (fst acc)).
  { destruct al as [x|]; cbn [fargs_opt] in E1.
    - apply IHl; auto. lia.
    - inversion E1; subst; auto. }
  destruct S1 as (G1 & A1 & D1).
  destruct ar as [x|]; cbn [fargs_opt] in H.
  - destruct (IHr ltac:(lia) _ _ G1 A1 H) as (G2 & A2 & D2).
    split; [exact G2|]. split; [exact A2|]. congruence.
  - inversion H; subst; auto.
Qed.

Lemma flat_value_ok : forall n, FVP n.
Proof.
  assert (HH : forall m n, (nsize n < m)%nat -> FVP n).
  { induction m as [|m IHm]; [intros n Hn; lia|].
    intros [t line file tok l r] Hsz s s' v G H.
    pose proof (good_move_to s file line G) as G0.
    pose proof (f_done_move_to s file line) as D0.
    destruct t;
      try (rewrite flat_value_other in H by (congruence || discriminate); discriminate H).
    - (* NAME *)
      rewrite flat_value_name in H. cbv zeta in H. inversion H; subst.
      split; [|split; [reflexivity | exact D0]].
      apply good_cur; auto. rewrite b_code_mention. apply G0.
    - (* NUMBER *)
      rewrite flat_value_number in H. cbv zeta in H.
      destruct (INT_MAX <=? strtol tok); [discriminate|]. inversion H; subst.
      split; [exact G0|]. split; [reflexivity | exact D0].
    - (* CALL *)
      destruct l as [ln|]; [|rewrite flat_value_other in H by (congruence || discriminate); discriminate H].
      rewrite flat_value_call in H. cbv zeta in H.
      set (s0 := move_to s file line) in *.
      destruct (match r with None => Some (s0, []) | Some rn0 => fargs rn0 (s0, []) end)
        as [[s1 vs]|] eqn:E; [|discriminate].
      assert (S1 : good s1 /\ forallb (calls_below (length (f_done s1))) vs = true /\ f_done s1 = f_done s0).
      { destruct r as [rn0|].
        - assert (Hr : (nsize rn0 < S m)%nat) by (cbn [nsize] in Hsz; lia).
          assert (Hr' : (nsize rn0 < m)%nat) by (cbn [nsize] in Hsz; lia).
          exact (fargs_ok m IHm rn0 Hr' (s0, []) (s1, vs) G0 eq_refl E).
        - inversion E; subst. auto. }
      destruct S1 as (G1 & A1 & D1).
      assert (HR : forall s' v, resolve_call s1 (n_tok ln) vs = Some (s', v) ->
                   good s' /\ calls_below (length (f_done s')) v = true /\ f_done s' = f_done s).
      { intros s2 v2 HRc. apply resolve_call_inv in HRc. destruct HRc as (-> & j & -> & Hj).
        split; [exact G1|]. split; [|congruence].
        cbn [calls_below]. rewrite A1. apply Nat.ltb_lt in Hj. rewrite Hj. reflexivity. }
      destruct (builtin_of r vs) as [[v1 c]|] eqn:EB; [|apply HR; exact H].
      apply builtin_of_in in EB.
      rewrite forallb_forall in A1. specialize (A1 _ EB).
      destruct (str_eqb (n_tok ln) _).
      { inversion H; subst. split; [exact G1|]. split; [exact A1 | congruence]. }
      destruct (str_eqb (n_tok ln) _).
      { inversion H; subst. split; [exact G1|]. split; [exact A1 | congruence]. }
      apply HR; exact H. }
  intros n. apply (HH (S (nsize n))). lia.
Qed.

Lemma opt_value_ok o s s' v : good s -> opt_value o s = Some (s', v) ->
  good s' /\ calls_below (length (f_done s')) v = true /\ f_done s' = f_done s.
Proof. destruct o as [n|]; cbn [opt_value]; [apply flat_value_ok | discriminate]. Qed.

(* ---- flat_stmt -------------------------------------------------------------------------------- *)
Definition fsub (o : option node) (s : fstate) : option fstate :=
  match o with None => Some s | Some x => flat_stmt x s end.

Definition fs_split (l r : option node) (s : fstate) : option fstate :=
  match fsub l s with None => None | Some s1 => fsub r s1 end.

Definition fs_program (name : node) (ports body : option node) (s : fstate) : option fstate :=
  let outer := f_cur s in
  let outer := if last_is_site outer
               then mkB (b_name outer) (b_params outer) (removelast (b_code outer)) (b_labels outer) (b_targets outer) (b_vars outer)
               else outer in
  let params := match ports with Some (Node _ _ _ _ (Some a) _) => param_names a | _ => [] end in
  let out := match ports with Some (Node _ _ _ _ _ (Some o)) => n_tok o | _ => [120; 48]%N end in
  let b0 := fold_left mention params (mkB (n_tok name) params [] [] [] []) in
  let s1 := mkF (f_done s) (f_names s) b0 (f_pos s) (f_loops s) in
  if negb (no_dup params) then None else
  match fsub body s1 with
  | None => None
  | Some s2 =>
      let b := bemit (mention (f_cur s2) out) (RReturn out) in
      let idx := length (f_done s2) in
      Some (mkF (f_done s2 ++ [finish_routine b]) ((n_tok name, idx) :: f_names s2) outer (f_pos s2) (f_loops s2))
  end.

Definition fs_assign (ln : node) (r : option node) (s : fstate) : option fstate :=
  let s0 := with_cur s (mention (f_cur s) (n_tok ln)) in
  match opt_value r s0 with
  | Some (s1, v) => Some (with_cur s1 (bemit (f_cur s1) (RAssign (n_tok ln) v)))
  | None => None
  end.

Definition fs_loop (l r : option node) (s : fstate) : option fstate :=
  let id := f_loops s + 1 in
  let s0 := mkF (f_done s) (f_names s) (f_cur s) (f_pos s) id in
  match opt_value l s0 with
  | None => None
  | Some (s1, v) =>
      let b1 := bemit (f_cur s1) (RLoopInit id v) in
      let '(b2, t_start) := new_target b1 in
      let '(b3, t_end) := new_target b2 in
      let b4 := set_target b3 t_start (bnext b3) in
      let b5 := bemit b4 (RLoopTest id t_end) in
      match fsub r (with_cur s1 b5) with
      | None => None
      | Some s2 =>
          let b6 := bemit (f_cur s2) (RLoopDec id t_start) in
          Some (with_cur s2 (set_target b6 t_end (bnext b6)))
      end
  end.

Definition fs_while (l r : option node) (s : fstate) : option fstate :=
  let '(b1, t_start) := new_target (f_cur s) in
  let '(b2, t_end) := new_target b1 in
  let b3 := set_target b2 t_start (bnext b2) in
  match opt_value l (with_cur s b3) with
  | None => None
  | Some (s1, v) =>
      let b4 := bemit (f_cur s1) (RWhileTest v t_end) in
      match fsub r (with_cur s1 b4) with
      | None => None
      | Some s2 =>
          let b5 := bemit (f_cur s2) (RJump t_start) in
          Some (with_cur s2 (set_target b5 t_end (bnext b5)))
      end
  end.

Definition fs_if (a b : option node) (target : node) (s : fstate) : option fstate :=
  match opt_value a s with
  | None => None
  | Some (s1, va) =>
      match opt_value b s1 with
      | None => None
      | Some (s2, vb) =>
          Some (with_cur s2 (bemit (touch_label (f_cur s2) (n_tok target)) (RIfGoto va vb (n_tok target))))
      end
  end.

Definition fs_body (t : ntype) (l r : option node) (s : fstate) : option fstate :=
  match t with
  | N_SPLIT => fs_split l r s
  | N_PROGRAM =>
      match l with
      | Some (Node _ _ _ _ (Some name) ports) => fs_program name ports r s
      | _ => None
      end
  | N_ASSIGN => match l with Some ln => fs_assign ln r s | None => None end
  | N_LOOP => fs_loop l r s
  | N_WHILE => fs_while l r s
  | N_MARK =>
      match l with
      | Some ln => Some (with_cur s (set_label (f_cur s) (n_tok ln) (mark_pos (f_cur s))))
      | None => None
      end
  | N_GOTO =>
      match l with
      | Some ln => Some (with_cur s (bemit (touch_label (f_cur s) (n_tok ln)) (RGoto (n_tok ln))))
      | None => None
      end
  | N_IF =>
      match l, r with
      | Some (Node _ _ _ _ a b), Some (Node _ _ _ _ (Some target) _) => fs_if a b target s
      | _, _ => None
      end
  | N_STOP => Some (with_cur s (bemit (f_cur s) RStop))
  | _ => None
  end.

Lemma flat_stmt_eq t line file tok l r s :
  flat_stmt (Node t line file tok l r) s = fs_body t l r (move_to s file line).
Proof.
  destruct t; try reflexivity;
    repeat (match goal with
            | |- context [match ?x with _ => _ end] => is_var x; destruct x
            end; try reflexivity).
Qed.

Definition SP (n : node) : Prop :=
  forall s s', good s -> flat_stmt n s = Some s' -> good s' /\ (length (f_done s) <= length (f_done s'))%nat.

Lemma fsub_ok o s s' : opt_all SP o -> good s -> fsub o s = Some s' ->
  good s' /\ (length (f_done s) <= length (f_done s'))%nat.
Proof.
  destruct o as [x|]; cbn [opt_all fsub]; intros IH G H.
  - apply IH; auto.
  - inversion H; subst. auto.
Qed.

Ltac bcode :=
  repeat (rewrite ?b_code_set_target, ?b_code_bemit, ?b_code_mention, ?b_code_touch_label,
                  ?b_code_set_label, ?b_code_fold_mention, ?f_cur_with_cur, ?f_done_with_cur; cbn [b_code f_cur f_done fst]).

Lemma fs_split_ok l r s s' : opt_all SP l -> opt_all SP r -> good s -> fs_split l r s = Some s' ->
  good s' /\ (length (f_done s) <= length (f_done s'))%nat.
Proof.
  intros IHl IHr G H. unfold fs_split in H.
  destruct (fsub l s) as [s1|] eqn:E1; [|discriminate].
  destruct (fsub_ok _ _ _ IHl G E1) as [G1 L1].
  destruct (fsub_ok _ _ _ IHr G1 H) as [G2 L2]. split; [auto | lia].
Qed.

Lemma fs_program_ok name ports body s s' : opt_all SP body -> good s -> fs_program name ports body s = Some s' ->
  good s' /\ (length (f_done s) <= length (f_done s'))%nat.
Proof.
  intros IHb G H. unfold fs_program in H.
  set (outer := if last_is_site (f_cur s) then _ else f_cur s) in H.
  set (params := match ports with Some (Node _ _ _ _ (Some a) _) => param_names a | _ => [] end) in H.
  set (out := match ports with Some (Node _ _ _ _ _ (Some o)) => n_tok o | _ => [120; 48]%N end) in H.
  cbv zeta in H.
  destruct (negb (no_dup params)); [discriminate|].
  set (s1 := mkF _ _ _ _ _) in H.
  assert (G1 : good s1).
  { destruct G as [Ga Gb]. split; [exact Ga|]. subst s1. bcode. reflexivity. }
  destruct (fsub body s1) as [s2|] eqn:E; [|discriminate].
  destruct (fsub_ok _ _ _ IHb G1 E) as [G2 L2]. change (f_done s1) with (f_done s) in L2.
  inversion H; subst s'. clear H. cbn [f_done]. rewrite app_length. cbn [length].
  split; [|lia].
  destruct G2 as [G2a G2b]. destruct G as [Ga Gb].
  split; cbn [f_done f_cur].
  - intros k r Hk.
    destruct (Nat.lt_ge_cases k (length (f_done s2))) as [Hlt|Hge].
    + rewrite nth_error_app1 in Hk by exact Hlt. eapply G2a; eauto.
    + rewrite nth_error_app2 in Hk by exact Hge.
      destruct (k - length (f_done s2))%nat as [|d] eqn:Ed.
      * cbn in Hk. inversion Hk; subst r. cbn [finish_routine r_code]. bcode.
        assert (k = length (f_done s2)) by lia. subst k.
        apply goodc_emit; auto.
      * cbn in Hk. destruct d; discriminate.
  - rewrite app_length. cbn [length].
    assert (Ho : goodc (length (f_done s)) (b_code outer)).
    { subst outer. destruct (last_is_site (f_cur s)); cbn [b_code]; auto. apply goodc_removelast; auto. }
    eapply goodc_mono; [|exact Ho]. lia.
Qed.

Lemma fs_assign_ok ln r s s' : good s -> fs_assign ln r s = Some s' ->
  good s' /\ (length (f_done s) <= length (f_done s'))%nat.
Proof.
  intros G H. unfold fs_assign in H. cbv zeta in H.
  destruct (opt_value r _) as [[s1 v]|] eqn:E; [|discriminate].
  apply opt_value_ok in E.
  2:{ apply good_cur; auto. bcode. apply G. }
  destruct E as (G1 & Hv & D1). rewrite f_done_with_cur in D1.
  inversion H; subst s'. rewrite f_done_with_cur, D1. split; [|lia].
  apply good_cur; auto. bcode. apply goodc_emit; [apply G1 | exact Hv].
Qed.

Lemma fs_loop_ok l r s s' : opt_all SP r -> good s -> fs_loop l r s = Some s' ->
  good s' /\ (length (f_done s) <= length (f_done s'))%nat.
Proof.
  intros IHr G H. unfold fs_loop in H. cbv zeta in H.
  destruct (opt_value l _) as [[s1 v]|] eqn:E; [|discriminate].
  apply opt_value_ok in E; [|exact G].
  destruct E as (G1 & Hv & D1). cbn [f_done] in D1.
  unfold new_target in H. cbv beta iota in H.
  match type of H with match fsub r ?x with _ => _ end = _ => set (s1' := x) in H end.
  assert (G1' : good s1').
  { subst s1'. apply good_cur; auto. bcode.
    apply goodc_emit; [|reflexivity]. apply goodc_emit; [apply G1 | exact Hv]. }
  destruct (fsub r s1') as [s2|] eqn:E2; [|discriminate].
  destruct (fsub_ok _ _ _ IHr G1' E2) as [G2 L2]. subst s1'. rewrite f_done_with_cur, D1 in L2.
  inversion H; subst s'. rewrite f_done_with_cur. split; [|lia].
  apply good_cur; auto. bcode. apply goodc_emit; [apply G2 | reflexivity].
Qed.

Lemma fs_while_ok l r s s' : opt_all SP r -> good s -> fs_while l r s = Some s' ->
  good s' /\ (length (f_done s) <= length (f_done s'))%nat.
Proof.
  intros IHr G H. unfold fs_while in H. unfold new_target in H. cbv beta iota zeta in H.
  destruct (opt_value l _) as [[s1 v]|] eqn:E; [|discriminate].
  apply opt_value_ok in E.
  2:{ apply good_cur; auto. bcode. apply G. }
  destruct E as (G1 & Hv & D1). rewrite f_done_with_cur in D1.
  match type of H with match fsub r ?x with _ => _ end = _ => set (s1' := x) in H end.
  assert (G1' : good s1').
  { subst s1'. apply good_cur; auto. bcode. apply goodc_emit; [apply G1 | exact Hv]. }
  destruct (fsub r s1') as [s2|] eqn:E2; [|discriminate].
  destruct (fsub_ok _ _ _ IHr G1' E2) as [G2 L2]. subst s1'. rewrite f_done_with_cur, D1 in L2.
  inversion H; subst s'. rewrite f_done_with_cur. split; [|lia].
  apply good_cur; auto. bcode. apply goodc_emit; [apply G2 | reflexivity].
Qed.

Lemma fs_if_ok a b target s s' : good s -> fs_if a b target s = Some s' ->
  good s' /\ (length (f_done s) <= length (f_done s'))%nat.
Proof.
  intros G H. unfold fs_if in H.
  destruct (opt_value a s) as [[s1 va]|] eqn:E1; [|discriminate].
  apply opt_value_ok in E1; [|exact G]. destruct E1 as (G1 & Ha & D1).
  destruct (opt_value b s1) as [[s2 vb]|] eqn:E2; [|discriminate].
  apply opt_value_ok in E2; [|exact G1]. destruct E2 as (G2 & Hb & D2).
  inversion H; subst s'. rewrite f_done_with_cur. split; [|rewrite D2, D1; lia].
  apply good_cur; auto. bcode. apply goodc_emit; [apply G2|].
  cbn [instr_calls_below]. rewrite Hb. rewrite D2, Ha. reflexivity.
Qed.

Lemma flat_stmt_ok : forall n, SP n.
Proof.
  induction n as [t line file tok l r IHl IHr] using node_ind'.
  intros s s' G H. rewrite flat_stmt_eq in H.
  pose proof (good_move_to s file line G) as G0.
  rewrite <- (f_done_move_to s file line).
  set (s0 := move_to s file line) in *. clearbody s0. clear G.
  destruct t; cbn [fs_body] in H; try discriminate H.
  - exact (fs_split_ok _ _ _ _ IHl IHr G0 H).
  - destruct l as [ln|]; [|discriminate]. exact (fs_assign_ok _ _ _ _ G0 H).
  - exact (fs_loop_ok _ _ _ _ IHr G0 H).
  - exact (fs_while_ok _ _ _ _ IHr G0 H).
  - destruct l as [ln|]; [|discriminate]. inversion H; subst s'. rewrite f_done_with_cur. split; [|lia].
    apply good_cur; auto. bcode. apply goodc_emit; [apply G0 | reflexivity].
  - destruct l as [[t1 l1 f1 k1 a b]|]; [|discriminate].
    destruct r as [[t2 l2 f2 k2 [target|] b2]|]; try discriminate.
    exact (fs_if_ok _ _ _ _ _ G0 H).
  - destruct l as [[t1 l1 f1 k1 [name|] ports]|]; try discriminate.
    exact (fs_program_ok _ _ _ _ _ IHr G0 H).
  - destruct l as [ln|]; [|discriminate]. inversion H; subst s'. rewrite f_done_with_cur. split; [|lia].
    apply good_cur; auto. bcode. apply G0.
  - inversion H; subst s'. rewrite f_done_with_cur. split; [|lia].
    apply good_cur; auto. bcode. apply goodc_emit; [apply G0 | reflexivity].
Qed.

Lemma C16_calls_earlier_proof : C16_calls_earlier_stmt.
Proof.
  intros root rs H k r Hk. unfold abstract_source in H. cbv zeta in H.
  match type of H with context [match root with None => Some ?x | _ => _ end] => set (s0 := x) in H end.
  assert (G0 : good s0).
  { split; cbn.
    - intros k0 r0 H0. destruct k0; discriminate.
    - reflexivity. }
  change (match root with None => Some s0 | Some n => flat_stmt n s0 end) with (fsub root s0) in H.
  destruct (fsub root s0) as [s|] eqn:E; [|discriminate].
  assert (IH : opt_all SP root) by (destruct root; cbn; [apply flat_stmt_ok | exact I]).
  destruct (fsub_ok _ _ _ IH G0 E) as [[Ga Gb] _].
  destruct (forallb labels_set _); [|discriminate]. inversion H; subst rs. clear H.
  destruct (Nat.lt_ge_cases k (length (f_done s))) as [Hlt|Hge].
  - rewrite nth_error_app1 in Hk by exact Hlt. eapply Ga; eauto.
  - rewrite nth_error_app2 in Hk by exact Hge.
    destruct (k - length (f_done s))%nat as [|d] eqn:Ed.
    + cbn in Hk. inversion Hk; subst r. cbn [finish_routine r_code]. bcode.
      assert (k = length (f_done s)) by lia. subst k.
      apply goodc_emit; auto.
    + cbn in Hk. destruct d; discriminate.
Qed.

(* ================================================================================================ *)
(* The interpreter, one level unfolded                                                              *)
(* ================================================================================================ *)
Section Body.
  Variable rs : list routine.
  Variable rec : rviews -> nat -> ract -> Z -> nat -> rtrace -> outcome.

  Definition evargs_of (ev : rvalue -> nat -> rtrace -> evres) :=
    fix evargs (l : list rvalue) (acc : list Z) (steps : nat) (trace : rtrace) {struct l}
      : option (list Z * nat * rtrace) + evres :=
      match l with
      | [] => inl (Some (acc, steps, trace))
      | x :: rest =>
          match ev x steps trace with
          | EVal z st tr => evargs rest (acc ++ [z]) st tr
          | other => inr other
          end
      end.

  Definition call_of (here : rviews) (j : nat) (x : option (list Z * nat * rtrace) + evres) : evres :=
    match x with
    | inr other => other
    | inl None => EBad
    | inl (Some (vals, st, tr)) =>
        match nth_error rs j with
        | None => EBad
        | Some callee =>
            if negb (Nat.eqb (length vals) (length (r_params callee))) then EBad
            else
              let a' := mkRAct (fold_left (fun s pv => put s (fst pv) (snd pv))
                                          (combine (r_params callee) vals) []) [] in
              match rec here j a' 0 st tr with
              | ODone ret st' tr' => EVal ret st' tr'
              | OStop vs st' tr' => EStop vs st' tr'
              | OFuel => EFuel
              | OBad => EBad
              end
        end
    end.

  Section Eval.
  Variable a : ract.
  Variable here : rviews.
  Fixpoint eval (v : rvalue) (steps : nat) (trace : rtrace) {struct v} : evres :=
    match v with
    | RVar y => EVal (get (ra_vars a) y) steps trace
    | RNum c => EVal c steps trace
    | RInc y c =>
        match eval y steps trace with
        | EVal x st tr => EVal (x + c) st tr
        | other => other
        end
    | RDec y c =>
        match eval y steps trace with
        | EVal x st tr => EVal (Z.max (x - c) 0) st tr
        | other => other
        end
    | RCall j args => call_of here j (evargs_of eval args [] steps trace)
    end.
  End Eval.

  Definition goto_of (ctx : rviews) (k : nat) (target : Z) (a' : ract) (steps' : nat) (trace' : rtrace) : outcome :=
    if target <? 0 then OBad else rec ctx k a' target steps' trace'.

  Definition exec_instr (r : routine) (ctx : rviews) (k : nat) (a : ract) (pc : Z) (steps : nat) (trace : rtrace)
             (i : rinstr) : outcome :=
    let here := ctx ++ [view_of r a] in
    let steps1 := S steps in
    match i with
    | RSite l => rec ctx k a (pc + 1) steps1 (trace ++ [(l, here)])
    | RAssign x v =>
        match eval a here v steps1 trace with
        | EVal z st tr => rec ctx k (mkRAct (put (ra_vars a) x z) (ra_cnt a)) (pc + 1) st tr
        | EStop vs st tr => OStop vs st tr
        | EFuel => OFuel
        | EBad => OBad
        end
    | RLoopInit id v =>
        match eval a here v steps1 trace with
        | EVal z st tr => rec ctx k (mkRAct (ra_vars a) (putc (ra_cnt a) id z)) (pc + 1) st tr
        | EStop vs st tr => OStop vs st tr
        | EFuel => OFuel
        | EBad => OBad
        end
    | RLoopTest id exit =>
        if getc (ra_cnt a) id =? 0
        then match znth (r_targets r) exit with Some t => goto_of ctx k t a steps1 trace | None => OBad end
        else rec ctx k a (pc + 1) steps1 trace
    | RLoopDec id back =>
        let a' := mkRAct (ra_vars a) (putc (ra_cnt a) id (Z.max (getc (ra_cnt a) id - 1) 0)) in
        match znth (r_targets r) back with Some t => goto_of ctx k t a' steps1 trace | None => OBad end
    | RWhileTest v exit =>
        match eval a here v steps1 trace with
        | EVal z st tr =>
            if z =? 0
            then match znth (r_targets r) exit with Some t => goto_of ctx k t a st tr | None => OBad end
            else rec ctx k a (pc + 1) st tr
        | EStop vs st tr => OStop vs st tr
        | EFuel => OFuel
        | EBad => OBad
        end
    | RJump target =>
        match znth (r_targets r) target with Some t => goto_of ctx k t a steps1 trace | None => OBad end
    | RGoto l => goto_of ctx k (label_pos (r_labels r) l) a steps1 trace
    | RIfGoto x y l =>
        match eval a here x steps1 trace with
        | EVal zx st tr =>
            match eval a here y st tr with
            | EVal zy st' tr' =>
                if zx =? zy then goto_of ctx k (label_pos (r_labels r) l) a st' tr'
                else rec ctx k a (pc + 1) st' tr'
            | EStop vs st' tr' => OStop vs st' tr'
            | EFuel => OFuel
            | EBad => OBad
            end
        | EStop vs st tr => OStop vs st tr
        | EFuel => OFuel
        | EBad => OBad
        end
    | RStop => OStop here steps1 trace
    | RHalt => OStop here steps1 trace
    | RReturn out => ODone (get (ra_vars a) out) steps1 trace
    end.

  Definition body (ctx : rviews) (k : nat) (a : ract) (pc : Z) (steps : nat) (trace : rtrace) : outcome :=
    match nth_error rs k with
    | None => OBad
    | Some r =>
        match znth (r_code r) pc with
        | None => OBad
        | Some i => exec_instr r ctx k a pc steps trace i
        end
    end.

  Lemma eval_call a here j args steps trace :
    eval a here (RCall j args) steps trace = call_of here j (evargs_of (eval a here) args [] steps trace).
  Proof. reflexivity. Qed.

  Lemma evargs_cons ev x rest acc steps trace :
    evargs_of ev (x :: rest) acc steps trace =
    match ev x steps trace with
    | EVal z st tr => evargs_of ev rest (acc ++ [z]) st tr
    | other => inr other
    end.
  Proof. reflexivity. Qed.
End Body.

Lemma run_S rs f ctx k a pc steps trace :
  run rs (S f) ctx k a pc steps trace = body rs (run rs f) ctx k a pc steps trace.
Proof. reflexivity. Qed.

(* ================================================================================================ *)
(* C01 : more fuel never changes a finished run                                                     *)
(* ================================================================================================ *)
Definition rec_t := rviews -> nat -> ract -> Z -> nat -> rtrace -> outcome.

Definition le_rec (rec rec' : rec_t) : Prop :=
  forall ctx k a pc st tr, finished (rec ctx k a pc st tr) -> rec' ctx k a pc st tr = rec ctx k a pc st tr.

Section Mono.
  Variable rs : list routine.
  Variables rec rec' : rec_t.
  Hypothesis L : le_rec rec rec'.

  Lemma call_of_mono here j x :
    call_of rs rec here j x <> EFuel -> call_of rs rec' here j x = call_of rs rec here j x.
  Proof.
    unfold call_of. destruct x as [[[[vals st] tr]|]|other]; try reflexivity.
    destruct (nth_error rs j) as [callee|]; [|reflexivity].
    destruct (negb _); [reflexivity|]. cbv zeta.
    set (a' := mkRAct _ _). intros H.
    rewrite (L here j a' 0 st tr); [reflexivity|].
    destruct (rec here j a' 0 st tr); cbn; auto.
  Qed.

  Lemma evargs_mono a here args :
    Forall (fun v => forall st tr, eval rs rec a here v st tr <> EFuel ->
                                   eval rs rec' a here v st tr = eval rs rec a here v st tr) args ->
    forall acc st tr,
      evargs_of (eval rs rec a here) args acc st tr <> inr EFuel ->
      evargs_of (eval rs rec' a here) args acc st tr = evargs_of (eval rs rec a here) args acc st tr.
  Proof.
    induction 1 as [|x rest Hx Hrest IH]; intros acc st tr H; [reflexivity|].
    rewrite !evargs_cons in *.
    specialize (Hx st tr).
    destruct (eval rs rec a here x st tr) as [z st1 tr1|vs st1 tr1| |] eqn:E.
    - rewrite Hx by discriminate. apply IH. exact H.
    - rewrite Hx by discriminate. reflexivity.
    - exfalso. apply H. reflexivity.
    - rewrite Hx by discriminate. reflexivity.
  Qed.

  Lemma eval_mono a here : forall v st tr,
    eval rs rec a here v st tr <> EFuel -> eval rs rec' a here v st tr = eval rs rec a here v st tr.
  Proof.
    induction v as [y|c|y c IH|y c IH|j args IH] using rvalue_ind'; intros st tr H.
    - reflexivity.
    - reflexivity.
    - cbn [eval] in *. specialize (IH st tr).
      destruct (eval rs rec a here y st tr) eqn:E; try (rewrite IH by discriminate; reflexivity).
      exfalso; apply H; reflexivity.
    - cbn [eval] in *. specialize (IH st tr).
      destruct (eval rs rec a here y st tr) eqn:E; try (rewrite IH by discriminate; reflexivity).
      exfalso; apply H; reflexivity.
    - rewrite eval_call in *.
      rewrite (evargs_mono a here args IH).
      + apply call_of_mono. exact H.
      + intros E. rewrite E in H. apply H. reflexivity.
  Qed.

  Lemma goto_of_mono ctx k t a st tr :
    finished (goto_of rec ctx k t a st tr) -> goto_of rec' ctx k t a st tr = goto_of rec ctx k t a st tr.
  Proof. unfold goto_of. destruct (t <? 0); [reflexivity|]. apply L. Qed.

  Lemma exec_instr_mono r ctx k a pc st tr i :
    finished (exec_instr rs rec r ctx k a pc st tr i) ->
    exec_instr rs rec' r ctx k a pc st tr i = exec_instr rs rec r ctx k a pc st tr i.
  Proof.
    unfold exec_instr. cbv zeta. set (here := ctx ++ [view_of r a]).
    destruct i as [l|x v|id v|id ex|id back|v ex|target|l|x y l| |out|]; intros H.
    - apply L; exact H.
    - pose proof (eval_mono a here v (S st) tr) as Ev.
      destruct (eval rs rec a here v (S st) tr) eqn:E; try (rewrite Ev by discriminate); try reflexivity.
      + apply L; exact H.
      + destruct H.
    - pose proof (eval_mono a here v (S st) tr) as Ev.
      destruct (eval rs rec a here v (S st) tr) eqn:E; try (rewrite Ev by discriminate); try reflexivity.
      + apply L; exact H.
      + destruct H.
    - destruct (getc (ra_cnt a) id =? 0).
      + destruct (znth (r_targets r) ex); [apply goto_of_mono; exact H | reflexivity].
      + apply L; exact H.
    - destruct (znth (r_targets r) back); [apply goto_of_mono; exact H | reflexivity].
    - pose proof (eval_mono a here v (S st) tr) as Ev.
      destruct (eval rs rec a here v (S st) tr) eqn:E; try (rewrite Ev by discriminate); try reflexivity.
      + destruct (v0 =? 0).
        * destruct (znth (r_targets r) ex); [apply goto_of_mono; exact H | reflexivity].
        * apply L; exact H.
      + destruct H.
    - destruct (znth (r_targets r) target); [apply goto_of_mono; exact H | reflexivity].
    - apply goto_of_mono; exact H.
    - pose proof (eval_mono a here x (S st) tr) as Ex.
      destruct (eval rs rec a here x (S st) tr) as [zx st1 tr1|vs st1 tr1| |] eqn:E;
        try (rewrite Ex by discriminate); try reflexivity.
      + pose proof (eval_mono a here y st1 tr1) as Ey.
        destruct (eval rs rec a here y st1 tr1) as [zy st2 tr2|vs st2 tr2| |] eqn:E2;
          try (rewrite Ey by discriminate); try reflexivity.
        * destruct (zx =? zy); [apply goto_of_mono; exact H | apply L; exact H].
        * destruct H.
      + destruct H.
    - reflexivity.
    - reflexivity.
    - reflexivity.
  Qed.

  Lemma body_mono ctx k a pc st tr :
    finished (body rs rec ctx k a pc st tr) -> body rs rec' ctx k a pc st tr = body rs rec ctx k a pc st tr.
  Proof.
    unfold body. destruct (nth_error rs k) as [r|]; [|reflexivity].
    destruct (znth (r_code r) pc) as [i|]; [|reflexivity].
    apply exec_instr_mono.
  Qed.
End Mono.

Lemma run_mono rs : forall fuel fuel', (fuel <= fuel')%nat -> le_rec (run rs fuel) (run rs fuel').
Proof.
  induction fuel as [|f IH]; intros fuel' Hle ctx k a pc st tr H.
  - destruct H.
  - destruct fuel' as [|f']; [lia|].
    rewrite !run_S in *. apply body_mono; [|exact H]. apply IH. lia.
Qed.

Lemma C01_ref_fuel_mono_proof : C01_ref_fuel_mono_stmt.
Proof.
  intros rs fuel ctx k a pc steps trace H fuel' Hle. apply (run_mono rs fuel fuel' Hle); exact H.
Qed.

(* ================================================================================================ *)
(* A generic invariant of runs: C01 (steps) and C16 (depth) are instances                           *)
(* ================================================================================================ *)
Section Inv.
  Variable rs : list routine.
  Variable Inv : rviews -> nat -> nat * rtrace -> nat * rtrace -> Prop.
  Variable okv : nat -> rvalue -> Prop.
  Variable oki : nat -> rinstr -> Prop.
  Variable allowed : nat -> nat -> Prop.

  Hypothesis okv_inc : forall k y c, okv k (RInc y c) -> okv k y.
  Hypothesis okv_dec : forall k y c, okv k (RDec y c) -> okv k y.
  Hypothesis okv_call : forall k j args, okv k (RCall j args) -> allowed k j /\ (forall x, In x args -> okv k x).
  Hypothesis oki_assign : forall k x v, oki k (RAssign x v) -> okv k v.
  Hypothesis oki_loopinit : forall k id v, oki k (RLoopInit id v) -> okv k v.
  Hypothesis oki_while : forall k v e, oki k (RWhileTest v e) -> okv k v.
  Hypothesis oki_if : forall k a b l, oki k (RIfGoto a b l) -> okv k a /\ okv k b.
  Hypothesis code_ok : forall k r pc i, nth_error rs k = Some r -> znth (r_code r) pc = Some i -> oki k i.

  Hypothesis Inv_refl : forall ctx k x, Inv ctx k x x.
  Hypothesis Inv_trans : forall ctx k x y z, Inv ctx k x y -> Inv ctx k y z -> Inv ctx k x z.
  Hypothesis Inv_step : forall ctx k st tr, Inv ctx k (st, tr) (S st, tr).
  Hypothesis Inv_site : forall ctx k st tr l vw, Inv ctx k (st, tr) (S st, tr ++ [(l, ctx ++ [vw])]).
  Hypothesis Inv_call : forall ctx k j vw x y, allowed k j -> Inv (ctx ++ [vw]) j x y -> Inv ctx k x y.

  Definition out_ok (ctx : rviews) (k : nat) (st : nat) (tr : rtrace) (o : outcome) : Prop :=
    match o with
    | ODone _ st' tr' | OStop _ st' tr' => Inv ctx k (st, tr) (st', tr')
    | _ => True
    end.
  Definition ev_ok (ctx : rviews) (k : nat) (st : nat) (tr : rtrace) (e : evres) : Prop :=
    match e with
    | EVal _ st' tr' | EStop _ st' tr' => Inv ctx k (st, tr) (st', tr')
    | _ => True
    end.
  Definition rec_ok (rec : rec_t) : Prop := forall ctx k a pc st tr, out_ok ctx k st tr (rec ctx k a pc st tr).

  Lemma out_ok_trans ctx k st tr st1 tr1 o :
    Inv ctx k (st, tr) (st1, tr1) -> out_ok ctx k st1 tr1 o -> out_ok ctx k st tr o.
  Proof. destruct o; cbn; eauto. Qed.

  Variable rec : rec_t.
  Hypothesis Hrec : rec_ok rec.

  Section EvalOk.
  Variable ctx : rviews.
  Variable k : nat.
  Variable a : ract.
  Variable vw : str * list (str * Z).

  Lemma call_of_ok j st tr x :
    allowed k j ->
    match x with
    | inl (Some (_, st', tr')) => Inv ctx k (st, tr) (st', tr')
    | inl None => True
    | inr e => ev_ok ctx k st tr e
    end ->
    ev_ok ctx k st tr (call_of rs rec (ctx ++ [vw]) j x).
  Proof.
    intros Hal Hx. unfold call_of. destruct x as [[[[vals st1] tr1]|]|other]; [|exact I|exact Hx].
    destruct (nth_error rs j) as [callee|]; [|exact I].
    destruct (negb _); [exact I|]. cbv zeta. set (a' := mkRAct _ _).
    pose proof (Hrec (ctx ++ [vw]) j a' 0 st1 tr1) as Hr.
    destruct (rec (ctx ++ [vw]) j a' 0 st1 tr1); cbn in *; auto;
      eapply Inv_trans; eauto.
  Qed.

  Lemma evargs_ok args :
    Forall (fun v => forall st tr, okv k v -> ev_ok ctx k st tr (eval rs rec a (ctx ++ [vw]) v st tr)) args ->
    (forall x, In x args -> okv k x) ->
    forall acc st0 tr0 st tr, Inv ctx k (st0, tr0) (st, tr) ->
      match evargs_of (eval rs rec a (ctx ++ [vw])) args acc st tr with
      | inl (Some (_, st', tr')) => Inv ctx k (st0, tr0) (st', tr')
      | inl None => True
      | inr e => ev_ok ctx k st0 tr0 e
      end.
  Proof.
    induction 1 as [|x rest Hx Hrest IH]; intros Hok acc st0 tr0 st tr H0.
    - exact H0.
    - rewrite evargs_cons.
      specialize (Hx st tr (Hok x (or_introl eq_refl))).
      destruct (eval rs rec a (ctx ++ [vw]) x st tr) as [z st1 tr1|vs st1 tr1| |] eqn:E; cbn in *; auto.
      + apply IH.
        * intros y Hy. apply Hok. right; exact Hy.
        * eapply Inv_trans; eauto.
      + eapply Inv_trans; eauto.
  Qed.

  Lemma eval_ok : forall v st tr, okv k v -> ev_ok ctx k st tr (eval rs rec a (ctx ++ [vw]) v st tr).
  Proof.
    induction v as [y|c|y c IH|y c IH|j args IH] using rvalue_ind'; intros st tr Hv.
    - cbn. apply Inv_refl.
    - cbn. apply Inv_refl.
    - cbn [eval]. specialize (IH st tr (okv_inc _ _ _ Hv)).
      destruct (eval rs rec a (ctx ++ [vw]) y st tr); cbn in *; auto.
    - cbn [eval]. specialize (IH st tr (okv_dec _ _ _ Hv)).
      destruct (eval rs rec a (ctx ++ [vw]) y st tr); cbn in *; auto.
    - rewrite eval_call. destruct (okv_call _ _ _ Hv) as [Hal Hargs].
      apply call_of_ok; [exact Hal|].
      apply (evargs_ok args IH Hargs [] st tr st tr). apply Inv_refl.
  Qed.
  End EvalOk.

  Lemma goto_of_ok ctx k t a st tr : out_ok ctx k st tr (goto_of rec ctx k t a st tr).
  Proof. unfold goto_of. destruct (t <? 0); [exact I | apply Hrec]. Qed.

  Lemma exec_instr_ok r ctx k a pc st tr i :
    oki k i -> out_ok ctx k st tr (exec_instr rs rec r ctx k a pc st tr i).
  Proof.
    intros Hi. unfold exec_instr. cbv zeta.
    assert (S1 : Inv ctx k (st, tr) (S st, tr)) by apply Inv_step.
    destruct i as [l|x v|id v|id ex|id back|v ex|target|l|x y l| |out|].
    - eapply out_ok_trans; [apply Inv_site | apply Hrec].
    - pose proof (eval_ok ctx k a (view_of r a) v (S st) tr (oki_assign _ _ _ Hi)) as Ev.
      destruct (eval rs rec a (ctx ++ [view_of r a]) v (S st) tr); cbn in Ev |- *; auto.
      + eapply out_ok_trans; [eapply Inv_trans; [exact S1 | exact Ev] | apply Hrec].
      + eapply Inv_trans; eauto.
    - pose proof (eval_ok ctx k a (view_of r a) v (S st) tr (oki_loopinit _ _ _ Hi)) as Ev.
      destruct (eval rs rec a (ctx ++ [view_of r a]) v (S st) tr); cbn in Ev |- *; auto.
      + eapply out_ok_trans; [eapply Inv_trans; [exact S1 | exact Ev] | apply Hrec].
      + eapply Inv_trans; eauto.
    - destruct (getc (ra_cnt a) id =? 0).
      + destruct (znth (r_targets r) ex); [|exact I].
        eapply out_ok_trans; [exact S1 | apply goto_of_ok].
      + eapply out_ok_trans; [exact S1 | apply Hrec].
    - destruct (znth (r_targets r) back); [|exact I].
      eapply out_ok_trans; [exact S1 | apply goto_of_ok].
    - pose proof (eval_ok ctx k a (view_of r a) v (S st) tr (oki_while _ _ _ Hi)) as Ev.
      destruct (eval rs rec a (ctx ++ [view_of r a]) v (S st) tr) as [z st1 tr1|vs st1 tr1| |];
        cbn in Ev |- *; auto.
      + assert (S2 : Inv ctx k (st, tr) (st1, tr1)) by (eapply Inv_trans; eauto).
        destruct (z =? 0).
        * destruct (znth (r_targets r) ex); [|exact I].
          eapply out_ok_trans; [exact S2 | apply goto_of_ok].
        * eapply out_ok_trans; [exact S2 | apply Hrec].
      + eapply Inv_trans; eauto.
    - destruct (znth (r_targets r) target); [|exact I].
      eapply out_ok_trans; [exact S1 | apply goto_of_ok].
    - eapply out_ok_trans; [exact S1 | apply goto_of_ok].
    - destruct (oki_if _ _ _ _ Hi) as [Hx Hy].
      pose proof (eval_ok ctx k a (view_of r a) x (S st) tr Hx) as Ex.
      destruct (eval rs rec a (ctx ++ [view_of r a]) x (S st) tr) as [zx st1 tr1|vs st1 tr1| |];
        cbn in Ex |- *; auto.
      + assert (S2 : Inv ctx k (st, tr) (st1, tr1)) by (eapply Inv_trans; eauto).
        pose proof (eval_ok ctx k a (view_of r a) y st1 tr1 Hy) as Ey.
        destruct (eval rs rec a (ctx ++ [view_of r a]) y st1 tr1) as [zy st2 tr2|vs st2 tr2| |];
          cbn in Ey |- *; auto.
        * assert (S3 : Inv ctx k (st, tr) (st2, tr2)) by (eapply Inv_trans; eauto).
          destruct (zx =? zy).
          -- eapply out_ok_trans; [exact S3 | apply goto_of_ok].
          -- eapply out_ok_trans; [exact S3 | apply Hrec].
        * eapply Inv_trans; eauto.
      + eapply Inv_trans; eauto.
    - cbn. exact S1.
    - cbn. exact S1.
    - cbn. exact S1.
  Qed.

  Lemma body_ok : rec_ok (body rs rec).
  Proof.
    intros ctx k a pc st tr. unfold body.
    destruct (nth_error rs k) as [r|] eqn:Er; [|exact I].
    destruct (znth (r_code r) pc) as [i|] eqn:Ei; [|exact I].
    apply exec_instr_ok. eapply code_ok; eauto.
  Qed.
End Inv.

Lemma run_inv (rs : list routine) (Inv : rviews -> nat -> nat * rtrace -> nat * rtrace -> Prop)
  (okv : nat -> rvalue -> Prop) (oki : nat -> rinstr -> Prop) (allowed : nat -> nat -> Prop) :
  (forall k y c, okv k (RInc y c) -> okv k y) ->
  (forall k y c, okv k (RDec y c) -> okv k y) ->
  (forall k j args, okv k (RCall j args) -> allowed k j /\ (forall x, In x args -> okv k x)) ->
  (forall k x v, oki k (RAssign x v) -> okv k v) ->
  (forall k id v, oki k (RLoopInit id v) -> okv k v) ->
  (forall k v e, oki k (RWhileTest v e) -> okv k v) ->
  (forall k a b l, oki k (RIfGoto a b l) -> okv k a /\ okv k b) ->
  (forall k r pc i, nth_error rs k = Some r -> znth (r_code r) pc = Some i -> oki k i) ->
  (forall ctx k x, Inv ctx k x x) ->
  (forall ctx k x y z, Inv ctx k x y -> Inv ctx k y z -> Inv ctx k x z) ->
  (forall ctx k st tr, Inv ctx k (st, tr) (S st, tr)) ->
  (forall ctx k st tr l vw, Inv ctx k (st, tr) (S st, tr ++ [(l, ctx ++ [vw])])) ->
  (forall ctx k j vw x y, allowed k j -> Inv (ctx ++ [vw]) j x y -> Inv ctx k x y) ->
  forall fuel, rec_ok Inv (run rs fuel).
Proof.
  intros H1 H2 H3 H4 H5 H6 H7 H8 H9 H10 H11 H12 H13.
  induction fuel as [|f IH].
  - intros ctx k a pc st tr. exact I.
  - intros ctx k a pc st tr. rewrite run_S.
    apply (body_ok rs Inv okv oki allowed H1 H2 H3 H4 H5 H6 H7 H8 H9 H10 H11 H12 H13 (run rs f) IH).
Qed.

Lemma C01_ref_steps_proof : C01_ref_steps_stmt.
Proof.
  intros rs fuel ctx k a pc steps trace.
  pose (Inv := fun (_ : rviews) (_ : nat) (x y : nat * rtrace) =>
                 (fst x <= fst y)%nat /\ (length (snd x) <= length (snd y))%nat /\
                 (length (snd y) - length (snd x) <= fst y - fst x)%nat).
  assert (R : rec_ok Inv (run rs fuel)).
  { apply (run_inv rs Inv (fun _ _ => True) (fun _ _ => True) (fun _ _ => True)); auto;
      unfold Inv; cbn [fst snd]; intros; rewrite ?app_length; cbn [length]; lia. }
  specialize (R ctx k a pc steps trace). unfold out_ok, Inv in R. cbn [fst snd] in R.
  destruct (run rs fuel ctx k a pc steps trace); auto.
Qed.

Lemma C16_ref_depth_proof : C16_ref_depth_stmt.
Proof.
  intros rs Hcode fuel ctx k a pc steps trace Hk.
  pose (Inv := fun (ctx : rviews) (k : nat) (x y : nat * rtrace) =>
                 forall l vs, In (l, vs) (snd y) -> In (l, vs) (snd x) \/ (length vs <= length ctx + k + 1)%nat).
  assert (R : rec_ok Inv (run rs fuel)).
  { apply (run_inv rs Inv (fun k v => calls_below k v = true) (fun k i => instr_calls_below k i = true)
                   (fun k j => (j < k)%nat)).
    - intros k0 y c H. exact H.
    - intros k0 y c H. exact H.
    - intros k0 j args H. cbn [calls_below] in H. apply andb_true_iff in H. destruct H as [Hj Ha].
      split; [apply Nat.ltb_lt; exact Hj|]. rewrite forallb_forall in Ha. exact Ha.
    - intros k0 x v H. exact H.
    - intros k0 id v H. exact H.
    - intros k0 v e H. exact H.
    - intros k0 x y l H. cbn [instr_calls_below] in H. apply andb_true_iff in H. exact H.
    - intros k0 r pc0 i Hr Hi. specialize (Hcode k0 r Hr). rewrite forallb_forall in Hcode.
      apply Hcode. unfold znth in Hi. destruct (pc0 <? 0); [discriminate|].
      eapply nth_error_In; eauto.
    - intros ctx0 k0 x l vs H. left; exact H.
    - intros ctx0 k0 x y z Hxy Hyz l vs H.
      destruct (Hyz l vs H) as [H1|H1]; [|right; exact H1]. apply Hxy; exact H1.
    - intros ctx0 k0 st tr l vs H. left; exact H.
    - intros ctx0 k0 st tr l vw l0 vs H. cbn [snd] in *. apply in_app_or in H.
      destruct H as [H|H]; [left; exact H|]. right.
      destruct H as [H|[]]. inversion H; subst. rewrite app_length. cbn [length]. lia.
    - intros ctx0 k0 j vw x y Hj H l vs Hin.
      destruct (H l vs Hin) as [H1|H1]; [left; exact H1|]. right.
      rewrite app_length in H1. cbn [length] in H1. lia. }
  specialize (R ctx k a pc steps trace). unfold out_ok, Inv in R. cbn [fst snd] in R.
  destruct (run rs fuel ctx k a pc steps trace); auto.
Qed.

Print Assumptions C07_stops_are_sites_proof.
Print Assumptions C16_calls_earlier_proof.
Print Assumptions C01_ref_fuel_mono_proof.
Print Assumptions C01_ref_steps_proof.
Print Assumptions C16_ref_depth_proof.
