(* Proofs_Names0.v — helpers for Proofs_Names.v, part 0: blanks and the generator's internal names; what a rule of the
   scanner can match; every token the scanner delivers has a harmless text. *)
From Coq Require Import List ZArith NArith Lia Bool.
From Theo Require Import Base Regex Tokens Errors Lexer Scan MacroExtract Grammar LR MacroApply Parser VMModel GenModel Compile
                         RefSem C01Statements C01Stages Gen_Lexer Gen_Consts SpecLex LocErrStatements NamesStatements
                         Proofs_Lexer Proofs_LexRules Proofs_Scan Proofs_LocErr0.
Import ListNotations.
Local Open Scope Z_scope.

(* ================================================================================================ *)
(* 1. lexable, safe_name                                                                             *)
(* ================================================================================================ *)
Lemma lexable_app a b : lexable (a ++ b) = lexable a && lexable b.
Proof. unfold lexable. apply forallb_app. Qed.

Lemma lexable_cons c s : lexable (c :: s) = negb (N.eqb c 32) && lexable s.
Proof. reflexivity. Qed.

Lemma has_prefix_app : forall p s, has_prefix p s = true -> exists rest, s = p ++ rest.
Proof.
  induction p as [|a p IH]; intros s H.
  - exists s. reflexivity.
  - destruct s as [|b s]; [discriminate|]. cbn [has_prefix] in H. apply andb_true_iff in H. destruct H as [E H].
    apply N.eqb_eq in E. subst b. destruct (IH s H) as [rest ->]. exists rest. reflexivity.
Qed.

Lemma lexable_safe tok : lexable tok = true -> safe_name tok = true.
Proof.
  intros L. unfold safe_name. apply andb_true_iff. split; apply negb_true_iff.
  - destruct (str_eqb tok temp_name_str) eqn:E; [|reflexivity]. apply str_eqb_eq in E. subst tok.
    vm_compute in L. discriminate.
  - destruct (has_prefix loopvar_p1 tok) eqn:E; [|reflexivity]. apply has_prefix_app in E. destruct E as [rest ->].
    rewrite lexable_app in L. apply andb_true_iff in L. destruct L as [L _]. vm_compute in L. discriminate.
Qed.

Lemma safe_sharp rest : safe_name (35%N :: rest) = true.
Proof. reflexivity. Qed.

Lemma safe_nil : safe_name [] = true.
Proof. reflexivity. Qed.

(* decimal rendering produces no blank *)
Lemma lexable_dec_fuel : forall f n acc, lexable acc = true -> lexable (dec_pos_fuel f n acc) = true.
Proof.
  induction f as [|f IH]; intros n acc H; cbn [dec_pos_fuel]; [exact H|].
  assert (D : lexable ((48 + n mod 10)%N :: acc) = true).
  { rewrite lexable_cons, H. rewrite andb_true_r. apply negb_true_iff. apply N.eqb_neq.
    generalize (n mod 10)%N. intros m. lia. }
  destruct (N.eqb (n / 10) 0); [exact D|]. apply IH. exact D.
Qed.

Lemma lexable_dec_z z : lexable (dec_z z) = true.
Proof.
  unfold dec_z, dec. destruct (z <? 0).
  - rewrite lexable_cons. rewrite lexable_dec_fuel by reflexivity. reflexivity.
  - apply lexable_dec_fuel. reflexivity.
Qed.

Lemma lexable_temp_name text file line pass :
  lexable text = true -> lexable file = true -> lexable (temp_name text file line pass) = true.
Proof.
  intros T F. unfold temp_name. rewrite !lexable_app, T, F, !lexable_dec_z. reflexivity.
Qed.

Lemma safe_temp_name rest file line pass : safe_name (temp_name (35%N :: rest) file line pass) = true.
Proof. reflexivity. Qed.

(* ================================================================================================ *)
(* 2. regular expressions                                                                            *)
(* ================================================================================================ *)
(* no word of the pattern contains a blank *)
Fixpoint nosp (r : regex) : bool :=
  match r with
  | Regex.Empty | Regex.Eps => true
  | Chr c => negb (N.eqb c 32)
  | Rng neg rs => negb neg && negb (in_rng 32 rs)
  | Cat a b | Alt a b => nosp a && nosp b
  | Star a => nosp a
  end.

Lemma nosp_sound : forall r s, Matches r s -> nosp r = true -> lexable s = true.
Proof.
  intros r s M. induction M as [ | c | neg rs c Hc | a b s t H1 IH1 H2 IH2 | a b s H1 IH1
                                | a b s H1 IH1 | a | a s t H1 IH1 H2 IH2 ]; intros N; cbn [nosp] in N.
  - reflexivity.
  - rewrite lexable_cons, N. reflexivity.
  - apply andb_true_iff in N. destruct N as [N1 N2]. apply negb_true_iff in N1. subst neg.
    rewrite lexable_cons. rewrite andb_true_r. apply negb_true_iff. apply N.eqb_neq. intros E. subst c.
    unfold cmatch in Hc. rewrite xorb_false_l in Hc. rewrite Hc in N2. discriminate.
  - apply andb_true_iff in N. destruct N as [N1 N2]. rewrite lexable_app, IH1, IH2 by assumption. reflexivity.
  - apply andb_true_iff in N. destruct N as [N1 N2]. apply IH1. exact N1.
  - apply andb_true_iff in N. destruct N as [N1 N2]. apply IH1. exact N2.
  - reflexivity.
  - rewrite lexable_app, IH1, IH2 by assumption. reflexivity.
Qed.

Lemma derivs_app : forall s t r, derivs (s ++ t) r = derivs t (derivs s r).
Proof. induction s as [|c s IH]; intros t r; cbn [app derivs]; [reflexivity|apply IH]. Qed.

Lemma derivs_Empty : forall s, derivs s Empty = Empty.
Proof. induction s as [|c s IH]; cbn [derivs deriv]; [reflexivity|exact IH]. Qed.

Lemma dead_prefix r p rest : is_empty (derivs p r) = true -> matches_b r (p ++ rest) = false.
Proof.
  intros H. unfold matches_b. rewrite derivs_app. destruct (derivs p r); try discriminate.
  rewrite derivs_Empty. reflexivity.
Qed.

(* the pattern matches neither "Temporary Variable" nor anything that starts with "Loop Variable " *)
Definition safe_rx (r : regex) : bool :=
  negb (matches_b r temp_name_str) && is_empty (derivs loopvar_p1 r).

Lemma safe_rx_sound r s : safe_rx r = true -> Matches r s -> safe_name s = true.
Proof.
  intros S M. apply andb_true_iff in S. destruct S as [S1 S2]. apply negb_true_iff in S1.
  apply matches_b_correct in M. unfold safe_name. apply andb_true_iff. split; apply negb_true_iff.
  - destruct (str_eqb s temp_name_str) eqn:E; [|reflexivity]. apply str_eqb_eq in E. subst s. congruence.
  - destruct (has_prefix loopvar_p1 s) eqn:E; [|reflexivity]. apply has_prefix_app in E. destruct E as [rest ->].
    rewrite (dead_prefix _ _ rest S2) in M. discriminate.
Qed.

(* ================================================================================================ *)
(* 3. the generated rule list                                                                        *)
(* ================================================================================================ *)
Definition sharp_rx (r : regex) : bool := match r with Cat (Chr 35) _ => true | _ => false end.

Definition rule_check (rl : rule) : bool :=
  safe_rx (fst rl) &&
  match snd rl with
  | Some ID | Some END => nosp (fst rl)
  | Some TEMP_VAL => nosp (fst rl) && sharp_rx (fst rl)
  | _ => true
  end.

Lemma rules_checked : forallb rule_check Gen_Lexer.rules = true.
Proof. vm_compute. reflexivity. Qed.

(* what the scanner guarantees about the text of a token of kind k *)
Definition PT (k : tkind) (text : str) : Prop :=
  safe_name text = true /\
  (k = ID \/ k = END \/ k = TEMP_VAL -> lexable text = true) /\
  (k = TEMP_VAL -> exists rest, text = 35%N :: rest).

Lemma sharp_rx_sound r s : sharp_rx r = true -> Matches r s -> exists rest, s = 35%N :: rest.
Proof.
  intros S M. destruct r as [| | | |a b| |]; try discriminate. destruct a as [| |c| | | |]; try discriminate.
  cbn [sharp_rx] in S. apply M_Cat_inv in M. destruct M as (s1 & s2 & -> & M1 & _).
  apply M_Chr_inv in M1. subst s1.
  destruct c as [|p]; try discriminate. do 6 (destruct p as [p|p|]; try discriminate).
  exists s2. reflexivity.
Qed.

Lemma rule_PT r k text : In (r, Some k) Gen_Lexer.rules -> Matches r text -> PT k text.
Proof.
  intros HI M. pose proof rules_checked as C. rewrite forallb_forall in C. specialize (C _ HI).
  unfold rule_check in C. cbn [fst snd] in C. apply andb_true_iff in C. destruct C as [C1 C2].
  split; [eapply safe_rx_sound; eassumption|]. split.
  - intros [K|[K|K]]; subst k.
    + eapply nosp_sound; eassumption.
    + eapply nosp_sound; eassumption.
    + apply andb_true_iff in C2. destruct C2 as [C2 _]. eapply nosp_sound; eassumption.
  - intros K. subst k. apply andb_true_iff in C2. destruct C2 as [_ C2]. eapply sharp_rx_sound; eassumption.
Qed.

(* the text of a token is matched by a rule with the token's kind *)
Lemma next_token_rule : forall f rules s line k text line' rest,
  next_token f rules s line = Some (k, text, line', rest) ->
  exists r, In (r, Some k) rules /\ Matches r text.
Proof.
  induction f as [|f IH]; intros rules s line k text line' rest H; [discriminate|].
  destruct s as [|c t]; [discriminate|].
  rewrite next_token_cons in H.
  destruct (max_munch rules (c :: t)) as [[len i]|] eqn:Emm.
  - destruct (nth_error rules i) as [[r [k0|]]|] eqn:En.
    + inversion H; subst. apply max_munch_sound in Emm. destruct Emm as (_ & (r' & a' & En' & M) & _).
      rewrite En in En'. inversion En'; subst r' a'. exists r. split; [eapply nth_error_In; exact En|exact M].
    + eapply IH; exact H.
    + eapply IH; exact H.
  - eapply IH; exact H.
Qed.

Lemma gen_next_token_PT fuel s line k text l' rest :
  next_token fuel Gen_Lexer.rules s line = Some (k, text, l', rest) -> PT k text.
Proof. intros H. apply next_token_rule in H. destruct H as (r & HI & M). eapply rule_PT; eassumption. Qed.

(* ================================================================================================ *)
(* 4. the scanner                                                                                    *)
(* ================================================================================================ *)
Section ScanText.
  Variable rules : list rule.
  Variable files : files_t.
  Variable Q : tkind -> str -> Prop.
  Hypothesis HQ : forall fuel s line k text l' rest,
    next_token fuel rules s line = Some (k, text, l', rest) -> Q k text.
  Definition tokQ (t : token) : Prop := Q (tk t) (ttext t).

  Lemma sloop_text recur active fn :
    (forall g c r, recur (g :: active) g c = Ok r -> Forall tokQ (fst r)) ->
    forall fu s line r, sloop rules files recur active fn fu s line = Ok r -> Forall tokQ (fst r).
  Proof.
    intros Hrec. induction fu as [|fu IH]; intros s line r H; [rewrite sloop_O in H; discriminate|].
    rewrite sloop_S in H. unfold sstep in H.
    destruct (next_token (S (length s)) rules s line) as [[[[k text] line1] rest]|] eqn:E1.
    2:{ inversion H; subst r. constructor. }
    assert (ONE : forall s' l' (g : list token * list perr -> list perr),
              (do r' <- sloop rules files recur active fn fu s' l'; Ok (fst r', g r')) = Ok r -> Forall tokQ (fst r)).
    { intros s' l' g Hb. apply bind_Ok_inv in Hb. destruct Hb as [r' [Hr' Hb]]. inversion Hb; subst r.
      cbn [fst]. eapply IH; exact Hr'. }
    destruct (tk_eqb k INCLUDE).
    - destruct (next_token (S (length rest)) rules rest line1) as [[[[k2 text2] line2] rest2]|] eqn:E2.
      + destruct (tk_eqb k2 FNAME).
        * destruct (flookup files (strip_quotes text2)) as [c|] eqn:Ef.
          -- destruct (str_in (strip_quotes text2) active).
             ++ eapply (ONE rest2 line2 (fun r' => _ :: snd r')); exact H.
             ++ apply bind_Ok_inv in H. destruct H as [r1 [Hr1 H]].
                apply bind_Ok_inv in H. destruct H as [r2 [Hr2 H]]. inversion H; subst r. cbn [fst].
                apply Forall_app. split; [eapply Hrec; exact Hr1|eapply IH; exact Hr2].
          -- eapply (ONE rest2 line2 (fun r' => _ :: snd r')); exact H.
        * eapply (ONE rest2 line2 (fun r' => _ :: snd r')); exact H.
      + eapply (ONE [] line1 (fun r' => _ :: snd r')); exact H.
    - apply bind_Ok_inv in H. destruct H as [r' [Hr' H]]. inversion H; subst r. cbn [fst].
      constructor; [|eapply IH; exact Hr']. unfold tokQ. cbn [tk ttext]. eapply HQ. exact E1.
  Qed.

  Lemma scan_file_text : forall d active fn c r, scan_file rules d files active fn c = Ok r -> Forall tokQ (fst r).
  Proof.
    induction d as [|d IH]; intros active fn c r H.
    - rewrite scan_file_O in H. discriminate.
    - rewrite scan_file_S in H. eapply sloop_text; [|exact H]. intros g c' r' Hr'. eapply IH. exact Hr'.
  Qed.

  Hypothesis Qeof : Q T_EOF EOF_text.

  Lemma scan_text main toks errs : scan rules files main = Ok (toks, errs) -> Forall tokQ toks.
  Proof.
    unfold scan, scan_fuel. intros H.
    destruct (flookup files main) as [c|] eqn:Ef.
    - apply bind_Ok_inv in H. destruct H as [r [Hr H]]. inversion H; subst toks errs.
      apply Forall_app. split; [eapply scan_file_text; exact Hr|].
      destruct (eof_token_shape files main (fst r)) as (fn' & l' & ->). constructor; [exact Qeof|constructor].
    - inversion H; subst toks errs.
      destruct (eof_token_shape files main []) as (fn' & l' & ->). constructor; [exact Qeof|constructor].
  Qed.
End ScanText.

Lemma PT_eof : PT T_EOF EOF_text.
Proof.
  split; [reflexivity|]. split.
  - intros [K|[K|K]]; discriminate.
  - intros K. discriminate.
Qed.

(* ---- the file names of the tokens ------------------------------------------------------------------ *)
Lemma prepend_keys pre name : forall files, map fst (prepend_to files name pre) = map fst files.
Proof.
  induction files as [|[k v] t IH]; cbn [prepend_to map]; [reflexivity|].
  destruct (str_eqb k name); cbn [map fst]; [reflexivity|]. rewrite IH. reflexivity.
Qed.

Lemma seen_keys files main f : In f (map fst (seen_files files main)) -> f = standards_name \/ In f (map fst files).
Proof.
  unfold seen_files. cbv zeta. intros H.
  assert (W : In f (map fst (with_standards files)) -> f = standards_name \/ In f (map fst files)).
  { unfold with_standards. destruct standards_replace; cbn [map fst].
    - intros [E|E]; [left; symmetry; exact E|right; exact E].
    - rewrite map_app. intros E. apply in_app_or in E. destruct E as [E|[E|[]]]; [right; exact E|left; symmetry; exact E]. }
  destruct (fcontains (with_standards files) main); [rewrite prepend_keys in H|]; apply W; exact H.
Qed.

(* what the pipeline's scanner guarantees about every token *)
Definition scanned (files : files_t) (t : token) : Prop :=
  PT (tk t) (ttext t) /\ (tfile t = dash \/ tfile t = standards_name \/ In (tfile t) (map fst files)).

Lemma scan_scanned files main toks errs :
  scan Gen_Lexer.rules (seen_files files main) main = Ok (toks, errs) -> Forall (scanned files) toks.
Proof.
  intros H. pose proof (scan_text _ _ PT gen_next_token_PT PT_eof _ _ _ H) as A.
  destruct (scan_positions _ _ _ _ _ H) as [B _].
  rewrite Forall_forall in *. intros t Ht. split; [apply (A t Ht)|].
  destruct (B t Ht) as [[E _]|(text & Ef & _)]; [left; exact E|right].
  apply flookup_in in Ef. apply seen_keys in Ef. exact Ef.
Qed.
