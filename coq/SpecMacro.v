(* SpecMacro.v — specification vocabulary for the macro properties C09-C12: what one rewriting step
   is, which candidate must win, what hygiene of temporaries means.  Definitions only. *)
From Coq Require Import Sorting.Sorted.
From Theo Require Import Base Tokens Errors MacroExtract Grammar LR Gen_MacroGrammar Gen_Consts MacroApply.
Local Open Scope Z_scope.

(* ---- derivations of the detector grammar (declarative meaning of a slot) ------------------------ *)
(* Derives g X w : the symbol X derives the terminal string w (terminals as N indices) *)
Inductive Derives (g : grammar) : sym -> list N -> Prop :=
| D_tm : forall i, Derives g (Tm i) [i]
| D_nt : forall n alt rhs w, nth_error (rs_get g (Nt n)) alt = Some rhs -> DerivesL g rhs w -> Derives g (Nt n) w
with DerivesL (g : grammar) : list sym -> list N -> Prop :=
| DL_nil : DerivesL g [] []
| DL_cons : forall X rest w1 w2, Derives g X w1 -> DerivesL g rest w2 -> DerivesL g (X :: rest) (w1 ++ w2).

Definition kinds (ts : list token) : list N := map translator ts.

(* a token range matches a pattern: per pattern symbol one sub-range; a literal matches one token of
   its kind — and, for ID / INT / NV_ID literals, of its text; a slot matches a range that derives
   from the slot's non-terminal *)
Inductive MatchesPattern : list token -> list (list token) -> Prop :=
| MP_nil : MatchesPattern [] []
| MP_lit : forall p rest t slots,
    slot_nonterminal (tk p) = None -> tk t = tk p ->
    (match tk p with ID | INT | NV_ID => ttext t = ttext p | _ => True end) ->
    MatchesPattern rest slots -> MatchesPattern (p :: rest) ([t] :: slots)
| MP_slot : forall p rest n range slots,
    slot_nonterminal (tk p) = Some n -> Derives base_grammar (Nt (N.of_nat n)) (kinds range) ->
    MatchesPattern rest slots -> MatchesPattern (p :: rest) (range :: slots).

(* ---- one rewriting step --------------------------------------------------------------------------- *)
(* a candidate: which macro (by its detector), where, how long, the ranges per pattern symbol *)
Definition cand := (detector * response)%type.
Definition prio (c : cand) : Z := m_priority (d_macro (fst c)).
Definition loc (c : cand) : Z := r_location (snd c).
Definition len (c : cand) : Z := r_length (snd c).

(* c is at least as good as c' : higher priority, then further left, then longer *)
Definition at_least_as_good (c c' : cand) : Prop :=
  prio c' < prio c \/
  (prio c = prio c' /\ (loc c < loc c' \/ (loc c = loc c' /\ len c' <= len c))).

(* all candidates the detectors report on this input *)
Definition reported (bins : list (Z * list detector)) (input : list token) (c : cand) : Prop :=
  exists p ds, In (p, ds) bins /\ In (fst c) ds /\ detect (fst c) input = Ok (Some (snd c)).

(* the result of applying candidate c: everything outside the range untouched and in order *)
Definition rewrite_with (input : list token) (c : cand) (pass : Z) (out : list token) : Prop :=
  exists repl, get_replacement (d_macro (fst c)) (snd c) pass = Ok repl /\
    0 <= loc c /\ 0 <= len c /\ loc c + len c <= zlen input /\
    out = firstn (Z.to_nat (loc c)) input ++ repl ++ skipn (Z.to_nat (loc c + len c)) input.

(* the body with every $n replaced by slot n and every #n renamed *)
Fixpoint body_spec (m : macrodef) (first_line : Z) (matched : list (list token)) (pass : Z) (body : list token)
  : option (list token) :=
  match body with
  | [] => Some []
  | c :: rest =>
      match body_spec m first_line matched pass rest with
      | None => None
      | Some more =>
          match tk c with
          | INSERTION =>
              match znth (m_tt m) (strToIntSilent (tl (ttext c))) with
              | Some slot => match znth matched slot with Some r => Some (r ++ more) | None => None end
              | None => None
              end
          | TEMP_VAL => Some (mkTok ID (temp_name (ttext c) (tfile c) first_line pass) (tfile c) (tline c) :: more)
          | _ => Some (c :: more)
          end
      end
  end.

(* k rewriting steps with consecutive pass numbers *)
Inductive Steps (bins : list (Z * list detector)) : list token -> Z -> nat -> list token -> Prop :=
| Steps_0 : forall input p, Steps bins input p 0 input
| Steps_S : forall input p mid out k,
    try_bins false bins input p = Ok (Some mid) -> Steps bins mid (p + 1) k out ->
    Steps bins input p (S k) out.

(* bins are well formed: key order descending, every detector in the bin of its priority *)
Definition bins_ok (bins : list (Z * list detector)) : Prop :=
  StronglySorted (fun a b => fst b < fst a) bins /\
  forall p ds d, In (p, ds) bins -> In d ds -> m_priority (d_macro d) = p.
