(* Proofs_Compiled.v — the VM properties for every program the compiler emits (CompiledStatements.v):
   compositions of the VM theorems with the generator theorems that discharge their hypotheses. *)
From Coq Require Import List ZArith NArith Lia Bool.
From Theo Require Import Base Regex Tokens Errors Lexer Scan MacroExtract Grammar LR MacroApply Parser VMModel VMSpec VMStatements
                         VMCheck VMCheckStatements GenModel Compile Gen_Lexer Gen_Consts CompileStatements GenWfStatements
                         CompiledStatements Proofs_VM_mem Proofs_VM_dbg Proofs_VMCheck Proofs_Front Proofs_Gen0 Proofs_Gen
                         Proofs_GenWf Proofs_Loc.
Import ListNotations.
Local Open Scope Z_scope.

Ltac bi H x Hx := apply Proofs_VM_mem.bind_ok in H; destruct H as (x & Hx & H).

(* ================================================================================================ *)
(* 1. from compile to gen                                                                            *)
(* ================================================================================================ *)

(* every compile result is a gen result (whatever the flags) *)
Lemma compile_gen files main c : compile files main = Ok c ->
  exists ok perrs root g, gen ok perrs root = Ok g /\ cr_prog c = gr_prog g /\ cr_ok c = gr_ok g.
Proof.
  intro H. unfold compile, compile_budget in H.
  bi H p Hp. bi H g Hg. inversion H; subst c; clear H. cbn [cr_ok cr_prog].
  exists (pr_ok p), (pr_errors p), (pr_root p), g. split; [exact Hg|]. split; reflexivity.
Qed.

Lemma compile_tables files main c : compile files main = Ok c ->
  tables_ok (cr_prog c) = true /\ no_break (cr_prog c) = true.
Proof.
  intro H. destruct (compile_gen _ _ _ H) as (ok & perrs & root & g & Hg & E & _).
  rewrite E. exact (C08_gen_tables_proof _ _ _ _ Hg).
Qed.

(* a successful compile is the generation from an error-free parse *)
Lemma compile_ok_gen files main c : compile files main = Ok c -> cr_ok c = true ->
  exists toks root g, parse_tokens toks = Ok (root, []) /\ gen true [] root = Ok g /\
                      gr_ok g = true /\ cr_prog c = gr_prog g.
Proof.
  intros H OK. unfold compile, compile_budget in H.
  bi H p Hp. bi H g Hg. inversion H; subst c; clear H. cbn [cr_ok cr_prog] in *.
  destruct (C02_errors_forwarded_proof _ _ _ _ Hp) as [_ FW].
  assert (PO : pr_ok p = true).
  { destruct (pr_ok p) eqn:E; [reflexivity|]. destruct (FW g Hg eq_refl) as [C _]. congruence. }
  clear FW.
  pose proof (parse_budget_ok _ _ _ _ Hp) as PE. rewrite PO in PE, Hg.
  destruct (pr_errors p) as [|e es] eqn:EE; [|discriminate PE]. clear PE.
  unfold parse_budget in Hp. cbv zeta in Hp.
  bi Hp sr Hs. destruct sr as [toks serrs].
  bi Hp xr Hx. destruct xr as [[xerrs out] macros].
  bi Hp ar Ha. destruct ar as [aerrs toks2].
  bi Hp pr Hpr. destruct pr as [root perrs].
  inversion Hp; subst p; clear Hp. cbn [pr_root pr_errors pr_ok] in *.
  apply app_eq_nil in EE. destruct EE as [-> _].
  exists toks2, root, g. split; [exact Hpr|]. split; [exact Hg|]. split; [exact OK | reflexivity].
Qed.

(* ================================================================================================ *)
(* 2. the program generated without a tree: PREPARE_EXEC, HALT                                      *)
(* ================================================================================================ *)
Definition empty_result : genresult :=
  match gen true [] None with Ok g => g | _ => mkGenRes false [] (mkProg [] [] [] []) end.

Lemma gen_none_eq g : gen true [] None = Ok g -> g = empty_result.
Proof. intro H. unfold empty_result. rewrite H. reflexivity. Qed.

Lemma empty_consts : consts_in_range (gr_prog empty_result) = true /\ counts_ok (gr_prog empty_result) = true.
Proof. split; vm_compute; reflexivity. Qed.

Lemma empty_wf : wf_program (gr_prog empty_result) = true /\ acyclic_calls (gr_prog empty_result) = true.
Proof. split; vm_compute; reflexivity. Qed.

(* ================================================================================================ *)
(* 3. what a successful compile gives the VM theorems                                               *)
(* ================================================================================================ *)
Lemma compile_ok_consts files main c : compile files main = Ok c -> cr_ok c = true ->
  consts_in_range (cr_prog c) = true /\ counts_ok (cr_prog c) = true.
Proof.
  intros H OK. destruct (compile_ok_gen _ _ _ H OK) as (toks & root & g & Hp & Hg & Hok & E).
  rewrite E. destruct root as [n|].
  - exact (C20_consts_proof n g Hg Hok).
  - rewrite (gen_none_eq g Hg). exact empty_consts.
Qed.

Lemma compile_ok_sound files main c : compile files main = Ok c -> cr_ok c = true ->
  exists ann f, sound (cr_prog c) ann (Ecall (cr_prog c)) f.
Proof.
  intros H OK. destruct (compile_ok_gen _ _ _ H OK) as (toks & root & g & Hp & Hg & Hok & E).
  rewrite E. destruct root as [n|].
  - exact (C03_gen_wf_proof toks n g Hp Hg Hok).
  - rewrite (gen_none_eq g Hg). destruct empty_wf as [W A]. exact (wf_acyclic_sound _ W A).
Qed.

Lemma sound_weaken p ann E f : sound p ann E f -> sound p ann (fun _ _ => True) f.
Proof.
  intros [H1 H2 H3 H4 H5 H6]. constructor; try assumption. intros; exact I.
Qed.

(* ================================================================================================ *)
(* 4. the statements                                                                                 *)
(* ================================================================================================ *)
Lemma C05_compiled_proof : C05_compiled_stmt.
Proof.
  intros files main c h fuel s H Hr. destruct (compile_tables _ _ _ H) as [HT NB]. split.
  - exact (C05_transparent_proof _ h fuel s HT NB Hr).
  - intros Hd m s0 Hm Hd0. exact (C05_same_result_proof _ h fuel s HT NB Hr Hd m s0 Hm Hd0).
Qed.

Lemma C06_compiled_proof : C06_compiled_stmt.
Proof.
  intros files main c H. destruct (compile_tables _ _ _ H) as [HT NB]. split.
  - destruct C06_location_proof as [_ L]. exact (L _ HT).
  - intros h fuel s Hr. pose proof (rel_reachable_proof _ h fuel s HT NB Hr) as R. split; [|split].
    + exact (C06_enabled_proof _ h fuel s HT NB Hr).
    + intros f l v. exact (C06_enable_proof _ s f l v HT R).
    + intros s' b He. exact (C06_stop_iff_proof _ s s' b HT R He).
Qed.

Lemma C17_compiled_proof : C17_compiled_stmt.
Proof.
  intros files main c h fuel s H Hr. destruct (compile_tables _ _ _ H) as [HT NB]. split.
  - exact (C17_reset_proof _ h fuel s HT NB Hr).
  - intro h'. exact (C17_after_proof _ h h' fuel s HT NB Hr).
Qed.

Lemma C19_compiled_proof : C19_compiled_stmt.
Proof.
  intros files main c h fuel s H OK Hr. destruct (compile_ok_consts _ _ _ H OK) as [_ CO].
  exact (C19_proof _ h fuel s CO Hr).
Qed.

Lemma C20_compiled_proof : C20_compiled_stmt.
Proof.
  intros files main c h fuel s H OK Hr. destruct (compile_ok_consts _ _ _ H OK) as [CR _].
  exact (C20_range_proof _ h fuel s CR Hr).
Qed.

Lemma C03_compiled_proof : C03_compiled_stmt.
Proof.
  intros files main c H OK. destruct (compile_tables _ _ _ H) as [HT NB].
  destruct (compile_ok_sound _ _ _ H OK) as (ann & f & SD). split.
  - intros h fuel. pose proof (sound_weaken _ _ _ _ SD) as SW.
    assert (H0 : hinv (cr_prog c) ann (init (cr_prog c))).
    { split; [apply rel_init; exact NB|]. left. repeat split. }
    destruct (run_hist_hist _ ann f HT SW fuel h (init (cr_prog c)) H0) as [HF | (s & HS & Hs)]; [left; exact HF|].
    right. exists s. split; [exact HS|]. eapply hinv_observe; eassumption.
  - intro k.
    destruct (vm_run_typed _ _ _ _ SD k (init (cr_prog c)) eq_refl (typed_init _ _ _)) as (s & Hr & Hps & Ht).
    exists s. split; [exact Hr|]. exact (typed_depth _ _ _ SD s Ht).
Qed.

Print Assumptions C05_compiled_proof.
Print Assumptions C06_compiled_proof.
Print Assumptions C17_compiled_proof.
Print Assumptions C19_compiled_proof.
Print Assumptions C20_compiled_proof.
Print Assumptions C03_compiled_proof.
