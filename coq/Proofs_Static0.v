(* Proofs_Static0.v — helper lemmas for Proofs_Static.v (C04_static).
   Part 1: the parser delivers, when it records no error, trees in which every value position is filled
   (`full`): ASSIGN has a value, LOOP/WHILE have a bound/condition, the comparison of IF has both operands. *)
From Coq Require Import List ZArith NArith Lia Bool.
From Theo Require Import Base Tokens Errors MacroExtract Parser VMModel GenModel RefSem SpecGrammar CompileStatements AcceptStatements Proofs_VM_dbg Proofs_Front Proofs_Gen0 Proofs_Gen Proofs_Sem.
Import ListNotations.
Local Open Scope Z_scope.

Definition osome (o : option node) : bool := match o with Some _ => true | None => false end.

Fixpoint full (n : node) : bool :=
  match n with
  | Node t _ _ _ l r =>
      (match l with None => true | Some x => full x end) &&
      (match r with None => true | Some x => full x end) &&
      match t with
      | N_ASSIGN => osome r
      | N_LOOP | N_WHILE => osome l
      | N_IF => match l with Some (Node _ _ _ _ a b) => osome a && osome b | None => false end
      | _ => true
      end
  end.

Definition ofull (o : option node) : bool := match o with None => true | Some x => full x end.

Lemma full_inv t line file tok l r : full (Node t line file tok l r) = true ->
  ofull l = true /\ ofull r = true /\
  match t with
  | N_ASSIGN => osome r = true
  | N_LOOP | N_WHILE => osome l = true
  | N_IF => match l with Some (Node _ _ _ _ a b) => osome a = true /\ osome b = true | None => False end
  | _ => True
  end.
Proof.
  cbn [full]. fold (ofull l). fold (ofull r). intros H.
  apply andb_true_iff in H. destruct H as [H H3]. apply andb_true_iff in H. destruct H as [H1 H2].
  split; [exact H1|]. split; [exact H2|].
  destruct t; auto. destruct l as [[t1 a1 b1 c1 a b]|]; [|discriminate].
  apply andb_true_iff in H3. exact H3.
Qed.

(* ---- the parser ---------------------------------------------------------------------------------- *)
Local Open Scope nat_scope.

Lemma perror_len s k s' : perror s k = Ok s' -> length (p_errs s') = S (length (p_errs s)).
Proof.
  unfold perror. intros H. apply pp_bind_inv in H. destruct H as (t & _ & H). inversion H; subst.
  cbn [p_errs]. rewrite app_length. cbn. lia.
Qed.

Lemma pmatch_len s k s' : pmatch s k = Ok s' -> length (p_errs s) <= length (p_errs s').
Proof.
  unfold pmatch. intros H.
  apply pp_bind_inv in H. destruct H as (k0 & _ & H).
  apply pp_bind_inv in H. destruct H as (s1 & E1 & H).
  apply pp_bind_inv in H. destruct H as (k1 & _ & H).
  assert (L1 : length (p_errs s) <= length (p_errs s1)).
  { destruct (tk_eqb k0 k).
    - inversion E1; subst. lia.
    - apply pp_bind_inv in E1. destruct E1 as (s2 & E2 & E1). inversion E1; subst. cbn [p_errs].
      apply perror_len in E2. lia. }
  destruct k1; inversion H; subst; cbn [p_errs]; exact L1.
Qed.

Lemma matchmk_len s k ty n s' : matchmk s k ty = Ok (n, s') ->
  length (p_errs s) <= length (p_errs s') /\ (leafty ty = true -> full n = true).
Proof.
  unfold matchmk. intros H.
  apply pp_bind_inv in H. destruct H as (t & _ & H).
  apply pp_bind_inv in H. destruct H as (s1 & E1 & H).
  inversion H; subst. split; [eapply pmatch_len; eauto|].
  intros LT. destruct ty; try discriminate LT; reflexivity.
Qed.

Definition epost (f : pfn) (s : pst) (r : option node) (s' : pst) : Prop :=
  length (p_errs s) <= length (p_errs s') /\
  (length (p_errs s') = length (p_errs s) -> ofull r = true /\ (f = fVALUE -> r <> None)).

Ltac efin :=
  unfold epost; split; [lia|];
  let HL := fresh "HL" in intro HL;
  repeat match goal with
         | Hc : length (p_errs ?a) = length (p_errs ?b) -> _ |- _ =>
             let X := fresh "X" in
             assert (X : length (p_errs a) = length (p_errs b)) by lia; specialize (Hc X); clear X;
             let F1 := fresh "F" in let F2 := fresh "F" in destruct Hc as [F1 F2]
         end;
  first
    [ exfalso; lia
    | split;
      [ unfold mk, ofull in *; cbn [full osome andb n_line n_file];
        repeat match goal with
               | Hf : full _ = true |- _ => rewrite ?Hf; clear Hf
               | Hf : match ?o with None => true | Some x => full x end = true |- _ => rewrite ?Hf; clear Hf
               end;
        try reflexivity;
        repeat match goal with
               | Hv : fVALUE = fVALUE -> ?o <> None |- _ => specialize (Hv eq_refl); destruct o; [|congruence]
               end;
        cbn [full osome andb] in *; try reflexivity; auto
      | let Q := fresh "Q" in intro Q; first [discriminate Q | discriminate | congruence] ] ].

Ltac estep IH :=
  match goal with
  | H : bind (bind _ _) _ = Ok _ |- _ => rewrite pp_bind_assoc in H; cbv beta in H
  | H : bind (Ok _) _ = Ok _ |- _ => cbn [bind] in H; cbv beta iota in H
  | H : bind (la _) _ = Ok _ |- _ =>
      let k := fresh "k" in
      apply pp_bind_inv in H; destruct H as (k & _ & H); destruct k; cbv beta iota in H
  | H : bind (perror ?si _) _ = Ok _ |- _ =>
      let s1 := fresh "s" in let E := fresh "E" in
      apply pp_bind_inv in H; destruct H as (s1 & E & H); apply perror_len in E
  | H : bind (pmatch ?si _) _ = Ok _ |- _ =>
      let s1 := fresh "s" in let E := fresh "E" in
      apply pp_bind_inv in H; destruct H as (s1 & E & H); apply pmatch_len in E
  | H : bind (matchmk ?si _ _) _ = Ok _ |- _ =>
      let n1 := fresh "n" in let s1 := fresh "s" in let E := fresh "E" in let SH := fresh "SH" in
      apply pp_bind_inv in H; destruct H as ((n1 & s1) & E & H); apply matchmk_len in E;
      destruct E as (E & SH); specialize (SH eq_refl);
      cbn [fst snd] in H; cbv beta iota in H
  | H : bind (pcall _ ?g ?si) _ = Ok _ |- _ =>
      let r1 := fresh "r" in let s1 := fresh "s" in let E := fresh "E" in let EF := fresh "EF" in
      apply pp_bind_inv in H; destruct H as ((r1 & s1) & E & H); apply IH in E;
      destruct E as (E & EF);
      cbn [fst snd] in H; cbv beta iota in H
  | H : (if is_value_start _ then _ else _) = Ok _ |- _ => cbn [is_value_start] in H
  | H : match ?v with _ => _ end = Ok _ |- _ => is_var v; destruct v
  | H : bind (of_opt _ ?o) _ = Ok _ |- _ =>
      let a := fresh "a" in let E := fresh "E" in
      apply pp_bind_inv in H; destruct H as (a & E & H); apply pp_of_opt_inv in E; subst o
  | H : pcall _ ?g ?si = Ok (_, _) |- _ =>
      let EF := fresh "EF" in
      apply IH in H; destruct H as (H & EF); efin
  | H : Ok _ = Ok (_, _) |- _ => inversion H; subst; clear H; efin
  end.

Lemma pcall_full : forall fuel f s r s', pcall fuel f s = Ok (r, s') -> epost f s r s'.
Proof.
  induction fuel as [|fu IH]; intros f s r s' H; [discriminate H|].
  destruct f.
  - rewrite pcall_fS in H. repeat estep IH.
  - rewrite pcall_fPORTS in H. repeat estep IH.
  - rewrite pcall_fOPORTS in H. repeat estep IH.
  - rewrite pcall_fARGS in H. repeat estep IH.
  - rewrite pcall_fMARGS in H. repeat estep IH.
  - rewrite pcall_fP in H. repeat estep IH.
  - rewrite pcall_fMOREP in H. repeat estep IH.
  - rewrite pcall_fVALUE in H. repeat estep IH.
  - rewrite pcall_fVARGS in H. repeat estep IH.
  - rewrite pcall_fMVARGS in H. repeat estep IH.
  - rewrite pcall_fEEOS in H. repeat estep IH.
Qed.

Lemma excess_len : forall fuel n s s', excess_loop n fuel s = Ok s' -> length (p_errs s) <= length (p_errs s').
Proof.
  intros fuel. induction n as [|n IH]; intros s s' H; [discriminate H|].
  cbn [excess_loop] in H.
  destruct (p_rest s) as [|t r]; [inversion H; subst; lia|].
  assert (HT : forall k,
            (do s1 <- perror s e_excess_input;
             do s2 <- pmatch s1 k;
             do k2 <- la s2;
             match k2 with
             | T_EOF => Ok s2
             | _ => do r <- pcall fuel fS s2; excess_loop n fuel (snd r)
             end) = Ok s' -> length (p_errs s) <= length (p_errs s')).
  { intros k Hk.
    apply pp_bind_inv in Hk. destruct Hk as (s1 & E1 & Hk). apply perror_len in E1.
    apply pp_bind_inv in Hk. destruct Hk as (s2 & E2 & Hk). apply pmatch_len in E2.
    apply pp_bind_inv in Hk. destruct Hk as (k2 & _ & Hk).
    assert (TAIL : (do r <- pcall fuel fS s2; excess_loop n fuel (snd r)) = Ok s' ->
                   length (p_errs s) <= length (p_errs s')).
    { intros Ht. apply pp_bind_inv in Ht. destruct Ht as ((r1 & s3) & E3 & Ht).
      apply pcall_full in E3. destruct E3 as (E3 & _). cbn [snd] in Ht. apply IH in Ht. lia. }
    destruct k2; try (apply TAIL; exact Hk). inversion Hk; subst. lia. }
  destruct (tk t); try (apply HT in H; exact H). inversion H; subst. lia.
Qed.

Lemma parser_full toks root : parse_tokens toks = Ok (Some root, []) -> full root = true.
Proof.
  unfold parse_tokens. intros H.
  apply pp_bind_inv in H. destruct H as ((r & s1) & E & H).
  apply pp_bind_inv in H. destruct H as (s2 & E2 & H).
  cbn [fst snd] in H, E2. inversion H; subst.
  apply pcall_full in E. destruct E as (L1 & F). apply excess_len in E2.
  cbn [p_errs] in *. match goal with Hx : p_errs s2 = [] |- _ => rewrite Hx in E2 end. cbn in E2, L1.
  assert (L0 : length (p_errs s1) = 0) by lia.
  destruct (F L0) as [F1 _]. exact F1.
Qed.
Local Open Scope Z_scope.
