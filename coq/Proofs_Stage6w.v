(* Proofs_Stage6w.v — the stage-6 theorems under the names and with the statements of Stage6Statements.v
   (no_run / run_on_line / runs_on_line are, definition for definition, callfree / call_on_line / calls_on_line of
   Proofs_C01s6q.v). *)
From Coq Require Import List ZArith NArith Lia Bool.
From Theo Require Import Base Regex Tokens Errors Lexer Scan MacroExtract Grammar LR MacroApply Parser VMModel VMSpec GenModel Compile
                         RefSem RefSemChk C01Statements C01Stages C01Stages3 C01Stages4 NamesStatements Stage6Statements Gen_Lexer Gen_Consts
                         Proofs_C01s6q Proofs_Stage6 Proofs_C01s6x.
Local Open Scope Z_scope.

Lemma runs_on_line_is_calls_on_line : forall n, runs_on_line n = calls_on_line n.
Proof. intros n. reflexivity. Qed.

Lemma C01_anylayout_budget_proof : C01_anylayout_budget_stmt.
Proof.
  intros root r rs n s H1 H2 H3 H4. rewrite runs_on_line_is_calls_on_line in H4.
  exact (C01_anylayout_budget_partial root r rs n s H1 H2 H3 H4).
Qed.

Lemma C01_every_source_proof : C01_every_source_stmt.
Proof.
  intros files main c p root rs H1 H2 H3 H4 H5 H6.
  destruct (C01_every_source_partial files main c p root rs H1 H2 H3 H4 H5 H6) as [A B].
  split; [exact A|]. intros H. rewrite runs_on_line_is_calls_on_line in H. exact (B H).
Qed.

Lemma C01_budget_needs_layout_proof : C01_budget_needs_layout_stmt.
Proof. split; [exact C01_anylayout_budget_counterexample | exact C01_every_source_counterexample]. Qed.

Print Assumptions C01_anylayout_proof.
Print Assumptions C01_anylayout_budget_proof.
Print Assumptions C01_every_source_proof.
Print Assumptions C01_budget_needs_layout_proof.
