(* VMCheckStatements.v — statements about the bytecode verifier (C03) and the call-depth bound (C16). *)
From Theo Require Import Base VMModel VMSpec VMStatements VMCheck.
Local Open Scope Z_scope.

(* a verified program never makes the VM leave its arrays: every run of any length is defined *)
Definition C03_wf_safe_stmt : Prop :=
  forall p, wf_program p = true -> forall k, exists s, vm_run k (init p) = Ok s.

(* ... and what a client can observe at any point is defined too *)
Definition C03_wf_observe_stmt : Prop :=
  forall p k s, wf_program p = true -> vm_run k (init p) = Ok s ->
    (exists b, isDone s = Ok b) /\ (exists v, views s = Ok v).

(* the same under any debugger history (breakpoints only toggle BREAK/POTENTIAL_BREAK at listed sites) *)
Definition C03_wf_safe_hist_stmt : Prop :=
  forall p h fuel, wf_program p = true -> tables_ok p = true -> no_break p = true ->
    run_hist fuel h (init p) = Fuel \/
    exists s, run_hist fuel h (init p) = Ok s /\ (exists b, isDone s = Ok b) /\ (exists v, views s = Ok v).

(* what wf_program means, in words: the first instruction creates the root frame; every reachable
   instruction has an annotation; operands are inside the frame the annotation declares *)
Definition C03_wf_meaning_stmt : Prop :=
  forall p, wf_program p = true ->
    exists f ann, root_ok p = Some f /\ infer p = Some ann /\ check_local p ann = true /\
      ann_at ann 1 = Some (mkAnn 0 f None) /\
      (forall pc a i, ann_at ann pc = Some a -> znth (code p) pc = Some i ->
          instr_ok p a i = true /\
          forall pc' a', In (pc', a') (successors pc a i) -> ann_at ann pc' = Some a').

(* C16: with acyclic calls the activation stack never exceeds the number of routines plus one *)
Definition C16_depth_stmt : Prop :=
  forall p k s, wf_program p = true -> acyclic_calls p = true -> vm_run k (init p) = Ok s ->
    zlen (stack s) <= zlen (exec_targets p) + 1.
