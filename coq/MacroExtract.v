(* MacroExtract.v — model of Theo::extract_macros (Compiler/src/macro.cpp:18-274).
   The recursive descent S / D / MD / A consumes one token per call and only ever calls "forward",
   so it is rendered as a state machine over the current position; [pop_after] records whether the
   D/MD frame that entered A will pop the macro when A returns (macro.cpp:159,166,183). *)
From Theo Require Import Base Tokens Errors.
Local Open Scope Z_scope.

Record macrodef := mkMacro {
  m_priority : Z;
  m_rule : list token;
  m_cc : list Z;           (* content_constraint_token_indices *)
  m_tt : list Z;           (* template_token_indices *)
  m_repl : list token
}.

Record xstate := mkX {
  x_macros : list macrodef;     (* incomplete_macros, LAST element = back() *)
  x_errs : list perr;           (* in order of occurrence *)
  x_pos : Z;
  x_out : list token            (* in order *)
}.

(* strtol(text, NULL, 10) on a token text: leading decimal digits, saturating at LONG_MAX.
   (Token texts of kind INT / INSERTION are digit strings by the scanner rules; blanks and signs
   that strtol would also accept never occur there and are not modelled.) *)
Fixpoint digits_val (s : str) (acc : Z) : Z :=
  match s with
  | [] => acc
  | c :: t => if ((48 <=? c) && (c <=? 57))%N then digits_val t (acc * 10 + Z.of_N (c - 48)) else acc
  end.
Definition strtol (s : str) : Z := Z.min (digits_val s 0) LONG_MAX.

Section Extract.
  Variable tokens : list token.
  Definition size : Z := zlen tokens.

  (* tokens[MIN(tok_pos, tokens.size() - 1)] — undefined on an empty vector *)
  Definition clamped (pos : Z) : result token :=
    of_opt ub_index (znth tokens (Z.min pos (size - 1))).

  Definition lookahead (pos : Z) : result tkind :=
    if size <=? pos then Ok T_EOF
    else do t <- of_opt ub_index (znth tokens pos); Ok (tk t).

  Definition add_err (x : xstate) (e : perr) : xstate :=
    mkX (x_macros x) (x_errs x ++ [e]) (x_pos x) (x_out x).
  Definition set_pos (x : xstate) (p : Z) : xstate := mkX (x_macros x) (x_errs x) p (x_out x).

  (* error(es, t, msg): location of the clamped current token *)
  Definition err_here (x : xstate) (k : ekind) : result xstate :=
    do t <- clamped (x_pos x);
    Ok (add_err x (mkPerr k (tfile t) (tline t) [])).

  (* match(es, expect): returns the new state and whether it matched *)
  Definition xmatch (x : xstate) (expect : tkind) : result (xstate * bool) :=
    do la <- lookahead (x_pos x);
    if tk_eqb la expect then Ok (set_pos x (x_pos x + 1), true)
    else
      do x1 <- err_here x e_macro_expect;
      Ok (set_pos x1 (x_pos x + 1), false).

  (* advance(es) = match(es, lookahead(es)) : always matches *)
  Definition advance (x : xstate) : result xstate :=
    do la <- lookahead (x_pos x);
    do r <- xmatch x la; Ok (fst r).

  Definition copy (x : xstate) : result xstate :=
    do t <- clamped (x_pos x);
    Ok (mkX (x_macros x) (x_errs x) (x_pos x) (x_out x ++ [t])).

  Definition push_macro (x : xstate) : xstate :=
    mkX (x_macros x ++ [mkMacro 0 [] [] [] []]) (x_errs x) (x_pos x) (x_out x).

  Definition pop_macro (x : xstate) : result xstate :=
    match rev (x_macros x) with
    | [] => UB ub_back
    | _ :: r => Ok (mkX (rev r) (x_errs x) (x_pos x) (x_out x))
    end.

  Definition upd_back (x : xstate) (f : macrodef -> macrodef) : result xstate :=
    match rev (x_macros x) with
    | [] => UB ub_back
    | m :: r => Ok (mkX (rev (f m :: r)) (x_errs x) (x_pos x) (x_out x))
    end.

  (* strToInt(es, tok): RANGE error located at the clamped current token; (int) of the long *)
  Definition strToInt (x : xstate) (text : str) : result (xstate * Z) :=
    let v := strtol text in
    do t <- clamped (x_pos x);
    let x' := if INT_MAX <=? v then add_err x (mkPerr e_range (tfile t) (tline t) []) else x in
    Ok (x', wrap_int v).

  Definition push_rule (x : xstate) : result xstate :=
    do l <- of_opt ub_index (znth tokens (x_pos x));
    upd_back x (fun m =>
      let rule' := m_rule m ++ [l] in
      let idx := zlen rule' - 1 in
      match tk l with
      | NV_ID | ID | INT => mkMacro (m_priority m) rule' (m_cc m ++ [idx]) (m_tt m) (m_repl m)
      | PROG_TEMP | ARGS_TEMP | ID_TEMP | INT_TEMP | VALUE_TEMP =>
          mkMacro (m_priority m) rule' (m_cc m) (m_tt m ++ [idx]) (m_repl m)
      | _ => mkMacro (m_priority m) rule' (m_cc m) (m_tt m) (m_repl m)
      end).

  Definition push_replacement (x : xstate) : result xstate :=
    do l <- of_opt ub_index (znth tokens (x_pos x));
    upd_back x (fun m => mkMacro (m_priority m) (m_rule m) (m_cc m) (m_tt m) (m_repl m ++ [l])).

  Inductive xmode := mS | mD | mMD | mA (pop_after : bool) | mDone.

  (* one call of S / D / MD / A up to its (tail) call of the next function *)
  Definition xstep (mode : xmode) (x : xstate) : result (xmode * xstate) :=
    do la <- lookahead (x_pos x);
    match mode with
    | mDone => Ok (mDone, x)
    | mS =>
        match la with
        | T_EOF => do x1 <- copy x; do x2 <- advance x1; Ok (mDone, x2)
        | DEFINE =>
            do x1 <- advance x;
            let x2 := push_macro x1 in
            do la2 <- lookahead (x_pos x2);
            match la2 with
            | PRIORITY =>
                do x3 <- advance x2;
                do r <- xmatch x3 INT;
                let '(x4, ok) := r in
                if ok then
                  do t <- of_opt ub_index (znth tokens (x_pos x4 - 1));
                  do r2 <- strToInt x4 (ttext t);
                  let '(x5, v) := r2 in
                  do x6 <- upd_back x5 (fun m => mkMacro v (m_rule m) (m_cc m) (m_tt m) (m_repl m));
                  Ok (mD, x6)
                else Ok (mD, x4)
            | _ => Ok (mD, x2)
            end
        | _ => do x1 <- copy x; do x2 <- advance x1; Ok (mS, x2)
        end
    | mD =>
        match la with
        | T_EOF => do r <- xmatch x AS; Ok (mA true, fst r)
        | AS => do x1 <- err_here x e_macro_empty; do x2 <- advance x1; Ok (mA true, x2)
        | DEFINE => do x1 <- err_here x e_macro_nested_define; do x2 <- advance x1; Ok (mMD, x2)
        | _ => do x1 <- push_rule x; do x2 <- advance x1; Ok (mMD, x2)
        end
    | mMD =>
        match la with
        | T_EOF => do r <- xmatch x AS; Ok (mA true, fst r)
        | AS => do x1 <- advance x; Ok (mA false, x1)
        | DEFINE => do x1 <- err_here x e_macro_nested_define; do x2 <- advance x1; Ok (mMD, x2)
        | _ => do x1 <- push_rule x; do x2 <- advance x1; Ok (mMD, x2)
        end
    | mA pop =>
        match la with
        | T_EOF =>
            do r <- xmatch x END_DEFINE;
            do x2 <- (if pop then pop_macro (fst r) else Ok (fst r));
            Ok (mS, x2)
        | END_DEFINE =>
            do x1 <- advance x;
            do x2 <- (if pop then pop_macro x1 else Ok x1);
            Ok (mS, x2)
        | DEFINE => do x1 <- err_here x e_macro_nested_define; do x2 <- advance x1; Ok (mA pop, x2)
        | AS => do x1 <- err_here x e_macro_nested_as; do x2 <- advance x1; Ok (mA pop, x2)
        | _ => do x1 <- push_replacement x; do x2 <- advance x1; Ok (mA pop, x2)
        end
    end.

  Fixpoint xrun (fuel : nat) (mode : xmode) (x : xstate) : result xstate :=
    match mode with
    | mDone => Ok x
    | _ =>
        match fuel with
        | O => Fuel
        | S f => do r <- xstep mode x; xrun f (fst r) (snd r)
        end
    end.

  (* the validation loop over the insertion points (macro.cpp:255-270) *)
  Fixpoint validate_repl (x : xstate) (ntt : Z) (repl : list token) : result (xstate * list token) :=
    match repl with
    | [] => Ok (x, [])
    | t :: rest =>
        match tk t with
        | INSERTION =>
            do r <- strToInt x (tl (ttext t));
            let '(x1, ind) := r in
            if (ind <? 0) || (ntt <=? ind) then
              let x2 := add_err x1 (mkPerr e_range_insertion (tfile t) (tline t) []) in
              do r2 <- validate_repl x2 ntt rest;
              Ok (fst r2, mkTok ID [101; 114; 114; 111; 114]%N (tfile t) (tline t) :: snd r2)
            else
              do r2 <- validate_repl x1 ntt rest; Ok (fst r2, t :: snd r2)
        | _ => do r2 <- validate_repl x ntt rest; Ok (fst r2, t :: snd r2)
        end
    end.

  Fixpoint validate_macros (x : xstate) (ms : list macrodef) : result (xstate * list macrodef) :=
    match ms with
    | [] => Ok (x, [])
    | m :: rest =>
        do r <- validate_repl x (zlen (m_tt m)) (m_repl m);
        let '(x1, repl') := r in
        do r2 <- validate_macros x1 rest;
        Ok (fst r2, mkMacro (m_priority m) (m_rule m) (m_cc m) (m_tt m) repl' :: snd r2)
    end.

  (* result: errors, tokens without the definitions, macros *)
  Definition extract_macros : result (list perr * list token * list macrodef) :=
    do x <- xrun (4 + length tokens) mS (mkX [] [] 0 []);
    do r <- validate_macros x (x_macros x);
    Ok (x_errs (fst r), x_out x, snd r).
End Extract.
