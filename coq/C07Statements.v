(* C07Statements.v — stepping and variable inspection are faithful to the source (C07, in full): a complete stepping run
   of the compiled program — stepping mode on, single steps until HALT has been executed, recording the current break
   location and the views of all activations at every stop — visits exactly the stops of the reference semantics
   (RefSem's trace: one entry per RSite executed, with the views of all live activations at that moment), in the same
   order, with the same user-variable values.  Stated for the same fragments as the stages of C01. *)
From Theo Require Import Base Regex Tokens Errors Lexer Scan MacroExtract Grammar LR MacroApply Parser VMModel VMSpec GenModel Compile
                         RefSem RefSemChk C01Statements C01Stages C01Stages3 C01Stages4 Gen_Lexer Gen_Consts.
Local Open Scope Z_scope.

Definition vmview := (str * list (str * Z))%type.
Definition stop := (bp * list vmview)%type.

Definition at_halt (s : vm) : bool :=
  match op_at s (ip s) with Some HALT => true | _ => false end.

(* n single steps; stops when the instruction just executed was HALT (third component true).
   A stop is recorded when executeSingle reports one and the instruction was not HALT. *)
Fixpoint step_trace (n : nat) (s : vm) : result (list stop * vm * bool) :=
  match n with
  | O => Ok ([], s, false)
  | S k =>
      let h := at_halt s in
      do r <- exec1 s;
      let '(s', stopped) := r in
      if h then Ok ([], s', true)
      else if stopped then
        do l <- of_opt ub_index (getCurrentBreak s');
        do v <- views s';
        do rest <- step_trace k s';
        let '(tr, s'', e) := rest in
        Ok ((l, v) :: tr, s'', e)
      else step_trace k s'
  end.

Definition stop_agrees (st : stop) (rst : loc * rviews) : Prop :=
  bfile (fst st) = fst (fst rst) /\ bline (fst st) = snd (fst rst) /\
  Forall2 view_agrees (snd st) (snd rst).

Definition trace_conclusion (r : genresult) (trace : rtrace) (rviews : rviews) : Prop :=
  exists n tr s vmviews,
    step_trace n (setSteppingMode (init (gr_prog r)) true) = Ok (tr, s, true) /\
    Forall2 stop_agrees tr trace /\
    views s = Ok vmviews /\ Forall2 view_agrees vmviews rviews.

(* one routine, the whole statement language (the fragment of C01_jumps) *)
Definition C07_jumps_stmt : Prop :=
  forall root r rs fuel rviews steps trace,
    jumps root = true -> lexable_names root = true ->
    gen true [] (Some root) = Ok r -> gr_ok r = true ->
    abstract_source (Some root) = Some rs ->
    run_ref_chk fuel rs = OStop rviews steps trace ->
    trace_conclusion r trace rviews.

(* definitions and calls (the fragment of C01_calls) *)
Definition C07_calls_stmt : Prop :=
  forall root r rs fuel rviews steps trace,
    canonical4 root = true -> headers_ok root = true -> lexable_names root = true ->
    gen true [] (Some root) = Ok r -> gr_ok r = true ->
    abstract_source (Some root) = Some rs ->
    run_ref_chk fuel rs = OStop rviews steps trace ->
    trace_conclusion r trace rviews.

(* stops never lie in the hidden standard-macro file (already a consequence of C08_locations_ast for any program; here
   as a statement about the reference trace the theorem above equates the stops with) *)
Definition C07_no_hidden_stops_stmt : Prop :=
  forall root rs fuel rviews steps trace l vs,
    abstract_source (Some root) = Some rs ->
    run_ref_chk fuel rs = OStop rviews steps trace ->
    In (l, vs) trace -> fst l <> hidden_file.
