(* Properties_C02.v — the theorems that decide property C02 on the model, each stated in full and closed by
   `exact <lemma>`; the lemmas live in the Proofs_*.v files.  Nothing else belongs in this file. *)
From Theo Require Import Base Regex Tokens Errors Lexer Scan MacroExtract Grammar LR MacroApply Parser VMModel VMSpec VMCheck GenModel Compile Gen_Lexer Gen_Consts CompileStatements Proofs_Front Proofs_Gen LocErrStatements Proofs_LocErr LRTermStatements SpecMacro ApplyStatements MacroStatements Proofs_LRTerm.
Local Open Scope Z_scope.


Theorem C02_extract_total :
  forall toks, toks <> [] -> exists r, extract_macros toks = Ok r.
Proof. exact C02_extract_total_proof. Qed.
Print Assumptions C02_extract_total.

Theorem C02_extract_eof :
  forall toks errs out macros, eof_terminated toks ->
    extract_macros toks = Ok (errs, out, macros) -> eof_terminated out.
Proof. exact C02_extract_eof_proof. Qed.
Print Assumptions C02_extract_eof.

Theorem C02_parse_total :
  forall toks, eof_terminated toks -> exists root errs, parse_tokens toks = Ok (root, errs).
Proof. exact C02_parse_total_proof. Qed.
Print Assumptions C02_parse_total.

Theorem C02_parser_shape :
  forall toks root, parse_tokens toks = Ok (Some root, []) -> shape_ok root = true.
Proof. exact C02_parser_shape_proof. Qed.
Print Assumptions C02_parser_shape.

Theorem C02_gen_total :
  (forall root, shape_ok root = true -> exists r, gen true [] (Some root) = Ok r) /\
  (forall perrs root, exists r, gen false perrs root = Ok r).
Proof. exact C02_gen_total_proof. Qed.
Print Assumptions C02_gen_total.

Theorem C02_shape :
  forall files main r, compile files main = Ok r ->
    (cr_ok r = true /\ cr_errors r = []) \/ (cr_ok r = false /\ cr_errors r <> []).
Proof. exact C02_shape_proof. Qed.
Print Assumptions C02_shape.

Theorem C02_errors_forwarded :
  forall passes files main p, parse_budget passes files main = Ok p ->
    (pr_errors p <> [] -> pr_ok p = false) /\
    forall g, gen (pr_ok p) (pr_errors p) (pr_root p) = Ok g -> pr_ok p = false ->
      gr_ok g = false /\ length (gr_errors g) = length (pr_errors p).
Proof. exact C02_errors_forwarded_proof. Qed.
Print Assumptions C02_errors_forwarded.

(* ---- macro application: total on every end-of-file terminated stream, for every budget (on top of C13) ---- *)
From Theo Require Import SpecMacro ApplyStatements Proofs_Apply.

Theorem C02_extract_macros_ok :
  forall toks errs out macros, extract_macros toks = Ok (errs, out, macros) -> Forall macro_ok macros.
Proof. exact C02_extract_macros_ok_proof. Qed.
Print Assumptions C02_extract_macros_ok.

Theorem C02_apply_total :
  forall input defs passes, eof_terminated input -> Forall macro_ok defs ->
    apply_macros input defs passes = Fuel \/
    exists errs out, apply_macros input defs passes = Ok (errs, out) /\ eof_terminated out.
Proof. exact C02_apply_total_proof. Qed.
Print Assumptions C02_apply_total.

Theorem C02_scan_positions :
  forall rules files main toks errs, scan rules files main = Ok (toks, errs) ->
    Forall (fun t => loc_ok files (tfile t) (tline t)) toks /\
    Forall (fun e => loc_ok files (pe_file e) (pe_line e)) errs.
Proof. exact C02_scan_positions_proof. Qed.
Print Assumptions C02_scan_positions.

Theorem C02_error_locations :
  forall files main c e, compile files main = Ok c -> In e (cr_errors c) ->
    loc_ok (seen_files files main) (ge_file e) (ge_line e).
Proof. exact C02_error_locations_proof. Qed.
Print Assumptions C02_error_locations.

Theorem C02_seen_files :
  standards_replace = true ->
  forall files main f l, in_file (seen_files files main) f l ->
    (f = standards_name /\ 1 <= l <= count_nl standard_macros + 1) \/
    (f <> standards_name /\ in_file files f l).
Proof. exact C02_seen_files_proof. Qed.
Print Assumptions C02_seen_files.

Theorem C09_detect_no_fuel :
  forall m d input, macro_ok m -> make_detector m = Ok d -> detect d input <> Fuel.
Proof. exact C09_detect_no_fuel_proof. Qed.
Print Assumptions C09_detect_no_fuel.

Theorem C02_apply_fuel_only_tables :
  forall input defs passes, eof_terminated input -> Forall macro_ok defs ->
    apply_macros input defs passes = Fuel -> make_detectors defs = Fuel.
Proof. exact C02_apply_fuel_only_tables_proof. Qed.
Print Assumptions C02_apply_fuel_only_tables.
