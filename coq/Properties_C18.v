(* Properties_C18.v — what a proof about the model can carry for C18 (determinism, no shared state).
   The model of compilation and execution is a FUNCTION of its inputs, so determinism and the independence of
   instances hold of it by construction; the content of the property is that the implementation refines a pure
   function in every history and schedule — that is the correspondence over histories and threads (sampled; data
   races are looked for by ThreadSanitizer, not excluded by proof).  What IS machine-checked here: the list of
   writable objects with static storage duration in the compiled objects, regenerated on every run, is exactly the
   two message tables (which the code only reads); a new static counter, cache or table breaks C18_statics. *)
From Coq Require Import String List.
From Theo Require Import Base VMModel Compile Gen_Statics.
Import ListNotations.
Local Open Scope string_scope.

Theorem C18_statics :
  writable_statics = ["program.cpp:op_to_str[abi:cxx11]"; "scan.cpp:token_map[abi:cxx11]"].
Proof. reflexivity. Qed.
Print Assumptions C18_statics.

(* the model has no hidden input: equal arguments, equal results (stated for completeness) *)
Theorem C18_compile_is_a_function :
  forall files main r1 r2, compile files main = r1 -> compile files main = r2 -> r1 = r2.
Proof. intros files main r1 r2 H1 H2. rewrite <- H1, <- H2. reflexivity. Qed.
Print Assumptions C18_compile_is_a_function.
