(* Proofs_LRComplete.v — completeness and unambiguity of the generated LR(1) parsers (LR.v) against derivation
   trees (SpecLR.v).  Statements: LRCompleteStatements.v.  Helpers: Proofs_LRComplete0.v.
     C13_complete_full_proof    : C13_complete_full_stmt
     C13_unambiguous_proof      : C13_unambiguous_stmt
     C13_complete_prefix_proof  : C13_complete_prefix_stmt
   Plan: the item sets of the automaton are closed under closure_of and every recorded transition is `jump`
   (Proofs_LRComplete0: CInv); with an empty conflict list every placement of the table filling survives
   (RowC_facts; accepts are placed after all reduces of a state because item lists are sorted by left symbol and
   S' has the largest index).  The driver then follows any derivation tree (`follow_tree`, by induction on the
   tree): "started below an item [B -> gamma . X delta, b] with the yield of a tree of root X in front of a token
   that may follow, it arrives in goto(q, X) with the value of the tree pushed". *)
From Coq Require Import List ZArith NArith Lia Bool Sorting.Sorted.
From Theo Require Import Base Grammar LR SpecMacro SpecLR LRStatements Proofs_First Proofs_LRSound0 Proofs_LRSound LRCompleteStatements.
From Theo Require Import Proofs_LRComplete0.
Import ListNotations.

(* ================================================================================================ *)
(* 1. trees, lists                                                                                     *)
(* ================================================================================================ *)
Section TreeInd.
  Context {T : Type}.
  Variable P : @tree T -> Prop.
  Hypothesis HL : forall tok, P (Leaf tok).
  Hypothesis HI : forall lhs alt ch, Forall P ch -> P (Inner lhs alt ch).
  Fixpoint tree_ind2 (t : tree) : P t :=
    match t with
    | Leaf tok => HL tok
    | Inner lhs alt ch =>
        HI lhs alt ch ((fix go (l : list tree) : Forall P l :=
                          match l with
                          | [] => Forall_nil P
                          | c :: r => Forall_cons c (tree_ind2 c) (go r)
                          end) ch)
    end.
End TreeInd.

Lemma skipn_app_len {A} : forall (l1 l2 : list A) n, length l1 = n -> skipn n (l1 ++ l2) = l2.
Proof.
  induction l1 as [|x l1 IH]; intros l2 n H; cbn [length] in H; subst n; [reflexivity|].
  cbn [app skipn]. apply IH. reflexivity.
Qed.

Lemma firstn_app_len {A} : forall (l1 l2 : list A) n, length l1 = n -> firstn n (l1 ++ l2) = l1.
Proof.
  induction l1 as [|x l1 IH]; intros l2 n H; cbn [length] in H; subst n; [reflexivity|].
  cbn [app firstn]. f_equal. apply IH. reflexivity.
Qed.

Lemma skipn_cons_nth {A} : forall (l : list A) d x r,
  skipn d l = x :: r -> nth_error l d = Some x /\ skipn (S d) l = r.
Proof.
  induction l as [|h l IH]; intros d x r H.
  - destruct d; discriminate.
  - destruct d; cbn [skipn nth_error] in *.
    + inversion H; subst. split; auto.
    + apply IH; auto.
Qed.

Lemma hd_error_app {A} (l l' : list A) x : hd_error l = Some x -> hd_error (l ++ l') = Some x.
Proof. destruct l; cbn; [discriminate|auto]. Qed.

Lemma hd_error_app_one {A} (l l' : list A) q x : hd_error (l ++ [q]) = Some x -> hd_error (l ++ q :: l') = Some x.
Proof. destruct l; cbn; auto. Qed.

Lemma znth_lt {A} (l : list A) i x : znth l i = Some x -> (0 <= i < zlen l)%Z.
Proof.
  intros H. apply znth_Some in H. destruct H as [H0 H].
  assert (Z.to_nat i < length l)%nat by (apply nth_error_Some; congruence). unfold zlen. lia.
Qed.

(* ================================================================================================ *)
(* 2. the driver follows a derivation tree                                                            *)
(* ================================================================================================ *)
Section Complete.
  Context {T V : Type}.
  Variables (translator : T -> N) (creator : T -> V) (semantic : sym -> N -> list V -> V).
  Variables (g : grammar) (St eof : sym).
  Hypothesis WF : wf_grammar g.
  Hypothesis SOK : start_ok g St eof.
  Hypothesis RC : rhs_closed g.
  Variable g5 : grammar.
  Hypothesis H5 : calculate_first_sets (ext_grammar g St eof) = Ok g5.
  Variable prefix : bool.
  Variable states : list lrstate.
  Hypothesis HS : SInv g eof g5 states.
  Hypothesis HD : Done g5 (length states) states.
  Hypothesis HCI : CInv g5 states.
  Variables (rows : list (list lr_action)) (jrows : list (list Z)).
  Hypothesis HT : tabs_ok g5 prefix states rows jrows.
  Hypothesis HRC : forall k s, nth_error states k = Some s ->
                     exists row, nth_error rows k = Some row /\ RowC g5 prefix eof s row.
  Hypothesis H0 : exists s0, nth_error states 0 = Some s0 /\ In (mkItem (Nt (total_nt g)) 0 0 eof) (st_items s0).

  Let tab : tables := mkTab rows jrows.
  Let g4 : grammar := ext_grammar g St eof.
  Notation rootT := (root translator).
  Notation valueT := (value creator semantic).
  Notation run := (lr_parse translator creator semantic tab).
  Local Open Scope N_scope.

  (* ---- grammar facts ----------------------------------------------------------------------------- *)
  Lemma lhs_nt lhs k rhs :
    nth_error (rs_get g lhs) k = Some rhs ->
    exists n, lhs = Nt n /\ n < total_nt g /\ rs_get g4 lhs = rs_get g lhs /\ rs_get g5 lhs = rs_get g lhs /\
      (forall X, In X rhs -> mentioned g4 X /\ X <> Eps).
  Proof.
    intros H. destruct (rule_in _ _ _ _ H) as [R1 R2].
    destruct SOK as (_ & _ & HK). destruct (HK _ _ R1) as (n & -> & Hn).
    assert (E4 : rs_get g4 (Nt n) = rs_get g (Nt n)).
    { apply rs_ext_other; intros E; inversion E; lia. }
    exists n. split; auto. split; auto. split; auto. split.
    - rewrite (rs5 _ _ _ _ H5). exact E4.
    - intros X HX. split.
      + right. exists (Nt n), (rs_get g4 (Nt n)), rhs. rewrite <- E4 in H.
        destruct (rule_in _ _ _ _ H) as [R1' R2']. auto.
      + intros ->. eapply (wf_no_eps g WF); eauto.
  Qed.

  Lemma tree_derives : forall t : @tree T, valid translator g t -> Derives g4 (rootT t) (map translator (yield t)).
  Proof.
    apply (tree_ind2 (fun t => valid translator g t -> Derives g4 (rootT t) (map translator (yield t)))).
    - intros tok _. cbn [root yield map]. constructor.
    - intros lhs alt ch IH Hv. apply valid_inner_inv in Hv. destruct Hv as (rhs & Hn & Hm & Hf).
      destruct (lhs_nt _ _ _ Hn) as (n & -> & Hlt & E4 & _).
      cbn [root]. rewrite yield_inner. apply (D_nt g4 n (N.to_nat alt) rhs); [rewrite E4; exact Hn|].
      subst rhs. clear Hn. induction ch as [|c r IHr]; cbn [map].
      + constructor.
      + inversion IH as [|c' r' Hc Hr]; subst. inversion Hf as [|c' r' Vc Vr]; subst.
        unfold yields. cbn [map concat]. rewrite map_app. constructor; [auto|apply IHr; auto].
  Qed.

  Lemma trees_derive (ch : list (@tree T)) :
    Forall (valid translator g) ch -> DerivesL g4 (map rootT ch) (map translator (yields ch)).
  Proof.
    induction ch as [|c r IH]; intros Hf; cbn [map].
    - constructor.
    - inversion Hf as [|c' r' Vc Vr]; subst. unfold yields. cbn [map concat]. rewrite map_app.
      constructor; [apply tree_derives; auto|apply IH; auto].
  Qed.

  Lemma first_mentioned str c :
    (forall X, In X str -> mentioned g4 X) -> In (Tm c) (first g5 str) -> mentioned g4 (Tm c).
  Proof.
    intros Hm Hin. apply first_In in Hin. apply fo_spec_cases in Hin.
    destruct Hin as [Hin|(_ & s & Hs & Hfs)]; [discriminate|].
    destruct (first_set_bound g St eof WF SOK g5 H5 _ _ Hfs) as [->|H]; auto.
  Qed.

  Lemma first_of_derives str c w :
    (forall X, In X str -> mentioned g4 X /\ X <> Eps) -> DerivesL g4 str (c :: w) -> In (Tm c) (first g5 str).
  Proof.
    intros Hm HDl.
    destruct (C13_first_string_uncond g4 g5 str (wf4 g St eof WF SOK) H5) as (A & _).
    - apply Forall_forall. exact Hm.
    - apply A. eauto.
  Qed.

  (* ---- the lookahead condition --------------------------------------------------------------------- *)
  (* the lookahead la of an item lets the parser act on the token tok *)
  Definition LAok (la : sym) (tok : T) : Prop :=
    la = Tm (translator tok) \/ (prefix = true /\ la = eof /\ translator tok <= max_term g5).

  Lemma LAok_tm la tok : LAok la tok -> exists b, la = Tm b.
  Proof.
    intros [->|(_ & -> & _)]; eauto. destruct SOK as (_ & (e & ->) & _). eauto.
  Qed.

  Lemma col_ok e tok :
    LAok (i_follow e) tok -> mentioned g4 (i_follow e) -> col g5 prefix eof e (Z.of_N (translator tok)).
  Proof.
    intros HL Hm. unfold col.
    destruct ((sym_index (i_follow e) =? sym_index eof) && prefix) eqn:EC.
    - assert (Hb : translator tok <= max_term g5).
      { destruct HL as [HL|(_ & _ & Hb)]; auto. rewrite HL in Hm.
        apply (mentioned4_bound g St eof WF SOK g5 H5); auto. }
      unfold width. lia.
    - destruct HL as [HL|(Hp & HL & _)]; [rewrite HL; reflexivity|].
      rewrite HL, N.eqb_refl, Hp in EC. discriminate.
  Qed.

  Lemma la_first (ch : list (@tree T)) b tok rest :
    Forall (valid translator g) ch -> (forall X, In X (map rootT ch) -> mentioned g4 X /\ X <> Eps) ->
    mentioned g4 (Tm b) -> LAok (Tm b) tok ->
    exists tok' rest', yields ch ++ tok :: rest = tok' :: rest' /\
      exists la, In la (first g5 (map rootT ch ++ [Tm b])) /\ LAok la tok'.
  Proof.
    intros Hv Hm Hb HL.
    assert (HDl : DerivesL g4 (map rootT ch ++ [Tm b]) (map translator (yields ch) ++ [b])).
    { apply DerivesL_app; [apply trees_derive; auto|].
      change [b] with ([b] ++ []). constructor; constructor. }
    assert (Hall : forall X, In X (map rootT ch ++ [Tm b]) -> mentioned g4 X /\ X <> Eps).
    { intros X HX. apply in_app_or in HX. destruct HX as [HX|[<-|[]]]; auto. split; auto. discriminate. }
    destruct (yields ch) as [|t1 r1] eqn:EY; cbn [map app] in *.
    - exists tok, rest. split; auto. exists (Tm b). split; auto.
      eapply first_of_derives; eauto.
    - exists t1, (r1 ++ tok :: rest). split; auto. exists (Tm (translator t1)). split; [|left; reflexivity].
      eapply first_of_derives; eauto.
  Qed.

  (* ---- the tables at one state ------------------------------------------------------------------- *)
  Lemma state_facts q sq : nth_error states q = Some sq ->
    exists row jrow, nth_error rows q = Some row /\ nth_error jrows q = Some jrow /\
      (forall i j, In (Tm i, j) (st_jump sq) ->
         exists j', znth row (Z.of_N i) = Some (AShift j') /\ In (Tm i, j') (st_jump sq)) /\
      (forall e a t, In e (st_items sq) -> fetch_right g5 e = Ok a -> i_dot e = N.of_nat (length a) ->
         col g5 prefix eof e t -> znth row t = Some (action_of g5 e (N.of_nat (length a)))) /\
      (forall i j, In (Nt i, j) (st_jump sq) ->
         exists j', znth jrow (Z.of_N i) = Some j' /\ In (Nt i, j') (st_jump sq)).
  Proof.
    intros Hsq.
    destruct (tabs_ok_states _ _ _ _ _ _ _ HT Hsq) as (row & jrow & Hrow & Hjrow & (HRJ & HJJ & Hlen & HJC)).
    destruct (HRC _ _ Hsq) as (row' & Hrow' & HC). assert (row' = row) by congruence. subst row'.
    destruct HCI as (_ & HLI & _).
    destruct (RowC_facts g5 prefix eof sq row HC (HLI _ _ Hsq)) as [F1 F2].
    { intros e He. destruct (proj1 (si_items _ _ _ _ HS _ _ Hsq e He)) as (n & a & HLn & Hn & _).
      exists n. split; auto. rewrite (sprime_eq g St eof g5 H5). lia. }
    exists row, jrow. split; auto. split; auto. split; [|split; auto].
    intros i j Hij. destruct (F1 _ _ Hij) as [j' Hj']. exists j'. split; auto.
    destruct (HRJ _ _ Hj') as (i0 & Hi0 & Hin). apply N2Z.inj in Hi0. subst i0. exact Hin.
  Qed.

  (* ---- single steps of the driver ------------------------------------------------------------------ *)
  Definition reaches (inp : list T) (sts : list Z) (vals : list V)
                     (inp' : list T) (sts' : list Z) (vals' : list V) : Prop :=
    exists n, forall k, run (n + k) inp sts vals = run k inp' sts' vals'.

  Lemma reaches_refl inp sts vals : reaches inp sts vals inp sts vals.
  Proof. exists 0%nat. reflexivity. Qed.

  Lemma reaches_trans i1 s1 v1 i2 s2 v2 i3 s3 v3 :
    reaches i1 s1 v1 i2 s2 v2 -> reaches i2 s2 v2 i3 s3 v3 -> reaches i1 s1 v1 i3 s3 v3.
  Proof.
    intros [n1 R1] [n2 R2]. exists (n1 + n2)%nat. intros k.
    rewrite <- Nat.add_assoc, R1, R2. reflexivity.
  Qed.

  Lemma run_S' f input sts vals :
    run (Datatypes.S f) input sts vals =
    (do s <- of_opt ub_back (hd_error sts);
     do tok <- of_opt ub_iter (hd_error input);
     let a := Z.of_N (translator tok) in
     do row <- of_opt ub_index (znth (t_action tab) s);
     if (zlen row <=? a)%Z then Ok None
     else
       do act <- of_opt ub_index (znth row a);
       match act with
       | AShift s' => run f (tl input) (s' :: sts) (creator tok :: vals)
       | AReduce lft beta lhs alt =>
           do p <- pop_n (N.to_nat beta) sts vals [];
           let '(states', values', popped) := p in
           do s' <- of_opt ub_back (hd_error states');
           do jrow <- of_opt ub_index (znth (t_jump tab) s');
           do target <- of_opt ub_index (znth jrow (Z.of_N lft));
           run f input (target :: states') (semantic lhs alt popped :: values')
       | AAccept => do v <- of_opt ub_back (hd_error vals); Ok (Some v)
       | AErr => Ok None
       end).
  Proof. reflexivity. Qed.

  (* the prefix common to all steps: the row of the top state and its cell for the next token *)
  Lemma run_cell f q sts tok inp vals row act :
    hd_error sts = Some q -> (0 <= q)%Z -> nth_error rows (Z.to_nat q) = Some row ->
    znth row (Z.of_N (translator tok)) = Some act ->
    run (Datatypes.S f) (tok :: inp) sts vals =
    match act with
    | AShift s' => run f inp (s' :: sts) (creator tok :: vals)
    | AReduce lft beta lhs alt =>
        do p <- pop_n (N.to_nat beta) sts vals [];
        let '(states', values', popped) := p in
        do s' <- of_opt ub_back (hd_error states');
        do jrow <- of_opt ub_index (znth (t_jump tab) s');
        do target <- of_opt ub_index (znth jrow (Z.of_N lft));
        run f (tok :: inp) (target :: states') (semantic lhs alt popped :: values')
    | AAccept => do v <- of_opt ub_back (hd_error vals); Ok (Some v)
    | AErr => Ok None
    end.
  Proof.
    intros Hhd Hq Hrow Hact. rewrite run_S'. rewrite Hhd. cbn [of_opt bind hd_error]. cbv zeta.
    assert (Hzr : znth (t_action tab) q = Some row) by (apply znth_of_nth; auto).
    rewrite Hzr. cbn [of_opt bind].
    pose proof (znth_lt _ _ _ Hact) as Hlt.
    destruct (Z.leb_spec (zlen row) (Z.of_N (translator tok))) as [Hle|_]; [lia|].
    rewrite Hact. cbn [of_opt bind tl]. reflexivity.
  Qed.

  Lemma step_shift q qs tok inp vals row j :
    (0 <= q)%Z -> nth_error rows (Z.to_nat q) = Some row ->
    znth row (Z.of_N (translator tok)) = Some (AShift j) ->
    reaches (tok :: inp) (q :: qs) vals inp (j :: q :: qs) (creator tok :: vals).
  Proof.
    intros Hq Hrow Hact. exists 1%nat. intros k. change (1 + k)%nat with (Datatypes.S k).
    rewrite (run_cell k q (q :: qs) tok inp vals row _ eq_refl Hq Hrow Hact). reflexivity.
  Qed.

  Lemma step_reduce qt news q0 qs pv vals tok inp row lft beta lhs alt jrow target :
    hd_error (news ++ q0 :: qs) = Some qt -> (0 <= qt)%Z -> nth_error rows (Z.to_nat qt) = Some row ->
    znth row (Z.of_N (translator tok)) = Some (AReduce lft beta lhs alt) ->
    length news = N.to_nat beta -> length pv = N.to_nat beta ->
    (0 <= q0)%Z -> nth_error jrows (Z.to_nat q0) = Some jrow -> znth jrow (Z.of_N lft) = Some target ->
    reaches (tok :: inp) (news ++ q0 :: qs) (pv ++ vals) (tok :: inp) (target :: q0 :: qs) (semantic lhs alt pv :: vals).
  Proof.
    intros Hhd Hqt Hrow Hact Hn1 Hn2 Hq0 Hjrow Htg. exists 1%nat. intros k. change (1 + k)%nat with (Datatypes.S k).
    rewrite (run_cell k qt _ tok inp _ row _ Hhd Hqt Hrow Hact).
    rewrite pop_n_ok by (rewrite app_length; lia).
    rewrite (skipn_app_len news _ _ Hn1), (skipn_app_len pv _ _ Hn2), (firstn_app_len pv _ _ Hn2).
    cbn [bind app hd_error of_opt].
    assert (Hzj : znth (t_jump tab) q0 = Some jrow) by (apply znth_of_nth; auto).
    rewrite Hzj. cbn [of_opt bind]. rewrite Htg. cbn [of_opt bind]. reflexivity.
  Qed.

  Lemma step_accept q qs v vals tok inp row k :
    (0 <= q)%Z -> nth_error rows (Z.to_nat q) = Some row ->
    znth row (Z.of_N (translator tok)) = Some AAccept ->
    run (Datatypes.S k) (tok :: inp) (q :: qs) (v :: vals) = Ok (Some v).
  Proof.
    intros Hq Hrow Hact.
    rewrite (run_cell k q (q :: qs) tok inp _ row _ eq_refl Hq Hrow Hact). reflexivity.
  Qed.
  (* ---- the automaton -------------------------------------------------------------------------------- *)
  Lemma goto_item q sq X q' e a :
    nth_error states q = Some sq -> In (X, q') (st_jump sq) ->
    In e (st_items sq) -> fetch_right g5 e = Ok a -> expecting a e = X ->
    (0 <= q')%Z /\ exists sq', nth_error states (Z.to_nat q') = Some sq' /\ In (adv e) (st_items sq').
  Proof.
    intros Hsq Hin He Ha Hexp. destruct HCI as (HJ & _ & _).
    destruct (HJ _ _ _ _ Hsq Hin) as (Hq' & sq' & Hsq' & Hjump).
    split; auto. exists sq'. split; auto. eapply jump_complete; eauto.
  Qed.

  Lemma recorded q sq e a :
    nth_error states q = Some sq -> In e (st_items sq) -> fetch_right g5 e = Ok a -> expecting a e <> Eps ->
    exists j, In (expecting a e, j) (st_jump sq).
  Proof.
    intros Hsq He Ha Hne. assert (Hlt : (q < length states)%nat) by (apply nth_error_Some; congruence).
    exact (HD _ _ Hlt Hsq e a He Ha Hne).
  Qed.

  (* ---- D. the main lemma ------------------------------------------------------------------------------ *)
  Definition follows (t : @tree T) : Prop :=
    valid translator g t ->
    forall q qs vals sq e a tok rest,
      (0 <= q)%Z -> nth_error states (Z.to_nat q) = Some sq ->
      In e (st_items sq) -> fetch_right g5 e = Ok a -> expecting a e = rootT t ->
      mentioned g4 (i_follow e) ->
      (exists la, In la (first g5 (follow_string a e)) /\ LAok la tok) ->
      exists q', In (rootT t, q') (st_jump sq) /\
        reaches (yield t ++ tok :: rest) (q :: qs) vals (tok :: rest) (q' :: q :: qs) (valueT t :: vals).

  Lemma follow_children A alt la rhs tok rest :
    fetch_right g5 (mkItem A alt 0 la) = Ok rhs ->
    (forall X, In X rhs -> mentioned g4 X /\ X <> Eps) ->
    mentioned g4 la -> LAok la tok ->
    forall ch, Forall follows ch -> Forall (valid translator g) ch ->
    forall d q qs vals sq,
      (0 <= q)%Z -> nth_error states (Z.to_nat q) = Some sq ->
      In (mkItem A alt (N.of_nat d) la) (st_items sq) -> skipn d rhs = map rootT ch ->
      exists news, length news = length ch /\
        (exists qt sqt, hd_error (news ++ [q]) = Some qt /\ (0 <= qt)%Z /\
                        nth_error states (Z.to_nat qt) = Some sqt /\
                        In (mkItem A alt (N.of_nat (d + length ch)) la) (st_items sqt)) /\
        reaches (yields ch ++ tok :: rest) (q :: qs) vals (tok :: rest) (news ++ q :: qs) (rev (map valueT ch) ++ vals).
  Proof.
    intros Hf Hsyms Hmla HLA ch. induction ch as [|c ch' IH]; intros HP HV d q qs vals sq Hq Hsq Hin Hsk.
    - exists []. split; auto. split.
      + exists q, sq. cbn [length]. rewrite Nat.add_0_r. auto.
      + apply reaches_refl.
    - inversion HP as [|c0 r0 Pc Pr]; subst. inversion HV as [|c0 r0 Vc Vr]; subst.
      cbn [map] in Hsk. destruct (skipn_cons_nth _ _ _ _ Hsk) as [Hnth Hsk'].
      set (ed := mkItem A alt (N.of_nat d) la) in *.
      assert (Hfd : fetch_right g5 ed = Ok rhs) by exact Hf.
      assert (Hexp : expecting rhs ed = rootT c).
      { unfold expecting, nth_N. cbn [i_dot ed]. rewrite Nat2N.id, Hnth. reflexivity. }
      assert (Hfs : follow_string rhs ed = map rootT ch' ++ [la]).
      { unfold follow_string. cbn [i_dot i_follow ed]. rewrite Nat2N.id.
        replace (d + 1)%nat with (Datatypes.S d) by lia. rewrite Hsk'. reflexivity. }
      destruct (LAok_tm _ _ HLA) as [b Hb].
      destruct (la_first ch' b tok rest Vr) as (tok' & rest' & Heq & la' & Hla' & HL').
      { intros X HX. apply Hsyms. rewrite <- Hsk' in HX. eapply In_skipn_l; eauto. }
      { rewrite <- Hb. exact Hmla. }
      { rewrite <- Hb. exact HLA. }
      rewrite <- Hb in Hla'.
      destruct (Pc Vc q qs vals sq ed rhs tok' rest' Hq Hsq Hin Hfd Hexp Hmla) as (q1 & Hq1 & R1).
      { exists la'. rewrite Hfs. auto. }
      destruct (goto_item _ _ _ _ _ _ Hsq Hq1 Hin Hfd Hexp) as (Hq1' & sq1 & Hsq1 & Hadv).
      assert (Hadv' : In (mkItem A alt (N.of_nat (Datatypes.S d)) la) (st_items sq1)).
      { unfold adv in Hadv. cbn [i_left i_alt i_dot i_follow ed] in Hadv.
        replace (N.of_nat (Datatypes.S d)) with (N.of_nat d + 1) by lia. exact Hadv. }
      destruct (IH Pr Vr (Datatypes.S d) q1 (q :: qs) (valueT c :: vals) sq1 Hq1' Hsq1 Hadv' Hsk')
        as (news & Hlen & (qt & sqt & Hhd & Hqt & Hsqt & Hit) & R2).
      exists (news ++ [q1]). split; [rewrite app_length; cbn [length]; lia|]. split.
      + exists qt, sqt. split; [apply hd_error_app; exact Hhd|]. split; auto. split; auto.
        replace (d + length (c :: ch'))%nat with (Datatypes.S d + length ch')%nat by (cbn [length]; lia).
        exact Hit.
      + assert (EY : yields (c :: ch') = yield c ++ yields ch') by reflexivity.
        rewrite EY, <- app_assoc, Heq.
        eapply reaches_trans; [exact R1|]. rewrite <- Heq.
        cbn [map rev]. rewrite <- !app_assoc. cbn [app]. exact R2.
  Qed.

  Lemma follow_tree : forall t, follows t.
  Proof.
    apply (tree_ind2 follows).
    - (* a token: shift *)
      intros tok0 _ q qs vals sq e a tok rest Hq Hsq He Ha Hexp _ _. cbn [root yield value] in *.
      destruct (recorded _ _ _ _ Hsq He Ha) as [j Hj]; [rewrite Hexp; discriminate|]. rewrite Hexp in Hj.
      destruct (state_facts _ _ Hsq) as (row & jrow & Hrow & _ & F1 & _).
      destruct (F1 _ _ Hj) as (j' & Hact & Hin'). exists j'. split; auto.
      cbn [app]. eapply step_shift; eauto.
    - (* a rule: its children one after the other, then reduce *)
      intros lhs alt ch IH Hv q qs vals sq e a tok rest Hq Hsq He Ha Hexp Hment (la & Hla & HL).
      apply valid_inner_inv in Hv. destruct Hv as (rhs & Hn & Hm & Hf).
      destruct (lhs_nt _ _ _ Hn) as (n & -> & Hlt & E4 & E5 & Hsyms). cbn [root] in *.
      destruct (LAok_tm _ _ HL) as [b Hb].
      assert (Hmla : mentioned g4 la).
      { rewrite Hb. apply (first_mentioned (follow_string a e)); [|rewrite <- Hb; exact Hla].
        intros X HX. unfold follow_string in HX. apply in_app_or in HX. destruct HX as [HX|[<-|[]]]; auto.
        apply In_skipn_l in HX. eapply rule_mentioned4; eauto. }
      assert (Hk : (N.to_nat alt < length (rs_get g5 (Nt n)))%nat).
      { rewrite E5. apply nth_error_Some. congruence. }
      assert (He0 : In (mkItem (Nt n) alt 0 la) (st_items sq)).
      { destruct HCI as (_ & _ & HK).
        destruct (closure_of_In g5 e a n alt la Ha Hexp Hk Hla) as (new & Hc & Hin).
        exact (HK _ _ Hsq e new _ He Hc Hin). }
      assert (Hf0 : fetch_right g5 (mkItem (Nt n) alt 0 la) = Ok rhs).
      { unfold fetch_right, nth_N. cbn [i_left i_alt]. rewrite E5, Hn. reflexivity. }
      destruct (follow_children (Nt n) alt la rhs tok rest Hf0 Hsyms Hmla HL ch IH Hf 0%nat q qs vals sq Hq Hsq He0)
        as (news & Hlen & (qt & sqt & Hhd & Hqt & Hsqt & Hit) & R1).
      { cbn [skipn]. auto. }
      assert (Hlen' : length ch = length rhs) by (rewrite <- Hm, map_length; reflexivity).
      cbn [Nat.add] in Hit. rewrite Hlen' in Hit.
      set (eN := mkItem (Nt n) alt (N.of_nat (length rhs)) la) in *.
      destruct (state_facts _ _ Hsqt) as (rowt & jrowt & Hrowt & _ & _ & F2 & _).
      assert (Hact : znth rowt (Z.of_N (translator tok)) =
                     Some (AReduce n (N.of_nat (length rhs)) (Nt n) alt)).
      { rewrite (F2 eN rhs (Z.of_N (translator tok)) Hit Hf0 eq_refl).
        - unfold action_of. cbn [eN i_left i_alt sym_index].
          rewrite (sprime_eq g St eof g5 H5).
          destruct (N.eqb_spec n (total_nt g)) as [E|E]; [lia|reflexivity].
        - apply col_ok; cbn [eN i_follow]; auto. }
      destruct (recorded _ _ _ _ Hsq He Ha) as [j Hj]; [rewrite Hexp; discriminate|]. rewrite Hexp in Hj.
      destruct (state_facts _ _ Hsq) as (rowq & jrowq & _ & Hjrowq & _ & _ & F3).
      destruct (F3 _ _ Hj) as (j' & Hjr & Hin'). exists j'. split; auto.
      rewrite yield_inner. eapply reaches_trans; [exact R1|]. rewrite value_inner.
      eapply (step_reduce qt news q qs (rev (map valueT ch)) vals tok rest rowt n (N.of_nat (length rhs)) (Nt n) alt jrowq j');
        eauto.
      + apply hd_error_app_one. exact Hhd.
      + rewrite Nat2N.id. lia.
      + rewrite Nat2N.id, rev_length, map_length. exact Hlen'.
  Qed.

  (* ---- E. from the initial configuration to acceptance ------------------------------------------------ *)
  Lemma complete_run tr tok rest :
    valid translator g tr -> rootT tr = St -> LAok eof tok ->
    exists n, forall k, run (n + Datatypes.S k) (yield tr ++ tok :: rest) [0%Z] [] = Ok (Some (valueT tr)).
  Proof.
    intros Hv Hr HL. destruct H0 as (s0 & Hs0 & Hinit).
    set (e0 := mkItem (Nt (total_nt g)) 0 0 eof) in *.
    assert (Hfe : fetch_right g5 e0 = Ok [St]).
    { destruct (good_init g St eof WF SOK g5 H5) as (n & a & HLn & _ & Hfa & _). fold e0 in Hfa, HLn.
      destruct (fetch_Sp g St eof SOK g5 H5 e0 a eq_refl Hfa) as [-> _]. exact Hfa. }
    assert (Hexp : expecting [St] e0 = rootT tr) by (rewrite Hr; reflexivity).
    assert (Hme : mentioned g4 eof) by (apply eof_mentioned4; auto).
    destruct SOK as (_ & (e & Heof) & _).
    assert (Hla : In eof (first g5 (follow_string [St] e0))).
    { unfold follow_string. cbn [e0 i_dot i_follow N.to_nat Nat.add skipn app]. rewrite Heof.
      apply (first_of_derives [Tm e] e []).
      - intros X [<-|[]]. split; [rewrite <- Heof; exact Hme|discriminate].
      - change [e] with ([e] ++ []). constructor; constructor. }
    change 0%nat with (Z.to_nat 0) in Hs0.
    destruct (follow_tree tr Hv 0%Z [] [] s0 e0 [St] tok rest (Z.le_refl 0) Hs0 Hinit Hfe Hexp Hme)
      as (q' & Hq' & (n & R)).
    { exists eof. auto. }
    destruct (goto_item _ _ _ _ _ _ Hs0 Hq' Hinit Hfe Hexp) as (Hq0 & sq' & Hsq' & Hadv).
    destruct (state_facts _ _ Hsq') as (row' & jrow' & Hrow' & _ & _ & F2 & _).
    assert (Hact : znth row' (Z.of_N (translator tok)) = Some AAccept).
    { rewrite (F2 (adv e0) [St] (Z.of_N (translator tok)) Hadv Hfe eq_refl).
      - unfold action_of. cbn [adv e0 i_left sym_index]. rewrite (sprime_eq g St eof g5 H5), N.eqb_refl. reflexivity.
      - apply col_ok; cbn [adv e0 i_follow]; auto. }
    exists n. intros k. rewrite R. eapply step_accept; eauto.
  Qed.
End Complete.

(* ================================================================================================ *)
(* 3. the theorems                                                                                     *)
(* ================================================================================================ *)
(* both modes at once: the token after the sentence is the end marker, or (prefix mode) any token with a column *)
Lemma C13_complete_gen (T V : Type) (translator : T -> N) (creator : T -> V) (semantic : sym -> N -> list V -> V)
      max_states g prefix S eof g' tab states (tr : tree) tok rest :
  wf_grammar g -> start_ok g S eof -> rhs_closed g ->
  generate_tables max_states g prefix S eof = Ok (g', tab, [], states) ->
  valid translator g tr -> root translator tr = S ->
  (Tm (translator tok) = eof \/ (prefix = true /\ (translator tok <= max_term g')%N)) ->
  exists n, forall k,
    parse translator creator semantic tab (n + Datatypes.S k) (yield tr ++ tok :: rest)
    = Ok (Some (value creator semantic tr)).
Proof.
  intros WF SOK RC HG Hv Hr HL.
  destruct (generate_inv _ _ _ _ _ _ _ _ _ WF SOK RC HG) as (H5 & HS & HD & rows & jrows & -> & HT).
  destruct (generate_inv2 _ _ _ _ _ _ _ _ HG) as (HCI & H0 & rows' & jrows' & Etab & HRC).
  inversion Etab; subst rows' jrows'. unfold parse.
  eapply (complete_run translator creator semantic g S eof WF SOK g' H5 prefix states HS HD HCI rows jrows HT HRC H0);
    auto.
  destruct HL as [HL|[Hp Hb]]; [left; auto|right; auto].
Qed.

Lemma C13_complete_full_proof : C13_complete_full_stmt.
Proof.
  intros T V translator creator semantic ms g S eof g' tab states tr tok rest WF SOK RC EF HG Hv Hr Htok.
  destruct (C13_complete_gen T V translator creator semantic ms g false S eof g' tab states tr tok rest
              WF SOK RC HG Hv Hr (or_introl Htok)) as [n Hn].
  exists (n + 1)%nat. apply Hn.
Qed.

Lemma C13_complete_prefix_proof : C13_complete_prefix_stmt.
Proof.
  intros T V translator creator semantic ms g S eof g' tab states tr tok rest WF SOK RC EF HG Hv Hr Htok.
  destruct (C13_complete_gen T V translator creator semantic ms g true S eof g' tab states tr tok rest
              WF SOK RC HG Hv Hr (or_intror (conj eq_refl Htok))) as [n Hn].
  exists (n + 1)%nat, (value creator semantic tr). apply Hn.
Qed.

(* F. the parser rebuilds the tree it follows *)
Lemma value_rebuild : forall t : @tree N,
  value (fun tok : N => Leaf tok) (fun lhs alt popped => Inner lhs alt (rev popped)) t = t.
Proof.
  apply (tree_ind2 (fun t => value (fun tok : N => Leaf tok) (fun lhs alt popped => Inner lhs alt (rev popped)) t = t)).
  - reflexivity.
  - intros lhs alt ch IH. rewrite value_inner. rewrite rev_involutive. f_equal.
    induction IH as [|c r Hc Hr IHr]; cbn [map]; [reflexivity|]. rewrite Hc, IHr. reflexivity.
Qed.

Lemma C13_unambiguous_proof : C13_unambiguous_stmt.
Proof.
  intros ms g S eof g' tab states tr1 tr2 WF SOK RC EF HG Hv1 Hv2 Hr1 Hr2 Hy.
  destruct SOK as (Hs & (e & Heof) & Hk).
  assert (SOK : start_ok g S eof) by (split; [auto|split; [eauto|auto]]).
  assert (Htok : Tm ((fun t : N => t) e) = eof \/ (false = true /\ ((fun t : N => t) e <= max_term g')%N))
    by (left; auto).
  destruct (C13_complete_gen N (@tree N) (fun t => t) (fun tok => Leaf tok)
              (fun lhs alt popped => Inner lhs alt (rev popped))
              ms g false S eof g' tab states tr1 e [] WF SOK RC HG Hv1 Hr1 Htok) as [n1 R1].
  destruct (C13_complete_gen N (@tree N) (fun t => t) (fun tok => Leaf tok)
              (fun lhs alt popped => Inner lhs alt (rev popped))
              ms g false S eof g' tab states tr2 e [] WF SOK RC HG Hv2 Hr2 Htok) as [n2 R2].
  specialize (R1 n2). specialize (R2 n1). rewrite Hy in R1.
  replace (n2 + Datatypes.S n1)%nat with (n1 + Datatypes.S n2)%nat in R2 by lia.
  rewrite R1 in R2. rewrite !value_rebuild in R2. congruence.
Qed.

Print Assumptions C13_complete_full_proof.
Print Assumptions C13_unambiguous_proof.
Print Assumptions C13_complete_prefix_proof.
