(* LexStatements.v — full statements of the scanner theorems (C14, C15).  Proved in Proofs_Lexer.v /
   Proofs_Scan.v, re-exported in Properties_C14.v / Properties_C15.v. *)
From Theo Require Import Base Regex Tokens Lexer Errors Scan SpecLex Gen_Lexer.
Local Open Scope nat_scope.

(* ===== C14 ===================================================================================== *)
(* the derivative matcher decides the declarative relation *)
Definition C14_matcher_stmt : Prop :=
  forall r s, matches_b r s = true <-> Matches r s.

(* the longest-match search computes the maximal munch, for every rule list and every input *)
Definition C14_maxmunch_stmt : Prop :=
  forall rules s,
    (forall len i, max_munch rules s = Some (len, i) -> MaxMunch rules s len i) /\
    (max_munch rules s = None -> NoMatch rules s) /\
    (forall len i len' i', MaxMunch rules s len i -> MaxMunch rules s len' i' -> len = len' /\ i = i').

(* lexing a string yields its (unique) tokenisation, for every rule list with a catch-all rule *)
Definition C14_lex_stmt : Prop :=
  forall rules s, catch_all rules ->
    Tokenisation rules s 1%Z (lex rules s) /\
    (forall out, Tokenisation rules s 1%Z out -> out = lex rules s).

(* meaning of rules_agree: pointwise equal languages and actions, hence equal scanners *)
Definition C14_rules_agree_meaning_stmt : Prop :=
  forall l1 l2, rules_agree l1 l2 = true ->
    length l1 = length l2 /\
    (forall i r1 a1 r2 a2, nth_error l1 i = Some (r1, a1) -> nth_error l2 i = Some (r2, a2) ->
        (forall w, Matches r1 w <-> Matches r2 w) /\ action_eqb a1 a2 = true) /\
    (forall s, lex l1 s = lex l2 s).

(* the rule list translated from lexer.l agrees with the documented table; it has the catch-all
   rule; no rule produces UNKNOWN *)
Definition C14_rules_stmt : Prop :=
  rules_agree Gen_Lexer.rules spec_rules = true /\
  catch_all Gen_Lexer.rules /\
  forallb (fun r => negb (action_eqb (snd r) (Some UNKNOWN))) Gen_Lexer.rules = true /\
  Gen_Lexer.tok_text_cstring = false.

(* consequences for the real rule list: every documented keyword spelling alone lexes to its kind,
   an unknown byte is a one-byte operator token, comments and blanks emit nothing *)
Definition all_spellings : list (list N * tkind) :=
  flat_map (fun r => match snd r with
                     | Some k => if star_free (fst r) then map (fun w => (w, k)) (lang (fst r)) else []
                     | None => [] end) spec_rules.
Definition C14_spellings_stmt : Prop :=
  forallb (fun p => match lex Gen_Lexer.rules (fst p) with
                    | [(k, text, 1%Z)] => tk_eqb k (snd p) && str_eqb text (fst p)
                    | _ => false end) all_spellings = true /\
  length all_spellings = 99.

Definition C14_unknown_byte_stmt : Prop :=
  forall c, let known := [32; 9; 10; 40; 41; 44; 59; 58; 61]%N in
    (* every byte that is not a letter, digit, underscore, blank or one of ( ) , ; : =  — including NUL,
       high bytes and a lone double quote, dollar, hash, slash, less-than or exclamation mark *)
    (c < 256)%N -> in_rng c SpecLex.alnum = false -> existsb (N.eqb c) known = false ->
    lex Gen_Lexer.rules [c] = [(NV_ID, [c], 1%Z)].

(* scan = splice of the separately lexed files (file and line labels, position of the splice) *)
Definition C14_scan_stmt : Prop :=
  forall files main depth c, flookup files main = Some c ->
    scan_file Gen_Lexer.rules depth files [main] main c = splice Gen_Lexer.rules files depth [main] main.

Definition C14_eof_stmt : Prop :=
  forall files main toks errs, scan Gen_Lexer.rules files main = Ok (toks, errs) ->
    exists body f l, toks = body ++ [mkTok T_EOF EOF_text f l] /\
                     Forall (fun t => tk t <> T_EOF) body.

(* ===== C15 ===================================================================================== *)
(* scanning terminates (the include depth budget |files|+1 always suffices) and is never undefined *)
Definition C15_terminates_stmt : Prop :=
  forall rules files main, exists r, scan rules files main = Ok r.

(* every reported missing file is absent; every recursive-include report names a file on the active stack;
   stated on the splice (equal to scan by C14_scan) *)
Definition names_of (k : ekind) (errs : list perr) : list str :=
  map pe_request (filter (fun e => match pe_kind e, k with
                                   | e_file_not_found, e_file_not_found => true
                                   | _, _ => false end) errs).
Definition C15_missing_sound_stmt : Prop :=
  forall rules files main toks errs, scan rules files main = Ok (toks, errs) ->
    forall e, In e errs ->
      (pe_kind e = e_file_not_found -> fcontains files (pe_request e) = false) /\
      (pe_kind e = e_main_not_found -> pe_request e = main /\ fcontains files main = false).

(* a present main file without include directives scans to its own tokens: no error *)
Definition C15_no_include_stmt : Prop :=
  forall rules files main c, flookup files main = Some c ->
    Forall (fun t => fst (fst t) <> INCLUDE /\ fst (fst t) <> UNKNOWN) (lex rules c) ->
    exists toks, scan rules files main = Ok (toks, []).
