(* Proofs_C01s6m.v — C01, stage 6 (any layout), part 11: the STATIC part, one definition.
   The invariant between definitions and its preservation by one PROGRAM definition (Proofs_C01s4m.v), over J6 and
   for bodies of any layout. *)
From Coq Require Import List ZArith NArith Lia Bool.
From Theo Require Import Base Tokens Errors MacroExtract Parser VMModel VMSpec GenModel Compile RefSem RefSemChk C01Statements C01Stages C01Stages3 C01Stages4 Gen_Consts Proofs_VM_mem Proofs_VM_dbg Proofs_Gen0 Proofs_Gen Proofs_Sem Proofs_C01a Proofs_C01b Proofs_C01 Proofs_C01s2a Proofs_C01s2b Proofs_C01s2c Proofs_C01s2d Proofs_C01s2 Proofs_C01s3a Proofs_C01s3b Proofs_C01s3c Proofs_C01s3d Proofs_C01s4a Proofs_C01s4b Proofs_C01s4g Proofs_C01s4h Proofs_C01s4i Proofs_C01s4j Proofs_C01s4k Proofs_C01s4l Proofs_C01s4m Proofs_C01s6a Proofs_C01s6g Proofs_C01s6h Proofs_C01s6i Proofs_C01s6j Proofs_C01s6k Proofs_C01s6l.
Import ListNotations.
Local Open Scope Z_scope.

Record PI6 (W : rvalue -> Prop) (FT : ftab) (infos : list finfo) (pre : list (Z * Z)) (g : gstate) (s : fstate) : Prop := mkPI6 {
  pi6_syms : g_syms g = [mkFGS name_root [] 0 []];
  pi6_cur : f_cur s = mkB root_name [] [] [] [] [];
  pi6_pos : f_pos s = gpos g;
  pi6_loops : f_loops s = g_loops g /\ 0 <= g_loops g;
  pi6_jt : JT (g_todo g) (g_code g);
  pi6_last : code_last_pb (g_code g) = false;
  pi6_len : length infos = length (f_done s) /\ zlen (g_maps g) = zlen infos;
  pi6_fr : forall j r P0 regs lo hi, nth_error (f_done s) j = Some r -> nth_error infos j = Some (P0, regs, lo, hi) ->
            FRok6 W (g_code g) (g_labels g) FT r P0 regs lo hi /\ hi <= zlen (g_labels g) /\
            FT j = Some (P0, zlen regs, Z.of_nat j) /\
            znth (g_maps g) (Z.of_nat j) = Some (mkSM (r_name r) (stack_map_of regs 0));
  pi6_ftn : forall j, (length infos <= j)%nat -> FT j = None;
  pi6_gf : GF FT g s;
  pi6_pre : PreOK (g_code g) (g_labels g) 1 pre (zlen (g_code g)) /\
           (forall lab, In lab (map snd pre) -> 0 <= lab < zlen (g_labels g));
  pi6_code1 : 1 <= zlen (g_code g);
  pi6_c0 : znth (g_code g) 0 = Some (IPrepare (-1) (-1) 0) }.

(* the walk over the body of a routine starts here *)
Lemma J6_start P0 FT W g s : g_syms g <> [] -> P0 = zlen (g_code g) ->
  code_last_pb (g_code g) = false -> gmarks g = [] -> JT (g_todo g) (g_code g) ->
  b_code (f_cur s) = [] -> b_labels (f_cur s) = [] -> b_targets (f_cur s) = [] ->
  RW (gks g) (g_loops g) -> JV (gks g) (b_vars (f_cur s)) -> 0 <= g_loops g ->
  f_pos s = gpos g -> f_loops s = g_loops g ->
  J6 P0 FT (g_labels g) W 0 g s [] 0.
Proof.
  intros Hs -> Hl Hm HT Hc Hlb Ht HR HV HL Hp Hlo. split; [exact Hs|]. split; [|split; assumption].
  rewrite Hc, Hlb, Ht, Hm. apply JB6_intro; auto; try lia.
  - exists [0]. split.
    + split; [|split; [reflexivity|split; [cbn; lia|intros _; exact Hl]]].
      split; [reflexivity|]. split; [reflexivity|]. intros pc i g0 g' H. rewrite znth_nil in H. discriminate.
    + split; [intros e t H; rewrite znth_nil in H; discriminate | intros nm H; cbn in H; lia].
  - constructor.
    + reflexivity.
    + constructor.
    + intros nm l H; discriminate H.
    + intros n1 n2 l H; discriminate H.
    + intros e lab H. rewrite znth_nil in H. discriminate.
    + intros nm lab H; discriminate H.
    + intros nm _. reflexivity.
    + intros e lab H. rewrite znth_nil in H. discriminate.
    + intros nm l H; discriminate H.
    + split; [lia | auto].
Qed.

Lemma def_step6 (W : rvalue -> Prop) ol FT infos pre g s sl sf pl pf ptok hl hf htok nl nf nname port bl bf btok body ml mf mtok el ef etok g' s' :
  (forall f l v, ol f l v = true -> on_line f l v = true \/ (forall s s' rv, flat_value v s = Some (s', rv) -> W rv)) ->
  PI6 W FT infos pre g s -> node_on sf sl pf pl = true ->
  ports4 port = true -> body4 ol body = true -> lex_o port = true -> lexable_names body = true ->
  dispatch_void false false false
    (Node N_PROGRAM pl pf ptok (Some (Node N_SPLIT hl hf htok (Some (Node N_NAME nl nf nname None None)) port))
       (Some (Node N_SPLIT bl bf btok (Some body) (Some (Node N_MARK ml mf mtok (Some (Node N_NAME el ef etok None None)) None)))))
    (advance_line g sl sf) = Ok g' ->
  flat_stmt
    (Node N_PROGRAM pl pf ptok (Some (Node N_SPLIT hl hf htok (Some (Node N_NAME nl nf nname None None)) port))
       (Some (Node N_SPLIT bl bf btok (Some body) (Some (Node N_MARK ml mf mtok (Some (Node N_NAME el ef etok None None)) None)))))
    (move_to s sf sl) = Some s' ->
  exists FT' info q lab, PI6 W FT' (infos ++ [info]) (pre ++ [(q, lab)]) g' s' /\ ft_le FT FT'.
Proof.
  intros Hol HPI Hnode Hports Hbody Hlexp Hlexb HD HF.
  destruct HPI as [Psyms Pcur Ppos [Ploops PL0] Pjt Plast [Plen Pmaps] Pfr Pftn Pgf [Ppre Pprel] Pc1 Pc0].
  pose proof (at_loc_adv g sl sf) as Aa.
  (* ---- the header ---- *)
  rewrite dvoid_program in HD. rewrite (adv_noop _ _ _ _ _ Aa Hnode) in HD.
  destruct (remove_top_pot_break false (advance_line g sl sf)) as [g0| |] eqn:Erem; cbn [bind] in HD; try discriminate.
  assert (Hbc : b_code (f_cur s) = []) by (rewrite Pcur; reflexivity).
  destruct (header_site g s sl sf g0 Plast Hbc Ppos Erem) as (C0 & S0 & L0 & T0 & Lo0 & M0 & Fu0 & P0g & Hs1).
  cbv zeta in Hs1. set (s1 := move_to s sf sl) in *.
  destruct Hs1 as (Ps1 & Fd1 & Fn1 & Fl1 & Bn1 & Bp1 & Bl1 & Bt1 & Bv1 & Bc1).
  rewrite flat_stmt_eq in HF. cbn [fs_body] in HF.
  assert (As1 : at_loc (f_pos s1) sf sl) by (rewrite Ps1, P0g; exact Aa).
  rewrite (mv_noop _ _ _ _ _ As1 Hnode) in HF.
  unfold fs_program in HF. cbv zeta in HF. fold (port_params port) in HF. fold (port_out port) in HF.
  set (ps := port_params port) in *. set (outn := port_out port) in *.
  destruct (no_dup ps) eqn:End; cbn [negb] in HF; [|discriminate].
  pose proof (no_dup_NoDup _ End) as Hnd.
  destruct (ports_facts port Hports Hlexp) as (Hlexps & Hlexo & Eout & Hda). fold ps in Hlexps, Hda. fold outn in Hlexo, Eout.
  (* ---- the jump over the definition, the new table ---- *)
  cbn [create_label] in HD. cbv zeta in HD. cbn [child of_opt bind n_left n_right n_tok] in HD.
  set (after := zlen (g_labels g0)) in *.
  set (g2 := emit_backpatched (upd_labels g0 (g_labels g0 ++ [-1])) (IJmp after)) in *.
  set (g3 := push_symbols g2 nname) in *.
  assert (Es3 : g_syms g3 = mkFGS nname [] 0 [] :: g_syms g) by (unfold g3, g2; cbn; rewrite S0; reflexivity).
  rewrite (Hda g3 _ _ Es3 (fun p _ => eq_refl) Hnd) in HD. cbn [bind app f_name f_regs f_argnum f_marks] in HD.
  rewrite Z.add_0_l in HD. rewrite Eout in HD.
  set (g4 := upd_syms g3 (mkFGS nname (map var_reg ps) (zlen ps) [] :: g_syms g)) in *.
  set (entry := next_pos g4) in *.
  (* ---- the start of the body ---- *)
  set (b0 := fold_left mention ps (mkB nname ps [] [] [] [])) in *.
  set (sB := mkF (f_done s1) (f_names s1) b0 (f_pos s1) (f_loops s1)) in *.
  destruct (fold_mention_fields ps (mkB nname ps [] [] [] []) Hnd (fun p _ H => H)) as (Bv & Bc & Bl & Bt & Bn & Bp).
  fold b0 in Bv, Bc, Bl, Bt, Bn, Bp. cbn [b_vars b_code b_labels b_targets b_name b_params app] in Bv, Bc, Bl, Bt, Bn, Bp.
  destruct (params_tables (g_loops g) ps [] [] (RW_nil _) JV_nil Hlexps Hnd (fun p _ => eq_refl)) as (HRp & HVp & Hixp).
  cbn [app] in HRp, HVp, Hixp.
  assert (Ek4 : gks g4 = pkeys ps) by (unfold gks, gregs, g4; cbn [upd_syms g_syms f_regs]; apply map_key_var_regs).
  assert (Ec4 : g_code g4 = g_code g ++ [IJmp after]) by (unfold g4, g3, g2; cbn; rewrite C0; reflexivity).
  assert (Et4 : g_todo g4 = g_todo g ++ [zlen (g_code g)]).
  { unfold g4, g3, g2, emit_backpatched, next_pos. cbn [upd_syms push_symbols upd_todo g_todo emit upd_code g_code upd_labels].
    rewrite T0, C0, zlen_snoc. f_equal. f_equal. lia. }
  assert (El4 : g_labels g4 = g_labels g ++ [-1]) by (unfold g4, g3, g2; cbn; rewrite L0; reflexivity).
  assert (J4s : J6 entry FT (g_labels g4) W 0 g4 sB [] 0).
  { apply J6_start.
    - unfold g4. cbn. discriminate.
    - reflexivity.
    - rewrite Ec4. rewrite code_last_pb_snoc. reflexivity.
    - unfold gmarks, g4. cbn. reflexivity.
    - rewrite Et4, Ec4. destruct Pjt as [T1 T2]. split.
      + apply NoDup_snoc; [exact T1|]. intros Hin. apply T2 in Hin. lia.
      + intros q Hq. rewrite zlen_snoc. apply in_app_or in Hq. destruct Hq as [Hq|[<-|[]]]; [apply T2 in Hq; lia | lia].
    - exact Bc.
    - exact Bl.
    - exact Bt.
    - rewrite Ek4. change (g_loops g4) with (g_loops g0). rewrite Lo0. exact HRp.
    - rewrite Ek4. cbn [sB f_cur]. rewrite Bv. exact HVp.
    - change (g_loops g4) with (g_loops g0). rewrite Lo0. exact PL0.
    - cbn [sB f_pos]. rewrite Ps1. reflexivity.
    - cbn [sB f_loops]. rewrite Fl1. change (g_loops g4) with (g_loops g0). rewrite Lo0. exact Ploops. }
  assert (HGB : GF FT g4 sB).
  { intros name j Hl. cbn [sB f_names f_done] in *. rewrite Fn1 in Hl. destruct (Pgf _ _ Hl) as (callee & p & A & B & Cc & D).
    exists callee, p. rewrite Fd1. change (g_funcs g4) with (g_funcs g0). rewrite Fu0. auto. }
  (* ---- the body ---- *)
  cbn [dvo] in HD.
  match type of HD with bind ?x _ = _ => destruct x as [g5| |] eqn:E5; cbn [bind] in HD; try discriminate end.
  cbn [fsub] in HF.
  match type of HF with match ?x with _ => _ end = _ => destruct x as [s2|] eqn:EF2; [|discriminate] end.
  pose proof (N6_split entry FT (g_labels g4) W bl bf btok body (Some (Node N_MARK ml mf mtok (Some (Node N_NAME el ef etok None None)) None))
                (joint_walk6 entry FT (g_labels g4) W ol Hol body Hbody Hlexb) (N6_mark entry FT (g_labels g4) W ml mf mtok el ef etok None None None)) as IHB.
  destruct (IHB g4 sB [] g5 s2 J4s HGB E5 EF2) as (lmap5 & J5 & X5 & F5 & _).
  (* ---- the OUT variable and the return ---- *)
  destruct (L6_var entry FT (g_labels g4) W g5 s2 lmap5 0 outn Hlexo J5) as (g6 & E6 & J6 & X6 & S6 & F6 & V6 & _).
  rewrite E6 in HD. cbn [bind] in HD. cbv beta iota zeta in HD.
  set (ro := ks_ix (gks g5) outn) in *.
  destruct (L6_emit entry FT (g_labels g4) W g6 _ lmap5 0 (IRet ro) J6) as [J7 X7].
  set (g7 := emit g6 (IRet ro)) in *.
  destruct (L6_bemit entry FT (g_labels g4) W g7 _ lmap5 (0 + 1) (RReturn outn) J7 eq_refl I) as [J8 F8].
  { cbn [imatch6 imatch4]. split; [reflexivity|]. exists ro. split; [apply (RV_ext _ _ _ _ X7); exact V6|].
    cbn [g7 emit upd_code g_code]. rewrite zlen_snoc. replace (zlen (g_code g6) + 1 - (0 + 1) - 0) with (zlen (g_code g6)) by lia.
    apply znth_app_last. }
  assert (Ec7 : g_code g7 = g_code g6 ++ [IRet ro]) by reflexivity.
  assert (Ep7 : gpos g7 = gpos g6) by reflexivity.
  clearbody g7.
  set (s3 := with_cur (with_cur s2 (mention (f_cur s2) outn)) (bemit (f_cur (with_cur s2 (mention (f_cur s2) outn))) (RReturn outn))) in *.
  set (rt := finish_routine (bemit (mention (f_cur s2) outn) (RReturn outn))) in *.
  inversion HF; subst s'; clear HF.
  (* ---- pop_symbols, the label behind the definition ---- *)
  assert (X47 : Ext g4 g7) by (eapply Ext_trans; [exact X5|]; eapply Ext_trans; eauto).
  destruct X47 as (K47 & [blk47 C47] & M47 & Fu47 & f4 & f7 & tl4 & Es4 & Es7 & Hn7 & Ha7).
  assert (Ef4 : f4 = mkFGS nname (map var_reg ps) (zlen ps) [] /\ tl4 = g_syms g) by (unfold g4 in Es4; cbn in Es4; inversion Es4; auto).
  destruct Ef4 as [-> ->]. cbn [f_name f_argnum] in Hn7, Ha7.
  unfold pop_symbols, get_symbols in HD. rewrite Es7 in HD. cbn [hd_error of_opt bind] in HD.
  destruct (check_marks g7 (f_marks f7)) as [g7e| |] eqn:Ecm; cbn [bind] in HD; try discriminate.
  destruct (check_marks_errs _ _ _ Ecm) as [er ->]. clear Ecm.
  unfold GenModel.set_label in HD. cbn [upd_errs g_labels g_code g_maps g_pb g_li g_errs g_syms g_funcs g_todo g_loops g_fsname g_fsline next_pos] in HD.
  rewrite Es7 in HD. cbn [tl] in HD.
  match type of HD with bind (of_opt _ ?z) _ = _ => destruct z as [ls|] eqn:Els; cbn [of_opt bind] in HD; [|discriminate] end.
  inversion HD; subst g'; clear HD.
  (* ---- the new invariant ---- *)
  set (idx := length (f_done s)).
  set (regs7 := f_regs f7) in *.
  set (FT' := ft_add FT idx (entry, zlen regs7, Z.of_nat idx)).
  assert (HFT : ft_le FT FT').
  { intros j x Hx. unfold FT', ft_add. destruct (Nat.eqb_spec j idx) as [->|]; [|exact Hx].
    rewrite Pftn in Hx by (rewrite Plen; unfold idx; lia). discriminate. }
  exists FT', (entry, regs7, zlen (g_labels g4), zlen (g_labels g7)), (zlen (g_code g)), after. split; [|exact HFT].
  destruct J8 as (_ & HB8 & Hpos8 & Hloop8).
  assert (Fd2 : f_done s2 = f_done s) by (destruct F5 as (A & _); rewrite A; exact Fd1).
  assert (Fn2 : f_names s2 = f_names s) by (destruct F5 as (_ & A & _); rewrite A; exact Fn1).
  assert (Hgr7 : gregs g7 = regs7) by (unfold gregs; rewrite Es7; reflexivity).
  assert (Hlab7 : zlen (g_labels g4) <= zlen (g_labels g7) /\ forall lab, lab < zlen (g_labels g4) -> znth (g_labels g7) lab = znth (g_labels g4) lab).
  { destruct HB8 as (_ & HL8 & _). exact (jl4_snap _ _ _ _ _ _ _ _ HL8). }
  destruct Hlab7 as [Hl47 Hsnap].
  assert (Hafter : after < zlen (g_labels g4)) by (rewrite El4, zlen_snoc; unfold after; rewrite L0; lia).
  assert (Hafter0 : 0 <= after) by (unfold after; apply zlen_nonneg).
  pose proof (znth_zupd _ _ _ _ Els) as Hzls0. pose proof (zupd_length _ _ _ _ Els) as Lls0.
  assert (Lls : zlen ls = zlen (g_labels g7)) by exact Lls0.
  assert (Hzls : forall j, znth ls j = if j =? after then Some (zlen (g_code g7)) else znth (g_labels g7) j) by exact Hzls0.
  clear Lls0 Hzls0.
  assert (Hgrow : zlen (g_labels g) + 1 <= zlen ls) by (rewrite Lls; rewrite El4, zlen_snoc in Hl47; lia).
  constructor; cbn [upd_labels g_syms g_code g_labels g_todo g_loops g_maps g_funcs f_cur f_pos f_loops f_done f_names].
  - rewrite Psyms. reflexivity.
  - (* the root builder is back *)
    destruct (f_cur s1) as [n0 p0 c0 l0 t0 v0] eqn:Ecur. cbn [b_name b_params b_code b_labels b_targets b_vars] in *.
    rewrite Pcur in Bn1, Bp1, Bl1, Bt1, Bv1. cbn in Bn1, Bp1, Bl1, Bt1, Bv1. subst n0 p0 l0 t0 v0.
    destruct (last_is_site _) eqn:Els'.
    + cbn [b_code] in Bc1. rewrite Bc1. reflexivity.
    + cbn [b_code] in Bc1. rewrite Bc1. reflexivity.
  - transitivity (f_pos s3); [reflexivity|]. rewrite Hpos8. reflexivity.
  - split; [transitivity (f_loops s3); [reflexivity | exact Hloop8] | apply HB8].
  - apply HB8.
  - rewrite Ec7. rewrite code_last_pb_snoc. reflexivity.
  - rewrite Fd2, !app_length. cbn [length]. split; [lia|]. rewrite !zlen_snoc. rewrite M47. change (g_maps g4) with (g_maps g0). rewrite M0. lia.
  - (* all finished routines *)
    intros j r P0 regs lo hi Hj Hi. rewrite Fd2 in Hj.
    destruct (Nat.lt_ge_cases j idx) as [Hlt|Hge].
    + rewrite nth_error_app1 in Hj by exact Hlt. rewrite nth_error_app1 in Hi by (rewrite Plen; exact Hlt).
      destruct (Pfr _ _ _ _ _ _ Hj Hi) as (A & B & Cc & D).
      split; [|split; [lia|split; [apply HFT; exact Cc|]]].
      * eapply FRok6_stable; [exact A | | | exact HFT].
        -- rewrite C47, Ec4, <- app_assoc. eexists; reflexivity.
        -- intros lab Hlab. rewrite Hzls. destruct (Z.eqb_spec lab after) as [->|]; [unfold after in Hlab; rewrite L0 in Hlab; lia|].
           rewrite Hsnap by (rewrite El4, zlen_snoc; lia). rewrite El4. apply znth_app_l. lia.
      * rewrite M47. change (g_maps g4) with (g_maps g0). rewrite M0. apply znth_app_some. exact D.
    + assert (j = idx).
      { assert (j < length (f_done s ++ [rt]))%nat by (apply nth_error_Some; congruence). rewrite app_length in H. cbn in H. unfold idx in *. lia. }
      subst j. rewrite nth_error_app2 in Hj by (unfold idx; lia). rewrite nth_error_app2 in Hi by (rewrite Plen; unfold idx; lia).
      rewrite Plen in Hi. unfold idx in Hj, Hi. rewrite Nat.sub_diag in Hj, Hi. cbn in Hj, Hi. inversion Hj; subst r. inversion Hi; subst P0 regs lo hi. clear Hj Hi.
      split; [|split; [lia|split]].
      * (* the new routine *)
        assert (HFR : FRok6 W (g_code g7) (g_labels g7) FT rt entry (gregs g7) (zlen (g_labels g4)) (zlen (g_labels g7))).
        { apply (FRok6_of_J6 entry FT (g_labels g4) W g7 s3 lmap5); try reflexivity.
          - split; [rewrite Es7; discriminate|]. split; [exact HB8|]. split; assumption.
          - unfold entry, next_pos. rewrite Ec4, zlen_snoc. lia.
          - intros i p Hp. cbn [rt finish_routine r_params bemit b_params] in Hp. rewrite b_params_mention in Hp.
            assert (Ep2 : b_params (f_cur s2) = ps) by (destruct F5 as (_ & _ & _ & A); rewrite A; exact Bp).
            rewrite Ep2 in Hp. split; [rewrite Forall_forall in Hlexps; apply Hlexps; eapply nth_error_In; eauto|].
            destruct K47 as [l47 K47]. rewrite K47, Ek4. apply frk_app_some. rewrite (Hixp _ _ Hp). reflexivity.
          - cbn [rt finish_routine r_params bemit b_params]. rewrite b_params_mention.
            assert (Ep2 : b_params (f_cur s2) = ps) by (destruct F5 as (_ & _ & _ & A); rewrite A; exact Bp). rewrite Ep2. exact Hnd. }
        rewrite Hgr7 in HFR. eapply FRok6_stable; [exact HFR | apply nil_ex | | exact HFT].
        intros lab Hlab. change (g_labels g0 ++ [-1]) with (g_labels g4) in Hlab. rewrite Hzls. destruct (Z.eqb_spec lab after); [lia | reflexivity].
      * unfold FT', ft_add. rewrite Nat.eqb_refl. reflexivity.
      * rewrite M47. change (g_maps g4) with (g_maps g0). rewrite M0.
        replace (Z.of_nat idx) with (zlen (g_maps g)) by (rewrite Pmaps; unfold zlen, idx; rewrite Plen; reflexivity).
        rewrite znth_app_last. f_equal. f_equal.
        cbn [rt finish_routine r_name bemit b_name]. rewrite b_name_mention. destruct F5 as (_ & _ & A & _). rewrite A. cbn [sB f_cur]. rewrite Bn. exact Hn7.
  - intros j Hj. rewrite app_length in Hj. cbn [length] in Hj. unfold FT', ft_add.
    destruct (Nat.eqb_spec j idx); [unfold idx in *; lia|]. apply Pftn. lia.
  - (* the tables of programs *)
    intros name j Hl. cbn [f_names f_done g_funcs upd_labels n_tok] in Hl |- *. rewrite Fn2, lookup_name_cons in Hl. rewrite Fd2 in Hl. rewrite Fd2. rewrite str_lookup_insert.
    rewrite Fu47. change (g_funcs g4) with (g_funcs g0). rewrite Fu0, Hn7.
    destruct (str_eqb nname name) eqn:En.
    + apply str_eqb_eq in En. subst name. inversion Hl; subst j. rewrite (proj2 (str_keqb_eq nname nname) eq_refl).
      exists rt. eexists. split; [unfold idx; rewrite nth_error_app2 by lia; rewrite Nat.sub_diag; reflexivity|]. split; [reflexivity|].
      cbn [p_ind p_stack_size p_mi p_argnum]. split.
      * unfold FT', ft_add. fold idx. rewrite Nat.eqb_refl. f_equal. f_equal.
        rewrite zlen_snoc. rewrite M47. change (g_maps g4) with (g_maps g0). rewrite M0, Pmaps. unfold zlen, idx. rewrite Plen. lia.
      * rewrite Ha7. cbn [rt finish_routine r_params bemit b_params]. rewrite b_params_mention.
        destruct F5 as (_ & _ & _ & A). rewrite A. cbn [sB f_cur]. rewrite Bp. reflexivity.
    + assert (Hk : keqb str_ltb name nname = false).
      { destruct (keqb str_ltb name nname) eqn:E; [|reflexivity]. apply str_keqb_eq in E. subst name. rewrite str_eqb_refl in En. discriminate. }
      rewrite Hk. destruct (Pgf _ _ Hl) as (callee & p & A & B & Cc & D). exists callee, p.
      split; [apply nth_error_app1 with (l' := [rt]) in A || (rewrite nth_error_app1; [exact A | apply nth_error_Some; congruence])|].
      split; [exact B|]. split; [apply HFT; exact Cc | exact D].
  - (* the chain of jumps *)
    split.
    + rewrite C47, Ec4.
      replace (zlen ((g_code g ++ [IJmp after]) ++ blk47)) with (zlen (g_code g7)) by (rewrite C47, Ec4; reflexivity).
      eapply PreOK_snoc.
      * eapply PreOK_stable; [exact Ppre | rewrite <- app_assoc; eexists; reflexivity |].
        intros lab Hlab. destruct (Pprel _ Hlab) as [Hl0 Hl1]. rewrite Hzls.
        destruct (Z.eqb_spec lab after) as [->|]; [unfold after in Hl1; rewrite L0 in Hl1; lia|].
        rewrite Hsnap by (rewrite El4, zlen_snoc; lia). rewrite El4. apply znth_app_l. lia.
      * apply znth_app_some. apply znth_app_last.
      * rewrite Hzls, Z.eqb_refl. reflexivity.
    + intros lab Hlab. rewrite map_app in Hlab. cbn [map snd] in Hlab. apply in_app_or in Hlab. rewrite Lls.
      destruct Hlab as [Hlab|[<-|[]]]; [destruct (Pprel _ Hlab); rewrite El4, zlen_snoc in Hl47; lia | lia].
  - rewrite C47, Ec4, !zlen_app. pose proof (zlen_nonneg blk47). pose proof (zlen_nonneg (g_code g)). change (zlen [IJmp after]) with 1. lia.
  - rewrite C47, Ec4, <- app_assoc. apply znth_app_some. exact Pc0.
Qed.
