(* Proofs_RefHalt.v — C16, second sentence, on the reference semantics: a source without WHILE / GOTO / IF halts.
   Semantic half: Proofs_RefHalt0.v (closed code halts).  Static half: Proofs_RefHalt1.v (the flattener emits closed code). *)
From Coq Require Import List ZArith NArith Lia Bool.
From Theo Require Import Base Tokens Errors MacroExtract Parser RefSem SemStatements RefHaltStatements Proofs_Sem.
From Theo Require Import Compile Proofs_RefHalt0 Proofs_RefHalt1.
Import ListNotations.
Local Open Scope Z_scope.

Lemma C16_ref_loop_halts_proof : C16_ref_loop_halts_stmt.
Proof.
  intros root rs Hlo H. unfold abstract_source in H. cbv zeta in H.
  match type of H with context [flat_stmt root ?x] => set (s0 := x) in H end.
  destruct (flat_stmt root s0) as [s|] eqn:E; [|discriminate].
  destruct (forallb labels_set _); [|discriminate]. inversion H; subst rs. clear H.
  destruct (flat_stmt_srel root Hlo _ _ E) as [(e & Dn) Ok L (t & T) Cl].
  assert (Hok : table_ok (f_done s)).
  { apply Ok. intros j r Hj. destruct j; discriminate. }
  assert (Hc : cl_end s 0 0).
  { apply Cl.
    - subst s0. cbn [f_loops]. lia.
    - intros l. rewrite rh_znth_neg by lia. discriminate.
    - unfold cl_end. subst s0. cbn [f_cur f_done b_code b_targets].
      apply (cl_nil _ _ _ 0 0). lia. }
  set (b := bemit (f_cur s) RHalt).
  destruct (good_finish s 0 RHalt b Hc eq_refl eq_refl (or_introl eq_refl)) as (n & Hn & Hl).
  assert (Hok' : table_ok (f_done s ++ [finish_routine b])).
  { apply table_ok_snoc; [exact Hok|]. exists 0, n. split; [exact Hn | left; exact Hl]. }
  assert (Hk : nth_error (f_done s ++ [finish_routine b]) (length (f_done s)) = Some (finish_routine b)).
  { rewrite nth_error_app2 by lia. rewrite Nat.sub_diag. reflexivity. }
  assert (Hmain : exists lo n0, closed (firstn (length (f_done s)) (f_done s ++ [finish_routine b]))
                                  (r_code (finish_routine b)) (r_targets (finish_routine b)) lo 0 n0 /\
                                znth (r_code (finish_routine b)) n0 = Some RHalt).
  { exists 0, n. rewrite firstn_app, Nat.sub_diag, firstn_all. cbn [firstn]. rewrite app_nil_r. split; assumption. }
  destruct (table_main_stops _ _ _ Hok' Hk Hmain [] (mkRAct [] []) 0%nat []) as [fuel Hf].
  unfold run_ref. rewrite app_length. cbn [length]. rewrite Nat.add_1_r.
  destruct (run (f_done s ++ [finish_routine b]) fuel [] (length (f_done s)) (mkRAct [] []) 0 0 [])
    as [ret st tr|views st tr| |] eqn:Er; try contradiction.
  exists fuel, views, st, tr. exact Er.
Qed.

(* ---- the hypotheses are satisfiable: a parsed source with a definition, a call and nested LOOPs -------- *)
(*
PROGRAM f IN a OUT b DO
  b := a + 1
END
x := 3;
LOOP x DO
  y := RUN f WITH y END;
  LOOP y DO
    w := w + 1
  END
END
*)
Definition rh_src : str := [80; 82; 79; 71; 82; 65; 77; 32; 102; 32; 73; 78; 32; 97; 32; 79; 85; 84; 32; 98; 32; 68; 79; 10; 32; 32; 98; 32; 58; 61; 32; 97; 32; 43; 32; 49; 10; 69; 78; 68; 10; 120; 32; 58; 61; 32; 51; 59; 10; 76; 79; 79; 80; 32; 120; 32; 68; 79; 10; 32; 32; 121; 32; 58; 61; 32; 82; 85; 78; 32; 102; 32; 87; 73; 84; 72; 32; 121; 32; 69; 78; 68; 59; 10; 32; 32; 76; 79; 79; 80; 32; 121; 32; 68; 79; 10; 32; 32; 32; 32; 119; 32; 58; 61; 32; 119; 32; 43; 32; 49; 10; 32; 32; 69; 78; 68; 10; 69; 78; 68; 10]%N.
Definition rh_name : str := [112; 46; 116]%N.

Lemma C16_ref_loop_halts_instance :
  match Compile.parse [(rh_name, rh_src)] rh_name with
  | Ok p =>
      match pr_root p with
      | Some root =>
          pr_ok p = true /\ loop_only root = true /\
          match abstract_source (Some root) with
          | Some rs => length rs = 2%nat /\ exists fuel views steps trace, run_ref fuel rs = OStop views steps trace
          | None => False
          end
      | None => False
      end
  | _ => False
  end.
Proof.
  destruct (Compile.parse [(rh_name, rh_src)] rh_name) as [p| |] eqn:Ep; vm_compute in Ep; try discriminate.
  inversion Ep; subst p; clear Ep. cbn [pr_root pr_ok].
  match goal with |- context [abstract_source (Some ?n)] => set (root := n) end.
  assert (Hlo : loop_only root = true) by (vm_compute; reflexivity).
  split; [reflexivity|]. split; [exact Hlo|].
  destruct (abstract_source (Some root)) as [rs|] eqn:Ea; [|vm_compute in Ea; discriminate].
  split; [vm_compute in Ea; inversion Ea; reflexivity|].
  exact (C16_ref_loop_halts_proof root rs Hlo Ea).
Qed.

(* the same run, computed: budget 200 is enough *)
Lemma C16_ref_loop_halts_instance_run :
  match Compile.parse [(rh_name, rh_src)] rh_name with
  | Ok p =>
      match abstract_source (pr_root p) with
      | Some rs => match run_ref 200 rs with OStop _ _ _ => True | _ => False end
      | None => False
      end
  | _ => False
  end.
Proof. vm_compute. exact I. Qed.

Print Assumptions C16_ref_loop_halts_proof.
Print Assumptions C16_ref_loop_halts_instance.
Print Assumptions C16_ref_loop_halts_instance_run.
