(* Lexer.v — a generic maximal-munch scanner over an ordered rule list: the semantics flex gives
   to lexer.l (longest match; among equally long matches the earliest rule; yylineno counts the
   newlines of everything matched so far, so a token carries the line on which it ends). *)
From Theo Require Import Base Regex Tokens.
Local Open Scope N_scope.

(* a rule: pattern and action; None = the action is {} (whitespace, comments) *)
Definition rule := (regex * option tkind)%type.

Fixpoint first_nullable (rs : list regex) (i : nat) : option nat :=
  match rs with
  | [] => None
  | r :: t => if nullable r then Some i else first_nullable t (S i)
  end.

(* longest match from the start of s.  rs: the rules' derivatives w.r.t. what was consumed;
   n: number of bytes consumed; best: (length, rule index) of the best match so far *)
Fixpoint munch (rs : list regex) (s : list N) (n : nat) (best : option (nat * nat)) : option (nat * nat) :=
  match s with
  | [] => best
  | c :: t =>
      let rs' := map (deriv c) rs in
      if forallb is_empty rs' then best
      else
        let best' := match first_nullable rs' 0 with Some i => Some (S n, i) | None => best end in
        munch rs' t (S n) best'
  end.

Definition max_munch (rules : list rule) (s : list N) : option (nat * nat) :=
  munch (map fst rules) s 0 None.

Definition count_nl (s : list N) : Z := Z.of_nat (length (filter (N.eqb 10) s)).

(* one yylex() call: skip action-less matches, return the next token, the rest of the input and
   the line counter;  None = end of input.  fuel bounds the number of matches tried. *)
Fixpoint next_token (fuel : nat) (rules : list rule) (s : list N) (line : Z)
  : option (tkind * list N * Z * list N) :=     (* kind, text, line, rest *)
  match fuel with
  | O => None
  | S f =>
      match s with
      | [] => None
      | c :: t =>
          match max_munch rules s with
          | None => next_token f rules t line   (* flex default rule: ECHO one byte; unreachable with a catch-all rule *)
          | Some (len, i) =>
              let text := firstn len s in
              let rest := skipn len s in
              let line' := (line + count_nl text)%Z in
              match nth_error rules i with
              | Some (_, Some k) => Some (k, text, line', rest)
              | _ => next_token f rules rest line'
              end
          end
      end
  end.

(* the whole token list of one string (kind, text, line) *)
Fixpoint lex_all (fuel : nat) (rules : list rule) (s : list N) (line : Z) : list (tkind * list N * Z) :=
  match fuel with
  | O => []
  | S f =>
      match next_token (S (length s)) rules s line with
      | None => []
      | Some (k, text, line', rest) => (k, text, line') :: lex_all f rules rest line'
      end
  end.
Definition lex (rules : list rule) (s : list N) : list (tkind * list N * Z) :=
  lex_all (S (length s)) rules s 1%Z.
