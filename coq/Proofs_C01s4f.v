(* Proofs_C01s4f.v — C01, stage 4, part 6: the DYNAMIC part, runs.
   The induction on the fuel of run_chk with calls: every run of a routine on a frame of the VM stack is matched by
   the VM (SimAt, for all fuel).  A run ends the machine (all live frames show the reference views), returns (the VM
   stands at the routine's RET), or is out of fuel (the VM has executed at least as many instructions and is not
   done). *)
From Coq Require Import List ZArith NArith Lia Bool.
From Theo Require Import Base Tokens Errors MacroExtract Parser VMModel VMSpec GenModel Compile RefSem RefSemChk C01Statements C01Stages Gen_Consts Proofs_VM_mem Proofs_VM_dbg Proofs_Gen0 Proofs_Gen Proofs_Sem Proofs_C01a Proofs_C01b Proofs_C01 Proofs_C01s2a Proofs_C01s2b Proofs_C01s2 Proofs_C01s3a Proofs_C01s4a Proofs_C01s4b Proofs_C01s4c Proofs_C01s4d Proofs_C01s4e.
Import ListNotations.
Local Open Scope Z_scope.

Section Run4.
  Variable rs : list routine.
  Variable RI : nat -> rinfo.
  Variable C : list instr.
  Variable FT : ftab.
  Hypothesis FT_ok : forall j e sz mi, FT j = Some (e, sz, mi) ->
    e = ri_P0 (RI j) /\ sz = ri_N (RI j) /\ mi = ri_mi (RI j).
  Hypothesis ROK : forall k r, nth_error rs k = Some r -> routine_ok RI C FT k r.

  Notation FV := (FrameView rs RI).
  Notation LOK := (LowOK rs RI).
  Notation Res := (Res rs RI C).
  Notation SimAt := (SimAt rs RI C).
  Notation Top := (Top RI C).

  Lemma Res_compose k s base d d1 steps st1 f q q1 n o :
    code (prog s) = C ->
    vm_run n (vm_at s q d) = Ok (vm_at s q1 d1) -> (1 <= n)%nat -> (st1 <= steps + n)%nat ->
    (forall j, j < base -> znth d1 j = znth d j) -> not_halt C q ->
    Res k s base d1 st1 f q1 o -> Res k s base d steps (S f) q o.
  Proof.
    intros HC Hrun Hn Hst Hpre NH HR. destruct o as [ret st' tr'|vw st' tr'| |]; cbn [Proofs_C01s4e.Res] in *.
    - destruct HR as (n2 & d2 & q2 & ro & R2 & Zr & Rro & Zret & Bret & F2 & P2 & St2).
      exists (n + n2)%nat, d2, q2, ro. split; [eapply vm_run_trans; eauto|]. split; [exact Zr|]. split; [exact Rro|].
      split; [exact Zret|]. split; [exact Bret|]. split; [exact F2|]. split; [|lia].
      intros j Hj. rewrite P2 by exact Hj. apply Hpre; exact Hj.
    - destruct HR as (n2 & s' & R2 & D2 & F2 & St2). exists (n + n2)%nat, s'.
      split; [eapply vm_run_trans; eauto|]. split; [exact D2|]. split; [exact F2 | lia].
    - intros _. destruct f as [|f'].
      + exists 0%nat, (vm_at s q d). split; [lia|]. split; [reflexivity|]. eapply not_halt_done4; eauto.
      + destruct (HR ltac:(lia)) as (m & s' & Hm & R2 & D2). exists (n + m)%nat, s'.
        split; [lia|]. split; [eapply vm_run_trans; eauto | exact D2].
    - exact I.
  Qed.

  Lemma top_views k r a s act rest ctx d :
    nth_error rs k = Some r -> Top k s act rest ->
    SR (ri_rm (RI k)) (data_start act) (ri_N (RI k)) a d -> LOK (data_start act) rest ctx d ->
    Forall2 (FV d) (rev (act :: rest)) (ctx ++ [view_of r a]).
  Proof.
    intros Hk (HC & Hst & Hsz & Hdi) HS [HL _]. cbn [rev]. apply Forall2_app; [exact HL|].
    constructor; [|constructor]. exists k, r, a. split; [exact Hk|]. split; [reflexivity|]. split; [exact HS|].
    split; [exact (ro_rm _ _ _ _ _ (ROK _ _ Hk))|]. auto.
  Qed.

  Theorem sim_all : forall fuel, SimAt fuel.
  Proof.
    induction fuel as [|f IHf]; intros k r ctx a pc steps trace s d act rest Hk HT HS HL.
    - cbn [run_chk Proofs_C01s4e.Res]. intros H; lia.
    - rewrite run_chk_S. unfold body_c. rewrite Hk.
      destruct (znth (r_code r) pc) as [i|] eqn:Hi; [|exact I].
      pose proof (ROK _ _ Hk) as [OKk CMk Park NDk HNk]. pose proof (CMk _ _ Hi) as HM.
      pose proof (pm_of4_next (ri_P0 (RI k)) _ _ _ Hi) as Hnext. fold (pm4 RI k r (pc + 1)) in Hnext. fold (pm4 RI k r pc) in Hnext.
      pose proof HT as (HC & Hst & Hsz & Hdi).
      set (rm := ri_rm (RI k)) in *. set (N := ri_N (RI k)) in *. set (base := data_start act) in *.
      assert (Hold : forall (i0 : rinstr), i0 = i -> imatch3 rm C (jpost4 RI k r) (pm4 RI k r pc) i0 -> blen4 i0 = blen3 i0 ->
                Res k s base d steps (S f) (pm4 RI k r pc) (exec_instr_c rs (run_chk rs f) r ctx k a pc steps trace i0)).
      { intros i0 -> HM3 Hb. rewrite Hb in Hnext.
        destruct (exec_instr_c rs (run_chk rs f) r ctx k a pc steps trace i) as [ret st' tr'|vw st' tr'| |] eqn:HX; [| | |exact I].
        - destruct (step3_generic rs k r rm base N C (pm4 RI k r) OKk (run_chk rs f) ctx a pc steps trace i s d _ HM3 Hnext
                      (conj HC (ex_intro _ act (ex_intro _ rest (conj Hst eq_refl)))) HS HX ltac:(discriminate))
            as [(_ & Ho)|(NH & a' & pc' & tr1 & n & d' & Hn & Hvm & HS' & Hch & Hrec)]; [discriminate|].
          assert (Hpre : forall j, j < base -> znth d' j = znth d j).
          { intros j Hj. eapply chg_outside; eauto. unfold in_frame. lia. }
          assert (HL' : LOK base rest ctx d').
          { eapply LowOK_stable; [exact HL | destruct Hch as [El _]; rewrite El; pose proof (sr_fit _ _ _ _ _ HS); lia | exact Hpre]. }
          pose proof (IHf k r ctx a' pc' (S steps) tr1 s d' act rest Hk HT HS' HL') as HR. rewrite Hrec in HR.
          refine (Res_compose k s base d d' steps (S steps) f _ _ n _ HC Hvm Hn _ Hpre NH HR); lia.
        - destruct (step3_generic rs k r rm base N C (pm4 RI k r) OKk (run_chk rs f) ctx a pc steps trace i s d _ HM3 Hnext
                      (conj HC (ex_intro _ act (ex_intro _ rest (conj Hst eq_refl)))) HS HX ltac:(discriminate))
            as [(Hhalt & Ho)|(NH & a' & pc' & tr1 & n & d' & Hn & Hvm & HS' & Hch & Hrec)].
          + injection Ho as -> -> ->. cbn [Proofs_C01s4e.Res].
            exists 0%nat, (vm_at s (pm4 RI k r pc) d). split; [reflexivity|]. split.
            * apply (halted_at C); [exact HC|]. destruct Hhalt as [-> | ->]; exact HM3.
            * split; [|lia]. cbn [vm_at data stack]. rewrite Hst. eapply top_views; eauto.
          + assert (Hpre : forall j, j < base -> znth d' j = znth d j).
            { intros j Hj. eapply chg_outside; eauto. unfold in_frame. lia. }
            assert (HL' : LOK base rest ctx d').
            { eapply LowOK_stable; [exact HL | destruct Hch as [El _]; rewrite El; pose proof (sr_fit _ _ _ _ _ HS); lia | exact Hpre]. }
            pose proof (IHf k r ctx a' pc' (S steps) tr1 s d' act rest Hk HT HS' HL') as HR. rewrite Hrec in HR.
            refine (Res_compose k s base d d' steps (S steps) f _ _ n _ HC Hvm Hn _ Hpre NH HR); lia.
        - destruct (step3_generic rs k r rm base N C (pm4 RI k r) OKk (run_chk rs f) ctx a pc steps trace i s d _ HM3 Hnext
                      (conj HC (ex_intro _ act (ex_intro _ rest (conj Hst eq_refl)))) HS HX ltac:(discriminate))
            as [(_ & Ho)|(NH & a' & pc' & tr1 & n & d' & Hn & Hvm & HS' & Hch & Hrec)]; [discriminate|].
          assert (Hpre : forall j, j < base -> znth d' j = znth d j).
          { intros j Hj. eapply chg_outside; eauto. unfold in_frame. lia. }
          assert (HL' : LOK base rest ctx d').
          { eapply LowOK_stable; [exact HL | destruct Hch as [El _]; rewrite El; pose proof (sr_fit _ _ _ _ _ HS); lia | exact Hpre]. }
          pose proof (IHf k r ctx a' pc' (S steps) tr1 s d' act rest Hk HT HS' HL') as HR. rewrite Hrec in HR.
          refine (Res_compose k s base d d' steps (S steps) f _ _ n _ HC Hvm Hn _ Hpre NH HR); lia. }
      destruct i as [l|x v|id v|id ex|id back|v ex|target|l|x y l| |out|];
        try (apply Hold; [reflexivity | exact HM | reflexivity]).
      + (* RAssign *)
        cbn [imatch4] in HM. destruct HM as (rx & Hx & HV). cbn [blen4] in Hnext.
        unfold exec_instr_c. cbv zeta.
        pose proof (rmo_var_rng _ _ OKk _ _ Hx) as Rx.
        pose proof (eval4 rs RI C FT FT_ok ROK f IHf k r ctx a s act rest Hk HT v rx (pm4 RI k r pc) (fun _ => True) (S steps) trace d HV Rx HS HL) as HE.
        destruct (eval_c rs (run_chk rs f) a (ctx ++ [view_of r a]) v (S steps) trace) as [z st1 tr1|vw st1 tr1| |]; cbn [VRes] in HE.
        * destruct HE as (n & d' & Hvm & Ld & Hz & Hzb & Hun & Hst1).
          assert (HS' : SR rm base N (mkRAct (put (ra_vars a) x z) (ra_cnt a)) d').
          { eapply SR_var; [exact OKk | exact HS | exact Hx | | exact Hz | exact Hzb]. split; [exact Ld|].
            intros j Hj Hjt. apply Hun; [exact Hj|]. intros t _ Ht. apply Hjt; exact Ht. }
          assert (Hpre : forall j, j < base -> znth d' j = znth d j).
          { intros j Hj. apply Hun; [lia|]. intros t _ Ht E. pose proof (rmo_tmp_rng _ _ OKk _ Ht). lia. }
          assert (HL' : LOK base rest ctx d').
          { eapply LowOK_stable; [exact HL | rewrite Ld; pose proof (sr_fit _ _ _ _ _ HS); lia | exact Hpre]. }
          pose proof (IHf k r ctx _ (pc + 1) st1 tr1 s d' act rest Hk HT HS' HL') as HR.
          rewrite Hnext in HR.
          refine (Res_compose k s base d d' steps st1 f _ _ n _ HC Hvm _ _ Hpre (vmatch4_first _ _ _ _ _ _ _ HV) HR); lia.
        * destruct HE as (n & s' & Hvm & Hd & Hf & Hst1). cbn [Proofs_C01s4e.Res]. exists n, s'.
          split; [exact Hvm|]. split; [exact Hd|]. split; [exact Hf | lia].
        * destruct HE as (m & s' & Hm & Hvm & Hd). cbn [Proofs_C01s4e.Res]. intros _. exists m, s'.
          split; [lia|]. split; [exact Hvm | exact Hd].
        * exact I.
      + (* RReturn *)
        cbn [imatch4] in HM. destruct HM as (ro & Hx & Hz).
        unfold exec_instr_c. cbv zeta. cbn [Proofs_C01s4e.Res].
        exists 0%nat, d, (pm4 RI k r pc), ro. split; [reflexivity|]. split; [exact Hz|].
        split; [exact (rmo_var_rng _ _ OKk _ _ Hx)|]. split; [exact (sr_var _ _ _ _ _ HS _ _ Hx)|].
        split; [apply (sr_vb _ _ _ _ _ HS)|]. split; [apply (sr_fit _ _ _ _ _ HS)|]. split; [auto | lia].
  Qed.
End Run4.
