(* LRStatements.v — full statements of the parser-generator theorems (C13) proved so far. *)
From Coq Require Import Sorting.Sorted.
From Theo Require Import Base Grammar LR SpecMacro.
Local Open Scope N_scope.

(* a grammar as SemanticGrammar::add builds it: a proper map, no epsilon symbols inside alternatives,
   FIRST not yet computed *)
Record wf_grammar (g : grammar) : Prop := mkWfG {
  wf_sorted : StronglySorted (fun a b => sym_ltb a b = true) (map fst (right_sides g));
  wf_keys_nt : forall X alts, In (X, alts) (right_sides g) -> exists n, X = Nt n;
  wf_no_eps : forall X alts alt, In (X, alts) (right_sides g) -> In alt alts -> ~ In Eps alt;
  wf_fresh : first_sets g = []
}.

(* symbols the grammar mentions *)
Definition mentioned (g : grammar) (X : sym) : Prop :=
  (exists alts, In (X, alts) (right_sides g)) \/
  (exists Y alts alt, In (Y, alts) (right_sides g) /\ In alt alts /\ In X alt).

(* FIRST sets equal their textbook definition *)
Definition C13_first_sound_stmt : Prop :=
  forall g g', wf_grammar g -> calculate_first_sets g = Ok g' ->
    forall X, X <> Eps ->
      (forall a, In (Tm a) (fs_get (first_sets g') X) -> exists w, Derives g X (a :: w)) /\
      (In Eps (fs_get (first_sets g') X) -> Derives g X []) /\
      (forall Y, In Y (fs_get (first_sets g') X) -> Y = Eps \/ exists a, Y = Tm a).

Definition C13_first_complete_stmt : Prop :=
  forall g g', wf_grammar g -> calculate_first_sets g = Ok g' ->
    forall X, mentioned g X -> X <> Eps ->
      (forall a w, Derives g X (a :: w) -> In (Tm a) (fs_get (first_sets g') X)) /\
      (Derives g X [] -> In Eps (fs_get (first_sets g') X)).

(* the fixpoint loop ends within its budget, and the grammar itself is unchanged *)
Definition C13_first_terminates_stmt : Prop :=
  forall g, wf_grammar g -> exists g', calculate_first_sets g = Ok g' /\
    right_sides g' = right_sides g /\ total_nt g' = total_nt g.

(* max_used_terminal is the largest terminal index of the grammar *)
Definition C13_maxterm_stmt : Prop :=
  forall g g', wf_grammar g -> calculate_first_sets g = Ok g' ->
    (forall i, mentioned g (Tm i) -> i <= max_term g') /\
    (max_term g' = 0 \/ mentioned g (Tm (max_term g'))).

(* first(string) on the computed sets: FIRST of a sentential form *)
Definition C13_first_string_stmt : Prop :=
  forall g g' str, wf_grammar g -> calculate_first_sets g = Ok g' ->
    Forall (fun X => mentioned g X /\ X <> Eps) str ->
    (forall a, In (Tm a) (first g' str) <-> exists w, DerivesL g str (a :: w)) /\
    (In Eps (first g' str) <-> DerivesL g str []).

(* ===== the generated parser (statements; proofs in Proofs_LRSound.v) ============================ *)
From Theo Require Import SpecLR.

(* the start symbol is a non-terminal of g, the end marker a terminal *)
Definition start_ok (g : grammar) (S eof : sym) : Prop :=
  (exists s, S = Nt s /\ s < total_nt g) /\ (exists e, eof = Tm e) /\
  (forall X alts, In (X, alts) (right_sides g) -> exists n, X = Nt n /\ n < total_nt g).

(* soundness: without conflicts, an accepted input has a derivation tree of the start symbol whose yield
   is the consumed part of the input — all of it up to the end marker in full mode, some prefix of it in
   prefix mode — and the returned value is the fold of that tree *)
Definition C13_sound_stmt : Prop :=
  forall (T V : Type) (translator : T -> N) (creator : T -> V) (semantic : sym -> N -> list V -> V)
         max_states g prefix S eof g' tab states fuel input v,
    wf_grammar g -> start_ok g S eof ->
    generate_tables max_states g prefix S eof = Ok (g', tab, [], states) ->
    parse translator creator semantic tab fuel input = Ok (Some v) ->
    exists (tr : tree) rest,
      valid translator g tr /\ root translator tr = S /\
      input = yield tr ++ rest /\ v = value creator semantic tr /\
      (prefix = false -> exists tok rest', rest = tok :: rest' /\ Tm (translator tok) = eof).

(* the driver never performs an undefined stack or table access, and stops, on any input that contains an end marker *)
Definition C13_driver_safe_stmt : Prop :=
  forall (T V : Type) (translator : T -> N) (creator : T -> V) (semantic : sym -> N -> list V -> V)
         max_states g prefix S eof g' tab states input,
    wf_grammar g -> start_ok g S eof ->
    generate_tables max_states g prefix S eof = Ok (g', tab, [], states) ->
    (exists pre tok post, input = pre ++ tok :: post /\ Tm (translator tok) = eof) ->
    forall fuel, parse translator creator semantic tab fuel input = Fuel \/
                 exists r, parse translator creator semantic tab fuel input = Ok r.

(* table generation itself is total *)
Definition C13_generate_total_stmt : Prop :=
  forall max_states g prefix S eof, wf_grammar g -> start_ok g S eof ->
    generate_tables max_states g prefix S eof = Fuel \/
    exists r, generate_tables max_states g prefix S eof = Ok r.
