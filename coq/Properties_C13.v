(* Properties_C13.v — the theorems proved so far for property C13 (generated LR(1) parsers recognise
   exactly their grammar).  Proved: the FIRST part, for every well-formed grammar.  The two statements
   first drafted with terminal-string derivations (LRStatements.C13_first_sound_stmt, C13_first_string_stmt)
   are FALSE for grammars with unproductive symbols and are refuted here; the textbook definition of
   FIRST speaks about sentential forms, for which soundness holds unconditionally.
   Not yet proved (see DESIGN.md, C13): soundness/completeness of the generated parser (C13_sound,
   C13_complete, C13_unambiguous); these are decided on explored grammars by the derivation oracle. *)
From Coq Require Import Sorting.Sorted.
From Theo Require Import Base Grammar LR SpecMacro LRStatements Proofs_First LRCompleteStatements Proofs_LRComplete LRTermStatements Tokens Errors MacroExtract MacroApply CompileStatements ApplyStatements MacroStatements Proofs_LRTerm.
Local Open Scope N_scope.

(* every member of a computed FIRST set is justified by a derivation of a sentential form *)
Theorem C13_first_sound :
  forall g g', wf_grammar g -> calculate_first_sets g = Ok g' ->
    forall X,
      (forall a, In (Tm a) (fs_get (first_sets g') X) -> exists beta, DerivesS g X (Tm a :: beta)) /\
      (In Eps (fs_get (first_sets g') X) -> DerivesS g X [] /\ Derives g X []) /\
      (forall Y, In Y (fs_get (first_sets g') X) -> Y = Eps \/ exists a, Y = Tm a).
Proof. exact C13_first_sound_sentential. Qed.
Print Assumptions C13_first_sound.

(* with terminal strings instead of sentential forms the same holds when every symbol is productive *)
Theorem C13_first_sound_productive :
  forall g g', wf_grammar g -> productive g -> calculate_first_sets g = Ok g' ->
    forall X, X <> Eps ->
      (forall a, In (Tm a) (fs_get (first_sets g') X) -> exists w, Derives g X (a :: w)) /\
      (In Eps (fs_get (first_sets g') X) -> Derives g X []) /\
      (forall Y, In Y (fs_get (first_sets g') X) -> Y = Eps \/ exists a, Y = Tm a).
Proof. exact C13_first_sound_partial. Qed.
Print Assumptions C13_first_sound_productive.

(* ... and it is false without that hypothesis: A -> t1 B with B without rules *)
Theorem C13_first_sound_terminal_reading_refuted : ~ C13_first_sound_stmt.
Proof. exact C13_first_sound_stmt_false. Qed.
Print Assumptions C13_first_sound_terminal_reading_refuted.

(* everything derivable is in the computed set *)
Theorem C13_first_complete :
  forall g g', wf_grammar g -> calculate_first_sets g = Ok g' ->
    forall X, mentioned g X -> X <> Eps ->
      (forall a w, Derives g X (a :: w) -> In (Tm a) (fs_get (first_sets g') X)) /\
      (Derives g X [] -> In Eps (fs_get (first_sets g') X)).
Proof. exact C13_first_complete_proof. Qed.
Print Assumptions C13_first_complete.

(* the fixpoint loop ends within its budget (symbols+1)^2 + 2 and leaves the grammar unchanged *)
Theorem C13_first_terminates :
  forall g, wf_grammar g -> exists g', calculate_first_sets g = Ok g' /\
    right_sides g' = right_sides g /\ total_nt g' = total_nt g.
Proof. exact C13_first_terminates_proof. Qed.
Print Assumptions C13_first_terminates.

Theorem C13_maxterm :
  forall g g', wf_grammar g -> calculate_first_sets g = Ok g' ->
    (forall i, mentioned g (Tm i) -> i <= max_term g') /\
    (max_term g' = 0 \/ mentioned g (Tm (max_term g'))).
Proof. exact C13_maxterm_proof. Qed.
Print Assumptions C13_maxterm.

(* first(string), as used for the lookaheads of the closure *)
Theorem C13_first_string :
  forall g g' str, wf_grammar g -> calculate_first_sets g = Ok g' ->
    Forall (fun X => mentioned g X /\ X <> Eps) str ->
    (forall a, (exists w, DerivesL g str (a :: w)) -> In (Tm a) (first g' str)) /\
    (forall a, In (Tm a) (first g' str) ->
       exists pre s post beta, str = pre ++ s :: post /\ DerivesL g pre [] /\ DerivesS g s (Tm a :: beta)) /\
    (In Eps (first g' str) <-> DerivesL g str []).
Proof. exact C13_first_string_uncond. Qed.
Print Assumptions C13_first_string.

(* ===== the generated parser ======================================================================= *)
(* The statements first drafted (LRStatements.C13_sound_stmt, C13_driver_safe_stmt, C13_generate_total_stmt)
   are false for grammars whose right-hand sides mention a non-terminal that was never created (it collides
   with the S' / E symbols the generator adds) or that contain the end marker themselves; refuted below.
   With the two side conditions — which hold for every grammar built through createNonTerminal/add and for the
   macro detector — they are proved, for any conflict list. *)
From Theo Require Import SpecLR Proofs_LRSound0 Proofs_LRSound.

Theorem C13_sound :
  forall (T V : Type) (translator : T -> N) (creator : T -> V) (semantic : sym -> N -> list V -> V)
         max_states g prefix S eof g' tab confs states fuel input v,
    wf_grammar g -> start_ok g S eof -> rhs_closed g ->
    generate_tables max_states g prefix S eof = Ok (g', tab, confs, states) ->
    parse translator creator semantic tab fuel input = Ok (Some v) ->
    exists (tr : tree) rest,
      valid translator g tr /\ root translator tr = S /\
      input = yield tr ++ rest /\ v = value creator semantic tr /\
      (prefix = false -> exists tok rest', rest = tok :: rest' /\ Tm (translator tok) = eof).
Proof. exact C13_sound_partial. Qed.
Print Assumptions C13_sound.

Theorem C13_driver_safe :
  forall (T V : Type) (translator : T -> N) (creator : T -> V) (semantic : sym -> N -> list V -> V)
         max_states g prefix S eof g' tab confs states input,
    wf_grammar g -> start_ok g S eof -> rhs_closed g -> eof_fresh g eof ->
    generate_tables max_states g prefix S eof = Ok (g', tab, confs, states) ->
    (exists pre tok post, input = pre ++ tok :: post /\ Tm (translator tok) = eof) ->
    forall fuel, parse translator creator semantic tab fuel input = Fuel \/
                 exists r, parse translator creator semantic tab fuel input = Ok r.
Proof. exact C13_driver_safe_partial. Qed.
Print Assumptions C13_driver_safe.

Theorem C13_generate_total :
  forall max_states g prefix S eof, wf_grammar g -> start_ok g S eof -> rhs_closed g ->
    generate_tables max_states g prefix S eof = Fuel \/
    exists r, generate_tables max_states g prefix S eof = Ok r.
Proof. exact C13_generate_total_partial. Qed.
Print Assumptions C13_generate_total.

Theorem C13_sound_without_side_conditions_refuted : ~ C13_sound_stmt.
Proof. exact C13_sound_stmt_false. Qed.
Print Assumptions C13_sound_without_side_conditions_refuted.

Theorem C13_complete_full :
  forall (T V : Type) (translator : T -> N) (creator : T -> V) (semantic : sym -> N -> list V -> V)
         max_states g S eof g' tab states (tr : tree) tok rest,
    wf_grammar g -> start_ok g S eof -> rhs_closed g -> eof_fresh g eof ->
    generate_tables max_states g false S eof = Ok (g', tab, [], states) ->
    valid translator g tr -> root translator tr = S -> Tm (translator tok) = eof ->
    exists fuel, parse translator creator semantic tab fuel (yield tr ++ tok :: rest) = Ok (Some (value creator semantic tr)).
Proof. exact C13_complete_full_proof. Qed.
Print Assumptions C13_complete_full.

Theorem C13_complete_prefix :
  forall (T V : Type) (translator : T -> N) (creator : T -> V) (semantic : sym -> N -> list V -> V)
         max_states g S eof g' tab states (tr : tree) tok rest,
    wf_grammar g -> start_ok g S eof -> rhs_closed g -> eof_fresh g eof ->
    generate_tables max_states g true S eof = Ok (g', tab, [], states) ->
    valid translator g tr -> root translator tr = S -> translator tok <= max_term g' ->
    exists fuel v, parse translator creator semantic tab fuel (yield tr ++ tok :: rest) = Ok (Some v).
Proof. exact C13_complete_prefix_proof. Qed.
Print Assumptions C13_complete_prefix.

Theorem C13_unambiguous :
  forall max_states g S eof g' tab states (tr1 tr2 : @tree N),
    wf_grammar g -> start_ok g S eof -> rhs_closed g -> eof_fresh g eof ->
    generate_tables max_states g false S eof = Ok (g', tab, [], states) ->
    valid (fun t => t) g tr1 -> valid (fun t => t) g tr2 ->
    root (fun t => t) tr1 = S -> root (fun t => t) tr2 = S ->
    yield tr1 = yield tr2 -> tr1 = tr2.
Proof. exact C13_unambiguous_proof. Qed.
Print Assumptions C13_unambiguous.

Theorem C13_parse_terminates :
  forall (T V : Type) (translator : T -> N) (creator : T -> V) (semantic : sym -> N -> list V -> V)
         max_states g prefix S eof g' tab confs states input,
    wf_grammar g -> start_ok g S eof -> rhs_closed g -> eof_fresh g eof ->
    eps_free g S -> unit_acyclic g ->
    generate_tables max_states g prefix S eof = Ok (g', tab, confs, states) ->
    exists fuel, forall k, parse translator creator semantic tab (fuel + k) input <> Fuel.
Proof. exact C13_parse_terminates_proof. Qed.
Print Assumptions C13_parse_terminates.
