(* Proofs_Flex.v — proofs of the statements of FlexStatements.v (C14, the committed scanner tables).
   The statements carry the hypothesis bytes_ok (every element of the text is below 256); without it they are false
   (a model "byte" of 256 reads yy_ec out of range): C14_dfa_equiv_needs_bytes_proof. *)
From Coq Require Import List ZArith NArith Lia Bool.
From Theo Require Import Base Regex Tokens Lexer FlexModel Gen_Lexer Gen_Flex FlexStatements Proofs_Lexer.
From Theo Require SpecLex.
Import ListNotations.
Local Open Scope Z_scope.


(* ================================================================================================ *)
(* 1. the boolean equalities of the checker decide equality                                          *)
(* ================================================================================================ *)
Lemma rng_eqb_true : forall a b, rng_eqb a b = true -> a = b.
Proof.
  induction a as [| [x y] a IH]; intros [| [u w] b] H; cbn [rng_eqb] in H; try discriminate.
  - reflexivity.
  - apply andb_true_iff in H. destruct H as [H H3]. apply andb_true_iff in H. destruct H as [H1 H2].
    apply N.eqb_eq in H1. apply N.eqb_eq in H2. apply IH in H3. subst. reflexivity.
Qed.

Lemma fregex_eqb_true : forall a b, regex_eqb a b = true -> a = b.
Proof.
  induction a as [| | c | neg rs | a1 IH1 a2 IH2 | a1 IH1 a2 IH2 | a1 IH1]; intros b H;
    destruct b as [| | d | neg' rs' | b1 b2 | b1 b2 | b1]; cbn [regex_eqb] in H; try discriminate.
  - reflexivity.
  - reflexivity.
  - apply N.eqb_eq in H. subst. reflexivity.
  - apply andb_true_iff in H. destruct H as [H1 H2]. apply eqb_prop in H1. apply rng_eqb_true in H2.
    subst. reflexivity.
  - apply andb_true_iff in H. destruct H as [H1 H2]. apply IH1 in H1. apply IH2 in H2. subst. reflexivity.
  - apply andb_true_iff in H. destruct H as [H1 H2]. apply IH1 in H1. apply IH2 in H2. subst. reflexivity.
  - apply IH1 in H. subst. reflexivity.
Qed.

Lemma vec_eqb_true : forall a b, vec_eqb a b = true -> a = b.
Proof.
  induction a as [| x a IH]; intros [| y b] H; cbn [vec_eqb] in H; try discriminate.
  - reflexivity.
  - apply andb_true_iff in H. destruct H as [H1 H2]. apply fregex_eqb_true in H1. apply IH in H2.
    subst. reflexivity.
Qed.

Lemma lookup_In : forall m q v, lookup m q = Some v -> In (q, v) m.
Proof.
  induction m as [| [k w] m IH]; intros q v H; cbn [lookup] in H.
  - discriminate.
  - destruct (k =? q) eqn:E.
    + apply Z.eqb_eq in E. injection H as H. subst. left. reflexivity.
    + right. apply IH. exact H.
Qed.

Lemma In_bytes256 : forall c, (c < 256)%N -> In c bytes256.
Proof.
  intros c Hc. unfold bytes256. rewrite <- (N2Nat.id c). apply in_map. apply in_seq. lia.
Qed.

(* ================================================================================================ *)
(* 2. the match loop on checked tables is Lexer.munch                                                *)
(* ================================================================================================ *)
Lemma flex_run_eq : forall t cur s n best,
  flex_run t cur s n best =
  match accept_of t cur with
  | None => None
  | Some a =>
      let best' := if a =? 0 then best else Some (n, a) in
      match s with
      | [] => Some best'
      | c :: rest =>
          match byte_class t c with
          | None => None
          | Some k =>
              match next_state (chain_fuel t) t cur k with
              | None => None
              | Some q => if q =? ft_jam t then Some best' else flex_run t q rest (S n) best'
              end
          end
      end
  end.
Proof. intros t cur s n best. destruct s; reflexivity. Qed.

(* what munch has recorded once the accepting flag of the current vector is taken into account *)
Definition fold_best (v : list regex) (n : nat) (b0 : option (nat * nat)) : option (nat * nat) :=
  match first_nullable v 0 with Some i => Some (n, i) | None => b0 end.

Lemma accept_best : forall t q v a n b0, accept_of t q = Some a -> accept_ok t q v = true ->
  (if a =? 0 then option_map as_act b0 else Some (n, a)) = option_map as_act (fold_best v n b0).
Proof.
  intros t q v a n b0 Ha Hok. unfold accept_ok in Hok. rewrite Ha in Hok. unfold fold_best.
  destruct (first_nullable v 0) as [i |].
  - apply Z.eqb_eq in Hok. subst a.
    destruct (Z.of_nat i + 1 =? 0) eqn:E; [apply Z.eqb_eq in E; lia |]. reflexivity.
  - rewrite Hok. reflexivity.
Qed.

Lemma flex_run_inv : forall t m, forallb (pair_ok t m) m = true ->
  forall s, bytes_ok s -> forall q v n b0, In (q, v) m ->
  flex_run t q s n (option_map as_act b0) = Some (option_map as_act (munch v s n (fold_best v n b0))).
Proof.
  intros t m Hm. rewrite forallb_forall in Hm.
  intros s Hs. induction Hs as [| c rest Hc Hrest IH]; intros q v n b0 Hin.
  - pose proof (Hm _ Hin) as Hp. unfold pair_ok in Hp. cbn [fst snd] in Hp.
    apply andb_true_iff in Hp. destruct Hp as [Hacc _].
    rewrite flex_run_eq.
    destruct (accept_of t q) as [a |] eqn:Ea; [| unfold accept_ok in Hacc; rewrite Ea in Hacc; discriminate].
    cbv zeta. rewrite (accept_best t q v a n b0 Ea Hacc). reflexivity.
  - pose proof (Hm _ Hin) as Hp. unfold pair_ok in Hp. cbn [fst snd] in Hp.
    apply andb_true_iff in Hp. destruct Hp as [Hacc Hstep].
    rewrite flex_run_eq.
    destruct (accept_of t q) as [a |] eqn:Ea; [| unfold accept_ok in Hacc; rewrite Ea in Hacc; discriminate].
    cbv zeta. rewrite (accept_best t q v a n b0 Ea Hacc).
    rewrite forallb_forall in Hstep. specialize (Hstep c (In_bytes256 c Hc)).
    unfold step_ok in Hstep.
    destruct (byte_class t c) as [k |]; [| discriminate].
    destruct (next_state (chain_fuel t) t q k) as [q' |]; [| discriminate].
    cbv zeta in Hstep. rewrite munch_cons.
    destruct (forallb is_empty (map (deriv c) v)) eqn:Edead.
    + rewrite Hstep. reflexivity.
    + apply andb_true_iff in Hstep. destruct Hstep as [Hnj Hlk].
      apply negb_true_iff in Hnj. rewrite Hnj.
      destruct (lookup m q') as [w |] eqn:El; [| discriminate].
      apply vec_eqb_true in Hlk. apply lookup_In in El. rewrite <- Hlk in El.
      apply (IH q' (map (deriv c) v) (S n) (fold_best v n b0) El).
Qed.

(* the generic statement, for texts made of bytes *)
Lemma C14_dfa_generic_proof : C14_dfa_generic_stmt.
Proof.
  intros t rs m Hchk s Hs. unfold check_dfa in Hchk.
  apply andb_true_iff in Hchk. destruct Hchk as [Hchk Hall].
  apply andb_true_iff in Hchk. destruct Hchk as [Hstart Hnn].
  destruct (lookup m (ft_start t)) as [v |] eqn:El; [| discriminate].
  apply vec_eqb_true in Hstart. subst v. apply lookup_In in El.
  unfold flex_match.
  change (@None (nat * Z)) with (option_map as_act None).
  rewrite (flex_run_inv t m Hall s Hs (ft_start t) rs 0%nat None El).
  unfold fold_best. destruct (first_nullable rs 0) as [i |]; [discriminate |]. reflexivity.
Qed.

(* ================================================================================================ *)
(* 3. the instance: the tables of lex.yy.c against the rules of lexer.l                              *)
(* ================================================================================================ *)
Definition flex_assoc : assoc :=
  Eval vm_compute in
    explore (100 * 1000)%nat flex_tables [(ft_start flex_tables, map fst rules)] [].

Lemma flex_check : check_dfa flex_tables (map fst rules) flex_assoc = true.
Proof. vm_compute. reflexivity. Qed.

Lemma C14_dfa_equiv_proof : C14_dfa_equiv_stmt.
Proof.
  intros s Hs. unfold max_munch.
  exact (C14_dfa_generic_proof flex_tables (map fst rules) flex_assoc flex_check s Hs).
Qed.

(* the statements as written fail on a "byte" that is not one *)
Lemma flex_match_256 : flex_match flex_tables [256%N] = None.
Proof. vm_compute. reflexivity. Qed.

Lemma C14_dfa_equiv_needs_bytes_proof : C14_dfa_equiv_needs_bytes_stmt.
Proof. intros H. specialize (H [256%N]). rewrite flex_match_256 in H. discriminate. Qed.


(* ================================================================================================ *)
(* 4. yylineno: a pattern without newline matches no newline                                         *)
(* ================================================================================================ *)
Lemma count_nl_app : forall s t, count_nl (s ++ t) = count_nl s + count_nl t.
Proof. intros s t. unfold count_nl. rewrite filter_app, app_length. lia. Qed.

Lemma count_nl_single : forall c, c <> 10%N -> count_nl [c] = 0.
Proof.
  intros c Hc. unfold count_nl. cbn [filter].
  destruct (N.eqb 10 c) eqn:E; [apply N.eqb_eq in E; congruence | reflexivity].
Qed.

Lemma Matches_no_newline : forall r s, SpecLex.Matches r s -> no_newline r = true -> count_nl s = 0.
Proof.
  intros r s HM. induction HM as [| c | neg rs c Hc | a b s t Ha IHa Hb IHb | a b s Ha IHa | a b s Hb IHb
                                 | a | a s t Ha IHa Hs IHs]; intros Hn; cbn [no_newline] in Hn.
  - reflexivity.
  - apply count_nl_single. apply negb_true_iff in Hn. apply N.eqb_neq in Hn. exact Hn.
  - apply count_nl_single. apply negb_true_iff in Hn. intros ->. congruence.
  - apply andb_true_iff in Hn. destruct Hn as [H1 H2]. rewrite count_nl_app, IHa, IHb by assumption. reflexivity.
  - apply andb_true_iff in Hn. destruct Hn as [H1 H2]. apply IHa. exact H1.
  - apply andb_true_iff in Hn. destruct Hn as [H1 H2]. apply IHb. exact H2.
  - reflexivity.
  - rewrite count_nl_app, IHa, IHs by assumption. reflexivity.
Qed.

Lemma C14_eol_generic_proof : C14_eol_generic_stmt.
Proof.
  intros r s Hn Hm. apply matches_b_correct in Hm. exact (Matches_no_newline r s Hm Hn).
Qed.

Lemma check_eol_from_nth : forall rs eol, check_eol_from eol rs = true ->
  forall i r, nth_error rs i = Some r ->
  exists e, nth_error eol i = Some e /\ (negb (e =? 0) || no_newline r = true).
Proof.
  induction rs as [| r0 rs IH]; intros eol H i r Hi.
  - destruct i; discriminate.
  - destruct eol as [| e eol]; cbn [check_eol_from] in H; [discriminate |].
    apply andb_true_iff in H. destruct H as [H1 H2].
    destruct i as [| i]; cbn [nth_error] in *.
    + injection Hi as Hi. subst r0. exists e. split; [reflexivity | exact H1].
    + exact (IH eol H2 i r Hi).
Qed.

Lemma znth_succ : forall (A : Type) (l : list A) i, znth l (Z.of_nat i + 1) = nth_error (tl l) i.
Proof.
  intros A l i. unfold znth.
  destruct (Z.of_nat i + 1 <? 0) eqn:E; [apply Z.ltb_lt in E; lia |].
  replace (Z.to_nat (Z.of_nat i + 1)) with (S i) by lia.
  destruct l as [| x l]; [destruct i; reflexivity | reflexivity].
Qed.

Lemma check_eol_sound : forall t (rules : list rule), check_eol t (map fst rules) = true ->
  forall i r k s, nth_error rules i = Some (r, k) -> eol_flag t (Z.of_nat i + 1) = false ->
  matches_b r s = true -> count_nl s = 0.
Proof.
  intros t rules Hchk i r k s Hi Hflag Hm. unfold check_eol in Hchk.
  assert (Hi' : nth_error (map fst rules) i = Some r).
  { exact (map_nth_error fst i rules Hi). }
  destruct (check_eol_from_nth _ _ Hchk i r Hi') as [e [He Hor]].
  unfold eol_flag in Hflag. rewrite znth_succ, He in Hflag. rewrite Hflag in Hor. cbn [orb] in Hor.
  exact (C14_eol_generic_proof r s Hor Hm).
Qed.

Lemma flex_check_eol : check_eol flex_tables (map fst rules) = true.
Proof. vm_compute. reflexivity. Qed.

Lemma C14_eol_proof : C14_eol_stmt.
Proof. exact (check_eol_sound flex_tables rules flex_check_eol). Qed.

(* ================================================================================================ *)
(* 5. the action switch                                                                              *)
(* ================================================================================================ *)
Lemma check_actions_sound : forall (rules : list rule) acts, check_actions acts rules = true ->
  forall i r k, nth_error rules i = Some (r, k) -> nth_error acts i = Some (Some k).
Proof.
  induction rules as [| [r0 a] rules IH]; intros acts H i r k Hi.
  - destruct i; discriminate.
  - destruct acts as [| [b |] acts]; cbn [check_actions] in H; try discriminate.
    apply andb_true_iff in H. destruct H as [H1 H2].
    destruct i as [| i]; cbn [nth_error] in *.
    + injection Hi as Hr Hk. subst r0 a.
      destruct k as [x |], b as [y |]; try discriminate.
      * apply tk_eqb_eq in H1. subst. reflexivity.
      * reflexivity.
    + exact (IH acts H2 i r k Hi).
Qed.

Lemma flex_check_actions : check_actions flex_actions rules = true.
Proof. vm_compute. reflexivity. Qed.

Lemma C14_actions_proof : C14_actions_stmt.
Proof. exact (check_actions_sound rules flex_actions flex_check_actions). Qed.

(* ================================================================================================ *)
(* 6. one yylex() call                                                                               *)
(* ================================================================================================ *)
Lemma bytes_ok_skipn : forall n s, bytes_ok s -> bytes_ok (skipn n s).
Proof.
  induction n as [| n IH]; intros s Hs.
  - exact Hs.
  - destruct s as [| c s]; [exact Hs |]. cbn [skipn]. apply IH. inversion Hs; assumption.
Qed.

Section NextToken.
Variables (t : ftables) (acts : list (option (option tkind))) (rl : list rule).
Hypothesis Hdfa : forall s, bytes_ok s -> flex_match t s = Some (option_map as_act (max_munch rl s)).
Hypothesis Hact : forall i r k, nth_error rl i = Some (r, k) -> nth_error acts i = Some (Some k).
Hypothesis Heol : forall i r k s, nth_error rl i = Some (r, k) -> eol_flag t (Z.of_nat i + 1) = false ->
  matches_b r s = true -> count_nl s = 0.

Lemma flex_next_token_cons : forall f c rest1 line,
  flex_next_token (S f) t acts (c :: rest1) line =
  match flex_match t (c :: rest1) with
  | None => None
  | Some None => flex_next_token f t acts rest1 line
  | Some (Some (len, act)) =>
      let text := firstn len (c :: rest1) in
      let rest := skipn len (c :: rest1) in
      let line' := if eol_flag t act then (line + count_nl text)%Z else line in
      match nth_error acts (Z.to_nat (act - 1)) with
      | Some (Some (Some k)) => Some (Some (k, text, line', rest))
      | Some (Some None) => flex_next_token f t acts rest line'
      | _ => None
      end
  end.
Proof. reflexivity. Qed.

Lemma flex_next_token_generic : forall fuel s line, bytes_ok s ->
  flex_next_token fuel t acts s line = Some (next_token fuel rl s line).
Proof.
  induction fuel as [| f IH]; intros s line Hs.
  - reflexivity.
  - destruct s as [| c rest1].
    + reflexivity.
    + rewrite flex_next_token_cons, next_token_cons. rewrite (Hdfa _ Hs).
      destruct (max_munch rl (c :: rest1)) as [[len i] |] eqn:Emm.
      * cbn [option_map]. unfold as_act. cbn [fst snd]. cbv zeta.
        replace (Z.to_nat (Z.of_nat i + 1 - 1)) with i by lia.
        pose proof (max_munch_sound _ _ _ _ Emm) as HMM.
        destruct HMM as [_ [[r [a [Hnth HM]]] _]].
        rewrite Hnth. rewrite (Hact i r a Hnth).
        assert (Hline : (if eol_flag t (Z.of_nat i + 1)
                         then line + count_nl (firstn len (c :: rest1)) else line)
                        = line + count_nl (firstn len (c :: rest1))).
        { destruct (eol_flag t (Z.of_nat i + 1)) eqn:Ef; [reflexivity |].
          apply matches_b_correct in HM. rewrite (Heol i r a _ Hnth Ef HM). lia. }
        rewrite Hline.
        destruct a as [k |].
        -- reflexivity.
        -- apply IH. apply bytes_ok_skipn. exact Hs.
      * cbn [option_map]. apply IH. inversion Hs; assumption.
Qed.
End NextToken.

Lemma C14_flex_next_token_proof : C14_flex_next_token_stmt.
Proof.
  exact (flex_next_token_generic flex_tables flex_actions rules
           C14_dfa_equiv_proof C14_actions_proof C14_eol_proof).
Qed.


Print Assumptions C14_dfa_generic_proof.
Print Assumptions C14_dfa_equiv_proof.
Print Assumptions C14_dfa_equiv_needs_bytes_proof.
Print Assumptions C14_eol_generic_proof.
Print Assumptions C14_eol_proof.
Print Assumptions C14_actions_proof.
Print Assumptions C14_flex_next_token_proof.
