(* Proofs_Hygiene.v — C10 at the level of token streams (HygieneStatements.v): where the tokens of a stream after k
   rewriting steps come from, and that two renamed temporaries with the same name were made at the same pass. *)
From Coq Require Import List ZArith NArith Lia Bool Sorting.Sorted.
From Theo Require Import Base Regex Tokens Errors MacroExtract Grammar LR Gen_MacroGrammar Gen_Consts MacroApply SpecLex SpecMacro
                         MacroStatements HygieneStatements Proofs_Macro Proofs_Apply0 Proofs_Apply Proofs_Loc.
Import ListNotations.
Local Open Scope Z_scope.

Ltac hbi H x Hx := apply bind_ok in H; destruct H as (x & Hx & H).

(* ---- one instantiation: a token of the result is a token of a matched range, a token of the body, or the renamed
        form of a temporary token of the body ---------------------------------------------------------------------- *)
Lemma instantiate_src m fl matched pass : forall body repl, instantiate m fl matched pass body = Ok repl ->
  forall t, In t repl ->
    (exists l, In l matched /\ In t l) \/ In t body \/
    (exists cand, In cand body /\ tk cand = TEMP_VAL /\
                  t = mkTok ID (temp_name (ttext cand) (tfile cand) fl pass) (tfile cand) (tline cand)).
Proof.
  induction body as [|c rest IH]; intros repl H t Ht.
  - cbn [instantiate] in H. inversion H; subst. destruct Ht.
  - rewrite instantiate_cons in H. hbi H more Hmore.
    assert (M : In t more ->
      (exists l, In l matched /\ In t l) \/ In t (c :: rest) \/
      (exists cand, In cand (c :: rest) /\ tk cand = TEMP_VAL /\
                    t = mkTok ID (temp_name (ttext cand) (tfile cand) fl pass) (tfile cand) (tline cand))).
    { intros Hi. destruct (IH _ Hmore t Hi) as [L|[B|(cand & Hc & K & E)]].
      - left; exact L.
      - right; left; right; exact B.
      - right; right. exists cand. split; [right; exact Hc|]. split; [exact K|exact E]. }
    assert (DEF : Ok (c :: more) = Ok repl ->
      (exists l, In l matched /\ In t l) \/ In t (c :: rest) \/
      (exists cand, In cand (c :: rest) /\ tk cand = TEMP_VAL /\
                    t = mkTok ID (temp_name (ttext cand) (tfile cand) fl pass) (tfile cand) (tline cand))).
    { intros E. inversion E; subst repl. destruct Ht as [<-|Ht]; [|apply M; exact Ht].
      right; left; left; reflexivity. }
    destruct (tk c) eqn:K; try (apply DEF; exact H).
    + hbi H slot Hslot. hbi H ins Hins. inversion H; subst repl.
      apply in_app_or in Ht. destruct Ht as [Ht|Ht]; [|apply M; exact Ht].
      left. exists ins. split; [|exact Ht]. apply of_opt_ok in Hins. eapply znth_in; exact Hins.
    + inversion H; subst repl. destruct Ht as [<-|Ht]; [|apply M; exact Ht].
      right; right. exists c. split; [left; reflexivity|]. split; [exact K|reflexivity].
Qed.

Lemma get_replacement_src m r pass repl : get_replacement m r pass = Ok repl ->
  forall t, In t repl ->
    (exists l, In l (r_matched r) /\ In t l) \/ In t (m_repl m) \/
    (exists cand first, In cand (m_repl m) /\ tk cand = TEMP_VAL /\ m_repl m = first :: tl (m_repl m) /\
                  t = mkTok ID (temp_name (ttext cand) (tfile cand) (tline first) pass) (tfile cand) (tline cand)).
Proof.
  unfold get_replacement. intros H t Ht. destruct (m_repl m) as [|t0 body] eqn:E.
  - inversion H; subst. destruct Ht.
  - destruct (instantiate_src _ _ _ _ _ _ H t Ht) as [L|[B|(cand & Hc & K & Et)]].
    + left; exact L.
    + right; left; exact B.
    + right; right. exists cand, t0. split; [exact Hc|]. split; [exact K|]. split; [reflexivity|exact Et].
Qed.

(* ---- one step ----------------------------------------------------------------------------------------------------- *)
Lemma try_bin_src ds input pass out : try_bin false ds input pass = Ok (Some out) ->
  forall t, In t out ->
    In t input \/
    exists d, In d ds /\
      (In t (m_repl (d_macro d)) \/
       exists cand first, In cand (m_repl (d_macro d)) /\ tk cand = TEMP_VAL /\
         m_repl (d_macro d) = first :: tl (m_repl (d_macro d)) /\
         t = mkTok ID (temp_name (ttext cand) (tfile cand) (tline first) pass) (tfile cand) (tline cand)).
Proof.
  intros H t Ht. apply try_bin_some in H.
  destruct H as (x & rest & d & r & repl & HA & HM & HR & HL & ->).
  destruct (min_element_spec x rest) as [HI _]. rewrite HM in HI.
  destruct (detect_all_sound _ _ _ HA d r HI) as [Hd HD].
  unfold detect in HD. apply detect_from_in in HD.
  apply in_app_or in Ht. destruct Ht as [Ht|Ht]; [left; eapply in_firstn; exact Ht|].
  apply in_app_or in Ht. destruct Ht as [Ht|Ht]; [|left; eapply in_skipn; exact Ht].
  destruct (get_replacement_src _ _ _ _ HR t Ht) as [(l & Hl & Htl)|[B|T]].
  - left. rewrite Forall_forall in HD. exact (HD l Hl t Htl).
  - right. exists d. split; [exact Hd|left; exact B].
  - right. exists d. split; [exact Hd|right; exact T].
Qed.

Lemma try_bins_src : forall bins0 input pass out, try_bins false bins0 input pass = Ok (Some out) ->
  forall bins, incl bins0 bins ->
  forall t, In t out -> In t input \/ body_token bins t \/ temp_of_pass bins pass t.
Proof.
  induction bins0 as [|[k ds] rest IH]; intros input pass out H bins HI t Ht.
  - cbn [try_bins] in H. discriminate.
  - rewrite try_bins_cons in H. hbi H r Hr. destruct r as [i|].
    + inversion H; subst i.
      destruct (try_bin_src _ _ _ _ Hr t Ht) as [A|(d & Hd & [B|(cand & first & Hc & K & E & Et)])].
      * left; exact A.
      * right; left. exists k, ds, d. split; [apply HI; left; reflexivity|]. split; [exact Hd|exact B].
      * right; right. exists k, ds, d, cand, first.
        split; [apply HI; left; reflexivity|]. split; [exact Hd|]. split; [exact Hc|]. split; [exact K|].
        split; [exact E|exact Et].
    + eapply IH; [exact H| |exact Ht]. intros y Hy. apply HI. right; exact Hy.
Qed.

(* ---- k steps ------------------------------------------------------------------------------------------------------ *)
Lemma C10_steps_provenance_proof : C10_steps_provenance_stmt.
Proof.
  unfold C10_steps_provenance_stmt. intros bins input p k out HS.
  induction HS as [input p|input p mid out k Hstep HS IH]; intros t Ht.
  - left; exact Ht.
  - destruct (IH t Ht) as [A|[B|(q & Hq & T)]].
    + destruct (try_bins_src _ _ _ _ Hstep bins (incl_refl _) t A) as [A'|[B'|T']].
      * left; exact A'.
      * right; left; exact B'.
      * right; right. exists p. split; [lia|exact T'].
    + right; left; exact B.
    + right; right. exists q. split; [lia|exact T].
Qed.

Lemma C10_steps_hygiene_proof : C10_steps_hygiene_stmt.
Proof.
  unfold C10_steps_hygiene_stmt.
  intros bins input p k out t1 t2 q1 q2 Hp HS H1 H2 T1 T2 Hq1 Hq2 E.
  destruct T1 as (p1 & ds1 & d1 & c1 & f1 & _ & _ & _ & _ & _ & E1).
  destruct T2 as (p2 & ds2 & d2 & c2 & f2 & _ & _ & _ & _ & _ & E2).
  subst t1 t2. cbn [ttext] in E.
  destruct (Z.eq_dec q1 q2) as [Q|Q]; [exact Q|].
  exfalso. exact (C10_pass_inj_proof _ _ _ _ _ _ _ _ Hq1 Hq2 Q E).
Qed.

Print Assumptions C10_steps_provenance_proof.
Print Assumptions C10_steps_hygiene_proof.
