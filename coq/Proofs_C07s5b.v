(* Proofs_C07s5b.v — C07 with calls, part 2: the walk of Proofs_C01s4i.v (arguments of calls) over the invariant J4x
   (J4 with line_info).  The proofs are those of Proofs_C01s4i.v, with the primitive steps of Proofs_C07s5a.v. *)
From Coq Require Import List ZArith NArith Lia Bool.
From Theo Require Import Base Tokens Errors MacroExtract Parser VMModel VMSpec GenModel Compile RefSem RefSemChk C01Statements C01Stages C01Stages3 C01Stages4 Gen_Consts Proofs_VM_mem Proofs_VM_dbg Proofs_Gen0 Proofs_Gen Proofs_Sem Proofs_C01a Proofs_C01b Proofs_C01 Proofs_C01s2a Proofs_C01s2b Proofs_C01s2c Proofs_C01s2d Proofs_C01s2 Proofs_C01s3a Proofs_C01s3b Proofs_C01s3c Proofs_C01s3d Proofs_C01s4a Proofs_C01s4b Proofs_C01s4g Proofs_C01s4h Proofs_C01s4i Proofs_C07b Proofs_C07s5a.
Import ListNotations.
Local Open Scope Z_scope.

Section Args.
  Variable P0 : Z.
  Variable FT : ftab.
  Variable LS : list Z.
  Notation J4x := (J4x P0 FT LS).

  Lemma Nx_name g s lmap p f0 l0 line file tok l r tgt :
    lexable tok = true -> node_on f0 l0 file line = true -> J4x g s lmap p -> at_loc (gpos g) f0 l0 ->
    exists g', dispatch_value false (Node N_NAME line file tok l r) tgt g = Ok g' /\
      J4x g' (with_cur s (mention (f_cur s) tok)) lmap (p + 1) /\ Ext g g' /\
      FExt s (with_cur s (mention (f_cur s) tok)) /\ gpos g' = gpos g /\
      g_code g' = g_code g ++ [IAdd tgt (ks_ix (gks g) tok) 0] /\ RV g' tok (ks_ix (gks g) tok) /\
      (forall t r0, znth (gregs g) t = Some r0 -> znth (gregs g') t = Some r0).
  Proof.
    intros Hx Hn HJ Ha. rewrite dv_name. rewrite (adv_noop _ _ _ _ _ Ha Hn).
    destruct (Lx_var P0 FT LS g s lmap p tok Hx HJ) as (g1 & E1 & J1 & X1 & S1 & F1 & V1 & U1).
    rewrite E1. cbn [bind]. cbv beta iota. eexists; split; [reflexivity|].
    destruct (Lx_emit P0 FT LS g1 _ lmap p (IAdd tgt (ks_ix (gks g) tok) 0) J1) as [J2 X2].
    split; [exact J2|]. split; [eapply Ext_trans; eauto|]. split; [exact F1|].
    split; [exact (sm_pos _ _ S1)|]. split; [cbn [emit upd_code g_code]; rewrite (sm_code _ _ S1); reflexivity|].
    split; [exact V1 | exact U1].
  Qed.

  (* the result of compiling a value into register tgt, p instructions pending before it *)
  Record VResx (g g' : gstate) (s s' : fstate) (lmap : list Z) (p : Z) (rv : rvalue) (tgt : Z) : Prop := mkVResx {
    vrx_J : J4x g' s' lmap (p + vlen4 rv);
    vrx_ext : Ext g g';
    vrx_fext : FExt s s';
    vrx_pos : gpos g' = gpos g;
    vrx_len : zlen (g_code g') = zlen (g_code g) + vlen4 rv;
    vrx_match : vmatch4 (RMof (gks g')) (g_code g') FT rv tgt (zlen (g_code g)) (Sfree g);
    vrx_inuse : forall t, InUse g t -> InUse g' t }.

  Definition PVx (v : node) : Prop :=
    value4 v = true -> lexable_names v = true ->
    forall f0 l0, on_line f0 l0 v = true ->
    forall g s lmap p tgt g' s' rv, J4x g s lmap p -> at_loc (gpos g) f0 l0 -> GF FT g s ->
      dispatch_value false v tgt g = Ok g' -> flat_value v s = Some (s', rv) ->
      VResx g g' s s' lmap p rv tgt.

  (* ---- the argument list ---- *)
  Lemma Nx_args : forall a, all_sub PVx a -> vargs4 a = true -> lexable_names a = true ->
    forall f0 l0, on_line f0 l0 a = true ->
    forall g s lmap p arglocs vs g' al' s' vs', J4x g s lmap p -> at_loc (gpos g) f0 l0 -> GF FT g s ->
      call_args (dispatch_value false) a (g, arglocs) = Ok (g', al') -> fargs a (s, vs) = Some (s', vs') ->
      exists ts rvs, al' = arglocs ++ ts /\ vs' = vs ++ rvs /\ length rvs = nargs a /\
        J4x g' s' lmap (p + alen4 rvs) /\ Ext g g' /\ FExt s s' /\ gpos g' = gpos g /\
        zlen (g_code g') = zlen (g_code g) + alen4 rvs /\
        (forall t, InUse g t -> InUse g' t) /\ (forall t, In t ts -> InUse g' t /\ RT g' t /\ Sfree g t) /\
        forall (S : Z -> Prop) prot, (forall t, Sfree g t -> S t) -> (forall t, In t prot -> InUse g t) ->
          amatch4 (RMof (gks g')) (g_code g') FT rvs ts (zlen (g_code g)) S prot.
  Proof.
    induction a as [t line file tok l r IHl IHr] using Proofs_Gen0.node_ind'.
    intros Hall Hsh Hlex f0 l0 Hon g s lmap p arglocs vs g' al' s' vs' HJ Ha HG HD HF.
    destruct t; try discriminate Hsh. destruct l as [v|]; [|discriminate Hsh].
    cbn [vargs4] in Hsh. apply andb_true_iff in Hsh. destruct Hsh as [Hv4 Hmore].
    cbn [all_sub] in Hall. destruct Hall as (_ & Hallv & Hallr). pose proof (all_sub_here _ _ Hallv) as HPv.
    cbn [lexable_names] in Hlex. rewrite !andb_true_iff in Hlex. destruct Hlex as [[_ Hlv] Hlr].
    cbn [on_line] in Hon. rewrite !andb_true_iff in Hon. destruct Hon as [[_ Honv] Honr].
    rewrite call_args_split in HD. cbn [call_args_o] in HD.
    rewrite fargs_eq in HF. cbn [fargs_opt] in HF.
    (* the first argument is a leaf for call_args / fargs *)
    assert (Hleaf : n_type v <> N_SPLIT).
    { destruct v as [tv ? ? ? ? ?]. destruct tv; cbn [value4] in Hv4; try discriminate Hv4; cbn; discriminate. }
    rewrite call_args_leaf in HD by exact Hleaf. cbn [fst snd] in HD.
    assert (HFl : fargs v (s, vs) = match flat_value v s with Some (s1, rv) => Some (s1, vs ++ [rv]) | None => None end).
    { destruct v as [tv lv fv kv av bv]. rewrite fargs_eq. destruct tv; try reflexivity. exfalso. apply Hleaf. reflexivity. }
    rewrite HFl in HF. clear HFl.
    destruct (Lx_tmp P0 FT LS g s lmap p HJ) as (g1 & t1 & E1 & J1 & X1 & S1 & T1 & U1 & K1).
    rewrite E1 in HD. cbn [bind] in HD. cbv beta iota in HD.
    destruct (dispatch_value false v t1 g1) as [g2| |] eqn:ED; cbn [bind] in HD; try discriminate.
    destruct (flat_value v s) as [[s1 rv]|] eqn:EF; [|discriminate].
    assert (A1 : at_loc (gpos g1) f0 l0) by (rewrite (sm_pos _ _ S1); exact Ha).
    assert (HG1 : GF FT g1 s) by (eapply GF_ext; [exact HG | exact X1 | apply FExt_refl]).
    pose proof (HPv Hv4 Hlv f0 l0 Honv g1 s lmap p t1 g2 s1 rv J1 A1 HG1 ED EF) as [RJ RX RF RP RL RM RU].
    assert (Hmono1 : forall t0, InUse g t0 -> InUse g1 t0).
    { intros t0 (r0 & Hz0 & Hu0). destruct (K1 _ _ Hz0 Hu0) as (_ & r'' & A & B). exists r''. auto. }
    assert (Hfree1 : Sfree g t1).
    { intros (r0 & Hz0 & Hu0). destruct (K1 _ _ Hz0 Hu0) as (A & _). apply A. reflexivity. }
    assert (X02 : Ext g g2) by (eapply Ext_trans; eauto).
    destruct r as [m|].
    - (* more arguments *)
      cbn [call_args_o] in HD. cbn [fargs_opt] in HF. cbn [optP] in IHr.
      assert (A2 : at_loc (gpos g2) f0 l0) by (rewrite RP; exact A1).
      assert (HG2 : GF FT g2 s1) by (eapply GF_ext; eauto).
      destruct (IHr Hallr Hmore Hlr f0 l0 Honr g2 s1 lmap (p + vlen4 rv) (arglocs ++ [t1]) (vs ++ [rv]) g' al' s' vs' RJ A2 HG2 HD HF)
        as (ts & rvs & Eal & Evs & Hlen & JF & XF & FF & PF & LF & UF & TF & AF).
      exists (t1 :: ts), (rv :: rvs). rewrite <- app_assoc in Eal, Evs. cbn [app] in Eal, Evs.
      split; [exact Eal|]. split; [exact Evs|]. split; [cbn [length nargs]; rewrite Hlen; reflexivity|].
      cbn [alen4]. split; [replace (p + (vlen4 rv + alen4 rvs)) with (p + vlen4 rv + alen4 rvs) by lia; exact JF|].
      split; [eapply Ext_trans; eauto|]. split; [eapply FExt_trans; eauto|]. split; [rewrite PF, RP; exact (sm_pos _ _ S1)|]. split; [rewrite <- (sm_code _ _ S1); lia|].
      split; [intros t0 H0; apply UF, RU, Hmono1; exact H0|]. split.
      + intros t0 [<-|Hin].
        * split; [apply UF, RU; exact U1|]. split; [apply (RT_ext _ _ _ (Ext_trans _ _ _ RX XF)); exact T1 | exact Hfree1].
        * destruct (TF _ Hin) as (A & B & Cc). split; [exact A|]. split; [exact B|].
          intros H0. apply Cc. apply RU, Hmono1. exact H0.
      + intros S prot HS Hprot.
        eapply AM4_cons with (S1 := Sfree g1).
        * apply (RT_ext _ _ _ (Ext_trans _ _ _ RX XF)); exact T1.
        * apply HS; exact Hfree1.
        * intros Hin. apply Hfree1. apply Hprot; exact Hin.
        * intros x Hx. split; [apply HS; intros H0; apply Hx, Hmono1; exact H0|].
          intros Hin. apply Hx, Hmono1, Hprot; exact Hin.
        * destruct (vmatch4_move (RMof (gks g2)) (RMof (gks g')) (g_code g2) (g_code g') FT FT (Ext_rm _ _ XF) (fun j x H => H)) as [Mv _].
          rewrite <- (sm_code _ _ S1). eapply Mv; [exact RM | auto |].
          destruct XF as (_ & [blk ->] & _). intros q' ins _ Hz _. apply znth_app_some; exact Hz.
        * rewrite <- (sm_code _ _ S1). replace (zlen (g_code g1) + vlen4 rv) with (zlen (g_code g2)) by lia.
          apply AF.
          -- intros t0 H0. apply HS. intros H1. apply H0, RU, Hmono1; exact H1.
          -- intros t0 Hin. apply in_app_or in Hin. destruct Hin as [Hin|[<-|[]]]; [apply RU, Hmono1, Hprot; exact Hin | apply RU; exact U1].
    - (* the last argument *)
      cbn [call_args_o] in HD. cbn [fargs_opt] in HF. inversion HD; subst g' al'. inversion HF; subst s' vs'.
      exists [t1], [rv]. split; [reflexivity|]. split; [reflexivity|]. split; [reflexivity|].
      cbn [alen4]. rewrite Z.add_0_r. split; [exact RJ|]. split; [exact X02|]. split; [exact RF|]. split; [rewrite RP; exact (sm_pos _ _ S1)|].
      split; [rewrite <- (sm_code _ _ S1); exact RL|].
      split; [intros t0 H0; apply RU, Hmono1; exact H0|]. split.
      + intros t0 [<-|[]]. split; [apply RU; exact U1|]. split; [apply (RT_ext _ _ _ RX); exact T1 | exact Hfree1].
      + intros S prot HS Hprot.
        eapply AM4_cons with (S1 := Sfree g1).
        * apply (RT_ext _ _ _ RX); exact T1.
        * apply HS; exact Hfree1.
        * intros Hin. apply Hfree1. apply Hprot; exact Hin.
        * intros x Hx. split; [apply HS; intros H0; apply Hx, Hmono1; exact H0|].
          intros Hin. apply Hx, Hmono1, Hprot; exact Hin.
        * rewrite <- (sm_code _ _ S1). exact RM.
        * constructor.
  Qed.
End Args.
