(* Proofs_Accept.v — C04 (parser half): the recursive-descent parser reports no syntax error exactly on
   the sentences of the documented LL(1) grammar (SpecGrammar.v). *)
From Coq Require Import List ZArith NArith Lia Bool.
From Theo Require Import Base Tokens Errors MacroExtract Parser VMModel GenModel RefSem SpecGrammar CompileStatements AcceptStatements Proofs_Front.
Import ListNotations.

(* ======================================================================================== *)
(* Part 0: primitives                                                                       *)
(* ======================================================================================== *)

(* number of recorded errors; kept abstract for lia *)
Definition nerr (s : pst) : nat := length (p_errs s).

Lemma la_hdk : forall s k, la s = Ok k -> hdk (p_rest s) = k.
Proof.
  intros s k H. unfold la, cur in H. destruct (p_rest s) as [|t r]; simpl in H; [discriminate H|].
  inversion H. reflexivity.
Qed.

Lemma la_cons : forall t l errs, la (mkP (t :: l) errs) = Ok (tk t).
Proof. reflexivity. Qed.

Lemma perror_inv2 : forall s k s', perror s k = Ok s' -> p_rest s' = p_rest s /\ nerr s' = S (nerr s).
Proof.
  intros s k s' H. unfold perror in H. apply pp_bind_inv in H. destruct H as (t & _ & H).
  inversion H; subst. unfold nerr. cbn [p_rest p_errs]. rewrite app_length. simpl. split; [reflexivity|lia].
Qed.

Lemma pmatch_inv2 : forall s k s', pmatch s k = Ok s' -> k <> T_EOF ->
  nerr s <= nerr s' /\ (nerr s' <= nerr s -> exists t, p_rest s = t :: p_rest s' /\ tk t = k).
Proof.
  intros s k s' H NE. unfold pmatch in H.
  apply pp_bind_inv in H. destruct H as (k0 & E0 & H).
  destruct (tk_eqb k0 k) eqn:TE.
  - apply xe_tk_eqb_eq in TE. subst k0. cbn [bind] in H. rewrite E0 in H. cbn [bind] in H.
    apply la_hdk in E0.
    destruct (p_rest s) as [|t r] eqn:R; cbn [hdk] in E0; [congruence|].
    assert (X : s' = mkP (tl (p_rest s)) (p_errs s)).
    { destruct k; try congruence; inversion H; reflexivity. }
    subst s'. unfold nerr. cbn [p_rest p_errs]. split; [lia|]. intros _. exists t. rewrite R. simpl. auto.
  - apply pp_bind_inv in H. destruct H as (s1 & E1 & H).
    apply pp_bind_inv in E1. destruct E1 as (s0 & PE & E1).
    apply perror_inv2 in PE. destruct PE as (_ & PE).
    inversion E1; subst s1. clear E1.
    apply pp_bind_inv in H. destruct H as (k1 & _ & H).
    assert (X : nerr s' = nerr s0).
    { destruct k1; inversion H; reflexivity. }
    split; [lia|]. intros C. exfalso. lia.
Qed.

Lemma matchmk_inv2 : forall s k ty n s', matchmk s k ty = Ok (n, s') -> k <> T_EOF ->
  nerr s <= nerr s' /\ (nerr s' <= nerr s -> exists t, p_rest s = t :: p_rest s' /\ tk t = k).
Proof.
  intros s k ty n s' H NE. unfold matchmk in H.
  apply pp_bind_inv in H. destruct H as (t & _ & H).
  apply pp_bind_inv in H. destruct H as (s1 & E1 & H).
  inversion H; subst. eapply pmatch_inv2; eauto.
Qed.

Lemma pmatch_hit : forall t l errs k, tk t = k -> k <> T_EOF -> pmatch (mkP (t :: l) errs) k = Ok (mkP l errs).
Proof.
  intros t l errs k K NE. unfold pmatch. rewrite la_cons. cbn [bind]. rewrite K, xe_tk_eqb_refl.
  cbn [bind]. rewrite la_cons, K. cbn [bind]. destruct k; try congruence; reflexivity.
Qed.

Lemma matchmk_hit : forall t l errs k ty, tk t = k -> k <> T_EOF ->
  matchmk (mkP (t :: l) errs) k ty = Ok (Node ty (tline t) (tfile t) (ttext t) None None, mkP l errs).
Proof.
  intros t l errs k ty K NE. unfold matchmk. cbn [cur p_rest hd_error of_opt bind].
  rewrite (pmatch_hit t l errs k K NE). reflexivity.
Qed.

(* ======================================================================================== *)
(* Part 1: soundness — an error-free call consumes a phrase of its non-terminal             *)
(* ======================================================================================== *)

(* lookaheads on which expected_end_or_semicolon does nothing *)
Definition eeos_idle (k : tkind) : bool :=
  match k with ID | LOOP | WHILE | GOTO | IF | STOP | PROGRAM | PROGSEP => false | _ => true end.

Definition spec (f : pfn) (l0 ts l1 : list token) : Prop :=
  match f with
  | fS => DS (map tk ts)
  | fPORTS => DPorts (map tk ts)
  | fOPORTS => map tk ts = [] \/ map tk ts = [OUT; ID]
  | fARGS => DArgs (map tk ts)
  | fMARGS => map tk ts = [] \/ exists a, map tk ts = ARGSEP :: a /\ DArgs a
  | fP => DP (map tk ts) /\ eeos_idle (hdk l1) = true
  | fMOREP => DMoreP (map tk ts) /\ hdk l1 <> PROGSEP
  | fVALUE => DValue (map tk ts)
  | fVARGS => DVargs (map tk ts)
  | fMVARGS => DMvargs (map tk ts)
  | fEEOS => (hdk l0 <> PROGSEP -> ts = []) /\ eeos_idle (hdk l1) = true
  end.

Definition sound_post (f : pfn) (s s' : pst) : Prop :=
  nerr s <= nerr s' /\
  (nerr s' <= nerr s -> exists ts, p_rest s = ts ++ p_rest s' /\ spec f (p_rest s) ts (p_rest s')).

Ltac sstep IH :=
  match goal with
  | H : bind (bind _ _) _ = Ok _ |- _ => rewrite pp_bind_assoc in H; cbv beta in H
  | H : bind (Ok _) _ = Ok _ |- _ => cbn [bind] in H; cbv beta iota in H
  | H : bind (la ?si) _ = Ok _ |- _ =>
      let k := fresh "k" in let HK := fresh "HK" in
      apply pp_bind_inv in H; destruct H as (k & HK & H); apply la_hdk in HK; destruct k; cbv beta iota in H
  | H : bind (perror ?si _) _ = Ok _ |- _ =>
      let s1 := fresh "s" in let E := fresh "E" in let R := fresh "PR" in let N := fresh "PN" in
      apply pp_bind_inv in H; destruct H as (s1 & E & H); apply perror_inv2 in E; destruct E as (R & N)
  | H : bind (pmatch ?si ?k) _ = Ok _ |- _ =>
      let s1 := fresh "s" in let E := fresh "E" in let M := fresh "M" in let C := fresh "C" in
      apply pp_bind_inv in H; destruct H as (s1 & E & H); apply pmatch_inv2 in E; [|discriminate];
      destruct E as (M & C)
  | H : bind (matchmk ?si ?k _) _ = Ok _ |- _ =>
      let n1 := fresh "n" in let s1 := fresh "s" in let E := fresh "E" in let M := fresh "M" in let C := fresh "C" in
      apply pp_bind_inv in H; destruct H as ((n1 & s1) & E & H); apply matchmk_inv2 in E; [|discriminate];
      destruct E as (M & C); cbn [fst snd] in H; cbv beta iota in H
  | H : bind (pcall _ ?g ?si) _ = Ok _ |- _ =>
      let r1 := fresh "r" in let s1 := fresh "s" in let E := fresh "E" in let M := fresh "M" in let C := fresh "C" in
      apply pp_bind_inv in H; destruct H as ((r1 & s1) & E & H); apply IH in E;
      destruct E as (M & C); cbn [fst snd] in H; cbv beta iota in H
  | H : (if is_value_start _ then _ else _) = Ok _ |- _ => cbn [is_value_start] in H
  | H : match ?v with _ => _ end = Ok _ |- _ => is_var v; destruct v
  | H : bind (of_opt _ ?o) _ = Ok _ |- _ =>
      let a := fresh "a" in let E := fresh "E" in
      apply pp_bind_inv in H; destruct H as (a & E & H); clear E
  | H : pcall _ ?g ?si = Ok (_, _) |- _ =>
      let M := fresh "M" in let C := fresh "C" in
      apply IH in H; destruct H as (M & C)
  | H : Ok _ = Ok (_, _) |- _ => inversion H; subst; clear H
  end.

Ltac unlock :=
  repeat match goal with
         | C : nerr ?a <= nerr ?b -> _ |- _ =>
             let X := fresh "X" in assert (X : nerr a <= nerr b) by lia; specialize (C X); clear X
         end;
  cbn [spec] in *;
  repeat match goal with
         | C : exists _, _ |- _ => let x := fresh "x" in destruct C as (x & C)
         | C : _ /\ _ |- _ => let A := fresh "A" in let B := fresh "B" in destruct C as (A & B)
         end;
  repeat match goal with
         | A : hdk ?l <> PROGSEP, B : hdk ?l <> PROGSEP -> _ |- _ => specialize (B A)
         end;
  repeat match goal with
         | E : ?x = [] |- _ => is_var x; subst x
         end.

Ltac expand l :=
  lazymatch l with
  | p_rest ?x => lazymatch goal with
                 | R : p_rest x = ?rhs |- _ => expand rhs
                 | _ => l
                 end
  | ?a :: ?r => let r' := expand r in constr:(a :: r')
  | ?a ++ ?r => let r' := expand r in constr:(a ++ r')
  end.

Ltac prefix_of l :=
  lazymatch l with
  | ?a :: ?r => let p := prefix_of r in constr:(a :: p)
  | nil ++ ?r => prefix_of r
  | ?a ++ ?r => let p := prefix_of r in
                lazymatch p with
                | nil => constr:(a)
                | _ => constr:(a ++ p)
                end
  | _ => constr:(@nil token)
  end.

Ltac give_prefix :=
  match goal with
  | |- exists ts, p_rest ?s0 = ts ++ p_rest ?s1 /\ _ =>
      let full := expand (p_rest s0) in
      let p := prefix_of full in
      exists p; split;
      [ repeat match goal with R : p_rest ?x = _ |- context [p_rest ?x] => rewrite R end;
        repeat (cbn [app]; rewrite <- ?app_assoc); reflexivity
      | cbn [spec]; repeat (cbn [map]; rewrite map_app); cbn [map];
        repeat match goal with K : tk ?t = _ |- context [tk ?t] => rewrite K end ]
  end.

Ltac sprep := split; [lia|]; intro LE; try (exfalso; lia); unlock; give_prefix.

Lemma pcall_sound : forall fuel f s r s', pcall fuel f s = Ok (r, s') -> sound_post f s s'.
Proof.
  induction fuel as [|fu IH]; intros f s r s' H; [discriminate H|].
  unfold sound_post in *.
  destruct f.
  - rewrite pcall_fS in H. repeat sstep IH.
    all: sprep.
    all: try (apply DS_main; assumption).
    apply (DS_prog _ _ _ ); assumption.
  - rewrite pcall_fPORTS in H. repeat sstep IH.
    all: sprep.
    all: try apply DPo_none.
    match goal with B : _ \/ _ |- _ => destruct B as [B|B]; rewrite B end;
      [rewrite app_nil_r; apply DPo_in | apply DPo_inout]; assumption.
  - rewrite pcall_fOPORTS in H. repeat sstep IH.
    all: sprep.
    all: first [left; reflexivity | right; reflexivity].
  - rewrite pcall_fARGS in H. repeat sstep IH.
    all: sprep.
    all: match goal with B : _ \/ _ |- _ => destruct B as [B|(a & B & D)]; rewrite B end;
      [apply DAr_one | apply DAr_more; assumption].
  - rewrite pcall_fMARGS in H. repeat sstep IH.
    all: sprep.
    all: first [left; reflexivity | right; eexists; split; [reflexivity|assumption]].
  - rewrite pcall_fP in H. repeat sstep IH.
    all: sprep.
    all: split; [|assumption].
    all: first [ apply DP_assign; assumption | apply DP_label; assumption | apply DP_loop; assumption
               | apply DP_while; assumption | apply DP_goto; assumption | apply DP_if; assumption
               | apply DP_stop; assumption ].
  - rewrite pcall_fMOREP in H. repeat sstep IH.
    all: sprep.
    all: split; [first [apply DMP_none | apply DMP_more; assumption]|].
    all: try (rewrite HK; discriminate).
    all: let Q := fresh "Q" in intro Q; rewrite Q in *; discriminate.
  - rewrite pcall_fVALUE in H. repeat sstep IH.
    all: sprep.
    all: first [apply DV_id | apply DV_int | apply DV_run; assumption].
  - rewrite pcall_fVARGS in H. repeat sstep IH.
    all: sprep.
    all: first [apply DA_none | apply DA_some; assumption].
  - rewrite pcall_fMVARGS in H. repeat sstep IH.
    all: sprep.
    all: first [apply DM_none | apply DM_more; assumption].
  - rewrite pcall_fEEOS in H. repeat sstep IH.
    all: sprep.
    all: split; [first [reflexivity | let Q := fresh "Q" in intro Q; congruence]|].
    all: first [assumption | rewrite HK; reflexivity].
Qed.

(* ======================================================================================== *)
(* Part 2: completeness — a phrase in front of a correct follow token is consumed silently   *)
(* ======================================================================================== *)

Scheme DP_mind := Minimality for DP Sort Prop
  with DMoreP_mind := Minimality for DMoreP Sort Prop.
Combined Scheme DP_DMoreP_mind from DP_mind, DMoreP_mind.

(* a trailing `; P` can always be attached to the innermost statement *)
Lemma DP_app_closure :
  (forall p, DP p -> forall m, DMoreP m -> DP (p ++ m)) /\
  (forall m1, DMoreP m1 -> forall m, DMoreP m -> DMoreP (m1 ++ m)).
Proof.
  apply DP_DMoreP_mind.
  - intros v m V M IHm m0 M0. cbn [app]. rewrite <- app_assoc. apply (DP_assign v (m ++ m0)); auto.
  - intros p m P IHp M IHm m0 M0. cbn [app]. rewrite <- app_assoc. apply (DP_label p (m ++ m0)); auto.
  - intros b m B IHb M IHm m0 M0. cbn [app]. rewrite <- app_assoc. cbn [app]. apply (DP_loop b (m ++ m0)); auto.
  - intros b m B IHb M IHm m0 M0. cbn [app]. rewrite <- app_assoc. cbn [app]. apply (DP_while b (m ++ m0)); auto.
  - intros m M IHm m0 M0. cbn [app]. apply (DP_goto (m ++ m0)); auto.
  - intros m M IHm m0 M0. cbn [app]. apply (DP_if (m ++ m0)); auto.
  - intros m M IHm m0 M0. cbn [app]. apply (DP_stop (m ++ m0)); auto.
  - intros m0 M0. exact M0.
  - intros p P IHp m0 M0. cbn [app]. apply DMP_more. auto.
Qed.

Lemma DP_hd : forall w, DP w -> exists k w', w = k :: w' /\ is_stmt_start k = true.
Proof. intros w D. destruct D; cbn [app]; do 2 eexists; split; reflexivity. Qed.

Lemma DValue_hd : forall w, DValue w -> exists k w', w = k :: w' /\ is_value_start k = true.
Proof. intros w D. destruct D; cbn [app]; do 2 eexists; split; reflexivity. Qed.

Definition der (f : pfn) (w : list tkind) : Prop :=
  match f with
  | fS => DS w
  | fPORTS => DPorts w
  | fOPORTS => w = [] \/ w = [OUT; ID]
  | fARGS => DArgs w
  | fMARGS => w = [] \/ exists a, w = ARGSEP :: a /\ DArgs a
  | fP => DP w
  | fMOREP => DMoreP w
  | fVALUE => DValue w
  | fVARGS => DVargs w
  | fMVARGS => DMvargs w
  | fEEOS => w = []
  end.

(* what must come after the phrase for the parser's one-token decisions to come out right *)
Definition fol (f : pfn) (rest : list token) : Prop :=
  match f with
  | fVALUE => True
  | fVARGS | fMVARGS => hdk rest = END
  | fPORTS | fOPORTS => hdk rest = DO
  | fARGS | fMARGS => hdk rest = DO \/ hdk rest = OUT
  | fP | fMOREP | fEEOS => rest <> [] /\ (hdk rest = END \/ hdk rest = T_EOF)
  | fS => rest <> [] /\ hdk rest = T_EOF
  end.

Definition rnn (f : pfn) (r : option node) : Prop :=
  match f with fARGS | fVALUE => r <> None | _ => True end.

Ltac decomp :=
  repeat match goal with
         | H : map tk ?ts = [] |- _ => apply map_eq_nil in H; subst ts
         | H : map tk ?ts = _ :: _ |- _ =>
             let t := fresh "t" in let ts' := fresh "ts" in let K := fresh "K" in
             apply map_eq_cons in H; destruct H as (t & ts' & -> & K & H)
         | H : map tk ?ts = _ ++ _ |- _ =>
             let ta := fresh "ta" in let tb := fresh "tb" in let H1 := fresh "H" in
             apply map_eq_app in H; destruct H as (ta & tb & -> & H1 & H)
         end.

Ltac nsolve :=
  unfold need in *; cbn [hdk app] in *;
  repeat match goal with K : tk ?t = _ |- _ => rewrite K in * end;
  try match goal with |- context [rank ?g ?k] => pose proof (rank_le3 g k) end;
  cbn [rank is_stmt_start] in *;
  repeat (first [rewrite app_length in * | progress cbn [length] in *]); lia.

Ltac folsolve := cbn [fol hdk] in *; intuition (auto; try discriminate; try congruence).

Ltac ccall IH g tsub rsub dertac :=
  let r := fresh "r" in let E := fresh "E" in let NN := fresh "NN" in
  lazymatch goal with
  | |- context [pcall _ g (mkP ?l ?errs)] =>
      destruct (IH g l tsub rsub errs) as (r & E & NN);
      [ repeat (cbn [app]; rewrite <- ?app_assoc); reflexivity
      | nsolve
      | cbn [der]; dertac
      | folsolve
      | rewrite E; cbn [bind fst snd]; cbn [rnn] in NN ]
  end.

Ltac ccalla IH g :=
  lazymatch goal with
  | |- context [pcall _ g (mkP (?t :: ?a ++ ?b) _)] => ccall IH g (t :: a) b ltac:(assumption)
  | |- context [pcall _ g (mkP (?a ++ ?b) _)] => ccall IH g a b ltac:(assumption)
  end.

Ltac ccall0 IH g :=
  lazymatch goal with
  | |- context [pcall _ g (mkP ?l _)] =>
      ccall IH g (@nil token) l ltac:(first [apply DMP_none | reflexivity | left; reflexivity])
  end.

Ltac cstep :=
  match goal with
  | |- context [pmatch (mkP (?t :: ?l) ?e) ?k] =>
      rewrite (pmatch_hit t l e k) by (first [assumption | discriminate]); cbn [bind]
  | |- context [matchmk (mkP (?t :: ?l) ?e) ?k ?ty] =>
      rewrite (matchmk_hit t l e k ty) by (first [assumption | discriminate]); cbn [bind fst snd]
  | |- context [la (mkP (?t :: ?l) ?e)] =>
      rewrite (la_cons t l e);
      match goal with K : tk t = _ |- _ => rewrite K end; cbn [bind]
  end.

Ltac cfin := eexists; split; [reflexivity | cbn [rnn]; first [exact I | discriminate]].

(* invert a derivation of (map tk ts) into a decomposition of ts *)
Ltac dinv D :=
  match type of D with
  | _ (map tk ?ts) =>
      let w := fresh "w" in let EW := fresh "EW" in
      remember (map tk ts) as w eqn:EW; symmetry in EW; destruct D; cbn [app] in EW; decomp; subst
  end.

Ltac norm := repeat (cbn [app]; rewrite <- ?app_assoc).

Ltac nn :=
  match goal with NN : ?r <> None |- _ => destruct r; [clear NN|exfalso; apply NN; reflexivity] end;
  cbn [of_opt bind].

(* the base cases: nothing to consume, decide on the follow token *)
Ltac cbase F :=
  cbn [fol] in F;
  match goal with
  | |- context [mkP ([] ++ ?rest) _] =>
      destruct rest as [|t0 r0]; cbn [hdk] in F;
      [ exfalso; intuition (try discriminate; try congruence)
      | cbn [app];
        repeat match goal with
               | F' : _ /\ _ |- _ => destruct F' as (_ & F')
               end;
        try (destruct F as [F|F]); cstep; cbn [is_value_start]; cfin ]
  end.

Lemma pcall_complete : forall fuel f l ts rest errs,
  l = ts ++ rest -> need f l <= fuel -> der f (map tk ts) -> fol f rest ->
  exists r, pcall fuel f (mkP l errs) = Ok (r, mkP rest errs) /\ rnn f r.
Proof.
  induction fuel as [|fu IH]; intros f l ts rest errs EL NF D F.
  { unfold need in NF. lia. }
  subst l. destruct f; cbn [der] in D.
  - (* S *) rewrite pcall_fS. dinv D.
    + match goal with H : DP _ |- _ => destruct (DP_hd _ H) as (k & w' & EW & SS) end.
      decomp. subst w'. destruct k; try discriminate SS.
      all: norm; cstep. all: ccalla IH fP; cfin.
    + norm; repeat cstep. ccalla IH fPORTS. repeat cstep. ccalla IH fP. repeat cstep. ccalla IH fS. cfin.
  - (* PORTS *) rewrite pcall_fPORTS. dinv D.
    + cbase F.
    + norm; repeat cstep. ccalla IH fARGS. ccall0 IH fOPORTS. nn. cfin.
    + norm; repeat cstep. ccalla IH fARGS.
      match goal with |- context [pcall _ fOPORTS (mkP (?a :: ?b :: ?l) _)] =>
        ccall IH fOPORTS [a; b] l ltac:(right; cbn [map]; congruence) end.
      nn. cfin.
  - (* OPORTS *) rewrite pcall_fOPORTS. destruct D as [D|D]; decomp.
    + cbase F.
    + norm; repeat cstep. cfin.
  - (* ARGS *) rewrite pcall_fARGS. dinv D.
    + norm; repeat cstep. ccall0 IH fMARGS. cfin.
    + norm; repeat cstep.
      match goal with |- context [pcall _ fMARGS (mkP (?a :: ?b ++ ?l) _)] =>
        ccall IH fMARGS (a :: b) l
          ltac:(right; eexists; split;
                [cbn [map]; match goal with K : tk _ = ARGSEP |- _ => rewrite K end; reflexivity | assumption]) end.
      cfin.
  - (* MARGS *) rewrite pcall_fMARGS. destruct D as [D|(a & D & DA)]; decomp.
    + cbase F.
    + subst a. norm; repeat cstep. ccalla IH fARGS. cfin.
  - (* P *) rewrite pcall_fP. dinv D.
    + norm; repeat cstep. ccalla IH fVALUE. ccalla IH fMOREP. ccall0 IH fEEOS. cfin.
    + norm; repeat cstep.
      match goal with D1 : DP (map tk ?tp), D2 : DMoreP (map tk ?tm) |- _ =>
        ccall IH fP (tp ++ tm) rest ltac:(rewrite map_app; apply (proj1 DP_app_closure); assumption) end.
      ccall0 IH fMOREP. ccall0 IH fEEOS. cfin.
    + norm; repeat cstep. ccalla IH fP. repeat cstep. ccalla IH fMOREP. ccall0 IH fEEOS. cfin.
    + norm; repeat cstep. ccalla IH fP. repeat cstep. ccalla IH fMOREP. ccall0 IH fEEOS. cfin.
    + norm; repeat cstep. ccalla IH fMOREP. ccall0 IH fEEOS. cfin.
    + norm; repeat cstep. ccalla IH fMOREP. ccall0 IH fEEOS. cfin.
    + norm; repeat cstep. ccalla IH fMOREP. ccall0 IH fEEOS. cfin.
  - (* MOREP *) rewrite pcall_fMOREP. dinv D.
    + cbase F.
    + match goal with H : DP _ |- _ => destruct (DP_hd _ H) as (k & w' & EW & SS) end.
      decomp. subst w'. destruct k; try discriminate SS.
      all: norm; repeat cstep; ccalla IH fP; cfin.
  - (* VALUE *) rewrite pcall_fVALUE. dinv D.
    + norm; repeat cstep. cfin.
    + norm; repeat cstep. cfin.
    + norm; repeat cstep. ccalla IH fVARGS. repeat cstep. cfin.
  - (* VARGS *) rewrite pcall_fVARGS. dinv D.
    + cbase F.
    + match goal with H : DValue _ |- _ => destruct (DValue_hd _ H) as (k & w' & EW & SS) end.
      decomp. subst w'. destruct k; try discriminate SS.
      all: norm; cstep; cbn [is_value_start]; ccalla IH fVALUE; ccalla IH fMVARGS; nn; cfin.
  - (* MVARGS *) rewrite pcall_fMVARGS. dinv D.
    + cbase F.
    + norm; repeat cstep. ccalla IH fVALUE. ccalla IH fMVARGS. nn. cfin.
  - (* EEOS *) rewrite pcall_fEEOS. decomp. cbase F.
Qed.

(* ======================================================================================== *)
(* Part 3: the driver                                                                       *)
(* ======================================================================================== *)

Lemma excess_errs : forall n fuel s s', excess_loop n fuel s = Ok s' ->
  nerr s <= nerr s' /\ (p_rest s <> [] -> hdk (p_rest s) <> T_EOF -> nerr s < nerr s').
Proof.
  induction n as [|n IH]; intros fuel s s' H; [discriminate H|].
  cbn [excess_loop] in H.
  assert (HT : forall k, k <> T_EOF ->
            (do s1 <- perror s e_excess_input;
             do s2 <- pmatch s1 k;
             do k2 <- la s2;
             match k2 with
             | T_EOF => Ok s2
             | _ => do r <- pcall fuel fS s2; excess_loop n fuel (snd r)
             end) = Ok s' -> nerr s < nerr s').
  { intros k NE X.
    apply pp_bind_inv in X. destruct X as (s1 & E1 & X). apply perror_inv2 in E1. destruct E1 as (_ & E1).
    apply pp_bind_inv in X. destruct X as (s2 & E2 & X). apply pmatch_inv2 in E2; [|exact NE]. destruct E2 as (E2 & _).
    apply pp_bind_inv in X. destruct X as (k2 & _ & X).
    assert (Y : s' = s2 \/ (do r <- pcall fuel fS s2; excess_loop n fuel (snd r)) = Ok s').
    { destruct k2; first [left; inversion X; reflexivity | right; exact X]. }
    destruct Y as [->|Y]; [lia|].
    apply pp_bind_inv in Y. destruct Y as ((r0 & s3) & E3 & Y). cbn [snd] in Y.
    apply pcall_sound in E3. destruct E3 as (E3 & _).
    apply IH in Y. destruct Y as (Y & _). lia. }
  destruct (p_rest s) as [|t r] eqn:R.
  - inversion H; subst. split; [lia|]. intros X. exfalso. apply X. reflexivity.
  - cbn [hdk].
    destruct (tk t) eqn:K;
      [ inversion H; subst; split; [lia|]; intros _ X; exfalso; apply X; reflexivity
      | apply HT in H; [split; [lia|intros _ _; exact H] | discriminate] .. ].
Qed.

Lemma need_parse_fuel : forall toks, need fS toks <= parse_fuel toks.
Proof. intros toks. unfold need, parse_fuel. pose proof (rank_le3 fS (hdk toks)). lia. Qed.

Lemma body_good : forall body e, tk e = T_EOF -> Forall (fun t => tk t <> T_EOF) body -> good (body ++ [e]).
Proof.
  intros body e K FA. apply eofterm_good. exists body, e. auto.
Qed.

Lemma C04_parser_sound_proof : forall body e, tk e = T_EOF -> Forall (fun t => tk t <> T_EOF) body ->
  (exists root, parse_tokens (body ++ [e]) = Ok (root, [])) -> DS (map tk body).
Proof.
  intros body e KE FA (root & H). unfold parse_tokens in H.
  apply pp_bind_inv in H. destruct H as ((r & s1) & E & H).
  apply pp_bind_inv in H. destruct H as (s2 & E2 & H). cbn [fst snd] in *.
  assert (N2 : nerr s2 = 0) by (unfold nerr; inversion H as [[X1 X2]]; rewrite X2; reflexivity).
  destruct (pcall_ok (parse_fuel (body ++ [e])) fS (mkP (body ++ [e]) [])) as (r' & s1' & E' & G1 & _).
  { cbn [p_rest]. apply body_good; assumption. }
  { cbn [p_rest]. apply need_parse_fuel. }
  rewrite E in E'. inversion E'; subst r' s1'. clear E'.
  apply pcall_sound in E. destruct E as (M1 & C1).
  apply excess_errs in E2. destruct E2 as (M2 & C2).
  assert (N0 : nerr (mkP (body ++ [e]) []) = 0) by reflexivity.
  destruct C1 as (ts & R & SP); [lia|]. cbn [spec p_rest] in *.
  destruct (p_rest s1) as [|t rr] eqn:R1; [contradiction|].
  cbn [good] in G1. destruct G1 as [(KT & ->)|(KT & _)].
  - apply app_inj_tail in R. destruct R as (-> & _). exact SP.
  - exfalso. assert (nerr s1 < nerr s2); [|lia]. apply C2; [discriminate|exact KT].
Qed.

Lemma C04_parser_complete_proof : forall body e, tk e = T_EOF -> Forall (fun t => tk t <> T_EOF) body ->
  DS (map tk body) -> exists root, parse_tokens (body ++ [e]) = Ok (root, []).
Proof.
  intros body e KE FA D. unfold parse_tokens.
  destruct (pcall_complete (parse_fuel (body ++ [e])) fS (body ++ [e]) body [e] []) as (r & E & _).
  - reflexivity.
  - apply need_parse_fuel.
  - exact D.
  - cbn [fol hdk]. split; [discriminate|exact KE].
  - rewrite E. cbn [bind fst snd]. cbn [excess_loop p_rest]. rewrite KE. cbn [bind p_errs fst]. eauto.
Qed.

Lemma C04_parser_proof : C04_parser_stmt.
Proof.
  intros body e KE FA. split.
  - apply C04_parser_sound_proof; assumption.
  - apply C04_parser_complete_proof; assumption.
Qed.

Print Assumptions C04_parser_sound_proof.
Print Assumptions C04_parser_complete_proof.
Print Assumptions C04_parser_proof.
