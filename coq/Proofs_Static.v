(* Proofs_Static.v — C04_static: on the trees the parser delivers without a syntax error, code generation records
   no error exactly when the flattener of the reference semantics is defined (abstract_source succeeds).
   Helper developments: Proofs_Static0 (parser fills every value position), Proofs_Static1 (generator: labels and
   marks), Proofs_Static2 (flattener frames), Proofs_Static3 (values, parameters), Proofs_Static4 (the relation). *)
From Coq Require Import List ZArith NArith Lia Bool.
From Theo Require Import Base Tokens Errors MacroExtract Parser VMModel GenModel RefSem SpecGrammar CompileStatements AcceptStatements Proofs_Front Proofs_Gen0 Proofs_Gen Proofs_Sem.
From Theo Require Import Proofs_VM_dbg Proofs_Static0 Proofs_Static1 Proofs_Static2 Proofs_Static3 Proofs_Static4.
Import ListNotations.
Local Open Scope Z_scope.

Definition SimRes (g' : gstate) (o : option fstate) : Prop :=
  match o with
  | Some s' => if sok s' then g_errs g' = [] /\ Rel g' s' else g_errs g' <> []
  | None => g_errs g' <> []
  end.

Lemma SimRes_ok g' s' : sok s' = true -> g_errs g' = [] -> Rel g' s' -> SimRes g' (Some s').
Proof. intros K He R. unfold SimRes. rewrite K. auto. Qed.

Lemma SimRes_fail g' o : g_errs g' <> [] -> (forall s', o = Some s' -> sok s' = false) -> SimRes g' o.
Proof. intros He H. unfold SimRes. destruct o as [s'|]; auto. rewrite (H s' eq_refl). exact He. Qed.

Definition SS (n : node) : Prop := forall g g' s,
  full n = true -> Rel g s -> g_errs g = [] -> sok s = true ->
  dispatch_void false false false n g = Ok g' -> SimRes g' (flat_stmt n s).

Lemma dvo_frame o g g' : g_syms g <> [] -> dvo false false false o g = Ok g' ->
  Frame g g' /\ (g_errs g' = [] -> NewSet g g').
Proof.
  intros Hs H. destruct o as [n|]; cbn in H; [apply (dvoid_frame n); auto|].
  inversion H; subst. apply (FN_done _ _ _ (FN_refl _ Hs)). auto.
Qed.

Lemma fsub_sf o s s' : fsub o s = Some s' -> sframe s s'.
Proof. destruct o as [x|]; cbn; [apply flat_stmt_sframe | intros H; inversion H; subst; apply sframe_refl]. Qed.

Lemma sok_false_mono s s' : sframe s s' -> sok s = false -> sok s' = false.
Proof. intros F K. destruct (sok s') eqn:K'; auto. apply (sok_mono _ _ F) in K'. congruence. Qed.

Lemma ensure_errs g n g' l : ensure_mark g n = Ok (g', l) -> g_errs g' = g_errs g.
Proof.
  intros E. destruct (F_ensure _ _ _ _ E) as (_ & _ & [->|(_ & _ & _ & _ & He & _)]); auto.
Qed.

Ltac mono_from Hs l r :=
  let HF := fresh "HF" in
  pose proof (FN_refl _ Hs) as HF; repeat fn_step (dvo_frame l) (dvo_frame r);
  exact (fr_errs _ _ (proj1 HF)).

Lemma dargs_sim o g g' f tl :
  g_syms g = f :: tl -> g_errs g = [] -> NoDup (map vname (f_regs f)) ->
  dispatch_args false o g = Ok g' ->
  (NoDup (map vname (f_regs f) ++ oparams o) ->
     g_errs g' = [] /\ exists f', g_syms g' = f' :: tl /\ f_argnum f' = f_argnum f + zlen (oparams o)) /\
  (~ NoDup (map vname (f_regs f) ++ oparams o) -> g_errs g' <> []).
Proof.
  intros Es He Hnd H. destruct o as [n|]; cbn [dispatch_args oparams] in *.
  - destruct (da_sim n g g' f tl Es He Hnd H) as [D1 D2]. split; auto.
    intros Hx. destruct (D1 Hx) as (He' & f' & Es' & _ & Ha). split; auto. exists f'. auto.
  - inversion H; subst g'. rewrite app_nil_r. split; [|tauto]. intros _. split; auto.
    exists f. split; auto. cbn. lia.
Qed.

Lemma MRel_step g g' s s' : MRel g s -> marks_of g' = marks_of g ->
  (forall n id p, alookup str_ltb (marks_of g) n = Some id -> znth (g_labels g) id = Some p -> znth (g_labels g') id = Some p) ->
  b_labels (f_cur s') = b_labels (f_cur s) -> MRel g' s'.
Proof.
  intros [M1 M2 M3 M4] Hm Hl S3. constructor; rewrite ?Hm, ?S3; auto.
  intros n. specialize (M1 n). unfold mrel1 in *.
  destruct (alookup str_ltb (marks_of g) n) as [id|] eqn:El; destruct (lab_find (b_labels (f_cur s)) n) as [q|]; auto.
  destruct M1 as (p & Hz & Hp). exists p. split; auto. eapply Hl; eauto.
Qed.

Lemma stmt_sim : forall n, SS n.
Proof.
  induction n as [t line file tok l r IHl IHr] using Proofs_Gen0.node_ind'. intros g g' s Hfull R He Hsok H.
  destruct (full_inv _ _ _ _ _ _ Hfull) as (Hfl & Hfr & Hft).
  assert (OSl : forall g g' s, Rel g s -> g_errs g = [] -> sok s = true ->
                  dvo false false false l g = Ok g' -> SimRes g' (fsub l s)).
  { intros x y z Rx Ex Kx Hd. destruct l as [n|]; cbn in Hd, IHl, Hfl |- *; [eapply IHl; eauto|].
    inversion Hd; subst. apply SimRes_ok; auto. }
  assert (OSr : forall g g' s, Rel g s -> g_errs g = [] -> sok s = true ->
                  dvo false false false r g = Ok g' -> SimRes g' (fsub r s)).
  { intros x y z Rx Ex Kx Hd. destruct r as [n|]; cbn in Hd, IHr, Hfr |- *; [eapply IHr; eauto|].
    inversion Hd; subst. apply SimRes_ok; auto. }
  clear IHl IHr.
  rewrite flat_stmt_eq.
  pose proof (q_adv g line file) as Qa. pose proof (ss_move_to s file line) as Sa.
  set (ga := advance_line g line file) in *. set (s0 := move_to s file line) in *.
  assert (Ra : Rel ga s0) by (eapply Rel_quiet; eauto).
  assert (Hea : g_errs ga = []) by (rewrite (qu_errs _ _ Qa); exact He).
  assert (K0 : sok s0 = true) by (rewrite (sok_ssame _ _ Sa); exact Hsok).
  pose proof (Rel_syms _ _ Ra) as Hsa.
  clear R He Hsok.
  destruct (void_type t) eqn:Et.
  - destruct t; try discriminate.
    + (* SPLIT *)
      rewrite dvoid_split in H. fold ga in H. binv H. cbn [fs_body]. unfold fs_split.
      pose proof (OSl _ _ _ Ra Hea K0 H0) as S1.
      destruct (dvo_frame _ _ _ Hsa H0) as [F1 _].
      destruct (dvo_frame _ _ _ (Frame_syms _ _ F1) H) as [F2 _].
      destruct (fsub l s0) as [s1|] eqn:E1; cbn [SimRes] in S1.
      * destruct (sok s1) eqn:K1.
        -- destruct S1 as [He1 R1]. exact (OSr _ _ _ R1 He1 K1 H).
        -- apply SimRes_fail.
           ++ intros Hx. apply S1. apply (fr_errs _ _ F2 Hx).
           ++ intros s2 E2. eapply sok_false_mono; [eapply fsub_sf; eauto | exact K1].
      * intros Hx. apply S1. apply (fr_errs _ _ F2 Hx).
    + (* ASSIGN *)
      rewrite dvoid_assign in H. fold ga in H. binv H. subst l. cbn [fs_body]. unfold fs_assign. cbv zeta.
      destruct r as [rn|]; [|discriminate]. cbn [opt_value dispatch_value_opt] in *.
      set (s0' := with_cur s0 (mention (f_cur s0) (n_tok a))).
      assert (S0' : ssame s0 s0') by (apply ss_with_cur; bsimp; reflexivity).
      pose proof (q_fetch_variable _ _ _ _ H1) as Q1.
      pose proof (Rel_quiet _ _ _ _ Ra Q1 S0') as R1.
      assert (He1 : g_errs g0 = []) by (rewrite (qu_errs _ _ Q1); exact Hea).
      pose proof (value_sim rn z g0 g' s0' (rel_f _ _ R1) He1 H) as VS.
      destruct (flat_value rn s0') as [[s1 v]|] eqn:Ev; [|exact VS].
      pose proof (fv_same _ _ _ _ Ev) as Sv. pose proof (dv_calm _ _ _ _ H) as C.
      assert (Sf : ssame s0 (with_cur s1 (bemit (f_cur s1) (RAssign (n_tok a) v)))).
      { eapply ssame_trans; [exact S0'|]. eapply ssame_trans; [exact Sv|]. apply ss_with_cur; reflexivity. }
      apply SimRes_ok; [rewrite (sok_ssame _ _ Sf); exact K0 | exact VS |].
      eapply Rel_calm; [exact Ra | eapply calm_trans; [apply quiet_calm; exact Q1 | exact C] | exact Sf].
    + (* LOOP *)
      rewrite dvoid_loop in H. fold ga in H. cbv zeta in H. binv H.
      cbn [fs_body]. unfold fs_loop. cbv zeta.
      destruct l as [ln|]; [|discriminate]. cbn [opt_value dispatch_value_opt] in *.
      set (s0L := mkF (f_done s0) (f_names s0) (f_cur s0) (f_pos s0) (f_loops s0 + 1)).
      assert (S0L : ssame s0 s0L) by (constructor; reflexivity).
      assert (Q1 : quiet ga g0) by (eapply quiet_trans; [apply q_loops | eapply q_fetch_variable; eauto]).
      pose proof (Rel_quiet _ _ _ _ Ra Q1 S0L) as R1.
      assert (He1 : g_errs g0 = []) by (rewrite (qu_errs _ _ Q1); exact Hea).
      pose proof (value_sim ln z g0 a s0L (rel_f _ _ R1) He1 H1) as VS.
      pose proof (dv_calm _ _ _ _ H1) as C.
      assert (Hs2 : g_syms a <> []) by (apply (tops_nonempty _ _ (ca_tops _ _ C)), (Rel_syms _ _ R1)).
      assert (M : g_errs g' = [] -> g_errs a = []) by (mono_from Hs2 (Some ln) r).
      destruct (flat_value ln s0L) as [[s1 v]|] eqn:Ev; [|intros Hx; apply VS, M, Hx].
      pose proof (fv_same _ _ _ _ Ev) as Sv. pose proof (Rel_calm _ _ _ _ R1 C Sv) as R2.
      unfold new_target. cbv beta iota.
      match goal with |- context [fsub r ?x] => set (s1' := x) end.
      assert (S1' : ssame s1 s1') by (apply ss_with_cur; bsimp; reflexivity).
      pose proof (create_label_eq _ _ _ E) as [-> ->]. pose proof (create_label_eq _ _ _ E0) as [-> ->].
      cbn [g_labels upd_labels] in *. rewrite zlen_app in *. cbn [zlen length] in *.
      pose proof (Rel_create _ _ _ _ (Rel_create _ _ _ _ R2 E) E0) as R4.
      assert (R5 : Rel a0 s1).
      { eapply Rel_set_other; [exact R4 | exact H2 |]. intros n Hn.
        apply (mark_in_range a s1 n _ (rel_m _ _ R2)) in Hn. lia. }
      pose proof (Rel_quiet _ _ _ _ R5 (q_emit_bp a0 (IJmpC (zlen (g_labels a) + Z.of_nat 1) z)) S1') as R6.
      assert (He6 : g_errs (emit_backpatched a0 (IJmpC (zlen (g_labels a) + Z.of_nat 1) z)) = []).
      { cbn. rewrite (set_label_errs _ _ _ _ H2). cbn. exact VS. }
      assert (K1' : sok s1' = true).
      { rewrite (sok_ssame _ _ S1'), (sok_ssame _ _ Sv), (sok_ssame _ _ S0L). exact K0. }
      pose proof (OSr _ _ _ R6 He6 K1' H3) as SB.
      assert (Eg : g_errs g' = g_errs a1) by (rewrite (set_label_errs _ _ _ _ H); reflexivity).
      destruct (dvo_frame _ _ _ (Rel_syms _ _ R6) H3) as [FB _].
      destruct (fsub r s1') as [s2|] eqn:E2; cbn [SimRes] in SB; [|cbn [SimRes]; rewrite Eg; exact SB].
      match goal with |- SimRes _ (Some ?x) => set (s' := x) end.
      assert (Sf : ssame s2 s') by (apply ss_with_cur; bsimp; reflexivity).
      unfold SimRes. rewrite (sok_ssame _ _ Sf).
      destruct (sok s2) eqn:K2; [|rewrite Eg; exact SB].
      destruct SB as [He7 R7]. split; [rewrite Eg; exact He7|].
      eapply Rel_set_other; [|exact H|].
      * eapply Rel_quiet; [exact R7 | | exact Sf].
        eapply quiet_trans; [apply q_emit | apply q_emit_bp].
      * intros n Hn. change (alookup str_ltb (marks_of a1) n = Some (zlen (g_labels a) + Z.of_nat 1)) in Hn.
        apply (fr_fresh _ _ FB) in Hn. destruct Hn as [Hn|Hn].
        -- apply set_label_eq in H2. destruct H2 as (ls & Hu & ->).
           change (alookup str_ltb (marks_of a) n = Some (zlen (g_labels a) + Z.of_nat 1)) in Hn.
           apply (mark_in_range a s1 n _ (rel_m _ _ R2)) in Hn. lia.
        -- cbn in Hn. apply set_label_eq in H2. destruct H2 as (ls & Hu & ->). apply zupd_len in Hu. cbn in Hn.
           cbn [g_labels upd_labels] in Hu. rewrite !zlen_app in Hu. cbn in Hu. lia.
    + (* WHILE *)
      rewrite dvoid_while in H. fold ga in H. cbv zeta in H. binv H.
      cbn [fs_body]. unfold fs_while, new_target. cbv beta iota zeta.
      destruct l as [ln|]; [|discriminate]. cbn [opt_value dispatch_value_opt] in *.
      match goal with |- context [flat_value ln ?x] => set (sW := x) end.
      assert (SW : ssame s0 sW) by (apply ss_with_cur; bsimp; reflexivity).
      assert (Hrange : forall n id, alookup str_ltb (marks_of ga) n = Some id -> id < zlen (g_labels ga)).
      { intros n id Hn. apply (mark_in_range ga s0 n _ (rel_m _ _ Ra)) in Hn. lia. }
      pose proof (create_label_eq _ _ _ E) as [-> ->]. pose proof (create_label_eq _ _ _ E0) as [-> ->].
      pose proof (Rel_create _ _ _ _ (Rel_create _ _ _ _ Ra E) E0) as R1.
      set (gc := upd_labels (upd_labels ga (g_labels ga ++ [-1])) (g_labels (upd_labels ga (g_labels ga ++ [-1])) ++ [-1])) in *.
      assert (Lc : zlen (g_labels gc) = zlen (g_labels ga) + 2).
      { subst gc. cbn [g_labels upd_labels]. rewrite !zlen_app. cbn. lia. }
      cbn [g_labels upd_labels] in H1, H3, H4. rewrite zlen_app in H3, H4. cbn [zlen length] in H3, H4.
      pose proof (q_fetch_temporary _ _ _ H0) as Q2.
      pose proof (Rel_quiet _ _ _ _ R1 Q2 SW) as R2.
      assert (Lm2 : marks_of g2 = marks_of ga) by (rewrite (tops_marks _ _ (qu_tops _ _ Q2)); reflexivity).
      assert (R3 : Rel a sW).
      { eapply Rel_set_other; [exact R2 | exact H1 |]. intros n Hn. rewrite Lm2 in Hn. apply Hrange in Hn. lia. }
      assert (He3 : g_errs a = []).
      { rewrite (set_label_errs _ _ _ _ H1), (qu_errs _ _ Q2). exact Hea. }
      assert (La : zlen (g_labels a) = zlen (g_labels ga) + 2 /\ marks_of a = marks_of ga).
      { apply set_label_eq in H1. destruct H1 as (ls & Hu & ->). apply zupd_len in Hu. cbn [g_labels upd_labels].
        rewrite Hu, (qu_labels _ _ Q2). split; [exact Lc|]. exact Lm2. }
      destruct La as [La Lma].
      pose proof (value_sim ln z1 a a0 sW (rel_f _ _ R3) He3 H2) as VS.
      pose proof (dv_calm _ _ _ _ H2) as C.
      assert (Hs4 : g_syms a0 <> []) by (apply (tops_nonempty _ _ (ca_tops _ _ C)), (Rel_syms _ _ R3)).
      assert (Eg : g_errs g' = g_errs a1).
      { rewrite (qu_errs _ _ (q_release _ _ _ H)), (set_label_errs _ _ _ _ H4). reflexivity. }
      destruct (dvo_frame _ (emit_backpatched a0 (IJmpC (zlen (g_labels ga) + Z.of_nat 1) z1)) _ Hs4 H3) as [FB _].
      assert (M : g_errs g' = [] -> g_errs a0 = []) by (intros Hx; rewrite Eg in Hx; exact (fr_errs _ _ FB Hx)).
      destruct (flat_value ln sW) as [[s1 v]|] eqn:Ev; [|intros Hx; apply VS, M, Hx].
      pose proof (fv_same _ _ _ _ Ev) as Sv. pose proof (Rel_calm _ _ _ _ R3 C Sv) as R4.
      match goal with |- context [fsub r ?x] => set (s1' := x) end.
      assert (S1' : ssame s1 s1') by (apply ss_with_cur; bsimp; reflexivity).
      pose proof (Rel_quiet _ _ _ _ R4 (q_emit_bp a0 (IJmpC (zlen (g_labels ga) + Z.of_nat 1) z1)) S1') as R6.
      assert (K1' : sok s1' = true).
      { rewrite (sok_ssame _ _ S1'), (sok_ssame _ _ Sv), (sok_ssame _ _ SW). exact K0. }
      pose proof (OSr _ _ _ R6 VS K1' H3) as SB.
      destruct (fsub r s1') as [s2|] eqn:E2; cbn [SimRes] in SB; [|cbn [SimRes]; rewrite Eg; exact SB].
      match goal with |- SimRes _ (Some ?x) => set (s' := x) end.
      assert (Sf : ssame s2 s') by (apply ss_with_cur; bsimp; reflexivity).
      unfold SimRes. rewrite (sok_ssame _ _ Sf).
      destruct (sok s2) eqn:K2; [|rewrite Eg; exact SB].
      destruct SB as [He7 R7]. split; [rewrite Eg; exact He7|].
      eapply Rel_quiet; [|eapply q_release; exact H|exact Sf].
      eapply Rel_set_other; [|exact H4|].
      * eapply Rel_quiet; [exact R7 | apply q_emit_bp | apply ssame_refl].
      * intros n Hn. change (alookup str_ltb (marks_of a1) n = Some (zlen (g_labels ga) + Z.of_nat 1)) in Hn.
        apply (fr_fresh _ _ FB) in Hn. destruct Hn as [Hn|Hn].
        -- change (alookup str_ltb (marks_of a0) n = Some (zlen (g_labels ga) + Z.of_nat 1)) in Hn.
           rewrite (tops_marks _ _ (ca_tops _ _ C)), Lma in Hn. apply Hrange in Hn. lia.
        -- change (zlen (g_labels a0) <= zlen (g_labels ga) + Z.of_nat 1) in Hn.
           rewrite (ca_labels _ _ C), La in Hn. lia.
    + (* GOTO *)
      rewrite dvoid_goto in H. fold ga in H. binv H. subst l. inversion H; subst g'; clear H. cbn [fs_body].
      destruct (Rel_ensure_touch _ _ _ _ _ Ra H1) as [R1 He1].
      assert (Sf : ssame (with_cur s0 (touch_label (f_cur s0) (n_tok a)))
                         (with_cur s0 (bemit (touch_label (f_cur s0) (n_tok a)) (RGoto (n_tok a)))))
        by (constructor; reflexivity).
      apply SimRes_ok.
      * rewrite (sok_ssame _ _ Sf). exact K0.
      * cbn. congruence.
      * eapply Rel_quiet; [exact R1 | apply q_emit_bp | exact Sf].
    + (* IF *)
      rewrite dvoid_if in H. fold ga in H. cbv zeta in H. binv H. subst l r.
      destruct a as [t1 x1 y1 w1 oa ob]. destruct a2 as [t2 x2 y2 w2 ol2 or2]. cbn [n_left n_right] in *. subst ol2.
      destruct Hft as [Hoa Hob]. destruct oa as [an|]; [|discriminate]. destruct ob as [bn|]; [|discriminate].
      cbn [fs_body]. unfold fs_if. cbn [opt_value dispatch_value_opt] in *.
      assert (Q3 : quiet ga g2).
      { eapply quiet_trans; [eapply q_fetch_temporary; eauto|].
        eapply quiet_trans; eapply q_fetch_temporary; eauto. }
      pose proof (Rel_quiet _ _ _ _ Ra Q3 (ssame_refl s0)) as R3.
      assert (He3 : g_errs g2 = []) by (rewrite (qu_errs _ _ Q3); exact Hea).
      pose proof (value_sim an z0 g2 a0 s0 (rel_f _ _ R3) He3 H4) as VS1.
      pose proof (dv_calm _ _ _ _ H4) as C1. pose proof (dv_calm _ _ _ _ H5) as C2.
      assert (Eg : g_errs g' = g_errs a1).
      { rewrite (qu_errs _ _ (q_release _ _ _ H)), (qu_errs _ _ (q_release _ _ _ H10)), (qu_errs _ _ (q_release _ _ _ H9)).
        cbn. rewrite (ensure_errs _ _ _ _ H8). reflexivity. }
      destruct (flat_value an s0) as [[s1 va]|] eqn:Ev1.
      2:{ intros Hx. apply VS1. rewrite Eg in Hx. apply (ca_errs _ _ C2 Hx). }
      pose proof (fv_same _ _ _ _ Ev1) as Sv1. pose proof (Rel_calm _ _ _ _ R3 C1 Sv1) as R4.
      pose proof (value_sim bn z1 a0 a1 s1 (rel_f _ _ R4) VS1 H5) as VS2.
      destruct (flat_value bn s1) as [[s2 vb]|] eqn:Ev2.
      2:{ cbn [SimRes]. rewrite Eg. exact VS2. }
      pose proof (fv_same _ _ _ _ Ev2) as Sv2. pose proof (Rel_calm _ _ _ _ R4 C2 Sv2) as R5.
      pose proof (Rel_quiet _ _ _ _ R5 (q_emit a1 (ITest z z0 z1)) (ssame_refl s2)) as R6.
      destruct (Rel_ensure_touch _ _ _ _ _ R6 H8) as [R7 He7].
      match goal with |- SimRes _ (Some ?x) => set (s' := x) end.
      assert (Sf : ssame (with_cur s2 (touch_label (f_cur s2) (n_tok a3))) s') by (constructor; reflexivity).
      apply SimRes_ok.
      * rewrite (sok_ssame _ _ Sf). change (sok s2 = true).
        rewrite (sok_ssame _ _ Sv2), (sok_ssame _ _ Sv1). exact K0.
      * rewrite Eg. exact VS2.
      * eapply Rel_quiet; [exact R7 | | exact Sf].
        eapply quiet_trans; [apply q_emit_bp|].
        eapply quiet_trans; [eapply q_release; exact H9|].
        eapply quiet_trans; eapply q_release; eauto.
    + (* PROGRAM *)
      rewrite dvoid_program in H. fold ga in H. cbv zeta in H. binv H. subst l.
      destruct a0 as [t1 x1 y1 w1 ol ports]. cbn [n_left n_right] in *. subst ol.
      cbn [fs_body]. unfold fs_program. cbv zeta.
      set (params := match ports with Some (Node _ _ _ _ (Some a) _) => param_names a | _ => [] end).
      set (out := match ports with Some (Node _ _ _ _ _ (Some o)) => n_tok o | _ => [120%N; 48%N] end).
      set (outer := if last_is_site (f_cur s0) then _ else f_cur s0).
      set (b0 := fold_left mention params _).
      set (s1 := mkF (f_done s0) (f_names s0) b0 (f_pos s0) (f_loops s0)).
      assert (Hpar : oparams (match ports with Some p => n_left p | None => None end) = params).
      { subst params. destruct ports as [[? ? ? ? [?|] ?]|]; reflexivity. }
      pose proof (q_remove _ _ H0) as Q2.
      pose proof (create_label_eq _ _ _ E) as [-> ->].
      set (g3 := push_symbols (emit_backpatched (upd_labels a (g_labels a ++ [-1])) (IJmp (zlen (g_labels a)))) (n_tok a1)) in *.
      assert (Es3 : g_syms g3 = mkFGS (n_tok a1) [] 0 [] :: g_syms a) by reflexivity.
      assert (He3 : g_errs g3 = []) by (change (g_errs a = []); rewrite (qu_errs _ _ Q2); exact Hea).
      destruct (dargs_sim _ _ _ _ _ Es3 He3 (NoDup_nil _) H3) as [D1 D2]. cbn [f_regs map app f_argnum] in D1, D2.
      rewrite Hpar in D1, D2.
      assert (CA : calm_args g3 a2) by (eapply dargs_calm; [rewrite Es3; discriminate | exact H3]).
      destruct (dvo_frame _ _ _ (calm_args_syms _ _ CA) H4) as [FB _].
      assert (Q5 : quiet a3 (emit g1 (IRet z0))) by (eapply quiet_trans; [eapply q_fetch_variable; eauto | apply q_emit]).
      destruct (pop_spec _ _ _ H6) as (f7 & tl7 & e & p & Es7 & Es8 & L8 & E8 & Fu8 & Ap & _ & _ & Hex & Hiff).
      pose proof (set_label_eq _ _ _ _ H) as (ls & Hu & Eg').
      assert (Eg : g_errs g' = g_errs a3 ++ e).
      { rewrite Eg'. cbn. rewrite E8, (qu_errs _ _ Q5). reflexivity. }
      assert (Mt : g_errs g' = [] -> g_errs a3 = [] /\ e = [] /\ g_errs a2 = []).
      { intros Hx. rewrite Eg in Hx. apply app_eq_nil in Hx. destruct Hx as [Hx1 Hx2].
        split; auto. split; auto. apply (fr_errs _ _ FB Hx1). }
      destruct (no_dup params) eqn:Ep; cbn [negb].
      2:{ intros Hx. apply D2; [|apply Mt; exact Hx]. intros Hn. apply no_dup_spec in Hn. congruence. }
      apply no_dup_spec in Ep. destruct (D1 Ep) as (He4 & f4 & Es4 & Ha4).
      destruct CA as [_ CA2 CA3 (f3 & f4' & tl3 & Es3' & Es4' & Nm4 & Mk4)].
      rewrite Es3 in Es3'. inversion Es3'; subst f3 tl3; clear Es3'.
      rewrite Es4 in Es4'. inversion Es4'; subst f4'; clear Es4'. cbn in Nm4, Mk4.
      assert (Hm4 : marks_of a2 = []) by (unfold marks_of; rewrite Es4; exact Mk4).
      assert (R4 : Rel a2 s1).
      { constructor.
        - pose proof (rel_f _ _ Ra) as RF. unfold FRel' in *. cbn [f_names f_done s1].
          rewrite CA2. change (g_funcs g3) with (g_funcs a). rewrite (qu_funcs _ _ Q2). exact RF.
        - constructor; rewrite ?Hm4; cbn [f_cur s1]; subst b0; rewrite ?b_labels_fold_mention; cbn [b_labels].
          + intros n. exact I.
          + intros n1 n2 id Hx. discriminate Hx.
          + constructor.
          + constructor.
        - exists f4, (g_syms a). split; auto. cbn [f_cur s1]. subst b0. rewrite b_params_fold_mention. cbn [b_params].
          rewrite Ha4. lia. }
      assert (K1 : sok s1 = true) by exact K0.
      pose proof (OSr _ _ _ R4 He4 K1 H4) as SB.
      destruct (fsub r s1) as [s2|] eqn:E2; cbn [SimRes] in SB.
      2:{ cbn [SimRes]. intros Hx. apply SB. apply Mt. exact Hx. }
      match goal with |- SimRes _ (Some ?x) => set (s' := x) end.
      set (R := finish_routine (bemit (mention (f_cur s2) out) (RReturn out))) in *.
      assert (Ks : sok s' = sok s2 && forallb (fun e => 0 <=? snd e) (b_labels (f_cur s2))).
      { unfold sok. subst s'. cbn [f_done]. rewrite forallb_app. cbn [forallb]. rewrite andb_true_r.
        f_equal. subst R. unfold labels_set, finish_routine. cbn [r_labels bemit b_labels]. rewrite b_labels_mention. reflexivity. }
      unfold SimRes. rewrite Ks.
      destruct (sok s2) eqn:K2; cbn [andb].
      2:{ intros Hx. apply SB. apply Mt. exact Hx. }
      destruct SB as [He5 R5].
      pose proof (Rel_quiet _ _ _ _ R5 Q5 (ssame_refl s2)) as R7.
      pose proof (marks_set_iff _ _ (rel_m _ _ R7)) as MS.
      assert (Hm7 : marks_of (emit g1 (IRet z0)) = f_marks f7) by (unfold marks_of; rewrite Es7; reflexivity).
      rewrite Hm7 in MS.
      destruct (forallb (fun e => 0 <=? snd e) (b_labels (f_cur s2))) eqn:KL.
      2:{ intros Hx. destruct (Mt Hx) as (_ & He0 & _). pose proof (proj1 MS (proj1 Hiff He0)) as Hc. discriminate Hc. }
      assert (He0 : e = []) by (apply (proj2 Hiff), (proj2 MS); reflexivity).
      split; [rewrite Eg, He5, He0; reflexivity|].
      (* the stack below the popped table is the one we started from *)
      assert (Htl : tl7 = g_syms a /\ f_name f7 = n_tok a1).
      { destruct (fr_top _ _ FB) as (fa & fb & tla & Ea & Eb & Nb & _).
        rewrite Es4 in Ea. inversion Ea; subst fa tla; clear Ea.
        pose proof (qu_tops _ _ Q5) as Ht. unfold tops in Ht. rewrite Es7, Eb in Ht. inversion Ht. split; auto. congruence. }
      destruct Htl as [-> Nm7].
      destruct (rel_top _ _ Ra) as (fo & tlo & Eso & Hao).
      pose proof (qu_tops _ _ Q2) as Hta. unfold tops in Hta. rewrite Eso in Hta.
      destruct (g_syms a) as [|fo' tlo'] eqn:Esa; [discriminate|]. inversion Hta; subst tlo'.
      assert (Hma : marks_of a = marks_of ga) by (apply tops_marks; exact (qu_tops _ _ Q2)).
      assert (Hmg : marks_of g' = marks_of ga).
      { rewrite <- Hma. rewrite Eg'. unfold marks_of. cbn [g_syms upd_labels]. rewrite Es8, Esa. reflexivity. }
      constructor.
      * (* callable names *)
        pose proof (rel_f _ _ R5) as RF. unfold FRel' in *. rewrite Eg'. cbn [g_funcs upd_labels]. rewrite Fu8.
        change (g_funcs (emit g1 (IRet z0))) with (g_funcs g1). rewrite <- (qu_funcs _ _ Q5) in RF. cbn [g_funcs emit upd_code] in RF.
        subst s'. cbn [f_names f_done]. intros nm. rewrite str_lookup_insert, keqb_str_eqb, Nm7. cbn [lookup_name].
        destruct (str_eqb (n_tok a1) nm) eqn:En.
        -- exists R. split.
           ++ rewrite nth_error_app2 by lia. rewrite Nat.sub_diag. reflexivity.
           ++ rewrite Ap. destruct (rel_top _ _ R7) as (f7' & tl7' & Es7' & Ha7). rewrite Es7 in Es7'. inversion Es7'; subst f7' tl7'.
              rewrite Ha7. subst R. unfold finish_routine. cbn [r_params bemit b_params]. rewrite b_params_mention. reflexivity.
        -- specialize (RF nm).
           destruct (alookup str_ltb (g_funcs g1) nm) as [p'|]; destruct (lookup_name (f_names s2) nm) as [j|]; auto.
           destruct RF as (callee & Hn & Hc). exists callee. split; auto.
           rewrite nth_error_app1; auto. apply nth_error_Some. congruence.
      * (* marks of the outer routine *)
        eapply (MRel_step ga g' s0 s'); [exact (rel_m _ _ Ra) | exact Hmg | | subst s' outer; cbn [f_cur]; destruct (last_is_site (f_cur s0)); reflexivity].
        intros n id q Hid Hz.
        assert (Hr : id < zlen (g_labels ga)) by (apply (mark_in_range ga s0 n _ (rel_m _ _ Ra)) in Hid; lia).
        rewrite Eg'. cbn [g_labels upd_labels]. rewrite (znth_zupd _ _ _ _ Hu).
        rewrite <- (qu_labels _ _ Q2) in Hr, Hz.
        destruct (Z.eqb_spec id (zlen (g_labels a))) as [Hx|_]; [lia|].
        rewrite L8, (qu_labels _ _ Q5).
        apply (fr_keep _ _ FB).
        -- intros m. rewrite Hm4. discriminate.
        -- rewrite CA3. change (g_labels g3) with (g_labels a ++ [-1]). rewrite znth_app_l; auto.
      * (* the table on top *)
        exists fo', tlo. split.
        -- rewrite Eg'. cbn [g_syms upd_labels]. rewrite Es8. reflexivity.
        -- subst s' outer. cbn [f_cur]. destruct (last_is_site (f_cur s0)); cbn [b_params]; congruence.
    + (* MARK *)
      rewrite dvoid_mark in H. fold ga in H. binv H. subst l. cbn [fs_body].
      destruct (Rel_mark _ _ _ _ _ _ _ (mark_pos (f_cur s0)) Ra H1 H (mark_pos_ne _ _ H2) (mark_pos_nonneg _)) as [R1 He1].
      apply SimRes_ok; [exact K0 | congruence | exact R1].
    + (* STOP *)
      rewrite dvoid_stop in H. fold ga in H. inversion H; subst g'; clear H. cbn [fs_body].
      assert (Sf : ssame s0 (with_cur s0 (bemit (f_cur s0) RStop))) by (apply ss_with_cur; reflexivity).
      apply SimRes_ok; [rewrite (sok_ssame _ _ Sf); exact K0 | exact Hea |].
      eapply Rel_quiet; [exact Ra | apply q_emit | exact Sf].
  - rewrite dvoid_other in H by auto. fold ga in H. inversion H; subst g'.
    destruct t; try discriminate Et; cbn [fs_body SimRes]; apply err_ne.
Qed.

(* ---- the last phase adds no error when every label is placed ------------------------------------------- *)
Lemma bp_list_noerr todo : forall g g', backpatch_list g todo = Ok g' -> NoDup todo ->
  (forall loc, In loc todo -> exists ins, znth (g_code g) loc = Some ins /\ jmp_op (iop ins) /\
      exists p, znth (g_labels g) (ia ins) = Some p /\ p <> -1) ->
  g_errs g' = g_errs g.
Proof.
  induction todo as [|loc rest IH]; intros g g' H Hnd Hall; cbn [backpatch_list] in H.
  - inversion H; subst. reflexivity.
  - inversion Hnd as [|? ? Hni Hnd']; subst.
    destruct (Hall loc (or_introl eq_refl)) as (ins & Hz & Hj & p & Hp & Hpn).
    rewrite Hz in H. cbn [of_opt bind] in H.
    assert (HJ : (do tgt <- of_opt ub_index (znth (g_labels g) (ia ins));
                  let g1 := if tgt =? -1 then err g T_UNKNOWN_MARK e_backpatch_failed else g in
                  do c <- of_opt ub_index (zupd (g_code g1) loc (mkI (iop ins) (tgt - loc) (ib ins) (ic ins)));
                  backpatch_list (upd_code g1 c) rest) = Ok g' -> g_errs g' = g_errs g).
    { clear H. intros H. rewrite Hp in H. cbn [of_opt bind] in H. cbv zeta in H.
      destruct (Z.eqb_spec p (-1)) as [Hx|_]; [contradiction|].
      binv H. apply (IH (upd_code g a)) in H; auto.
      intros loc' Hl. destruct (Hall loc' (or_intror Hl)) as (ins' & Hz' & Hj' & Hp').
      exists ins'. split; [|split; auto]. cbn [g_code upd_code].
      rewrite (znth_zupd _ _ _ _ H0 loc'). destruct (Z.eqb_spec loc' loc) as [->|_]; [contradiction | exact Hz']. }
    destruct Hj as [Hj|Hj]; rewrite Hj in H, HJ; apply HJ; exact H.
Qed.

Lemma Rel_init : Rel ginit (mkF [] [] (mkB root_name [] [] [] [] []) (root_ctx_name, root_ctx_line) 0).
Proof.
  constructor.
  - intros nm. cbn. exact I.
  - constructor; cbn.
    + intros n. exact I.
    + intros n1 n2 id Hx. discriminate Hx.
    + constructor.
    + constructor.
  - eexists _, _. split; [reflexivity|]. reflexivity.
Qed.

Lemma C04_static_proof : C04_static_stmt.
Proof.
  intros toks root r Hp Hg.
  pose proof (C02_parser_shape_proof toks root Hp) as Hsh.
  pose proof (parser_full toks root Hp) as Hfull.
  unfold gen in Hg. apply gen_gen_inv in Hg.
  destruct Hg as (g3 & g4 & p & i0 & c0 & g6 & Hb & Hpop & Hlk & Hi0 & Hc0 & Hbp & ->).
  unfold gen_body in Hb. cbn [negb cfgen_now cg_neg cg_pb cg_args] in Hb.
  set (s_init := mkF [] [] (mkB root_name [] [] [] [] []) (root_ctx_name, root_ctx_line) 0).
  pose proof (stmt_sim root ginit g3 s_init Hfull Rel_init eq_refl eq_refl Hb) as Sim.
  assert (Hsi : g_syms ginit <> []) by (cbn; discriminate).
  destruct (dvoid_frame root ginit g3 Hsi Hb) as [_ NS].
  destruct (tot_dvoid root Hsh ginit T_ginit) as (g3' & Hb' & R3). rewrite Hb in Hb'. inversion Hb'; subst g3'; clear Hb'.
  pose proof (R_T _ _ R3) as T3.
  destruct (pop_spec _ _ _ Hpop) as (f3 & tl3 & e & pr & Es3 & Es4 & L4 & E4 & _ & _ & C4 & Td4 & Hex & Hiff).
  assert (Hm3 : marks_of g3 = f_marks f3) by (unfold marks_of; rewrite Es3; reflexivity).
  pose proof (backpatch_spec _ _ Hbp) as (_ & _ & _ & _ & Hbe). cbn [g_errs emit upd_code] in Hbe.
  cbn [gr_errors gen_result].
  unfold abstract_source. fold s_init.
  split.
  - (* no generator error -> the flattener succeeds *)
    intros He6. pose proof (Hbe He6) as He4. rewrite E4 in He4. apply app_eq_nil in He4. destruct He4 as [He3 He0].
    destruct (flat_stmt root s_init) as [s|]; cbn [SimRes] in Sim; [|contradiction].
    destruct (sok s) eqn:K; [|contradiction]. destruct Sim as [_ Rs].
    pose proof (marks_set_iff _ _ (rel_m _ _ Rs)) as MS. rewrite Hm3 in MS.
    pose proof (proj1 MS (proj1 Hiff He0)) as KL.
    cbv zeta. rewrite forallb_app. fold (sok s). rewrite K. cbn [forallb andb].
    unfold labels_set at 1. cbn [finish_routine r_labels bemit b_labels]. rewrite KL. cbn. eauto.
  - (* the flattener succeeds -> no generator error *)
    intros [rs Hrs].
    destruct (flat_stmt root s_init) as [s|]; [|discriminate]. cbv zeta in Hrs. cbn [SimRes] in Sim.
    rewrite forallb_app in Hrs. fold (sok s) in Hrs.
    destruct (sok s) eqn:K; [|discriminate]. cbn [forallb andb] in Hrs.
    unfold labels_set at 1 in Hrs. cbn [finish_routine r_labels bemit b_labels] in Hrs.
    destruct (forallb (fun e => 0 <=? snd e) (b_labels (f_cur s))) eqn:KL; [|discriminate].
    cbn [SimRes] in Sim. destruct Sim as [He3 Rs].
    pose proof (marks_set_iff _ _ (rel_m _ _ Rs)) as MS. rewrite Hm3 in MS.
    assert (He0 : e = []) by (apply (proj2 Hiff), (proj2 MS); exact KL).
    assert (He4 : g_errs g4 = []) by (rewrite E4, He3, He0; reflexivity).
    (* every label is placed *)
    assert (Hall : forall i q, znth (g_labels g3) i = Some q -> q <> -1).
    { intros i q Hz. pose proof (znth_some_range _ _ _ Hz) as Hr.
      destruct (NS He3 i) as [[]|[(q' & Hz' & Hq')|(n & Hn)]].
      - cbn. lia.
      - congruence.
      - rewrite Hm3 in Hn. apply str_alookup_in in Hn. apply (proj1 Hiff He0 n i q Hn Hz). }
    unfold backpatch in Hbp. apply bind_inv in Hbp. destruct Hbp as (g5' & Hbl & Hbp).
    inversion Hbp; subst g6; clear Hbp. cbn [g_errs upd_todo].
    rewrite (bp_list_noerr _ _ _ Hbl); [exact He4 | |].
    + cbn [g_todo emit upd_code]. rewrite Td4. apply (T_todo _ T3).
    + cbn [g_todo g_code g_labels emit upd_code]. rewrite Td4, L4. intros loc Hl.
      destruct (T_todo _ T3) as [_ D2]. destruct (D2 loc Hl) as (ins & Z1 & J & L).
      rewrite <- C4 in Z1.
      destruct (reach_code g3 (T_reach _ T3)) as (h & t & Ec & Hh). rewrite <- C4 in Ec.
      assert (Hz0 : znth (g_code g4) 0 = Some h) by (rewrite Ec; reflexivity).
      assert (Hne : loc <> 0).
      { intros ->. rewrite Hz0 in Z1. inversion Z1; subst ins. destruct J as [J|J]; rewrite J in Hh; discriminate. }
      exists ins. split; [|split; [exact J|]].
      * pose proof (znth_some_range _ _ _ Z1) as Hr.
        rewrite znth_app_l by (rewrite (zupd_len _ _ _ _ Hc0); apply Hr).
        rewrite (znth_zupd _ _ _ _ Hc0 loc). destruct (Z.eqb_spec loc 0); [contradiction | exact Z1].
      * destruct (znth_in_range (g_labels g3) (ia ins) L) as [q Hq]. exists q. split; auto. apply (Hall _ _ Hq).
Qed.

Print Assumptions C04_static_proof.
