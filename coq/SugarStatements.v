(* SugarStatements.v — C04, "after the built-in id+int / id-int sugar is applied": what macro application does on a
   source without user macro definitions, as a function (desugar), and the resulting characterisation of accepted
   sources; plus: no stream of the pipeline contains a token of kind UNKNOWN (the guard of the C09 completeness
   theorems). *)
From Theo Require Import Base Regex Tokens Errors Lexer Scan MacroExtract Grammar LR MacroApply Parser VMModel GenModel Compile RefSem
                         Gen_Lexer Gen_Consts SpecMacro CompileStatements ApplyStatements MacroStatements
                         ApplyCompleteStatements LocErrStatements.
Local Open Scope Z_scope.

(* the macros of the hidden standard-macro file, as the pipeline itself obtains them *)
Definition std_macros : list macrodef :=
  match scan Gen_Lexer.rules [(standards_name, standard_macros)] standards_name with
  | Ok (toks, _) => match extract_macros toks with Ok (_, _, ms) => ms | _ => [] end
  | _ => []
  end.

Definition plus_text : str := [43]%N.
Definition minus_text : str := [45]%N.

(* the macro whose pattern's operator token has this text *)
Definition macro_for (op : str) : option macrodef :=
  find (fun m => match m_rule m with [_; o; _] => str_eqb (ttext o) op | _ => false end) std_macros.

(* its body with $0 := a, $1 := c *)
Definition sugar_body (m : macrodef) (a c : token) : list token :=
  flat_map (fun t => match tk t with
                     | INSERTION => if strToIntSilent (tl (ttext t)) =? 0 then [a] else [c]
                     | _ => [t]
                     end) (m_repl m).

Definition is_sugar (a b c : token) : option macrodef :=
  match tk a, tk b, tk c with
  | ID, NV_ID, INT => macro_for (ttext b)
  | _, _, _ => None
  end.

(* every `id + int` / `id - int` replaced by the body of its macro, left to right *)
Fixpoint desugar (l : list token) : list token :=
  match l with
  | [] => []
  | a :: l' =>
      match l' with
      | b :: c :: rest =>
          match is_sugar a b c with
          | Some m => sugar_body m a c ++ desugar rest
          | None => a :: desugar l'
          end
      | _ => a :: desugar l'
      end
  end.

Fixpoint count_sugar (l : list token) : nat :=
  match l with
  | [] => O
  | a :: l' =>
      match l' with
      | b :: c :: rest =>
          match is_sugar a b c with
          | Some _ => S (count_sugar rest)
          | None => count_sugar l'
          end
      | _ => count_sugar l'
      end
  end.

(* the standard macros are the two documented ones (checked by computation: a change of the macro text shows here) *)
Definition C04_std_macros_stmt : Prop :=
  length std_macros = 2%nat /\
  (exists m, macro_for plus_text = Some m /\ map tk (m_rule m) = [ID_TEMP; NV_ID; INT_TEMP] /\
             map tk (m_repl m) = [RUN; ID; WITH; INSERTION; ARGSEP; INSERTION; END]) /\
  (exists m, macro_for minus_text = Some m /\ map tk (m_rule m) = [ID_TEMP; NV_ID; INT_TEMP] /\
             map tk (m_repl m) = [RUN; ID; WITH; INSERTION; ARGSEP; INSERTION; END]).

(* macro application with only the standard macros is desugar, whenever the budget suffices *)
Definition C04_sugar_stmt : Prop :=
  forall input passes errs out,
    eof_terminated input -> no_unknown input ->
    apply_macros input std_macros passes = Ok (errs, out) ->
    (count_sugar input < passes)%nat ->
    errs = [] /\ out = desugar input.

(* the whole first sentence of C04, for sources without user macro definitions and with fewer sugar uses than the
   pass budget: compilation succeeds exactly when scanning and extraction report nothing, the desugared stream parses
   without error (by C04_parser: is a sentence of the documented grammar) and the static rules hold (by C04_static:
   the reference flattening of the tree is defined) *)
Definition C04_accepts_stmt : Prop :=
  forall files main c toks serrs xerrs out,
    compile files main = Ok c ->
    scan Gen_Lexer.rules (seen_files files main) main = Ok (toks, serrs) ->
    extract_macros toks = Ok (xerrs, out, std_macros) ->
    (count_sugar out < N.to_nat macro_passes)%nat ->
    (cr_ok c = true <->
       serrs = [] /\ xerrs = [] /\
       exists root, parse_tokens (desugar out) = Ok (root, []) /\
                    match root with Some n => exists rs, abstract_source (Some n) = Some rs | None => True end).

(* ---- no token of kind UNKNOWN anywhere in the pipeline ---- *)
Definition C14_no_unknown_scan_stmt : Prop :=
  forall files main toks errs, scan Gen_Lexer.rules files main = Ok (toks, errs) -> no_unknown toks.

Definition C09_no_unknown_extract_stmt : Prop :=
  forall toks errs out macros, no_unknown toks -> extract_macros toks = Ok (errs, out, macros) ->
    no_unknown out /\ Forall (fun m => no_unknown (m_rule m) /\ no_unknown (m_repl m)) macros.

Definition C09_no_unknown_apply_stmt : Prop :=
  forall input defs passes errs out,
    no_unknown input -> Forall (fun m => no_unknown (m_repl m)) defs ->
    apply_macros input defs passes = Ok (errs, out) -> no_unknown out.
