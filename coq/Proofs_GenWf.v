(* Proofs_GenWf.v — C03_gen_wf: every program the generator emits for an accepted source carries an annotation
   under which the bytecode verifier's soundness argument applies, and its calls go to earlier routines.
   Nothing is assumed. *)
From Coq Require Import List ZArith NArith Lia Bool.
From Theo Require Import Base Tokens Errors MacroExtract Parser VMModel VMSpec VMStatements VMCheck VMCheckStatements GenModel CompileStatements Proofs_VM_mem Proofs_VM_dbg Proofs_VMCheck Proofs_Front Proofs_Gen0 Proofs_Gen Proofs_Static0 Proofs_Static1 GenWfStatements Proofs_GenWf0 Proofs_GenWf1.
Import ListNotations.
Local Open Scope Z_scope.

(* ================================================================================================ *)
(* 1. the parser puts routine definitions at the top level only                                     *)
(* ================================================================================================ *)
Definition otopok (o : option node) : bool := match o with None => true | Some x => topok x end.

Definition tpost (f : pfn) (r : option node) : Prop :=
  match f with
  | fS => otopok r = true
  | fEEOS => True
  | _ => onoprog noprog r = true
  end.

Lemma matchmk_node s k ty n s' : matchmk s k ty = Ok (n, s') -> exists a b c, n = Node ty a b c None None.
Proof.
  unfold matchmk. intros H.
  apply pp_bind_inv in H. destruct H as (t & _ & H).
  apply pp_bind_inv in H. destruct H as (s1 & _ & H).
  inversion H; subst. eauto.
Qed.

Lemma noprog_topok n : noprog n = true -> topok n = true.
Proof. intros H. destruct n as [t a b c l r]. cbn [topok]. fold (noprog (Node t a b c l r)). rewrite H. reflexivity. Qed.

Lemma onoprog_otopok r : onoprog noprog r = true -> otopok r = true.
Proof. destruct r as [n|]; cbn; [apply noprog_topok | auto]. Qed.

Ltac pfin :=
  try (apply onoprog_otopok; assumption);
  repeat match goal with o : option node |- _ => destruct o end;
  cbn [tpost otopok onoprog topok noprog mk n_line n_file andb orb fst snd] in *;
  repeat match goal with
         | Hf : noprog _ = true |- _ => rewrite ?Hf; clear Hf
         | Hf : topok _ = true |- _ => rewrite ?Hf; clear Hf
         end;
  cbn [andb orb]; try reflexivity; try exact I.

Ltac pstep IH :=
  match goal with
  | H : bind (bind _ _) _ = Ok _ |- _ => rewrite pp_bind_assoc in H; cbv beta in H
  | H : bind (Ok _) _ = Ok _ |- _ => cbn [bind] in H; cbv beta iota in H
  | H : bind (la _) _ = Ok _ |- _ =>
      let k := fresh "k" in
      apply pp_bind_inv in H; destruct H as (k & _ & H); destruct k; cbv beta iota in H
  | H : bind (perror ?si _) _ = Ok _ |- _ =>
      let s1 := fresh "s" in apply pp_bind_inv in H; destruct H as (s1 & _ & H)
  | H : bind (pmatch ?si _) _ = Ok _ |- _ =>
      let s1 := fresh "s" in apply pp_bind_inv in H; destruct H as (s1 & _ & H)
  | H : bind (matchmk ?si _ _) _ = Ok _ |- _ =>
      let n1 := fresh "n" in let s1 := fresh "s" in let E := fresh "E" in
      apply pp_bind_inv in H; destruct H as ((n1 & s1) & E & H); apply matchmk_node in E;
      destruct E as (? & ? & ? & ->); cbn [fst snd] in H; cbv beta iota in H
  | H : bind (pcall _ ?g ?si) _ = Ok _ |- _ =>
      let r1 := fresh "r" in let s1 := fresh "s" in let E := fresh "E" in
      apply pp_bind_inv in H; destruct H as ((r1 & s1) & E & H); apply IH in E; cbn [tpost] in E;
      cbn [fst snd] in H; cbv beta iota in H
  | H : (if is_value_start _ then _ else _) = Ok _ |- _ => cbn [is_value_start] in H
  | H : match ?v with _ => _ end = Ok _ |- _ => is_var v; destruct v
  | H : bind (of_opt _ ?o) _ = Ok _ |- _ =>
      let a := fresh "a" in let E := fresh "E" in
      apply pp_bind_inv in H; destruct H as (a & E & H); apply pp_of_opt_inv in E; subst o
  | H : pcall _ ?g ?si = Ok (_, _) |- _ => apply IH in H; cbn [tpost] in H; pfin
  | H : Ok _ = Ok (_, _) |- _ => inversion H; subst; clear H; pfin
  end.

Lemma pcall_top : forall fuel f s r s', pcall fuel f s = Ok (r, s') -> tpost f r.
Proof.
  induction fuel as [|fu IH]; intros f s r s' H; [discriminate H|].
  destruct f.
  - rewrite pcall_fS in H. repeat pstep IH.
  - rewrite pcall_fPORTS in H. repeat pstep IH.
  - rewrite pcall_fOPORTS in H. repeat pstep IH.
  - rewrite pcall_fARGS in H. repeat pstep IH.
  - rewrite pcall_fMARGS in H. repeat pstep IH.
  - rewrite pcall_fP in H. repeat pstep IH.
  - rewrite pcall_fMOREP in H. repeat pstep IH.
  - rewrite pcall_fVALUE in H. repeat pstep IH.
  - rewrite pcall_fVARGS in H. repeat pstep IH.
  - rewrite pcall_fMVARGS in H. repeat pstep IH.
  - exact I.
Qed.

Lemma parser_top toks root errs : parse_tokens toks = Ok (Some root, errs) -> topok root = true.
Proof.
  unfold parse_tokens. intros H.
  apply pp_bind_inv in H. destruct H as ((r & s1) & E & H).
  apply pp_bind_inv in H. destruct H as (s2 & _ & H).
  cbn [fst snd] in H. inversion H; subst. apply pcall_top in E. exact E.
Qed.

(* ================================================================================================ *)
(* 2. the initial state                                                                             *)
(* ================================================================================================ *)
Definition gh_init : ghost := mkGh (fun _ => 0) (fun _ => None) (fun _ => 0) [0] [].

Lemma inv_ginit : Inv None ginit gh_init.
Proof.
  constructor; unfold gh_init, cur, next_pos, sizes, ginit; cbn; try reflexivity.
  - eexists. split; reflexivity.
  - auto.
  - intros pc i Hpc Hz. exfalso. apply (znth_snoc_inv []) in Hz. destruct Hz as [[Hl _]|[Hl _]]; cbn in Hl; lia.
  - intros e s [].
  - constructor.
  - left. reflexivity.
  - constructor; [|constructor]. split; [cbn; unfold fsize; cbn; lia | intros n l []].
  - intros l p Hz. apply znth_some_range in Hz. cbn in Hz. lia.
  - split; [constructor | intros loc []].
  - intros nm p Hp. discriminate Hp.
Qed.

Lemma clean_ginit : Clean ginit.
Proof. right. intros l p Hz. apply znth_some_range in Hz. cbn in Hz. lia. Qed.

(* ================================================================================================ *)
(* 3. backpatching                                                                                  *)
(* ================================================================================================ *)
Lemma bp_list_spec todo : forall g g', backpatch_list g todo = Ok g' -> NoDup todo ->
  (forall loc, In loc todo -> exists i, znth (g_code g) loc = Some i /\ is_jmp i) ->
  g_labels g' = g_labels g /\ g_maps g' = g_maps g /\ g_pb g' = g_pb g /\ g_li g' = g_li g /\
  zlen (g_code g') = zlen (g_code g) /\
  (g_errs g' = [] -> g_errs g = []) /\
  forall pc i, znth (g_code g) pc = Some i ->
    (~ In pc todo -> znth (g_code g') pc = Some i) /\
    (In pc todo -> exists t, znth (g_labels g) (ia i) = Some t /\ (g_errs g' = [] -> t <> -1) /\
                   znth (g_code g') pc = Some (mkI (iop i) (t - pc) (ib i) (ic i))).
Proof.
  induction todo as [|loc rest IH]; intros g g' H Hnd Hall; cbn [backpatch_list] in H.
  - inversion H; subst. repeat (split; [reflexivity|]). split; [auto|]. intros pc i Hz. split; [auto | intros []].
  - inversion Hnd as [|? ? Hni Hnd']; subst.
    destruct (Hall loc (or_introl eq_refl)) as (ins & Hz & Hj). rewrite Hz in H. cbn [of_opt bind] in H.
    assert (HJ : (do tgt <- of_opt ub_index (znth (g_labels g) (ia ins));
                  let g1 := if tgt =? -1 then err g T_UNKNOWN_MARK e_backpatch_failed else g in
                  do c <- of_opt ub_index (zupd (g_code g1) loc (mkI (iop ins) (tgt - loc) (ib ins) (ic ins)));
                  backpatch_list (upd_code g1 c) rest) = Ok g').
    { cbv zeta. destruct Hj as [Hj|Hj]; rewrite Hj in H; rewrite Hj; exact H. }
    clear H. cbv zeta in HJ. binv HJ. rename a into tgt. rename a0 into c.
    set (g1 := if tgt =? -1 then err g T_UNKNOWN_MARK e_backpatch_failed else g) in *.
    assert (Ec : g_code g1 = g_code g) by (subst g1; destruct (tgt =? -1); reflexivity).
    assert (El : g_labels g1 = g_labels g) by (subst g1; destruct (tgt =? -1); reflexivity).
    assert (Em : g_maps g1 = g_maps g) by (subst g1; destruct (tgt =? -1); reflexivity).
    assert (Epb : g_pb g1 = g_pb g) by (subst g1; destruct (tgt =? -1); reflexivity).
    assert (Eli : g_li g1 = g_li g) by (subst g1; destruct (tgt =? -1); reflexivity).
    assert (Ee : g_errs g1 = [] -> g_errs g = [] /\ tgt <> -1).
    { subst g1. destruct (Z.eqb_spec tgt (-1)); [|auto]. cbn. intros Hx. destruct (g_errs g); discriminate. }
    match goal with Hx : zupd _ loc _ = Some c |- _ => rename Hx into Hu end.
    rewrite Ec in Hu. pose proof (znth_zupd _ _ _ _ Hu) as Hzc. pose proof (zupd_len _ _ _ _ Hu) as Hlc.
    destruct (IH (upd_code g1 c) g' HJ Hnd') as (R1 & R2 & R3 & R4 & R5 & R6 & R7).
    { intros loc' Hl. destruct (Hall loc' (or_intror Hl)) as (i' & Hz' & Hj'). exists i'. split; [|exact Hj'].
      cbn [g_code upd_code]. rewrite Hzc. destruct (Z.eqb_spec loc' loc) as [->|_]; [contradiction | exact Hz']. }
    cbn [g_code g_labels g_maps g_pb g_li g_errs upd_code] in *.
    split; [congruence|]. split; [congruence|]. split; [congruence|]. split; [congruence|]. split; [congruence|].
    split; [intros Hx; apply Ee, R6, Hx|].
    intros pc i Hzi. destruct (Z.eq_dec pc loc) as [->|Hne].
    + rewrite Hz in Hzi. inversion Hzi; subst i; clear Hzi.
      assert (Hzl : znth c loc = Some (mkI (iop ins) (tgt - loc) (ib ins) (ic ins))) by (rewrite Hzc, Z.eqb_refl; reflexivity).
      destruct (R7 _ _ Hzl) as [K1 _]. split; [intros Hn; exfalso; apply Hn; left; reflexivity|].
      intros _. exists tgt. split; [assumption|]. split; [intros Hx; apply Ee, R6, Hx | apply K1; exact Hni].
    + assert (Hzl : znth c pc = Some i) by (rewrite Hzc; destruct (Z.eqb_spec pc loc); [contradiction | exact Hzi]).
      destruct (R7 _ _ Hzl) as [K1 K2]. split.
      * intros Hn. apply K1. intros Hi. apply Hn. right. exact Hi.
      * intros [Hi|Hi]; [congruence|]. destruct (K2 Hi) as (t & T1 & T2 & T3). exists t. rewrite El in T1. auto.
Qed.

(* ================================================================================================ *)
(* 4. frame sizes and the annotation                                                                *)
(* ================================================================================================ *)
Fixpoint fsz (l : list (Z * Z)) (o : Z) : Z :=
  match l with [] => 0 | (k, v) :: t => if k =? o then v else fsz t o end.

Lemma fsz_in l o s : NoDup (map fst l) -> In (o, s) l -> fsz l o = s.
Proof.
  induction l as [|[k v] t IH]; cbn [map fst fsz In]; intros Hnd Hi; [destruct Hi|].
  inversion Hnd as [|? ? Hni Hnd']; subst. destruct Hi as [Hi|Hi].
  - inversion Hi; subst. rewrite Z.eqb_refl. reflexivity.
  - destruct (Z.eqb_spec k o) as [->|_]; [|apply IH; auto].
    exfalso. apply Hni. apply in_map_iff. exists (o, s). split; auto.
Qed.

Definition zseq (k : nat) : list Z := map Z.of_nat (seq 0 k).

Lemma znth_zseq {A} (f : Z -> A) k i : 0 <= i < Z.of_nat k -> znth (map f (zseq k)) i = Some (f i).
Proof.
  intros H. unfold znth, zseq. destruct (Z.ltb_spec i 0); [lia|].
  rewrite map_map. rewrite nth_error_map. rewrite nth_error_nth' with (d := O) by (rewrite seq_length; lia).
  rewrite seq_nth by lia. cbn. f_equal. f_equal. lia.
Qed.

Lemma zlen_zseq {A} (f : Z -> A) k : zlen (map f (zseq k)) = Z.of_nat k.
Proof. unfold zlen, zseq. rewrite !map_length, seq_length. reflexivity. Qed.

Definition mkann (gh : ghost) (F : Z -> Z) (k : nat) : anns :=
  map (fun pc => if pc =? 0 then None else Some (mkAnn (own gh pc) (F (own gh pc)) (pnd gh pc))) (zseq k).

Lemma ann_at_mkann gh F k pc a : ann_at (mkann gh F k) pc = Some a ->
  1 <= pc < Z.of_nat k /\ a = mkAnn (own gh pc) (F (own gh pc)) (pnd gh pc).
Proof.
  unfold ann_at. destruct (znth (mkann gh F k) pc) as [[a'|]|] eqn:E; try discriminate. intros H; inversion H; subst a'.
  pose proof (znth_some_range _ _ _ E) as Hr. unfold mkann in Hr. rewrite zlen_zseq in Hr.
  unfold mkann in E. rewrite znth_zseq in E by exact Hr. destruct (Z.eqb_spec pc 0); [discriminate|].
  inversion E. split; [lia | reflexivity].
Qed.

Lemma mkann_at gh F k pc : 1 <= pc < Z.of_nat k ->
  ann_at (mkann gh F k) pc = Some (mkAnn (own gh pc) (F (own gh pc)) (pnd gh pc)).
Proof.
  intros H. unfold ann_at, mkann. rewrite znth_zseq by lia. destruct (Z.eqb_spec pc 0); [lia | reflexivity].
Qed.

Lemma mkann_zero gh F k : ann_at (mkann gh F k) 0 = None.
Proof.
  unfold ann_at. destruct (znth (mkann gh F k) 0) as [[a|]|] eqn:E; try reflexivity.
  pose proof (znth_some_range _ _ _ E) as Hr. unfold mkann in Hr, E. rewrite zlen_zseq in Hr.
  rewrite znth_zseq in E by exact Hr. cbn in E. discriminate.
Qed.

(* ================================================================================================ *)
(* 5. the theorem                                                                                   *)
(* ================================================================================================ *)
Lemma root_ok_intro p i rest f : code p = i :: rest -> iop i = PREPARE_EXEC -> 0 <= ia i -> ia i = f ->
  map_ok p (ib i) (ia i) = true -> root_ok p = Some f.
Proof.
  intros Ec Ho Hge Hf Hm. unfold root_ok. rewrite Ec, Ho, Hm.
  destruct (Z.leb_spec 0 (ia i)); [cbn; congruence | lia].
Qed.

Lemma znth0_cons {A} (l : list A) x : znth l 0 = Some x -> exists rest, l = x :: rest.
Proof. destruct l as [|y t]; cbn; [discriminate|]. intros H. inversion H. eauto. Qed.

Lemma classic_jmp i : is_jmp i \/ ~ is_jmp i.
Proof. unfold is_jmp. destruct (iop i); auto; right; intros [H|H]; discriminate H. Qed.

Lemma C03_gen_wf_proof : C03_gen_wf_stmt.
Proof.
  intros toks root r Hp Hg Hok.
  pose proof (C02_parser_shape_proof toks root Hp) as Hsh.
  pose proof (parser_top toks root [] Hp) as Htop.
  unfold gen in Hg. apply gen_gen_inv in Hg.
  destruct Hg as (g3 & g4 & p & i0 & c0 & g6 & Hb & Hpop & Hlk & Hi0 & Hc0 & Hbp & ->).
  unfold gen_body in Hb. cbn [negb cfgen_now cg_neg cg_pb cg_args] in Hb.
  destruct (p_top root Htop ginit g3 gh_init inv_ginit eq_refl clean_ginit Hb) as (gh & I3 & O3).
  (* the name of the root table *)
  destruct (tot_dvoid root Hsh ginit T_ginit) as (g3' & Hb' & R3). rewrite Hb in Hb'. inversion Hb'; subst g3'; clear Hb'.
  destruct R3 as [_ _ (f0' & f3 & tl0 & S0 & S3 & Hn & _)]. cbn in S0. inversion S0; subst f0' tl0; clear S0. cbn in Hn.
  destruct (inv_shape _ _ _ I3) as [(_ & f0 & Es & T0 & Ez)|(r' & f & f0 & E' & _)]; [|congruence].
  rewrite Es in S3. inversion S3; subst f3; clear S3.
  (* leaving the root table *)
  unfold pop_symbols in Hpop. binv Hpop. inversion Hpop; subst g4; clear Hpop.
  match goal with Hh : hd_error (g_syms g3) = Some _ |- _ => rewrite Es in Hh; cbn in Hh; inversion Hh; subst a; clear Hh end.
  match goal with Hm : check_marks _ _ = Ok _ |- _ => apply check_marks_errs in Hm; destruct Hm as [e ->] end.
  cbn [g_code g_maps g_pb g_li g_errs g_syms g_funcs g_labels g_todo upd_errs] in *.
  set (sm0 := mkSM (f_name f0) (stack_map_of (f_regs f0) 0)) in *.
  set (s0 := zlen (f_regs f0)) in *.
  assert (Hmi : zlen (g_maps g3 ++ [sm0]) - 1 = zlen (g_maps g3)) by (rewrite zlen_app; cbn; lia).
  rewrite Hmi in *.
  rewrite str_lookup_insert in Hlk. rewrite Hn in Hlk. rewrite (proj2 (str_keqb_eq _ _) eq_refl) in Hlk.
  inversion Hlk; subst p; clear Hlk. cbn [p_stack_size p_mi] in *.
  (* the code *)
  set (n := zlen (g_code g3)).
  pose proof (next_pos_ge1 _ _ _ I3) as Hn1. unfold next_pos in Hn1. fold n in Hn1.
  destruct (iv_c0 _ _ _ I3) as (i0' & Hz0 & Ho0). rewrite Hi0 in Hz0. inversion Hz0; subst i0'; clear Hz0.
  pose proof (znth_zupd _ _ _ _ Hc0) as Hzc0. pose proof (zupd_len _ _ _ _ Hc0) as Hlc0. fold n in Hlc0.
  unfold backpatch in Hbp. binv Hbp. inversion Hbp; subst g6; clear Hbp. rename a into g5'.
  match goal with Hx : backpatch_list _ _ = Ok g5' |- _ => rename Hx into Hbl end.
  cbn [g_todo emit upd_code] in Hbl.
  destruct (iv_todo _ _ _ I3) as [Tnd Tall].
  destruct (bp_list_spec _ _ _ Hbl Tnd) as (B1 & B2 & B3 & B4 & B5 & B6 & B7).
  { intros loc Hl. destruct (Tall loc Hl) as (i & Hz & Hj & Hl1 & _). exists i. split; [|exact Hj].
    cbn [g_code emit upd_code]. pose proof (znth_some_range _ _ _ Hz) as Hr. fold n in Hr.
    rewrite znth_app_l by lia. rewrite Hzc0. destruct (Z.eqb_spec loc 0); [lia | exact Hz]. }
  cbn [g_code g_maps g_pb g_li g_errs g_labels emit upd_code] in B1, B2, B3, B4, B5, B6, B7.
  cbn [gen_result gr_ok gr_prog g_code g_maps g_pb g_li g_errs upd_todo] in *.
  assert (He6 : g_errs g5' = []) by (destruct (g_errs g5'); [reflexivity | discriminate Hok]).
  set (P := mkProg (g_code g5') (g_maps g5') (g_pb g5') (g_li g5')).
  assert (Hlen6 : zlen (g_code g5') = n + 1) by (rewrite B5, zlen_app, Hlc0; reflexivity).
  assert (Hc5 : forall pc i3, 1 <= pc -> znth (g_code g3) pc = Some i3 -> znth (c0 ++ [IHalt]) pc = Some i3).
  { intros pc i3 Hpc Hz. pose proof (znth_some_range _ _ _ Hz) as Hr. fold n in Hr.
    rewrite znth_app_l by lia. rewrite Hzc0. destruct (Z.eqb_spec pc 0); [lia | exact Hz]. }
  assert (Hc5n : znth (c0 ++ [IHalt]) n = Some IHalt) by (rewrite <- Hlc0; apply znth_app_last).
  assert (Hc50 : znth (c0 ++ [IHalt]) 0 = Some (mkI (iop i0) s0 (zlen (g_maps g3)) (ic i0))).
  { rewrite znth_app_l by lia. rewrite Hzc0. reflexivity. }
  assert (Hmle : maps_le (pm (g_maps g3)) P).
  { intros idx c Hm. apply (maps_le_app (g_maps g3) [sm0]) in Hm.
    unfold map_ok in *. unfold P. cbn [stack_maps pm] in *. rewrite B2. exact Hm. }
  (* frame sizes *)
  set (szs := closed gh ++ [(0, s0)]).
  assert (Hszs : sizes g3 gh = szs) by exact Ez.
  assert (Hnds : NoDup (map fst szs)).
  { unfold szs. rewrite map_app. cbn [map fst]. apply NoDup_snoc; [apply (iv_cnd _ _ _ I3)|].
    intros Hi. apply in_map_iff in Hi. destruct Hi as ([e1 s1] & E1 & E2). cbn in E1. subst e1.
    apply (iv_closed _ _ _ I3) in E2. lia. }
  set (F := fsz szs).
  assert (HF : forall o s, In (o, s) (sizes g3 gh) -> F o = s).
  { intros o s Hi. rewrite Hszs in Hi. apply fsz_in; assumption. }
  set (A := fun pc => mkAnn (own gh pc) (F (own gh pc)) (pnd gh pc)).
  pose proof (iv_cur _ _ _ I3) as Hcur. pose proof (iv_cp _ _ _ I3) as Hcp. unfold next_pos in Hcur, Hcp. fold n in Hcur, Hcp.
  assert (Hcur0 : cur gh = 0) by (unfold cur; rewrite O3; reflexivity). rewrite Hcur0 in Hcur.
  (* every position *)
  assert (POS : forall pc i6, 1 <= pc -> znth (g_code g5') pc = Some i6 ->
            instr_ok P (A pc) i6 = true /\
            (forall pc' a', In (pc', a') (successors pc (A pc) i6) -> 1 <= pc' < n + 1 /\ a' = A pc') /\
            (iop i6 = EXEC -> Ecall P (own gh pc) (ia i6))).
  { intros pc i6 Hpc Hz6. pose proof (znth_some_range _ _ _ Hz6) as Hr6. rewrite Hlen6 in Hr6.
    destruct (Z.eq_dec pc n) as [->|Hne].
    - (* the final HALT *)
      destruct (B7 _ _ Hc5n) as [K1 _]. rewrite K1 in Hz6.
      2:{ intros Hi. destruct (Tall _ Hi) as (i & Hz & _). apply znth_some_range in Hz. fold n in Hz. lia. }
      inversion Hz6; subst i6. unfold A. rewrite Hcp. split; [reflexivity|]. split; [intros pc' a' []|]. discriminate.
    - assert (Hlt : pc < n) by lia.
      destruct (znth_in_range (g_code g3) pc) as [i3 Hz3]; [fold n; lia|].
      destruct (iv_pos _ _ _ I3 pc i3 Hpc Hz3) as (P1 & [s Hs] & P3 & P4 & P5).
      pose proof (HF _ _ Hs) as HFs. fold F in HFs.
      assert (Hok3 : instr_ok P (A pc) i3 = true).
      { unfold A. rewrite HFs. eapply instr_ok_le; [exact Hmle | reflexivity | reflexivity | apply Z.le_refl | apply P1; exact Hs]. }
      pose proof (instr_ok_pending _ _ _ Hok3) as Hpend. unfold A in Hpend. cbn [a_pending] in Hpend.
      pose proof (Hc5 _ _ Hpc Hz3) as Hz5. destruct (B7 _ _ Hz5) as [K1 K2].
      assert (Hnext : falls (iop i3) = true -> 1 <= pc + 1 < n + 1 /\ A (pc + 1) = mkAnn (own gh pc) (F (own gh pc)) (pend_after i3 (pnd gh pc))).
      { intros Hf. destruct (P3 Hf) as [Q1 Q2]. split; [lia|]. unfold A. rewrite Q1, Q2. reflexivity. }
      destruct (classic_jmp i3) as [Hj|Hnj].
      + (* a jump: backpatched *)
        pose proof (P5 Hj) as Hin. destruct (K2 Hin) as (t & T1 & T2 & T3). rewrite T3 in Hz6. inversion Hz6; subst i6; clear Hz6.
        specialize (T2 He6).
        destruct (Tall _ Hin) as (i3' & Hz3' & _ & _ & Hl3 & Ho3). rewrite Hz3 in Hz3'. inversion Hz3'; subst i3'; clear Hz3'.
        destruct (iv_lab _ _ _ I3 _ _ T1 T2) as (L1 & L2 & L3). unfold next_pos in L1. fold n in L1.
        assert (HAt : A t = A pc).
        { unfold A. rewrite L2, L3, <- Ho3. destruct Hj as [Hj|Hj]; rewrite Hj in Hpend; rewrite Hpend; reflexivity. }
        split; [|split].
        * eapply instr_ok_jmp; [exact Hj | reflexivity | reflexivity | exact Hok3].
        * intros pc' a' Hi. unfold successors in Hi. cbn [iop ia] in Hi.
          destruct Hj as [Hj|Hj]; rewrite Hj in Hi.
          -- destruct Hi as [Hi|[]]. inversion Hi; subst pc' a'. replace (pc + (t - pc)) with t by lia. split; [lia | symmetry; exact HAt].
          -- destruct Hi as [Hi|[Hi|[]]]; inversion Hi; subst pc' a'.
             ++ replace (pc + (t - pc)) with t by lia. split; [lia | symmetry; exact HAt].
             ++ destruct (Hnext ltac:(rewrite Hj; reflexivity)) as [N1 N2]. split; [exact N1|]. rewrite N2.
                unfold A, pend_after. rewrite Hj in Hpend |- *. rewrite Hpend. reflexivity.
        * cbn [iop]. intros He. destruct Hj as [Hj|Hj]; rewrite Hj in He; discriminate.
      + (* anything else: untouched *)
        assert (Hnin : ~ In pc (g_todo g3)).
        { intros Hi. destruct (Tall _ Hi) as (i3' & Hz3' & Hj' & _). rewrite Hz3 in Hz3'. inversion Hz3'; subst. contradiction. }
        rewrite (K1 Hnin) in Hz6. inversion Hz6; subst i6; clear Hz6.
        split; [exact Hok3|]. split.
        * intros pc' a' Hi. unfold successors in Hi.
          destruct (iop i3) eqn:Eop; cbn [In] in Hi;
            try (exfalso; apply Hnj; unfold is_jmp; rewrite Eop; auto; fail);
            try (destruct Hi; fail);
            try (destruct Hi as [Hi|[]]; inversion Hi; subst pc' a';
                 destruct (Hnext eq_refl) as [N1 N2]; split; [exact N1|]; rewrite N2;
                 unfold A, pend_after; rewrite Eop; rewrite ?Hpend; reflexivity).
          (* EXEC *)
          destruct (P4 eq_refl) as (c & C1 & C2 & C3). unfold A in Hi. cbn [a_pending a_rid a_frame] in Hi. rewrite C1 in Hi.
          destruct (iv_closed _ _ _ I3 _ _ C2) as (D1 & D2 & D3 & D4 & _). unfold next_pos in D1. fold n in D1.
          destruct Hi as [Hi|[Hi|[]]]; inversion Hi; subst pc' a'.
          -- split; [lia|]. unfold A. rewrite D2, D3. f_equal. symmetry. apply fsz_in; [exact Hnds|].
             unfold szs. apply in_or_app. left. exact C2.
          -- destruct (Hnext eq_refl) as [N1 N2]. split; [exact N1|]. rewrite N2.
             unfold pend_after. rewrite Eop. reflexivity.
        * intros He. destruct (P4 He) as (c & C1 & C2 & C3). split; [|exact C3].
          apply exec_targets_in; [|exact He]. unfold P. cbn [code]. eapply znth_In.
          rewrite (K1 Hnin). reflexivity. }
  (* the record *)
  exists (mkann gh F (length (g_code g5'))), s0.
  assert (Hk : Z.of_nat (length (g_code g5')) = n + 1) by exact Hlen6.
  constructor.
  - (* sd_root *)
    destruct (B7 _ _ Hc50) as [K1 _].
    assert (H0n : ~ In 0 (g_todo g3)) by (intros Hi; destruct (Tall _ Hi) as (i & _ & _ & Hl & _); lia).
    specialize (K1 H0n). apply znth0_cons in K1. destruct K1 as [rest Ec].
    eapply root_ok_intro; [unfold P; cbn [code]; exact Ec | exact Ho0 | cbn [ia]; apply zlen_nonneg | reflexivity |].
    cbn [ia ib]. unfold map_ok, P. cbn [stack_maps]. rewrite B2. rewrite znth_app_last. cbn [smap].
    apply forallb_forall. intros x Hx. apply stack_map_of_range in Hx. apply in_frame_intro. unfold s0. lia.
  - (* sd_one *)
    rewrite mkann_at by lia. destruct (iv_one _ _ _ I3) as [Q1 Q2]. rewrite Q1, Q2. f_equal. f_equal.
    apply fsz_in; [exact Hnds|]. unfold szs. apply in_or_app. right. left. reflexivity.
  - apply mkann_zero.
  - intros pc a Ha. apply ann_at_mkann in Ha. destruct Ha as [Hr _]. apply znth_in_range. unfold P. cbn [code]. rewrite Hlen6. lia.
  - intros pc a i Ha Hz. apply ann_at_mkann in Ha. destruct Ha as [Hr ->]. unfold P in Hz. cbn [code] in Hz.
    destruct (POS pc i ltac:(lia) Hz) as (Q1 & Q2 & _). split; [exact Q1|].
    intros pc' a' Hi. destruct (Q2 pc' a' Hi) as [Q3 ->]. apply mkann_at. lia.
  - intros pc a i Ha Hz He. apply ann_at_mkann in Ha. destruct Ha as [Hr ->]. unfold P in Hz. cbn [code] in Hz.
    destruct (POS pc i ltac:(lia) Hz) as (_ & _ & Q3). cbn [a_rid]. apply Q3. exact He.
Qed.

Lemma C03_gen_safe_proof : C03_gen_safe_stmt.
Proof.
  intros toks root r Hp Hg Hok k.
  destruct (C03_gen_wf_proof toks root r Hp Hg Hok) as (ann & f & SD).
  destruct (vm_run_typed _ _ _ _ SD k (init (gr_prog r)) eq_refl (typed_init _ _ _)) as (s & Hr & Hps & Ht).
  exists s. split; [exact Hr|].
  destruct (typed_observe _ _ _ _ SD s Hps Ht) as [Hd Hv].
  split; [exact Hd|]. split; [exact Hv|]. exact (typed_depth _ _ _ SD s Ht).
Qed.

Print Assumptions C03_gen_wf_proof.
Print Assumptions C03_gen_safe_proof.
