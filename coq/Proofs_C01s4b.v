(* Proofs_C01s4b.v — C01, stage 4, part 2: the shape of compiled code with calls.
   Lengths of value code (vlen4) and of blocks (blen4), the position map (pm_of4), code that computes a value with
   nested calls (vmatch4: argument temporaries are protected from the code of later arguments; S is the set of
   temporaries the code may overwrite), blocks of instructions (imatch4: stage 3 plus RAssign of any value and
   RReturn), and how these predicates move along code extension and backpatching. *)
From Coq Require Import List ZArith NArith Lia Bool.
From Theo Require Import Base Tokens Errors MacroExtract Parser VMModel VMSpec GenModel Compile RefSem RefSemChk C01Statements C01Stages Gen_Consts Proofs_VM_mem Proofs_VM_dbg Proofs_Gen0 Proofs_Gen Proofs_Sem Proofs_C01a Proofs_C01b Proofs_C01 Proofs_C01s2a Proofs_C01s2b Proofs_C01s2 Proofs_C01s3a Proofs_C01s4a.
Import ListNotations.
Local Open Scope Z_scope.

(* ================================================================================================ *)
(* 1. lengths                                                                                       *)
(* ================================================================================================ *)
Fixpoint vlen4 (v : rvalue) : Z :=
  match v with
  | RCall _ args =>
      (fix sum (l : list rvalue) : Z := match l with [] => 0 | x :: t => vlen4 x + sum t end) args + zlen args + 2
  | _ => vlen v
  end.
Fixpoint alen4 (l : list rvalue) : Z := match l with [] => 0 | x :: t => vlen4 x + alen4 t end.

Lemma vlen4_call j args : vlen4 (RCall j args) = alen4 args + zlen args + 2.
Proof.
  assert (E : forall l, (fix sum (l : list rvalue) : Z := match l with [] => 0 | x :: t => vlen4 x + sum t end) l = alen4 l).
  { induction l as [|x t IH]; [reflexivity|]. cbn [alen4]. rewrite <- IH. reflexivity. }
  cbn [vlen4]. rewrite E. reflexivity.
Qed.

Lemma vlen4_nonneg : forall v, 0 <= vlen4 v.
Proof.
  induction v as [y|c|y c IH|y c IH|j args IH] using rvalue_ind'; try (cbn; lia).
  rewrite vlen4_call. pose proof (zlen_nonneg args).
  assert (0 <= alen4 args) by (clear H; induction IH as [|x t Hx Ht IHt]; cbn [alen4]; cbv beta in *; lia). lia.
Qed.

Lemma alen4_nonneg l : 0 <= alen4 l.
Proof. induction l as [|x t IH]; cbn [alen4]; [lia|]. pose proof (vlen4_nonneg x). lia. Qed.

Lemma alen4_app a b : alen4 (a ++ b) = alen4 a + alen4 b.
Proof. induction a as [|x t IH]; cbn [app alen4]; lia. Qed.

Definition blen4 (i : rinstr) : Z :=
  match i with
  | RAssign _ v => vlen4 v
  | RReturn _ => 1
  | _ => blen3 i
  end.

Lemma blen4_nonneg i : 0 <= blen4 i.
Proof. destruct i; cbn [blen4]; try apply blen3_nonneg; try lia. apply vlen4_nonneg. Qed.

Fixpoint boff4 (rc : list rinstr) (n : nat) {struct n} : Z :=
  match n, rc with
  | S n', i :: t => blen4 i + boff4 t n'
  | _, _ => 0
  end.

Lemma boff4_nonneg rc : forall n, 0 <= boff4 rc n.
Proof.
  induction rc as [|i t IH]; intros [|n]; cbn [boff4]; try lia.
  pose proof (blen4_nonneg i). specialize (IH n). lia.
Qed.

Lemma boff4_S rc : forall n i, nth_error rc n = Some i -> boff4 rc (S n) = boff4 rc n + blen4 i.
Proof.
  induction rc as [|j t IH]; intros [|n] i H; cbn [nth_error] in H; try discriminate.
  - inversion H; subst. cbn [boff4]. lia.
  - change (boff4 (j :: t) (S (S n))) with (blen4 j + boff4 t (S n)). rewrite (IH _ _ H). cbn [boff4]. lia.
Qed.

Lemma boff4_app rc l : forall n, (n <= length rc)%nat -> boff4 (rc ++ l) n = boff4 rc n.
Proof.
  induction rc as [|j t IH]; intros [|n] H; cbn [length] in H; cbn [app boff4]; try reflexivity; try lia.
  rewrite IH by lia. reflexivity.
Qed.

Lemma boff4_snoc rc i : boff4 (rc ++ [i]) (S (length rc)) = boff4 rc (length rc) + blen4 i.
Proof.
  rewrite (boff4_S (rc ++ [i]) (length rc) i).
  - rewrite boff4_app by lia. reflexivity.
  - rewrite nth_error_app2 by lia. rewrite Nat.sub_diag. reflexivity.
Qed.

Definition pm_of4 (P0 : Z) (rc : list rinstr) (pc : Z) : Z := P0 + boff4 rc (Z.to_nat pc).

Lemma pm_of4_next P0 rc pc i : znth rc pc = Some i -> pm_of4 P0 rc (pc + 1) = pm_of4 P0 rc pc + blen4 i.
Proof.
  intros H. pose proof (znth_some_range _ _ _ H) as R. unfold pm_of4.
  replace (Z.to_nat (pc + 1)) with (S (Z.to_nat pc)) by lia.
  rewrite (boff4_S rc (Z.to_nat pc) i); [lia|]. apply znth_nth_error. exact H.
Qed.

Lemma pm_of4_app P0 rcode l t : t <= zlen rcode -> pm_of4 P0 (rcode ++ l) t = pm_of4 P0 rcode t.
Proof. intros H. unfold pm_of4. rewrite boff4_app; [reflexivity|]. unfold zlen in H. lia. Qed.

(* ================================================================================================ *)
(* 2. code of values with calls                                                                     *)
(* ================================================================================================ *)
(* callee table: routine index -> entry position, frame size, stack-map index *)
Definition ftab := nat -> option (Z * Z * Z).
Definition ft_le (F F' : ftab) : Prop := forall j x, F j = Some x -> F' j = Some x.

Section VM4.
  Variables (rm : regmap) (C : list instr) (FT : ftab).

  Inductive vmatch4 : rvalue -> Z -> Z -> (Z -> Prop) -> Prop :=
  | VM4_var y tgt q (S : Z -> Prop) ry :
      rm_var rm y ry -> znth C q = Some (IAdd tgt ry 0) -> vmatch4 (RVar y) tgt q S
  | VM4_num c tgt q (S : Z -> Prop) :
      0 <= c < INT_MAX -> znth C q = Some (IConst tgt c) -> vmatch4 (RNum c) tgt q S
  | VM4_inc y c tgt q (S : Z -> Prop) ry t1 t2 :
      rm_var rm y ry -> rm_tmp rm t1 -> rm_tmp rm t2 -> S t1 -> S t2 -> t1 <> t2 -> 0 <= c < INT_MAX ->
      znth C q = Some (IAdd t1 ry 0) -> znth C (q + 1) = Some (IConst t2 c) -> znth C (q + 2) = Some (IAdd tgt t1 c) ->
      vmatch4 (RInc (RVar y) c) tgt q S
  | VM4_dec y c tgt q (S : Z -> Prop) ry t1 t2 :
      rm_var rm y ry -> rm_tmp rm t1 -> rm_tmp rm t2 -> S t1 -> S t2 -> t1 <> t2 -> 0 <= c < INT_MAX ->
      znth C q = Some (IAdd t1 ry 0) -> znth C (q + 1) = Some (IConst t2 c) -> znth C (q + 2) = Some (IAdd tgt t1 (- c)) ->
      vmatch4 (RDec (RVar y) c) tgt q S
  | VM4_call j args tgt q (S : Z -> Prop) ts entry size mi :
      FT j = Some (entry, size, mi) ->
      amatch4 args ts q S [] ->
      znth C (q + alen4 args) = Some (IPrepare size mi tgt) ->
      (forall i t, nth_error ts i = Some t -> znth C (q + alen4 args + 1 + Z.of_nat i) = Some (IArg (Z.of_nat i) t)) ->
      znth C (q + alen4 args + 1 + zlen args) = Some (IExec entry) ->
      vmatch4 (RCall j args) tgt q S
  with amatch4 : list rvalue -> list Z -> Z -> (Z -> Prop) -> list Z -> Prop :=
  | AM4_nil q (S : Z -> Prop) prot : amatch4 [] [] q S prot
  | AM4_cons v vs t ts q (S S1 : Z -> Prop) prot :
      rm_tmp rm t -> S t -> ~ In t prot -> (forall x, S1 x -> S x /\ ~ In x prot) ->
      vmatch4 v t q S1 -> amatch4 vs ts (q + vlen4 v) S (prot ++ [t]) ->
      amatch4 (v :: vs) (t :: ts) q S prot.

  Scheme vmatch4_mind := Induction for vmatch4 Sort Prop
  with amatch4_mind := Induction for amatch4 Sort Prop.

  Lemma amatch4_length args ts q S prot : amatch4 args ts q S prot -> length ts = length args.
  Proof. induction 1; cbn [length]; auto. Qed.
End VM4.

Combined Scheme vamatch4_ind from vmatch4_mind, amatch4_mind.

(* moving a value's code: every instruction of it is kept (none is a jump), the tables only grow *)
Lemma vmatch4_move rm rm' C C' FT FT' :
  rm_le rm rm' -> ft_le FT FT' ->
  (forall v tgt q S, vmatch4 rm C FT v tgt q S ->
     forall S' : Z -> Prop, (forall x, S x -> S' x) ->
     (forall q' ins, q <= q' -> znth C q' = Some ins -> ~ is_jmp (iop ins) -> znth C' q' = Some ins) ->
     vmatch4 rm' C' FT' v tgt q S') /\
  (forall args ts q S prot, amatch4 rm C FT args ts q S prot ->
     forall S' : Z -> Prop, (forall x, S x -> S' x) ->
     (forall q' ins, q <= q' -> znth C q' = Some ins -> ~ is_jmp (iop ins) -> znth C' q' = Some ins) ->
     amatch4 rm' C' FT' args ts q S' prot).
Proof.
  intros (Hv & Hc & Ht) HF.
  assert (NJ1 : forall a b c, ~ is_jmp (iop (IAdd a b c))) by (intros a b c [E|E]; discriminate E).
  assert (NJ2 : forall a b, ~ is_jmp (iop (IConst a b))) by (intros a b [E|E]; discriminate E).
  assert (NJ3 : forall a b c, ~ is_jmp (iop (IPrepare a b c))) by (intros a b c [E|E]; discriminate E).
  assert (NJ4 : forall a b, ~ is_jmp (iop (IArg a b))) by (intros a b [E|E]; discriminate E).
  assert (NJ5 : forall a, ~ is_jmp (iop (IExec a))) by (intros a [E|E]; discriminate E).
  apply (vamatch4_ind rm C FT
       (fun v tgt q S _ => forall S' : Z -> Prop, (forall x, S x -> S' x) ->
          (forall q' ins, q <= q' -> znth C q' = Some ins -> ~ is_jmp (iop ins) -> znth C' q' = Some ins) ->
          vmatch4 rm' C' FT' v tgt q S')
       (fun args ts q S prot _ => forall S' : Z -> Prop, (forall x, S x -> S' x) ->
          (forall q' ins, q <= q' -> znth C q' = Some ins -> ~ is_jmp (iop ins) -> znth C' q' = Some ins) ->
          amatch4 rm' C' FT' args ts q S' prot)).
  - intros y tgt q S ry Hy Hz S' HS HC. eapply VM4_var; [apply Hv; exact Hy | apply HC; auto; lia].
  - intros c tgt q S Hc0 Hz S' HS HC. eapply VM4_num; [exact Hc0 | apply HC; auto; lia].
  - intros y c tgt q S ry t1 t2 Hy T1 T2 S1 S2 Hne Hc0 Z0 Z1 Z2 S' HS HC.
    eapply VM4_inc with (t1 := t1) (t2 := t2); eauto; apply HC; auto; lia.
  - intros y c tgt q S ry t1 t2 Hy T1 T2 S1 S2 Hne Hc0 Z0 Z1 Z2 S' HS HC.
    eapply VM4_dec with (t1 := t1) (t2 := t2); eauto; apply HC; auto; lia.
  - intros j args tgt q S ts entry size mi HFj Ha IHa Zp Za Ze S' HS HC.
    pose proof (alen4_nonneg args). pose proof (zlen_nonneg args).
    eapply VM4_call with (ts := ts); [apply HF; exact HFj | apply IHa; auto | apply HC; auto; lia | | apply HC; auto; lia].
    intros i t Hi. apply HC; auto; lia.
  - intros q S prot S' HS HC. constructor.
  - intros v vs t ts q S S1 prot Tt St Hn HS1 Hvm IHv Ham IHa S' HS HC.
    pose proof (vlen4_nonneg v).
    eapply AM4_cons with (S1 := S1); auto.
    + intros x Hx. destruct (HS1 x Hx). auto.
    + apply IHa; auto. intros q' ins Hq. apply HC. lia.
Qed.

Lemma vmatch4_mono rm rm' C blk FT FT' v tgt q (S S' : Z -> Prop) :
  rm_le rm rm' -> ft_le FT FT' -> (forall x, S x -> S' x) ->
  vmatch4 rm C FT v tgt q S -> vmatch4 rm' (C ++ blk) FT' v tgt q S'.
Proof.
  intros Hrm HF HS H. destruct (vmatch4_move rm rm' C (C ++ blk) FT FT' Hrm HF) as [A _].
  eapply A; eauto. intros q' ins _ Hz _. apply znth_app_some; exact Hz.
Qed.

(* the first instruction of a value's code is not HALT; its last one is not a potential break *)
Lemma vmatch4_first rm C FT v tgt q S : vmatch4 rm C FT v tgt q S -> not_halt C q.
Proof.
  unfold not_halt. intros H. revert tgt q S H.
  induction v as [y|c|y c IH|y c IH|j args IH] using rvalue_ind'; intros tgt q S H; inversion H; subst.
  - eexists; split; [eassumption | reflexivity].
  - eexists; split; [eassumption | reflexivity].
  - eexists; split; [eassumption | reflexivity].
  - eexists; split; [eassumption | reflexivity].
  - match goal with Ha : amatch4 _ _ _ _ _ _ _ _ |- _ => inversion Ha; subst end.
    + cbn [alen4] in *. rewrite Z.add_0_r in *. eexists; split; [eassumption | reflexivity].
    + inversion IH; subst. eauto.
Qed.

Lemma vmatch4_last rm C FT v tgt q S : vmatch4 rm C FT v tgt q S ->
  exists ins, znth C (q + vlen4 v - 1) = Some ins /\ opcode_eqb (iop ins) POTENTIAL_BREAK = false.
Proof.
  intros H. inversion H; subst.
  - eexists. cbn [vlen4 vlen]. replace (q + 1 - 1) with q by lia. split; [eassumption | reflexivity].
  - eexists. cbn [vlen4 vlen]. replace (q + 1 - 1) with q by lia. split; [eassumption | reflexivity].
  - eexists. cbn [vlen4 vlen]. replace (q + 3 - 1) with (q + 2) by lia. split; [eassumption | reflexivity].
  - eexists. cbn [vlen4 vlen]. replace (q + 3 - 1) with (q + 2) by lia. split; [eassumption | reflexivity].
  - eexists. rewrite vlen4_call. replace (q + (alen4 args + zlen args + 2) - 1) with (q + alen4 args + 1 + zlen args) by lia.
    split; [eassumption | reflexivity].
Qed.

Lemma vmatch4_len_pos rm C FT v tgt q S : vmatch4 rm C FT v tgt q S -> 1 <= vlen4 v.
Proof.
  intros H. inversion H; subst; try (cbn; lia). rewrite vlen4_call. pose proof (alen4_nonneg args). pose proof (zlen_nonneg args). lia.
Qed.

(* ================================================================================================ *)
(* 3. blocks of instructions                                                                        *)
(* ================================================================================================ *)
Definition imatch4 (rm : regmap) (C : list instr) (FT : ftab) (J : jrel3) (q : Z) (i : rinstr) : Prop :=
  match i with
  | RAssign x v => exists rx, rm_var rm x rx /\ vmatch4 rm C FT v rx q (fun _ => True)
  | RReturn out => exists ro, rm_var rm out ro /\ znth C q = Some (IRet ro)
  | _ => imatch3 rm C J q i
  end.

Lemma imatch4_move rm rm' C C' FT FT' (J J' : jrel3) q i :
  rm_le rm rm' -> ft_le FT FT' ->
  (forall q' ins, q <= q' -> znth C q' = Some ins -> ~ is_jmp (iop ins) -> znth C' q' = Some ins) ->
  (imatch3 rm C J q i -> imatch3 rm' C' J' q i) ->
  imatch4 rm C FT J q i -> imatch4 rm' C' FT' J' q i.
Proof.
  intros Hrm HF HC H3. pose proof Hrm as (Hv & Hc & Ht).
  destruct i; cbn [imatch4]; auto.
  - intros (rx & Hx & HV). exists rx. split; [apply Hv; exact Hx|].
    destruct (vmatch4_move rm rm' C C' FT FT' Hrm HF) as [A _]. eapply A; eauto.
  - intros (ro & Hx & Hz). exists ro. split; [apply Hv; exact Hx|]. apply HC; auto; [lia|]. intros [E|E]; discriminate E.
Qed.

Lemma imatch4_mono rm rm' C blk FT FT' (J J' : jrel3) q i :
  rm_le rm rm' -> ft_le FT FT' -> (forall q' f e, q <= q' -> J q' f e -> J' q' f e) ->
  imatch4 rm C FT J q i -> imatch4 rm' (C ++ blk) FT' J' q i.
Proof.
  intros Hrm HF HJ. apply imatch4_move; auto.
  - intros q' ins _ Hz _. apply znth_app_some; exact Hz.
  - apply imatch3_mono; auto. intros q' ins _ Hz. apply znth_app_some; exact Hz.
Qed.

Lemma imatch4_last rm C FT J q i : imatch4 rm C FT J q i ->
  exists ins, znth C (q + blen4 i - 1) = Some ins /\ opcode_eqb (iop ins) POTENTIAL_BREAK = is_site i.
Proof.
  destruct i; cbn [imatch4 blen4]; try apply imatch3_last.
  - intros (rx & _ & H). cbn [is_site]. eapply vmatch4_last; eauto.
  - intros (ro & _ & H). eexists. replace (q + 1 - 1) with q by lia. split; [exact H | reflexivity].
Qed.

Lemma imatch4_blen_pos rm C FT J q i : imatch4 rm C FT J q i -> 1 <= blen4 i.
Proof.
  destruct i; cbn [imatch4 blen4]; try apply imatch3_blen_pos; try lia.
  intros (rx & _ & H). eapply vmatch4_len_pos; eauto.
Qed.
