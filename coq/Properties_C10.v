(* Properties_C10.v — the theorems that decide property C10 on the model, each stated in full and closed by
   `exact <lemma>`; the lemmas live in the Proofs_*.v files.  Nothing else belongs in this file. *)
From Coq Require Import Sorting.Sorted.
From Theo Require Import Base Regex Tokens Errors MacroExtract Grammar LR Gen_MacroGrammar Gen_Consts MacroApply SpecLex SpecMacro MacroStatements Proofs_Macro HygieneStatements Proofs_Hygiene.
Local Open Scope Z_scope.


Theorem C10_dec_inj :
  forall n m : N, dec n = dec m -> n = m.
Proof. exact C10_dec_inj_proof. Qed.
Print Assumptions C10_dec_inj.

Theorem C10_pass_inj :
  forall t f l p t' f' l' p', 0 <= p -> 0 <= p' -> p <> p' ->
    temp_name t f l p <> temp_name t' f' l' p'.
Proof. exact C10_pass_inj_proof. Qed.
Print Assumptions C10_pass_inj.

Theorem C10_index_inj :
  forall (n n' : N) f l p, n <> n' ->
    temp_name (35%N :: dec n) f l p <> temp_name (35%N :: dec n') f l p.
Proof. exact C10_index_inj_proof. Qed.
Print Assumptions C10_index_inj.

Theorem C10_not_user :
  forall rest f l p s,
    (Matches re_id s -> s <> temp_name (35%N :: rest) f l p) /\
    (forall x, temp_name (35%N :: rest) f l p <> loopvar_p1 ++ x) /\
    temp_name (35%N :: rest) f l p <> [101; 114; 114; 111; 114]%N.
Proof. exact C10_not_user_proof. Qed.
Print Assumptions C10_not_user.

Theorem C10_one_rewrite_per_pass :
  forall n bins input p out ch, pass_loop false n bins input p = Ok (out, ch) ->
    exists k, (k <= n)%nat /\ Steps bins input p k out /\
              (ch = true -> k = n /\ (0 < n)%nat) /\
              (ch = false -> (0 < n)%nat -> try_bins false bins out (p + Z.of_nat k) = Ok None).
Proof. exact C11_steps_proof. Qed.
Print Assumptions C10_one_rewrite_per_pass.

Theorem C10_steps_provenance :
  forall bins input p k out, Steps bins input p k out ->
    forall t, In t out ->
      In t input \/ body_token bins t \/
      exists q, p <= q < p + Z.of_nat k /\ temp_of_pass bins q t.
Proof. exact C10_steps_provenance_proof. Qed.
Print Assumptions C10_steps_provenance.

Theorem C10_steps_hygiene :
  forall bins input p k out t1 t2 q1 q2, 0 <= p ->
    Steps bins input p k out ->
    In t1 out -> In t2 out ->
    temp_of_pass bins q1 t1 -> temp_of_pass bins q2 t2 -> 0 <= q1 -> 0 <= q2 ->
    ttext t1 = ttext t2 -> q1 = q2.
Proof. exact C10_steps_hygiene_proof. Qed.
Print Assumptions C10_steps_hygiene.
