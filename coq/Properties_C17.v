(* Properties_C17.v — the theorems that decide property C17 on the model, each stated in full and closed by
   `exact <lemma>`; the lemmas live in the Proofs_*.v files.  Nothing else belongs in this file. *)
From Theo Require Import Base VMModel VMSpec VMStatements Proofs_VM_mem Proofs_VM_dbg CompiledStatements Regex Tokens Errors Lexer Scan MacroExtract Grammar LR MacroApply Parser VMCheck VMCheckStatements GenModel Compile Gen_Lexer Gen_Consts CompileStatements Proofs_Compiled.
Local Open Scope Z_scope.

Theorem rel_reachable :
  forall p h fuel s, tables_ok p = true -> no_break p = true ->
    run_hist fuel h (init p) = Ok s -> rel p s.
Proof. exact rel_reachable_proof. Qed.
Print Assumptions rel_reachable.

Theorem C17_reset :
  forall p h fuel s, tables_ok p = true -> no_break p = true ->
    run_hist fuel h (init p) = Ok s -> reset s = Ok (init p).
Proof. exact C17_reset_proof. Qed.
Print Assumptions C17_reset.

Theorem C17_after :
  forall p h h' fuel s, tables_ok p = true -> no_break p = true ->
    run_hist fuel h (init p) = Ok s ->
    run_hist fuel (AReset :: h') s = run_hist fuel h' (init p).
Proof. exact C17_after_proof. Qed.
Print Assumptions C17_after.

Theorem C17_halt :
  forall s, isDone s = Ok true ->
    exec1 s = Ok (s, true) /\ (forall fuel, execute (S fuel) s = Ok s).
Proof. exact C17_halt_proof. Qed.
Print Assumptions C17_halt.

Theorem C17_compiled :
  forall files main c h fuel s,
    compile files main = Ok c -> run_hist fuel h (init (cr_prog c)) = Ok s ->
    reset s = Ok (init (cr_prog c)) /\
    forall h', run_hist fuel (AReset :: h') s = run_hist fuel h' (init (cr_prog c)).
Proof. exact C17_compiled_proof. Qed.
Print Assumptions C17_compiled.
