(* FlexModel.v — the table-driven matcher of the committed scanner (Compiler/src/lex.yy.c), as a function of
   the tables that tools/translate.py copies into Gen_Flex.v, and the reflective check that relates it to the
   rule list of lexer.l (Gen_Lexer.v, interpreted by Lexer.munch).

   What is modelled of the flex skeleton: one pass of the `yy_match` loop — the current state, the compressed
   transition (yy_base / yy_chk / yy_def / yy_meta / yy_nxt), the last accepting state and position, the
   stop at the jam state and the back-up to the last accepting position.  A NUL byte of the text takes the
   class the skeleton gives it in yy_get_previous_state / yy_try_NUL_trans; the end of the text ends the
   pass (in C: the end-of-buffer action, yy_get_next_buffer returning EOB_ACT_LAST_MATCH or END_OF_FILE).
   Buffer management itself is not modelled here; the scan correspondence (explore_scan) runs the real
   skeleton.  An out-of-range table read is `None` (undefined behaviour in C). *)
From Theo Require Import Base Regex Tokens Lexer.
Local Open Scope Z_scope.

Record ftables := mkFlex {
  ft_accept : list Z;
  ft_ec : list Z;
  ft_meta : list Z;
  ft_base : list Z;
  ft_def : list Z;
  ft_nxt : list Z;
  ft_chk : list Z;
  ft_eol : list Z;       (* yy_rule_can_match_eol *)
  ft_jam : Z;            (* while ( yy_current_state != 267 ) *)
  ft_thr : Z;            (* if ( yy_current_state >= 268 ) yy_c = yy_meta[yy_c] *)
  ft_start : Z;          (* yyg->yy_start = 1 *)
  ft_nul : Z;            (* the class of a NUL byte of the text *)
  ft_eob : Z             (* YY_END_OF_BUFFER *)
}.

(* while ( yy_chk[yy_base[cur] + c] != cur ) { cur = yy_def[cur]; if ( cur >= thr ) c = yy_meta[c]; }
   cur = yy_nxt[yy_base[cur] + c]; *)
Fixpoint next_state (fuel : nat) (t : ftables) (cur c : Z) : option Z :=
  match fuel with
  | O => None
  | S f =>
      match znth (ft_base t) cur with
      | None => None
      | Some b =>
          match znth (ft_chk t) (b + c) with
          | None => None
          | Some k =>
              if k =? cur then znth (ft_nxt t) (b + c)
              else
                match znth (ft_def t) cur with
                | None => None
                | Some d =>
                    if ft_thr t <=? d
                    then match znth (ft_meta t) c with Some c' => next_state f t d c' | None => None end
                    else next_state f t d c
                end
          end
      end
  end.

Definition byte_class (t : ftables) (c : N) : option Z :=
  if (c =? 0)%N then Some (ft_nul t) else znth (ft_ec t) (Z.of_N c).

Definition chain_fuel (t : ftables) : nat := S (length (ft_def t)).

Definition accept_of (t : ftables) (q : Z) : option Z := znth (ft_accept t) q.

(* one pass over the text from state cur, n bytes consumed, best = (length, yy_act) of the last accepting state.
   outer None: a table was read out of range. *)
Fixpoint flex_run (t : ftables) (cur : Z) (s : list N) (n : nat) (best : option (nat * Z)) : option (option (nat * Z)) :=
  match accept_of t cur with
  | None => None
  | Some a =>
      let best' := if a =? 0 then best else Some (n, a) in
      match s with
      | [] => Some best'
      | c :: rest =>
          match byte_class t c with
          | None => None
          | Some k =>
              match next_state (chain_fuel t) t cur k with
              | None => None
              | Some q => if q =? ft_jam t then Some best' else flex_run t q rest (S n) best'
              end
          end
      end
  end.

Definition flex_match (t : ftables) (s : list N) : option (option (nat * Z)) := flex_run t (ft_start t) s 0 None.

(* ---------------------------------------------------------------------------------------------------- *)
(* the reflective check: a table q |-> vector of residual rule patterns, closed under every byte         *)
(* ---------------------------------------------------------------------------------------------------- *)
Fixpoint rng_eqb (a b : list (N * N)) : bool :=
  match a, b with
  | [], [] => true
  | (x, y) :: a', (u, v) :: b' => (x =? u)%N && (y =? v)%N && rng_eqb a' b'
  | _, _ => false
  end.

Fixpoint regex_eqb (a b : regex) : bool :=
  match a, b with
  | Empty, Empty => true
  | Eps, Eps => true
  | Chr c, Chr d => (c =? d)%N
  | Rng n rs, Rng m qs => Bool.eqb n m && rng_eqb rs qs
  | Cat a1 a2, Cat b1 b2 => regex_eqb a1 b1 && regex_eqb a2 b2
  | Alt a1 a2, Alt b1 b2 => regex_eqb a1 b1 && regex_eqb a2 b2
  | Star a1, Star b1 => regex_eqb a1 b1
  | _, _ => false
  end.

Fixpoint vec_eqb (a b : list regex) : bool :=
  match a, b with
  | [], [] => true
  | x :: a', y :: b' => regex_eqb x y && vec_eqb a' b'
  | _, _ => false
  end.

Definition assoc := list (Z * list regex).

Fixpoint lookup (m : assoc) (q : Z) : option (list regex) :=
  match m with [] => None | (k, v) :: t => if k =? q then Some v else lookup t q end.

Definition bytes256 : list N := map N.of_nat (seq 0 256).

(* yy_accept of a state against the residual vector: 0 when no rule matches here, else 1 + the first rule that does *)
Definition accept_ok (t : ftables) (q : Z) (v : list regex) : bool :=
  match accept_of t q, first_nullable v 0 with
  | Some a, None => a =? 0
  | Some a, Some i => a =? Z.of_nat i + 1
  | None, _ => false
  end.

Definition step_ok (t : ftables) (m : assoc) (q : Z) (v : list regex) (c : N) : bool :=
  match byte_class t c with
  | None => false
  | Some k =>
      match next_state (chain_fuel t) t q k with
      | None => false
      | Some q' =>
          let v' := map (deriv c) v in
          if forallb is_empty v' then q' =? ft_jam t
          else negb (q' =? ft_jam t) &&
               match lookup m q' with Some w => vec_eqb v' w | None => false end
      end
  end.

Definition pair_ok (t : ftables) (m : assoc) (e : Z * list regex) : bool :=
  accept_ok t (fst e) (snd e) && forallb (step_ok t m (fst e) (snd e)) bytes256.

Definition check_dfa (t : ftables) (rs : list regex) (m : assoc) : bool :=
  match lookup m (ft_start t) with
  | Some v => vec_eqb v rs
  | None => false
  end
  && match first_nullable rs 0 with None => true | Some _ => false end
  && forallb (pair_ok t m) m.

(* the table is found by search; the search is not trusted, check_dfa is what the theorem uses *)
Fixpoint explore (fuel : nat) (t : ftables) (todo : assoc) (seen : assoc) : assoc :=
  match fuel with
  | O => seen
  | S f =>
      match todo with
      | [] => seen
      | (q, v) :: rest =>
          match lookup seen q with
          | Some _ => explore f t rest seen
          | None =>
              let succ :=
                flat_map (fun c =>
                  match byte_class t c with
                  | None => []
                  | Some k =>
                      match next_state (chain_fuel t) t q k with
                      | None => []
                      | Some q' => if q' =? ft_jam t then [] else [(q', map (deriv c) v)]
                      end
                  end) bytes256 in
              explore f t (succ ++ rest) ((q, v) :: seen)
          end
      end
  end.

(* ---------------------------------------------------------------------------------------------------- *)
(* line counting: a rule that flex marks as unable to match a newline indeed cannot                       *)
(* ---------------------------------------------------------------------------------------------------- *)
Fixpoint no_newline (r : regex) : bool :=
  match r with
  | Empty | Eps => true
  | Chr c => negb (c =? 10)%N
  | Rng neg rs => negb (cmatch neg rs 10)
  | Cat a b | Alt a b => no_newline a && no_newline b
  | Star a => no_newline a
  end.

Fixpoint check_eol_from (eol : list Z) (rs : list regex) : bool :=
  match rs, eol with
  | [], _ => true
  | r :: rs', e :: eol' => ((negb (e =? 0)) || no_newline r) && check_eol_from eol' rs'
  | _ :: _, [] => false
  end.
(* entry 0 of yy_rule_can_match_eol belongs to no rule; rule i is case i+1 *)
Definition check_eol (t : ftables) (rs : list regex) : bool := check_eol_from (tl (ft_eol t)) rs.

(* the switch of lex.yy.c gives rule i the action lexer.l gives it *)
Fixpoint check_actions (acts : list (option (option tkind))) (rules : list rule) : bool :=
  match rules, acts with
  | [], [None] => true                       (* the default rule, ECHO, comes last *)
  | (_, a) :: rules', Some b :: acts' =>
      (match a, b with
       | None, None => true
       | Some x, Some y => tk_eqb x y
       | _, _ => false
       end) && check_actions acts' rules'
  | _, _ => false
  end.

(* ---------------------------------------------------------------------------------------------------- *)
(* one yylex() call on the tables: the action switch and the yylineno loop around flex_match              *)
(* ---------------------------------------------------------------------------------------------------- *)
Definition eol_flag (t : ftables) (act : Z) : bool :=
  match znth (ft_eol t) act with Some e => negb (e =? 0) | None => false end.

(* outer None: table fault (undefined behaviour in C);  inner None: end of input *)
Fixpoint flex_next_token (fuel : nat) (t : ftables) (acts : list (option (option tkind))) (s : list N) (line : Z)
  : option (option (tkind * list N * Z * list N)) :=
  match fuel with
  | O => Some None
  | S f =>
      match s with
      | [] => Some None
      | c :: rest1 =>
          match flex_match t s with
          | None => None
          | Some None => flex_next_token f t acts rest1 line          (* no accepting state at all: cannot happen with a default rule *)
          | Some (Some (len, act)) =>
              let text := firstn len s in
              let rest := skipn len s in
              (* if ( yy_act != YY_END_OF_BUFFER && yy_rule_can_match_eol[yy_act] ) count the newlines of yytext *)
              let line' := if eol_flag t act then (line + count_nl text)%Z else line in
              match nth_error acts (Z.to_nat (act - 1)) with
              | Some (Some (Some k)) => Some (Some (k, text, line', rest))
              | Some (Some None) => flex_next_token f t acts rest line'
              | _ => None                                              (* ECHO or no such case: not covered *)
              end
          end
      end
  end.

(* ---------------------------------------------------------------------------------------------------- *)
(* search for a distinguishing string (used by the check only when check_dfa fails; not trusted)          *)
(* ---------------------------------------------------------------------------------------------------- *)
Fixpoint seen_pair (m : assoc) (q : Z) (v : list regex) : bool :=
  match m with [] => false | (k, w) :: t => ((k =? q) && vec_eqb v w) || seen_pair t q v end.

(* todo entries carry the reversed string that leads to the pair *)
Fixpoint find_cex (fuel : nat) (t : ftables) (todo : list (Z * list regex * list N)) (seen : assoc) : option (list N) :=
  match fuel with
  | O => None
  | S f =>
      match todo with
      | [] => None
      | (q, v, path) :: rest =>
          if seen_pair seen q v then find_cex f t rest seen
          else if negb (accept_ok t q v) then Some (rev path)
          else
            let step := fun c =>
              match byte_class t c with
              | None => inl (c :: path)
              | Some k =>
                  match next_state (chain_fuel t) t q k with
                  | None => inl (c :: path)
                  | Some q' =>
                      let v' := map (deriv c) v in
                      if forallb is_empty v' then (if q' =? ft_jam t then inr [] else inl (c :: path))
                      else if q' =? ft_jam t then inl (c :: path)
                      else inr [(q', v', c :: path)]
                  end
              end in
            let results := map step bytes256 in
            match find (fun r => match r with inl _ => true | inr _ => false end) results with
            | Some (inl p) => Some (rev p)
            | _ => find_cex f t (rest ++ flat_map (fun r => match r with inr l => l | inl _ => [] end) results)
                            ((q, v) :: seen)
            end
      end
  end.
