(* Proofs_C07s5j.v — C07 with calls, part 10: the DYNAMIC part, runs in stepping mode.
   The induction on the fuel of run_chk (Proofs_C01s4f.v) for a VM in stepping mode: every run of a routine on a
   frame of the VM stack is matched by step_trace, and the stops it reports — one per RSite executed, in this
   routine or in a callee, with the views of all live activations — agree with the trace of the reference run. *)
From Coq Require Import List ZArith NArith Lia Bool.
From Theo Require Import Base Tokens Errors MacroExtract Parser VMModel VMSpec GenModel Compile RefSem RefSemChk C01Statements C01Stages Gen_Consts Proofs_VM_mem Proofs_VM_dbg Proofs_Gen0 Proofs_Gen Proofs_Sem Proofs_C01a Proofs_C01b Proofs_C01 Proofs_C01s2a Proofs_C01s2b Proofs_C01s2 Proofs_C01s3a Proofs_C01s4a Proofs_C01s4b Proofs_C01s4c Proofs_C01s4d Proofs_C01s4e Proofs_C01s4f Proofs_C01s4o.
From Theo Require Import C07Statements Proofs_C07a Proofs_C07b Proofs_C07s5h Proofs_C07s5i.
Import ListNotations.
Local Open Scope Z_scope.

Section Run7.
  Variable rs : list routine.
  Variable RI : nat -> rinfo.
  Variable C : list instr.
  Variable FT : ftab.
  Hypothesis FT_ok : forall j e sz mi, FT j = Some (e, sz, mi) ->
    e = ri_P0 (RI j) /\ sz = ri_N (RI j) /\ mi = ri_mi (RI j).
  Hypothesis ROK : forall k r, nth_error rs k = Some r -> routine_ok RI C FT k r.
  Variable prg : program.
  Hypothesis HprgC : code prg = C.
  Hypothesis HMaps : MapsOK rs RI (stack_maps prg).
  Hypothesis LI : forall k r pc l, nth_error rs k = Some r -> znth (r_code r) pc = Some (RSite l) ->
    alookup z_ltb (line_info prg) (pm4 RI k r pc) = Some (bp_of l).

  Notation FV := (FrameView rs RI).
  Notation LOK := (LowOK rs RI).
  Notation Res7 := (Res7 rs RI C).
  Notation SimAt7 := (SimAt7 rs RI C prg).
  Notation Top7 := (Top7 RI prg).

  Lemma Res7_compose k s base d d1 trace q q1 n stops delta o :
    step_trace n (vm_at s q d) = Ok (stops, vm_at s q1 d1, false) -> Forall2 stop_agrees stops delta ->
    (forall j, j < base -> znth d1 j = znth d j) ->
    Res7 k s base d1 (trace ++ delta) q1 o -> Res7 k s base d trace q o.
  Proof.
    intros Hrun Hag Hpre HR. destruct o as [ret st' tr'|vw st' tr'| |]; cbn [Proofs_C07s5i.Res7] in *; auto.
    - destruct HR as (n2 & sp2 & d2 & q2 & ro & dl2 & R2 & Zr & Rro & Zret & Bret & F2 & P2 & T2 & A2).
      exists (n + n2)%nat, (stops ++ sp2), d2, q2, ro, (delta ++ dl2).
      split; [exact (st_trans _ _ _ _ _ _ _ _ Hrun R2)|]. split; [exact Zr|]. split; [exact Rro|].
      split; [exact Zret|]. split; [exact Bret|]. split; [exact F2|]. split; [|split; [rewrite T2, app_assoc; reflexivity | apply Forall2_app; assumption]].
      intros j Hj. rewrite P2 by exact Hj. apply Hpre; exact Hj.
    - destruct HR as (n2 & sp2 & s' & dl2 & R2 & F2 & T2 & A2). exists (n + n2)%nat, (stops ++ sp2), s', (delta ++ dl2).
      split; [exact (st_trans _ _ _ _ _ _ _ _ Hrun R2)|]. split; [exact F2|].
      split; [rewrite T2, app_assoc; reflexivity | apply Forall2_app; assumption].
  Qed.

  (* the stop at a site *)
  Lemma site7 k r ctx a pc l s d act rest :
    nth_error rs k = Some r -> Top7 k s act rest -> znth (r_code r) pc = Some (RSite l) ->
    SR (ri_rm (RI k)) (data_start act) (ri_N (RI k)) a d -> LOK (data_start act) rest ctx d ->
    exists v, step_trace 1 (vm_at s (pm4 RI k r pc) d) = Ok ([(bp_of l, v)], vm_at s (pm4 RI k r pc + 1) d, false) /\
      stop_agrees (bp_of l, v) (l, ctx ++ [view_of r a]).
  Proof.
    intros Hk HT Hi HS HL. pose proof HT as (Hprg & Hstp & Hst & Hsz & Hdi).
    pose proof (ro_cm _ _ _ _ _ (ROK _ _ Hk) _ _ Hi) as HM. cbn [imatch4 imatch3 imatch] in HM.
    pose proof (top_views rs RI C FT ROK k r a s act rest ctx d Hk (Top7_Top RI C prg HprgC k s act rest HT) HS HL) as HFV.
    destruct (frames_views rs RI (vm_at s (pm4 RI k r pc + 1) d)) with (l := rev (act :: rest)) (vs := ctx ++ [view_of r a])
      as (v & Hv & Hva).
    { cbn [vm_at prog]. rewrite Hprg. exact HMaps. }
    { exact HFV. }
    exists v. split.
    - apply st_site; [exact Hstp | rewrite Hprg, HprgC; exact HM | rewrite Hprg; apply LI; assumption |].
      unfold views. cbn [vm_at stack]. rewrite Hst. exact Hv.
    - unfold stop_agrees, bp_of. cbn [fst snd bfile bline]. split; [reflexivity|]. split; [reflexivity | exact Hva].
  Qed.

  Theorem sim_all7 : forall fuel, SimAt7 fuel.
  Proof.
    induction fuel as [|f IHf]; intros k r ctx a pc steps trace s d act rest Hk HT HS HL.
    - cbn [run_chk Proofs_C07s5i.Res7]. exact I.
    - rewrite run_chk_S. unfold body_c. rewrite Hk.
      destruct (znth (r_code r) pc) as [i|] eqn:Hi; [|exact I].
      pose proof (ROK _ _ Hk) as [OKk CMk Park NDk HNk]. pose proof (CMk _ _ Hi) as HM.
      pose proof (pm_of4_next (ri_P0 (RI k)) _ _ _ Hi) as Hnext. fold (pm4 RI k r (pc + 1)) in Hnext. fold (pm4 RI k r pc) in Hnext.
      pose proof HT as (Hprg & Hstp & Hst & Hsz & Hdi).
      assert (HC : code (prog s) = C) by (rewrite Hprg; exact HprgC).
      set (rm := ri_rm (RI k)) in *. set (N := ri_N (RI k)) in *. set (base := data_start act) in *.
      assert (Hold : forall (i0 : rinstr), i0 = i -> is_site i0 = false -> imatch3 rm C (jpost4 RI k r) (pm4 RI k r pc) i0 -> blen4 i0 = blen3 i0 ->
                Res7 k s base d trace (pm4 RI k r pc) (exec_instr_c rs (run_chk rs f) r ctx k a pc steps trace i0)).
      { intros i0 -> Hns HM3 Hb. rewrite Hb in Hnext.
        destruct (exec_instr_c rs (run_chk rs f) r ctx k a pc steps trace i) as [ret st' tr'|vw st' tr'| |] eqn:HX; [| | exact I|exact I].
        - destruct (step7_generic rs k r rm base N C (pm4 RI k r) OKk (run_chk rs f) ctx a pc steps trace i s d _ HM3 Hnext Hns
                      (conj HC (ex_intro _ act (ex_intro _ rest (conj Hst eq_refl)))) HS HX ltac:(discriminate))
            as [(_ & Ho)|(a' & pc' & n & d' & Hvm & HS' & Hch & Hrec)]; [discriminate|].
          assert (Hpre : forall j, j < base -> znth d' j = znth d j).
          { intros j Hj. eapply chg_outside; eauto. unfold in_frame. lia. }
          assert (HL' : LOK base rest ctx d').
          { eapply LowOK_stable; [exact HL | destruct Hch as [El _]; rewrite El; pose proof (sr_fit _ _ _ _ _ HS); lia | exact Hpre]. }
          pose proof (IHf k r ctx a' pc' (S steps) trace s d' act rest Hk HT HS' HL') as HR. rewrite Hrec in HR.
          apply (Res7_compose k s base d d' trace _ _ n [] [] _ Hvm (Forall2_nil _) Hpre). rewrite app_nil_r. exact HR.
        - destruct (step7_generic rs k r rm base N C (pm4 RI k r) OKk (run_chk rs f) ctx a pc steps trace i s d _ HM3 Hnext Hns
                      (conj HC (ex_intro _ act (ex_intro _ rest (conj Hst eq_refl)))) HS HX ltac:(discriminate))
            as [(Hhalt & Ho)|(a' & pc' & n & d' & Hvm & HS' & Hch & Hrec)].
          + injection Ho as -> -> ->. cbn [Proofs_C07s5i.Res7].
            exists 1%nat, [], (vm_at s (pm4 RI k r pc) d), []. split.
            * apply st_halt. rewrite HC. destruct Hhalt as [-> | ->]; exact HM3.
            * split; [|split; [rewrite app_nil_r; reflexivity | constructor]].
              cbn [vm_at data stack]. rewrite Hst.
              exact (top_views rs RI C FT ROK k r a s act rest ctx d Hk (Top7_Top RI C prg HprgC k s act rest HT) HS HL).
          + assert (Hpre : forall j, j < base -> znth d' j = znth d j).
            { intros j Hj. eapply chg_outside; eauto. unfold in_frame. lia. }
            assert (HL' : LOK base rest ctx d').
            { eapply LowOK_stable; [exact HL | destruct Hch as [El _]; rewrite El; pose proof (sr_fit _ _ _ _ _ HS); lia | exact Hpre]. }
            pose proof (IHf k r ctx a' pc' (S steps) trace s d' act rest Hk HT HS' HL') as HR. rewrite Hrec in HR.
            apply (Res7_compose k s base d d' trace _ _ n [] [] _ Hvm (Forall2_nil _) Hpre). rewrite app_nil_r. exact HR. }
      destruct i as [l|x v|id v|id ex|id back|v ex|target|l|x y l| |out|];
        try (apply Hold; [reflexivity | reflexivity | exact HM | reflexivity]).
      + (* RSite *)
        unfold exec_instr_c. cbv zeta.
        destruct (site7 k r ctx a pc l s d act rest Hk HT Hi HS HL) as (v & Hst1 & Hag).
        cbn [blen4 blen3 blen] in Hnext. rewrite <- Hnext in Hst1.
        pose proof (IHf k r ctx a (pc + 1) (S steps) (trace ++ [(l, ctx ++ [view_of r a])]) s d act rest Hk HT HS HL) as HR.
        apply (Res7_compose k s base d d trace _ _ 1%nat [(bp_of l, v)] [(l, ctx ++ [view_of r a])] _ Hst1); auto.
      + (* RAssign *)
        cbn [imatch4] in HM. destruct HM as (rx & Hx & HV). cbn [blen4] in Hnext.
        unfold exec_instr_c. cbv zeta.
        pose proof (rmo_var_rng _ _ OKk _ _ Hx) as Rx.
        pose proof (eval7 rs RI C FT FT_ok ROK prg HprgC f IHf k r ctx a s act rest Hk HT v rx (pm4 RI k r pc) (fun _ => True) (S steps) trace d HV Rx HS HL) as HE.
        destruct (eval_c rs (run_chk rs f) a (ctx ++ [view_of r a]) v (S steps) trace) as [z st1 tr1|vw st1 tr1| |]; cbn [VRes7] in HE.
        * destruct HE as (n & sp & d' & dl & Hvm & Ld & Hz & Hzb & Hun & Htr & Hag). subst tr1.
          assert (HS' : SR rm base N (mkRAct (put (ra_vars a) x z) (ra_cnt a)) d').
          { eapply SR_var; [exact OKk | exact HS | exact Hx | | exact Hz | exact Hzb]. split; [exact Ld|].
            intros j Hj Hjt. apply Hun; [exact Hj|]. intros t _ Ht. apply Hjt; exact Ht. }
          assert (Hpre : forall j, j < base -> znth d' j = znth d j).
          { intros j Hj. apply Hun; [lia|]. intros t _ Ht E. pose proof (rmo_tmp_rng _ _ OKk _ Ht). lia. }
          assert (HL' : LOK base rest ctx d').
          { eapply LowOK_stable; [exact HL | rewrite Ld; pose proof (sr_fit _ _ _ _ _ HS); lia | exact Hpre]. }
          pose proof (IHf k r ctx _ (pc + 1) st1 (trace ++ dl) s d' act rest Hk HT HS' HL') as HR.
          rewrite Hnext in HR.
          exact (Res7_compose k s base d d' trace _ _ n sp dl _ Hvm Hag Hpre HR).
        * exact HE.
        * exact I.
        * exact I.
      + (* RReturn *)
        cbn [imatch4] in HM. destruct HM as (ro & Hx & Hz).
        unfold exec_instr_c. cbv zeta. cbn [Proofs_C07s5i.Res7].
        exists 0%nat, [], d, (pm4 RI k r pc), ro, []. split; [reflexivity|]. split; [exact Hz|].
        split; [exact (rmo_var_rng _ _ OKk _ _ Hx)|]. split; [exact (sr_var _ _ _ _ _ HS _ _ Hx)|].
        split; [apply (sr_vb _ _ _ _ _ HS)|]. split; [apply (sr_fit _ _ _ _ _ HS)|]. split; [auto|].
        split; [rewrite app_nil_r; reflexivity | constructor].
  Qed.
End Run7.
