(* Base.v — common vocabulary of the libtheo model: byte strings, the result monad with
   explicit undefined behaviour, checked vector access, ordered association lists.
   Definitions only (plus a few tiny lemmas used everywhere are in BaseFacts.v). *)
From Coq Require Export List ZArith NArith Bool Lia.
Export ListNotations.
Local Open Scope Z_scope.

(* ---- characters and strings: bytes as N ---------------------------------------------- *)
Definition chr := N.
Definition str := list N.

Fixpoint str_eqb (a b : str) : bool :=
  match a, b with
  | [], [] => true
  | x :: a', y :: b' => N.eqb x y && str_eqb a' b'
  | _, _ => false
  end.

(* std::string operator< : lexicographic on unsigned bytes *)
Fixpoint str_ltb (a b : str) : bool :=
  match a, b with
  | [], [] => false
  | [], _ :: _ => true
  | _ :: _, [] => false
  | x :: a', y :: b' => if N.ltb x y then true else if N.ltb y x then false else str_ltb a' b'
  end.

(* ---- outcome of a modelled C++ computation ---------------------------------------------- *)
Inductive ub_kind :=
| ub_index        (* v[i] with i outside [0,size) *)
| ub_back         (* back()/pop_back()/end()-k on a too-short vector *)
| ub_null         (* p->f with p == NULL *)
| ub_overflow     (* signed integer overflow *)
| ub_iter.        (* *it past the end *)

Inductive result (A : Type) :=
| Ok (a : A)
| UB (k : ub_kind)
| Fuel.
Arguments Ok {A} a.
Arguments UB {A} k.
Arguments Fuel {A}.

Definition bind {A B} (r : result A) (f : A -> result B) : result B :=
  match r with Ok a => f a | UB k => UB k | Fuel => Fuel end.
Notation "'do' x <- e ; f" := (bind e (fun x => f)) (at level 200, x pattern, e at level 100, f at level 200).

Definition of_opt {A} (k : ub_kind) (o : option A) : result A :=
  match o with Some a => Ok a | None => UB k end.

Definition is_ok {A} (r : result A) : bool := match r with Ok _ => true | _ => false end.

(* ---- vector access with int indices ---------------------------------------------------- *)
Definition znth {A} (l : list A) (i : Z) : option A :=
  if i <? 0 then None else nth_error l (Z.to_nat i).

Fixpoint upd_nat {A} (l : list A) (n : nat) (x : A) : list A :=
  match l, n with
  | [], _ => []
  | _ :: t, O => x :: t
  | h :: t, S n' => h :: upd_nat t n' x
  end.

Definition zupd {A} (l : list A) (i : Z) (x : A) : option (list A) :=
  if (0 <=? i) && (i <? Z.of_nat (length l)) then Some (upd_nat l (Z.to_nat i) x) else None.

Definition zlen {A} (l : list A) : Z := Z.of_nat (length l).

(* the C++ word: int is 32 bits two's complement *)
Definition INT_MAX : Z := 2147483647.
Definition INT_MIN : Z := -2147483648.
Definition in_int (z : Z) : bool := (INT_MIN <=? z) && (z <=? INT_MAX).
(* (int) of a long: implementation-defined two's-complement wrap *)
Definition wrap_int (z : Z) : Z := ((z + 2147483648) mod 4294967296) - 2147483648.
Definition LONG_MAX : Z := 9223372036854775807.

(* ---- decimal rendering, std::to_string of a non-negative or negative int --------------- *)
Fixpoint dec_pos_fuel (fuel : nat) (n : N) (acc : str) : str :=
  match fuel with
  | O => acc
  | S f =>
      let d := (48 + N.modulo n 10)%N in
      let q := N.div n 10 in
      if N.eqb q 0 then d :: acc else dec_pos_fuel f q (d :: acc)
  end.
(* N.size_nat n + 1 digits are always enough (binary length bounds decimal length) *)
Definition dec (n : N) : str := dec_pos_fuel (S (N.size_nat n)) n [].
Definition dec_z (z : Z) : str :=
  if z <? 0 then 45%N :: dec (Z.to_N (- z)) else dec (Z.to_N z).

(* ---- ordered association lists (std::map / std::set with an explicit strict order) ------ *)
Section Assoc.
  Context {K V : Type} (ltb : K -> K -> bool).
  Definition keqb (a b : K) : bool := negb (ltb a b) && negb (ltb b a).

  Fixpoint alookup (m : list (K * V)) (k : K) : option V :=
    match m with
    | [] => None
    | (k', v) :: t => if keqb k k' then Some v else alookup t k
    end.

  (* insert-or-replace, keeping the list sorted *)
  Fixpoint ainsert (m : list (K * V)) (k : K) (v : V) : list (K * V) :=
    match m with
    | [] => [(k, v)]
    | (k', v') :: t =>
        if ltb k k' then (k, v) :: m
        else if ltb k' k then (k', v') :: ainsert t k v
        else (k, v) :: t
    end.

  Fixpoint aremove (m : list (K * V)) (k : K) : list (K * V) :=
    match m with
    | [] => []
    | (k', v') :: t => if keqb k k' then t else (k', v') :: aremove t k
    end.
End Assoc.

Section SetL.
  Context {K : Type} (ltb : K -> K -> bool).
  Fixpoint smem (s : list K) (k : K) : bool :=
    match s with
    | [] => false
    | k' :: t => keqb ltb k k' || smem t k
    end.
  Fixpoint sinsert (s : list K) (k : K) : list K :=
    match s with
    | [] => [k]
    | k' :: t => if ltb k k' then k :: s else if ltb k' k then k' :: sinsert t k else s
    end.
  Fixpoint sremove (s : list K) (k : K) : list K :=
    match s with
    | [] => []
    | k' :: t => if keqb ltb k k' then t else k' :: sremove t k
    end.
End SetL.

(* ---- small utilities ---------------------------------------------------------------------- *)
Fixpoint zrepeat {A} (x : A) (n : nat) : list A := match n with O => [] | S n' => x :: zrepeat x n' end.

Definition str_of_list := @id str.
