(* C01Stages3.v — stage 3 of compile correctness: the whole statement language of ONE routine (the main program):
   assignments of simple values, LOOP, WHILE, labels, GOTO, IF x = c THEN GOTO l, STOP — arbitrarily nested, in
   exactly the tree shapes Parser.pcall builds for an error-free source.  No PROGRAM definitions and no RUN of
   user programs yet (stage 4).  Conclusion and side conditions as in C01Stages.v. *)
From Theo Require Import Base Tokens Errors MacroExtract Parser VMModel VMSpec GenModel Compile RefSem RefSemChk C01Statements C01Stages Gen_Consts.
Local Open Scope Z_scope.

Definition leaf_name (n : node) : bool :=
  match n with Node N_NAME _ _ _ None None => true | _ => false end.

Fixpoint jumps (n : node) : bool :=
  match n with
  | Node N_SPLIT _ _ _ (Some st) rest =>
      (match st with
       | Node N_ASSIGN al af _ (Some tgt) (Some v) =>
           is_name tgt && simple_value v && on_line af al v && on_line af al tgt
       | Node N_SPLIT _ _ _ (Some (Node N_LOOP ll lf _ (Some bound) (Some body)))
                            (Some (Node N_MARK _ _ _ (Some e) None)) =>
           is_name bound && on_line lf ll bound && leaf_name e && jumps body
       | Node N_SPLIT _ _ _ (Some (Node N_WHILE wl wf _ (Some cond) (Some body)))
                            (Some (Node N_MARK _ _ _ (Some e) None)) =>
           is_name cond && on_line wf wl cond && leaf_name e && jumps body
       | Node N_SPLIT _ _ _ (Some (Node N_MARK _ _ _ (Some lbl) None)) (Some inner) =>      (* lbl : inner *)
           leaf_name lbl && jumps inner
       | Node N_GOTO _ _ _ (Some lbl) None => leaf_name lbl
       | Node N_IF il if_ _ (Some (Node N_EQ _ _ _ (Some id) (Some c))) (Some (Node N_GOTO _ _ _ (Some lbl) None)) =>
           leaf_name id && is_number c && on_line if_ il id && on_line if_ il c && leaf_name lbl
       | Node N_STOP _ _ _ None None => true
       | _ => false
       end)
      && match rest with None => true | Some r => jumps r end
  | _ => false
  end.

Definition C01_jumps_stmt : Prop :=
  forall root r rs fuel rviews steps trace,
    jumps root = true -> lexable_names root = true ->
    gen true [] (Some root) = Ok r -> gr_ok r = true ->
    abstract_source (Some root) = Some rs ->
    run_ref_chk fuel rs = OStop rviews steps trace ->
    sim_conclusion r rviews steps.

(* the budget clause: while the reference run has not finished, the VM has not finished either.
   (run_ref_chk n = OFuel: the reference needs more than n steps.) *)
Definition C01_jumps_budget_stmt : Prop :=
  forall root r rs n s,
    jumps root = true -> lexable_names root = true ->
    gen true [] (Some root) = Ok r -> gr_ok r = true ->
    abstract_source (Some root) = Some rs ->
    run_ref_chk n rs = OFuel ->
    vm_run n (init (gr_prog r)) = Ok s -> isDone s = Ok false.
