(* Proofs_FlexSkel.v — proofs of the statements of FlexSkelStatements.v: one yylex() call of the committed scanner,
   control flow of the flex skeleton included (FlexSkel.yylex), is the abstract pass FlexModel.flex_next_token,
   hence Lexer.next_token on the rule list of lexer.l — for every byte string and every position in it.
   The generic argument is in Proofs_FlexSkel0.v; here: the outer loop, the reflective check of the extra facts
   about the tables (the end-of-buffer state), the instance. *)
From Coq Require Import List ZArith NArith Lia Bool.
From Theo Require Import Base Regex Tokens Lexer FlexModel FlexSkel Gen_Lexer Gen_Flex FlexStatements FlexSkelStatements Proofs_Lexer Proofs_Flex.
From Theo Require Import SpecLex Proofs_FlexSkel0.
Import ListNotations.
Local Open Scope Z_scope.

(* ================================================================================================ *)
(* 1. the outer while (1) of yylex, generically                                                      *)
(* ================================================================================================ *)
Lemma yylex_S : forall t acts text f p line,
  yylex t acts text (S f) p line =
  match one_match t acts text p line with
  | SDone r => r
  | SNext p' l => yylex t acts text f p' l
  end.
Proof. reflexivity. Qed.

Section Yylex.
Variables (t : ftables) (acts : list (option (option tkind))).
Variables (good : Z -> Prop) (c0 e : Z).
Hypothesis Hc0 : znth (ft_ec t) 0 = Some c0.
Hypothesis He_nj : e <> ft_jam t.
Hypothesis He_acc : accept_of t e = Some (ft_eob t).
Hypothesis Heob0 : ft_eob t <> 0.
Hypothesis He_jam : forall c, (c < 256)%N -> exists k, ec_of t c = Some k /\ trans t e k = Some (ft_jam t).
Hypothesis Hg_acc : forall q, good q -> exists a, accept_of t q = Some a.
Hypothesis Hg_c0 : forall q, good q -> trans t q c0 = Some e.
Hypothesis Hg_step : forall q c, good q -> (c < 256)%N ->
  exists k q', byte_class t c = Some k /\ trans t q k = Some q' /\ (q' = ft_jam t \/ good q').
Hypothesis Heol0 : eol_flag t 0 = false.
Hypothesis Hstart : good (ft_start t).
(* a non-empty text always has a match, by a rule (the catch-all rule of lexer.l) *)
Hypothesis Hmatch : forall s, bytes_ok s -> s <> [] ->
  exists len act, flex_match t s = Some (Some (len, act)) /\ (0 < len <= length s)%nat /\ act <> 0 /\ act <> ft_eob t.

Variable text : list N.
Hypothesis Htext : bytes_ok text.

Lemma yylex_generic : forall fuel pos line, 0 <= pos <= zlen text -> (length (suffix_at text pos) < fuel)%nat ->
  yylex t acts text fuel pos line = lex_expect text (flex_next_token fuel t acts (suffix_at text pos) line).
Proof.
  induction fuel as [| f IH]; intros pos line Hpos Hfuel; [lia |].
  rewrite yylex_S.
  assert (Hslen : length (suffix_at text pos) = (length text - Z.to_nat pos)%nat).
  { unfold suffix_at. apply skipn_length. }
  destruct (suffix_at text pos) as [| c rest1] eqn:Es.
  - cbn [length] in Hslen.
    assert (Ep : pos = n_chars text) by (unfold n_chars, zlen in *; lia).
    rewrite Ep.
    rewrite (one_match_eof t acts good c0 e Hc0 He_nj He_acc Heob0 He_jam Hg_acc Hg_c0 text Htext Hstart line).
    reflexivity.
  - assert (Hbs : bytes_ok (c :: rest1)). { rewrite <- Es. unfold suffix_at. apply bytes_ok_skipn. exact Htext. }
    destruct (Hmatch (c :: rest1) Hbs ltac:(discriminate)) as [len [act [Hfm [Hlen [Ha0 Hae]]]]].
    assert (Hlt : pos < n_chars text). { cbn [length] in Hslen. unfold n_chars, zlen. lia. }
    rewrite (one_match_verdict t acts good c0 e Hc0 He_nj He_acc Heob0 He_jam Hg_acc Hg_c0 Hg_step text Htext pos
               Heol0 Hstart (c :: rest1) len act line ltac:(lia) Es Hfm Ha0 Hae Hlt).
    rewrite flex_next_token_cons. rewrite Hfm. cbv zeta. unfold verdict.
    assert (Hsl : slice text pos (pos + Z.of_nat len) = firstn len (c :: rest1)).
    { unfold slice. replace (Z.to_nat (pos + Z.of_nat len - pos)) with len by lia.
      unfold suffix_at in Es. rewrite Es. reflexivity. }
    rewrite Hsl.
    destruct (nth_error acts (Z.to_nat (act - 1))) as [[[k |] |] |].
    + cbn [lex_expect]. f_equal.
      unfold zlen. rewrite skipn_length. rewrite Hslen. cbn [length] in Hlen, Hslen. lia.
    + assert (Hsuf : suffix_at text (pos + Z.of_nat len) = skipn len (c :: rest1)).
      { unfold suffix_at in *. rewrite <- Es. rewrite skipn_add. f_equal. lia. }
      rewrite <- Hsuf. apply IH.
      * cbn [length] in Hlen, Hslen. unfold zlen. lia.
      * rewrite Hsuf. rewrite skipn_length. cbn [length] in *. lia.
    + reflexivity.
    + reflexivity.
Qed.
End Yylex.

(* ================================================================================================ *)
(* 2. the reflective check of the end-of-buffer machinery of the tables                              *)
(* ================================================================================================ *)
Fixpoint zmem (q : Z) (l : list Z) : bool :=
  match l with [] => false | x :: r => (x =? q) || zmem q r end.

Lemma zmem_In : forall q l, zmem q l = true -> In q l.
Proof.
  induction l as [| x l IH]; intros H; cbn [zmem] in H; [discriminate |].
  apply orb_true_iff in H. destruct H as [H | H].
  - apply Z.eqb_eq in H. left. exact H.
  - right. apply IH. exact H.
Qed.

(* the end-of-buffer state jams on the class of every byte *)
Definition byte_ok_e (t : ftables) (e : Z) (c : N) : bool :=
  match znth (ft_ec t) (Z.of_N c) with
  | Some k => match next_state (chain_fuel t) t e k with Some q => q =? ft_jam t | None => false end
  | None => false
  end.

(* the states of qs are closed under the abstract step of every byte *)
Definition byte_ok_q (t : ftables) (qs : list Z) (q : Z) (c : N) : bool :=
  match byte_class t c with
  | Some k =>
      match next_state (chain_fuel t) t q k with
      | Some q' => (q' =? ft_jam t) || zmem q' qs
      | None => false
      end
  | None => false
  end.

(* every state of qs has an accept entry and goes to the end-of-buffer state on yy_ec[0] *)
Definition state_ok (t : ftables) (qs : list Z) (c0 e : Z) (q : Z) : bool :=
  match accept_of t q with Some _ => true | None => false end
  && match next_state (chain_fuel t) t q c0 with Some q' => q' =? e | None => false end
  && forallb (byte_ok_q t qs q) bytes256.

Definition check_skel (t : ftables) (qs : list Z) : bool :=
  match znth (ft_ec t) 0 with
  | Some c0 =>
      match next_state (chain_fuel t) t (ft_start t) c0 with
      | Some e =>
          zmem (ft_start t) qs
          && negb (e =? ft_jam t)
          && match accept_of t e with Some a => a =? ft_eob t | None => false end
          && negb (ft_eob t =? 0)
          && negb (eol_flag t 0)
          && forallb (byte_ok_e t e) bytes256
          && forallb (state_ok t qs c0 e) qs
      | None => false
      end
  | None => false
  end.

Lemma check_skel_sound : forall t qs, check_skel t qs = true ->
  exists c0 e,
    znth (ft_ec t) 0 = Some c0 /\
    e <> ft_jam t /\
    accept_of t e = Some (ft_eob t) /\
    ft_eob t <> 0 /\
    (forall c, (c < 256)%N -> exists k, ec_of t c = Some k /\ trans t e k = Some (ft_jam t)) /\
    (forall q, In q qs -> exists a, accept_of t q = Some a) /\
    (forall q, In q qs -> trans t q c0 = Some e) /\
    (forall q c, In q qs -> (c < 256)%N ->
       exists k q', byte_class t c = Some k /\ trans t q k = Some q' /\ (q' = ft_jam t \/ In q' qs)) /\
    eol_flag t 0 = false /\
    In (ft_start t) qs.
Proof.
  intros t qs H. unfold check_skel in H.
  destruct (znth (ft_ec t) 0) as [c0 |] eqn:Hc0; [| discriminate].
  destruct (next_state (chain_fuel t) t (ft_start t) c0) as [e |] eqn:He; [| discriminate].
  apply andb_true_iff in H. destruct H as [H Hqs].
  apply andb_true_iff in H. destruct H as [H Hej].
  apply andb_true_iff in H. destruct H as [H Heol].
  apply andb_true_iff in H. destruct H as [H Heob].
  apply andb_true_iff in H. destruct H as [H Hacc].
  apply andb_true_iff in H. destruct H as [Hst Hnj].
  exists c0, e.
  rewrite forallb_forall in Hej. rewrite forallb_forall in Hqs.
  split; [reflexivity |].
  split; [apply negb_true_iff in Hnj; apply Z.eqb_neq in Hnj; exact Hnj |].
  split.
  { destruct (accept_of t e) as [a |]; [| discriminate]. apply Z.eqb_eq in Hacc. subst a. reflexivity. }
  split; [apply negb_true_iff in Heob; apply Z.eqb_neq in Heob; exact Heob |].
  split.
  { intros c Hc. specialize (Hej c (In_bytes256 c Hc)). unfold byte_ok_e in Hej. unfold ec_of, trans.
    destruct (znth (ft_ec t) (Z.of_N c)) as [k |]; [| discriminate].
    destruct (next_state (chain_fuel t) t e k) as [q |] eqn:Eq; [| discriminate].
    apply Z.eqb_eq in Hej. subst q. exists k. split; [reflexivity | exact Eq]. }
  split.
  { intros q Hq. specialize (Hqs q Hq). unfold state_ok in Hqs.
    apply andb_true_iff in Hqs. destruct Hqs as [Hqs _]. apply andb_true_iff in Hqs. destruct Hqs as [Hqs _].
    destruct (accept_of t q) as [a |]; [| discriminate]. exists a. reflexivity. }
  split.
  { intros q Hq. specialize (Hqs q Hq). unfold state_ok in Hqs.
    apply andb_true_iff in Hqs. destruct Hqs as [Hqs _]. apply andb_true_iff in Hqs. destruct Hqs as [_ Hqs].
    unfold trans. destruct (next_state (chain_fuel t) t q c0) as [q' |]; [| discriminate].
    apply Z.eqb_eq in Hqs. subst q'. reflexivity. }
  split.
  { intros q c Hq Hc. specialize (Hqs q Hq). unfold state_ok in Hqs.
    apply andb_true_iff in Hqs. destruct Hqs as [_ Hqs]. rewrite forallb_forall in Hqs.
    specialize (Hqs c (In_bytes256 c Hc)). unfold byte_ok_q in Hqs. unfold trans.
    destruct (byte_class t c) as [k |]; [| discriminate].
    destruct (next_state (chain_fuel t) t q k) as [q' |] eqn:Eq; [| discriminate].
    exists k, q'. split; [reflexivity |]. split; [exact Eq |].
    apply orb_true_iff in Hqs. destruct Hqs as [Hj | Hm].
    - left. apply Z.eqb_eq in Hj. exact Hj.
    - right. apply zmem_In. exact Hm. }
  split; [apply negb_true_iff in Heol; exact Heol |].
  apply zmem_In. exact Hst.
Qed.

(* ================================================================================================ *)
(* 3. the instance                                                                                   *)
(* ================================================================================================ *)
Definition flex_qs : list Z := Eval vm_compute in map fst flex_assoc.

Lemma flex_check_skel : check_skel flex_tables flex_qs = true.
Proof. vm_compute. reflexivity. Qed.

(* the `.|\n` rule of lexer.l *)
Lemma skel_catch_all : catch_all rules.
Proof.
  intro c. exists 38%nat, (Alt Any (Chr 10)), (Some NV_ID). split; [reflexivity |].
  destruct (N.eqb_spec c 10) as [E | E].
  - subst c. apply M_AltR. constructor.
  - apply M_AltL. unfold Any. constructor. unfold cmatch, in_rng. cbn [existsb fst snd].
    destruct (N.leb_spec 10 c) as [H1 | H1]; destruct (N.leb_spec c 10) as [H2 | H2];
      cbn [andb orb xorb negb]; try reflexivity.
    exfalso. apply E. lia.
Qed.

Lemma rules_length : length rules = 39%nat.
Proof. reflexivity. Qed.

Lemma flex_eob_41 : ft_eob flex_tables = 41.
Proof. reflexivity. Qed.

Lemma flex_match_some : forall s, bytes_ok s -> s <> [] ->
  exists len act, flex_match flex_tables s = Some (Some (len, act)) /\ (0 < len <= length s)%nat /\
                  act <> 0 /\ act <> ft_eob flex_tables.
Proof.
  intros s Hs Hne. rewrite (C14_dfa_equiv_proof s Hs).
  destruct s as [| c s']; [contradiction |].
  destruct (max_munch rules (c :: s')) as [[len i] |] eqn:E.
  - exists len, (Z.of_nat i + 1). split; [reflexivity |].
    split; [exact (max_munch_bounds _ _ _ _ E) |].
    split; [lia |].
    apply max_munch_sound in E. destruct E as [_ [[r [a [Hn _]]] _]].
    assert (Hi : (i < length rules)%nat). { apply nth_error_Some. rewrite Hn. discriminate. }
    rewrite rules_length in Hi. rewrite flex_eob_41. lia.
  - exfalso. exact (catch_all_some rules c s' skel_catch_all E).
Qed.

Lemma C14_skeleton_proof : C14_skeleton_stmt.
Proof.
  intros text pos line Htext Hpos s.
  destruct (check_skel_sound flex_tables flex_qs flex_check_skel)
    as [c0 [e [Hc0 [He_nj [He_acc [Heob0 [He_jam [Hg_acc [Hg_c0 [Hg_step [Heol0 Hstart]]]]]]]]]]].
  exact (yylex_generic flex_tables flex_actions (fun q => In q flex_qs) c0 e
           Hc0 He_nj He_acc Heob0 He_jam Hg_acc Hg_c0 Hg_step Heol0 Hstart flex_match_some
           text Htext (S (length s)) pos line Hpos (Nat.lt_succ_diag_r _)).
Qed.

Lemma C14_yylex_is_next_token_proof : C14_yylex_is_next_token_stmt.
Proof.
  intros text pos line Htext Hpos s.
  rewrite <- (C14_flex_next_token_proof (S (length s)) s line).
  - exact (C14_skeleton_proof text pos line Htext Hpos).
  - unfold s, suffix_at. apply bytes_ok_skipn. exact Htext.
Qed.

Print Assumptions C14_skeleton_proof.
Print Assumptions C14_yylex_is_next_token_proof.
