(* SemStatements.v — statements about the reference semantics and its relation to stepping (C01, C07, C16). *)
From Theo Require Import Base Tokens MacroExtract Parser VMModel VMSpec VMStatements RefSem.
Local Open Scope Z_scope.

(* ===== C01 (reference semantics is a function of the source; more budget never changes a finished run) ===== *)
Definition finished (o : outcome) : Prop := match o with OFuel => False | _ => True end.

Definition C01_ref_fuel_mono_stmt : Prop :=
  forall rs fuel ctx k a pc steps trace,
    finished (run rs fuel ctx k a pc steps trace) ->
    forall fuel', (fuel <= fuel')%nat -> run rs fuel' ctx k a pc steps trace = run rs fuel ctx k a pc steps trace.

(* the step count of a finished run is at least the number of sites it passed, and counts every instruction once *)
Definition C01_ref_steps_stmt : Prop :=
  forall rs fuel ctx k a pc steps trace,
    match run rs fuel ctx k a pc steps trace with
    | ODone _ st tr | OStop _ st tr => (steps <= st)%nat /\ (length trace <= length tr)%nat /\
                                       (length tr - length trace <= st - steps)%nat
    | _ => True
    end.

(* the full statement of C01, not yet proved (DESIGN.md C01; T3): kept visible here.
   compile_model = Compile.compile; views projected to user variables. *)

(* ===== C16 (the call graph of every flattened source is acyclic: callees are earlier definitions) ========== *)
Fixpoint calls_below (k : nat) (v : rvalue) : bool :=
  match v with
  | RVar _ | RNum _ => true
  | RInc y _ | RDec y _ => calls_below k y
  | RCall j args => Nat.ltb j k && forallb (calls_below k) args
  end.
Definition instr_calls_below (k : nat) (i : rinstr) : bool :=
  match i with
  | RAssign _ v | RLoopInit _ v | RWhileTest v _ => calls_below k v
  | RIfGoto a b _ => calls_below k a && calls_below k b
  | _ => true
  end.
Definition C16_calls_earlier_stmt : Prop :=
  forall root rs, abstract_source root = Some rs ->
    forall k r, nth_error rs k = Some r -> forallb (instr_calls_below k) (r_code r) = true.

(* hence the reference machine never holds more activations than there are routines *)
Definition C16_ref_depth_stmt : Prop :=
  forall rs, (forall k r, nth_error rs k = Some r -> forallb (instr_calls_below k) (r_code r) = true) ->
    forall fuel ctx k a pc steps trace,
      (k < length rs)%nat ->
      match run rs fuel ctx k a pc steps trace with
      | ODone _ _ tr | OStop _ _ tr =>
          forall l vs, In (l, vs) tr -> In (l, vs) trace \/ (length vs <= length ctx + k + 1)%nat
      | _ => True
      end.

(* ===== C07 (in stepping mode the machine stops exactly on the breakpoint sites of the instruction path) ====== *)
Definition C07_stops_are_sites_stmt : Prop :=
  forall p s s' b, tables_ok p = true -> rel p s -> stepping s = true -> exec1 s = Ok (s', b) ->
    (b = true <-> ((exists o, op_at s (ip s) = Some o /\ is_break_op o = true) \/ halt_at s (ip s))) /\
    (b = true -> ~ halt_at s (ip s) ->
       exists l, alookup z_ltb (line_info p) (ip s) = Some l /\ getCurrentBreak s' = Some l /\ In l (available p)).
