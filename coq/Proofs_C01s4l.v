(* Proofs_C01s4l.v — C01, stage 4, part 12: the STATIC part, finished routines.
   What is kept about a routine whose code has been emitted (FRok: its blocks, its labels, its registers and
   parameters), why later code generation does not disturb it, the chain of jumps that leads over the definitions to
   the main program (PreOK), the parameters of a definition, and the start of the walk over a routine body. *)
From Coq Require Import List ZArith NArith Lia Bool.
From Theo Require Import Base Tokens Errors MacroExtract Parser VMModel VMSpec GenModel Compile RefSem RefSemChk C01Statements C01Stages C01Stages3 C01Stages4 Gen_Consts Proofs_VM_mem Proofs_VM_dbg Proofs_Gen0 Proofs_Gen Proofs_Sem Proofs_C01a Proofs_C01b Proofs_C01 Proofs_C01s2a Proofs_C01s2b Proofs_C01s2c Proofs_C01s2d Proofs_C01s2 Proofs_C01s3a Proofs_C01s3b Proofs_C01s3c Proofs_C01s3d Proofs_C01s4a Proofs_C01s4b Proofs_C01s4g Proofs_C01s4h Proofs_C01s4i Proofs_C01s4j Proofs_C01s4k.
Import ListNotations.
Local Open Scope Z_scope.

(* ================================================================================================ *)
(* 1. a finished routine                                                                            *)
(* ================================================================================================ *)
(* the label held by a jump, without the to-do list (every jump of the final code is on it, see AllJ) *)
Definition jpreL (lmap : list Z) (marks : list (str * Z)) : jrel3 :=
  fun q f tg => match tg with JId e => znth lmap e = Some f | JLab l => alookup str_ltb marks l = Some f end.

Record FRfacts (code : list instr) (labels : list Z) (FT : ftab) (r : routine) (P0 : Z) (regs : list vreg)
       (lo hi : Z) (lmap : list Z) (marks : list (str * Z)) (L : Z) : Prop := mkFRf {
  frf_cm : forall pc i, znth (r_code r) pc = Some i ->
             imatch4 (RMof (map key regs)) code FT (jpreL lmap marks) (pm_of4 P0 (r_code r) pc) i;
  frf_str : forall e lab, znth lmap e = Some lab -> lo <= lab < hi /\
             exists lv t, znth labels lab = Some lv /\ znth (r_targets r) e = Some t /\ -1 <= t <= zlen (r_code r) /\
                          (0 <= t -> lv = pm_of4 P0 (r_code r) t);
  frf_mark : forall nm lab, alookup str_ltb marks nm = Some lab -> lo <= lab < hi /\
             exists lv, znth labels lab = Some lv /\ -1 <= label_pos (r_labels r) nm <= zlen (r_code r) /\
                        (0 <= label_pos (r_labels r) nm -> lv = pm_of4 P0 (r_code r) (label_pos (r_labels r) nm));
  frf_rw : RW (map key regs) L;
  frf_jv : JV (map key regs) (r_vars r);
  frf_par : forall i p, nth_error (r_params r) i = Some p -> lexable p = true /\ frk (map key regs) p 0 = Some (Z.of_nat i);
  frf_nd : NoDup (r_params r);
  frf_p0 : 1 <= P0 }.

Definition FRok (code : list instr) (labels : list Z) (FT : ftab) (r : routine) (P0 : Z) (regs : list vreg) (lo hi : Z) : Prop :=
  exists lmap marks L, FRfacts code labels FT r P0 regs lo hi lmap marks L.

Lemma FRok_stable code labels FT r P0 regs lo hi code' labels' FT' :
  FRok code labels FT r P0 regs lo hi ->
  (exists blk, code' = code ++ blk) ->
  (forall lab, lo <= lab < hi -> znth labels' lab = znth labels lab) -> ft_le FT FT' ->
  FRok code' labels' FT' r P0 regs lo hi.
Proof.
  intros (lmap & marks & L & [H1 H2 H3 H4 H5 H6 H7 H8]) [blk ->] Hl HF. exists lmap, marks, L. constructor; auto.
  - intros pc i Hi. eapply imatch4_mono; [apply rm_le_refl | exact HF | | apply H1; exact Hi]. auto.
  - intros e lab He. destruct (H2 _ _ He) as (R & lv & t & A & B). split; [exact R|]. exists lv, t. rewrite Hl by exact R. exact (conj A B).
  - intros nm lab Hm. destruct (H3 _ _ Hm) as (R & lv & A & B). split; [exact R|]. exists lv. rewrite Hl by exact R. exact (conj A B).
Qed.

(* from the invariant at the end of a routine body *)
Lemma FRok_of_J4 P0 FT LS g s lmap r :
  J4 P0 FT LS g s lmap 0 -> 1 <= P0 ->
  r_code r = b_code (f_cur s) -> r_targets r = b_targets (f_cur s) -> r_labels r = b_labels (f_cur s) ->
  r_vars r = b_vars (f_cur s) ->
  (forall i p, nth_error (r_params r) i = Some p -> lexable p = true /\ frk (gks g) p 0 = Some (Z.of_nat i)) ->
  NoDup (r_params r) ->
  FRok (g_code g) (g_labels g) FT r P0 (gregs g) (zlen LS) (zlen (g_labels g)).
Proof.
  intros (_ & HB & _ & _) HP Ec Et El Ev Hpar Hnd. destruct HB as (HC & HL & HT & HR & HV & HL0 & _).
  exists lmap, (gmarks g), (g_loops g). fold (gks g). constructor; auto.
  - rewrite Ec. intros pc i Hi. destruct HC as (_ & HM & _).
    eapply imatch4_move; [apply rm_le_refl | intros j x H; exact H | intros q' ins _ Hz _; exact Hz | | apply HM; exact Hi].
    apply imatch3_mono; [apply rm_le_refl | auto |]. intros q' f e _ [_ B]. exact B.
  - intros e lab He. destruct (jl4_str _ _ _ _ _ _ _ _ HL _ _ He) as (A & _ & lv & t & B1 & B2 & B3 & B4).
    split; [pose proof (jl4_lo_s _ _ _ _ _ _ _ _ HL _ _ He); lia|]. exists lv, t. rewrite Ec, Et. auto.
  - intros nm lab Hm. destruct (jl4_mark _ _ _ _ _ _ _ _ HL _ _ Hm) as (lv & B1 & B3 & B4).
    split; [pose proof (jl4_lo_m _ _ _ _ _ _ _ _ HL _ _ Hm); pose proof (jl4_mrng _ _ _ _ _ _ _ _ HL _ _ Hm); lia|].
    exists lv. rewrite Ec, El. auto.
  - rewrite Ev. exact HV.
Qed.

(* ================================================================================================ *)
(* 2. the jumps over the definitions                                                                *)
(* ================================================================================================ *)
Fixpoint PreOK (code : list instr) (labels : list Z) (q : Z) (pre : list (Z * Z)) (qend : Z) : Prop :=
  match pre with
  | [] => q = qend
  | (q0, lab) :: rest =>
      q0 = q /\ znth code q = Some (IJmp lab) /\
      exists tgt, znth labels lab = Some tgt /\ PreOK code labels tgt rest qend
  end.

Lemma PreOK_stable code labels pre code' labels' : forall q qend,
  PreOK code labels q pre qend ->
  (exists blk, code' = code ++ blk) ->
  (forall lab, In lab (map snd pre) -> znth labels' lab = znth labels lab) ->
  PreOK code' labels' q pre qend.
Proof.
  induction pre as [|[q0 lab] rest IH]; intros q qend H [blk ->] Hl; cbn [PreOK] in *; [exact H|].
  destruct H as (E & Hz & tgt & Hlab & Hrest). split; [exact E|]. split; [apply znth_app_some; exact Hz|].
  exists tgt. split; [rewrite Hl; [exact Hlab | left; reflexivity]|].
  apply IH; auto; [eexists; reflexivity|]. intros lab' Hin'. apply Hl. right; exact Hin'.
Qed.

Lemma PreOK_snoc code labels pre : forall q qend lab tgt,
  PreOK code labels q pre qend -> znth code qend = Some (IJmp lab) -> znth labels lab = Some tgt ->
  PreOK code labels q (pre ++ [(qend, lab)]) tgt.
Proof.
  induction pre as [|[q0 l0] rest IH]; intros q qend lab tgt H Hz Hl; cbn [PreOK app] in *.
  - subst q. split; [reflexivity|]. split; [exact Hz|]. exists tgt. split; [exact Hl | reflexivity].
  - destruct H as (E & Hz0 & tgt0 & Hlab0 & Hrest). split; [exact E|]. split; [exact Hz0|].
    exists tgt0. split; [exact Hlab0|]. eapply IH; eauto.
Qed.

(* ================================================================================================ *)
(* 3. advancing to a line, and removing the site again                                              *)
(* ================================================================================================ *)
Lemma at_loc_adv g line file : at_loc (gpos (advance_line g line file)) file line.
Proof.
  unfold advance_line, at_loc, gpos. destruct (str_eqb file hidden_file) eqn:E1; [left; reflexivity|].
  destruct (str_eqb (g_fsname g) file) eqn:E2.
  - apply str_eqb_eq in E2. destruct (Z.eqb_spec line (g_fsline g)) as [->|]; right; cbn; congruence.
  - right. reflexivity.
Qed.

Lemma removelast_snoc {A} (l : list A) x : removelast (l ++ [x]) = l.
Proof. rewrite removelast_app by discriminate. cbn. apply app_nil_r. Qed.

(* the PROGRAM header: a site placed for its line is taken back, on both sides *)
Lemma header_site g s line file g0 :
  code_last_pb (g_code g) = false -> b_code (f_cur s) = [] -> f_pos s = gpos g ->
  remove_top_pot_break false (advance_line g line file) = Ok g0 ->
  g_code g0 = g_code g /\ g_syms g0 = g_syms g /\ g_labels g0 = g_labels g /\ g_todo g0 = g_todo g /\
  g_loops g0 = g_loops g /\ g_maps g0 = g_maps g /\ g_funcs g0 = g_funcs g /\
  gpos g0 = gpos (advance_line g line file) /\
  let s1 := move_to s file line in
  f_pos s1 = gpos g0 /\ f_done s1 = f_done s /\ f_names s1 = f_names s /\ f_loops s1 = f_loops s /\
  b_name (f_cur s1) = b_name (f_cur s) /\ b_params (f_cur s1) = b_params (f_cur s) /\
  b_labels (f_cur s1) = b_labels (f_cur s) /\ b_targets (f_cur s1) = b_targets (f_cur s) /\ b_vars (f_cur s1) = b_vars (f_cur s) /\
  (if last_is_site (f_cur s1) then removelast (b_code (f_cur s1)) else b_code (f_cur s1)) = [].
Proof.
  intros Hlast Hbc Hpos H.
  assert (Hcases : (advance_line g line file = g /\ move_to s file line = s) \/
                   (exists F, F = file /\ advance_line g line file = breakpoint (upd_fs g F line) /\
                      move_to s file line = mkF (f_done s) (f_names s) (bemit (f_cur s) (RSite (file, line))) (file, line) (f_loops s))).
  { unfold advance_line, move_to. rewrite Hpos. unfold gpos. cbn [fst snd].
    destruct (str_eqb file hidden_file); [left; auto|].
    destruct (str_eqb (g_fsname g) file) eqn:E2.
    - apply str_eqb_eq in E2. rewrite (Z.eqb_sym line). destruct (g_fsline g =? line); cbn [andb]; [left; auto|].
      right. exists (g_fsname g). auto.
    - cbn [andb]. right. exists file. auto. }
  destruct Hcases as [[Ea Em]|(F & EF & Ea & Em)].
  - rewrite Ea in *. rewrite Em. cbv zeta.
    unfold remove_top_pot_break in H. binv H. rename a into i. rename H0 into Hi.
    assert (Hop : opcode_eqb (iop i) POTENTIAL_BREAK = false).
    { unfold code_last_pb in Hlast. unfold code_back in Hi. destruct (rev (g_code g)); [discriminate Hi|].
      cbn [hd_error of_opt] in Hi. inversion Hi; subst. exact Hlast. }
    rewrite Hop in H. inversion H; subst g0.
    repeat (split; [reflexivity|]). split; [exact Hpos|]. repeat (split; [reflexivity|]).
    unfold last_is_site. rewrite Hbc. reflexivity.
  - subst F. rewrite Ea in *. rewrite Em. cbv zeta.
    unfold remove_top_pot_break in H. binv H. rename a into i. rename H0 into Hi.
    assert (Ei : i = IPotentialBreak).
    { unfold code_back in Hi. unfold breakpoint, emit in Hi. cbn [upd_code upd_tables upd_fs g_code] in Hi.
      rewrite rev_app_distr in Hi. cbn in Hi. inversion Hi. reflexivity. }
    subst i. cbn [iop IPotentialBreak opcode_eqb] in H. binv H. inversion H; subst g0.
    unfold breakpoint, emit. cbn [upd_code upd_tables upd_fs g_code g_syms g_labels g_todo g_loops g_maps g_funcs gpos g_fsname g_fsline].
    rewrite removelast_snoc.
    repeat (split; [reflexivity|]). cbn [f_pos f_done f_names f_loops f_cur bemit b_name b_params b_labels b_targets b_vars b_code].
    repeat (split; [reflexivity|]). unfold last_is_site. cbn [bemit b_code]. rewrite Hbc. reflexivity.
Qed.

(* ================================================================================================ *)
(* 4. the parameters of a definition                                                                *)
(* ================================================================================================ *)
Definition pkeys (ps : list str) : list (str * bool) := map (fun p => (p, false)) ps.

Lemma map_key_var_regs ps : map key (map var_reg ps) = pkeys ps.
Proof. unfold pkeys. rewrite map_map. reflexivity. Qed.

Lemma params_tables L : forall ps ks vars,
  RW ks L -> JV ks vars -> Forall (fun p => lexable p = true) ps -> NoDup ps -> (forall p, In p ps -> frk ks p 0 = None) ->
  RW (ks ++ pkeys ps) L /\ JV (ks ++ pkeys ps) (vars ++ ps) /\
  (forall i p, nth_error ps i = Some p -> frk (ks ++ pkeys ps) p 0 = Some (zlen ks + Z.of_nat i)).
Proof.
  induction ps as [|x ps IH]; intros ks vars HR HV Hlex Hnd Hfr.
  - cbn [pkeys map]. rewrite !app_nil_r. split; [exact HR|]. split; [exact HV|]. intros i p H; destruct i; discriminate.
  - inversion Hlex as [|? ? Hx Hlex']; subst. inversion Hnd as [|? ? Hnin Hnd']; subst.
    pose proof (Hfr x (or_introl eq_refl)) as Hfx.
    pose proof (RW_add_user ks L x Hx HR) as HR1. pose proof (JV_add_user ks vars x Hx HV) as HV1.
    unfold ks_add in HR1, HV1. rewrite Hfx in HR1, HV1.
    assert (Hml : mention_l vars x = vars ++ [x]).
    { unfold mention_l. destruct (existsb (str_eqb x) vars) eqn:E; [|reflexivity]. exfalso.
      apply existsb_str in E. destruct HV as (_ & H2 & _). destruct (H2 _ E) as (_ & i & Hi). congruence. }
    rewrite Hml in HV1.
    destruct (IH (ks ++ [(x, false)]) (vars ++ [x]) HR1 HV1 Hlex' Hnd') as (A & B & Cc).
    { intros p Hp. rewrite frk_snoc. rewrite (Hfr p (or_intror Hp)). destruct (str_eqb x p) eqn:E; [|reflexivity].
      apply str_eqb_eq in E. subst p. contradiction. }
    cbn [pkeys map]. change (map (fun p => (p, false)) ps) with (pkeys ps).
    replace (ks ++ (x, false) :: pkeys ps) with ((ks ++ [(x, false)]) ++ pkeys ps) by (rewrite <- app_assoc; reflexivity).
    replace (vars ++ x :: ps) with ((vars ++ [x]) ++ ps) by (rewrite <- app_assoc; reflexivity).
    split; [exact A|]. split; [exact B|]. intros i p Hi. destruct i as [|i]; cbn [nth_error] in Hi.
    + inversion Hi; subst p. apply frk_app_some. rewrite frk_snoc, Hfx, str_eqb_refl. f_equal. cbn. lia.
    + rewrite (Cc i p Hi). rewrite zlen_snoc, Nat2Z.inj_succ. f_equal. lia.
Qed.

Lemma params4_names a : params4 a = true -> lexable_names a = true -> Forall (fun p => lexable p = true) (param_names a).
Proof.
  induction a as [t line file tok l r IHl IHr] using Proofs_Gen0.node_ind'. intros Hp Hlex.
  destruct t; try discriminate Hp. destruct l as [id|]; [|discriminate Hp]. cbn [params4] in Hp.
  apply andb_true_iff in Hp. destruct Hp as [Hid Hmore]. destruct (leaf_name_inv _ Hid) as (el & ef & x & ->).
  cbn [lexable_names] in Hlex. rewrite !andb_true_iff in Hlex. destruct Hlex as [[_ [[Hx _] _]] Hlr].
  cbn [param_names]. constructor; [exact Hx|]. destruct r as [m|]; [|constructor]. cbn [optP] in IHr. apply IHr; assumption.
Qed.

Lemma da_params : forall a, params4 a = true -> forall g f tls, g_syms g = f :: tls ->
  (forall p, In p (param_names a) -> find_reg (f_regs f) p 0 = None) -> NoDup (param_names a) ->
  dispatch_args_n false a g =
  Ok (upd_syms g (mkFGS (f_name f) (f_regs f ++ map var_reg (param_names a)) (f_argnum f + zlen (param_names a)) (f_marks f) :: tls)).
Proof.
  induction a as [t line file tok l r IHl IHr] using Proofs_Gen0.node_ind'. intros Hp g f tls Es Hfr Hnd.
  destruct t; try discriminate Hp. destruct l as [id|]; [|discriminate Hp]. cbn [params4] in Hp.
  apply andb_true_iff in Hp. destruct Hp as [Hid Hmore]. destruct (leaf_name_inv _ Hid) as (el & ef & x & ->).
  cbn [param_names] in *. cbn [app] in *.
  rewrite da_split. cbn [dispatch_args]. rewrite da_leaf by discriminate.
  unfold get_symbols. rewrite Es. cbn [hd_error of_opt bind].
  rewrite (Hfr x (or_introl eq_refl)). unfold fetch_variable, get_symbols, set_symbols. rewrite Es.
  cbn [upd_syms g_syms tl hd_error of_opt bind f_regs f_name f_argnum f_marks].
  rewrite (Hfr x (or_introl eq_refl)). cbn [bind fst upd_syms g_syms tl f_regs f_name f_argnum f_marks].
  inversion Hnd as [|? ? Hnin Hnd']; subst.
  destruct r as [m|]; cbn [dispatch_args].
  - cbn [optP] in IHr.
    match goal with |- dispatch_args_n false m ?g1 = _ =>
      rewrite (IHr Hmore g1 (mkFGS (f_name f) (f_regs f ++ [mkVReg true false x]) (f_argnum f + 1) (f_marks f)) tls eq_refl) end.
    + cbn [upd_syms g_syms f_regs f_name f_argnum f_marks]. rewrite zlen_cons. rewrite <- app_assoc. cbn [app map var_reg].
      unfold upd_syms. cbn [g_code g_maps g_pb g_li g_errs g_syms g_funcs g_labels g_todo g_loops g_fsname g_fsline].
      replace (f_argnum f + 1 + zlen (param_names m)) with (f_argnum f + (zlen (param_names m) + 1)) by lia. reflexivity.
    + intros p Hp. cbn [f_regs]. rewrite find_reg_snoc, (Hfr p (or_intror Hp)). cbn [vname].
      destruct (str_eqb x p) eqn:E; [|reflexivity]. apply str_eqb_eq in E. subst p. contradiction.
    + exact Hnd'.
  - cbn [map app]. unfold zlen. cbn [length]. reflexivity.
Qed.

Lemma fold_mention_fields ps : forall b, NoDup ps -> (forall p, In p ps -> ~ In p (b_vars b)) ->
  let b' := fold_left mention ps b in
  b_vars b' = b_vars b ++ ps /\ b_code b' = b_code b /\ b_labels b' = b_labels b /\ b_targets b' = b_targets b /\
  b_name b' = b_name b /\ b_params b' = b_params b.
Proof.
  induction ps as [|x ps IH]; intros b Hnd Hnin; cbn [fold_left]; [rewrite app_nil_r; repeat split|].
  inversion Hnd as [|? ? Hx Hnd']; subst.
  assert (Em : mention b x = mkB (b_name b) (b_params b) (b_code b) (b_labels b) (b_targets b) (b_vars b ++ [x])).
  { unfold mention. destruct (existsb (str_eqb x) (b_vars b)) eqn:E; [|reflexivity]. exfalso.
    apply existsb_str in E. exact (Hnin x (or_introl eq_refl) E). }
  rewrite Em. destruct (IH (mkB (b_name b) (b_params b) (b_code b) (b_labels b) (b_targets b) (b_vars b ++ [x])) Hnd') as (A & B).
  { intros p Hp Hin. cbn [b_vars] in Hin. apply in_app_or in Hin. destruct Hin as [Hin|[<-|[]]]; [exact (Hnin p (or_intror Hp) Hin) | contradiction]. }
  cbn [b_vars b_code b_labels b_targets b_name b_params] in *. rewrite A, <- app_assoc. split; [reflexivity | exact B].
Qed.

Lemma no_dup_NoDup l : no_dup l = true -> NoDup l.
Proof.
  induction l as [|x l IH]; cbn [no_dup]; intros H; [constructor|]. apply andb_true_iff in H. destruct H as [H1 H2].
  constructor; [|apply IH; exact H2]. intros Hin. apply negb_true_iff in H1.
  assert (existsb (str_eqb x) l = true) by (apply existsb_str; exact Hin). congruence.
Qed.
