(* Proofs_Names2.v — helpers for Proofs_Names.v, part 2: the parser.  Every node of the delivered tree carries the empty
   text or the text of a token of the parsed stream; and when the parser reports no error, a NAME node carries the text
   of a token of kind ID or END. *)
From Coq Require Import List ZArith NArith Lia Bool.
From Theo Require Import Base Regex Tokens Errors Lexer Scan MacroExtract Grammar LR MacroApply Parser VMModel GenModel Compile
                         Gen_Lexer Gen_Consts Proofs_Front.
Import ListNotations.
Local Open Scope Z_scope.

(* ---- a predicate at every node ------------------------------------------------------------------------ *)
Fixpoint tall (Q : ntype -> str -> Prop) (n : node) : Prop :=
  match n with
  | Node t _ _ tok l r =>
      Q t tok /\ (match l with Some x => tall Q x | None => True end)
              /\ (match r with Some x => tall Q x | None => True end)
  end.
Definition oall (Q : ntype -> str -> Prop) (o : option node) : Prop :=
  match o with Some n => tall Q n | None => True end.

Lemma tall_mono (Q Q' : ntype -> str -> Prop) : (forall ty tok, Q ty tok -> Q' ty tok) ->
  forall n, tall Q n -> tall Q' n.
Proof.
  intros HQ. fix IH 1. intros [t line file tok l r] (A & B & C). cbn [tall]. split; [apply HQ; exact A|]. split.
  - destruct l as [x|]; [apply IH; exact B|exact I].
  - destruct r as [x|]; [apply IH; exact C|exact I].
Qed.

Lemma oall_mono (Q Q' : ntype -> str -> Prop) : (forall ty tok, Q ty tok -> Q' ty tok) ->
  forall o, oall Q o -> oall Q' o.
Proof. intros HQ [n|] H; [eapply tall_mono; eassumption|exact I]. Qed.

Lemma tall_mk (Q : ntype -> str -> Prop) ty like l r : Q ty [] -> oall Q l -> oall Q r -> tall Q (mk ty like l r).
Proof. intros A B C. unfold mk. cbn [tall]. split; [exact A|]. split; [destruct l|destruct r]; assumption. Qed.

(* weak: the text of some token;  strict: for a NAME, of a token of kind ID or END *)
Definition Qw (L : list token) (ty : ntype) (tok : str) : Prop :=
  tok = [] \/ exists t, In t L /\ ttext t = tok.
Definition Qs (L : list token) (ty : ntype) (tok : str) : Prop :=
  tok = [] \/ exists t, In t L /\ ttext t = tok /\ (ty = N_NAME -> tk t = ID \/ tk t = END).

Lemma Qw_incl L L' ty tok : incl L L' -> Qw L ty tok -> Qw L' ty tok.
Proof. intros HI [E|(t & Ht & E)]; [left; exact E|right; exists t; split; [apply HI; exact Ht|exact E]]. Qed.
Lemma Qs_incl L L' ty tok : incl L L' -> Qs L ty tok -> Qs L' ty tok.
Proof. intros HI [E|(t & Ht & E)]; [left; exact E|right; exists t; split; [apply HI; exact Ht|exact E]]. Qed.

Lemma ow_mono L L' o : incl L L' -> oall (Qw L) o -> oall (Qw L') o.
Proof. intros HI. apply oall_mono. intros ty tok. apply Qw_incl. exact HI. Qed.
Lemma tw_mono L L' n : incl L L' -> tall (Qw L) n -> tall (Qw L') n.
Proof. intros HI. apply tall_mono. intros ty tok. apply Qw_incl. exact HI. Qed.

(* the conditional part of the invariant: without an error afterwards there was none before, and the tree is strict *)
Definition cond (s' s : pst) (L : list token) (o : option node) : Prop :=
  p_errs s' = [] -> p_errs s = [] /\ oall (Qs L) o.

Lemma cond_mono s' s L L' o : incl L L' -> cond s' s L o -> cond s' s L' o.
Proof.
  intros HI C E. destruct (C E) as [A B]. split; [exact A|]. revert B. apply oall_mono. intros ty tok. apply Qs_incl. exact HI.
Qed.

(* ---- errors only accumulate -------------------------------------------------------------------------- *)
Lemma perror_errs s k s' : perror s k = Ok s' -> p_errs s' = [] -> False.
Proof.
  intros H E. unfold perror in H. apply pp_bind_inv in H. destruct H as (t & _ & H). inversion H; subst s'.
  cbn [p_errs] in E. apply app_eq_nil in E. destruct E as [_ E]. discriminate.
Qed.

Lemma pmatch_errs s k s' : pmatch s k = Ok s' -> p_errs s' = [] -> p_errs s = [] /\ la s = Ok k.
Proof.
  intros H E. unfold pmatch in H.
  apply pp_bind_inv in H. destruct H as (k0 & EL & H).
  apply pp_bind_inv in H. destruct H as (s1 & E1 & H).
  apply pp_bind_inv in H. destruct H as (k1 & _ & H).
  assert (E' : p_errs s1 = []).
  { destruct k1; inversion H; subst s'; exact E. }
  destruct (tk_eqb k0 k) eqn:K.
  - inversion E1; subst s1. apply xe_tk_eqb_eq in K. subst k0. split; assumption.
  - exfalso. apply pp_bind_inv in E1. destruct E1 as (s2 & E2 & E1). inversion E1; subst s1. cbn [p_errs] in E'.
    eapply perror_errs; eassumption.
Qed.

Lemma pmatch_errs' s k s' : pmatch s k = Ok s' -> p_errs s' = [] -> p_errs s = [].
Proof. intros H E. apply (pmatch_errs _ _ _ H E). Qed.

Lemma matchmk_names s k ty n s' : (ty = N_NAME -> k = ID \/ k = END) -> matchmk s k ty = Ok (n, s') ->
  incl (p_rest s') (p_rest s) /\ tall (Qw (p_rest s)) n /\ cond s' s (p_rest s) (Some n).
Proof.
  intros SIDE H. unfold matchmk in H.
  apply pp_bind_inv in H. destruct H as (t & E & H).
  apply pp_bind_inv in H. destruct H as (s1 & E1 & H).
  inversion H; subst n s1.
  assert (IN : In t (p_rest s)).
  { unfold cur in E. destruct (p_rest s); simpl in E; inversion E; subst. left; reflexivity. }
  split; [eapply pmatch_inv; exact E1|]. split.
  - cbn [tall]. split; [|split; exact I]. right. exists t. split; [exact IN|reflexivity].
  - intros EE. destruct (pmatch_errs _ _ _ E1 EE) as [A B]. split; [exact A|]. cbn [oall tall].
    split; [|split; exact I]. right. exists t. split; [exact IN|]. split; [reflexivity|].
    intros TY. unfold la in B. rewrite E in B. cbn [bind] in B. inversion B as [B']. rewrite B'. exact (SIDE TY).
Qed.

(* ---- the grammar functions ----------------------------------------------------------------------------- *)
Definition npost (L : list token) (s : pst) (r : option node) (s' : pst) : Prop :=
  incl (p_rest s') L /\ oall (Qw L) r /\ cond s' s L r.

Ltac nchain E s0 :=
  match type of E with incl _ (p_rest ?si) =>
    match goal with I : incl (p_rest si) (p_rest s0) |- _ =>
      apply (fun e => incl_tran e I) in E end end.

Ltac sat :=
  repeat match goal with
         | H : False |- _ => destruct H
         | H : _ /\ _ |- _ => destruct H
         | H : p_errs ?x = [] -> _ , E : p_errs ?x = [] |- _ => specialize (H E)
         end.

Ltac tsolve :=
  repeat (cbn [oall]; first [exact I | assumption | apply tall_mk; [left; reflexivity| |]]).

Ltac nfin s0 :=
  unfold npost; split; [assumption|]; split; [tsolve|];
  let EF := fresh "EF" in intro EF; unfold cond in *; sat; (split; [assumption|tsolve]).

Ltac nside := let Q := fresh "Q" in intro Q; first [left; reflexivity | right; reflexivity | discriminate Q].

Ltac nstep IH s0 :=
  match goal with
  | H : bind (bind _ _) _ = Ok _ |- _ => rewrite pp_bind_assoc in H; cbv beta in H
  | H : bind (Ok _) _ = Ok _ |- _ => cbn [bind] in H; cbv beta iota in H
  | H : bind (la _) _ = Ok _ |- _ =>
      let k := fresh "k" in
      apply pp_bind_inv in H; destruct H as (k & _ & H); destruct k; cbv beta iota in H
  | H : bind (perror ?si _) _ = Ok _ |- _ =>
      let s1 := fresh "s" in let E := fresh "E" in let NE := fresh "NE" in
      apply pp_bind_inv in H; destruct H as (s1 & E & H);
      pose proof (perror_errs _ _ _ E) as NE; apply perror_inv in E;
      assert (incl (p_rest s1) (p_rest s0))
        by (rewrite E; match goal with I : incl (p_rest si) (p_rest s0) |- _ => exact I end);
      clear E
  | H : bind (pmatch ?si _) _ = Ok _ |- _ =>
      let s1 := fresh "s" in let E := fresh "E" in let ME := fresh "ME" in
      apply pp_bind_inv in H; destruct H as (s1 & E & H);
      pose proof (pmatch_errs' _ _ _ E) as ME; apply pmatch_inv in E; nchain E s0
  | H : bind (matchmk ?si _ _) _ = Ok _ |- _ =>
      let n1 := fresh "n" in let s1 := fresh "s" in let E := fresh "E" in
      let W := fresh "W" in let CD := fresh "CD" in
      apply pp_bind_inv in H; destruct H as ((n1 & s1) & E & H); apply matchmk_names in E; [|nside];
      destruct E as (E & W & CD);
      match goal with I : incl (p_rest si) (p_rest s0) |- _ =>
        apply (tw_mono _ _ _ I) in W; apply (cond_mono _ _ _ _ _ I) in CD end;
      nchain E s0; cbn [fst snd] in H; cbv beta iota in H
  | H : bind (pcall _ ?g ?si) _ = Ok _ |- _ =>
      let r1 := fresh "r" in let s1 := fresh "s" in let E := fresh "E" in
      let W := fresh "W" in let CD := fresh "CD" in
      apply pp_bind_inv in H; destruct H as ((r1 & s1) & E & H); apply IH in E;
      destruct E as (E & W & CD);
      match goal with I : incl (p_rest si) (p_rest s0) |- _ =>
        apply (ow_mono _ _ _ I) in W; apply (cond_mono _ _ _ _ _ I) in CD end;
      nchain E s0; cbn [fst snd] in H; cbv beta iota in H
  | H : (if is_value_start _ then _ else _) = Ok _ |- _ => cbn [is_value_start] in H
  | H : match ?v with _ => _ end = Ok _ |- _ => is_var v; destruct v; cbn [oall] in *
  | H : bind (of_opt _ ?o) _ = Ok _ |- _ =>
      let a := fresh "a" in let E := fresh "E" in
      apply pp_bind_inv in H; destruct H as (a & E & H); apply pp_of_opt_inv in E; subst o; cbn [oall] in *
  | H : pcall _ ?g ?si = Ok (_, _) |- _ =>
      let W := fresh "W" in let CD := fresh "CD" in
      apply IH in H; destruct H as (H & W & CD);
      match goal with I : incl (p_rest si) (p_rest s0) |- _ =>
        apply (ow_mono _ _ _ I) in W; apply (cond_mono _ _ _ _ _ I) in CD end;
      nchain H s0; nfin s0
  | H : Ok _ = Ok (_, _) |- _ => inversion H; subst; clear H; nfin s0
  end.

Lemma cond_refl s L : cond s s L None.
Proof. intros E. split; [exact E|exact I]. Qed.

Lemma pcall_names : forall fuel f s r s', pcall fuel f s = Ok (r, s') -> npost (p_rest s) s r s'.
Proof.
  induction fuel as [|fu IH]; intros f s r s' H; [discriminate H|].
  pose proof (incl_refl (p_rest s)) as INC0.
  destruct f.
  - rewrite pcall_fS in H. repeat nstep IH s.
  - rewrite pcall_fPORTS in H. repeat nstep IH s.
  - rewrite pcall_fOPORTS in H. repeat nstep IH s.
  - rewrite pcall_fARGS in H. repeat nstep IH s.
  - rewrite pcall_fMARGS in H. repeat nstep IH s.
  - rewrite pcall_fP in H. repeat nstep IH s.
  - rewrite pcall_fMOREP in H. repeat nstep IH s.
  - rewrite pcall_fVALUE in H. repeat nstep IH s.
  - rewrite pcall_fVARGS in H. repeat nstep IH s.
  - rewrite pcall_fMVARGS in H. repeat nstep IH s.
  - rewrite pcall_fEEOS in H. repeat nstep IH s.
Qed.

(* ---- the driver loop ------------------------------------------------------------------------------------ *)
Lemma excess_errs : forall n fuel s s', excess_loop n fuel s = Ok s' -> p_errs s' = [] -> p_errs s = [].
Proof.
  induction n as [|n IH]; intros fuel s s' H E; [discriminate H|].
  cbn [excess_loop] in H. destruct (p_rest s) as [|t rest] eqn:ER.
  - inversion H; subst s'. exact E.
  - assert (GEN : forall k, (do s1 <- perror s e_excess_input;
                             do s2 <- pmatch s1 k;
                             do k2 <- la s2;
                             match k2 with
                             | T_EOF => Ok s2
                             | _ => do r <- pcall fuel fS s2; excess_loop n fuel (snd r)
                             end) = Ok s' -> p_errs s = []).
    { intros k Hk. exfalso.
      apply pp_bind_inv in Hk. destruct Hk as (s1 & E1 & Hk).
      apply pp_bind_inv in Hk. destruct Hk as (s2 & E2 & Hk).
      apply pp_bind_inv in Hk. destruct Hk as (k2 & _ & Hk).
      apply (perror_errs _ _ _ E1). apply (pmatch_errs' _ _ _ E2).
      assert (REC : (do r <- pcall fuel fS s2; excess_loop n fuel (snd r)) = Ok s' -> p_errs s2 = []).
      { intros Hr. apply pp_bind_inv in Hr. destruct Hr as ((r & s3) & E3 & Hr). cbn [snd] in Hr.
        apply pcall_names in E3. destruct E3 as (_ & _ & CD). apply CD. eapply IH; eassumption. }
      destruct k2; try (apply REC; exact Hk). inversion Hk; subst s2. exact E. }
    destruct (tk t); try (eapply GEN; exact H). inversion H; subst s'. exact E.
Qed.

Lemma parse_tokens_names toks root perrs : parse_tokens toks = Ok (root, perrs) ->
  oall (Qw toks) root /\ (perrs = [] -> oall (Qs toks) root).
Proof.
  intros H. unfold parse_tokens in H. cbv zeta in H.
  apply pp_bind_inv in H. destruct H as ((r & s1) & E & H).
  apply pp_bind_inv in H. destruct H as (s2 & E2 & H).
  cbn [fst snd] in *. inversion H; subst root perrs.
  apply pcall_names in E. destruct E as (_ & W & CD). cbn [p_rest] in *. split; [exact W|].
  intros EE. apply (excess_errs _ _ _ _ E2) in EE. apply CD in EE. apply EE.
Qed.

(* ---- from the node predicate to the boolean checks -------------------------------------------------------- *)
Section Checks.
  Variable chk : str -> bool.
  Variable names : node -> bool.
  Hypothesis names_eq : forall t line file tok l r,
    names (Node t line file tok l r) =
      (match t with N_NAME => chk tok | _ => true end)
      && (match l with Some x => names x | None => true end)
      && (match r with Some x => names x | None => true end).

  Lemma tall_names (Q : ntype -> str -> Prop) : (forall tok, Q N_NAME tok -> chk tok = true) ->
    forall n, tall Q n -> names n = true.
  Proof.
    intros HQ. fix IH 1. intros [t line file tok l r] (A & B & C). rewrite names_eq.
    apply andb_true_iff. split; [apply andb_true_iff; split|].
    - destruct t; try reflexivity. apply HQ. exact A.
    - destruct l as [x|]; [apply IH; exact B|reflexivity].
    - destruct r as [x|]; [apply IH; exact C|reflexivity].
  Qed.
End Checks.
