(* Proofs_RefHalt1.v — static half of C16 (second sentence): the flattener, on a tree without WHILE / GOTO / IF,
   only ever appends closed segments (Proofs_RefHalt0.closed) to the code of the routine under construction
   (modulo trailing sites, which an N_PROGRAM header may take back), and every finished routine is good. *)
From Coq Require Import List ZArith NArith Lia Bool.
From Theo Require Import Base Tokens Errors MacroExtract Parser RefSem SemStatements RefHaltStatements Proofs_Sem.
From Theo Require Import Proofs_RefHalt0.
Import ListNotations.
Local Open Scope Z_scope.

(* ---- lists ----------------------------------------------------------------------------------------- *)
Lemma rh_upd_nat_at {A} (l : list A) y r y' : upd_nat (l ++ y :: r) (length l) y' = l ++ y' :: r.
Proof. induction l as [|h t IH]; cbn; [reflexivity|]. rewrite IH. reflexivity. Qed.

Lemma rh_zupd_at {A} (l : list A) y r y' : zupd (l ++ y :: r) (zlen l) y' = Some (l ++ y' :: r).
Proof.
  unfold zupd, zlen. rewrite app_length. cbn [length].
  replace ((0 <=? Z.of_nat (length l)) && (Z.of_nat (length l) <? Z.of_nat (length l + S (length r)))) with true.
  - rewrite Nat2Z.id. rewrite rh_upd_nat_at. reflexivity.
  - symmetry. apply andb_true_iff. split; [apply Z.leb_le; lia | apply Z.ltb_lt; lia].
Qed.

Lemma rh_znth_other {A} (l : list A) y r y' i x : znth (l ++ y :: r) i = Some x -> i <> zlen l ->
  znth (l ++ y' :: r) i = Some x.
Proof.
  unfold znth, zlen. destruct (i <? 0) eqn:E; [discriminate|]. apply Z.ltb_ge in E. intros H Hne.
  destruct (Nat.lt_ge_cases (Z.to_nat i) (length l)) as [Hlt|Hge].
  - rewrite nth_error_app1 in * by exact Hlt. exact H.
  - rewrite nth_error_app2 in * by exact Hge.
    destruct (Z.to_nat i - length l)%nat as [|m] eqn:Em; [lia|]. exact H.
Qed.

Lemma last_is_site_inv b : last_is_site b = true -> exists c l, b_code b = c ++ [RSite l].
Proof.
  unfold last_is_site. intros H. destruct (rev (b_code b)) as [|i t] eqn:E; [discriminate|].
  destruct i; try discriminate. exists (rev t), l.
  rewrite <- (rev_involutive (b_code b)). rewrite E. reflexivity.
Qed.

(* ---- sites ----------------------------------------------------------------------------------------- *)
Definition is_site (i : rinstr) : Prop := match i with RSite _ => True | _ => False end.

Definition guard (C : list rinstr) (p : Z) : Prop := forall l, znth C (p - 1) <> Some (RSite l).

Lemma closed_sites D T lo p : forall ext C, Forall is_site ext ->
  closed D C T lo p (zlen C) -> closed D (C ++ ext) T lo p (zlen (C ++ ext)).
Proof.
  induction ext as [|x ext IH]; intros C Hs H.
  - rewrite app_nil_r. exact H.
  - inversion Hs as [|? ? Hx Hext]; subst.
    replace (C ++ x :: ext) with ((C ++ [x]) ++ ext) by (rewrite <- app_assoc; reflexivity).
    apply IH; [exact Hext|].
    destruct x; try contradiction. rewrite rh_zlen_snoc. eapply cl_site.
    + eapply closed_mono; [exact H|auto| |auto]. intros i Hi. apply rh_znth_app_l. exact Hi.
    + apply rh_znth_app_last.
Qed.

Definition cl_end (s : fstate) (lo p : Z) : Prop :=
  closed (f_done s) (b_code (f_cur s)) (b_targets (f_cur s)) lo p (zlen (b_code (f_cur s))).

(* ---- what visiting a value does to the state --------------------------------------------------------- *)
Record vrel (s s' : fstate) : Prop := mk_vrel {
  vr_done : f_done s' = f_done s;
  vr_loops : f_loops s' = f_loops s;
  vr_targets : b_targets (f_cur s') = b_targets (f_cur s);
  vr_code : exists ext, b_code (f_cur s') = b_code (f_cur s) ++ ext /\ Forall is_site ext }.

Lemma vrel_refl s : vrel s s.
Proof. split; auto. exists []. rewrite app_nil_r. auto. Qed.

Lemma vrel_trans a b c : vrel a b -> vrel b c -> vrel a c.
Proof.
  intros [D1 L1 T1 (e1 & C1 & S1)] [D2 L2 T2 (e2 & C2 & S2)]. split; try congruence.
  exists (e1 ++ e2). rewrite C2, C1, app_assoc. split; [reflexivity|]. apply Forall_app. auto.
Qed.

Lemma vrel_move_to s f l : vrel s (move_to s f l).
Proof.
  unfold move_to. destruct (str_eqb f _); [apply vrel_refl|]. destruct (_ && _); [apply vrel_refl|].
  split; cbn; auto. exists [RSite (f, l)]. split; [reflexivity|]. constructor; [exact I | constructor].
Qed.

Lemma b_targets_mention b x : b_targets (mention b x) = b_targets b.
Proof. unfold mention. destruct (existsb _ _); reflexivity. Qed.
Lemma b_targets_fold_mention l : forall b, b_targets (fold_left mention l b) = b_targets b.
Proof. induction l as [|x t IH]; intros b; cbn [fold_left]; [reflexivity|]. rewrite IH. apply b_targets_mention. Qed.

Lemma vrel_same s b : b_code b = b_code (f_cur s) -> b_targets b = b_targets (f_cur s) -> vrel s (with_cur s b).
Proof. intros Hc Ht. split; cbn; auto. exists []. rewrite app_nil_r. auto. Qed.

Lemma vrel_mention s x : vrel s (with_cur s (mention (f_cur s) x)).
Proof. apply vrel_same; [apply b_code_mention | apply b_targets_mention]. Qed.

Lemma resolve_call_inv' s f vs s' v :
  resolve_call s f vs = Some (s', v) ->
  s' = s /\ exists j callee, v = RCall j vs /\ nth_error (f_done s) j = Some callee /\
                             length vs = length (r_params callee).
Proof.
  unfold resolve_call. intros H.
  destruct (lookup_name (f_names s) f) as [j|]; [|discriminate].
  destruct (nth_error (f_done s) j) as [callee|] eqn:E; [|discriminate].
  destruct (Nat.eqb _ _) eqn:E2; [|discriminate]. inversion H; subst.
  split; [reflexivity|]. exists j, callee. split; [reflexivity|]. split; [exact E|].
  apply Nat.eqb_eq. exact E2.
Qed.

Definition FVP' (n : node) : Prop :=
  forall s s' v, flat_value n s = Some (s', v) -> vrel s s' /\ vokb (f_done s) v = true.

Definition FAP' (a : node) : Prop :=
  forall acc acc', forallb (vokb (f_done (fst acc))) (snd acc) = true -> fargs a acc = Some acc' ->
    vrel (fst acc) (fst acc') /\ forallb (vokb (f_done (fst acc))) (snd acc') = true.

Lemma fargs_ok' m : (forall n, (nsize n < m)%nat -> FVP' n) -> forall a, (nsize a < m)%nat -> FAP' a.
Proof.
  intros IHm. induction a as [t line file tok al ar IHl IHr] using node_ind'.
  intros Hsz acc acc' Hacc H. rewrite fargs_eq in H.
  assert (Hleaf : match flat_value (Node t line file tok al ar) (fst acc) with
                  | Some (s', v) => Some (s', snd acc ++ [v])
                  | None => None
                  end = Some acc' ->
                  vrel (fst acc) (fst acc') /\ forallb (vokb (f_done (fst acc))) (snd acc') = true).
  { clear H. intros H.
    destruct (flat_value (Node t line file tok al ar) (fst acc)) as [[s' v]|] eqn:E; [|discriminate].
    inversion H; subst acc'. cbn [fst snd].
    destruct (IHm _ Hsz _ _ _ E) as (V & Hv).
    split; [exact V|]. rewrite forallb_app, Hacc. cbn. rewrite Hv. reflexivity. }
  destruct t; try (apply Hleaf; exact H).
  clear Hleaf. cbn [nsize] in Hsz.
  destruct (fargs_opt al acc) as [acc1|] eqn:E1; [|discriminate].
  assert (S1 : vrel (fst acc) (fst acc1) /\ forallb (vokb (f_done (fst acc))) (snd acc1) = true).
  { destruct al as [x|]; cbn [fargs_opt] in E1.
    - apply IHl; auto. lia.
    - inversion E1; subst. split; [apply vrel_refl | exact Hacc]. }
  destruct S1 as (V1 & A1).
  destruct ar as [x|]; cbn [fargs_opt] in H.
  - assert (A1' : forallb (vokb (f_done (fst acc1))) (snd acc1) = true) by (rewrite (vr_done _ _ V1); exact A1).
    destruct (IHr ltac:(lia) _ _ A1' H) as (V2 & A2).
    split; [eapply vrel_trans; eauto|]. rewrite (vr_done _ _ V1) in A2. exact A2.
  - inversion H; subst; auto.
Qed.

Lemma flat_value_ok' : forall n, FVP' n.
Proof.
  assert (HH : forall m n, (nsize n < m)%nat -> FVP' n).
  { induction m as [|m IHm]; [intros n Hn; lia|].
    intros [t line file tok l r] Hsz s s' v H.
    pose proof (vrel_move_to s file line) as V0.
    destruct t;
      try (rewrite flat_value_other in H by (congruence || discriminate); discriminate H).
    - (* NAME *)
      rewrite flat_value_name in H. cbv zeta in H. inversion H; subst.
      split; [|reflexivity]. eapply vrel_trans; [exact V0 | apply vrel_mention].
    - (* NUMBER *)
      rewrite flat_value_number in H. cbv zeta in H.
      destruct (INT_MAX <=? strtol tok); [discriminate|]. inversion H; subst.
      split; [exact V0 | reflexivity].
    - (* CALL *)
      destruct l as [ln|]; [|rewrite flat_value_other in H by (congruence || discriminate); discriminate H].
      rewrite flat_value_call in H. cbv zeta in H.
      set (s0 := move_to s file line) in *.
      destruct (match r with None => Some (s0, []) | Some rn0 => fargs rn0 (s0, []) end)
        as [[s1 vs]|] eqn:E; [|discriminate].
      assert (S1 : vrel s0 s1 /\ forallb (vokb (f_done s0)) vs = true).
      { destruct r as [rn0|].
        - assert (Hr' : (nsize rn0 < m)%nat) by (cbn [nsize] in Hsz; lia).
          exact (fargs_ok' m IHm rn0 Hr' (s0, []) (s1, vs) eq_refl E).
        - inversion E; subst. split; [apply vrel_refl | reflexivity]. }
      destruct S1 as (V1 & A1).
      assert (V01 : vrel s s1) by (eapply vrel_trans; eauto).
      assert (D01 : f_done s1 = f_done s) by (apply (vr_done _ _ V01)).
      rewrite (vr_done _ _ V0) in A1.
      assert (HR : forall s' v, resolve_call s1 (n_tok ln) vs = Some (s', v) ->
                   vrel s s' /\ vokb (f_done s) v = true).
      { intros s2 v2 HRc. apply resolve_call_inv' in HRc.
        destruct HRc as (-> & j & callee & -> & Hj & Hlen).
        split; [exact V01|]. cbn [vokb]. rewrite <- D01, Hj. rewrite D01, A1.
        replace (Nat.eqb (length vs) (length (r_params callee))) with true by (symmetry; apply Nat.eqb_eq; exact Hlen).
        reflexivity. }
      destruct (builtin_of r vs) as [[v1 c]|] eqn:EB; [|apply HR; exact H].
      apply builtin_of_in in EB.
      rewrite forallb_forall in A1. specialize (A1 _ EB).
      destruct (str_eqb (n_tok ln) _).
      { inversion H; subst. split; [exact V01 | exact A1]. }
      destruct (str_eqb (n_tok ln) _).
      { inversion H; subst. split; [exact V01 | exact A1]. }
      apply HR; exact H. }
  intros n. apply (HH (S (nsize n))). lia.
Qed.

Lemma opt_value_ok' o s s' v : opt_value o s = Some (s', v) -> vrel s s' /\ vokb (f_done s) v = true.
Proof. destruct o as [n|]; cbn [opt_value]; [apply flat_value_ok' | discriminate]. Qed.

(* ---- what visiting a statement does to the state ------------------------------------------------------ *)
Record srel (s s' : fstate) : Prop := mk_srel {
  sr_done : exists ext, f_done s' = f_done s ++ ext;
  sr_ok : table_ok (f_done s) -> table_ok (f_done s');
  sr_loops : f_loops s <= f_loops s';
  sr_targets : exists ext, b_targets (f_cur s') = b_targets (f_cur s) ++ ext;
  sr_closed : forall lo p, lo <= f_loops s -> guard (b_code (f_cur s)) p -> cl_end s lo p ->
    cl_end s' lo p /\ forall i, i < p -> znth (b_code (f_cur s')) i = znth (b_code (f_cur s)) i }.

Lemma srel_refl s : srel s s.
Proof.
  split; auto; try lia.
  - exists []. rewrite app_nil_r. reflexivity.
  - exists []. rewrite app_nil_r. reflexivity.
Qed.

Lemma srel_trans a b c : srel a b -> srel b c -> srel a c.
Proof.
  intros [(e1 & D1) O1 L1 (t1 & T1) C1] [(e2 & D2) O2 L2 (t2 & T2) C2]. split.
  - exists (e1 ++ e2). rewrite D2, D1, app_assoc. reflexivity.
  - auto.
  - lia.
  - exists (t1 ++ t2). rewrite T2, T1, app_assoc. reflexivity.
  - intros lo p Hlo Hg Hc. destruct (C1 lo p Hlo Hg Hc) as [Hc1 A1].
    assert (Hg1 : guard (b_code (f_cur b)) p).
    { intros l. rewrite A1 by lia. apply Hg. }
    destruct (C2 lo p ltac:(lia) Hg1 Hc1) as [Hc2 A2].
    split; [exact Hc2|]. intros i Hi. rewrite A2, A1 by exact Hi. reflexivity.
Qed.

Lemma vrel_srel s s' : vrel s s' -> srel s s'.
Proof.
  intros [Dn L T (ext & C & S)]. split.
  - exists []. rewrite app_nil_r. exact Dn.
  - rewrite Dn. auto.
  - lia.
  - exists []. rewrite app_nil_r. exact T.
  - intros lo p Hlo Hg Hc. unfold cl_end in *. rewrite Dn, T, C. split.
    + apply closed_sites; assumption.
    + intros i Hi. apply closed_le in Hc. apply rh_znth_app_l. lia.
Qed.

(* appending one simple instruction *)
Lemma srel_emit s i :
  match i with RStop => True | RAssign _ v => vokb (f_done s) v = true | _ => False end ->
  srel s (with_cur s (bemit (f_cur s) i)).
Proof.
  intros Hi. split; cbn [f_done f_cur f_loops with_cur bemit b_targets b_code].
  - exists []. rewrite app_nil_r. reflexivity.
  - auto.
  - lia.
  - exists []. rewrite app_nil_r. reflexivity.
  - intros lo p Hlo Hg Hc. unfold cl_end in *. cbn [f_done f_cur with_cur bemit b_targets b_code].
    pose proof (closed_le _ _ _ _ _ _ Hc) as L.
    split; [|intros j Hj; apply rh_znth_app_l; lia].
    rewrite rh_zlen_snoc.
    assert (Hc' : closed (f_done s) (b_code (f_cur s) ++ [i]) (b_targets (f_cur s)) lo p (zlen (b_code (f_cur s)))).
    { eapply closed_mono; [exact Hc|auto| |auto]. intros j Hj. apply rh_znth_app_l. exact Hj. }
    destruct i; try contradiction.
    + eapply cl_assign; [exact Hc' | apply rh_znth_app_last | exact Hi].
    + eapply cl_stop; [exact Hc' | apply rh_znth_app_last].
Qed.

(* ---- LOOP ---------------------------------------------------------------------------------------------- *)
Definition loop_pre (b : builder) (id : Z) (v : rvalue) : builder :=
  let b1 := bemit b (RLoopInit id v) in
  let '(b2, t_start) := new_target b1 in
  let '(b3, t_end) := new_target b2 in
  let b4 := set_target b3 t_start (bnext b3) in
  bemit b4 (RLoopTest id t_end).

Lemma loop_pre_spec b id v :
  b_code (loop_pre b id v) = b_code b ++ [RLoopInit id v; RLoopTest id (zlen (b_targets b) + 1)] /\
  b_targets (loop_pre b id v) = b_targets b ++ [zlen (b_code b) + 1; -1].
Proof.
  unfold loop_pre, new_target. cbv beta iota zeta. unfold set_target, bnext.
  cbn [b_targets b_code bemit b_name b_params b_labels b_vars].
  rewrite <- app_assoc. cbn [app]. rewrite rh_zupd_at.
  cbn [b_targets b_code bemit b_name b_params b_labels b_vars]. split.
  - rewrite <- app_assoc. cbn [app]. rewrite rh_zlen_snoc. reflexivity.
  - rewrite rh_zlen_snoc. reflexivity.
Qed.

Lemma set_target_at b A y B i pos : b_targets b = A ++ y :: B -> i = zlen A ->
  set_target b i pos = mkB (b_name b) (b_params b) (b_code b) (b_labels b) (A ++ pos :: B) (b_vars b).
Proof. intros H ->. unfold set_target. rewrite H, rh_zupd_at. reflexivity. Qed.

Lemma fs_loop_srel l r s s' :
  (forall sb s2, fsub r sb = Some s2 -> srel sb s2) -> fs_loop l r s = Some s' -> srel s s'.
Proof.
  intros IHr H. unfold fs_loop in H. cbv zeta in H.
  destruct (opt_value l _) as [[s1 v]|] eqn:E; [|discriminate].
  apply opt_value_ok' in E. destruct E as (V1 & Hv). cbn [f_done] in Hv.
  destruct V1 as [D1 L1 T1 (ext1 & C1 & S1)]. cbn [f_done f_loops f_cur] in *.
  unfold new_target in H. cbv beta iota in H.
  set (id := f_loops s + 1) in *.
  match type of H with match fsub r ?x with _ => _ end = _ =>
    change x with (with_cur s1 (loop_pre (f_cur s1) id v)) in H end.
  destruct (loop_pre_spec (f_cur s1) id v) as [PC PT].
  set (sb := with_cur s1 (loop_pre (f_cur s1) id v)) in *.
  destruct (fsub r sb) as [s2|] eqn:E2; [|discriminate].
  pose proof (IHr _ _ E2) as R2.
  destruct R2 as [(e2 & D2) O2 L2 (t2 & T2) Cl2].
  subst sb; cbn [f_done f_loops f_cur with_cur] in *.
  rewrite PT in T2.
  inversion H; subst s'. clear H.
  set (T := b_targets (f_cur s1)) in *. set (C1c := b_code (f_cur s1)) in *. set (q := zlen C1c) in *.
  set (C2 := b_code (f_cur s2)) in *. set (q' := zlen C2).
  set (dec := RLoopDec id (zlen T)).
  assert (HT2 : b_targets (bemit (f_cur s2) dec) = (T ++ [q + 1]) ++ -1 :: t2).
  { cbn [bemit b_targets]. rewrite T2. rewrite <- !app_assoc. reflexivity. }
  rewrite (set_target_at _ _ _ _ _ _ HT2) by (rewrite !rh_zlen_snoc; reflexivity).
  replace (bnext (bemit (f_cur s2) dec)) with (q' + 1) by (unfold bnext; cbn [bemit b_code]; rewrite rh_zlen_snoc; reflexivity).
  cbn [bemit b_name b_params b_code b_labels b_vars]. fold C2.
  split; cbn [f_done f_loops f_cur with_cur b_targets b_code].
  - exists e2. rewrite D2, D1. reflexivity.
  - intros Hok. apply O2. rewrite D1. exact Hok.
  - lia.
  - exists ([q + 1] ++ (q' + 1) :: t2). rewrite <- T1. fold T. rewrite <- app_assoc. reflexivity.
  - intros lo p Hlo Hg Hc. unfold cl_end in *. cbn [f_done f_loops f_cur with_cur b_targets b_code] in *.
    pose proof (closed_le _ _ _ _ _ _ Hc) as Lc.
    (* A: the prefix, with the sites of the bound *)
    assert (HA : closed (f_done s) C1c (b_targets (f_cur s)) lo p q).
    { unfold q. rewrite C1. apply closed_sites; assumption. }
    assert (Lq : zlen (b_code (f_cur s)) <= q).
    { unfold q. rewrite C1, rh_zlen_app. pose proof (rh_zlen_nonneg ext1). lia. }
    (* B: the body *)
    assert (HB : closed (f_done s2) C2 (b_targets (f_cur s2)) id (q + 2) q' /\
                 forall i, i < q + 2 -> znth C2 i = znth (C1c ++ [RLoopInit id v; RLoopTest id (zlen T + 1)]) i).
    { rewrite <- PC. apply Cl2; [lia| |].
      - intros l0. rewrite PC. replace (q + 2 - 1) with (zlen (C1c ++ [RLoopInit id v])) by (rewrite rh_zlen_snoc; unfold q; lia).
        replace (C1c ++ [RLoopInit id v; RLoopTest id (zlen T + 1)])
          with ((C1c ++ [RLoopInit id v]) ++ [RLoopTest id (zlen T + 1)]) by (rewrite <- app_assoc; reflexivity).
        rewrite rh_znth_app_last. discriminate.
      - rewrite PC. replace (zlen (C1c ++ [RLoopInit id v; RLoopTest id (zlen T + 1)])) with (q + 2)
          by (rewrite rh_zlen_app; reflexivity).
        apply cl_nil. pose proof (rh_zlen_nonneg C1c). lia. }
    destruct HB as [HB AB].
    pose proof (closed_le _ _ _ _ _ _ HB) as LB.
    assert (Eq0 : znth C2 q = Some (RLoopInit id v)).
    { rewrite AB by lia. apply rh_znth_app_last. }
    assert (Eq1 : znth C2 (q + 1) = Some (RLoopTest id (zlen T + 1))).
    { rewrite AB by lia. replace (q + 1) with (zlen (C1c ++ [RLoopInit id v])) by (rewrite rh_zlen_snoc; reflexivity).
      replace (C1c ++ [RLoopInit id v; RLoopTest id (zlen T + 1)])
        with ((C1c ++ [RLoopInit id v]) ++ [RLoopTest id (zlen T + 1)]) by (rewrite <- app_assoc; reflexivity).
      apply rh_znth_app_last. }
    assert (Apre : forall i, i < q -> znth (C2 ++ [dec]) i = znth C1c i).
    { intros i Hi. rewrite rh_znth_app_l by (fold q'; lia). rewrite AB by lia. apply rh_znth_app_l. exact Hi. }
    assert (Hmono : forall v0, vokb (f_done s) v0 = true -> vokb (f_done s2) v0 = true).
    { intros v0 H0. rewrite D2, D1. apply vokb_mono. exact H0. }
    split.
    + rewrite rh_zlen_snoc. fold q'.
      eapply (cl_loop _ _ _ lo p q q' id v (zlen T) (zlen T + 1)).
      * eapply closed_mono; [exact HA | exact Hmono | exact Apre |].
        intros i x Hx Hi. rewrite <- T1 in Hi. fold T in Hi.
        rewrite <- app_assoc. apply rh_znth_app_some. exact Hi.
      * rewrite rh_znth_app_l by (fold q'; lia). exact Eq0.
      * apply Hmono. exact Hv.
      * lia.
      * rewrite rh_znth_app_l by (fold q'; lia). exact Eq1.
      * rewrite <- app_assoc. apply rh_znth_app_last.
      * eapply closed_mono; [exact HB | auto | |].
        -- intros i Hi. apply rh_znth_app_l. exact Hi.
        -- intros i x Hx Hi. rewrite T2 in Hi.
           replace ((T ++ [q + 1; -1]) ++ t2) with ((T ++ [q + 1]) ++ -1 :: t2) in Hi by (rewrite <- !app_assoc; reflexivity).
           destruct (Z.eq_dec i (zlen (T ++ [q + 1]))) as [->|Hne].
           ++ rewrite rh_znth_app_last in Hi. inversion Hi. lia.
           ++ eapply rh_znth_other; eauto.
      * apply (rh_znth_app_last C2 []).
      * replace (zlen T + 1) with (zlen (T ++ [q + 1])) by (rewrite rh_zlen_snoc; reflexivity).
        apply rh_znth_app_last.
    + intros i Hi. rewrite Apre by lia. rewrite C1. apply rh_znth_app_l. lia.
Qed.

Lemma table_ok_snoc Dn r : table_ok Dn -> good_routine Dn r -> table_ok (Dn ++ [r]).
Proof.
  intros Hok Hg j r0 Hj.
  destruct (Nat.lt_ge_cases j (length Dn)) as [Hlt|Hge].
  - rewrite nth_error_app1 in Hj by exact Hlt. rewrite firstn_app.
    replace (j - length Dn)%nat with O by lia. cbn [firstn]. rewrite app_nil_r. apply Hok; exact Hj.
  - rewrite nth_error_app2 in Hj by exact Hge. destruct (j - length Dn)%nat as [|d] eqn:Ed.
    + cbn in Hj. inversion Hj; subst r0. assert (j = length Dn) by lia. subst j.
      rewrite firstn_app, Nat.sub_diag, firstn_all. cbn [firstn]. rewrite app_nil_r. exact Hg.
    + cbn in Hj. destruct d; discriminate.
Qed.

Lemma good_finish s2 lo i b : cl_end s2 lo 0 ->
  b_code b = b_code (f_cur s2) ++ [i] -> b_targets b = b_targets (f_cur s2) ->
  (i = RHalt \/ exists out, i = RReturn out) ->
  exists n, closed (f_done s2) (r_code (finish_routine b)) (r_targets (finish_routine b)) lo 0 n /\
            znth (r_code (finish_routine b)) n = Some i.
Proof.
  intros Hc Hb Ht Hi. exists (zlen (b_code (f_cur s2))). cbn [finish_routine r_code r_targets].
  rewrite Hb, Ht. split.
  - eapply closed_mono; [exact Hc|auto| |auto]. intros j Hj. apply rh_znth_app_l. exact Hj.
  - apply rh_znth_app_last.
Qed.

Lemma fs_program_srel name ports body s s' :
  (forall sb s2, fsub body sb = Some s2 -> srel sb s2) -> fs_program name ports body s = Some s' -> srel s s'.
Proof.
  intros IHb H. unfold fs_program in H.
  set (outer := if last_is_site (f_cur s) then _ else f_cur s) in H.
  set (params := match ports with Some (Node _ _ _ _ (Some a) _) => param_names a | _ => [] end) in H.
  set (out := match ports with Some (Node _ _ _ _ _ (Some o)) => n_tok o | _ => [120; 48]%N end) in H.
  cbv zeta in H.
  destruct (negb (no_dup params)); [discriminate|].
  set (s1 := mkF _ _ _ _ _) in H.
  destruct (fsub body s1) as [s2|] eqn:E; [|discriminate].
  destruct (IHb _ _ E) as [(e2 & D2) O2 L2 (t2 & T2) Cl2].
  assert (Hc2 : cl_end s2 (f_loops s) 0).
  { apply Cl2.
    - subst s1. cbn [f_loops]. lia.
    - intros l. rewrite rh_znth_neg by lia. discriminate.
    - unfold cl_end. subst s1. cbn [f_cur f_done]. rewrite b_code_fold_mention. cbn [b_code].
      apply (cl_nil _ _ _ (f_loops s) 0). lia. }
  subst s1. cbn [f_done f_loops f_cur] in *.
  inversion H; subst s'. clear H.
  assert (Ho : b_targets outer = b_targets (f_cur s)).
  { subst outer. destruct (last_is_site (f_cur s)); reflexivity. }
  split; cbn [f_done f_loops f_cur].
  - exists (e2 ++ [finish_routine (bemit (mention (f_cur s2) out) (RReturn out))]).
    rewrite D2, app_assoc. reflexivity.
  - intros Hok. apply table_ok_snoc; [apply O2; exact Hok|].
    destruct (good_finish s2 (f_loops s) (RReturn out) (bemit (mention (f_cur s2) out) (RReturn out)) Hc2)
      as (n & Hn & Hl).
    + cbn [bemit b_code]. rewrite b_code_mention. reflexivity.
    + cbn [bemit b_targets]. apply b_targets_mention.
    + right. exists out. reflexivity.
    + exists (f_loops s), n. split; [exact Hn|]. right. exists out. exact Hl.
  - lia.
  - exists []. rewrite app_nil_r. exact Ho.
  - intros lo p Hlo Hg Hc. unfold cl_end in *. cbn [f_done f_cur]. rewrite Ho.
    pose proof (closed_le _ _ _ _ _ _ Hc) as Lc.
    assert (Hmono : forall v0, vokb (f_done s) v0 = true ->
              vokb (f_done s2 ++ [finish_routine (bemit (mention (f_cur s2) out) (RReturn out))]) v0 = true).
    { intros v0 H0. rewrite D2, <- app_assoc. apply vokb_mono. exact H0. }
    subst outer. destruct (last_is_site (f_cur s)) eqn:El; cbn [b_code].
    + apply last_is_site_inv in El. destruct El as (c0 & l & Ec).
      rewrite Ec in *. rewrite removelast_last. rewrite rh_zlen_snoc in *.
      assert (Hp : p < zlen c0 + 1).
      { destruct (Z.eq_dec p (zlen c0 + 1)) as [->|Hne]; [|lia]. exfalso.
        apply (Hg l). replace (zlen c0 + 1 - 1) with (zlen c0) by lia. apply rh_znth_app_last. }
      split; [|intros i Hi; symmetry; apply rh_znth_app_l; lia].
      eapply closed_mono; [|exact Hmono| |auto].
      * replace (zlen c0) with (zlen c0 + 1 - 1) by lia.
        eapply closed_drop_site; [exact Hc| |exact Hp].
        replace (zlen c0 + 1 - 1) with (zlen c0) by lia. apply rh_znth_app_last.
      * intros i Hi. symmetry. apply rh_znth_app_l. exact Hi.
      * intros i x _ Hi. exact Hi.
    + split; [|auto]. eapply closed_mono; [exact Hc|exact Hmono|auto|auto].
Qed.

(* ---- all statements ------------------------------------------------------------------------------------ *)
Definition SP' (n : node) : Prop :=
  loop_only n = true -> forall s s', flat_stmt n s = Some s' -> srel s s'.

Definition oloop (o : option node) : Prop := match o with Some x => loop_only x = true | None => True end.

Lemma loop_only_inv t line file tok l r : loop_only (Node t line file tok l r) = true ->
  (t <> N_WHILE /\ t <> N_GOTO /\ t <> N_IF) /\ oloop l /\ oloop r.
Proof.
  cbn [loop_only]. intros H. apply andb_true_iff in H. destruct H as [H Hr].
  apply andb_true_iff in H. destruct H as [Ht Hl].
  split; [destruct t; try discriminate; repeat split; discriminate|].
  split; [destruct l; [exact Hl | exact I] | destruct r; [exact Hr | exact I]].
Qed.

Lemma fsub_srel o : opt_all SP' o -> oloop o -> forall sb s2, fsub o sb = Some s2 -> srel sb s2.
Proof.
  destruct o as [x|]; cbn [opt_all oloop fsub]; intros IH Hl sb s2 H.
  - apply IH; assumption.
  - inversion H; subst. apply srel_refl.
Qed.

Lemma flat_stmt_srel : forall n, SP' n.
Proof.
  induction n as [t line file tok l r IHl IHr] using node_ind'.
  intros Hlo s s' H. rewrite flat_stmt_eq in H.
  apply loop_only_inv in Hlo. destruct Hlo as ((N1 & N2 & N3) & Hl & Hr).
  eapply srel_trans; [apply vrel_srel; apply (vrel_move_to s file line)|].
  set (s0 := move_to s file line) in *. clearbody s0.
  pose proof (fsub_srel l IHl Hl) as Sl. pose proof (fsub_srel r IHr Hr) as Sr.
  destruct t; cbn [fs_body] in H; try discriminate H; try congruence.
  - (* SPLIT *)
    unfold fs_split in H. destruct (fsub l s0) as [s1|] eqn:E1; [|discriminate].
    eapply srel_trans; eauto.
  - (* ASSIGN *)
    destruct l as [ln|]; [|discriminate]. unfold fs_assign in H. cbv zeta in H.
    destruct (opt_value r _) as [[s1 v]|] eqn:E; [|discriminate].
    apply opt_value_ok' in E. destruct E as (V1 & Hv). inversion H; subst s'.
    eapply srel_trans; [apply vrel_srel; apply vrel_mention|].
    eapply srel_trans; [apply vrel_srel; exact V1|].
    apply (srel_emit s1 (RAssign (n_tok ln) v)). rewrite (vr_done _ _ V1). exact Hv.
  - (* LOOP *)
    exact (fs_loop_srel _ _ _ _ Sr H).
  - (* PROGRAM *)
    destruct l as [[t1 l1 f1 k1 [name|] ports]|]; try discriminate.
    exact (fs_program_srel _ _ _ _ _ Sr H).
  - (* MARK *)
    destruct l as [ln|]; [|discriminate]. inversion H; subst s'.
    apply vrel_srel. apply vrel_same; reflexivity.
  - (* STOP *)
    inversion H; subst s'. apply (srel_emit s0 RStop). exact I.
Qed.
