(* Proofs_LRComplete0.v — helper lemmas for Proofs_LRComplete.v (completeness of the generated LR(1) parsers):
   1. item sets: insertion, the length test of hull_fuel, closure completeness of `hull`
   2. goto completeness of `jump`
   3. item lists are sorted by their left symbol (S' items come last)
   4. the automaton: every recorded transition is `jump`, every state is left-sorted
   5. the tables when the conflict list is []: every placement survives *)
From Coq Require Import List ZArith NArith Lia Bool Sorting.Sorted.
From Theo Require Import Base Grammar LR SpecMacro SpecLR LRStatements Proofs_First Proofs_LRSound0 Proofs_LRSound LRCompleteStatements.
Import ListNotations.

(* ================================================================================================ *)
(* 1. item sets                                                                                       *)
(* ================================================================================================ *)
Lemma item_tricho a b : item_ltb a b = false -> item_ltb b a = false -> a = b.
Proof.
  destruct a as [l1 a1 d1 f1], b as [l2 a2 d2 f2]. unfold item_ltb. cbn [i_left i_alt i_dot i_follow].
  destruct (sym_ltb l1 l2) eqn:E1; [intros; congruence|].
  destruct (sym_ltb l2 l1) eqn:E2; [intros; congruence|].
  destruct (N.ltb_spec a1 a2) as [L1|L1]; [intros; congruence|].
  destruct (N.ltb_spec a2 a1) as [L2|L2]; [intros; congruence|].
  destruct (N.ltb_spec d1 d2) as [L3|L3]; [intros; congruence|].
  destruct (N.ltb_spec d2 d1) as [L4|L4]; [intros; congruence|].
  intros H1 H2.
  assert (l1 = l2) by (apply slt_tricho; auto).
  assert (f1 = f2) by (apply slt_tricho; auto).
  assert (a1 = a2) by lia. assert (d1 = d2) by lia. congruence.
Qed.

Lemma isinsert_self s y : In y (sinsert item_ltb s y).
Proof.
  induction s as [|a t IH]; cbn [sinsert]; [left; auto|].
  destruct (item_ltb y a) eqn:E1; [left; auto|].
  destruct (item_ltb a y) eqn:E2; [right; auto|].
  left. symmetry. apply item_tricho; auto.
Qed.

Lemma fold_isinsert_new new : forall acc x, In x new -> In x (fold_left (sinsert item_ltb) new acc).
Proof.
  induction new as [|y new IH]; intros acc x Hx; [destruct Hx|].
  cbn [fold_left]. destruct Hx as [->|Hx]; [|apply IH; auto].
  apply fold_isinsert_mono. apply isinsert_self.
Qed.

Section SetLen.
  Context {K : Type} (ltb : K -> K -> bool).

  Lemma gsinsert_len_ge s y : (length s <= length (sinsert ltb s y))%nat.
  Proof.
    induction s as [|a t IH]; cbn [sinsert length]; [lia|].
    destruct (ltb y a); [cbn [length]; lia|]. destruct (ltb a y); cbn [length]; lia.
  Qed.

  Lemma gsinsert_len_eq s y : length (sinsert ltb s y) = length s -> sinsert ltb s y = s.
  Proof.
    induction s as [|a t IH]; cbn [sinsert length]; [discriminate|].
    destruct (ltb y a); [cbn [length]; lia|].
    destruct (ltb a y); cbn [length]; auto.
    intros H. f_equal. apply IH. lia.
  Qed.

  Lemma gfold_len_ge new : forall acc, (length acc <= length (fold_left (sinsert ltb) new acc))%nat.
  Proof.
    induction new as [|y new IH]; intros acc; cbn [fold_left]; [lia|].
    pose proof (gsinsert_len_ge acc y). pose proof (IH (sinsert ltb acc y)). lia.
  Qed.

  Lemma gfold_len_eq new : forall acc,
    length (fold_left (sinsert ltb) new acc) = length acc -> fold_left (sinsert ltb) new acc = acc.
  Proof.
    induction new as [|y new IH]; intros acc H; cbn [fold_left] in *; [reflexivity|].
    pose proof (gsinsert_len_ge acc y) as L1. pose proof (gfold_len_ge new (sinsert ltb acc y)) as L2.
    assert (E : sinsert ltb acc y = acc) by (apply gsinsert_len_eq; lia).
    rewrite E in *. apply IH. exact H.
  Qed.
End SetLen.

Lemma closure_round_len g : forall todo acc r, closure_round g todo acc = Ok r ->
  (length acc <= length r)%nat /\ (length r = length acc -> r = acc).
Proof.
  induction todo as [|e rest IH]; intros acc r H; cbn [closure_round] in H.
  - inversion H; subst. split; auto.
  - bind_inv H new Hn. destruct (IH _ _ H) as [L1 L2].
    pose proof (gfold_len_ge item_ltb new acc) as L3. split; [lia|].
    intros HL. assert (E : fold_left (sinsert item_ltb) new acc = acc) by (apply gfold_len_eq; lia).
    rewrite E in *. auto.
Qed.

Lemma closure_round_complete g : forall todo acc r, closure_round g todo acc = Ok r ->
  forall e new x, In e todo -> closure_of g e = Ok new -> In x new -> In x r.
Proof.
  induction todo as [|e0 rest IH]; intros acc r H e new x He Hc Hx; [destruct He|].
  cbn [closure_round] in H. bind_inv H new0 Hn0. destruct He as [->|He].
  - assert (new0 = new) by congruence. subst new0.
    destruct (closure_round_spec _ _ _ _ H) as (M1 & _). apply M1. apply fold_isinsert_new; auto.
  - eapply IH; eauto.
Qed.

Lemma hull_fuel_closed g : forall fuel I H, hull_fuel fuel g I = Ok H ->
  forall e new x, In e H -> closure_of g e = Ok new -> In x new -> In x H.
Proof.
  induction fuel as [|f IH]; intros I H HH e new x He Hc Hx; cbn [hull_fuel] in HH; [discriminate|].
  bind_inv HH I' HI'. destruct (Nat.eqb (length I') (length I)) eqn:EL.
  - inversion HH; subst H. apply Nat.eqb_eq in EL.
    destruct (closure_round_len _ _ _ _ HI') as [_ L2]. rewrite (L2 EL) in HI'.
    eapply closure_round_complete; eauto.
  - eapply IH; eauto.
Qed.

Lemma closure_of_In g e a n k la :
  fetch_right g e = Ok a -> expecting a e = Nt n ->
  (N.to_nat k < length (rs_get g (Nt n)))%nat -> In la (first g (follow_string a e)) ->
  exists new, closure_of g e = Ok new /\ In (mkItem (Nt n) k 0 la) new.
Proof.
  intros Ha He Hk Hla. unfold closure_of. rewrite Ha. cbn [bind]. rewrite He.
  eexists. split; [reflexivity|].
  apply in_flat_map. exists k. split.
  - apply count_up_In. lia.
  - apply in_map_iff. exists la. split; auto.
Qed.

(* A. closure completeness *)
Lemma hull_complete g I H e a n k la :
  hull g I = Ok H -> In e H -> fetch_right g e = Ok a -> expecting a e = Nt n ->
  (N.to_nat k < length (rs_get g (Nt n)))%nat -> In la (first g (follow_string a e)) ->
  In (mkItem (Nt n) k 0 la) H.
Proof.
  intros HH He Ha Hexp Hk Hla.
  destruct (closure_of_In g e a n k la Ha Hexp Hk Hla) as (new & Hc & Hin).
  eapply hull_fuel_closed; eauto.
Qed.

(* ================================================================================================ *)
(* 2. goto completeness                                                                               *)
(* ================================================================================================ *)
Lemma advance_items_complete g X : forall I acc J, advance_items g I X acc = Ok J ->
  (forall x, In x acc -> In x J) /\
  (forall e a, In e I -> fetch_right g e = Ok a -> expecting a e = X -> In (adv e) J).
Proof.
  induction I as [|e0 rest IH]; intros acc J H; cbn [advance_items] in H.
  - inversion H; subst. split; auto. intros e a [].
  - bind_inv H a0 Ha0. destruct (sym_eqb (expecting a0 e0) X) eqn:E.
    + destruct (IH _ _ H) as [I1 I2]. split.
      * intros x Hx. apply I1. apply isinsert_mono; auto.
      * intros e a [<-|He] Ha Hexp.
        -- apply I1. apply isinsert_self.
        -- eapply I2; eauto.
    + destruct (IH _ _ H) as [I1 I2]. split; auto.
      intros e a [<-|He] Ha Hexp.
      * assert (a0 = a) by congruence. subst a0. rewrite Hexp, sym_eqb_refl in E. discriminate.
      * eapply I2; eauto.
Qed.

(* B. *)
Lemma jump_complete g I X J e a :
  jump g I X = Ok J -> In e I -> fetch_right g e = Ok a -> expecting a e = X -> In (adv e) J.
Proof.
  unfold jump. intros H He Ha Hexp. bind_inv H J0 HJ0.
  destruct (advance_items_complete _ _ _ _ _ HJ0) as [_ A].
  destruct (hull_spec _ _ _ H) as (M1 & _). apply M1. eapply A; eauto.
Qed.

(* ================================================================================================ *)
(* 3. item lists are sorted by their left symbol                                                       *)
(* ================================================================================================ *)
Definition lle (a b : item) : Prop := sym_ltb (i_left b) (i_left a) = false.
Definition LeftSorted (l : list item) : Prop := StronglySorted lle l.

Lemma sle_trans a b c : sym_ltb b a = false -> sym_ltb c b = false -> sym_ltb c a = false.
Proof.
  intros H1 H2. destruct (sym_ltb c a) eqn:E; auto.
  assert (N1 : ~ sym_ltb b a = true) by congruence.
  assert (N2 : ~ sym_ltb c b = true) by congruence.
  rewrite sym_ltb_spec in N1, N2, E. lia.
Qed.

Lemma lle_trans a b c : lle a b -> lle b c -> lle a c.
Proof. unfold lle. apply sle_trans. Qed.

Lemma item_ltb_lle a b : item_ltb a b = true -> lle a b.
Proof.
  unfold item_ltb, lle. destruct (sym_ltb (i_left a) (i_left b)) eqn:E1.
  - intros _. apply slt_asym; auto.
  - destruct (sym_ltb (i_left b) (i_left a)); [discriminate|auto].
Qed.

Lemma isinsert_sorted s y : LeftSorted s -> LeftSorted (sinsert item_ltb s y).
Proof.
  unfold LeftSorted. induction s as [|a t IH]; cbn [sinsert]; intros HS.
  - constructor; constructor.
  - inversion HS as [|a' l HS1 HF]; subst.
    destruct (item_ltb y a) eqn:E1.
    + constructor; auto. constructor; [apply item_ltb_lle; auto|].
      eapply Forall_impl; [|exact HF]. intros b Hb. eapply lle_trans; [apply item_ltb_lle; eauto|auto].
    + destruct (item_ltb a y) eqn:E2; [|exact HS].
      constructor; auto. apply Forall_forall. intros x Hx. apply In_isinsert in Hx.
      destruct Hx as [->|Hx]; [apply item_ltb_lle; auto|]. rewrite Forall_forall in HF. auto.
Qed.

Lemma fold_isinsert_sorted new : forall acc, LeftSorted acc -> LeftSorted (fold_left (sinsert item_ltb) new acc).
Proof.
  induction new as [|y new IH]; intros acc H; cbn [fold_left]; auto. apply IH. apply isinsert_sorted; auto.
Qed.

Lemma closure_round_sorted g : forall todo acc r, closure_round g todo acc = Ok r -> LeftSorted acc -> LeftSorted r.
Proof.
  induction todo as [|e rest IH]; intros acc r H HS; cbn [closure_round] in H.
  - inversion H; subst; auto.
  - bind_inv H new Hn. eapply IH; eauto. apply fold_isinsert_sorted; auto.
Qed.

Lemma hull_fuel_sorted g : forall fuel I H, hull_fuel fuel g I = Ok H -> LeftSorted I -> LeftSorted H.
Proof.
  induction fuel as [|f IH]; intros I H HH HS; cbn [hull_fuel] in HH; [discriminate|].
  bind_inv HH I' HI'. destruct (Nat.eqb (length I') (length I)).
  - inversion HH; subst; auto.
  - eapply IH; eauto. eapply closure_round_sorted; eauto.
Qed.

Lemma advance_items_sorted g X : forall I acc J, advance_items g I X acc = Ok J -> LeftSorted acc -> LeftSorted J.
Proof.
  induction I as [|e rest IH]; intros acc J H HS; cbn [advance_items] in H.
  - inversion H; subst; auto.
  - bind_inv H a Ha. destruct (sym_eqb (expecting a e) X); eauto.
    eapply IH; eauto. apply isinsert_sorted; auto.
Qed.

Lemma jump_sorted g I X J : jump g I X = Ok J -> LeftSorted J.
Proof.
  unfold jump. intros H. bind_inv H J0 HJ0. eapply hull_fuel_sorted; [exact H|].
  eapply advance_items_sorted; eauto. constructor.
Qed.

Lemma hull_single_sorted g e H : hull g [e] = Ok H -> LeftSorted H.
Proof. intros HH. eapply hull_fuel_sorted; [exact HH|]. constructor; constructor. Qed.

(* ================================================================================================ *)
(* 4. the automaton: recorded transitions are `jump`; states are left-sorted                           *)
(* ================================================================================================ *)
Section Auto.
  Variable g5 : grammar.

  Definition JInv (states : list lrstate) : Prop :=
    forall i si X j, nth_error states i = Some si -> In (X, j) (st_jump si) ->
      (0 <= j)%Z /\ exists sj, nth_error states (Z.to_nat j) = Some sj /\ jump g5 (st_items si) X = Ok (st_items sj).
  Definition LInv (states : list lrstate) : Prop :=
    forall i si, nth_error states i = Some si -> LeftSorted (st_items si).
  Definition ClosedSet (I : list item) : Prop :=
    forall e new x, In e I -> closure_of g5 e = Ok new -> In x new -> In x I.
  Definition KInv (states : list lrstate) : Prop :=
    forall i si, nth_error states i = Some si -> ClosedSet (st_items si).
  Definition CInv (states : list lrstate) : Prop := JInv states /\ LInv states /\ KInv states.

  Lemma jump_closed I X J : jump g5 I X = Ok J -> ClosedSet J.
  Proof.
    unfold jump. intros H. bind_inv H J0 HJ0. intros e new x. eapply hull_fuel_closed; eauto.
  Qed.

  Lemma add_transition_C states i t states' :
    CInv states -> add_transition g5 states i t = Ok states' -> CInv states' /\ ext states states'.
  Proof.
    intros (HJ & HL & HK) HA.
    destruct (add_transition_spec _ _ _ _ _ HA)
      as (cur & r & states1 & target & j' & C1 & C2 & C3 & C4 & (sj & C5 & C5') & C6 & C7 & (jt & C8) & ->).
    set (newi := mkSt (st_items cur) j').
    assert (E1 : ext states states1).
    { destruct C3 as [->| ->]; [apply ext_refl|apply ext_app]. }
    assert (Hcur1 : nth_error states1 i = Some cur).
    { destruct C3 as [->| ->]; auto. rewrite nth_error_app1; auto. apply nth_error_Some. congruence. }
    assert (E2 : ext states1 (upd_nat states1 i newi)).
    { eapply ext_upd; eauto. }
    assert (E : ext states (upd_nat states1 i newi)) by (eapply ext_trans; eauto).
    assert (Hcase : forall k s', nth_error (upd_nat states1 i newi) k = Some s' ->
               (k = i /\ s' = newi) \/
               (k <> i /\ (nth_error states k = Some s' \/ s' = mkSt r []))).
    { intros k s' Hk. destruct (Nat.eq_dec k i) as [->|Hne].
      - left. split; auto. rewrite nth_error_upd_nat_same in Hk by (apply nth_error_Some; congruence). congruence.
      - right. split; auto. rewrite nth_error_upd_nat_other in Hk by auto.
        destruct C3 as [->| ->]; auto.
        destruct (Nat.lt_ge_cases k (length states)) as [L|L].
        + rewrite nth_error_app1 in Hk by auto. auto.
        + rewrite nth_error_app2 in Hk by auto. right.
          destruct (k - length states)%nat as [|m]; cbn [nth_error] in Hk.
          * inversion Hk; auto.
          * destruct m; discriminate. }
    (* a transition valid in `states` stays valid *)
    assert (Hkeep : forall si X j, (0 <= j)%Z /\ (exists sj0, nth_error states (Z.to_nat j) = Some sj0 /\
                       jump g5 (st_items si) X = Ok (st_items sj0)) ->
               (0 <= j)%Z /\ exists sj0, nth_error (upd_nat states1 i newi) (Z.to_nat j) = Some sj0 /\
                       jump g5 (st_items si) X = Ok (st_items sj0)).
    { intros si X j (P0 & sj0 & P1 & P2). split; auto.
      destruct (E _ _ P1) as (sj1 & Q1 & Q2 & _). exists sj1. split; auto. rewrite Q2. auto. }
    split; [split; [|split]|exact E].
    - intros k s' X j Hk HX. destruct (Hcase k s' Hk) as [[-> ->]|[Hne [Hold| ->]]].
      + cbn [newi st_jump st_items] in *. destruct (C7 X j HX) as [HX'|[-> ->]].
        * apply Hkeep. eapply HJ; eauto.
        * split; auto. destruct (E2 _ _ C5) as (sj1 & Q1 & Q2 & _). exists sj1. split; auto.
          rewrite Q2, C5'. auto.
      + apply Hkeep. eapply HJ; eauto.
      + cbn [st_jump] in HX. destruct HX.
    - intros k s' Hk. destruct (Hcase k s' Hk) as [[-> ->]|[Hne [Hold| ->]]].
      + cbn [newi st_items]. eapply HL; eauto.
      + eapply HL; eauto.
      + cbn [st_items]. eapply jump_sorted; eauto.
    - intros k s' Hk. destruct (Hcase k s' Hk) as [[-> ->]|[Hne [Hold| ->]]].
      + cbn [newi st_items]. eapply HK; eauto.
      + eapply HK; eauto.
      + cbn [st_items]. eapply jump_closed; eauto.
  Qed.

  Lemma add_transitions_C i : forall ts states states',
    CInv states -> add_transitions g5 states i ts = Ok states' -> CInv states'.
  Proof.
    induction ts as [|t rest IH]; intros states states' HC HA; cbn [add_transitions] in HA.
    - inversion HA; subst; auto.
    - bind_inv HA s1 Hs1. destruct (add_transition_C _ _ _ _ HC Hs1) as [HC1 _]. eapply IH; eauto.
  Qed.

  Lemma elements_loop_C : forall fuel states i final,
    CInv states -> elements_loop fuel g5 states i = Ok final -> CInv final.
  Proof.
    induction fuel as [|f IH]; intros states i final HC HL; cbn [elements_loop] in HL; [discriminate|].
    destruct (nth_error states i) as [cur|] eqn:Ecur.
    - bind_inv HL ts Hts. bind_inv HL states' Hst. eapply IH; [|exact HL].
      eapply add_transitions_C; eauto.
    - inversion HL; subst; auto.
  Qed.

  Lemma CInv_init h e : hull g5 [e] = Ok h -> CInv [mkSt h []].
  Proof.
    intros Hh. split; [|split].
    - intros [|i] si X j Hi HX; cbn [nth_error] in Hi; [inversion Hi; subst; destruct HX|destruct i; discriminate].
    - intros [|i] si Hi; cbn [nth_error] in Hi; [|destruct i; discriminate].
      inversion Hi; subst. cbn [st_items]. eapply hull_single_sorted; eauto.
    - intros [|i] si Hi; cbn [nth_error] in Hi; [|destruct i; discriminate].
      inversion Hi; subst. cbn [st_items]. intros e0 new x. eapply hull_fuel_closed; eauto.
  Qed.

  (* the first state keeps its items *)
  Lemma add_transition_zero states i t states' s0 :
    add_transition g5 states i t = Ok states' -> nth_error states 0 = Some s0 ->
    exists s0', nth_error states' 0 = Some s0' /\ st_items s0' = st_items s0.
  Proof.
    intros HA H0.
    destruct (add_transition_spec _ _ _ _ _ HA)
      as (cur & r & states1 & target & j' & C1 & C2 & C3 & C4 & (sj & C5 & C5') & C6 & C7 & (jt & C8) & ->).
    assert (E1 : ext states states1).
    { destruct C3 as [->| ->]; [apply ext_refl|apply ext_app]. }
    assert (Hcur1 : nth_error states1 i = Some cur).
    { destruct C3 as [->| ->]; auto. rewrite nth_error_app1; auto. apply nth_error_Some. congruence. }
    assert (E2 : ext states1 (upd_nat states1 i (mkSt (st_items cur) j'))).
    { eapply ext_upd; eauto. }
    destruct (ext_trans _ _ _ E1 E2 _ _ H0) as (s' & A & B & _). eauto.
  Qed.

  Lemma add_transitions_zero i : forall ts states states' s0,
    add_transitions g5 states i ts = Ok states' -> nth_error states 0 = Some s0 ->
    exists s0', nth_error states' 0 = Some s0' /\ st_items s0' = st_items s0.
  Proof.
    induction ts as [|t rest IH]; intros states states' s0 HA H0; cbn [add_transitions] in HA.
    - inversion HA; subst; eauto.
    - bind_inv HA s1 Hs1. destruct (add_transition_zero _ _ _ _ _ Hs1 H0) as (s0' & A & B).
      destruct (IH _ _ _ HA A) as (s0'' & A' & B'). exists s0''. split; auto. congruence.
  Qed.

  Lemma elements_loop_zero : forall fuel states i final s0,
    elements_loop fuel g5 states i = Ok final -> nth_error states 0 = Some s0 ->
    exists s0', nth_error final 0 = Some s0' /\ st_items s0' = st_items s0.
  Proof.
    induction fuel as [|f IH]; intros states i final s0 HL H0; cbn [elements_loop] in HL; [discriminate|].
    destruct (nth_error states i) as [cur|] eqn:Ecur.
    - bind_inv HL ts Hts. bind_inv HL states' Hst.
      destruct (add_transitions_zero _ _ _ _ _ Hst H0) as (s0' & A & B).
      destruct (IH _ _ _ _ HL A) as (s0'' & A' & B'). exists s0''. split; auto. congruence.
    - inversion HL; subst; eauto.
  Qed.
End Auto.

(* ================================================================================================ *)
(* 5. the tables when no conflict was recorded                                                        *)
(* ================================================================================================ *)
Lemma app_nil_left {A} (l extra : list A) : [] = l ++ extra -> l = [].
Proof. intros H. symmetry in H. apply app_eq_nil in H. tauto. Qed.

Lemma sorted_app_tail {A} (R : A -> A -> Prop) e : forall l1 l2,
  StronglySorted R (l1 ++ e :: l2) -> Forall (R e) l2.
Proof.
  induction l1 as [|x l1 IH]; intros l2 H; cbn [app] in H; inversion H; subst; auto.
Qed.

Section TabC.
  Variable g5 : grammar.
  Variable prefix : bool.
  Variable eof : sym.
  Local Open Scope N_scope.

  Definition action_of (e : item) (size : N) : lr_action :=
    if sym_index (i_left e) =? sprime_index g5 then AAccept
    else AReduce (sym_index (i_left e)) size (i_left e) (i_alt e).

  Definition keepable (e : item) (x : lr_action) : Prop :=
    match x with
    | AShift _ | AReduce _ _ _ _ => True
    | AAccept => sym_index (i_left e) = sprime_index g5
    | AErr => False
    end.

  Lemma keepable_action e size : keepable e (action_of e size).
  Proof.
    unfold action_of. destruct (N.eqb_spec (sym_index (i_left e)) (sprime_index g5)); cbn [keepable]; auto.
  Qed.

  (* ---- conflict lists only grow ---------------------------------------------------------------- *)
  Lemma place_shift_grow st row confs t target r :
    place_shift st row confs t target = Ok r -> exists extra, snd r = confs ++ extra.
  Proof.
    unfold place_shift. intros H. bind_inv H cur Hc.
    destruct cur; try (bind_inv H row' Hr; inversion H; subst r; cbn [snd]; exists []; rewrite app_nil_r; reflexivity).
    inversion H; subst r; cbn [snd]. eauto.
  Qed.

  Lemma place_item_grow st acc e t size acc' :
    place_item g5 st acc e t size = Ok acc' -> exists extra, snd acc' = snd acc ++ extra.
  Proof.
    unfold place_item. destruct (sym_index (i_left e) =? sprime_index g5).
    - unfold place_accept. intros H. bind_inv H cur Hc.
      destruct cur; try (bind_inv H row' Hr; inversion H; subst acc'; cbn [snd]; exists []; rewrite app_nil_r; reflexivity);
        inversion H; subst acc'; cbn [snd]; eauto.
    - unfold place_reduce. intros H. bind_inv H cur Hc.
      destruct cur; try (bind_inv H row' Hr; inversion H; subst acc'; cbn [snd]; exists []; rewrite app_nil_r; reflexivity);
        inversion H; subst acc'; cbn [snd]; eauto.
  Qed.

  Lemma place_all_grow st e size : forall ts acc acc',
    place_all g5 st acc e size ts = Ok acc' -> exists extra, snd acc' = snd acc ++ extra.
  Proof.
    induction ts as [|t rest IH]; intros acc acc' H; cbn [place_all] in H.
    - inversion H; subst. exists []. rewrite app_nil_r. reflexivity.
    - bind_inv H acc1 H1. destruct (place_item_grow _ _ _ _ _ _ H1) as [x1 E1].
      destruct (IH _ _ H) as [x2 E2]. exists (x1 ++ x2). rewrite E2, E1, app_assoc. reflexivity.
  Qed.

  Lemma fill_items_grow st : forall its acc acc',
    fill_items g5 prefix eof st acc its = Ok acc' -> exists extra, snd acc' = snd acc ++ extra.
  Proof.
    induction its as [|e rest IH]; intros acc acc' H; cbn [fill_items] in H.
    - inversion H; subst. exists []. rewrite app_nil_r. reflexivity.
    - bind_inv H a Ha. destruct (negb (i_dot e =? N.of_nat (length a))); [eauto|].
      bind_inv H acc1 H1.
      assert (G1 : exists extra, snd acc1 = snd acc ++ extra).
      { destruct ((sym_index (i_follow e) =? sym_index eof) && prefix).
        - eapply place_all_grow; eauto.
        - eapply place_item_grow; eauto. }
      destruct G1 as [x1 E1]. destruct (IH _ _ H) as [x2 E2].
      exists (x1 ++ x2). rewrite E2, E1, app_assoc. reflexivity.
  Qed.

  Lemma fill_jumps_grow st : forall js row jrow confs row' jrow' confs',
    fill_jumps st row jrow confs js = Ok (row', jrow', confs') -> exists extra, confs' = confs ++ extra.
  Proof.
    induction js as [|[X target] rest IH]; intros row jrow confs row' jrow' confs' H; cbn [fill_jumps] in H.
    - inversion H; subst. exists []. rewrite app_nil_r. reflexivity.
    - destruct X as [|i|i].
      + eauto.
      + bind_inv H r Hr. destruct (place_shift_grow _ _ _ _ _ _ Hr) as [x1 E1].
        destruct (IH _ _ _ _ _ _ H) as [x2 E2]. exists (x1 ++ x2). rewrite E2, E1, app_assoc. reflexivity.
      + bind_inv H jrow1 Hj1. eauto.
  Qed.

  (* ---- one placement without conflict ------------------------------------------------------------ *)
  Lemma place_item_cf st row e t size row' :
    place_item g5 st (row, []) e t size = Ok (row', []) ->
    exists cur, znth row t = Some cur /\ (cur = AAccept \/ cur = AErr) /\
                zupd row t (action_of e size) = Some row'.
  Proof.
    unfold place_item, action_of. cbn [fst snd].
    destruct (sym_index (i_left e) =? sprime_index g5).
    - unfold place_accept, row_get, row_set. intros H. bind_inv H cur Hc. apply of_opt_Ok in Hc.
      exists cur. split; auto.
      destruct cur; cbn [app] in H; try (inversion H; fail);
        bind_inv H r' Hr; apply of_opt_Ok in Hr; inversion H; subst; auto.
    - unfold place_reduce, row_get, row_set. intros H. bind_inv H cur Hc. apply of_opt_Ok in Hc.
      exists cur. split; auto.
      destruct cur; cbn [app] in H; try (inversion H; fail);
        bind_inv H r' Hr; apply of_opt_Ok in Hr; inversion H; subst; auto.
  Qed.

  Lemma place_item_keep st row e t size row' c x :
    place_item g5 st (row, []) e t size = Ok (row', []) ->
    znth row c = Some x -> keepable e x -> znth row' c = Some x.
  Proof.
    intros H Hc Hk. destruct (place_item_cf _ _ _ _ _ _ H) as (cur & Hcur & Hcase & Hupd).
    destruct (Z.eq_dec c t) as [->|Hne].
    - assert (x = cur) by congruence. subst x.
      destruct Hcase as [->| ->]; cbn [keepable] in Hk; [|contradiction].
      rewrite (znth_zupd_same _ _ _ _ Hupd). unfold action_of.
      rewrite (proj2 (N.eqb_eq _ _) Hk). reflexivity.
    - rewrite (znth_zupd_other _ _ _ _ _ Hupd) by auto. auto.
  Qed.

  Lemma place_item_place st row e t size row' :
    place_item g5 st (row, []) e t size = Ok (row', []) -> znth row' t = Some (action_of e size).
  Proof.
    intros H. destruct (place_item_cf _ _ _ _ _ _ H) as (cur & Hcur & Hcase & Hupd).
    eapply znth_zupd_same; eauto.
  Qed.

  Lemma place_all_step st e size t rest row acc' :
    place_all g5 st (row, []) e size (t :: rest) = Ok (acc', []) ->
    exists row1, place_item g5 st (row, []) e t size = Ok (row1, []) /\
                 place_all g5 st (row1, []) e size rest = Ok (acc', []).
  Proof.
    cbn [place_all]. intros H. bind_inv H acc1 H1. destruct acc1 as [row1 confs1].
    destruct (place_all_grow _ _ _ _ _ _ H) as [x2 E2]. cbn [snd] in E2.
    apply app_nil_left in E2. subst confs1. eauto.
  Qed.

  Lemma place_all_keep st e size c x : forall ts row row',
    place_all g5 st (row, []) e size ts = Ok (row', []) ->
    znth row c = Some x -> keepable e x -> znth row' c = Some x.
  Proof.
    induction ts as [|t rest IH]; intros row row' H Hc Hk.
    - cbn [place_all] in H. inversion H; subst; auto.
    - destruct (place_all_step _ _ _ _ _ _ _ H) as (row1 & H1 & H2).
      eapply IH; [exact H2| |exact Hk]. eapply place_item_keep; eauto.
  Qed.

  Lemma place_all_place st e size t : forall ts row row',
    place_all g5 st (row, []) e size ts = Ok (row', []) -> In t ts ->
    znth row' t = Some (action_of e size).
  Proof.
    induction ts as [|t0 rest IH]; intros row row' H Hin; [destruct Hin|].
    destruct (place_all_step _ _ _ _ _ _ _ H) as (row1 & H1 & H2).
    destruct Hin as [->|Hin]; [|eapply IH; eauto].
    eapply place_all_keep; [exact H2| |apply keepable_action]. eapply place_item_place; eauto.
  Qed.

  (* ---- all items of one state -------------------------------------------------------------------- *)
  Definition iscomplete (e : item) : Prop :=
    exists a, fetch_right g5 e = Ok a /\ i_dot e = N.of_nat (length a).

  Definition col (e : item) (t : Z) : Prop :=
    if (sym_index (i_follow e) =? sym_index eof) && prefix
    then (0 <= t < Z.of_nat (width g5))%Z
    else t = Z.of_N (sym_index (i_follow e)).

  (* what one item does, conflict-free *)
  Lemma fill_items_step st e rest row row' :
    fill_items g5 prefix eof st (row, []) (e :: rest) = Ok (row', []) ->
    exists a row1, fetch_right g5 e = Ok a /\
      fill_items g5 prefix eof st (row1, []) rest = Ok (row', []) /\
      ((i_dot e <> N.of_nat (length a) /\ row1 = row) \/
       (i_dot e = N.of_nat (length a) /\
        if (sym_index (i_follow e) =? sym_index eof) && prefix
        then place_all g5 st (row, []) e (N.of_nat (length a)) (map (fun n => Z.of_N n) (count_up (width g5) 0)) = Ok (row1, [])
        else place_item g5 st (row, []) e (Z.of_N (sym_index (i_follow e))) (N.of_nat (length a)) = Ok (row1, []))).
  Proof.
    cbn [fill_items]. intros H. bind_inv H a Ha. exists a.
    destruct (N.eqb_spec (i_dot e) (N.of_nat (length a))) as [ED|ED]; cbn [negb] in H.
    - bind_inv H acc1 H1. destruct acc1 as [row1 confs1].
      destruct (fill_items_grow _ _ _ _ H) as [x2 E2]. cbn [snd] in E2. apply app_nil_left in E2. subst confs1.
      exists row1. split; auto. split; auto. right. split; auto.
      destruct ((sym_index (i_follow e) =? sym_index eof) && prefix); exact H1.
    - exists row. split; [auto|]. split; [auto|]. left; auto.
  Qed.

  Lemma fill_items_keep st c x : forall its row row',
    fill_items g5 prefix eof st (row, []) its = Ok (row', []) ->
    znth row c = Some x -> (forall e, In e its -> iscomplete e -> keepable e x) -> znth row' c = Some x.
  Proof.
    induction its as [|e rest IH]; intros row row' H Hc Hk.
    - cbn [fill_items] in H. inversion H; subst; auto.
    - destruct (fill_items_step _ _ _ _ _ H) as (a & row1 & Ha & Hrest & Hcase).
      eapply IH; [exact Hrest| |intros e' He'; apply Hk; right; auto].
      destruct Hcase as [[_ ->]|[Hd Hp]]; auto.
      assert (Hke : keepable e x) by (apply Hk; [left; auto|exists a; auto]).
      destruct ((sym_index (i_follow e) =? sym_index eof) && prefix).
      + eapply place_all_keep; eauto.
      + eapply place_item_keep; eauto.
  Qed.

  Lemma fill_items_place st e a t l2 : forall l1 row row',
    fill_items g5 prefix eof st (row, []) (l1 ++ e :: l2) = Ok (row', []) ->
    fetch_right g5 e = Ok a -> i_dot e = N.of_nat (length a) -> col e t ->
    (forall e', In e' l2 -> iscomplete e' -> keepable e' (action_of e (N.of_nat (length a)))) ->
    znth row' t = Some (action_of e (N.of_nat (length a))).
  Proof.
    induction l1 as [|x l1 IH]; intros row row' H Ha Hd Hcol Hk; cbn [app] in H.
    - destruct (fill_items_step _ _ _ _ _ H) as (a' & row1 & Ha' & Hrest & Hcase).
      assert (a' = a) by congruence. subst a'.
      destruct Hcase as [[Hne _]|[_ Hp]]; [contradiction|].
      eapply fill_items_keep; [exact Hrest| |exact Hk].
      unfold col in Hcol. destruct ((sym_index (i_follow e) =? sym_index eof) && prefix).
      + eapply place_all_place; [exact Hp|]. apply in_map_iff. exists (Z.to_N t). split; [lia|].
        apply count_up_In. unfold width in *. lia.
      + subst t. eapply place_item_place; eauto.
    - destruct (fill_items_step _ _ _ _ _ H) as (a' & row1 & Ha' & Hrest & Hcase).
      eapply IH; eauto.
  Qed.

  (* ---- the shifts of one state -------------------------------------------------------------------- *)
  Definition NoRA (row : list lr_action) : Prop :=
    forall c x, znth row c = Some x -> x = AErr \/ exists j, x = AShift j.

  Lemma place_shift_NoRA st row confs t target r :
    NoRA row -> place_shift st row confs t target = Ok r -> zupd row t (AShift target) = Some (fst r).
  Proof.
    unfold place_shift, row_get, row_set. intros HN H. bind_inv H cur Hc. apply of_opt_Ok in Hc.
    destruct (HN _ _ Hc) as [->|[j ->]]; bind_inv H r' Hr; apply of_opt_Ok in Hr; inversion H; subst; auto.
  Qed.

  Lemma fill_jumps_shift st : forall js row jrow confs row' jrow' confs',
    NoRA row -> fill_jumps st row jrow confs js = Ok (row', jrow', confs') ->
    NoRA row' /\
    (forall i, (exists j, znth row (Z.of_N i) = Some (AShift j)) -> exists j, znth row' (Z.of_N i) = Some (AShift j)) /\
    (forall i j, In (Tm i, j) js -> exists j', znth row' (Z.of_N i) = Some (AShift j')).
  Proof.
    induction js as [|[X target] rest IH]; intros row jrow confs row' jrow' confs' HN H; cbn [fill_jumps] in H.
    - inversion H; subst. split; auto. split; auto. intros i j [].
    - destruct X as [|i|i].
      + destruct (IH _ _ _ _ _ _ HN H) as (A & B & C). split; auto. split; auto.
        intros i j [Hij|Hij]; [inversion Hij|eauto].
      + bind_inv H r Hr. pose proof (place_shift_NoRA _ _ _ _ _ _ HN Hr) as Hupd.
        assert (HN1 : NoRA (fst r)).
        { intros c x Hx. destruct (znth_zupd _ _ _ _ _ _ Hupd Hx) as [[_ ->]|Hx']; eauto. }
        assert (Hkeep : forall i', (exists j, znth row (Z.of_N i') = Some (AShift j)) ->
                                   exists j, znth (fst r) (Z.of_N i') = Some (AShift j)).
        { intros i' [j Hj]. destruct (N.eq_dec i' i) as [->|Hne].
          - exists target. eapply znth_zupd_same; eauto.
          - exists j. rewrite (znth_zupd_other _ _ _ _ _ Hupd); auto. lia. }
        destruct (IH _ _ _ _ _ _ HN1 H) as (A & B & C). split; auto. split; auto.
        intros i' j [Hij|Hij]; [|eauto]. inversion Hij; subst i' j. apply B.
        exists target. eapply znth_zupd_same; eauto.
      + bind_inv H jrow1 Hj1. destruct (IH _ _ _ _ _ _ HN H) as (A & B & C). split; auto. split; auto.
        intros i' j [Hij|Hij]; [inversion Hij|eauto].
  Qed.

  (* ---- all states ---------------------------------------------------------------------------------- *)
  Definition RowC (s : lrstate) (row : list lr_action) : Prop :=
    exists st row1 jrow1,
      fill_jumps st (zrepeat AErr (width g5)) (zrepeat (-1)%Z (N.to_nat (total_nt g5))) [] (st_jump s)
        = Ok (row1, jrow1, []) /\
      fill_items g5 prefix eof st (row1, []) (st_items s) = Ok (row, []).

  Lemma fill_states_C : forall states st confs rows jrows,
    fill_states g5 prefix eof st states confs = Ok (rows, jrows, []) ->
    confs = [] /\ forall k s, nth_error states k = Some s -> exists row, nth_error rows k = Some row /\ RowC s row.
  Proof.
    induction states as [|s rest IH]; intros st confs rows jrows H; cbn [fill_states] in H.
    - inversion H; subst. split; auto. intros k s Hk. destruct k; discriminate.
    - bind_inv H r1 H1. destruct r1 as [[row1 jrow1] confs1].
      bind_inv H r2 H2. destruct r2 as [row2 confs2]. bind_inv H r3 H3. destruct r3 as [[rows3 jrows3] confs3].
      inversion H; subst. cbn [snd fst] in *.
      destruct (IH _ _ _ _ H3) as [-> HR].
      destruct (fill_items_grow _ _ _ _ H2) as [x2 E2]. cbn [snd] in E2. apply app_nil_left in E2. subst confs1.
      destruct (fill_jumps_grow _ _ _ _ _ _ _ _ H1) as [x1 E1]. apply app_nil_left in E1. subst confs.
      split; auto. intros [|k] s' Hk; cbn [nth_error] in *.
      + inversion Hk; subst s'. exists row2. split; auto. exists st, row1, jrow1. auto.
      + auto.
  Qed.

  (* C. table completeness for one state *)
  Lemma RowC_facts s row :
    RowC s row -> LeftSorted (st_items s) ->
    (forall e, In e (st_items s) -> exists n, i_left e = Nt n /\ n <= sprime_index g5) ->
    (forall i j, In (Tm i, j) (st_jump s) -> exists j', znth row (Z.of_N i) = Some (AShift j')) /\
    (forall e a t, In e (st_items s) -> fetch_right g5 e = Ok a -> i_dot e = N.of_nat (length a) -> col e t ->
       znth row t = Some (action_of e (N.of_nat (length a)))).
  Proof.
    intros (st & row1 & jrow1 & HJ & HI) HS HB.
    assert (HN0 : NoRA (zrepeat AErr (width g5))).
    { intros c x Hx. apply znth_zrepeat in Hx. auto. }
    destruct (fill_jumps_shift _ _ _ _ _ _ _ _ HN0 HJ) as (_ & _ & HSh).
    split.
    - intros i j Hij. destruct (HSh _ _ Hij) as [j' Hj']. exists j'.
      eapply fill_items_keep; [exact HI|exact Hj'|]. intros e _ _. exact I.
    - intros e a t He Ha Hd Hcol. apply in_split in He. destruct He as (l1 & l2 & Hsplit).
      rewrite Hsplit in HI. eapply fill_items_place; eauto.
      intros e' He' _. unfold action_of.
      destruct (N.eqb_spec (sym_index (i_left e)) (sprime_index g5)) as [ES|ES]; cbn [keepable]; auto.
      (* an accept: every later item is an S' item too *)
      rewrite Hsplit in HS. apply sorted_app_tail in HS. rewrite Forall_forall in HS.
      specialize (HS e' He'). unfold lle in HS.
      destruct (HB e) as (n & Hn & Hle). { rewrite Hsplit. apply in_or_app. right; left; auto. }
      destruct (HB e') as (n' & Hn' & Hle'). { rewrite Hsplit. apply in_or_app. right; right; auto. }
      rewrite Hn in ES. cbn [sym_index] in ES. rewrite Hn'. cbn [sym_index].
      assert (NL : ~ sym_ltb (i_left e') (i_left e) = true) by congruence.
      rewrite sym_ltb_spec, Hn, Hn' in NL. cbn [sym_type sym_index] in NL. lia.
  Qed.
End TabC.

(* ================================================================================================ *)
(* 6. what generate_tables returns when the conflict list is empty                                     *)
(* ================================================================================================ *)
Lemma generate_inv2 ms g prefix S eof g' tab states :
  generate_tables ms g prefix S eof = Ok (g', tab, [], states) ->
  CInv g' states /\
  (exists s0, nth_error states 0 = Some s0 /\ In (mkItem (Nt (total_nt g)) 0 0 eof) (st_items s0)) /\
  exists rows jrows, tab = mkTab rows jrows /\
    forall k s, nth_error states k = Some s -> exists row, nth_error rows k = Some row /\ RowC g' prefix eof s row.
Proof.
  intros H. unfold generate_tables in H. bind_inv H r Hr. destruct r as [g5 sts].
  bind_inv H t Ht. destruct t as [[rows jrows] cf]. inversion H; subst.
  rewrite elements_unfold in Hr. bind_inv Hr g5' H5. bind_inv Hr h Hh. bind_inv Hr sts' Hl.
  inversion Hr; subst.
  split; [|split].
  - eapply elements_loop_C; [|exact Hl]. eapply CInv_init; eauto.
  - destruct (elements_loop_zero _ _ _ _ _ (mkSt h []) Hl eq_refl) as (s0 & A & B).
    exists s0. split; auto. rewrite B. cbn [st_items].
    destruct (hull_spec _ _ _ Hh) as (M1 & _). apply M1. left; auto.
  - exists rows, jrows. split; auto.
    destruct (fill_states_C _ _ _ _ _ _ _ _ Ht) as [_ HR]. exact HR.
Qed.
