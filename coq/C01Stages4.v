(* C01Stages4.v — stage 4 of compile correctness: the whole language.  PROGRAM definitions (parameters, OUT variable),
   RUN of earlier-defined programs with arguments that are values themselves (names, numbers, +/- sugar, nested calls),
   and in every body the statement language of stage 3.  Tree shapes are exactly those Parser.pcall builds for an
   error-free token stream; the layout conditions (`ol`) keep every node of a statement's values on the statement's
   line, as in stages 2 and 3.  Conclusions: C01Stages.sim_conclusion (all live activations, user variables) and the
   budget clause; then the same for the whole pipeline from source text. *)
From Theo Require Import Base Regex Tokens Errors Lexer Scan MacroExtract Grammar LR MacroApply Parser VMModel VMSpec GenModel Compile
                         RefSem RefSemChk C01Statements C01Stages C01Stages3 Gen_Lexer Gen_Consts.
Local Open Scope Z_scope.

Section Shapes.
  (* ol f l n: node n (and all below it) stands on line l of file f, or in the hidden macro file *)
  Variable ol : str -> Z -> node -> bool.

  (* values: NAME | NUMBER | RUN f WITH v, ..., v END   (vargs: SPLIT a (Some a) more | None) *)
  Fixpoint value4 (n : node) : bool :=
    match n with
    | Node N_NAME _ _ _ None None => true
    | Node N_NUMBER _ _ _ None None => true
    | Node N_CALL _ _ _ (Some f) args =>
        leaf_name f &&
        match args with
        | None => true
        | Some a =>
            (fix vargs (a : node) : bool :=
               match a with
               | Node N_SPLIT _ _ _ (Some v) more =>
                   value4 v && match more with None => true | Some m => vargs m end
               | _ => false
               end) a
        end
    | _ => false
    end.

  (* a statement sequence (P-tree) *)
  Fixpoint body4 (n : node) : bool :=
    match n with
    | Node N_SPLIT _ _ _ (Some st) rest =>
        (match st with
         | Node N_ASSIGN al af _ (Some tgt) (Some v) =>
             leaf_name tgt && value4 v && ol af al v && ol af al tgt
         | Node N_SPLIT _ _ _ (Some (Node N_LOOP ll lf _ (Some bound) (Some body)))
                              (Some (Node N_MARK _ _ _ (Some e) None)) =>
             leaf_name bound && ol lf ll bound && leaf_name e && body4 body
         | Node N_SPLIT _ _ _ (Some (Node N_WHILE wl wf _ (Some cond) (Some body)))
                              (Some (Node N_MARK _ _ _ (Some e) None)) =>
             leaf_name cond && ol wf wl cond && leaf_name e && body4 body
         | Node N_SPLIT _ _ _ (Some (Node N_MARK _ _ _ (Some lbl) None)) (Some inner) =>
             leaf_name lbl && body4 inner
         | Node N_GOTO _ _ _ (Some lbl) None => leaf_name lbl
         | Node N_IF il if_ _ (Some (Node N_EQ _ _ _ (Some id) (Some c))) (Some (Node N_GOTO _ _ _ (Some lbl) None)) =>
             leaf_name id && is_number c && ol if_ il id && ol if_ il c && leaf_name lbl
         | Node N_STOP _ _ _ None None => true
         | _ => false
         end)
        && match rest with None => true | Some r => body4 r end
    | _ => false
    end.

  (* IN a, b, c : SPLIT id (Some id) more *)
  Fixpoint params4 (n : node) : bool :=
    match n with
    | Node N_SPLIT _ _ _ (Some id) more => leaf_name id && match more with None => true | Some m => params4 m end
    | _ => false
    end.
  Definition ports4 (p : option node) : bool :=
    match p with
    | None => true
    | Some (Node N_SPLIT _ _ _ (Some a) outs) =>
        params4 a && match outs with None => true | Some o => leaf_name o end
    | Some _ => false
    end.

  (* definitions, then the main program *)
  Fixpoint prog4 (n : node) : bool :=
    match n with
    | Node N_SPLIT _ _ _
        (Some (Node N_PROGRAM _ _ _ (Some (Node N_SPLIT _ _ _ (Some name) port))
                                    (Some (Node N_SPLIT _ _ _ (Some body) (Some (Node N_MARK _ _ _ (Some e) None))))))
        more =>
        leaf_name name && ports4 port && leaf_name e && body4 body
        && match more with None => true | Some m => prog4 m end
    | _ => body4 n
    end.
End Shapes.

Definition canonical4 (root : node) : bool := prog4 on_line root.
Definition shape4 (root : node) : bool := prog4 (fun _ _ _ => true) root.

(* every error-free parse has the shape *)
Definition C01_parser_shape4_stmt : Prop :=
  forall toks root, parse_tokens toks = Ok (Some root, []) -> shape4 root = true.

Definition C01_calls_unguarded_stmt : Prop :=
  forall root r rs fuel rviews steps trace,
    canonical4 root = true -> lexable_names root = true ->
    gen true [] (Some root) = Ok r -> gr_ok r = true ->
    abstract_source (Some root) = Some rs ->
    run_ref_chk fuel rs = OStop rviews steps trace ->
    sim_conclusion r rviews steps.

Definition C01_calls_budget_unguarded_stmt : Prop :=
  forall root r rs n s,
    canonical4 root = true -> lexable_names root = true ->
    gen true [] (Some root) = Ok r -> gr_ok r = true ->
    abstract_source (Some root) = Some rs ->
    run_ref_chk n rs = OFuel ->
    vm_run n (init (gr_prog r)) = Ok s -> isDone s = Ok false.


(* ---- the statements that hold: definitions whose PROGRAM node stands on the line of the sequence node above it ---- *)
(* The two statements above quantify over ALL trees of the shape; for a tree in which a top-level PROGRAM node is on
   another line than the SPLIT node that carries it (no parser output is like that: C01_parser_headers) the budget
   clause is false — refuted in Proofs_C01s4x.v: a stop for the SPLIT node's line is left in front of the jump over the
   definition, a label at the start of the main program is bound to that stop by the flattener and to the main entry
   by the generator, and the reference run takes more steps than the VM executes instructions. *)
Definition header_on (f : str) (l : Z) (file : str) (line : Z) : bool :=
  str_eqb file hidden_file || (str_eqb file f && (line =? l)).
Fixpoint headers_ok (n : node) : bool :=
  match n with
  | Node N_SPLIT sl sf _ (Some (Node N_PROGRAM pl pf _ _ _)) more =>
      header_on sf sl pf pl && match more with None => true | Some m => headers_ok m end
  | _ => true
  end.

Definition C01_calls_stmt : Prop :=
  forall root r rs fuel rviews steps trace,
    canonical4 root = true -> headers_ok root = true -> lexable_names root = true ->
    gen true [] (Some root) = Ok r -> gr_ok r = true ->
    abstract_source (Some root) = Some rs ->
    run_ref_chk fuel rs = OStop rviews steps trace ->
    sim_conclusion r rviews steps.

Definition C01_calls_budget_stmt : Prop :=
  forall root r rs n s,
    canonical4 root = true -> headers_ok root = true -> lexable_names root = true ->
    gen true [] (Some root) = Ok r -> gr_ok r = true ->
    abstract_source (Some root) = Some rs ->
    run_ref_chk n rs = OFuel ->
    vm_run n (init (gr_prog r)) = Ok s -> isDone s = Ok false.

Definition C01_calls_budget_needs_headers_stmt : Prop := ~ C01_calls_budget_unguarded_stmt.

(* every tree the parser builds, even with syntax errors, has its definitions on the line of their sequence node *)
Definition C01_parser_headers_stmt : Prop :=
  forall toks root errs, parse_tokens toks = Ok (Some root, errs) -> headers_ok root = true.

(* from source text: whatever the files and macros, if compilation succeeds and the expanded program is laid out
   canonically, the emitted bytecode computes the reference semantics of the parsed tree *)
Definition C01_pipeline_stmt : Prop :=
  forall files main c p root rs,
    compile files main = Ok c -> cr_ok c = true ->
    parse files main = Ok p -> pr_root p = Some root ->
    canonical4 root = true -> lexable_names root = true ->
    abstract_source (Some root) = Some rs ->
    (forall fuel rviews steps trace, run_ref_chk fuel rs = OStop rviews steps trace ->
       exists k s vmviews,
         vm_run k (init (cr_prog c)) = Ok s /\ isDone s = Ok true /\
         views s = Ok vmviews /\ Forall2 view_agrees vmviews rviews /\ (steps <= k)%nat) /\
    (forall n s, run_ref_chk n rs = OFuel -> vm_run n (init (cr_prog c)) = Ok s -> isDone s = Ok false).
