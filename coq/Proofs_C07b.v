(* Proofs_C07b.v — C07, part 2: the STATIC part, the joint invariant with line_info.
   J3x = J3 (Proofs_C01s3c.v) together with JLI: for every RSite l of the reference code, line_info at the VM
   position of its block (the POTENTIAL_BREAK) is the break point (file, line) = l.  Every primitive operation of
   the two traversals preserves J3x: all but advance_line / move_to leave line_info and the sites of the
   reference code alone; advance_line inserts exactly the entry of the new site (breakpoint). *)
From Coq Require Import List ZArith NArith Lia Bool.
From Theo Require Import Base Tokens Errors MacroExtract Parser VMModel VMSpec GenModel Compile RefSem RefSemChk C01Statements C01Stages Gen_Consts Proofs_VM_mem Proofs_VM_dbg Proofs_Gen0 Proofs_Gen Proofs_Sem Proofs_C01a Proofs_C01b Proofs_C01 Proofs_C01s2a Proofs_C01s2b Proofs_C01s2c Proofs_C01s3a Proofs_C01s3b Proofs_C01s3c.
Import ListNotations.
Local Open Scope Z_scope.

(* ================================================================================================ *)
(* 1. the primitive operations of the generator other than breakpoint leave line_info alone         *)
(* ================================================================================================ *)
Lemma fetch_variable_li g x g1 i : fetch_variable g x = Ok (g1, i) -> g_li g1 = g_li g.
Proof.
  unfold fetch_variable, get_symbols. destruct (hd_error (g_syms g)) as [f|]; cbn [of_opt bind]; [|discriminate].
  destruct (find_reg (f_regs f) x 0); intros H; inversion H; reflexivity.
Qed.

Lemma fetch_temporary_li g g1 t : fetch_temporary g = Ok (g1, t) -> g_li g1 = g_li g.
Proof.
  unfold fetch_temporary, get_symbols. destruct (hd_error (g_syms g)) as [f|]; cbn [of_opt bind]; [|discriminate].
  destruct (find_free_temp (f_regs f) 0) as [i|].
  - destruct (znth (f_regs f) i) as [r|]; cbn [of_opt bind]; [|discriminate].
    destruct (zupd (f_regs f) i _) as [regs|]; cbn [of_opt bind]; [|discriminate].
    intros H; inversion H; reflexivity.
  - intros H; inversion H; reflexivity.
Qed.

Lemma release_temporary_li g t g1 : release_temporary g t = Ok g1 -> g_li g1 = g_li g.
Proof.
  unfold release_temporary, get_symbols. destruct (hd_error (g_syms g)) as [f|]; cbn [of_opt bind]; [|discriminate].
  destruct (znth (f_regs f) t) as [r|]; cbn [of_opt bind]; [|discriminate].
  destruct (is_temp r).
  - destruct (zupd (f_regs f) t _) as [regs|]; cbn [of_opt bind]; [|discriminate].
    intros H; inversion H; reflexivity.
  - intros H; inversion H; reflexivity.
Qed.

Lemma ensure_mark_li g nm g1 lab : ensure_mark g nm = Ok (g1, lab) -> g_li g1 = g_li g.
Proof.
  unfold ensure_mark, get_symbols. destruct (hd_error (g_syms g)) as [f|] eqn:Es; cbn [of_opt bind]; [|discriminate].
  destruct (alookup str_ltb (f_marks f) nm) as [l|].
  - intros H; inversion H; reflexivity.
  - cbn [create_label upd_labels g_syms]. rewrite Es. cbn [of_opt bind]. intros H; inversion H; reflexivity.
Qed.

Lemma set_label_li g l i g1 : GenModel.set_label g l i = Ok g1 -> g_li g1 = g_li g.
Proof.
  unfold GenModel.set_label. destruct (zupd (g_labels g) l i) as [ls|]; cbn [of_opt bind]; [|discriminate].
  intros H; inversion H; reflexivity.
Qed.

Lemma mark_li g nm g' :
  (do rm <- ensure_mark g nm; let '(g1, lab) := rm in
   do pos <- get_mark_pos g1; GenModel.set_label g1 lab pos) = Ok g' -> g_li g' = g_li g.
Proof.
  intros H. destruct (ensure_mark g nm) as [[g1 lab]| |] eqn:E1; cbn [bind] in H; try discriminate.
  destruct (get_mark_pos g1) as [pos| |]; cbn [bind] in H; try discriminate.
  rewrite (set_label_li _ _ _ _ H). exact (ensure_mark_li _ _ _ _ E1).
Qed.

Lemma boff3_mono rc : forall n m, (n <= m)%nat -> boff3 rc n <= boff3 rc m.
Proof.
  induction rc as [|i t IH]; intros [|n] [|m] H; cbn [boff3]; try lia.
  - pose proof (blen3_nonneg i). pose proof (boff3_nonneg t m). lia.
  - specialize (IH n m ltac:(lia)). lia.
Qed.

(* ================================================================================================ *)
(* 2. the invariant                                                                                 *)
(* ================================================================================================ *)
Section Joint7.
  Variable P0 : Z.

  Definition bp_of (l : loc) : bp := mkBP (fst l) (snd l).

  Definition JLI (li : list (Z * bp)) (rcode : list rinstr) : Prop :=
    forall pc l, znth rcode pc = Some (RSite l) -> alookup z_ltb li (pm_of3 P0 rcode pc) = Some (bp_of l).

  Lemma JLI_bemit li rc i : JLI li rc -> is_site i = false -> JLI li (rc ++ [i]).
  Proof.
    intros H Hi pc l Hz. apply znth_snoc_inv in Hz. destruct Hz as [[Hlt Hz]|[_ E]].
    - rewrite pm_of3_app by lia. apply H; exact Hz.
    - subst i. discriminate Hi.
  Qed.

  Definition J3x (g : gstate) (s : fstate) (lmap : list Z) (p : Z) : Prop :=
    J3 P0 g s lmap p /\ JLI (g_li g) (b_code (f_cur s)).

  Lemma Jx_pos g s lmap p : J3x g s lmap p -> f_pos s = gpos g.
  Proof. intros ((_ & _ & H & _) & _). exact H. Qed.

  Lemma Jx_loops g s lmap p : J3x g s lmap p -> f_loops s = g_loops g.
  Proof. intros ((_ & _ & _ & H) & _). exact H. Qed.

  Lemma Lx_var g s lmap p x : lexable x = true -> J3x g s lmap p ->
    exists g1, fetch_variable g x = Ok (g1, ks_ix (gks g) x) /\
      J3x g1 (with_cur s (mention (f_cur s) x)) lmap p /\ Ext g g1 /\ Same g g1 /\
      FExt s (with_cur s (mention (f_cur s) x)) /\ RV g1 x (ks_ix (gks g) x) /\
      (forall t r, znth (gregs g) t = Some r -> znth (gregs g1) t = Some r).
  Proof.
    intros Hx [HJ HL]. destruct (L3_var P0 g s lmap p x Hx HJ) as (g1 & E1 & J1 & R).
    exists g1. split; [exact E1|]. split; [|exact R]. split; [exact J1|].
    rewrite (fetch_variable_li _ _ _ _ E1). cbn [with_cur f_cur]. rewrite b_code_mention. exact HL.
  Qed.

  Lemma Lx_cnt g s lmap p : J3x g s lmap p ->
    exists g1 c, fetch_variable (loops_incr g) (loop_counter_name (loops_incr g)) = Ok (g1, c) /\
      J3x g1 (mkF (f_done s) (f_names s) (f_cur s) (f_pos s) (f_loops s + 1)) lmap p /\ Ext g g1 /\
      RC g1 (g_loops g + 1) c /\
      g_code g1 = g_code g /\ gpos g1 = gpos g /\ g_loops g1 = g_loops g + 1.
  Proof.
    intros [HJ HL]. destruct (L3_cnt P0 g s lmap p HJ) as (g1 & c & E1 & J1 & R).
    exists g1, c. split; [exact E1|]. split; [|exact R]. split; [exact J1|].
    rewrite (fetch_variable_li _ _ _ _ E1). exact HL.
  Qed.

  Lemma Lx_tmp g s lmap p : J3x g s lmap p ->
    exists g1 t, fetch_temporary g = Ok (g1, t) /\ J3x g1 s lmap p /\ Ext g g1 /\ Same g g1 /\ RT g1 t /\
      (exists r, znth (gregs g1) t = Some r /\ in_use r = true) /\
      (forall t' r', znth (gregs g) t' = Some r' -> in_use r' = true ->
                     t' <> t /\ exists r'', znth (gregs g1) t' = Some r'' /\ in_use r'' = true).
  Proof.
    intros [HJ HL]. destruct (L3_tmp P0 g s lmap p HJ) as (g1 & t & E1 & J1 & R).
    exists g1, t. split; [exact E1|]. split; [|exact R]. split; [exact J1|].
    rewrite (fetch_temporary_li _ _ _ E1). exact HL.
  Qed.

  Lemma Lx_rel g s lmap p t : J3x g s lmap p -> RT g t ->
    exists g1, release_temporary g t = Ok g1 /\ J3x g1 s lmap p /\ Ext g g1 /\ Same g g1.
  Proof.
    intros [HJ HL] Ht. destruct (L3_rel P0 g s lmap p t HJ Ht) as (g1 & E1 & J1 & R).
    exists g1. split; [exact E1|]. split; [|exact R]. split; [exact J1|].
    rewrite (release_temporary_li _ _ _ E1). exact HL.
  Qed.

  Lemma Lx_emit g s lmap p ins : J3x g s lmap p -> J3x (emit g ins) s lmap (p + 1) /\ Ext g (emit g ins).
  Proof.
    intros [HJ HL]. destruct (L3_emit P0 g s lmap p ins HJ) as [J1 X1].
    split; [|exact X1]. split; [exact J1 | exact HL].
  Qed.

  Lemma Lx_emit_bp g s lmap p ins : J3x g s lmap p ->
    J3x (emit_backpatched g ins) s lmap (p + 1) /\ Ext g (emit_backpatched g ins) /\
    In (zlen (g_code g)) (g_todo (emit_backpatched g ins)).
  Proof.
    intros [HJ HL]. destruct (L3_emit_bp P0 g s lmap p ins HJ) as (J1 & R).
    split; [|exact R]. split; [exact J1 | exact HL].
  Qed.

  Lemma Lx_bemit g s lmap p i : J3x g s lmap p -> blen3 i = p -> is_site i = false ->
    imatch3 (RMof (gks g)) (g_code g) (jpre3 lmap (gmarks g) (g_todo g)) (zlen (g_code g) - p) i ->
    J3x g (with_cur s (bemit (f_cur s) i)) lmap 0 /\ FExt s (with_cur s (bemit (f_cur s) i)).
  Proof.
    intros [HJ HL] Hb Hs Hi. destruct (L3_bemit P0 g s lmap p i HJ Hb Hi) as [J1 F1].
    split; [|exact F1]. split; [exact J1|]. cbn [with_cur f_cur bemit b_code]. apply JLI_bemit; assumption.
  Qed.

  Lemma Lx_site g s lmap line file : J3x g s lmap 0 ->
    J3x (advance_line g line file) (move_to s file line) lmap 0 /\ Ext g (advance_line g line file) /\
    FExt s (move_to s file line) /\ at_loc (gpos (advance_line g line file)) file line.
  Proof.
    intros [HJ HL]. destruct (L3_site P0 g s lmap line file HJ) as (J1 & R).
    split; [|exact R]. split; [exact J1|].
    pose proof HJ as (H0 & HB & Hp & Hl).
    assert (Hmoved : forall F, F = file ->
      JLI (g_li (breakpoint (upd_fs g F line)))
          (b_code (f_cur (mkF (f_done s) (f_names s) (bemit (f_cur s) (RSite (file, line))) (file, line) (f_loops s))))).
    { intros F ->. cbn [f_cur bemit b_code].
      change (g_li (breakpoint (upd_fs g file line))) with (ainsert z_ltb (g_li g) (zlen (g_code g)) (mkBP file line)).
      destruct HB as ((HClen & _ & _) & _).
      intros pc l Hz. rewrite z_lookup_insert. apply znth_snoc_inv in Hz. destruct Hz as [[Hlt Hz]|[-> E]].
      - rewrite pm_of3_app by lia.
        destruct (keqb_z_dec (zlen (g_code g)) (pm_of3 P0 (b_code (f_cur s)) pc)) as [[_ E]|[-> _]]; [|apply HL; exact Hz].
        exfalso. pose proof (znth_some_range _ _ _ Hz) as Rg.
        pose proof (boff3_S _ _ _ (znth_nth_error _ _ _ Hz)) as HS. cbn [blen3 blen] in HS.
        pose proof (boff3_mono (b_code (f_cur s)) (S (Z.to_nat pc)) (length (b_code (f_cur s)))) as Hm.
        unfold zlen in Rg. specialize (Hm ltac:(lia)). unfold pm_of3 in E. lia.
      - inversion E; subst l.
        rewrite pm_of3_app by lia. unfold pm_of3, zlen at 1. rewrite Nat2Z.id.
        replace (P0 + boff3 (b_code (f_cur s)) (length (b_code (f_cur s)))) with (zlen (g_code g)) by lia.
        rewrite (proj2 (z_keqb_eq _ _) eq_refl). reflexivity. }
    unfold advance_line, move_to. rewrite Hp. unfold gpos. cbn [fst snd].
    destruct (str_eqb file hidden_file); [exact HL|].
    destruct (str_eqb (g_fsname g) file) eqn:E2.
    - apply str_eqb_eq in E2. rewrite (Z.eqb_sym line). destruct (g_fsline g =? line); cbn [andb]; [exact HL|].
      apply Hmoved. exact E2.
    - cbn [andb]. apply Hmoved. reflexivity.
  Qed.

  Lemma Lx_newlab g s lmap p : J3x g s lmap p ->
    J3x (fst (create_label g)) (with_cur s (fst (new_target (f_cur s)))) (lmap ++ [zlen (g_labels g)]) p /\
    Ext g (fst (create_label g)) /\ FExt s (with_cur s (fst (new_target (f_cur s)))) /\
    znth (lmap ++ [zlen (g_labels g)]) (zlen (b_targets (f_cur s))) = Some (zlen (g_labels g)).
  Proof.
    intros [HJ HL]. destruct (L3_newlab P0 g s lmap p HJ) as (J1 & R).
    split; [|exact R]. split; [exact J1 | exact HL].
  Qed.

  Lemma Lx_setlab g s lmap e lab : J3x g s lmap 0 -> znth lmap e = Some lab ->
    exists ls, GenModel.set_label g lab (next_pos g) = Ok (upd_labels g ls) /\
      J3x (upd_labels g ls) (with_cur s (set_target (f_cur s) e (bnext (f_cur s)))) lmap 0 /\
      Ext g (upd_labels g ls) /\ FExt s (with_cur s (set_target (f_cur s) e (bnext (f_cur s)))).
  Proof.
    intros [HJ HL] He. destruct (L3_setlab P0 g s lmap e lab HJ He) as (ls & E1 & J1 & R).
    exists ls. split; [exact E1|]. split; [|exact R]. split; [exact J1|].
    cbn [with_cur f_cur]. rewrite b_code_set_target. exact HL.
  Qed.

  Lemma Lx_ensure g s lmap p nm : J3x g s lmap p ->
    exists g1 lab, ensure_mark g nm = Ok (g1, lab) /\
      J3x g1 (with_cur s (touch_label (f_cur s) nm)) lmap p /\ Ext g g1 /\
      FExt s (with_cur s (touch_label (f_cur s) nm)) /\
      alookup str_ltb (gmarks g1) nm = Some lab /\
      g_code g1 = g_code g /\ g_todo g1 = g_todo g /\ gpos g1 = gpos g /\ gks g1 = gks g.
  Proof.
    intros [HJ HL]. destruct (L3_ensure P0 g s lmap p nm HJ) as (g1 & lab & E1 & J1 & R).
    exists g1, lab. split; [exact E1|]. split; [|exact R]. split; [exact J1|].
    rewrite (ensure_mark_li _ _ _ _ E1). cbn [with_cur f_cur]. rewrite b_code_touch_label. exact HL.
  Qed.

  Lemma Lx_mark g s lmap nm g' : J3x g s lmap 0 ->
    (do rm <- ensure_mark g nm; let '(g1, lab) := rm in
     do pos <- get_mark_pos g1; GenModel.set_label g1 lab pos) = Ok g' ->
    J3x g' (with_cur s (RefSem.set_label (f_cur s) nm (mark_pos (f_cur s)))) lmap 0 /\ Ext g g' /\
    FExt s (with_cur s (RefSem.set_label (f_cur s) nm (mark_pos (f_cur s)))) /\ gpos g' = gpos g.
  Proof.
    intros [HJ HL] H. destruct (L3_mark P0 g s lmap nm g' HJ H) as (J1 & R).
    split; [|exact R]. split; [exact J1|].
    rewrite (mark_li _ _ _ H). exact HL.
  Qed.
End Joint7.
