(* Proofs_C01s6l.v — C01, stage 6 (any layout), part 10: the STATIC part, finished routines.
   FRok of Proofs_C01s4l.v with sites inside the blocks: the ghost counts gbl of the routine's code are kept. *)
From Coq Require Import List ZArith NArith Lia Bool.
From Theo Require Import Base Tokens Errors MacroExtract Parser VMModel VMSpec GenModel Compile RefSem RefSemChk C01Statements C01Stages C01Stages3 C01Stages4 Gen_Consts Proofs_VM_mem Proofs_VM_dbg Proofs_Gen0 Proofs_Gen Proofs_Sem Proofs_C01a Proofs_C01b Proofs_C01 Proofs_C01s2a Proofs_C01s2b Proofs_C01s2c Proofs_C01s2d Proofs_C01s2 Proofs_C01s3a Proofs_C01s3b Proofs_C01s3c Proofs_C01s3d Proofs_C01s4a Proofs_C01s4b Proofs_C01s4g Proofs_C01s4h Proofs_C01s4i Proofs_C01s4j Proofs_C01s4k Proofs_C01s4l Proofs_C01s6a Proofs_C01s6g Proofs_C01s6h.
Import ListNotations.
Local Open Scope Z_scope.

Record FRfacts6 (W : rvalue -> Prop) (code : list instr) (labels : list Z) (FT : ftab) (r : routine) (P0 : Z) (regs : list vreg)
       (lo hi : Z) (lmap : list Z) (marks : list (str * Z)) (L : Z) (gbl : list Z) : Prop := mkFRf6 {
  frf6_cm : gb_ok (fun pc g i => imatch6 (RMof (map key regs)) code FT (jpreL lmap marks) (pm_of4 P0 (r_code r) pc) g i /\ side6 W g i) (r_code r) gbl;
  frf6_jg : JG gbl (r_targets r) (r_labels r);
  frf6_end : znth gbl (zlen (r_code r)) = Some 0;
  frf6_str : forall e lab, znth lmap e = Some lab -> lo <= lab < hi /\
             exists lv t, znth labels lab = Some lv /\ znth (r_targets r) e = Some t /\ -1 <= t <= zlen (r_code r) /\
                          (0 <= t -> lv = pm_of4 P0 (r_code r) t);
  frf6_mark : forall nm lab, alookup str_ltb marks nm = Some lab -> lo <= lab < hi /\
             exists lv, znth labels lab = Some lv /\ -1 <= label_pos (r_labels r) nm <= zlen (r_code r) /\
                        (0 <= label_pos (r_labels r) nm -> lv = pm_of4 P0 (r_code r) (label_pos (r_labels r) nm));
  frf6_rw : RW (map key regs) L;
  frf6_jv : JV (map key regs) (r_vars r);
  frf6_par : forall i p, nth_error (r_params r) i = Some p -> lexable p = true /\ frk (map key regs) p 0 = Some (Z.of_nat i);
  frf6_nd : NoDup (r_params r);
  frf6_p0 : 1 <= P0 }.

Definition FRok6 (W : rvalue -> Prop) (code : list instr) (labels : list Z) (FT : ftab) (r : routine) (P0 : Z) (regs : list vreg) (lo hi : Z) : Prop :=
  exists lmap marks L gbl, FRfacts6 W code labels FT r P0 regs lo hi lmap marks L gbl.

Lemma FRok6_stable W code labels FT r P0 regs lo hi code' labels' FT' :
  FRok6 W code labels FT r P0 regs lo hi ->
  (exists blk, code' = code ++ blk) ->
  (forall lab, lo <= lab < hi -> znth labels' lab = znth labels lab) -> ft_le FT FT' ->
  FRok6 W code' labels' FT' r P0 regs lo hi.
Proof.
  intros (lmap & marks & L & gbl & [H1 HG HE H2 H3 H4 H5 H6 H7 H8]) [blk ->] Hl HF. exists lmap, marks, L, gbl. constructor; auto.
  - eapply gb_ok_weaken; [|exact H1]. intros pc g i _ [Hi Hsd]. cbv beta in *. split; [|exact Hsd].
    eapply imatch6_mono; [apply rm_le_refl | exact HF | | exact Hi]. auto.
  - intros e lab He. destruct (H2 _ _ He) as (R & lv & t & A & B). split; [exact R|]. exists lv, t. rewrite Hl by exact R. exact (conj A B).
  - intros nm lab Hm. destruct (H3 _ _ Hm) as (R & lv & A & B). split; [exact R|]. exists lv. rewrite Hl by exact R. exact (conj A B).
Qed.

(* from the invariant at the end of a routine body *)
Lemma FRok6_of_J6 P0 FT LS W g s lmap r :
  J6 P0 FT LS W 0 g s lmap 0 -> 1 <= P0 ->
  r_code r = b_code (f_cur s) -> r_targets r = b_targets (f_cur s) -> r_labels r = b_labels (f_cur s) ->
  r_vars r = b_vars (f_cur s) ->
  (forall i p, nth_error (r_params r) i = Some p -> lexable p = true /\ frk (gks g) p 0 = Some (Z.of_nat i)) ->
  NoDup (r_params r) ->
  FRok6 W (g_code g) (g_labels g) FT r P0 (gregs g) (zlen LS) (zlen (g_labels g)).
Proof.
  intros (_ & HB & _ & _) HP Ec Et El Ev Hpar Hnd. destruct HB as ((gbl & HC & HG) & HL & HT & HR & HV & HL0 & _).
  exists lmap, (gmarks g), (g_loops g), gbl. fold (gks g). constructor; auto.
  - rewrite Ec. destruct HC as (HGB & _). eapply gb_ok_weaken; [|exact HGB]. intros pc g0 i _ [Hi Hsd]. cbv beta in *. split; [|exact Hsd].
    eapply imatch6_move; [apply rm_le_refl | intros j x H; exact H | intros q' ins _ Hz _; exact Hz | | | exact Hi].
    + intros q' ins e _ Hz _ [_ B]. exists (ia ins). split; [destruct ins; exact Hz | exact B].
    + apply imatch3_mono; [apply rm_le_refl | auto |]. intros q' f e _ [_ B]. exact B.
  - rewrite Et, El. exact HG.
  - rewrite Ec. apply HC.
  - intros e lab He. destruct (jl4_str _ _ _ _ _ _ _ _ HL _ _ He) as (A & _ & lv & t & B1 & B2 & B3 & B4).
    split; [pose proof (jl4_lo_s _ _ _ _ _ _ _ _ HL _ _ He); lia|]. exists lv, t. rewrite Ec, Et. auto.
  - intros nm lab Hm. destruct (jl4_mark _ _ _ _ _ _ _ _ HL _ _ Hm) as (lv & B1 & B3 & B4).
    split; [pose proof (jl4_lo_m _ _ _ _ _ _ _ _ HL _ _ Hm); pose proof (jl4_mrng _ _ _ _ _ _ _ _ HL _ _ Hm); lia|].
    exists lv. rewrite Ec, El. auto.
  - rewrite Ev. exact HV.
Qed.
