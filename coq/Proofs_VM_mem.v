From Coq Require Import List ZArith Lia Bool.
From Theo Require Import Base VMModel VMSpec VMStatements.
Import ListNotations.
Local Open Scope Z_scope.

(* ---- monad inversion ---------------------------------------------------------------- *)
Lemma bind_ok {A B} (r : result A) (f : A -> result B) (x : B) :
  bind r f = Ok x -> exists a, r = Ok a /\ f a = Ok x.
Proof. destruct r as [a| |]; cbn [bind]; intro H; [eauto | discriminate | discriminate]. Qed.

Lemma of_opt_ok {A} k (o : option A) a : of_opt k o = Ok a -> o = Some a.
Proof. destruct o; cbn [of_opt]; intro H; [inversion H; reflexivity | discriminate]. Qed.

Ltac inv_ok :=
  repeat match goal with
  | H : bind _ _ = Ok _ |- _ =>
      let a := fresh "a" in let Hb := fresh "Hb" in
      apply bind_ok in H; destruct H as (a & Hb & H); cbv beta in H
  | H : of_opt _ _ = Ok _ |- _ => apply of_opt_ok in H
  | H : Ok _ = Ok _ |- _ => inversion H; clear H; subst
  end.

(* ---- list helpers ------------------------------------------------------------------- *)
Lemma upd_nat_length {A} (l : list A) n x : length (upd_nat l n x) = length l.
Proof. revert n; induction l as [|h t IH]; intros [|n]; cbn [upd_nat length]; auto. Qed.

Lemma upd_nat_Forall {A} (R : A -> Prop) (l : list A) n x :
  Forall R l -> R x -> Forall R (upd_nat l n x).
Proof.
  intros Hl Hx; revert n; induction Hl as [|h t Hh Ht IH]; intros [|n]; cbn [upd_nat]; auto.
Qed.

Lemma zupd_some {A} (l l' : list A) i x : zupd l i x = Some l' -> l' = upd_nat l (Z.to_nat i) x.
Proof.
  unfold zupd. destruct ((0 <=? i) && (i <? Z.of_nat (length l))); intro H;
    [inversion H; reflexivity | discriminate].
Qed.

Lemma zupd_length {A} (l l' : list A) i x : zupd l i x = Some l' -> zlen l' = zlen l.
Proof. intro H. apply zupd_some in H. subst l'. unfold zlen. rewrite upd_nat_length. reflexivity. Qed.

Lemma zupd_Forall {A} (R : A -> Prop) (l l' : list A) i x :
  zupd l i x = Some l' -> Forall R l -> R x -> Forall R l'.
Proof. intros H Hl Hx. apply zupd_some in H. subst l'. apply upd_nat_Forall; assumption. Qed.

Lemma znth_In {A} (l : list A) i x : znth l i = Some x -> In x l.
Proof.
  unfold znth. destruct (i <? 0); intro H; [discriminate|]. eapply nth_error_In; exact H.
Qed.

Lemma zrepeat_length {A} (x : A) n : length (zrepeat x n) = n.
Proof. induction n as [|n IH]; cbn [zrepeat length]; auto. Qed.

Lemma zrepeat_Forall {A} (R : A -> Prop) (x : A) n : R x -> Forall R (zrepeat x n).
Proof. intro Hx. induction n as [|n IH]; cbn [zrepeat]; auto. Qed.

Lemma Forall_firstn_ {A} (R : A -> Prop) n (l : list A) : Forall R l -> Forall R (firstn n l).
Proof.
  intro H. revert n. induction H as [|h t Hh Ht IH]; intros [|n]; cbn [firstn]; auto.
Qed.

Lemma resize_len d n d' : resize d n = Ok d' -> 0 <= n <= zlen d -> zlen d' = n.
Proof.
  unfold resize. intros H Hn.
  destruct (n <? 0) eqn:E1; [discriminate|].
  destruct (n <=? zlen d) eqn:E2.
  - inversion H; subst d'. unfold zlen in *. rewrite firstn_length. lia.
  - apply Z.leb_gt in E2. lia.
Qed.

Lemma resize_Forall (R : Z -> Prop) d n d' : resize d n = Ok d' -> Forall R d -> R 0 -> Forall R d'.
Proof.
  unfold resize. intros H Hd H0.
  destruct (n <? 0); [discriminate|].
  destruct (n <=? zlen d); inversion H; subst d'.
  - apply Forall_firstn_; assumption.
  - apply Forall_app. split; [assumption | apply zrepeat_Forall; assumption].
Qed.

Lemma add_const_now x c : add_const cfg_now x c = Ok (Z.max 0 (Z.min (x + c) INT_MAX)).
Proof. reflexivity. Qed.

(* ---- one characterisation of executeSingle, used by every invariant ------------------- *)
Definition step_spec (s s' : vm) (i : instr) : Prop :=
  (stack s' = stack s /\ data s' = data s) \/
  (stack s' = stack s /\ exists j v, zupd (data s) j v = Some (data s') /\
      (0 <= v <= INT_MAX \/ (iop i = CONST /\ v = ib i) \/ In v (data s))) \/
  (iop i = PREPARE_EXEC /\ data s' = data s ++ zrepeat 0 (Z.to_nat (ia i)) /\
     exists a, stack s' = a :: stack s /\ data_start a = zlen (data s) /\ seg_size a = ia i) \/
  (data s' = data s /\ exists t t' rest, stack s = t :: rest /\ stack s' = t' :: rest /\
     data_start t' = data_start t /\ seg_size t' = seg_size t) \/
  (exists t rest d1 j v, stack s = t :: rest /\ stack s' = rest /\ In v (data s) /\
     zupd (data s) j v = Some d1 /\ resize d1 (data_start t) = Ok (data s')).

Ltac fin_same i :=
  split; [reflexivity|]; exists i; split; [assumption|]; left; split; reflexivity.

Ltac fin_wr i :=
  split; [reflexivity|]; exists i; split; [assumption|]; right; left;
  cbn [stack data set_data_ip];
  split; [first [reflexivity | assumption | symmetry; assumption]|];
  eexists _, _; split; [eassumption|].

Lemma exec1_inv s s' b : exec1 s = Ok (s', b) ->
  prog s' = prog s /\ exists i, znth (code (prog s)) (ip s) = Some i /\ step_spec s s' i.
Proof.
  intros He. unfold exec1, exec1_gen in He.
  apply bind_ok in He. destruct He as (i & Hi & He). apply of_opt_ok in Hi. cbv beta in He.
  unfold top, second, rd, wr in He.
  destruct (iop i) eqn:Hop.
  - (* POTENTIAL_BREAK *) inv_ok. fin_same i.
  - (* BREAK *) inv_ok. fin_same i.
  - (* HALT *) inv_ok. fin_same i.
  - (* ADD_CONST *)
    inv_ok.
    match goal with H : add_const cfg_now _ _ = Ok _ |- _ => rewrite add_const_now in H; inversion H; subst end.
    fin_wr i. left. unfold INT_MAX. lia.
  - (* JMP *) inv_ok. fin_same i.
  - (* JMPC *) inv_ok. fin_same i.
  - (* PREPARE_EXEC *)
    inv_ok. split; [reflexivity|]. exists i. split; [assumption|]. right; right; left.
    cbn [stack data]. split; [assumption|]. split; [reflexivity|].
    eexists. split; [reflexivity|]. cbn [data_start seg_size]. split; reflexivity.
  - (* ARG *)
    destruct (stack s) as [|t [|c l]] eqn:Hst; cbn [bind hd_error of_opt] in He; try discriminate.
    inv_ok. fin_wr i. right; right.
    match goal with H : znth (data s) _ = Some _ |- _ => apply znth_In in H; exact H end.
  - (* EXEC *)
    destruct (stack s) as [|t rest] eqn:Hst; [discriminate|].
    inv_ok. split; [reflexivity|]. exists i. split; [assumption|]. right; right; right; left.
    cbn [stack data]. split; [reflexivity|].
    eexists t, _, rest. split; [assumption|]. split; [reflexivity|].
    cbn [data_start seg_size]. split; reflexivity.
  - (* RET *)
    destruct (stack s) as [|t [|c l]] eqn:Hst; try discriminate.
    cbn [legacy_ret cfg_now] in He.
    inv_ok. split; [reflexivity|]. exists i. split; [assumption|]. right; right; right; right.
    cbn [stack data].
    match goal with
    | H1 : znth (data s) _ = Some ?x, H2 : zupd (data s) ?j ?x = Some ?d1 |- _ =>
        exists t, (c :: l), d1, j, x
    end.
    split; [assumption|]. split; [reflexivity|].
    split; [match goal with H : znth (data s) _ = Some _ |- _ => apply znth_In in H; exact H end|].
    split; assumption.
  - (* CONST *)
    inv_ok. fin_wr i. right; left. split; [assumption | reflexivity].
  - (* TEST *)
    inv_ok. fin_wr i. left.
    match goal with |- context [if ?c then _ else _] => destruct c end; unfold INT_MAX; lia.
Qed.

Lemma exec1_prog s s' b : exec1 s = Ok (s', b) -> prog s' = prog s.
Proof. intro H. apply exec1_inv in H. destruct H as [H _]. exact H. Qed.

(* ---- generic invariant over API histories --------------------------------------------- *)
Section HistInv.
  Variable P : instr -> Prop.
  Variable Q : list Z -> list act -> Prop.
  Hypothesis P_brk : forall i o, is_break_op o = true -> P i -> P (set_op i o).
  Hypothesis Q_nil : Q [] [].
  Hypothesis Q_step : forall s s' b, Forall P (code (prog s)) -> Q (data s) (stack s) ->
      exec1 s = Ok (s', b) -> Q (data s') (stack s').

  Definition HI (s : vm) : Prop := Forall P (code (prog s)) /\ Q (data s) (stack s).

  Lemma set_ops_P : forall sites c c' o, is_break_op o = true -> Forall P c ->
      set_ops c sites o = Ok c' -> Forall P c'.
  Proof.
    induction sites as [|i rest IH]; intros c c' o Ho Hc H; cbn [set_ops] in H.
    - inversion H; subst; assumption.
    - apply bind_ok in H. destruct H as (ins & Hi & H). apply of_opt_ok in Hi. cbv beta in H.
      apply bind_ok in H. destruct H as (c1 & Hu & H). apply of_opt_ok in Hu. cbv beta in H.
      eapply IH; [exact Ho | | exact H].
      eapply zupd_Forall; [exact Hu | exact Hc |].
      apply P_brk; [exact Ho|]. apply znth_In in Hi. rewrite Forall_forall in Hc. apply Hc; exact Hi.
  Qed.

  Lemma setBreakPoint_HI s f l v s' r : setBreakPoint s f l v = Ok (s', r) -> HI s -> HI s'.
  Proof.
    unfold setBreakPoint, HI. intros H [HP HQ].
    destruct (alookup bp_ltb (potential_breaks (prog s)) (mkBP f l)) as [sites|].
    - destruct v; apply bind_ok in H; destruct H as (c' & Hs & H); cbv beta in H;
        inversion H; subst; cbn [prog code set_code data stack]; (split; [|assumption]);
        (eapply set_ops_P; [| exact HP | exact Hs]); reflexivity.
    - inversion H; subst; split; assumption.
  Qed.

  Lemma clear_sites_P : forall en p c c', Forall P c -> clear_sites p c en = Ok c' -> Forall P c'.
  Proof.
    induction en as [|b rest IH]; intros p c c' Hc H; cbn [clear_sites] in H.
    - inversion H; subst; assumption.
    - apply bind_ok in H. destruct H as (c1 & Hs & H). cbv beta in H.
      eapply IH; [| exact H]. eapply set_ops_P; [| exact Hc | exact Hs]. reflexivity.
  Qed.

  Lemma clearBreakpoints_P s s' : clearBreakpoints s = Ok s' -> Forall P (code (prog s)) ->
    Forall P (code (prog s')) /\ data s' = data s /\ stack s' = stack s.
  Proof.
    unfold clearBreakpoints. intros H HP.
    apply bind_ok in H. destruct H as (c' & Hc & H). cbv beta in H. inversion H; subst.
    cbn [prog code set_code data stack]. split; [|split; reflexivity].
    eapply clear_sites_P; [exact HP | exact Hc].
  Qed.

  Lemma reset_HI s s' : reset s = Ok s' -> HI s -> HI s'.
  Proof.
    unfold reset, HI. intros H [HP HQ].
    apply bind_ok in H. destruct H as (s1 & Hc & H). cbv beta in H. inversion H; subst.
    apply clearBreakpoints_P in Hc; [| exact HP]. destruct Hc as (Hc & _ & _).
    cbn [prog data stack]. split; [exact Hc | exact Q_nil].
  Qed.

  Lemma exec1_HI s s' b : exec1 s = Ok (s', b) -> HI s -> HI s'.
  Proof.
    unfold HI. intros H [HP HQ]. split.
    - rewrite (exec1_prog _ _ _ H). exact HP.
    - eapply Q_step; eassumption.
  Qed.

  Lemma execute_HI : forall fuel s s', execute fuel s = Ok s' -> HI s -> HI s'.
  Proof.
    unfold execute.
    induction fuel as [|f IH]; intros s s' H Hs; cbn [execute_gen] in H; [discriminate|].
    apply bind_ok in H. destruct H as ([s1 b] & He & H). cbv beta iota in H.
    assert (H1 : HI s1) by (eapply exec1_HI; [exact He | exact Hs]).
    destruct b.
    - inversion H; subst; exact H1.
    - eapply IH; [exact H | exact H1].
  Qed.

  Lemma api_step_HI fuel s c s' r : api_step fuel s c = Ok (s', r) -> HI s -> HI s'.
  Proof.
    intros H Hs. destruct c as [f l v| |m| | |]; cbn [api_step] in H.
    - eapply setBreakPoint_HI; eassumption.
    - apply bind_ok in H. destruct H as (s1 & Hc & H). cbv beta in H. inversion H; subst.
      destruct Hs as [HP HQ]. apply clearBreakpoints_P in Hc; [| exact HP].
      destruct Hc as (Hc & Hd & Hst). split; [exact Hc|]. rewrite Hd, Hst. exact HQ.
    - inversion H; subst. exact Hs.
    - apply bind_ok in H. destruct H as (s1 & Hc & H). cbv beta in H. inversion H; subst.
      eapply reset_HI; eassumption.
    - apply bind_ok in H. destruct H as (s1 & Hc & H). cbv beta in H. inversion H; subst.
      eapply execute_HI; eassumption.
    - eapply exec1_HI; eassumption.
  Qed.

  Lemma run_hist_HI : forall fuel h s s', run_hist fuel h s = Ok s' -> HI s -> HI s'.
  Proof.
    intros fuel. induction h as [|c rest IH]; intros s s' H Hs; cbn [run_hist] in H.
    - inversion H; subst; exact Hs.
    - apply bind_ok in H. destruct H as ([s1 r] & Hc & H). cbv beta in H. cbn [fst] in H.
      eapply IH; [exact H|]. eapply api_step_HI; eassumption.
  Qed.
End HistInv.

(* ===== C19 ============================================================================ *)
Lemma tiled_inv a rest m : tiled (a :: rest) m ->
  tiled rest (data_start a) /\ 0 <= seg_size a /\ m = data_start a + seg_size a.
Proof. intro H. inversion H; subst. auto. Qed.

Lemma tiled_intro a rest m : tiled rest (data_start a) -> 0 <= seg_size a ->
  m = data_start a + seg_size a -> tiled (a :: rest) m.
Proof. intros H1 H2 H3. subst m. apply tiled_cons; auto. Qed.

Lemma tiled_nonneg st n : tiled st n -> 0 <= n.
Proof. intro H. induction H; lia. Qed.

Lemma tiled_sum st n : tiled st n -> n = sum_sizes st.
Proof.
  intro H. induction H as [|a rest n Ht IH Hd Hs]; cbn [sum_sizes fold_right]; [reflexivity|].
  fold (sum_sizes rest). lia.
Qed.

Definition P19 (B : Z -> Prop) (ins : instr) : Prop :=
  iop ins = PREPARE_EXEC -> 0 <= ia ins /\ B (ia ins).
Definition Q19 (B : Z -> Prop) (d : list Z) (st : list act) : Prop :=
  tiled st (zlen d) /\ Forall (fun a => B (seg_size a)) st.

Lemma P19_brk B i o : is_break_op o = true -> P19 B i -> P19 B (set_op i o).
Proof.
  intros Ho _ Heq. cbn [set_op iop] in Heq. subst o. discriminate Ho.
Qed.

Lemma Q19_nil B : Q19 B [] [].
Proof. split; [exact tiled_nil | constructor]. Qed.

Lemma Q19_step B s s' b : Forall (P19 B) (code (prog s)) -> Q19 B (data s) (stack s) ->
  exec1 s = Ok (s', b) -> Q19 B (data s') (stack s').
Proof.
  intros HP [Ht Hf] He. apply exec1_inv in He. destruct He as (_ & i & Hi & Hs).
  assert (HPi : P19 B i).
  { apply znth_In in Hi. rewrite Forall_forall in HP. apply HP; assumption. }
  unfold Q19.
  destruct Hs as [(Hst & Hd) | [(Hst & j & v & Hu & _) | [(Hop & Hd & a & Hst & Hds & Hsz) |
    [(Hd & t & t' & rest & Hst & Hst' & Hds & Hsz) |
     (t & rest & d1 & j & v & Hst & Hst' & _ & Hu & Hr)]]]].
  - rewrite Hst, Hd. split; assumption.
  - rewrite Hst. apply zupd_length in Hu. rewrite Hu. split; assumption.
  - destruct (HPi Hop) as [Hge HB]. rewrite Hst, Hd. split.
    + apply tiled_intro; [rewrite Hds; assumption | lia |].
      rewrite Hds, Hsz. unfold zlen. rewrite app_length, zrepeat_length. lia.
    + constructor; [rewrite Hsz; exact HB | assumption].
  - rewrite Hd, Hst'. rewrite Hst in Ht, Hf. apply tiled_inv in Ht. destruct Ht as (Ht1 & Ht2 & Ht3).
    split.
    + apply tiled_intro; [rewrite Hds; assumption | lia | lia].
    + constructor; [rewrite Hsz; exact (Forall_inv Hf) | exact (Forall_inv_tail Hf)].
  - rewrite Hst in Ht, Hf. apply tiled_inv in Ht. destruct Ht as (Ht1 & Ht2 & Ht3).
    rewrite Hst'. apply zupd_length in Hu. pose proof (tiled_nonneg _ _ Ht1) as Hnn.
    assert (Hl : zlen (data s') = data_start t) by (eapply resize_len; [exact Hr | lia]).
    split; [rewrite Hl; exact Ht1 | exact (Forall_inv_tail Hf)].
Qed.

Lemma counts_ge p ins : counts_ok p = true -> In ins (code p) -> iop ins = PREPARE_EXEC -> 0 <= ia ins.
Proof.
  unfold counts_ok. intros Hc Hin Hop. rewrite forallb_forall in Hc. specialize (Hc ins Hin).
  rewrite Hop in Hc. cbn [opcode_eqb] in Hc. apply Z.leb_le in Hc. exact Hc.
Qed.

Lemma max_frame_nonneg p : 0 <= max_frame p.
Proof.
  unfold max_frame. induction (code p) as [|h t IH]; cbn [fold_right]; [lia|].
  destruct (opcode_eqb (iop h) PREPARE_EXEC); lia.
Qed.

Lemma max_frame_ge p ins : In ins (code p) -> iop ins = PREPARE_EXEC -> ia ins <= max_frame p.
Proof.
  unfold max_frame. induction (code p) as [|h t IH]; intros Hin Hop; cbn [fold_right]; [destruct Hin|].
  destruct Hin as [Heq | Hin].
  - subst h. rewrite Hop. cbn [opcode_eqb]. lia.
  - specialize (IH Hin Hop). destruct (opcode_eqb (iop h) PREPARE_EXEC); lia.
Qed.

Lemma sum_bound M st : 0 <= M -> Forall (fun a => seg_size a <= M) st -> sum_sizes st <= zlen st * M.
Proof.
  intros HM H. induction H as [|a st Ha Hst IH]; cbn [sum_sizes fold_right].
  - unfold zlen. cbn [length]. lia.
  - fold (sum_sizes st). unfold zlen in *. cbn [length]. rewrite Nat2Z.inj_succ. nia.
Qed.

Lemma C19_step_proof : C19_step_stmt.
Proof.
  unfold C19_step_stmt. intros s s' b Hc Ht He.
  assert (HQ : Q19 (fun _ => True) (data s') (stack s')).
  { eapply Q19_step; [| | exact He].
    - rewrite Forall_forall. intros ins Hin Hop. split; [| exact I].
      eapply counts_ge; eassumption.
    - split; [exact Ht|]. rewrite Forall_forall. intros; exact I. }
  destruct HQ as [HQ _]. exact HQ.
Qed.

Lemma C19_proof : C19_stmt.
Proof.
  unfold C19_stmt. intros p h fuel s Hc Hr.
  pose (B := fun z => z <= max_frame p).
  assert (HI0 : HI (P19 B) (Q19 B) (init p)).
  { split; [| exact (Q19_nil B)]. cbn [init prog]. rewrite Forall_forall. intros ins Hin Hop. split.
    - eapply counts_ge; eassumption.
    - unfold B. apply max_frame_ge; assumption. }
  pose proof (run_hist_HI (P19 B) (Q19 B) (P19_brk B) (Q19_nil B) (Q19_step B) fuel h (init p) s Hr HI0)
    as [_ [Ht Hf]].
  pose proof (tiled_sum _ _ Ht) as Hs.
  split; [exact Ht|]. split; [exact Hs|]. rewrite Hs.
  apply sum_bound; [apply max_frame_nonneg | exact Hf].
Qed.

Definition prog19r : program :=
  mkProg [ mkI PREPARE_EXEC 1 0 0; mkI PREPARE_EXEC 1 0 0; mkI EXEC 4 0 0; mkI HALT 0 0 0; mkI RET 0 0 0 ]
         [] [] [].

Lemma C19_refuted_at_pinned_proof : C19_refuted_at_pinned_stmt.
Proof.
  unfold C19_refuted_at_pinned_stmt.
  exists prog19r, 4%nat.
  eexists. split; [reflexivity|]. split; [vm_compute; reflexivity|].
  vm_compute. discriminate.
Qed.

(* a program with a real call: main frame, constant, break site, call f(r0) = r0 + 3, return *)
Definition demo_bp : bp := mkBP [102%N] 1.
Definition demo_prog : program :=
  mkProg [ mkI PREPARE_EXEC 2 0 0;      (* 0: main frame, 2 registers *)
           mkI CONST 0 5 0;             (* 1: r0 := 5 *)
           mkI POTENTIAL_BREAK 0 0 0;   (* 2: break site of line 1 *)
           mkI PREPARE_EXEC 2 1 1;      (* 3: callee frame, result to caller r1 *)
           mkI ARG 0 0 0;               (* 4: callee r0 := caller r0 *)
           mkI EXEC 7 0 0;              (* 5: call *)
           mkI HALT 0 0 0;              (* 6 *)
           mkI ADD_CONST 1 0 3;         (* 7: r1 := r0 + 3 *)
           mkI RET 1 0 0 ]              (* 8: return r1 *)
         [ mkSM [109%N] [(0, [120%N]); (1, [121%N])]; mkSM [102%N] [(0, [97%N]); (1, [98%N])] ]
         [ (demo_bp, [2]) ]
         [ (2, demo_bp) ].
Definition demo_hist : list api := [ASetBP [102%N] 1 true; AExecute; AStepping true; ASingle; ASingle; ASingle; AExecute].

Example C19_nonvacuous : exists p h s, counts_ok p = true /\ run_hist 100 h (init p) = Ok s /\
  stack s <> [] /\ data s <> [].
Proof.
  exists demo_prog, demo_hist. eexists.
  split; [reflexivity|]. split; [vm_compute; reflexivity|].
  split; vm_compute; discriminate.
Qed.

(* ===== C20 ============================================================================ *)
Definition P20 (ins : instr) : Prop := iop ins = CONST -> word_ok (ib ins).
Definition Q20 (d : list Z) (st : list act) : Prop := Forall word_ok d.

Lemma P20_brk i o : is_break_op o = true -> P20 i -> P20 (set_op i o).
Proof. intros Ho _ Heq. cbn [set_op iop] in Heq. subst o. discriminate Ho. Qed.

Lemma word_ok_0 : word_ok 0.
Proof. unfold word_ok, INT_MAX. lia. Qed.

Lemma Q20_step s s' b : Forall P20 (code (prog s)) -> Q20 (data s) (stack s) ->
  exec1 s = Ok (s', b) -> Q20 (data s') (stack s').
Proof.
  unfold Q20. intros HP Hd He. apply exec1_inv in He. destruct He as (_ & i & Hi & Hs).
  assert (HPi : P20 i).
  { apply znth_In in Hi. rewrite Forall_forall in HP. apply HP; assumption. }
  destruct Hs as [(_ & Hd') | [(_ & j & v & Hu & Hv) | [(_ & Hd' & _) |
    [(Hd' & _) | (t & rest & d1 & j & v & _ & _ & Hin & Hu & Hr)]]]].
  - rewrite Hd'. exact Hd.
  - eapply zupd_Forall; [exact Hu | exact Hd |].
    destruct Hv as [Hv | [(Hop & Hv) | Hv]].
    + exact Hv.
    + subst v. exact (HPi Hop).
    + rewrite Forall_forall in Hd. exact (Hd v Hv).
  - rewrite Hd'. apply Forall_app. split; [exact Hd | apply zrepeat_Forall; exact word_ok_0].
  - rewrite Hd'. exact Hd.
  - eapply resize_Forall; [exact Hr | | exact word_ok_0].
    eapply zupd_Forall; [exact Hu | exact Hd |].
    rewrite Forall_forall in Hd. exact (Hd v Hin).
Qed.

Lemma C20_range_proof : C20_range_stmt.
Proof.
  unfold C20_range_stmt. intros p h fuel s Hc Hr.
  assert (HI0 : HI P20 Q20 (init p)).
  { split; [| constructor]. cbn [init prog]. rewrite Forall_forall. intros ins Hin Hop.
    unfold consts_in_range in Hc. rewrite forallb_forall in Hc. specialize (Hc ins Hin).
    rewrite Hop in Hc. cbn [opcode_eqb] in Hc. apply andb_true_iff in Hc. destruct Hc as [H1 H2].
    apply Z.leb_le in H1. apply Z.leb_le in H2. split; assumption. }
  assert (Hnil : Q20 [] []) by constructor.
  pose proof (run_hist_HI P20 Q20 P20_brk Hnil Q20_step fuel h (init p) s Hr HI0) as [_ HQ].
  exact HQ.
Qed.

Example C20_nonvacuous : exists p h s, consts_in_range p = true /\ run_hist 100 h (init p) = Ok s /\
  stack s <> [] /\ data s = [5; 8].
Proof.
  exists demo_prog, demo_hist. eexists.
  split; [reflexivity|]. split; [vm_compute; reflexivity|].
  split; [vm_compute; discriminate | vm_compute; reflexivity].
Qed.

(* ---- no signed overflow ---------------------------------------------------------------- *)
Definition no_ov {A} (r : result A) : Prop := r <> UB ub_overflow.

Lemma no_ov_ok {A} (a : A) : no_ov (Ok a).
Proof. unfold no_ov; discriminate. Qed.
Lemma no_ov_fuel {A} : no_ov (@Fuel A).
Proof. unfold no_ov; discriminate. Qed.
Lemma no_ov_ub {A} k : k <> ub_overflow -> no_ov (@UB A k).
Proof. unfold no_ov. intros H E. inversion E. contradiction. Qed.
Lemma no_ov_of_opt {A} k (o : option A) : k <> ub_overflow -> no_ov (of_opt k o).
Proof. intro H. destruct o; cbn [of_opt]; [apply no_ov_ok | apply no_ov_ub; exact H]. Qed.
Lemma no_ov_bind {A B} (r : result A) (f : A -> result B) :
  no_ov r -> (forall a, no_ov (f a)) -> no_ov (bind r f).
Proof.
  intros Hr Hf. destruct r as [a|k|]; cbn [bind]; [apply Hf | | apply no_ov_fuel].
  apply no_ov_ub. intro E. subst k. apply Hr. reflexivity.
Qed.
Lemma no_ov_resize d n : no_ov (resize d n).
Proof.
  unfold resize. destruct (n <? 0); [apply no_ov_ub; discriminate|].
  destruct (n <=? zlen d); apply no_ov_ok.
Qed.

Ltac no_ov_tac :=
  repeat first
    [ apply no_ov_ok
    | apply no_ov_fuel
    | apply no_ov_resize
    | apply no_ov_ub; discriminate
    | apply no_ov_of_opt; discriminate
    | rewrite add_const_now
    | apply no_ov_bind; [| intro] ].

Lemma exec1_no_ov s : no_ov (exec1 s).
Proof.
  unfold exec1, exec1_gen. apply no_ov_bind; [apply no_ov_of_opt; discriminate|]. intro i.
  unfold top, second, rd, wr. cbn [legacy_ret cfg_now].
  destruct (iop i); try (no_ov_tac; fail).
  - (* ARG *) destruct (stack s) as [|t [|c l]]; no_ov_tac.
  - (* EXEC *) destruct (stack s) as [|t rest]; no_ov_tac.
  - (* RET *) destruct (stack s) as [|t [|c l]]; no_ov_tac.
Qed.

Lemma set_ops_no_ov : forall sites c o, no_ov (set_ops c sites o).
Proof.
  induction sites as [|i rest IH]; intros c o; cbn [set_ops]; [apply no_ov_ok|].
  apply no_ov_bind; [apply no_ov_of_opt; discriminate|]. intro ins.
  apply no_ov_bind; [apply no_ov_of_opt; discriminate|]. intro c'. apply IH.
Qed.

Lemma setBreakPoint_no_ov s f l v : no_ov (setBreakPoint s f l v).
Proof.
  unfold setBreakPoint. destruct (alookup bp_ltb (potential_breaks (prog s)) (mkBP f l)); [|apply no_ov_ok].
  destruct v; (apply no_ov_bind; [apply set_ops_no_ov | intro; apply no_ov_ok]).
Qed.

Lemma clear_sites_no_ov : forall en p c, no_ov (clear_sites p c en).
Proof.
  induction en as [|b rest IH]; intros p c; cbn [clear_sites]; [apply no_ov_ok|].
  apply no_ov_bind; [apply set_ops_no_ov | intro c'; apply IH].
Qed.

Lemma clearBreakpoints_no_ov s : no_ov (clearBreakpoints s).
Proof.
  unfold clearBreakpoints. apply no_ov_bind; [apply clear_sites_no_ov | intro; apply no_ov_ok].
Qed.

Lemma reset_no_ov s : no_ov (reset s).
Proof.
  unfold reset. apply no_ov_bind; [apply clearBreakpoints_no_ov | intro; apply no_ov_ok].
Qed.

Lemma execute_no_ov : forall fuel s, no_ov (execute fuel s).
Proof.
  unfold execute. induction fuel as [|f IH]; intro s; cbn [execute_gen]; [apply no_ov_fuel|].
  apply no_ov_bind; [exact (exec1_no_ov s)|]. intros [s' b]. destruct b; [apply no_ov_ok | apply IH].
Qed.

Lemma api_step_no_ov fuel s c : no_ov (api_step fuel s c).
Proof.
  destruct c as [f l v| |m| | |]; cbn [api_step].
  - apply setBreakPoint_no_ov.
  - apply no_ov_bind; [apply clearBreakpoints_no_ov | intro; apply no_ov_ok].
  - apply no_ov_ok.
  - apply no_ov_bind; [apply reset_no_ov | intro; apply no_ov_ok].
  - apply no_ov_bind; [apply execute_no_ov | intro; apply no_ov_ok].
  - apply exec1_no_ov.
Qed.

Lemma run_hist_no_ov fuel : forall h s, no_ov (run_hist fuel h s).
Proof.
  induction h as [|c rest IH]; intro s; cbn [run_hist]; [apply no_ov_ok|].
  apply no_ov_bind; [apply api_step_no_ov | intro r; apply IH].
Qed.

Lemma C20_no_overflow_proof : C20_no_overflow_stmt.
Proof.
  unfold C20_no_overflow_stmt. split.
  - intro s. exact (exec1_no_ov s).
  - intros fuel h s. exact (run_hist_no_ov fuel h s).
Qed.

Lemma C20_sub_proof : C20_sub_stmt.
Proof.
  unfold C20_sub_stmt, word_ok. intros x c Hx Hc. rewrite add_const_now. f_equal.
  unfold INT_MAX in *. lia.
Qed.

Lemma C20_add_proof : C20_add_stmt.
Proof.
  unfold C20_add_stmt, word_ok. intros x c Hx Hc. rewrite add_const_now. f_equal.
  unfold INT_MAX in *. lia.
Qed.

Lemma C20_refuted_at_pinned_proof : C20_refuted_at_pinned_stmt.
Proof.
  unfold C20_refuted_at_pinned_stmt. exists INT_MAX, 1.
  split; [unfold word_ok, INT_MAX; lia|]. split; [unfold word_ok, INT_MAX; lia|].
  vm_compute. reflexivity.
Qed.

(* ===== C17_halt ======================================================================= *)
Lemma opcode_eqb_eq x y : opcode_eqb x y = true -> x = y.
Proof. destruct x, y; cbn [opcode_eqb]; intro H; first [reflexivity | discriminate H]. Qed.

Lemma C17_halt_proof : C17_halt_stmt.
Proof.
  unfold C17_halt_stmt. intros s Hd. unfold isDone in Hd.
  apply bind_ok in Hd. destruct Hd as (i & Hi & Hd). cbv beta in Hd.
  assert (Hop : opcode_eqb (iop i) HALT = true) by (injection Hd as Hd'; exact Hd').
  clear Hd. apply opcode_eqb_eq in Hop.
  assert (He : exec1 s = Ok (s, true)).
  { unfold exec1, exec1_gen. rewrite Hi. cbn [bind]. rewrite Hop. reflexivity. }
  split; [exact He|]. intro fuel. unfold execute. cbn [execute_gen].
  change (exec1_gen cfg_now s) with (exec1 s). rewrite He. reflexivity.
Qed.

(* ===== C06_execute ==================================================================== *)
Lemma C06_execute_proof : C06_execute_stmt.
Proof.
  unfold C06_execute_stmt. split.
  - unfold execute. induction fuel as [|f IH]; intros s s' H; cbn [execute_gen] in H; [discriminate|].
    apply bind_ok in H. destruct H as ([s1 b] & He & H). cbv beta iota in H. destruct b.
    + inversion H; subst. apply runs_stop. exact He.
    + eapply runs_more; [exact He | apply IH; exact H].
  - intros s s' H. induction H as [s s' He | s s1 s' He Hr [fuel IH]].
    + exists 1%nat. unfold execute. cbn [execute_gen].
      change (exec1_gen cfg_now s) with (exec1 s). rewrite He. reflexivity.
    + exists (S fuel). unfold execute in *. cbn [execute_gen].
      change (exec1_gen cfg_now s) with (exec1 s). rewrite He. cbn [bind]. exact IH.
Qed.

Print Assumptions C19_step_proof.
Print Assumptions C19_proof.
Print Assumptions C19_refuted_at_pinned_proof.
Print Assumptions C20_range_proof.
Print Assumptions C20_no_overflow_proof.
Print Assumptions C20_sub_proof.
Print Assumptions C20_add_proof.
Print Assumptions C20_refuted_at_pinned_proof.
Print Assumptions C17_halt_proof.
Print Assumptions C06_execute_proof.
Print Assumptions C19_nonvacuous.
Print Assumptions C20_nonvacuous.
