(* Proofs_LexRules.v — the lemmas about the rule list translated from lexer.l (Gen_Lexer.rules); kept apart
   from the generic scanner proofs so that a change of the rule table invalidates only these. *)
From Coq Require Import List ZArith NArith Lia Bool.
From Theo Require Import Base Regex Tokens Lexer Errors Scan SpecLex Gen_Lexer LexStatements Proofs_Lexer Proofs_Scan.
(* ================================================================================================ *)
(* 5. the generated rule list                                                                       *)
(* ================================================================================================ *)

Lemma gen_catch_all : catch_all Gen_Lexer.rules.
Proof.
  intro c. exists 38, (Alt Any (Chr 10)), (Some NV_ID). split; [reflexivity |].
  destruct (N.eqb_spec c 10) as [E | E].
  - subst c. apply M_AltR. constructor.
  - apply M_AltL. unfold Any. constructor. unfold cmatch, in_rng. cbn [existsb fst snd].
    destruct (N.leb_spec 10 c) as [H1 | H1]; destruct (N.leb_spec c 10) as [H2 | H2];
      cbn [andb orb xorb negb]; try reflexivity.
    exfalso. apply E. lia.
Qed.

Lemma C14_rules_proof : C14_rules_stmt.
Proof.
  split; [vm_compute; reflexivity |].
  split; [exact gen_catch_all |].
  split; [vm_compute; reflexivity | reflexivity].
Qed.

Lemma C14_spellings_proof : C14_spellings_stmt.
Proof. split; vm_compute; reflexivity. Qed.

Definition unknown_byte_check (c : N) : bool :=
  negb (negb (in_rng c SpecLex.alnum) && negb (existsb (N.eqb c) [32; 9; 10; 40; 41; 44; 59; 58; 61]%N))
  || match lex Gen_Lexer.rules [c] with
     | [(NV_ID, [c'], 1%Z)] => N.eqb c c'
     | _ => false
     end.

Lemma unknown_byte_sweep : forallb unknown_byte_check (map N.of_nat (seq 0 256)) = true.
Proof. vm_compute. reflexivity. Qed.

Lemma C14_unknown_byte_proof : C14_unknown_byte_stmt.
Proof.
  intros c known Hc Hal Hkn. subst known.
  pose proof unknown_byte_sweep as Hs. rewrite forallb_forall in Hs.
  assert (Hin : In c (map N.of_nat (seq 0 256))).
  { apply in_map_iff. exists (N.to_nat c). split; [apply N2Nat.id |]. apply in_seq. lia. }
  apply Hs in Hin. unfold unknown_byte_check in Hin.
  rewrite Hal, Hkn in Hin. cbn [negb andb orb] in Hin.
  destruct (lex Gen_Lexer.rules [c]) as [| [[k text] line] tl]; [discriminate |].
  destruct k; try discriminate.
  destruct text as [| c' text']; [discriminate |].
  destruct text' as [| c'' text'']; [| discriminate].
  destruct line as [| p | p]; try discriminate.
  destruct p; try discriminate.
  destruct tl; [| discriminate].
  apply N.eqb_eq in Hin. subst c'. reflexivity.
Qed.

(* ================================================================================================ *)

Lemma gen_kind_not : forall k0,
  forallb (fun r => negb (action_eqb (snd r) (Some k0))) Gen_Lexer.rules = true ->
  forall fuel s line k text l' rest,
    next_token fuel Gen_Lexer.rules s line = Some (k, text, l', rest) -> tk_eqb k k0 = false.
Proof.
  intros k0 Hall fuel s line k text l' rest H.
  apply next_token_kind in H. destruct H as [r Hin].
  rewrite forallb_forall in Hall. apply Hall in Hin. cbn [snd action_eqb] in Hin.
  apply negb_true_iff in Hin. exact Hin.
Qed.

Lemma gen_no_unknown : forall fuel s line k text l' rest,
  next_token fuel Gen_Lexer.rules s line = Some (k, text, l', rest) -> tk_eqb k UNKNOWN = false.
Proof. apply gen_kind_not. vm_compute. reflexivity. Qed.

Lemma gen_no_eof : forall fuel s line k text l' rest,
  next_token fuel Gen_Lexer.rules s line = Some (k, text, l', rest) -> k <> T_EOF.
Proof.
  intros fuel s line k text l' rest H E. subst k.
  assert (Hf : tk_eqb T_EOF T_EOF = false).
  { eapply gen_kind_not; [| exact H]. vm_compute. reflexivity. }
  rewrite tk_eqb_refl in Hf. discriminate.
Qed.

Lemma C14_scan_proof : C14_scan_stmt.
Proof.
  intros files main depth c H. apply scan_file_splice; [exact gen_no_unknown | exact H].
Qed.

(* ================================================================================================ *)
(* 4. invariants of scan_file                                                                       *)
(* ================================================================================================ *)

Lemma C14_eof_proof : C14_eof_stmt.
Proof.
  intros files main toks errs H. unfold scan, scan_fuel in H.
  destruct (flookup files main) as [c |] eqn:Ef.
  - apply bind_Ok_inv in H. destruct H as [r [Hr H]]. injection H as Ht He.
    destruct (eof_token_shape files main (fst r)) as [fn [l Heof]].
    exists (fst r), fn, l. split; [rewrite <- Heof; symmetry; exact Ht |].
    eapply (scan_file_forall Gen_Lexer.rules files (fun k => k <> T_EOF) (fun _ => True)) in Hr;
      [exact (proj1 Hr) | exact gen_no_eof | | | | ]; intros; exact I.
  - injection H as Ht He.
    destruct (eof_token_shape files main []) as [fn [l Heof]].
    exists [], fn, l. split; [rewrite <- Heof; symmetry; exact Ht | constructor].
Qed.


Print Assumptions C14_rules_proof.
Print Assumptions C14_spellings_proof.
Print Assumptions C14_unknown_byte_proof.
Print Assumptions C14_scan_proof.
Print Assumptions C14_eof_proof.
