(* Proofs_C01s6j.v — C01, stage 6 (any layout), part 5: the STATIC part, values (2): the call itself and all values.
   As Proofs_C01s4j.v, without a layout condition: at every value node both traversals may place a site first. *)
From Coq Require Import List ZArith NArith Lia Bool.
From Theo Require Import Base Tokens Errors MacroExtract Parser VMModel VMSpec GenModel Compile RefSem RefSemChk C01Statements C01Stages C01Stages3 C01Stages4 Gen_Consts Proofs_VM_mem Proofs_VM_dbg Proofs_Gen0 Proofs_Gen Proofs_Sem Proofs_C01a Proofs_C01b Proofs_C01 Proofs_C01s2a Proofs_C01s2b Proofs_C01s2c Proofs_C01s2d Proofs_C01s2 Proofs_C01s3a Proofs_C01s3b Proofs_C01s3c Proofs_C01s3d Proofs_C01s4a Proofs_C01s4b Proofs_C01s4g Proofs_C01s4h Proofs_C01s4i Proofs_C01s4j Proofs_C01s6a Proofs_C01s6g Proofs_C01s6h Proofs_C01s6i.
Import ListNotations.
Local Open Scope Z_scope.

Section Values6.
  Variable P0 : Z.
  Variable FT : ftab.
  Variable LS : list Z.
  Variable W : rvalue -> Prop.

  Section SameGh.
  Variable gh : Z.
  Notation J4 := (J6 P0 FT LS W gh).

  (* ---- ARG i <- t_i, releasing each temporary ---- *)
  Lemma N6_emit_args : forall ts g s lmap p i0 g', J4 g s lmap p -> (forall t, In t ts -> RT g t) ->
    emit_args g ts i0 = Ok g' ->
    J4 g' s lmap (p + zlen ts) /\ Ext g g' /\ gpos g' = gpos g /\
    (exists blk, g_code g' = g_code g ++ blk /\ zlen blk = zlen ts /\
       forall i t, nth_error ts i = Some t -> znth blk (Z.of_nat i) = Some (IArg (i0 + Z.of_nat i) t)) /\
    (forall t, InUse g t -> ~ In t ts -> InUse g' t).
  Proof.
    induction ts as [|a ts IH]; intros g s lmap p i0 g' HJ HT HD; cbn [emit_args] in HD.
    - inversion HD; subst g'. unfold zlen at 1. cbn [length]. rewrite Z.add_0_r.
      split; [exact HJ|]. split; [apply Ext_refl; apply HJ|]. split; [reflexivity|]. split; [|auto].
      exists []. rewrite app_nil_r. split; [reflexivity|]. split; [reflexivity|]. intros i t H; destruct i; discriminate.
    - destruct (L6_emit P0 FT LS W g s lmap p (IArg i0 a) HJ) as [J1 X1].
      destruct (L6_rel P0 FT LS W (emit g (IArg i0 a)) s lmap (p + 1) a J1 (RT_ext _ _ _ X1 (HT a (or_introl eq_refl))))
        as (g1 & E1 & J2 & X2 & S2).
      rewrite E1 in HD. cbn [bind] in HD.
      destruct (IH g1 s lmap (p + 1) (i0 + 1) g' J2) as (JF & XF & PF & (blk & EC & LB & HB) & UF); [|exact HD|].
      { intros t Ht. apply (RT_ext _ _ _ X2). apply (RT_ext _ _ _ X1). apply HT. right; exact Ht. }
      rewrite zlen_cons. split; [replace (p + (zlen ts + 1)) with (p + 1 + zlen ts) by lia; exact JF|].
      split; [eapply Ext_trans; [exact X1|]; eapply Ext_trans; eauto|].
      split; [rewrite PF, (sm_pos _ _ S2); reflexivity|]. split.
      + exists (IArg i0 a :: blk). rewrite EC, (sm_code _ _ S2). cbn [emit upd_code g_code]. rewrite <- app_assoc. cbn [app].
        split; [reflexivity|]. split; [rewrite zlen_cons; lia|].
        intros i t Hi. destruct i as [|i]; cbn [nth_error] in Hi.
        * inversion Hi; subst. cbn. rewrite Z.add_0_r. reflexivity.
        * specialize (HB i t Hi). rewrite Nat2Z.inj_succ. unfold znth in *.
          destruct (Z.ltb_spec (Z.of_nat i) 0); [lia|]. destruct (Z.ltb_spec (Z.succ (Z.of_nat i)) 0); [lia|].
          replace (Z.to_nat (Z.succ (Z.of_nat i))) with (S (Z.to_nat (Z.of_nat i))) by lia. cbn [nth_error].
          rewrite HB. f_equal. f_equal. lia.
      + intros t Hu Hn. apply UF; [|intros Hin; apply Hn; right; exact Hin].
        eapply release_inuse; [exact E1 | intros ->; apply Hn; left; reflexivity |].
        destruct Hu as (r0 & Hz & Hu). exists r0. auto.
  Qed.

  (* ---- a call of a user program, after its arguments ---- *)
  Lemma N6_plain g2 s2 lmap p ts rvs name tgt g' s' rv :
    J4 g2 s2 lmap p -> GF FT g2 s2 -> (forall t, In t ts -> RT g2 t) -> length ts = length rvs ->
    call_plain g2 ts name tgt = Ok g' -> resolve_call s2 name rvs = Some (s', rv) ->
    exists j entry size mi blk,
      rv = RCall j rvs /\ s' = s2 /\ FT j = Some (entry, size, mi) /\
      J4 g' s2 lmap (p + zlen ts + 2) /\ Ext g2 g' /\ gpos g' = gpos g2 /\
      g_code g' = (g_code g2 ++ [IPrepare size mi tgt]) ++ blk ++ [IExec entry] /\ zlen blk = zlen ts /\
      (forall i t, nth_error ts i = Some t -> znth blk (Z.of_nat i) = Some (IArg (Z.of_nat i) t)) /\
      (forall t, InUse g2 t -> ~ In t ts -> InUse g' t).
  Proof.
    intros HJ HG HT Hlen HD HF.
    unfold resolve_call in HF. destruct (lookup_name (f_names s2) name) as [j|] eqn:El; [|discriminate].
    destruct (nth_error (f_done s2) j) as [callee|] eqn:Ej; [|discriminate].
    destruct (Nat.eqb (length rvs) (length (r_params callee))) eqn:Ea; [|discriminate]. apply Nat.eqb_eq in Ea.
    inversion HF; subst s' rv; clear HF.
    destruct (HG _ _ El) as (callee' & pr & Ej' & Ef & EFT & Earg). rewrite Ej in Ej'. inversion Ej'; subst callee'.
    unfold call_plain in HD. rewrite Ef in HD.
    assert (Earg' : p_argnum pr =? zlen ts = true) by (apply Z.eqb_eq; rewrite Earg; unfold zlen; rewrite Hlen, Ea; reflexivity).
    rewrite Earg' in HD. cbn [negb] in HD. cbv zeta in HD.
    destruct (L6_emit P0 FT LS W g2 s2 lmap p (IPrepare (p_stack_size pr) (p_mi pr) tgt) HJ) as [J1 X1].
    set (g3 := emit g2 (IPrepare (p_stack_size pr) (p_mi pr) tgt)) in *.
    destruct (emit_args g3 ts 0) as [g4| |] eqn:EA; cbn [bind] in HD; try discriminate. inversion HD; subst g'; clear HD.
    destruct (N6_emit_args ts g3 s2 lmap (p + 1) 0 g4 J1) as (J2 & X2 & P2 & (blk & EC & LB & HB) & U2); [|exact EA|].
    { intros t Ht. apply (RT_ext _ _ _ X1). apply HT; exact Ht. }
    destruct (L6_emit P0 FT LS W g4 s2 lmap _ (IExec (p_ind pr)) J2) as [J3 X3].
    exists j, (p_ind pr), (p_stack_size pr), (p_mi pr), blk.
    split; [reflexivity|]. split; [reflexivity|]. split; [exact EFT|].
    split; [replace (p + zlen ts + 2) with (p + 1 + zlen ts + 1) by lia; exact J3|].
    split; [eapply Ext_trans; [exact X1|]; eapply Ext_trans; eauto|].
    split; [transitivity (gpos g4); [reflexivity | exact P2]|].
    split; [cbn [emit upd_code g_code]; rewrite EC; cbn [g3 emit upd_code g_code]; rewrite <- !app_assoc; reflexivity|].
    split; [exact LB|]. split; [intros i t Hi; specialize (HB i t Hi); rewrite Z.add_0_l in HB; exact HB|].
    intros t Hu Hn. destruct (U2 t) as (r0 & Hz & Hu0); [destruct Hu as (r0 & Hz & Hu0); exists r0; auto | exact Hn|]. exists r0. auto.
  Qed.

  End SameGh.
  Arguments N6_emit_args {gh}.
  Arguments N6_plain {gh}.

  Notation J6 := (J6 P0 FT LS W).
  Notation VRes6 := (VRes6 P0 FT LS W).
  Notation PV6 := (PV6 P0 FT LS W).

  (* ---- all values ---- *)
  Theorem N6_value_all : forall v, all_sub PV6 v.
  Proof.
    apply all_sub_intro. intros t line file tok l r Hl Hr.
    intros Hv4 Hlex gh g s lmap p tgt g' s' rv HJ HG HD HF.
    (* the site of this node, if it stands on a new line *)
    destruct (L6_ghost P0 FT LS W g s lmap p line file HJ) as (dl & Hdl & J0 & X0 & F0 & Es0 & Ec0).
    set (ga := advance_line g line file) in *. set (sa := move_to s file line) in *.
    assert (HGa : GF FT ga sa) by (eapply GF_ext; eauto).
    assert (Hla : zlen (g_code ga) = zlen (g_code g) + dl).
    { rewrite Ec0, zlen_app. destruct Hdl as [-> | ->]; reflexivity. }
    assert (Hpb : forall C', (exists blk, C' = g_code ga ++ blk) -> dl = 1 -> znth C' (zlen (g_code g)) = Some IPotentialBreak).
    { intros C' [blk ->] ->. apply znth_app_some. rewrite Ec0. cbn [Z.eqb Pos.eqb]. apply znth_app_last. }
    assert (Huse : forall t0, InUse g t0 -> InUse ga t0) by (intros t0; apply InUse_syms; exact Es0).
    assert (Hfree : forall t0, Sfree ga t0 -> Sfree g t0) by (intros t0 H0 H1; apply H0, Huse; exact H1).
    assert (Hfree' : forall t0, Sfree g t0 -> Sfree ga t0).
    { intros t0 H0 H1. apply H0. revert H1. apply InUse_syms. symmetry. exact Es0. }
    assert (Hon0 : forall f0 l0, on_line f0 l0 (Node t line file tok l r) = true -> at_loc (gpos g) f0 l0 ->
              dl = 0 /\ gpos ga = gpos g /\ match l with Some x => on_line f0 l0 x = true | None => True end /\
              match r with Some x => on_line f0 l0 x | None => true end = true).
    { intros f0 l0 Hon Ha. cbn [on_line] in Hon. rewrite !andb_true_iff in Hon. destruct Hon as [[Hn Hol] Hor].
      assert (E : ga = g) by exact (adv_noop g f0 l0 file line Ha Hn).
      split; [rewrite E in Hla; lia|]. split; [rewrite E; reflexivity|]. split; [destruct l; auto | exact Hor]. }
    destruct t; try discriminate Hv4.
    - (* a variable *)
      assert (Hx : lexable tok = true).
      { cbn [lexable_names] in Hlex. rewrite !andb_true_iff in Hlex. apply Hlex. }
      rewrite flat_value_name in HF. cbv zeta in HF. fold sa in HF. inversion HF; subst s' rv; clear HF.
      rewrite dv_name in HD. fold ga in HD.
      destruct (L6_var P0 FT LS W ga sa lmap p tok Hx J0) as (g1 & E1 & J1 & X1 & S1 & F1 & V1 & U1).
      rewrite E1 in HD. cbn [bind] in HD. cbv beta iota in HD. inversion HD; subst g'; clear HD.
      destruct (L6_emit P0 FT LS W g1 _ lmap p (IAdd tgt (ks_ix (gks ga) tok) 0) J1) as [J2 X2].
      set (gF := emit g1 (IAdd tgt (ks_ix (gks ga) tok) 0)) in *.
      assert (EcF : g_code gF = g_code ga ++ [IAdd tgt (ks_ix (gks ga) tok) 0]) by (unfold gF; cbn [emit upd_code g_code]; rewrite (sm_code _ _ S1); reflexivity).
      exists dl. split; [constructor; cbn [vlen4 vlen]|].
      + exact J2.
      + eapply Ext_trans; [exact X0|]. eapply Ext_trans; eauto.
      + eapply FExt_trans; eauto.
      + rewrite EcF, zlen_snoc. lia.
      + replace dl with (dl + 0) by lia. apply vmatch6_lead; [exact Hdl | apply Hpb; eexists; exact EcF|].
        eapply VM6_var; [apply (RV_ext _ _ _ _ X2); exact V1|]. rewrite EcF, <- Hla. apply znth_app_last.
      + intros t0 H0. apply Huse in H0. destruct H0 as (r0 & Hz & Hu). exists r0. split; [|exact Hu].
        change (gregs gF) with (gregs g1). apply U1; exact Hz.
      + intros f0 l0 Hon Ha. destruct (Hon0 f0 l0 Hon Ha) as (A & B & _). split; [exact A|].
        change (gpos gF) with (gpos g1). rewrite (sm_pos _ _ S1). exact B.
    - (* a literal *)
      rewrite flat_value_number in HF. cbv zeta in HF. fold sa in HF.
      destruct (Z.leb_spec INT_MAX (strtol tok)) as [|Hlt]; [discriminate|]. inversion HF; subst s' rv; clear HF.
      rewrite dv_number in HD. fold ga in HD.
      assert (Egs : gen_str_to_int ga tok = (ga, strtol tok)).
      { unfold gen_str_to_int. destruct (Z.leb_spec INT_MAX (strtol tok)); [lia|].
        rewrite wrap_int_small; [reflexivity|]. pose proof (strtol_nonneg tok). lia. }
      rewrite Egs in HD. cbn [fst snd] in HD. inversion HD; subst g'; clear HD.
      destruct (L6_emit P0 FT LS W ga sa lmap p (IConst tgt (strtol tok)) J0) as [J2 X2].
      exists dl. split; [constructor; cbn [vlen4 vlen]|].
      + exact J2.
      + eapply Ext_trans; eauto.
      + exact F0.
      + cbn [emit upd_code g_code]. rewrite zlen_snoc. lia.
      + replace dl with (dl + 0) by lia. apply vmatch6_lead; [exact Hdl | apply Hpb; eexists; reflexivity|].
        pose proof (strtol_nonneg tok). eapply VM6_num; [lia|]. cbn [emit upd_code g_code]. rewrite <- Hla. apply znth_app_last.
      + intros t0 H0. apply Huse in H0. exact H0.
      + intros f0 l0 Hon Ha. destruct (Hon0 f0 l0 Hon Ha) as (A & B & _). split; [exact A | exact B].
    - (* a call *)
      destruct l as [f|]; [|discriminate Hv4]. rewrite value4_call in Hv4. apply andb_true_iff in Hv4. destruct Hv4 as [Hf Hsh].
      rewrite dv_call in HD. fold ga in HD.
      rewrite flat_value_call' in HF. fold sa in HF.
      assert (Hlr : match r with Some a => lexable_names a = true | None => True end).
      { cbn [lexable_names] in Hlex. rewrite !andb_true_iff in Hlex. destruct r; [apply Hlex | exact I]. }
      (* the arguments *)
      assert (HA : exists g2 ts s2 rvs n2,
                call_args_o (dispatch_value false) r (ga, []) = Ok (g2, ts) /\
                match r with None => Some (sa, []) | Some rn0 => fargs rn0 (sa, []) end = Some (s2, rvs) /\
                length rvs = nargs_o r /\ length ts = length rvs /\
                J6 (gh + dl + n2) g2 s2 lmap (p + alen4 rvs) /\ Ext ga g2 /\ FExt sa s2 /\
                zlen (g_code g2) = zlen (g_code ga) + alen4 rvs + n2 /\
                (forall f0 l0, match r with Some x => on_line f0 l0 x | None => true end = true -> at_loc (gpos ga) f0 l0 ->
                   n2 = 0 /\ gpos g2 = gpos ga) /\
                (forall t, InUse ga t -> InUse g2 t) /\ (forall t, In t ts -> InUse g2 t /\ RT g2 t /\ Sfree ga t) /\
                amatch6 (RMof (gks g2)) (g_code g2) FT rvs ts (zlen (g_code ga)) (Sfree ga) [] n2).
      { destruct r as [a|].
        - cbn [call_args_o] in HD |- *. cbn [optP] in Hr.
          destruct (call_args (dispatch_value false) a (ga, [])) as [[g2 ts]| |] eqn:EA; cbn [bind] in HD; try discriminate.
          destruct (fargs a (sa, [])) as [[s2 rvs]|] eqn:EFa; [|discriminate].
          destruct (N6_args P0 FT LS W a Hr Hsh Hlr (gh + dl) ga sa lmap p [] [] g2 ts s2 rvs J0 HGa EA EFa)
            as (ts' & rvs' & n2 & E1 & E2 & Hlen & JF & XF & FF & LF & LnF & UF & TF & AF).
          cbn [app] in E1, E2. subst ts' rvs'.
          exists g2, ts, s2, rvs, n2. split; [reflexivity|]. split; [reflexivity|]. split; [exact Hlen|].
          assert (AM := AF (Sfree ga) [] (fun t H => H) (fun t (H : In t []) => match H with end)).
          split; [exact (amatch6_length _ _ _ _ _ _ _ _ _ AM)|]. repeat (split; [assumption|]). exact AM.
        - exists ga, [], sa, [], 0. cbn [call_args_o alen4 nargs_o length]. rewrite !Z.add_0_r.
          split; [reflexivity|]. split; [reflexivity|]. split; [reflexivity|]. split; [reflexivity|].
          split; [exact J0|]. split; [apply Ext_refl; apply J0|]. split; [apply FExt_refl|].
          split; [lia|]. split; [intros f0 l0 _ _; split; reflexivity|]. split; [auto|]. split; [intros t []|]. constructor. }
      destruct HA as (g2 & ts & s2 & rvs & n2 & EA & EFa & Hnr & Hlts & J2 & X2 & F2 & L2 & LN2 & U2 & T2 & AM).
      assert (Hon2 : forall f0 l0, on_line f0 l0 (Node N_CALL line file tok (Some f) r) = true -> at_loc (gpos g) f0 l0 ->
                dl = 0 /\ n2 = 0 /\ gpos g2 = gpos g).
      { intros f0 l0 Hon Ha. destruct (Hon0 f0 l0 Hon Ha) as (A & B & _ & Hr0).
        destruct (LN2 f0 l0 Hr0 ltac:(rewrite B; exact Ha)) as [A2 B2]. split; [exact A|]. split; [exact A2 | rewrite B2; exact B]. }
      clear LN2.
      pose proof (amatch6_nonneg _ _ _ _ _ _ _ _ _ AM) as Hn2.
      rewrite EA in HD. cbn [bind] in HD. rewrite EFa in HF.
      assert (HG2 : GF FT g2 s2) by (eapply GF_ext; eauto).
      assert (Hshr : rshape r) by (destruct r; [exact Hsh | exact I]).
      (* which kind of call *)
      destruct (is_b2 r && (str_eqb (n_tok f) name_INC || str_eqb (n_tok f) name_DEC)) eqn:Ekind.
      + (* the +/- sugar *)
        apply andb_true_iff in Ekind. destruct Ekind as [Eb Eop].
        destruct (is_b2_inv _ Eb) as (l1 & f1 & k1 & l3 & f3 & y & c1 & c2 & l2 & f2 & k2 & l4 & f4 & ctok & c3 & c4 & ->).
        (* the flattener's arguments *)
        rewrite fargs_eq in EFa. cbn [fargs_opt] in EFa. rewrite fargs_eq in EFa. cbn [fst snd] in EFa.
        rewrite flat_value_name in EFa. cbv zeta in EFa. cbn [app] in EFa.
        rewrite fargs_eq in EFa. cbn [fargs_opt] in EFa. rewrite fargs_eq in EFa. cbn [fst snd] in EFa.
        rewrite flat_value_number in EFa. cbv zeta in EFa.
        destruct (Z.leb_spec INT_MAX (strtol ctok)) as [|Hlt]; [discriminate|]. cbn [app] in EFa.
        injection EFa as Es2 Ervs. subst rvs. clear Es2.
        pose proof (strtol_nonneg ctok) as Hc0.
        assert (Hlit : lit_of ctok = strtol ctok) by (apply lit_of_small; exact Hlt).
        destruct ts as [|t1 [|t2 [|t3 ts]]]; try discriminate Hlts.
        inversion AM as [|v0 vs0 t0 ts0 q0 S0 S1 prot0 n1a n1r Tt1 St1 Hn1' HS1 Hvm1 AM2]; subst.
        inversion AM2 as [|v0 vs0 t0 ts0 q0 S0 S2 prot0 n1b n1z Tt2 St2 Hn2' HS2 Hvm2 AM3]; subst.
        inversion AM3; subst. cbn [vlen4 vlen] in Hvm2.
        pose proof (vmatch6_nonneg _ _ _ _ _ _ _ _ Hvm1) as Hn1a. pose proof (vmatch6_nonneg _ _ _ _ _ _ _ _ Hvm2) as Hn1b.
        (* the generator's last instruction *)
        rewrite call_tail_op in HD by exact Eop. rewrite Hlit in HD. inversion HD; subst g'; clear HD.
        unfold builtin_of in HF. cbn [n_type] in HF. unfold lit in HF. cbn [n_tok] in HF. fold (lit_of ctok) in HF. rewrite Hlit in HF.
        set (cc := if str_eqb (n_tok f) name_INC then strtol ctok else wrap_int (- strtol ctok)) in *.
        destruct (L6_emit P0 FT LS W g2 _ lmap _ (IAdd tgt t1 cc) J2) as [J3 X3].
        set (gF := emit g2 (IAdd tgt t1 cc)) in *.
        assert (Ecode : g_code gF = g_code g2 ++ [IAdd tgt t1 cc]) by reflexivity.
        assert (Hne : t1 <> t2) by (intros ->; apply Hn2'; left; reflexivity).
        assert (Hres : exists rv0 cc0, rv = rv0 /\ s' = s2 /\ vlen4 rv0 = 3 /\ cc = cc0 /\
                  (rv0 = RInc (RVar y) (strtol ctok) /\ cc0 = strtol ctok \/ rv0 = RDec (RVar y) (strtol ctok) /\ cc0 = - strtol ctok)).
        { unfold cc. unfold name_INC, name_DEC in *. destruct (str_eqb (n_tok f) _) eqn:Ei.
          - inversion HF; subst. eexists _, _. split; [reflexivity|]. split; [reflexivity|]. split; [reflexivity|].
            split; [reflexivity|]. left. split; reflexivity.
          - cbn [orb] in Eop. rewrite Eop in HF. inversion HF; subst.
            eexists _, _. split; [reflexivity|]. split; [reflexivity|]. split; [reflexivity|].
            split; [apply wrap_int_neg; lia|]. right. split; reflexivity. }
        destruct Hres as (rv0 & cc0 & -> & -> & Hvl & Ecc & Hcase).
        cbn [alen4 vlen4 vlen] in J2, L2.
        destruct (T2 t1 (or_introl eq_refl)) as (_ & RT1 & SF1). destruct (T2 t2 (or_intror (or_introl eq_refl))) as (_ & RT2 & SF2).
        exists (dl + (n1a + n1b)). split; [constructor|].
        * rewrite Hvl. replace (p + 3) with (p + (1 + (1 + 0)) + 1) by lia.
          replace (gh + (dl + (n1a + n1b))) with (gh + dl + (n1a + (n1b + 0))) by lia. exact J3.
        * eapply Ext_trans; [exact X0|]. eapply Ext_trans; eauto.
        * eapply FExt_trans; eauto.
        * rewrite Ecode, zlen_snoc, L2, Hvl. lia.
        * apply vmatch6_lead; [exact Hdl | apply Hpb; destruct X2 as (_ & [blk2 Eb2] & _); exists (blk2 ++ [IAdd tgt t1 cc]); rewrite Ecode, Eb2, app_assoc; reflexivity|].
          rewrite <- Hla.
          assert (Mv : forall v0 t0 q0 S0 n0, vmatch6 (RMof (gks g2)) (g_code g2) FT v0 t0 q0 S0 n0 ->
                    vmatch6 (RMof (gks gF)) (g_code gF) FT v0 t0 q0 S0 n0).
          { intros v0 t0 q0 S0 n0 Hm. rewrite Ecode. apply (vmatch6_mono _ _ _ _ FT FT v0 t0 q0 S0 S0 n0 (Ext_rm _ _ X3) (fun j0 x0 H => H) (fun x Hx => Hx) Hm). }
          assert (Z2' : znth (g_code gF) (zlen (g_code ga) + 2 + n1a + n1b) = Some (IAdd tgt t1 cc0)).
          { rewrite Ecode, <- Ecc. replace (zlen (g_code ga) + 2 + n1a + n1b) with (zlen (g_code g2)) by lia. apply znth_app_last. }
          destruct Hcase as [[-> ->]|[-> ->]];
            [eapply VM6_inc with (t1 := t1) (t2 := t2) | eapply VM6_dec with (t1 := t1) (t2 := t2)];
            try (apply (RT_ext _ _ _ X3); assumption); try (apply Hfree; assumption); try exact Hne; try exact Z2';
            try (eapply vmatch6_leaf; [|apply Mv; eassumption]; eauto).
        * intros t0 H0. apply Huse in H0. destruct (U2 t0 H0) as (r0 & Hz & Hu). exists r0. auto.
        * intros f0 l0 Hon Ha. destruct (Hon2 f0 l0 Hon Ha) as (A & A2 & B). split; [lia|]. exact B.
      + (* a call of a user program *)
        unfold call_tail in HD. cbn [child of_opt bind] in HD.
        destruct (call_const_b2 (Some f) r ts Hshr ltac:(congruence)) as (x & Ex & Hx).
        rewrite Ex in HD. cbn [bind] in HD.
        assert (HDp : call_plain g2 ts (n_tok f) tgt = Ok g').
        { apply andb_false_iff in Ekind. destruct Ekind as [Eb|Eop].
          - rewrite (Hx Eb) in HD. exact HD.
          - rewrite Eop in HD. destruct x; exact HD. }
        assert (HFp : resolve_call s2 (n_tok f) rvs = Some (s', rv)).
        { apply andb_false_iff in Ekind. destruct Ekind as [Eb|Eop].
          - rewrite (builtin_b2 r rvs Hnr Hshr Eb) in HF. exact HF.
          - apply orb_false_iff in Eop. destruct Eop as [E1 E2]. unfold name_INC, name_DEC in *.
            destruct (builtin_of r rvs) as [[v1 c]|]; [rewrite E1, E2 in HF|]; exact HF. }
        destruct (N6_plain g2 s2 lmap _ ts rvs (n_tok f) tgt g' s' rv J2 HG2 (fun t Ht => proj1 (proj2 (T2 t Ht))) Hlts HDp HFp)
          as (j & entry & size & mi & blk & -> & -> & EFT & J3 & X3 & P3 & EC & LB & HB & U3).
        assert (Lz : zlen ts = zlen rvs) by (unfold zlen; rewrite Hlts; reflexivity).
        exists (dl + n2). split; [constructor; rewrite ?vlen4_call|].
        * replace (p + (alen4 rvs + zlen rvs + 2)) with (p + alen4 rvs + zlen ts + 2) by lia.
          replace (gh + (dl + n2)) with (gh + dl + n2) by lia. exact J3.
        * eapply Ext_trans; [exact X0|]. eapply Ext_trans; eauto.
        * eapply FExt_trans; eauto.
        * rewrite EC, !zlen_app. change (zlen [IPrepare size mi tgt]) with 1. change (zlen [IExec entry]) with 1. lia.
        * apply vmatch6_lead; [exact Hdl | apply Hpb; destruct X2 as (_ & [blk2 Eb2] & _); eexists; rewrite EC, Eb2, <- !app_assoc; reflexivity|].
          rewrite <- Hla.
          eapply VM6_call with (ts := ts) (entry := entry) (size := size) (mi := mi).
          -- exact EFT.
          -- destruct (vmatch6_move (RMof (gks g2)) (RMof (gks g')) (g_code g2) (g_code g') FT FT (Ext_rm _ _ X3) (fun j0 x0 H => H)) as [_ Ma].
             eapply Ma; [exact AM | exact Hfree |]. rewrite EC. intros q' ins _ Hz _. rewrite <- app_assoc. apply znth_app_some; exact Hz.
          -- rewrite EC. apply znth_app_some. replace (zlen (g_code ga) + alen4 rvs + n2) with (zlen (g_code g2)) by lia. apply znth_app_last.
          -- intros i t Hi. rewrite EC. rewrite znth_app_r by (rewrite zlen_snoc; lia).
             rewrite zlen_snoc. replace (zlen (g_code ga) + alen4 rvs + n2 + 1 + Z.of_nat i - (zlen (g_code g2) + 1)) with (Z.of_nat i) by lia.
             apply znth_app_some. apply HB; exact Hi.
          -- rewrite EC. rewrite app_assoc. replace (zlen (g_code ga) + alen4 rvs + n2 + 1 + zlen rvs) with (zlen ((g_code g2 ++ [IPrepare size mi tgt]) ++ blk))
               by (rewrite zlen_app, zlen_snoc; lia). apply znth_app_last.
        * intros t0 H0. apply Huse in H0. apply U3; [apply U2; exact H0|]. intros Hin. destruct (T2 _ Hin) as (_ & _ & SF). exact (SF H0).
        * intros f0 l0 Hon Ha. destruct (Hon2 f0 l0 Hon Ha) as (A & A2 & B). split; [lia|]. rewrite P3. exact B.
  Qed.
End Values6.
