(* RefHaltStatements.v — C16, second sentence, on the reference semantics: a source that uses neither WHILE nor GOTO
   (nor IF ... THEN GOTO) always halts: its reference run ends (STOP or the end of the main program) for some budget.
   Calls are no obstacle: a RUN names an earlier definition (resolve_call), so the call graph is acyclic. *)
From Theo Require Import Base Tokens Errors MacroExtract Parser RefSem SemStatements.
Local Open Scope Z_scope.

Fixpoint loop_only (n : node) : bool :=
  match n with
  | Node t _ _ _ l r =>
      (match t with N_WHILE | N_GOTO | N_IF => false | _ => true end)
      && (match l with Some x => loop_only x | None => true end)
      && (match r with Some x => loop_only x | None => true end)
  end.

Definition C16_ref_loop_halts_stmt : Prop :=
  forall root rs, loop_only root = true -> abstract_source (Some root) = Some rs ->
    exists fuel views steps trace, run_ref fuel rs = OStop views steps trace.

(* "assigning to the bound variable inside the body does not change the number of iterations" is built into the
   reference semantics: the counter of a LOOP lives in ra_cnt, which only RLoopInit and RLoopDec write (RefSem.run);
   that the VM agrees is C01. *)
