(* Proofs_Apply0.v — helper lemmas for Proofs_Apply.v: the detector grammar of a well-formed macro
   satisfies the hypotheses of the LR theorems; derivation trees of the detector grammar. *)
From Coq Require Import List ZArith NArith Lia Bool Sorting.Sorted.
From Theo Require Import Base Tokens Errors MacroExtract Grammar LR Gen_MacroGrammar Gen_Consts MacroApply SpecMacro SpecLR LRStatements CompileStatements ApplyStatements Proofs_First Proofs_LRSound0 Proofs_LRSound Proofs_Macro Proofs_Front.
Import ListNotations.

(* ================================================================================================ *)
(* 1. the detector grammar, concretely                                                               *)
(* ================================================================================================ *)
Definition base_rs : list (sym * list alternative) := Eval vm_compute in right_sides base_grammar.

Lemma base_rs_eq : right_sides base_grammar = base_rs.
Proof. vm_compute. reflexivity. Qed.

Definition nf (rhs : list sym) : list sym := filter (fun s => negb (sym_eqb s Eps)) rhs.

Lemma dg_gen rhs : add_rule base_grammar macro_sym rhs = mkG 8 (base_rs ++ [(Nt 7, [nf rhs])]) [] 0.
Proof. vm_compute. reflexivity. Qed.

Lemma pattern_not_eps t : pattern_sym t <> Eps.
Proof. unfold pattern_sym. destruct (slot_nonterminal (tk t)); discriminate. Qed.

Lemma nf_pattern l : nf (map pattern_sym l) = map pattern_sym l.
Proof.
  unfold nf. induction l as [|a l IH]; cbn [map filter]; [reflexivity|].
  pose proof (pattern_not_eps a) as NE.
  destruct (pattern_sym a) eqn:E; [congruence| |]; cbn; f_equal; exact IH.
Qed.

Definition pat_rhs (m : macrodef) : list sym := map pattern_sym (m_rule m).

Lemma dg_eq m : detector_grammar m = mkG 8 (base_rs ++ [(Nt 7, [pat_rhs m])]) [] 0.
Proof. unfold detector_grammar. rewrite dg_gen, nf_pattern. reflexivity. Qed.

(* ---- one boolean check for everything the LR theorems want ---------------------------------------- *)
Definition okb (s : sym) : bool :=
  match s with Eps => false | Tm i => negb (N.eqb i 0) | Nt n => N.ltb n 7 end.
Definition key_okb (s : sym) : bool := match s with Nt n => N.ltb n 8 | _ => false end.
Definition rs_okb (rs : list (sym * list alternative)) : bool :=
  forallb (fun r => key_okb (fst r) && forallb (fun alt => forallb okb alt) (snd r)) rs.

Lemma base_okb : rs_okb base_rs = true.
Proof. vm_compute. reflexivity. Qed.

Lemma rs_okb_spec rs : rs_okb rs = true -> forall X alts, In (X, alts) rs ->
  (exists n, X = Nt n /\ (n < 8)%N) /\ forall alt s, In alt alts -> In s alt -> okb s = true.
Proof.
  intros H X alts HI. unfold rs_okb in H. rewrite forallb_forall in H. specialize (H _ HI).
  cbn [fst snd] in H. apply andb_true_iff in H. destruct H as [HK HA]. split.
  - destruct X; try discriminate. exists i. split; auto. apply N.ltb_lt. exact HK.
  - intros alt s Ha Hs. rewrite forallb_forall in HA. specialize (HA _ Ha).
    rewrite forallb_forall in HA. auto.
Qed.

Lemma rs_okb_app l1 l2 : rs_okb (l1 ++ l2) = rs_okb l1 && rs_okb l2.
Proof. unfold rs_okb. apply forallb_app. Qed.

Lemma tk_num_0 k : tk_num k = 0%N -> k = T_EOF.
Proof. destruct k; try discriminate; auto. Qed.

Lemma tk_num_inj a b : tk_num a = tk_num b -> a = b.
Proof. intros H. apply xe_tk_eqb_eq. unfold tk_eqb. rewrite H. apply N.eqb_refl. Qed.

Lemma pattern_okb t : tk t <> T_EOF -> okb (pattern_sym t) = true.
Proof. unfold pattern_sym. destruct (tk t) eqn:E; intros H; try reflexivity. congruence. Qed.

Definition rule_ok (m : macrodef) : Prop := Forall (fun t => tk t <> T_EOF) (m_rule m).

Lemma macro_ok_rule m : macro_ok m -> rule_ok m.
Proof. intros H. apply H. Qed.

Lemma dg_okb m : rule_ok m -> rs_okb (right_sides (detector_grammar m)) = true.
Proof.
  intros H. rewrite dg_eq. cbn [right_sides]. rewrite rs_okb_app, base_okb. cbn [andb].
  unfold rs_okb. cbn [forallb fst snd key_okb andb].
  rewrite !andb_true_r. change (7 <? 8)%N with true. cbn [andb].
  unfold pat_rhs. unfold rule_ok in H. induction H as [|t l Ht Hl IH]; cbn [map forallb]; [reflexivity|].
  rewrite pattern_okb by exact Ht. exact IH.
Qed.

Lemma dg_wf m : rule_ok m -> wf_grammar (detector_grammar m).
Proof.
  intros H. pose proof (rs_okb_spec _ (dg_okb m H)) as S. constructor.
  - rewrite dg_eq. cbn [right_sides].
    change (map fst (base_rs ++ [(Nt 7%N, [pat_rhs m])]))
      with [Nt 0; Nt 1; Nt 2; Nt 3; Nt 4; Nt 5; Nt 6; Nt 7]%N.
    repeat (constructor; [|repeat (constructor; try reflexivity)]). constructor.
  - intros X alts HI. destruct (S _ _ HI) as [(n & -> & _) _]. eauto.
  - intros X alts alt HI Ha He. destruct (S _ _ HI) as [_ K]. specialize (K _ _ Ha He). discriminate.
  - rewrite dg_eq. reflexivity.
Qed.

Lemma dg_start_ok m : rule_ok m ->
  start_ok (detector_grammar m) (Nt (N.of_nat detector_start)) (Tm (tk_num detector_eof)).
Proof.
  intros H. pose proof (rs_okb_spec _ (dg_okb m H)) as S. split; [|split].
  - exists 7%N. split; [reflexivity|]. rewrite dg_eq. reflexivity.
  - eexists; reflexivity.
  - intros X alts HI. destruct (S _ _ HI) as [(n & -> & L) _]. exists n. split; [reflexivity|].
    rewrite dg_eq. exact L.
Qed.

Lemma dg_rhs_closed m : rule_ok m -> rhs_closed (detector_grammar m).
Proof.
  intros H. pose proof (rs_okb_spec _ (dg_okb m H)) as S.
  intros X alts alt n HI Ha Hn. destruct (S _ _ HI) as [_ K]. specialize (K _ _ Ha Hn).
  cbn [okb] in K. apply N.ltb_lt in K. rewrite dg_eq. cbn [total_nt]. lia.
Qed.

Lemma dg_eof_fresh m : rule_ok m -> eof_fresh (detector_grammar m) (Tm (tk_num detector_eof)).
Proof.
  intros H. pose proof (rs_okb_spec _ (dg_okb m H)) as S.
  intros [(alts & HI)|(Y & alts & alt & HI & Ha & Hs)].
  - destruct (S _ _ HI) as [(n & E & _) _]. discriminate.
  - destruct (S _ _ HI) as [_ K]. specialize (K _ _ Ha Hs). discriminate.
Qed.

(* ---- rules of a symbol ------------------------------------------------------------------------------ *)
Lemma alookup_app {V} (l1 l2 : list (sym * V)) k :
  alookup sym_ltb (l1 ++ l2) k =
  match alookup sym_ltb l1 k with Some v => Some v | None => alookup sym_ltb l2 k end.
Proof.
  induction l1 as [|[k0 v0] t IH]; cbn [app alookup]; [reflexivity|].
  destruct (keqb sym_ltb k k0); auto.
Qed.

Lemma rs_get_base X : rs_get base_grammar X = match alookup sym_ltb base_rs X with Some l => l | None => [] end.
Proof. unfold rs_get. rewrite base_rs_eq. reflexivity. Qed.

Lemma dg_rs_get_other m X : X <> Nt 7%N -> rs_get (detector_grammar m) X = rs_get base_grammar X.
Proof.
  intros NE. rewrite rs_get_base. unfold rs_get. rewrite dg_eq. cbn [right_sides]. rewrite alookup_app.
  destruct (alookup sym_ltb base_rs X); [reflexivity|].
  cbn [alookup]. destruct (keqb sym_ltb X (Nt 7%N)) eqn:E; [|reflexivity].
  apply keqb_true_iff in E. contradiction.
Qed.

Lemma dg_rs_get_macro m : rs_get (detector_grammar m) (Nt 7%N) = [pat_rhs m].
Proof. unfold rs_get. rewrite dg_eq. cbn [right_sides]. rewrite alookup_app. reflexivity. Qed.

Lemma base_rule_okb X alt s : In alt (rs_get base_grammar X) -> In s alt -> okb s = true.
Proof.
  rewrite rs_get_base. destruct (alookup sym_ltb base_rs X) eqn:E; [|intros []].
  apply alookup_In in E. intros Ha Hs. destruct (rs_okb_spec _ base_okb _ _ E) as [_ K]. eauto.
Qed.

(* ================================================================================================ *)
(* 2. derivation trees of the detector grammar                                                        *)
(* ================================================================================================ *)
Notation ttree := (@tree token).
Notation rootT := (root translator).
Notation validT := (valid translator).
Notation valueT := (value creator semantic).

Section TreeInd.
  Variable P : ttree -> Prop.
  Hypothesis HL : forall tok, P (Leaf tok).
  Hypothesis HI : forall lhs alt ch, Forall P ch -> P (Inner lhs alt ch).
  Fixpoint tree_ind2 (t : ttree) : P t :=
    match t with
    | Leaf tok => HL tok
    | Inner lhs alt ch =>
        HI lhs alt ch ((fix go (l : list ttree) : Forall P l :=
                          match l with
                          | [] => Forall_nil P
                          | c :: r => @Forall_cons _ P c r (tree_ind2 c) (go r)
                          end) ch)
    end.
End TreeInd.

Lemma yield_inner lhs alt (ch : list ttree) : yield (Inner lhs alt ch) = concat (map yield ch).
Proof. simpl. induction ch as [|c r IH]; simpl; [reflexivity|]. rewrite IH. reflexivity. Qed.

Lemma value_inner lhs alt (ch : list ttree) :
  valueT (Inner lhs alt ch) = semantic lhs alt (rev (map valueT ch)).
Proof.
  reflexivity.
Qed.

Definition noeof (l : list token) : Prop := Forall (fun t => tk t <> T_EOF) l.

Lemma kinds_app a b : kinds (a ++ b) = kinds a ++ kinds b.
Proof. apply map_app. Qed.

Lemma semantic_other lhs alt popped : lhs <> Nt 7%N ->
  semantic lhs alt popped = (concat (map fst (rev popped)), []).
Proof.
  intros NE. unfold semantic. destruct (sym_eqb lhs macro_sym) eqn:E; auto.
  apply sym_eqb_eq in E. contradiction.
Qed.

Lemma semantic_macro alt popped :
  semantic (Nt 7%N) alt popped = (concat (map fst popped), rev (map fst popped)).
Proof. reflexivity. Qed.

Definition lowQ (t : ttree) : Prop :=
  fst (valueT t) = yield t /\ Derives base_grammar (rootT t) (kinds (yield t)) /\ noeof (yield t).

Lemma lowQ_children (ch : list ttree) : Forall lowQ ch ->
  map fst (map valueT ch) = map yield ch /\
  DerivesL base_grammar (map rootT ch) (kinds (concat (map yield ch))) /\
  noeof (concat (map yield ch)).
Proof.
  induction 1 as [|c r (A & B & C) HR (IA & IB & IC)]; cbn [map concat].
  - repeat split; constructor.
  - split; [rewrite A, IA; reflexivity|]. split.
    + rewrite kinds_app. constructor; auto.
    + apply Forall_app. split; auto.
Qed.

Lemma okb_nt_lt X : okb X = true -> (exists i, X = Tm i /\ i <> 0%N) \/ (exists n, X = Nt n /\ (n < 7)%N).
Proof.
  destruct X; cbn [okb]; intros H; [discriminate| |].
  - left. exists i. split; auto. intros ->. discriminate.
  - right. exists i. split; auto. apply N.ltb_lt. exact H.
Qed.

Lemma low_tree m : forall t, validT (detector_grammar m) t -> okb (rootT t) = true -> lowQ t.
Proof.
  induction t as [tok|lhs alt ch IH] using tree_ind2; intros HV HO.
  - unfold lowQ. cbn [value yield root creator fst]. repeat split.
    + constructor.
    + constructor; [|constructor]. cbn [root okb] in HO. intros E. unfold translator in HO.
      rewrite E in HO. discriminate.
  - cbn [root] in HO. destruct (okb_nt_lt _ HO) as [(i & -> & _)|(n & -> & Hn)].
    + exfalso. apply valid_inner_inv in HV. destruct HV as (rhs & Hr & _).
      rewrite dg_rs_get_other in Hr by discriminate. rewrite rs_get_base in Hr.
      destruct (alookup sym_ltb base_rs (Tm i)) eqn:E.
      * apply alookup_In in E. destruct (rs_okb_spec _ base_okb _ _ E) as [(k & K & _) _]. discriminate.
      * destruct (N.to_nat alt); discriminate.
    + apply valid_inner_inv in HV. destruct HV as (rhs & Hr & Hroots & Hch).
      assert (NE : Nt n <> Nt 7%N) by (intros E; inversion E; lia).
      rewrite dg_rs_get_other in Hr by exact NE.
      assert (HQ : Forall lowQ ch).
      { rewrite Forall_forall in *. intros c Hc. apply IH; auto.
        apply (base_rule_okb (Nt n) rhs); [eapply nth_error_In; eauto|].
        rewrite <- Hroots. apply in_map. exact Hc. }
      destruct (lowQ_children ch HQ) as (A & B & C).
      unfold lowQ. rewrite value_inner, yield_inner. cbn [root]. split; [|split; auto].
      * rewrite semantic_other by exact NE. cbn [fst]. rewrite rev_involutive, A. reflexivity.
      * econstructor; [exact Hr|]. rewrite <- Hroots. exact B.
Qed.

Lemma valid_tm_leaf m t i : validT (detector_grammar m) t -> rootT t = Tm i ->
  exists tok, t = Leaf tok /\ translator tok = i.
Proof.
  destruct t as [tok|lhs alt ch]; cbn [root]; intros HV E.
  - inversion E. eauto.
  - subst lhs. exfalso. apply valid_inner_inv in HV. destruct HV as (rhs & Hr & _).
    rewrite dg_rs_get_other in Hr by discriminate. rewrite rs_get_base in Hr.
    destruct (alookup sym_ltb base_rs (Tm i)) eqn:E.
    + apply alookup_In in E. destruct (rs_okb_spec _ base_okb _ _ E) as [(k & K & _) _]. discriminate.
    + destruct (N.to_nat alt); discriminate.
Qed.

Lemma length_concat_rev {A} (l : list (list A)) : length (concat (rev l)) = length (concat l).
Proof.
  induction l as [|a l IH]; cbn [rev concat]; [reflexivity|].
  rewrite concat_app, !app_length, IH. cbn [concat]. rewrite app_nil_r. lia.
Qed.

Lemma macro_tree m tr : rule_ok m -> validT (detector_grammar m) tr -> rootT tr = Nt 7%N ->
  exists ch, yield tr = concat (map yield ch) /\
             valueT tr = (concat (rev (map yield ch)), map yield ch) /\
             map rootT ch = pat_rhs m /\
             Forall (fun c => validT (detector_grammar m) c /\ lowQ c) ch.
Proof.
  intros RO HV HR. destruct tr as [tok|lhs alt ch]; cbn [root] in HR; [discriminate|]. subst lhs.
  apply valid_inner_inv in HV. destruct HV as (rhs & Hr & Hroots & Hch).
  rewrite dg_rs_get_macro in Hr.
  assert (E : rhs = pat_rhs m).
  { destruct (N.to_nat alt) as [|k]; cbn in Hr; [congruence|]. destruct k; discriminate. }
  rewrite E in Hroots. clear E Hr. exists ch.
  assert (HQ : Forall (fun c => validT (detector_grammar m) c /\ lowQ c) ch).
  { rewrite Forall_forall in *. intros c Hc. split; auto. apply (low_tree m); auto.
    assert (I : In (rootT c) (pat_rhs m)) by (rewrite <- Hroots; apply in_map; exact Hc).
    unfold pat_rhs in I. apply in_map_iff in I. destruct I as (p & <- & Hp).
    apply pattern_okb. unfold rule_ok in RO. rewrite Forall_forall in RO. auto. }
  split; [apply yield_inner|]. split; [|split; auto].
  rewrite value_inner. rewrite (semantic_macro alt).
  assert (HQ' : Forall lowQ ch) by (eapply Forall_impl; [|exact HQ]; intros c [_ Q]; exact Q).
  destruct (lowQ_children ch HQ') as (A & _ & _).
  rewrite map_rev, rev_involutive. f_equal; [f_equal; f_equal|]; exact A.
Qed.

(* ---- the split of a MACRO tree, per pattern symbol --------------------------------------------- *)
Lemma nth_error_map_inv {A B} (f : A -> B) l i y : nth_error (map f l) i = Some y ->
  exists x, nth_error l i = Some x /\ y = f x.
Proof.
  revert i. induction l as [|a l IH]; intros [|i]; cbn; try discriminate.
  - intros H; inversion H; eauto.
  - apply IH.
Qed.

Lemma macro_children m (ch : list ttree) :
  map rootT ch = pat_rhs m -> Forall (fun c => validT (detector_grammar m) c /\ lowQ c) ch ->
  forall i p range, nth_error (m_rule m) i = Some p -> nth_error (map yield ch) i = Some range ->
    match slot_nonterminal (tk p) with
    | Some n => Derives base_grammar (Nt (N.of_nat n)) (kinds range)
    | None => exists t, range = [t] /\ tk t = tk p
    end.
Proof.
  intros HR HQ i p range Hp Hrange.
  apply nth_error_map_inv in Hrange. destruct Hrange as (c & Hc & ->).
  assert (RC : rootT c = pattern_sym p).
  { assert (E : nth_error (map rootT ch) i = Some (rootT c)) by (apply map_nth_error; exact Hc).
    rewrite HR in E. unfold pat_rhs in E. rewrite (map_nth_error pattern_sym _ _ Hp) in E. congruence. }
  rewrite Forall_forall in HQ. destruct (HQ c (nth_error_In _ _ Hc)) as (HV & _ & HD & _).
  unfold pattern_sym in RC. destruct (slot_nonterminal (tk p)) as [n|].
  - rewrite <- RC. exact HD.
  - destruct (valid_tm_leaf _ _ _ HV RC) as (tok & -> & E). exists tok. split; [reflexivity|].
    apply tk_num_inj. exact E.
Qed.

